(* C08 / C10 — model M of finder.find and ParserState.get_setmap on top of the
   multi-file model of Model/C04.v.

   finder.find, as written:
       state = ParserState()                         # trees, maps: the ONLY shared state
       for f in set(codebase) | {e["file"]}: state.insert_file(f)
       for p in configuration:
           for e in configuration[p]:
               file_platform = Platform(p, rootdir)  # FRESH per compile command
               add_include_path*, define*, the -include loop, state.associate(e["file"], file_platform)
   associate() adds the platform NAME to maps[file][node] (a set: it only grows).

   The place where the Platform object is created is made explicit by [carry]:
   what the next entry's Platform inherits from the previous entry's one.  The
   code is [carry_none]; [carry_all] is the Platform hoisted out of the per-entry
   loop, [carry_cache] keeps only found_incl and _skip_includes (a "cache the
   include look-ups per platform" refactoring).  Theorems are about [carry_none];
   the other two are refuted in Props/C08.v.

   Definitions only. *)
From Coq Require Import Bool Arith ZArith String List.
From CBI Require Import Lib.Res Model.C01 Model.C04 Gen.C08_tables.
Import ListNotations.
Local Open Scope string_scope.
Local Open Scope list_scope.

Definition pname := string.
Definition nodeid := (path * nat)%type.            (* file, node (position in the file) *)
Definition triple := (pname * nodeid)%type.        (* "platform name is in maps[file][node]" *)
Definition amap := list triple.                    (* ParserState.maps as a finite relation, in insertion order *)
Definition config := list (pname * list entry).    (* the configuration dict, in insertion order *)

Definition nodeid_eqb (a b : nodeid) : bool := path_eqb (fst a) (fst b) && Nat.eqb (snd a) (snd b).
Definition triple_eqb (a b : triple) : bool := String.eqb (fst a) (fst b) && nodeid_eqb (snd a) (snd b).
Definition mem_triple (t : triple) (am : amap) : bool := existsb (triple_eqb t) am.

(* association[node].add(platform.name) *)
Definition add_triple (t : triple) (am : amap) : amap := if mem_triple t am then am else am ++ [t].
Definition merge (n : pname) (marks : list nodeid) (am : amap) : amap :=
  fold_left (fun a x => add_triple (n, x) a) marks am.

(* Platform(p, rootdir) *)
Definition new_platform : plat :=
  {| assoc := []; defs := []; memo := []; once := []; events := []; dirs := [] |}.
Definition set_dirs x p :=
  {| assoc := assoc p; defs := defs p; memo := memo p; once := once p; events := events p; dirs := x |}.
Definition define_if_absent (d : list (string * mval)) (kv : string * mval) :=
  match lookup (fst kv) d with Some _ => d | None => kv :: d end.

(* add_include_path for every -I, then define for every -D (Platform.define: only if absent) *)
Definition configure (e : entry) (p : plat) : plat :=
  set_defs (fold_left define_if_absent (e_defs e) (defs p)) (set_dirs (dirs p ++ e_dirs e) p).

(* the body of the per-entry loop, on the Platform object [p] *)
Definition run_entry (fs : fsys) (fuel : nat) (e : entry) (p : plat) : res plat :=
  match forced_M fs fuel (dirname (e_file e)) (e_incs e) (configure e p) with
  | Ok p1 => run_file_M fs fuel (e_file e) p1
  | Err x => Err x
  end.

Section Find.
Variable fs : fsys.
Variable fuel : nat.
Variable carry : plat -> plat.

(* an exception raised while one entry is processed propagates out of find: the
   partially updated maps are never observed *)
Fixpoint entries_G (n : pname) (es : list entry) (p : plat) (am : amap) : res amap :=
  match es with
  | [] => Ok am
  | e :: r =>
      match run_entry fs fuel e p with
      | Ok p' => entries_G n r (carry p') (merge n (rev (assoc p')) am)
      | Err x => Err x
      end
  end.

Fixpoint find_G (cfg : config) (am : amap) : res amap :=
  match cfg with
  | [] => Ok am
  | (n, es) :: r =>
      match entries_G n es new_platform am with
      | Ok am' => find_G r am'
      | Err x => Err x
      end
  end.
End Find.

Definition carry_none (_ : plat) : plat := new_platform.
Definition carry_all (p : plat) : plat := p.
Definition carry_cache (p : plat) : plat :=
  {| assoc := []; defs := []; memo := memo p; once := once p; events := []; dirs := [] |}.

(* A third variant (a seeded regression had this shape): a "prefix header" cache.  After the
   forced includes of a command the Platform is saved with a SHALLOW copy under the key
   (platform, directory of the source file, -I list, -D list, -include list); a later command of
   the same platform with the same key skips configuration and forced includes and starts from
   a shallow copy of the snapshot.  The copies share the macro table, the once-list and the
   include memo with the command that created them, so the snapshot is in fact the END state
   of the previous same-key command, and it keeps accumulating. *)
Definition pkey := (path * list path * list (string * mval) * list path)%type.
Definition pkey_of (e : entry) : pkey := (dirname (e_file e), e_dirs e, e_defs e, e_incs e).
Fixpoint list_eqb {A} (eqb : A -> A -> bool) (a b : list A) : bool :=
  match a, b with
  | [], [] => true
  | x :: a', y :: b' => eqb x y && list_eqb eqb a' b'
  | _, _ => false
  end.
Definition pkey_eqb (a b : pkey) : bool :=
  let '(d1, i1, m1, f1) := a in let '(d2, i2, m2, f2) := b in
  path_eqb d1 d2 && list_eqb path_eqb i1 i2 &&
  list_eqb (fun x y => String.eqb (fst x) (fst y) && mval_eqb (snd x) (snd y)) m1 m2 &&
  list_eqb path_eqb f1 f2.
Fixpoint store_get (k : pkey) (st : list (pkey * plat)) : option plat :=
  match st with [] => None | (k', p) :: r => if pkey_eqb k k' then Some p else store_get k r end.
Definition store_set (k : pkey) (p : plat) (st : list (pkey * plat)) : list (pkey * plat) := (k, p) :: st.

Section FindPrefix.
Variable fs : fsys.
Variable fuel : nat.
Fixpoint entries_P (n : pname) (es : list entry) (st : list (pkey * plat)) (am : amap) : res amap :=
  match es with
  | [] => Ok am
  | e :: r =>
      let k := pkey_of e in
      match store_get k st with
      | Some p0 =>
          match run_file_M fs fuel (e_file e) p0 with
          | Ok p' => entries_P n r (store_set k p' st) (merge n (rev (assoc p')) am)
          | Err x => Err x
          end
      | None =>
          match run_entry fs fuel e new_platform with
          | Ok p' => entries_P n r (match e_incs e with [] => st | _ => store_set k p' st end)
                               (merge n (rev (assoc p')) am)
          | Err x => Err x
          end
      end
  end.
Fixpoint find_P (cfg : config) (am : amap) : res amap :=
  match cfg with
  | [] => Ok am
  | (n, es) :: r => match entries_P n es [] am with Ok am' => find_P r am' | Err x => Err x end
  end.
End FindPrefix.
Definition find_prefix (fs : fsys) (fuel : nat) (cfg : config) : res amap := find_P fs fuel cfg [].

(* A fifth variant (another seeded regression had this shape): ParserState.associate returns at
   once for a file that consists of ONE node which is already recorded for this platform NAME
   ("walking it again cannot add anything") - but the node may be a directive (#define, #undef,
   #include, #pragma once) whose effect on the fresh Platform of a later command is then lost.
   Modelled where associate is called from find: the forced includes and the compiled file
   (the same shortcut inside IncludeNode is not needed for the witness). *)
Definition skip_assoc (fs : fsys) (n : pname) (am : amap) (f : path) : bool :=
  match fs_get fs f with
  | Some [(id, _)] => mem_triple (n, (f, id)) am
  | _ => false
  end.

Section FindSkip.
Variable fs : fsys.
Variable fuel : nat.
Fixpoint forced_K (n : pname) (am : amap) (this : path) (incs : list path) (p : plat) : res plat :=
  match incs with
  | [] => Ok p
  | i :: r =>
      let '(p1, res) := find_include fs (i, this, false) p in
      match res with
      | None => forced_K n am this r p1
      | Some f =>
          if mem_path f (once p1) || skip_assoc fs n am f then forced_K n am this r p1
          else match run_file_M fs fuel f p1 with Ok p2 => forced_K n am this r p2 | Err e => Err e end
      end
  end.
Definition run_entry_K (n : pname) (am : amap) (e : entry) : res plat :=
  match forced_K n am (dirname (e_file e)) (e_incs e) (configure e new_platform) with
  | Ok p1 => if skip_assoc fs n am (e_file e) then Ok p1 else run_file_M fs fuel (e_file e) p1
  | Err x => Err x
  end.
Fixpoint entries_K (n : pname) (es : list entry) (am : amap) : res amap :=
  match es with
  | [] => Ok am
  | e :: r => match run_entry_K n am e with
              | Ok p' => entries_K n r (merge n (rev (assoc p')) am)
              | Err x => Err x
              end
  end.
Fixpoint find_K (cfg : config) (am : amap) : res amap :=
  match cfg with
  | [] => Ok am
  | (n, es) :: r => match entries_K n es am with Ok am' => find_K r am' | Err x => Err x end
  end.
End FindSkip.
Definition find_skipping_recorded (fs : fsys) (fuel : nat) (cfg : config) : res amap := find_K fs fuel cfg [].

(* finder.find as written: WHERE the Platform is created is read from the source
   (Gen/C08_tables.v, regenerated by tools/gen/c08_tables.py on every run), so that
   hoisting it moves the model with the code - and breaks the theorems of Props/C08.v *)
Definition carry_of (s : platform_scope) : plat -> plat :=
  match s with PerEntry => carry_none | PerPlatform => carry_all end.
Definition find_M (fs : fsys) (fuel : nat) (cfg : config) : res amap :=
  find_G fs fuel (carry_of platform_created) cfg [].
Definition find_hoisted (fs : fsys) (fuel : nat) (cfg : config) : res amap := find_G fs fuel carry_all cfg [].
Definition find_cached (fs : fsys) (fuel : nat) (cfg : config) : res amap := find_G fs fuel carry_cache cfg [].

(* The first loop of find: insert_file (= parse, build the tree) for every member of
   the code base and every compiled file, BEFORE anything is associated.  A file whose
   directives do not nest makes SourceTree.insert raise there, even if no command
   compiles or includes it.  Headers outside this set are parsed on demand (run_M). *)
Definition parses (ls : list (line act cond)) : bool :=
  match build act cond ls with Ok _ => true | Err _ => false end.
Definition is_compiled (cfg : config) (f : path) : bool :=
  existsb (fun ne => existsb (fun e => path_eqb (e_file e) f) (snd ne)) cfg.
Definition preparse_err : string := "AttributeError: walked to the root looking for an insertion point".
Definition preparse (fs : fsys) (member : path -> bool) (cfg : config) : res unit :=
  if forallb (fun fl => negb (member (fst fl) || is_compiled cfg (fst fl)) || parses (snd fl)) fs
  then Ok tt else Err preparse_err.

(* find(rootdir, codebase, configuration): the code base only decides what is pre-parsed *)
Definition find_cb (fs : fsys) (fuel : nat) (member : path -> bool) (cfg : config) : res amap :=
  match preparse fs member cfg with
  | Ok _ => find_M fs fuel cfg
  | Err x => Err x
  end.

(* -p: only the selected platforms' databases are loaded, in the analysis file's order *)
Definition select (keep : pname -> bool) (cfg : config) : config := filter (fun ne => keep (fst ne)) cfg.

(* ---------- ParserState.get_setmap ---------- *)
(* frozenset(association[node]) in canonical form: the sub-list of [names] (the
   configuration's platform names, without repetition) recorded for the node *)
Definition plats_of (names : list pname) (am : amap) (x : nodeid) : list pname :=
  filter (fun n => mem_triple (n, x) am) names.

Definition key := list pname.
Definition key_eqb (a b : key) : bool := if list_eq_dec string_dec a b then true else false.
Definition setmap := list (key * nat).             (* defaultdict(int), in insertion order *)

Fixpoint bump (k : key) (w : nat) (sm : setmap) : setmap :=
  match sm with
  | [] => [(k, w)]
  | (k', c) :: r => if key_eqb k k' then (k', c + w) :: r else (k', c) :: bump k w r
  end.
Fixpoint get (k : key) (sm : setmap) : nat :=
  match sm with [] => 0 | (k', c) :: r => if key_eqb k k' then c else get k r end.

Section Setmap.
Variable names : list pname.
Variable w : nodeid -> nat.                         (* CodeNode.num_lines *)
Variable member : path -> bool.                     (* fn in codebase *)
Variable am : amap.

Definition setmap_file (f : path) (ls : list (line act cond)) (sm : setmap) : setmap :=
  fold_left (fun s l => bump (plats_of names am (f, fst l)) (w (f, fst l)) s) ls sm.

(* for fn in codebase: for node in tree.walk(): setmap[frozenset(association[node])] += node.num_lines
   (every file of the code base was parsed by find; the files that exist are those of [fs]) *)
Definition setmap_M (fs : fsys) : setmap :=
  fold_left (fun s fl => if member (fst fl) then setmap_file (fst fl) (snd fl) s else s) fs [].
End Setmap.

Fixpoint dedup (l : list pname) : list pname :=
  match l with [] => [] | x :: r => if existsb (String.eqb x) r then dedup r else x :: dedup r end.
Definition names_of (cfg : config) : list pname := dedup (map fst cfg).
