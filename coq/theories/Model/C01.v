(* C01 — model M of SourceTree.insert + Node.visit + ParserState.associate.associator
   (codebasin/preprocessor.py, codebasin/finder.py).  Definitions only.

   The platform state [ST], how a node is recorded ([mark]), what a plain
   (non-conditional) node does ([exec]: #define, #undef, #include, #pragma,
   code, unrecognised directive) and how a condition is evaluated ([ev]) are
   Section variables: every theorem about this file holds for ALL of them,
   including evaluators and actions that fail. *)
From Coq Require Import List Bool Arith String.
From CBI Require Import Lib.Res.
Import ListNotations.

Section Generic.
Variables ST ACT COND : Type.
Variable mark : nat -> ST -> ST.
Variable exec : ACT -> ST -> res ST.
Variable ev : COND -> ST -> res bool.

Inductive kind := KPlain (a : ACT) | KIf (c : COND) | KElif (c : COND) | KElse | KEndif.
Definition line := (nat * kind)%type.     (* node id (position in file order), kind *)

Definition is_start (k : kind) := match k with KIf _ => true | _ => false end.
Definition is_cont (k : kind) := match k with KElif _ | KElse => true | _ => false end.
Definition is_end (k : kind) := match k with KEndif => true | _ => false end.

(* ---------- SourceTree.insert as a zipper ---------- *)
Inductive tree := T (id : nat) (k : kind) (kids : list tree).
(* an open start/cont node: its earlier siblings (reversed), its id and kind *)
Record frame := { before : list tree; oid : nat; ok : kind }.
(* (children of the innermost open node, reversed ; open nodes, innermost first) *)
Definition zs := (list tree * list frame)%type.

Definition insert (z : zs) (l : line) : res zs :=
  let '(cur, stk) := z in
  let '(id, k) := l in
  if is_start k then Ok ([], {| before := cur; oid := id; ok := k |} :: stk)
  else if is_cont k || is_end k then
    match stk with
    | [] =>
        match cur with
        | [] => (* _latest_node == root: inserted in place under the root *)
            if is_cont k then Ok ([], [{| before := []; oid := id; ok := k |}]) else Ok ([T id k []], [])
        | _ => Err "AttributeError: walked to the root looking for an insertion point"
        end
    | f :: stk' =>
        let level := T (oid f) (ok f) (rev cur) :: before f in
        if is_cont k then Ok ([], {| before := level; oid := id; ok := k |} :: stk')
        else Ok (T id k [] :: level, stk')
    end
  else Ok (T id k [] :: cur, stk).

Fixpoint inserts (z : zs) (ls : list line) : res zs :=
  match ls with
  | [] => Ok z
  | l :: ls' => match insert z l with Ok z' => inserts z' ls' | Err e => Err e end
  end.

Fixpoint close (cur : list tree) (stk : list frame) : list tree :=
  match stk with
  | [] => rev cur
  | f :: stk' => close (T (oid f) (ok f) (rev cur) :: before f) stk'
  end.

Definition build (ls : list line) : res (list tree) :=
  match inserts ([], []) ls with
  | Ok (cur, stk) => Ok (close cur stk)
  | Err e => Err e
  end.

(* ---------- Node.visit with the associator closure ---------- *)
Record mst := { bt : list bool; pst : ST }.   (* branch_taken stack, platform/association state *)

Definition pop_err : string := "IndexError: branch_taken is empty".

Fixpoint visit (t : tree) (s : mst) {struct t} : res mst :=
  match t with
  | T id k kids =>
    let p := mark id (pst s) in                       (* association[node].add(platform) *)
    let descend (s : mst) :=
      (fix vl (ts : list tree) (s : mst) : res mst :=
         match ts with
         | [] => Ok s
         | t' :: ts' => match visit t' s with Ok s' => vl ts' s' | Err e => Err e end
         end) kids s in
    match k with
    | KPlain a =>
        match exec a p with Ok p' => Ok {| bt := bt s; pst := p' |} | Err e => Err e end
    | KIf c =>
        match ev c p with
        | Err e => Err e
        | Ok a => let s' := {| bt := a :: bt s; pst := p |} in if a then descend s' else Ok s'
        end
    | KElif c =>
        match bt s with
        | [] => Err pop_err
        | b :: r =>
            if b then Ok {| bt := bt s; pst := p |}       (* chain already selected: not evaluated *)
            else match ev c p with
                 | Err e => Err e
                 | Ok a => let s' := {| bt := a :: r; pst := p |} in if a then descend s' else Ok s'
                 end
        end
    | KElse =>
        match bt s with
        | [] => Err pop_err
        | b :: r => if b then Ok {| bt := bt s; pst := p |} else descend {| bt := true :: r; pst := p |}
        end
    | KEndif =>
        match bt s with [] => Err pop_err | _ :: r => Ok {| bt := r; pst := p |} end
    end
  end.

Fixpoint visits (ts : list tree) (s : mst) : res mst :=
  match ts with
  | [] => Ok s
  | t :: ts' => match visit t s with Ok s' => visits ts' s' | Err e => Err e end
  end.

(* state.associate(file, platform) on the tree built from the file's nodes *)
Definition run_M (ls : list line) (p : ST) : res ST :=
  match build ls with
  | Ok ts => match visits ts {| bt := []; pst := p |} with Ok s => Ok (pst s) | Err e => Err e end
  | Err e => Err e
  end.

End Generic.

Arguments KPlain {ACT COND}. Arguments KIf {ACT COND}. Arguments KElif {ACT COND}.
Arguments KElse {ACT COND}. Arguments KEndif {ACT COND}.
Arguments T {ACT COND}.
