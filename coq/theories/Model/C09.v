(* C09 — model of codebasin/__init__.py : CodeBase.__init__ / __contains__ /
   __iter__ and codebasin/source.py : is_source_file, as the code IS.
   Definitions only; proofs are in Proofs/C09*.v.

   File system: a finite list of (absolute path, kind) entries; the model root
   [] stands for the scratch directory the harness builds the tree in.
   pathlib.Path.resolve (non-strict os.path.realpath followed by the ELOOP
   probe) is the fuelled machine [rp]; running out of fuel is the symlink-loop
   error.  pathspec.GitIgnoreSpec (third party, modelled not verified) is
   [ps_match]: per pattern "file match / match through a parent directory /
   no match" followed by GitIgnoreSpec._match_file's priority fold. *)
From Coq Require Import Bool Arith Ascii String List.
From CBI Require Import Lib.Res Lib.Data Lib.C09_glob Gen.C09_tables.
Import ListNotations.
Local Open Scope string_scope.

(* ---------- file system ---------- *)
Inductive kind := KFile | KDir | KLink (tgt : string).
Definition path := list string.
Definition fsys := list (path * kind).

Fixpoint path_eqb (a b : path) : bool :=
  match a, b with
  | [], [] => true
  | x :: a', y :: b' => String.eqb x y && path_eqb a' b'
  | _, _ => false
  end.
Fixpoint assoc_path (fs : fsys) (p : path) : option kind :=
  match fs with
  | [] => None
  | (q, k) :: r => if path_eqb q p then Some k else assoc_path r p
  end.
Definition lookup (fs : fsys) (p : path) : option kind :=
  match p with [] => Some KDir | _ => assoc_path fs p end.

Fixpoint is_prefix (a b : path) : bool :=
  match a, b with
  | [], _ => true
  | x :: a', y :: b' => String.eqb x y && is_prefix a' b'
  | _ :: _, [] => false
  end.

(* text of a path -> components (empty components kept; [rp] skips them) *)
Definition split_path (s : string) : list string :=
  map string_of_list (split_on is_slash (list_of_string s)).
Definition is_abs (s : string) : bool :=
  match s with String c _ => is_slash c | EmptyString => false end.

(* os.path.realpath(strict=False) as pathlib.Path.resolve uses it.
   acc = resolved prefix, reversed; todo = components still to process. *)
Fixpoint rp (fuel : nat) (fs : fsys) (acc : list string) (todo : list string) : res path :=
  match fuel with
  | 0 => Err "SymlinkLoop"
  | S f =>
    match todo with
    | [] => Ok (rev acc)
    | c :: t =>
        if String.eqb c "" || String.eqb c "." then rp f fs acc t
        else if String.eqb c ".." then rp f fs (tl acc) t
        else match lookup fs (rev (c :: acc)) with
             | Some (KLink tgt) =>
                 if is_abs tgt then rp f fs [] (split_path tgt ++ t)
                 else rp f fs acc (split_path tgt ++ t)
             | _ => rp f fs (c :: acc) t          (* file, directory or missing: keep the name *)
             end
    end
  end.

Definition link_budget : nat := Nat.mul 32 32.
Definition resolve_comps (fs : fsys) (start : path) (todo : list string) : res path :=
  rp (S (length todo) + link_budget) fs (rev start) todo.
(* Path(s).resolve() with the process in directory cwd (a physical path) *)
Definition resolve (fs : fsys) (cwd : path) (s : string) : res path :=
  resolve_comps fs (if is_abs s then [] else cwd) (split_path s).

(* ---------- source.is_source_file ---------- *)
Fixpoint span_dot (r : chars) (acc : chars) : option (chars * chars) :=
  match r with
  | [] => None
  | c :: t => if Ascii.eqb c "." then Some (acc, t) else span_dot t (c :: acc)
  end.
(* pathlib.PurePath.suffix of a final component (CPython 3.12) *)
Definition suffix (name : string) : string :=
  match span_dot (rev (list_of_string name)) [] with
  | Some (e, pre) => match e, pre with
                     | [], _ => ""
                     | _, [] => ""
                     | _, _ => string_of_list ("."%char :: e)
                     end
  | None => ""
  end.
(* os.path.splitext(name)[1]: from the last dot, provided some character before it is
   not a dot (leading dots belong to the name: ".c" and "..c" have no extension) *)
Definition splitext_ext (name : string) : string :=
  match span_dot (rev (list_of_string name)) [] with
  | Some (e, pre) => if existsb (fun c => negb (Ascii.eqb c ".")) pre
                     then string_of_list ("."%char :: e) else ""
  | None => ""
  end.

Definition is_source_name (exts : list string) (name : string) : bool :=
  existsb (String.eqb (suffix name)) exts.
Definition has_ext_in (exts : list string) (name : string) : bool :=
  existsb (String.eqb (splitext_ext name)) exts.
(* source.is_source_file (after the repair: os.path.splitext, as FileLanguage) *)
Definition is_source_file (p : path) : bool :=
  has_ext_in source_extensions (last p "").
(* ... and before it (pathlib suffix) *)
Definition is_source_file_before_fix (p : path) : bool :=
  is_source_name source_extensions (last p "").

(* ---------- pathspec.GitIgnoreSpec ---------- *)
Inductive outcome := NoM | FileM | DirM.
(* the compiled regex of one pattern against the text of a file path: a match of
   the whole path has no directory mark; a match that ends at a parent
   directory (the rest consumed by the "/.*" tail) carries the mark *)
Definition outcome_of (p : apat) (cs : list chars) : outcome :=
  let anc := existsb (bm (p_segs p)) (sprefixes cs) in
  if p_dir p then (if anc then DirM else NoM)
  else if bm (p_segs p) cs then FileM
  else if anc then DirM else NoM.

(* GitIgnoreSpec._match_file: (out_include, out_priority) *)
Definition ps_step (cs : list chars) (st : option bool * nat) (p : apat) : option bool * nat :=
  match outcome_of p cs with
  | NoM => st
  | FileM => (Some (negb (p_neg p)), 2)
  | DirM => if negb (p_neg p) then (Some true, 1)
            else if Nat.leb (snd st) 1 then (Some false, 1) else st
  end.
Definition ps_match (ps : list apat) (cs : list chars) : bool :=
  match fst (fold_left (ps_step cs) ps (None, 0)) with Some true => true | _ => false end.

(* GitIgnoreSpec.from_lines *)
Inductive compiled := CPats (ps : list apat) | CErr | CUnsup.
Fixpoint compile (git : bool) (lines : list string) : compiled :=
  match lines with
  | [] => CPats []
  | l :: r =>
      match parse git l, compile git r with
      | PUnsup, _ => CUnsup
      | _, CUnsup => CUnsup
      | PErr, _ => CErr
      | _, CErr => CErr
      | PNone, CPats ps => CPats ps
      | PPat p, CPats ps => CPats (p :: ps)
      end
  end.

(* ---------- CodeBase ---------- *)
Record codebase := { cb_roots : list path; cb_lines : list string }.

Fixpoint find_root (roots : list path) (r : path) : option path :=
  match roots with
  | [] => None
  | d :: rest => if is_prefix d r then Some d else find_root rest r
  end.

(* the text pathspec receives: the root-relative path, "." when empty *)
Definition rel_comps (root r : path) : list chars :=
  match skipn (length root) r with
  | [] => [list_of_string "."]
  | l => map list_of_string l
  end.

(* __contains__ after path = Path(path).resolve() *)
Definition contains_resolved (fs : fsys) (cb : codebase) (r : path) : res bool :=
  match lookup fs r with
  | Some KFile =>
      if negb (is_source_file r) then Ok false else
      match find_root (cb_roots cb) r with
      | None => Ok false
      | Some root =>
          match compile false (cb_lines cb) with
          | CPats ps => Ok (negb (ps_match ps (rel_comps root r)))
          | CErr => Err "PatternError"
          | CUnsup => Err "Unsupported"
          end
      end
  | _ => Ok false        (* missing, or a directory *)
  end.

Definition contains (fs : fsys) (cwd : path) (cb : codebase) (s : string) : res bool :=
  bind (resolve fs cwd s) (contains_resolved fs cb).
Definition contains_abs (fs : fsys) (cb : codebase) (p : path) : res bool :=
  bind (resolve_comps fs [] p) (contains_resolved fs cb).

(* Path(root).rglob("*"): every entry strictly below root that is reached through
   real directories only (CPython 3.12 does not descend through directory links) *)
Fixpoint dirs_between (fs : fsys) (n : nat) (pre : path) (rest : list string) : bool :=
  (* pre = first components (reversed), rest = remaining; every prefix of length >= n
     that is a proper prefix of the whole path must be a directory *)
  match rest with
  | [] => true
  | c :: t =>
      (if Nat.leb n (length pre) then match lookup fs (rev pre) with Some KDir => true | _ => false end else true)
      && dirs_between fs n (c :: pre) t
  end.
Definition below (fs : fsys) (root p : path) : bool :=
  is_prefix root p && Nat.ltb (length root) (length p) && dirs_between fs (length root) [] p.
Definition rglob (fs : fsys) (root : path) : list path :=
  map fst (filter (fun e => below fs root (fst e)) fs).

(* __iter__: for each directory, for each globbed path, yield it when __contains__ *)
Fixpoint filter_res (f : path -> res bool) (l : list path) : res (list path) :=
  match l with
  | [] => Ok []
  | p :: r => match f p with
              | Err e => Err e
              | Ok b => match filter_res f r with
                        | Err e => Err e
                        | Ok out => Ok (if b then p :: out else out)
                        end
              end
  end.
Definition iter (fs : fsys) (cb : codebase) : res (list path) :=
  filter_res (contains_abs fs cb) (flat_map (rglob fs) (cb_roots cb)).

(* CodeBase(dirs..., exclude_patterns=lines): each directory is resolved at construction *)
Fixpoint resolve_all (fs : fsys) (cwd : path) (ds : list string) : res (list path) :=
  match ds with
  | [] => Ok []
  | d :: r => match resolve fs cwd d, resolve_all fs cwd r with
              | Ok p, Ok ps => Ok (p :: ps)
              | Err e, _ => Err e
              | _, Err e => Err e
              end
  end.
Definition make (fs : fsys) (cwd : path) (ds : list string) (lines : list string) : res codebase :=
  rmap (fun rs => {| cb_roots := rs; cb_lines := lines |}) (resolve_all fs cwd ds).
