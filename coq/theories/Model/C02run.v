(* Driver entry for C02: decodes one case, runs the model M (Model/C02.v) on the
   TOKENS and the specification S (Spec/C02.v) on the AST, encodes both answers.
   case   = ( tokens env ast cmp text )       text: the expression as written after `#if`
     tokens = list of (kindcode spelling)           as Lexer.tokenize leaves them
     env    = list of (name tokens)                 object-like macros: Macro.replacement
     ast    = 0 | (L body sfx) | (C spelling) | (I name) | (D name paren) | (P e)
              | (U op e) | (B op a b) | (T c a b)
   answer = ( M S T L ) M = (Ok truth z unsigned) | (Err kind)   T = 1 | 0 | NA (see cmp below)
                      L = 1 | 0 : the model of Lexer.tokenize run on text gives exactly `tokens`
                      (M is evaluated on the MODEL's tokens: text -> tokenize -> expand -> evaluate)
                      S = (Ok truth z unsigned) | UB | NoAst | BadAst
   Definitions only. *)
From Coq Require Import ZArith Bool String Ascii List.
From CBI Require Import Lib.Data Model.C02 Model.C02lex Spec.C02.
Import ListNotations.
Local Open Scope string_scope.

Definition dec_kind (d : data) : option kind :=
  match d with
  | DInt 0 => Some KNum | DInt 1 => Some KChar | DInt 2 => Some KStr | DInt 3 => Some KId
  | DInt 4 => Some KOp | DInt 5 => Some KPunct | DInt 6 => Some KUnk
  | _ => None
  end.
Definition dec_token (d : data) : option token :=
  match d with
  | DList [k; s] => match dec_kind k, as_str s with Some k, Some s => Some (Tok k s) | _, _ => None end
  | _ => None
  end.
Definition dec_macro (d : data) : option (string * list token) := as_pair as_str (as_list_of dec_token) d.

Definition dec_unop (s : string) : option unop :=
  find (fun o => String.eqb (uspell o) s) all_unops.
Definition dec_binop (s : string) : option binop :=
  find (fun o => String.eqb (bspell o) s) all_binops.

Fixpoint dec_expr (d : data) : option expr :=
  match d with
  | DList [DStr "L"; DStr body; DStr sfx] => Some (ELit body sfx)
  | DList [DStr "C"; DStr s] => Some (EChar s)
  | DList [DStr "I"; DStr n] => Some (EId n)
  | DList [DStr "D"; DStr n; DInt p] => Some (EDefined n (negb (Z.eqb p 0)))
  | DList [DStr "P"; x] => option_map EParen (dec_expr x)
  | DList [DStr "U"; DStr o; x] =>
      match dec_unop o, dec_expr x with Some o, Some x => Some (EUn o x) | _, _ => None end
  | DList [DStr "B"; DStr o; a; b] =>
      match dec_binop o, dec_expr a, dec_expr b with Some o, Some a, Some b => Some (EBin o a b) | _, _, _ => None end
  | DList [DStr "T"; c; a; b] =>
      match dec_expr c, dec_expr a, dec_expr b with Some c, Some a, Some b => Some (ECond c a b) | _, _, _ => None end
  | _ => None
  end.

Definition enc_val (v : val) : data :=
  DList [DStr "Ok"; of_bool (negb (Z.eqb (vz v) 0)); DInt (vz v); of_bool (vu v)].
Definition enc_outcome (o : outcome) : data :=
  match o with
  | OVal v => enc_val v
  | OParseError => DList [DStr "Err"; DStr "ParseError"]
  | OOverflowError => DList [DStr "Err"; DStr "OverflowError"]
  | OTypeError => DList [DStr "Err"; DStr "TypeError"]
  | OAttributeError => DList [DStr "Err"; DStr "AttributeError"]
  | OUnsupported => DList [DStr "Err"; DStr "Unsupported"]
  | OOutOfFuel => DList [DStr "Err"; DStr "OutOfFuel"]
  end.

Definition tok_eqb (a b : token) : bool := kind_eqb (tkind a) (tkind b) && String.eqb (tspell a) (tspell b).
Fixpoint toks_eqb (a b : list token) : bool :=
  match a, b with
  | [], [] => true
  | x :: a', y :: b' => tok_eqb x y && toks_eqb a' b'
  | _, _ => false
  end.

(* cmp = 1: also report whether the tokens the real Lexer produced from the rendered text are
   exactly [tokens dt_source 0 e], the token sequence the theorems in Props/C02.v speak about *)
Definition run_C02 (d : data) : data :=
  match d with
  | DList [toks; env; ast; cmp; DStr text] =>
      match as_list_of dec_token toks, as_list_of dec_macro env with
      | Some ts, Some en =>
          let lexed := tokenize (list_of_string text) in
          let m := enc_outcome (evaluate_text en (list_of_string text)) in
          let l := match lexed with Some mts => of_bool (toks_eqb mts ts) | None => of_bool false end in
          let '(s, t) :=
            match ast with
            | DInt _ => (DStr "NoAst", DStr "NA")
            | _ => match dec_expr ast with
                   | Some e =>
                       (match sem (map fst en) e with Some v => enc_val v | None => DStr "UB" end,
                        match cmp with
                        | DInt 1 => of_bool (toks_eqb ts (tokens dt_source 0 e))
                        | _ => DStr "NA"
                        end)
                   | None => (DStr "BadAst", DStr "NA")
                   end
            end in
          DList [m; s; t; l]
      | _, _ => bad_case
      end
  | _ => bad_case
  end.
