(* C18 — codec for the correspondence driver and the instance of the model with
   the GENERATED tables. *)
From Coq Require Import Bool Arith ZArith String List.
From CBI Require Import Lib.Res Lib.Data Lib.C18_str Model.C01 Spec.C01 Model.C04 Spec.C04 Model.C04i Model.C18 Spec.C18 Gen.C18_tables.
Import ListNotations.
Local Open Scope string_scope.

(* ---------- the instance ---------- *)
Definition find_M := run_find_M unhandled base_options compilers source_extensions optional_value flag_groups.
Definition find_S := run_find_S base_options compilers source_extensions optional_value.
Definition closing_M (o : run_out) : list string * list nat := closing meta_warnings (as_lrecs (all_records o)).

(* ---------- decoding ---------- *)
Definition dec_line (d : data) : option (nat * kind act cond) :=
  match d with
  | DList [ln; k] => match as_nat ln, dec_kind k with Some n, Some f => Some (n, f n) | _, _ => None end
  | _ => None
  end.
Fixpoint renumber (i : nat) (l : list (nat * kind act cond)) : list (line act cond) :=
  match l with [] => [] | (_, k) :: r => (i, k) :: renumber (S i) r end.
Definition dec_tok (d : data) : option (bool * string) := as_pair as_bool as_str d.
Definition dec_udir (d : data) : option udir :=
  match d with
  | DList [ln; col; toks] =>
      match as_nat ln, as_nat col, as_list_of dec_tok toks with
      | Some l, Some c, Some t => Some {| u_line := l; u_col := c; u_toks := t |}
      | _, _, _ => None
      end
  | _ => None
  end.
Definition dec_cfile (d : data) : option (path * cfile) :=
  match d with
  | DList [p; ls; us] =>
      match dec_path p, as_list_of dec_line ls, as_list_of dec_udir us with
      | Some p, Some ls, Some us => Some (p, {| cf_lines := renumber 0 ls; cf_unk := us |})
      | _, _, _ => None
      end
  | _ => None
  end.
Definition dec_carg (d : data) : option carg :=
  match d with
  | DList [DStr "D"; DStr m; v] => option_map (CDef m) (dec_mval v)
  | DList [DStr "I"; s; p] => match as_bool s, dec_path p with Some s, Some p => Some (CInc s p) | _, _ => None end
  | DList [DStr "F"; p] => option_map CForce (dec_path p)
  | DList [DStr "R"; DStr t] => Some (CRaw t)
  | _ => None
  end.
Definition dec_dbentry (d : data) : option dbentry :=
  match d with
  | DList [f; DList a0; args] =>
      match dec_path f, as_list_of dec_carg args with
      | Some f, Some args =>
          match a0 with
          | [] => Some {| db_file := f; db_argv0 := None; db_args := args |}
          | [DStr a] => Some {| db_file := f; db_argv0 := Some a; db_args := args |}
          | _ => None
          end
      | _, _ => None
      end
  | _ => None
  end.
Definition dec_platform (d : data) : option (string * list dbentry) :=
  as_pair as_str (as_list_of dec_dbentry) d.

(* ---------- encoding ---------- *)
Definition enc_strs (l : list string) : data := of_list DStr l.
Definition enc_sev (s : sev) : data :=
  match s with
  | SMissingFile p => DList [DStr "missing-file"; DStr (rpath p)]
  | SUnsupported c => DList [DStr "unsupported"; DStr c]
  | SUnknownCompiler n => DList [DStr "unknown-compiler"; DStr n]
  | SUnknownArgs l => DList [DStr "unknown-args"; enc_strs l]
  | SEmptyDB db => DList [DStr "empty-db"; DStr db]
  | SUnknownDirective f l c sp => DList [DStr "unknown-directive"; DStr (rpath f); of_nat l; of_nat c; DStr sp]
  | SMissingInclude f l n a => DList [DStr "missing-include"; DStr (rpath f); of_nat l; DStr (rname n); of_bool a]
  | SMissingForced f n => DList [DStr "missing-forced"; DStr (rpath f); DStr (rname n)]
  | SBadCommand e => DList [DStr "bad-command"; DStr e]
  end.
Definition enc_M (r : res run_out) : data :=
  match r with
  | Ok o =>
      let '(closing_msgs, counts) := closing_M o in
      DList [DStr "Ok"; enc_strs (map msg_of (o_db o)); enc_strs (map msg_of (o_parse o)); enc_strs (map msg_of (o_inc o ++ o_forced o));
             enc_strs closing_msgs; of_list of_nat counts]
  | Err e => DList [DStr "Err"; DStr e]
  end.
Definition enc_S (r : res (list sev)) : data :=
  match r with
  | Ok l => let '(n, u, s) := totals_S l in DList [DStr "Ok"; of_list enc_sev l; DList [of_nat n; of_nat u; of_nat s]]
  | Err e => DList [DStr "Err"; DStr e]
  end.

(* CodeBase(rootdir): the files with a source extension *)
Definition codebase_of (c : cfs) : list path := filter (is_source source_extensions) (map fst c).

(* case: (files platforms) ; answer: (M S) *)
Definition run_C18 (d : data) : data :=
  match d with
  | DList [files; pls] =>
      match as_list_of dec_cfile files, as_list_of dec_platform pls with
      | Some c, Some pls =>
          DList [enc_M (find_M c include_depth (codebase_of c) pls); enc_S (find_S c include_depth (codebase_of c) pls)]
      | _, _ => bad_case
      end
  | _ => bad_case
  end.
