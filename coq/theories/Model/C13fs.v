(* C13 - model of the host file system as far as path look-up is concerned:
   an immutable tree WITHOUT symbolic links, and the kernel's path walk on it
   (what open(2)/stat(2) do with a spelling).  Used by M for os.path.exists
   and by S for "what a compiler started in that directory would open".
   Definitions only. *)
From Coq Require Import Bool Arith Ascii List.
From CBI Require Import Model.C13p.
Import ListNotations.

(* a location: the names on the way from "/" to the object, LAST NAME FIRST
   ([] is the root directory) *)
Definition loc := list str.

Fixpoint loc_eqb (a b : loc) : bool :=
  match a, b with
  | [], [] => true
  | x :: a', y :: b' => str_eqb x y && loc_eqb a' b'
  | _, _ => false
  end.

(* one component of a spelling, applied to a location: "" and "." stay,
   ".." goes to the parent (the root is its own parent), a name goes down *)
Definition step (l : loc) (c : str) : loc :=
  if str_eqb c [] || str_eqb c dot then l
  else if str_eqb c dotdot then match l with _ :: t => t | [] => [] end
  else c :: l.

(* the tree: every existing object with its kind (true = directory) *)
Definition fsys := list (loc * bool).

Fixpoint lookup (fs : fsys) (l : loc) : option bool :=
  match fs with
  | [] => None
  | (l', k) :: r => if loc_eqb l l' then Some k else lookup r l
  end.

(* the root always exists and is a directory *)
Definition kind_of (fs : fsys) (l : loc) : option bool :=
  match l with [] => Some true | _ => lookup fs l end.

(* the kernel's walk: every component (also "", "." and "..") is looked up IN a
   directory, so the object reached so far must be an existing directory *)
Fixpoint kwalk (fs : fsys) (cur : loc) (comps : list str) : option loc :=
  match comps with
  | [] => Some cur
  | c :: r =>
      match kind_of fs cur with
      | Some true => kwalk fs (step cur c) r
      | _ => None
      end
  end.

(* resolution of spelling [p] by a process whose working directory is [cwd];
   Some l = the walk arrives at l, which exists *)
Definition kresolve (fs : fsys) (cwd : loc) (p : str) : option loc :=
  match kwalk fs (if isabs p then [] else cwd) (split p) with
  | Some l => match kind_of fs l with Some _ => Some l | None => None end
  | None => None
  end.

(* os.path.exists(p) in a process whose working directory is [cwd] *)
Definition os_path_exists (fs : fsys) (cwd : loc) (p : str) : bool :=
  match kresolve fs cwd p with Some _ => true | None => false end.
