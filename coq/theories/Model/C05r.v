(* Runner for the C05 correspondence: decodes a case (a source text), runs the
   model M (c_file_source and parse_file on the text) and the specification S,
   and encodes the three answers.  Definitions only. *)
From Coq Require Import ZArith String Ascii Bool List.
From CBI Require Import Lib.Data Model.C05 Spec.C05 Spec.C05f Spec.C05i.
Import ListNotations.
Local Open Scope string_scope.

Definition enc_cat (k : cat) : data :=
  DStr (match k with BLANK => "BLANK" | CPPD => "CPP_DIRECTIVE" | SRC => "SRC_NONBLANK" end).
Definition enc_lline (l : lline osl) : data :=
  DList [of_nat (ll_start l); of_nat (ll_end l); of_list of_nat (ll_lines l); of_nat (ll_sloc l);
         enc_cat (ll_cat l); DStr (string_of_list (parts (ll_buf l)))].
Definition enc_fs (r : fs_result osl) : data :=
  match r with
  | FsErr _ => DStr "Err"
  | FsOk out total nphys => DList [of_list enc_lline out; of_nat total; of_nat nphys]
  end.
Definition enc_kind (k : nkind) : data := DStr (match k with NCode => "Code" | NDir => "Dir" end).
Definition enc_node (x : node) : data :=
  DList [enc_kind (n_kind x); DInt (n_start x); DInt (n_end x); of_nat (n_count x); of_list of_nat (n_lines x)].
Definition enc_tree (t : option tree) : data :=
  match t with
  | None => DStr "Err"
  | Some t => DList [of_list enc_node (t_nodes t); DInt (t_num_lines t); of_nat (t_total_sloc t)]
  end.

Definition cls_lines (ls : list (pline ascii)) : list (list cls * bool) :=
  map (fun l => (map classify (fst l), snd l)) ls.

Definition enc_spec (t : list ascii) : data :=
  match plines_of_text t with
  | None => DStr "NoLines"
  | Some ls =>
      let r := S_scan (cls_lines ls) in
      DList [of_list (fun l => DList [of_list of_nat (fst l); of_bool (snd l)]) (r_logical r);
             of_list (fun x => DList [enc_kind (fst x); of_list of_nat (snd x)]) (S_nodes (cls_lines ls));
             of_bool (r_wf r); of_bool (r_c20 r); of_bool (r_c22 r)]
  end.

Definition enc_raw (t : list ascii) : data :=
  let r := F_scan t in
  DList [of_list (fun l => DList [of_list of_nat (fst l); of_bool (snd l)]) (r_logical r);
         of_bool (r_wf r); of_bool (r_c20 r); of_bool (r_c22 r); of_bool (ends_nl t);
         of_list (fun l => DList [of_list of_nat (fst l); of_bool (snd l)]) (iso_logical (iso_scan t));
         of_bool (iso_wf (iso_scan t))].

(* case: the text ; answer: [c_file_source ; parse_file ; S on physical lines ; S on the raw text] *)
Definition run_C05 (d : data) : data :=
  match as_str d with
  | Some s =>
      let t := list_of_string s in
      DList [enc_fs (M_file_source t); enc_tree (M_parse_file t); enc_spec t; enc_raw t]
  | None => bad_case
  end.
