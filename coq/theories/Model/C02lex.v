(* Model of codebasin/preprocessor.py : Lexer (whitespace, number, character_constant,
   string_constant, identifier, operator, punctuator, tokenize_one, tokenize) on ASCII text,
   over the lists generated from the source (Gen/C02_tables.v).
   str.isdigit / isalpha / isalnum / isprintable are modelled for ASCII only.
   Definitions only; proofs are in Proofs/C02x.v. *)
From Coq Require Import ZArith Bool String Ascii List.
From CBI Require Import Lib.Data Gen.C02_tables Model.C02.
Import ListNotations.
Local Open Scope Z_scope.

Definition is_dig (c : ascii) : bool := let n := zascii c in (48 <=? n) && (n <=? 57).
Definition is_alp (c : ascii) : bool :=
  let n := zascii c in ((65 <=? n) && (n <=? 90)) || ((97 <=? n) && (n <=? 122)).
Definition is_aln (c : ascii) : bool := is_alp c || is_dig c.
Definition is_print (c : ascii) : bool := let n := zascii c in (32 <=? n) && (n <=? 126).
Definition is_ws (c : ascii) : bool := existsb (Z.eqb (zascii c)) lexer_whitespace.
Definition is_ch (k : Z) (c : ascii) : bool := zascii c =? k.
Definition is_octal (c : ascii) : bool := let n := zascii c in (48 <=? n) && (n <=? 55).
Definition is_hexd (c : ascii) : bool :=
  let n := zascii c in ((48 <=? n) && (n <=? 57)) || ((97 <=? n) && (n <=? 102)) || ((65 <=? n) && (n <=? 70)).

Fixpoint skip_ws (s : list ascii) : list ascii :=
  match s with c :: r => if is_ws c then skip_ws r else s | [] => [] end.

(* ---------- number ---------- *)
Definition is_exponent (a b : ascii) : bool :=
  existsb (String.eqb (String a (String b EmptyString))) lexer_exponents.
Definition num_char (c : ascii) : bool := is_alp c || is_dig c || is_ch 95 c || is_ch 46 c.

(* the `while not self.eos()` loop: (characters taken, rest) *)
Fixpoint num_tail (s : list ascii) : list ascii * list ascii :=
  match s with
  | [] => ([], [])
  | a :: t =>
      match t with
      | b :: r =>
          if is_exponent a b then let (x, y) := num_tail r in (a :: b :: x, y)
          else if num_char a then let (x, y) := num_tail t in (a :: x, y)
          else ([], s)
      | [] => if num_char a then ([a], []) else ([], s)
      end
  end.

Definition lex_number (s : list ascii) : option (list ascii * list ascii) :=
  let '(pre, s1) := match s with c :: r => if is_ch 46 c then ([c], r) else ([], s) | [] => ([], s) end in
  match s1 with
  | d :: r => if is_dig d then let (x, y) := num_tail r in Some (pre ++ d :: x, y) else None
  | [] => None
  end.

(* ---------- character constant ---------- *)
Fixpoint take_while (p : ascii -> bool) (n : nat) (s : list ascii) : list ascii * list ascii :=
  match n with
  | O => ([], s)
  | S n' => match s with
            | c :: r => if p c then let (x, y) := take_while p n' r in (c :: x, y) else ([], s)
            | [] => ([], [])
            end
  end.

Definition lex_char (s : list ascii) : option (list ascii * list ascii) :=
  match s with
  | q :: s1 =>
      if is_ch 39 q then
        let body :=
          match s1 with
          | b :: t =>
              if is_ch 92 b && match t with c :: _ => is_print c | [] => true end then
                match t with
                | c :: t2 =>
                    if is_octal c then let (ds, r) := take_while is_octal 2 t2 in Some (b :: c :: ds, r)
                    else if is_ch 120 c then let (ds, r) := take_while is_hexd (List.length t2) t2 in Some (b :: c :: ds, r)
                    else Some ([b; c], t2)
                | [] => None
                end
              else if is_print b then Some ([b], t)
              else None
          | [] => None
          end in
        match body with
        | Some (v, q2 :: r) => if is_ch 39 q2 then Some (v, r) else None
        | _ => None
        end
      else None
  | [] => None
  end.

(* ---------- string constant ---------- *)
Fixpoint str_body (s : list ascii) : option (list ascii * list ascii) :=
  match s with
  | [] => None
  | c :: t =>
      if is_ch 34 c then Some ([], t)
      else
        match t with
        | d :: r =>
            if is_ch 92 c && is_ch 34 d
            then match str_body r with Some (x, y) => Some (c :: d :: x, y) | None => None end
            else match str_body t with Some (x, y) => Some (c :: x, y) | None => None end
        | [] => None
        end
  end.
Definition lex_string (s : list ascii) : option (list ascii * list ascii) :=
  match s with q :: r => if is_ch 34 q then str_body r else None | [] => None end.

(* ---------- identifier ---------- *)
Definition id_char (c : ascii) : bool := is_aln c || is_ch 95 c.
Definition lex_ident (s : list ascii) : option (list ascii * list ascii) :=
  match s with
  | c :: _ =>
      if id_char c && negb (is_dig c)
      then Some (take_while id_char (List.length s) s)
      else None
  | [] => None
  end.

(* ---------- operator / punctuator: match_any ---------- *)
Fixpoint match_any (lits : list string) (s : list ascii) : option (list ascii * list ascii) :=
  match lits with
  | [] => None
  | l :: r =>
      let p := list_of_string l in
      if starts_with p s then Some (p, skipn (List.length p) s) else match_any r s
  end.

(* ---------- tokenize_one: the candidates in the order of the source ---------- *)
Definition candidate (name : string) (s : list ascii) : option (token * list ascii) :=
  let mk (k : kind) (r : option (list ascii * list ascii)) :=
    match r with Some (v, rest) => Some (Tok k (string_of_list v), rest) | None => None end in
  if String.eqb name "number" then mk KNum (lex_number s)
  else if String.eqb name "character_constant" then mk KChar (lex_char s)
  else if String.eqb name "string_constant" then mk KStr (lex_string s)
  else if String.eqb name "identifier" then mk KId (lex_ident s)
  else if String.eqb name "operator" then mk KOp (match_any lexer_operators s)
  else if String.eqb name "punctuator" then mk KPunct (match_any lexer_punctuators s)
  else None.

Fixpoint first_candidate (names : list string) (s : list ascii) : option (token * list ascii) :=
  match names with
  | [] => None
  | n :: r => match candidate n s with Some x => Some x | None => first_candidate r s end
  end.
Definition tokenize_one (s : list ascii) : option (token * list ascii) := first_candidate lexer_candidates s.

(* ---------- tokenize; None = out of fuel ---------- *)
Fixpoint tokenize_fuel (f : nat) (s : list ascii) : option (list token) :=
  match f with
  | O => None
  | S f' =>
      match skip_ws s with
      | [] => Some []
      | c :: r =>
          match tokenize_one (c :: r) with
          | Some (t, rest) =>
              match tokenize_fuel f' rest with Some ts => Some (t :: ts) | None => None end
          | None =>
              match tokenize_fuel f' r with Some ts => Some (Tok KUnk (String c EmptyString) :: ts) | None => None end
          end
      end
  end.
Definition tokenize (s : list ascii) : option (list token) := tokenize_fuel (S (List.length s)) s.

(* the whole route for the text after `#if`: Lexer.tokenize, MacroExpander.expand, evaluate *)
Definition evaluate_text (env : list (string * list token)) (text : list ascii) : outcome :=
  match tokenize text with
  | Some ts => evaluate_for_platform env ts
  | None => OOutOfFuel
  end.
