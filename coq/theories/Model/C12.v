(* Model of codebasin/config.py : compiler emulation.
     _load_compilers        -> load_builtin / merge_user / load_table
     ArgumentParser.__init__ -> basename / resolve (alias walk)
     ArgumentParser.parse_args -> build_rules / classify (argparse front end,
                                 CPython 3.12.1 argparse.py) / consume / apply_rule /
                                 configs_of
     _StoreSplitAction, _ExtendMatchAction, append_const, append -> apply_rule
   Definitions only; proofs are in Proofs/C12*.v.

   The boolean [legacy] selects the code BEFORE the two repairs
   (store_split keyed by the spelling used; extend_match mutating the default
   list of the compiler definition); the model that is run against the
   implementation is [legacy = false]. *)
From Coq Require Import ZArith Bool Ascii String List.
From CBI Require Import Lib.Data Lib.Res.
Import ListNotations.
Local Open Scope string_scope.
Local Open Scope list_scope.

(* ------------------------------------------------------------------ strings *)
Definition dash : ascii := "-"%char.
Definition starts_dash (s : string) : bool :=
  match s with String c _ => Ascii.eqb c dash | EmptyString => false end.
Definition second_dash (s : string) : bool :=
  match s with String _ (String c _) => Ascii.eqb c dash | _ => false end.
Definition head2 (s : string) : string :=
  match s with String a (String b _) => String a (String b "") | _ => s end.
Definition tail2 (s : string) : string :=
  match s with String _ (String _ r) => r | _ => "" end.
Fixpoint has_char (c : ascii) (s : string) : bool :=
  match s with EmptyString => false | String d r => Ascii.eqb c d || has_char c r end.
(* str.split(c, 1) at the first occurrence of c *)
Fixpoint split_first (c : ascii) (s : string) : option (string * string) :=
  match s with
  | EmptyString => None
  | String d r => if Ascii.eqb c d then Some ("", r)
                  else match split_first c r with Some (a, b) => Some (String d a, b) | None => None end
  end.
(* str.split(c) for a one-character separator *)
Fixpoint split_all (c : ascii) (s : string) : list string :=
  match s with
  | EmptyString => [""]
  | String d r => if Ascii.eqb c d then "" :: split_all c r
                  else match split_all c r with x :: t => String d x :: t | [] => [String d ""] end
  end.
Definition smem (x : string) (l : list string) : bool := existsb (String.eqb x) l.
Definition is_dig (c : ascii) : bool := let n := nat_of_ascii c in Nat.leb 48 n && Nat.leb n 57.
Fixpoint all_digits (s : string) : bool :=
  match s with EmptyString => true | String c r => is_dig c && all_digits r end.
Fixpoint drop_digits (s : string) : string :=
  match s with String c r => if is_dig c then drop_digits r else s | EmptyString => s end.
(* argparse _negative_number_matcher  '^-\d+$|^-\d*\.\d+$' *)
Definition is_negnum (s : string) : bool :=
  match s with
  | String c r =>
      Ascii.eqb c dash &&
      ((negb (String.eqb r "") && all_digits r) ||
       match drop_digits r with
       | String d t => Ascii.eqb d "."%char && negb (String.eqb t "") && all_digits t
       | EmptyString => false
       end)
  | EmptyString => false
  end.
(* os.path.basename *)
Fixpoint basename_go (s acc : string) : string :=
  match s with
  | EmptyString => acc
  | String c r => if Ascii.eqb c "/"%char then basename_go r "" else basename_go r (acc ++ String c "")%string
  end.
Definition basename (s : string) : string := basename_go s "".

Fixpoint dedup (l : list string) : list string :=
  match l with [] => [] | x :: r => x :: filter (fun y => negb (String.eqb x y)) (dedup r) end.

(* ------------------------------------------------------------------ dict as association list *)
Fixpoint aget {A} (k : string) (l : list (string * A)) : option A :=
  match l with [] => None | (k', v) :: r => if String.eqb k k' then Some v else aget k r end.
Fixpoint aset {A} (k : string) (v : A) (l : list (string * A)) : list (string * A) :=
  match l with
  | [] => [(k, v)]
  | (k', v') :: r => if String.eqb k k' then (k', v) :: r else (k', v') :: aset k v r
  end.

(* ------------------------------------------------------------------ compiler definitions *)
(* DSys = namespace.system_include_paths: only the generic -isystem registration writes it *)
Inductive dest := DDefs | DPaths | DFiles | DModes | DPasses | DSys.
Definition dest_eqb (a b : dest) : bool :=
  match a, b with DDefs, DDefs | DPaths, DPaths | DFiles, DFiles | DModes, DModes | DPasses, DPasses | DSys, DSys => true | _, _ => false end.

(* string.Template with exactly one placeholder: pre ++ value ++ post *)
Definition fmt := option (string * string).
Definition fmt_apply (f : fmt) (v : string) : string :=
  match f with None => v | Some (a, b) => (a ++ v ++ b)%string end.

Inductive action :=
| AAppendConst (c : string)                               (* "append_const" *)
| AAppend                                                 (* "append" *)
| AStoreSplit (sep : ascii) (f : fmt)                     (* _StoreSplitAction *)
| AExtendMatch (pfx : list string) (f : fmt) (ov : bool)  (* _ExtendMatchAction, pattern (?:p1|p2|..)(\d+) *)
| AIgnore1                                                (* -o : "store", own destination *)
| AIgnoreOpt                                              (* -O, -g, -c : "store" with nargs="?", own destination *)
| AIgnore0.                                               (* (no longer registered by parse_args) *)

Definition nargs0 (a : action) : bool :=
  match a with AAppendConst _ | AIgnore0 => true | _ => false end.
(* nargs="?": pattern (A?) - the next argument is taken when it is an 'A', never required *)
Definition nargs_opt (a : action) : bool :=
  match a with AIgnoreOpt => true | _ => false end.

Record rule := { r_flags : list string; r_act : action; r_dest : dest; r_default : option (list string) }.
Record mode := { m_name : string; m_defs : list string; m_paths : list string; m_files : list string }.
Record pass := { p_name : string; p_defs : list string; p_paths : list string; p_files : list string;
                 p_modes : list string }.
Record compiler := { c_alias : option string; c_opts : list string; c_rules : list rule;
                     c_modes : list (string * mode); c_passes : list (string * pass) }.
Definition empty_compiler : compiler :=
  {| c_alias := None; c_opts := []; c_rules := []; c_modes := []; c_passes := [] |}.

(* one [compiler.NAME] table of a TOML file; None = key absent *)
Inductive udef :=
| UAlias (target : string)
| UComp (opts : option (list string)) (rules : option (list rule))
        (modes : option (list mode)) (passes : option (list pass)).

Definition odflt {A} (o : option (list A)) : list A := match o with Some l => l | None => [] end.
Definition mode_dict (l : list mode) : list (string * mode) :=
  fold_left (fun d m => aset (m_name m) m d) l [].
Definition pass_dict (l : list pass) : list (string * pass) :=
  fold_left (fun d p => aset (p_name p) p d) l [].

(* _Compiler.from_toml *)
Definition from_toml (u : udef) : compiler :=
  match u with
  | UAlias t => {| c_alias := Some t; c_opts := []; c_rules := []; c_modes := []; c_passes := [] |}
  | UComp o r m p => {| c_alias := None; c_opts := odflt o; c_rules := odflt r;
                        c_modes := mode_dict (odflt m); c_passes := pass_dict (odflt p) |}
  end.

Definition table := list (string * compiler).

(* package files, in the order of the list in _load_compilers *)
Definition load_builtin (files : list (list (string * udef))) : table :=
  fold_left (fun t f => fold_left (fun t nd => aset (fst nd) (from_toml (snd nd)) t) f t) files [].

(* jsonschema oneOf: a table with no key at all matches both alternatives *)
Definition udef_valid (u : udef) : bool :=
  match u with UComp None None None None => false | _ => true end.

Definition truthy (o : option string) : option string :=
  match o with Some (String c r) => Some (String c r) | _ => None end.

(* body of the loop over the user's [compiler.*] tables *)
Definition merge_one (t : table) (nd : string * udef) : table :=
  let (name, d) := nd in
  match aget name t with
  | None => aset name (from_toml d) t
  | Some c =>
      match d with
      | UAlias _ => aset name (from_toml d) t
      | UComp o r m p =>
          aset name
            {| c_alias := None;
               c_opts := c_opts c ++ odflt o;
               c_rules := c_rules c ++ odflt r;
               c_modes := fold_left (fun d m => aset (m_name m) m d) (odflt m) (c_modes c);
               c_passes := fold_left (fun d p => aset (p_name p) p d) (odflt p) (c_passes c) |} t
      end
  end.

Definition merge_user (t : table) (user : list (string * udef)) : table :=
  if forallb (fun nd => udef_valid (snd nd)) user then fold_left merge_one user t else t.

(* ------------------------------------------------------------------ ArgumentParser.__init__ *)
Inductive status :=
| SUnrec                      (* "Compiler not recognized" : empty definition *)
| SOk (target : string)       (* definition of [target] is used *)
| SLoop                       (* "alias results in a loop" : empty definition *)
| SDangling (a : string)      (* "aliases unrecognized 'a'" : empty definition *)
| SOutOfFuel.                 (* proved unreachable *)

Fixpoint walk (fuel : nat) (t : table) (chain : list string) (cur : string) : status :=
  match fuel with
  | O => SOutOfFuel
  | S f =>
      match aget cur t with
      | None => SOutOfFuel
      | Some c =>
          match truthy (c_alias c) with
          | None => SOk cur
          | Some a => if smem a chain then SLoop
                      else match aget a t with
                           | None => SDangling a
                           | Some _ => walk f t (chain ++ [a]) a
                           end
          end
      end
  end.

Definition resolve (t : table) (name : string) : status :=
  match aget name t with
  | None => SUnrec
  | Some _ => walk (S (List.length t)) t [name] name
  end.

Definition compiler_of (t : table) (s : status) : compiler :=
  match s with
  | SOk x => match aget x t with Some c => c | None => empty_compiler end
  | _ => empty_compiler
  end.

(* ------------------------------------------------------------------ argparse front end *)
Definition mk (fl : list string) (a : action) (d : dest) : rule :=
  {| r_flags := fl; r_act := a; r_dest := d; r_default := None |}.
(* the options parse_args registers for every compiler, in order *)
Definition generic_rules : list rule :=
  [ mk ["-D"] AAppend DDefs; mk ["-I"] AAppend DPaths; mk ["-isystem"] AAppend DSys; mk ["-include"] AAppend DFiles;
    mk ["-O"] AIgnoreOpt DDefs; mk ["-o"] AIgnore1 DDefs; mk ["-g"] AIgnoreOpt DDefs; mk ["-c"] AIgnoreOpt DDefs ].

Definition all_flags (rs : list rule) : list string := concat (map r_flags rs).

(* add_argument raises "conflicting option string" when a flag is already registered *)
Fixpoint conflict (seen : list string) (rs : list rule) : bool :=
  match rs with
  | [] => false
  | r :: t => existsb (fun f => smem f seen) (r_flags r) || conflict (seen ++ r_flags r) t
  end.

Fixpoint find_opt (rs : list rule) (s : string) : option rule :=
  match rs with [] => None | r :: t => if smem s (r_flags r) then Some r else find_opt t s end.

Inductive cls :=
| CPos                                               (* 'A' *)
| CDash                                              (* the literal -- *)
| CUnk                                               (* 'O' without action: goes to the unrecognised list *)
| CAmbig                                             (* parser.error -> ArgumentError (caught by parse_args) *)
| COpt (r : rule) (ostr : string) (expl : option string).

(* _get_option_tuples for a single-dash argument *)
Definition tuples (flags : list string) (arg : string) : list (string * option string) :=
  flat_map (fun os => if String.eqb os (head2 arg) then [(os, Some (tail2 arg))]
                      else if String.prefix arg os then [(os, None)] else []) flags.

(* _parse_optional *)
Definition classify (rs : list rule) (arg : string) : cls :=
  if String.eqb arg "" then CPos
  else if negb (starts_dash arg) then CPos
  else match find_opt rs arg with
  | Some r => COpt r arg None
  | None =>
    if Nat.eqb (String.length arg) 1 then CPos
    else
      let by_eq := match split_first "="%char arg with
                   | Some (o, e) => match find_opt rs o with Some r => Some (COpt r o (Some e)) | None => None end
                   | None => None
                   end in
      match by_eq with
      | Some c => c
      | None =>
        match (if second_dash arg then [] else tuples (all_flags rs) arg) with
        | [(os, e)] => match find_opt rs os with Some r => COpt r os e | None => CUnk end
        | _ :: _ :: _ => CAmbig
        | [] => if is_negnum arg && negb (existsb is_negnum (all_flags rs)) then CPos
                else if has_char " "%char arg then CPos else CUnk
        end
      end
  end.

Fixpoint classify_all (rs : list rule) (argv : list string) : list (string * cls) :=
  match argv with
  | [] => []
  | a :: r => if String.eqb a "--" then (a, CDash) :: map (fun x => (x, CPos)) r
              else (a, classify rs a) :: classify_all rs r
  end.

(* ------------------------------------------------------------------ namespace and actions *)
Record ns := { n_defs : list string; n_paths : list string; n_sys : list string; n_files : list string;
               n_modes : list string; n_passes : list string;
               n_up : list (string * list string);   (* namespace._passes *)
               n_ov : list string }.                 (* extend_match actions whose override was used *)

Definition get_dest (d : dest) (n : ns) : list string :=
  match d with DDefs => n_defs n | DPaths => n_paths n | DSys => n_sys n | DFiles => n_files n | DModes => n_modes n | DPasses => n_passes n end.
Definition set_dest (d : dest) (v : list string) (n : ns) : ns :=
  {| n_defs := match d with DDefs => v | _ => n_defs n end;
     n_paths := match d with DPaths => v | _ => n_paths n end;
     n_sys := match d with DSys => v | _ => n_sys n end;
     n_files := match d with DFiles => v | _ => n_files n end;
     n_modes := match d with DModes => v | _ => n_modes n end;
     n_passes := match d with DPasses => v | _ => n_passes n end;
     n_up := n_up n; n_ov := n_ov n |}.
Definition set_up (u : list (string * list string)) (n : ns) : ns :=
  {| n_defs := n_defs n; n_paths := n_paths n; n_sys := n_sys n; n_files := n_files n; n_modes := n_modes n; n_passes := n_passes n; n_up := u; n_ov := n_ov n |}.
Definition add_ov (k : string) (n : ns) : ns :=
  {| n_defs := n_defs n; n_paths := n_paths n; n_sys := n_sys n; n_files := n_files n; n_modes := n_modes n; n_passes := n_passes n; n_up := n_up n; n_ov := k :: n_ov n |}.
(* include_paths handed to every configuration: all -I values, then all -isystem values *)
Definition base_paths (n : ns) : list string := n_paths n ++ n_sys n.

Definition flag0 (r : rule) : string := match r_flags r with f :: _ => f | [] => "" end.
Definition is_custom (a : action) : bool :=
  match a with AStoreSplit _ _ | AExtendMatch _ _ _ => true | _ => false end.

(* re.findall('(?:p1|p2|...)(\d+)', s): leftmost, non-overlapping, alternatives in order with backtracking *)
Fixpoint strip_prefix (p s : string) : option string :=
  match p with
  | EmptyString => Some s
  | String a p' => match s with String b s' => if Ascii.eqb a b then strip_prefix p' s' else None | EmptyString => None end
  end.
Fixpoint take_digits (s : string) : string :=
  match s with String c r => if is_dig c then String c (take_digits r) else "" | EmptyString => "" end.
Fixpoint first_alt (pfx : list string) (s : string) : option (string * string) :=
  match pfx with
  | [] => None
  | p :: t => match strip_prefix p s with
              | Some rest => match take_digits rest with
                             | EmptyString => first_alt t s
                             | ds => Some (ds, drop_digits rest)
                             end
              | None => first_alt t s
              end
  end.
Fixpoint findall (fuel : nat) (pfx : list string) (s : string) : list string :=
  match fuel with
  | O => []
  | S f =>
      match s with
      | EmptyString => []
      | String _ r => match first_alt pfx s with
                      | Some (ds, rest) => ds :: findall f pfx rest
                      | None => findall f pfx r
                      end
      end
  end.
Definition alts (pfx : list string) : list string := match pfx with [] => [""] | _ => pfx end.

(* Action.__call__ ; [ostr] is the option string argparse passes *)
Definition apply_rule (legacy : bool) (r : rule) (ostr : string) (v : string) (n : ns) : ns :=
  match r_act r with
  | AIgnore0 | AIgnore1 | AIgnoreOpt => n
  | AAppendConst c => set_dest (r_dest r) (get_dest (r_dest r) n ++ [c]) n
  | AAppend => set_dest (r_dest r) (get_dest (r_dest r) n ++ [v]) n
  | AStoreSplit sep f =>
      let vals := map (fmt_apply f) (split_all sep v) in
      if dest_eqb (r_dest r) DPasses
      then set_up (aset (if legacy then ostr else flag0 r) vals (n_up n)) n
      else set_dest (r_dest r) vals n
  | AExtendMatch pfx f ov =>
      let ms := map (fmt_apply f) (findall (S (String.length v)) (alts pfx) v) in
      if dest_eqb (r_dest r) DPasses then
        let k := flag0 r in
        let cur := match aget k (n_up n) with Some l => l | None => [] end in
        if ov && negb (smem k (n_ov n)) then add_ov k (set_up (aset k ms (n_up n)) n)
        else set_up (aset k (cur ++ ms) (n_up n)) n
      else if ov then set_dest (r_dest r) ms n
      else set_dest (r_dest r) (get_dest (r_dest r) n ++ ms) n
  end.

(* consume_optional with an explicit argument: zero-argument single-dash options
   re-read the explicit argument as clustered short options.
   [e] is the rest of the explicit argument; "" means explicit_arg = None. *)
Inductive err := EArgument.

(* [nx] = Some v when the next argument exists and is an 'A'; the boolean of the
   result says whether it was consumed as the value of the option *)
Fixpoint cluster (legacy : bool) (rs : list rule) (r : rule) (ostr : string) (e : string)
         (nx : option string) (n : ns) : err + (ns * bool) :=
  match e with
  | EmptyString =>
      if nargs0 (r_act r) then inr (apply_rule legacy r ostr "" n, false)
      else match nx with
           | Some v => inr (apply_rule legacy r ostr v n, true)
           | None => if nargs_opt (r_act r) then inr (apply_rule legacy r ostr "" n, false) else inl EArgument
           end
  | String c e' =>
      if nargs0 (r_act r) then
        if second_dash ostr then inl EArgument
        else let ostr' := String dash (String c "") in
             match find_opt rs ostr' with
             | Some r' => cluster legacy rs r' ostr' e' nx (apply_rule legacy r ostr "" n)
             | None => inl EArgument
             end
      else inr (apply_rule legacy r ostr e n, false)
  end.

Definition consume (legacy : bool) (rs : list rule) (r : rule) (ostr : string) (expl : option string)
           (nx : option string) (n : ns) : err + (ns * bool) :=
  match expl with
  | None => cluster legacy rs r ostr "" nx n
  | Some EmptyString =>
      if nargs0 (r_act r) then inl EArgument else inr (apply_rule legacy r ostr "" n, false)
  | Some e => cluster legacy rs r ostr e nx n
  end.

Definition next_pos (l : list (string * cls)) : option string :=
  match l with (v, CPos) :: _ => Some v | _ => None end.

(* consume_optional / consume_positionals alternation: positionals, the literal --
   and unknown options have no effect on the namespace.  An ArgumentError is caught by
   parse_args, which keeps the namespace as the actions taken SO FAR left it (the actions
   of the failing argument are not taken; everything after it, including the implicit
   options, is lost) and logs a warning: the boolean of the result. *)
Fixpoint loop (legacy : bool) (rs : list rule) (l : list (string * cls)) (n : ns) : ns * bool :=
  match l with
  | [] => (n, false)
  | (_, COpt ru ostr expl) :: r =>
      match consume legacy rs ru ostr expl (next_pos r) n with
      | inl _ => (n, true)
      | inr (n', used) =>
          if used then match r with _ :: r' => loop legacy rs r' n' | [] => (n', false) end
          else loop legacy rs r n'
      end
  | (_, CAmbig) :: _ => (n, true)
  | _ :: r => loop legacy rs r n
  end.

(* ------------------------------------------------------------------ configurations *)
Record config := { g_pass : string; g_defs : list string; g_paths : list string; g_files : list string;
                   g_blocks : list mode }.   (* default pass only: the mode blocks, applied in set order *)

Definition upd (g : config) (d p f : list string) : config :=
  {| g_pass := g_pass g; g_defs := g_defs g ++ d; g_paths := g_paths g ++ p; g_files := g_files g ++ f;
     g_blocks := g_blocks g |}.

Definition all_passes (n : ns) : list string :=
  dedup (n_passes n ++ concat (map snd (n_up n)) ++ ["default"]).

Definition defined_modes (c : compiler) (ms : list string) : list mode :=
  flat_map (fun m => match aget m (c_modes c) with Some md => [md] | None => [] end) ms.
Definition undefined_modes (c : compiler) (ms : list string) : list string :=
  filter (fun m => match aget m (c_modes c) with Some _ => false | None => true end) ms.

Definition config_of (c : compiler) (n : ns) (pn : string) : option config :=
  let base := {| g_pass := pn; g_defs := n_defs n; g_paths := base_paths n; g_files := n_files n; g_blocks := [] |} in
  if String.eqb pn "default" then
    Some {| g_pass := pn; g_defs := n_defs n; g_paths := base_paths n; g_files := n_files n;
            g_blocks := defined_modes c (dedup (n_modes n)) |}
  else match aget pn (c_passes c) with
       | None => None
       | Some p =>
           let g := upd base (p_defs p) (p_paths p) (p_files p) in
           Some (fold_left (fun g m => upd g (m_defs m) (m_paths m) (m_files m)) (defined_modes c (p_modes p)) g)
       end.

Definition configs_of (c : compiler) (n : ns) : list config :=
  flat_map (fun pn => match config_of c n pn with Some g => [g] | None => [] end) (all_passes n).

(* log.error events: unrecognised passes, unrecognised modes *)
Definition events_of (c : compiler) (n : ns) : list string :=
  flat_map (fun pn =>
    if String.eqb pn "default" then map (fun m => ("M:" ++ m)%string) (undefined_modes c (dedup (n_modes n)))
    else match aget pn (c_passes c) with
         | None => [("P:" ++ pn)%string]
         | Some p => map (fun m => ("M:" ++ m)%string) (undefined_modes c (p_modes p))
         end) (all_passes n).

(* ------------------------------------------------------------------ parse_args *)
Definition init_up (rs : list rule) : list (string * list string) :=
  fold_left (fun u r => if is_custom (r_act r) && dest_eqb (r_dest r) DPasses
                        then match r_default r with Some d => aset (flag0 r) d u | None => u end
                        else u) rs [].
Definition init_ns (c : compiler) : ns :=
  {| n_defs := []; n_paths := []; n_sys := []; n_files := []; n_modes := []; n_passes := []; n_up := init_up (c_rules c); n_ov := [] |}.

(* add_argument's "conflicting option string" is raised outside the try block: it still
   propagates.  An ambiguous abbreviation is found while the arguments are classified,
   before any action is taken: the namespace is still the initial one. *)
Definition parse_ns (legacy : bool) (c : compiler) (argv : list string) : err + (ns * bool) :=
  let rs := generic_rules ++ c_rules c in
  if conflict [] rs then inl EArgument
  else
    let l := classify_all rs (argv ++ c_opts c) in
    if existsb (fun tc => match snd tc with CAmbig => true | _ => false end) l then inr (init_ns c, true)
    else inr (loop legacy rs l (init_ns c)).

Definition parse_args (legacy : bool) (c : compiler) (argv : list string) : err + (list config * list string) :=
  match parse_ns legacy c argv with
  | inl e => inl e
  | inr (n, partial) => inr (configs_of c n, events_of c n ++ (if partial then ["W:partial"] else []))
  end.

(* the code before the repair: a non-overriding extend_match with a default list
   extends THAT list, which belongs to the compiler definition *)
Definition leak_defaults (c : compiler) (n : ns) : compiler :=
  {| c_alias := c_alias c; c_opts := c_opts c;
     c_rules := map (fun r =>
        match r_act r, r_default r with
        | AExtendMatch _ _ false, Some _ =>
            if dest_eqb (r_dest r) DPasses
            then {| r_flags := r_flags r; r_act := r_act r; r_dest := r_dest r; r_default := aget (flag0 r) (n_up n) |}
            else r
        | _, _ => r
        end) (c_rules c);
     c_modes := c_modes c; c_passes := c_passes c |}.

(* one compilation command against the process-wide table: returns the table afterwards *)
Definition run_cmd (legacy : bool) (t : table) (argv0 : string) (argv : list string)
  : table * (status * (err + (list config * list string))) :=
  let st := resolve t (basename argv0) in
  let c := compiler_of t st in
  let t' := if legacy then
              match st, parse_ns legacy c argv with
              | SOk x, inr (n, _) => aset x (leak_defaults c n) t
              | _, _ => t
              end
            else t in
  (t', (st, parse_args legacy c argv)).

Fixpoint run_cmds (legacy : bool) (t : table) (cmds : list (string * list string))
  : list (status * (err + (list config * list string))) :=
  match cmds with
  | [] => []
  | (a0, argv) :: r => let (t', o) := run_cmd legacy t a0 argv in o :: run_cmds legacy t' r
  end.
