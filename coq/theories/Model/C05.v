(* Model of codebasin/file_source.py  (one_space_line, c_cleaner, line_info,
   c_file_source with directives_only=False, relaxed=False)  and of
   codebasin/file_parser.py  (LineGroup, FileParser.parse_file on the C path).
   Definitions only; proofs are in Proofs/C05*.v.

   The cleaner and the driver loop are written ONCE, generically over an
   "algebra" of characters and output buffers (Section Generic).  The model M
   is the instance with real characters and the real one_space_line
   ([conc]); the proofs use a second instance with 9 character classes and 11
   buffer classes ([Model/C05a.v]) and a homomorphism lemma between the two.

   Conventions: the mode stack has its TOP at the HEAD of the list (Python
   appends at the end).  A RuntimeError raised by the cleaner is the sticky
   mode MERR (the file then fails as a whole, as the exception does). *)
From Coq Require Import ZArith String Ascii Bool List.
From CBI Require Import Lib.Data.
Import ListNotations.

(* ---------- characters ---------- *)
Inductive cls := cL | cSp | cWs | cSl | cSt | cDq | cSq | cBs | cHash.

(* str.isspace() on ASCII *)
Definition isspace (c : ascii) : bool :=
  let n := zascii c in
  (((9 <=? n) && (n <=? 13)) || ((28 <=? n) && (n <=? 32)))%Z.

Definition classify (c : ascii) : cls :=
  let n := zascii c in
  (if n =? 92 then cBs else if n =? 47 then cSl else if n =? 42 then cSt else
   if n =? 34 then cDq else if n =? 39 then cSq else if n =? 35 then cHash else
   if n =? 32 then cSp else if isspace c then cWs else cL)%Z.

Definition cls_space (k : cls) : bool := match k with cSp | cWs => true | _ => false end.

(* ---------- one_space_line.category ---------- *)
Inductive cat := BLANK | CPPD | SRC.
Definition cat_blank (k : cat) : bool := match k with BLANK => true | _ => false end.

(* ---------- c_cleaner modes ---------- *)
Inductive mode := TOP | CPP | DQ | SQ | ESC | SLASH | BLOCK | BSTAR | INLINE | MERR.

Record alg (C B : Type) := {
  a_cls : C -> cls;
  a_slash : C;                       (* the literal "/" of append_char("/") / append_nonspace("/") *)
  a_empty : B;                       (* one_space_line() *)
  a_char : C -> B -> B;              (* append_char *)
  a_space : B -> B;                  (* append_space *)
  a_nonspace : C -> B -> B;          (* append_nonspace *)
  a_join : B -> B -> B;              (* self.join(other) *)
  a_cat : B -> cat                   (* category() *)
}.
Arguments a_cls {C B}. Arguments a_slash {C B}. Arguments a_empty {C B}. Arguments a_char {C B}.
Arguments a_space {C B}. Arguments a_nonspace {C B}. Arguments a_join {C B}. Arguments a_cat {C B}.

(* a logical line as yielded by c_file_source (a line_info) *)
Record lline (B : Type) := {
  ll_start : nat;            (* current_physical_start *)
  ll_end : nat;              (* current_physical_end (one past the last physical line) *)
  ll_lines : list nat;       (* lines *)
  ll_sloc : nat;             (* local_sloc *)
  ll_cat : cat;              (* category *)
  ll_buf : B                 (* the joined buffer that flush() turns into flushed_line *)
}.
Arguments ll_start {B}. Arguments ll_end {B}. Arguments ll_lines {B}. Arguments ll_sloc {B}.
Arguments ll_cat {B}. Arguments ll_buf {B}.

(* a physical line after c_file_source's own preparation:
   body (newline and the continuation backslash removed), continued? *)
Definition pline (C : Type) := (list C * bool)%type.

Section Generic.
Context {C B : Type} (A : alg C B).

(* state[-1] == "TOPLEVEL" (directives_only = False) *)
Definition step_top (st : list mode) (b : B) (ch : C) : list mode * B :=
  match a_cls A ch with
  | cBs => (ESC :: st, a_nonspace A ch b)
  | cSl => (SLASH :: st, b)
  | cDq => (DQ :: st, a_nonspace A ch b)
  | cSq => (SQ :: st, a_nonspace A ch b)
  | cHash => if cat_blank (a_cat A b) then (CPP :: st, a_nonspace A ch b) else (st, a_char A ch b)
  | _ => (st, a_char A ch b)
  end.

(* state[-1] == "CPP_DIRECTIVE" *)
Definition step_cpp (st : list mode) (b : B) (ch : C) : list mode * B :=
  match a_cls A ch with
  | cBs => (ESC :: st, a_nonspace A ch b)
  | cSl => (SLASH :: st, b)
  | cDq => (DQ :: st, a_nonspace A ch b)
  | cSq => (SQ :: st, a_nonspace A ch b)
  | _ => (st, a_char A ch b)
  end.

(* one iteration of the `for char in inbuffer` loop of c_cleaner.process; the
   putback in FOUND_SLASH re-dispatches the same character on the popped stack *)
Fixpoint mstep (st : list mode) (b : B) (ch : C) {struct st} : list mode * B :=
  match st with
  | [] => ([MERR], b)
  | TOP :: _ => step_top st b ch
  | CPP :: _ => step_cpp st b ch
  | DQ :: r =>
      match a_cls A ch with
      | cBs => (ESC :: st, a_nonspace A ch b)
      | cDq => (r, a_nonspace A ch b)
      | _ => (st, a_nonspace A ch b)
      end
  | SQ :: r =>
      match a_cls A ch with
      | cBs => (ESC :: st, a_nonspace A ch b)
      | cSq => (r, a_nonspace A ch b)
      | _ => (st, a_nonspace A ch b)
      end
  | SLASH :: r =>
      match a_cls A ch with
      | cSl => (INLINE :: r, b)
      | cSt => (BLOCK :: r, b)
      | _ => mstep r (a_char A (a_slash A) b) ch
      end
  | BLOCK :: _ =>
      match a_cls A ch with
      | cSt => (BSTAR :: st, b)
      | _ => (st, b)
      end
  | BSTAR :: r =>
      match a_cls A ch with
      | cSl => match r with BLOCK :: r' => (r', a_space A b) | _ => ([MERR], b) end
      | cSt => (st, b)
      | _ => match r with BLOCK :: _ => (r, b) | _ => ([MERR], b) end
      end
  | ESC :: r => (r, a_nonspace A ch b)
  | INLINE :: _ => (st, b)            (* `return`: the rest of the line is ignored *)
  | MERR :: _ => (st, b)
  end.

Definition mstep' (s : list mode * B) (ch : C) : list mode * B := mstep (fst s) (snd s) ch.

(* c_cleaner.process *)
Definition process (st : list mode) (b : B) (body : list C) : list mode * B :=
  fold_left mstep' body (st, b).

(* c_cleaner.logical_newline *)
Definition logical_newline (st : list mode) (b : B) : list mode * B :=
  match st with
  | INLINE :: _ => ([TOP], a_space A b)
  | SLASH :: _ => ([TOP], a_nonspace A (a_slash A) b)
  | SQ :: _ => ([TOP], b)
  | DQ :: _ => ([TOP], b)
  | BSTAR :: r => match r with BLOCK :: _ => (r, b) | _ => ([MERR], b) end
  | CPP :: _ => ([TOP], b)
  | _ => (st, b)
  end.

Definition top_is_block (st : list mode) : bool := match st with BLOCK :: _ => true | _ => false end.
Fixpoint has_err (st : list mode) : bool :=
  match st with [] => false | MERR :: _ => true | _ :: r => has_err r end.

(* loop state of c_file_source *)
Record fs := {
  fs_st : list mode;          (* cleaner.state *)
  fs_L : B;                   (* curr_line.current_logical_line *)
  fs_lines : list nat;        (* curr_line.lines *)
  fs_sloc : nat;              (* curr_line.local_sloc *)
  fs_start : nat;             (* curr_line.current_physical_start *)
  fs_total : nat;             (* total_sloc *)
  fs_out : list (lline B)     (* logical lines yielded so far, oldest first *)
}.

Definition fs_init : fs :=
  {| fs_st := [TOP]; fs_L := a_empty A; fs_lines := []; fs_sloc := 0; fs_start := 1; fs_total := 0; fs_out := [] |}.

(* physical_update(n+1); yield if not BLANK; total_sloc += physical_reset() *)
Definition close_logical (st : list mode) (L : B) (lines : list nat) (sloc start total : nat)
           (out : list (lline B)) (n : nat) : fs :=
  let k := a_cat A L in
  let out' := if cat_blank k then out
              else out ++ [{| ll_start := start; ll_end := S n; ll_lines := lines; ll_sloc := sloc;
                              ll_cat := k; ll_buf := L |}] in
  {| fs_st := st; fs_L := a_empty A; fs_lines := []; fs_sloc := 0; fs_start := S n;
     fs_total := total + sloc; fs_out := out' |}.

(* body of `for physical_line_num, line in enumerate(fp, start=1)` *)
Definition phys_line (s : fs) (n : nat) (l : pline C) : fs :=
  let '(body, continued) := l in
  let '(st1, b1) := process (fs_st s) (a_empty A) body in
  let '(st2, b2) := if negb continued && negb (top_is_block st1) then logical_newline st1 b1 else (st1, b1) in
  let counted := negb (cat_blank (a_cat A b2)) in
  let lines := if counted then fs_lines s ++ [n] else fs_lines s in
  let sloc := if counted then S (fs_sloc s) else fs_sloc s in
  let L := a_join A (fs_L s) b2 in
  if negb continued && negb (top_is_block st2)
  then close_logical st2 L lines sloc (fs_start s) (fs_total s) (fs_out s) n
  else {| fs_st := st2; fs_L := L; fs_lines := lines; fs_sloc := sloc; fs_start := fs_start s;
          fs_total := fs_total s; fs_out := fs_out s |}.

Fixpoint phys_loop (s : fs) (n : nat) (ls : list (pline C)) : fs :=
  match ls with
  | [] => s
  | l :: r => phys_loop (phys_line s n l) (S n) r
  end.

Inductive fs_result :=
  | FsOk (out : list (lline B)) (total_sloc total_physical : nat)
  | FsErr (why : string).

(* c_file_source after the loop *)
Definition c_file_source (ls : list (pline C)) : fs_result :=
  let s := phys_loop fs_init 1 ls in
  let n := List.length ls in
  let f := close_logical (fs_st s) (fs_L s) (fs_lines s) (fs_sloc s) (fs_start s) (fs_total s) (fs_out s) n in
  if has_err (fs_st s) then FsErr "RuntimeError"
  else match fs_st s with
       | [TOP] => FsOk (fs_out f) (fs_total f) n
       | _ => FsErr "RuntimeError"
       end.

(* ---------- file_parser.LineGroup / FileParser.parse_file ---------- *)
Record lg := { lg_count : nat; lg_start : Z; lg_end : Z; lg_lines : list nat }.
Definition lg_new : lg := {| lg_count := 0; lg_start := (-1)%Z; lg_end := (-1)%Z; lg_lines := [] |}.
Definition lg_empty (g : lg) : bool :=
  Nat.eqb (lg_count g) 0 && Z.eqb (lg_start g) (-1) && Z.eqb (lg_end g) (-1).
Definition lg_add (g : lg) (s e : Z) (sloc : nat) (lines : list nat) : lg :=
  {| lg_count := lg_count g + sloc;
     lg_start := if Z.eqb (lg_start g) (-1) || Z.ltb s (lg_start g) then s else lg_start g;
     lg_end := if Z.ltb (lg_end g) (e - 1) then (e - 1)%Z else lg_end g;
     lg_lines := lg_lines g ++ lines |}.
(* self.merge(other); other is reset by the caller *)
Definition lg_merge (g o : lg) : lg :=
  let s := if Z.eqb (lg_start g) (-1) then lg_start o
           else if Z.eqb (lg_start o) (-1) then lg_start g
           else Z.min (lg_start g) (lg_start o) in
  {| lg_count := lg_count g + lg_count o; lg_start := s; lg_end := Z.max (lg_end g) (lg_end o);
     lg_lines := lg_lines g ++ lg_lines o |}.

Inductive nkind := NCode | NDir.
Record node := { n_kind : nkind; n_start : Z; n_end : Z; n_count : nat; n_lines : list nat }.
Definition node_of (k : nkind) (g : lg) : node :=
  {| n_kind := k; n_start := lg_start g; n_end := lg_end g; n_count := lg_count g; n_lines := lg_lines g |}.

Record ps := { ps_code : lg; ps_file : lg; ps_nodes : list node }.
Definition ps_init : ps :=
  {| ps_code := lg_new;
     ps_file := {| lg_count := 0; lg_start := 1%Z; lg_end := (-1)%Z; lg_lines := [] |};
     ps_nodes := [] |}.

Definition flush_code (p : ps) : ps :=
  if lg_empty (ps_code p) then p
  else {| ps_code := lg_new; ps_file := lg_merge (ps_file p) (ps_code p);
          ps_nodes := ps_nodes p ++ [node_of NCode (ps_code p)] |}.

(* one iteration of the `while True: logical_line = next(source)` loop *)
Definition parse_step (p : ps) (l : lline B) : ps :=
  let s := Z.of_nat (ll_start l) in
  let e := Z.of_nat (ll_end l) in
  match ll_cat l with
  | CPPD =>
      let d := lg_add lg_new s e (ll_sloc l) (ll_lines l) in      (* groups["directive"] is always reset here *)
      let p1 := flush_code p in
      {| ps_code := ps_code p1; ps_file := lg_merge (ps_file p1) d;
         ps_nodes := ps_nodes p1 ++ [node_of NDir d] |}
  | _ => {| ps_code := lg_add (ps_code p) s e (ll_sloc l) (ll_lines l); ps_file := ps_file p; ps_nodes := ps_nodes p |}
  end.

Record tree := { t_nodes : list node; t_num_lines : Z; t_total_sloc : nat }.

Definition parse_finish (p : ps) (physical_loc : nat) : tree :=
  let p1 :=
    if lg_empty (ps_code p) then p
    else
      let c := lg_add (ps_code p) (lg_start (ps_code p)) (Z.of_nat physical_loc - 1) 0 [] in
      {| ps_code := lg_new; ps_file := lg_merge (ps_file p) c; ps_nodes := ps_nodes p ++ [node_of NCode c] |} in
  {| t_nodes := ps_nodes p1; t_num_lines := lg_end (ps_file p1); t_total_sloc := lg_count (ps_file p1) |}.

Definition parse_file (ls : list (pline C)) : option tree :=
  match c_file_source ls with
  | FsErr _ => None
  | FsOk out _ nphys => Some (parse_finish (fold_left parse_step out ps_init) nphys)
  end.
End Generic.

Arguments fs_result : clear implicits.
Arguments fs : clear implicits.
Arguments FsOk {B}. Arguments FsErr {B}.

(* ---------- the concrete instance: real characters, real one_space_line ---------- *)
Record osl := { parts : list ascii; trailing : bool }.
Definition sp : ascii := " "%char.
Definition hash : ascii := "#"%char.

Definition c_space (b : osl) : osl :=
  if trailing b then b else {| parts := parts b ++ [sp]; trailing := true |}.
Definition c_char (c : ascii) (b : osl) : osl :=
  if isspace c then c_space b else {| parts := parts b ++ [c]; trailing := false |}.
Definition c_nonspace (c : ascii) (b : osl) : osl := {| parts := parts b ++ [c]; trailing := false |}.
Definition c_join (self other : osl) : osl :=
  match parts other with
  | [] => self
  | p0 :: rest =>
      {| parts := parts self ++ (if Ascii.eqb p0 sp && trailing self then rest else p0 :: rest);
         trailing := trailing other |}
  end.
Definition c_cat (b : osl) : cat :=
  match parts b with
  | [] => BLANK
  | [p] => if Ascii.eqb p sp then BLANK else if Ascii.eqb p hash then CPPD else SRC
  | p0 :: p1 :: _ => if (Ascii.eqb p0 sp && Ascii.eqb p1 hash) || Ascii.eqb p0 hash then CPPD else SRC
  end.

Definition conc : alg ascii osl :=
  {| a_cls := classify; a_slash := "/"%char; a_empty := {| parts := []; trailing := false |};
     a_char := c_char; a_space := c_space; a_nonspace := c_nonspace; a_join := c_join; a_cat := c_cat |}.

(* ---------- text -> physical lines, as `for line in fp` and the first lines of the loop body do ---------- *)
(* raw lines: characters without the newline, and whether a newline ended the line *)
Fixpoint raw_lines_aux (cur : list ascii) (l : list ascii) : list (list ascii * bool) :=
  match l with
  | [] => match cur with [] => [] | _ => [(rev cur, false)] end
  | c :: r => if (zascii c =? 10)%Z then (rev cur, true) :: raw_lines_aux [] r else raw_lines_aux (c :: cur) r
  end.
Definition raw_lines (l : list ascii) : list (list ascii * bool) := raw_lines_aux [] l.

Definition is_bs (c : ascii) : bool := (zascii c =? 92)%Z.

(* end/continued computation; None = RuntimeError("file seems to end in \ with no newline!") *)
Definition prep_line (rl : list ascii * bool) : option (pline ascii) :=
  let '(chars, has_nl) := rl in
  match rev chars with
  | c :: before => if is_bs c then (if has_nl then Some (rev before, true) else None) else Some (chars, false)
  | [] => Some ([], false)
  end.

Fixpoint prep_lines (rls : list (list ascii * bool)) : option (list (pline ascii)) :=
  match rls with
  | [] => Some []
  | rl :: r => match prep_line rl, prep_lines r with Some p, Some ps => Some (p :: ps) | _, _ => None end
  end.

(* the generator raises at the offending line; lines before it have been
   yielded, but FileParser.parse_file lets the exception escape, so the whole
   parse is an error *)
Definition plines_of_text (t : list ascii) : option (list (pline ascii)) := prep_lines (raw_lines t).

Definition M_file_source (t : list ascii) : fs_result osl :=
  match plines_of_text t with None => FsErr "RuntimeError" | Some ls => c_file_source conc ls end.
Definition M_parse_file (t : list ascii) : option tree :=
  match plines_of_text t with None => None | Some ls => parse_file conc ls end.
