(* Driver entry for C07: decodes a case, runs M (Model/C07.v) and, when the
   case asks for it (small tables only: S expands the table into individual
   lines), the executable specification S (Spec/C07.v).
   case   : ( rows args pairs wantS )
            rows  = ((names...) count)...   args = None | (names...)   pairs = (p q)...
   answer : ( M-answers S-answers|Skip )   with answers = (cov/arg avg/arg dist/pair div platforms) *)
From Coq Require Import ZArith QArith String Bool List.
From CBI Require Import Lib.Data Model.C07 Spec.C07.
Import ListNotations.
Local Open Scope string_scope.

Definition answers_S (t : table) (args : list (option (list string))) (prs : list (string * string)) : data :=
  DList [ of_list (fun a => enc_q (S_coverage t (sel_platforms t a))) args;
          of_list (fun a => enc_q (S_average_coverage t (sel_platforms t a))) args;
          of_list (fun pq => enc_q (S_distance t (fst pq) (snd pq))) prs;
          enc_q (S_divergence t (extract_platforms t));
          of_list DStr (extract_platforms t) ].

Definition run_C07 (d : data) : data :=
  match d with
  | DList [rows; args; prs; wantS] =>
      match as_list_of dec_row rows, as_list_of dec_arg args,
            as_list_of (as_pair as_str as_str) prs, as_bool wantS with
      | Some t, Some a, Some p, Some w =>
          DList [answers_M t a p; if w then answers_S t a p else DStr "Skip"]
      | _, _, _, _ => bad_case
      end
  | _ => bad_case
  end.
