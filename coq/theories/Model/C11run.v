(* Driver entry for C11: decodes a case, runs M (and S), encodes the answers. *)
From Coq Require Import Ascii String Bool List.
From CBI Require Import Lib.Data Lib.C11_types Gen.C11_tables Model.C11 Model.C11sh Spec.C11 Spec.C11safe.
Import ListNotations.
Local Open Scope string_scope.

Definition enc_value (v : value) : data :=
  match v with Some s => DStr s | None => DList [] end.
Definition enc_result (r : result) : data :=
  match r with
  | ROk a => DList [DStr "Ok"; of_list enc_value (defs a); of_list enc_value (List.app (paths a) (syspaths a));
                    of_list enc_value (files a); of_list DStr (extras a)]
  | RWarned a => DList [DStr "ArgErr"; of_list enc_value (defs a); of_list enc_value (List.app (paths a) (syspaths a));
                        of_list enc_value (files a)]
  | RRaise => DList [DStr "Raise"]
  | RExit => DList [DStr "SystemExit"]
  end.
Definition enc_lists (l : lists) : data :=
  match l with (d, p, f) => DList [of_list DStr d; of_list DStr p; of_list DStr f] end.
Definition enc_split (r : serr + list string) : data :=
  match r with
  | inr l => DList [DStr "Ok"; of_list DStr l]
  | inl NoClosingQuotation => DList [DStr "Err"; DStr "NoClosingQuotation"]
  | inl NoEscapedCharacter => DList [DStr "Err"; DStr "NoEscapedCharacter"]
  end.

(* cases:  (argv (t1 t2 ...))  ->  (M-result  S-lists  quote_join(argv)  split(quote_join(argv))  safe(argv))
           (split s)           ->  split(s)
           (db ((t...) (t...) ...)) -> ((M-result S-lists) ...)   one pair per entry                                                        *)
Definition run_C11 (d : data) : data :=
  match d with
  | DList [DStr "argv"; l] =>
      match as_list_of as_str l with
      | Some argv =>
          let cmd := quote_join argv in
          DList [enc_result (parse_args argv); enc_lists (scan_S argv); DStr cmd; enc_split (split_string cmd);
                 of_bool (safe argv)]
      | None => bad_case
      end
  | DList [DStr "split"; DStr s] => enc_split (split_string s)
  | DList [DStr "db"; DList entries] =>
      (* a database: every entry is parsed on its own (the property is per command) *)
      match opt_map (as_list_of as_str) entries with
      | Some argvs => DList (map (fun argv => DList [enc_result (parse_args argv); enc_lists (scan_S argv)]) argvs)
      | None => bad_case
      end
  | _ => bad_case
  end.
