(* C15 — model M of the analysis of a code base with aliases:
     ParserState (_path_cache, trees/maps keyed by realpath; finder.py),
     Platform.find_include_file + IncludeNode / PragmaNode.evaluate_for_platform
     with every candidate resolved PHYSICALLY (platform.py, preprocessor.py),
     the -include loop of finder.find, ParserState.get_setmap and the
     propagation rule of FileTree.insert (report.py).
   The per-file semantics (tree builder, visitor, macros, conditions, memo) are
   those of Model/C01.v and Model/C04.v; what is new here is WHICH file a
   spelling denotes.  The world is abstract in this file: [rp] is
   os.path.realpath and [getf] gives the logical lines of the regular file at
   a real path; Model/C15i.v instantiates them with the tree of Model/C15fs.v.
   Definitions only. *)
From Coq Require Import Bool Arith ZArith String List.
From CBI Require Import Lib.Res Model.C01 Model.C04.
Import ListNotations.
Local Open Scope string_scope.
Local Open Scope list_scope.

Definition lines := list (line act cond).

Section World.
Variable rp : path -> path.
Variable getf : path -> option lines.

Definition isfile_A (q : path) : bool := match getf q with Some _ => true | None => false end.

(* test_path = os.path.realpath(os.path.join(path, filename)); os.path.isfile(test_path) *)
Definition candidates_A (ds : list path) (k : mkey) : list path :=
  let '(name, this, angle) := k in
  map (fun d => rp (d ++ name)) ((if angle then [] else [this]) ++ ds).
Definition search_A (ds : list path) (k : mkey) : option path := find isfile_A (candidates_A ds k).

Definition find_include_A (k : mkey) (p : plat) : plat * option path :=
  match lookup_memo k (memo p) with
  | Some r => (p, r)
  | None => let r := search_A (dirs p) k in (set_memo ((k, r) :: memo p) p, r)
  end.

(* evaluate_for_platform of a plain node of the file whose REAL path is [cur]
   (associate passes filename = _get_realpath(filename)) *)
Fixpoint exec_A (fuel : nat) (cur : path) (a : act) (p : plat) {struct fuel} : res plat :=
  match a with
  | ACode | AOther => Ok p
  | ADefine m v => Ok (match lookup m (defs p) with Some _ => p | None => set_defs ((m, v) :: defs p) p end)
  | AUndef m => Ok (set_defs (remove m (defs p)) p)
  | AOnce => Ok (if mem_path cur (once p) then p else set_once (once p ++ [cur]) p)
  | AInclude tag s =>
      match include_target s p with
      | Err e => Err e
      | Ok (angle, name) =>
          let '(p1, r) := find_include_A (name, dirname cur, angle) p in
          match r with
          | None => Ok (set_events ({| ev_file := cur; ev_tag := tag; ev_name := name; ev_angle := angle |} :: events p1) p1)
          | Some f =>
              if mem_path f (once p1) then Ok p1
              else match fuel with
                   | 0 => Err out_of_fuel
                   | S fuel' =>
                       match getf (rp f) with                       (* insert_file / get_tree key by realpath *)
                       | None => Err "internal: resolved file does not exist"
                       | Some ls => run_M plat act cond (mark_in (rp f)) (exec_A fuel' (rp f)) ev ls p1
                       end
                   end
          end
      end
  end.

(* state.associate(fn, platform): any spelling fn of the file *)
Definition run_file_A (fuel : nat) (fn : path) (p : plat) : res plat :=
  match getf (rp fn) with
  | None => Err "FileNotFoundError"
  | Some ls => run_M plat act cond (mark_in (rp fn)) (exec_A fuel (rp fn)) ev ls p
  end.

Fixpoint forced_A (fuel : nat) (this : path) (incs : list path) (p : plat) : res plat :=
  match incs with
  | [] => Ok p
  | n :: r =>
      let '(p1, res) := find_include_A (n, this, false) p in
      match res with
      | None => forced_A fuel this r p1
      | Some f =>
          if mem_path f (once p1) then forced_A fuel this r p1            (* process_include *)
          else match run_file_A fuel f p1 with Ok p2 => forced_A fuel this r p2 | Err e => Err e end
      end
  end.

(* one compilation-database entry; forced includes are searched from the directory of the
   REAL source file *)
Definition run_tu_A (fuel : nat) (e : entry) : res plat :=
  match forced_A fuel (dirname (rp (e_file e))) (e_incs e) (fresh e) with
  | Ok p => run_file_A fuel (e_file e) p
  | Err x => Err x
  end.

(* ---------- the whole configuration: platform index, entry ---------- *)
Definition mark := (nat * path * nat)%type.              (* platform, REAL file, node *)
Fixpoint analyse (fuel : nat) (cfg : list (nat * entry)) : res (list mark) :=
  match cfg with
  | [] => Ok []
  | (pl, e) :: r =>
      match run_tu_A fuel e, analyse fuel r with
      | Ok p, Ok ms => Ok (map (fun fi => (pl, fst fi, snd fi)) (rev (assoc p)) ++ ms)
      | Err x, _ => Err x
      | _, Err x => Err x
      end
  end.

(* finder.find: every member of the code base and every entry file is parsed first
   (state.insert_file), whether or not any platform reaches it *)
Fixpoint parse_all (fns : list path) : res unit :=
  match fns with
  | [] => Ok tt
  | fn :: r =>
      match getf (rp fn) with
      | None => Err "FileNotFoundError"
      | Some ls => match build act cond ls with Ok _ => parse_all r | Err e => Err e end
      end
  end.
Definition find_A (fuel : nat) (members : list path) (cfg : list (nat * entry)) : res (list mark) :=
  match parse_all (members ++ map (fun pe => e_file (snd pe)) cfg) with
  | Ok _ => analyse fuel cfg
  | Err e => Err e
  end.

End World.

(* ---------- ParserState: trees / maps keyed by realpath, with the _path_cache ---------- *)
Section PState.
Variable rp : path -> path.
Variable TREE : Type.
Variable parse : path -> TREE.                            (* FileParser(real path).parse_file *)

Record pstate := { cache : list (path * path); trees : list (path * TREE) }.
Fixpoint plookup {V} (k : path) (m : list (path * V)) : option V :=
  match m with [] => None | (k', v) :: r => if path_eqb k k' then Some v else plookup k r end.

Definition get_realpath (s : pstate) (p : path) : pstate * path :=
  match plookup p (cache s) with
  | Some r => (s, r)
  | None => let r := rp p in ({| cache := (p, r) :: cache s; trees := trees s |}, r)
  end.
(* a tempting variant that is WRONG: also remember the answer under the lexically normalised
   spelling [np p] (os.path.normpath) and under the real path itself *)
Definition get_realpath_np (np : path -> path) (s : pstate) (p : path) : pstate * path :=
  match plookup p (cache s) with
  | Some r => (s, r)
  | None => let r := rp p in ({| cache := (r, r) :: (np p, r) :: (p, r) :: cache s; trees := trees s |}, r)
  end.
Definition insert_file (s : pstate) (fn : path) : pstate :=
  let '(s1, r) := get_realpath s fn in
  match plookup r (trees s1) with
  | Some _ => s1
  | None => {| cache := cache s1; trees := (r, parse r) :: trees s1 |}
  end.
Definition get_tree (s : pstate) (fn : path) : pstate * option TREE :=
  let '(s1, r) := get_realpath s fn in (s1, plookup r (trees s1)).
End PState.
Arguments cache {TREE}. Arguments trees {TREE}.

(* ---------- get_setmap ---------- *)
Definition pset := list nat.                                (* a set of platforms: increasing list of indices *)
Definition pset_eqb (a b : pset) : bool := if list_eq_dec Nat.eq_dec a b then true else false.
Definition mark_eqb (pl : nat) (f : path) (id : nat) (m : mark) : bool :=
  let '(pl', f', id') := m in Nat.eqb pl pl' && path_eqb f f' && Nat.eqb id id'.
Definition platforms_of (nplat : nat) (ms : list mark) (f : path) (id : nat) : pset :=
  filter (fun pl => existsb (mark_eqb pl f id) ms) (seq 0 nplat).
Fixpoint bump (k : pset) (w : nat) (m : list (pset * nat)) : list (pset * nat) :=
  match m with
  | [] => [(k, w)]
  | (k', v) :: r => if pset_eqb k k' then (k', v + w) :: r else (k', v) :: bump k w r
  end.
(* the nodes of one file: (node id, number of physical lines) *)
Definition add_file (nplat : nat) (ms : list mark) (f : path) (nodes : list (nat * nat)) (m : list (pset * nat)) :=
  fold_left (fun m nw => bump (platforms_of nplat ms f (fst nw)) (snd nw) m) nodes m.
(* counted: the spellings that get_setmap does not skip; each is looked up by its realpath *)
Definition setmap (rp : path -> path) (shape : path -> list (nat * nat)) (nplat : nat) (ms : list mark)
           (counted : list path) : list (pset * nat) :=
  fold_left (fun m fn => add_file nplat ms (rp fn) (shape (rp fn)) m) counted [].
