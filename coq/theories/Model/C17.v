(* C17 — model M of the Fortran path of codebasin/file_source.py and the part of
   codebasin/file_parser.py that turns logical lines into nodes.  Definitions only.

     one_space_line                      -> osl, app_char/app_space/app_non/join/category
     c_cleaner(directives_only=flag)     -> cstep/cnewline (all nine modes, both values of the flag)
     c_file_source                       -> c_source
     fortran_cleaner.{process,dir_check} -> gstep/geol  (generic in the buffer, see below)
     fortran_file_source                 -> f_source
     FileParser.parse_file (LineGroup)   -> group_nodes

   Characters are 8-bit; only ASCII is modelled (str.isspace / str.isalpha of
   the code points 0..127).  A file is its list of physical lines as Python's
   text-mode iteration yields them ('\n' only; '\r' is never generated).

   The Fortran cleaner is written ONCE, generically in the type of the output
   buffer, the verify_continue accumulator and dir_check's `found` list, and
   instantiated here with the concrete one_space_line.  Proofs/C17.v
   instantiates the same definition with a finite abstraction. *)
From Coq Require Import NArith Bool Ascii String List.
From CBI Require Import Lib.Res.
Import ListNotations.
Local Open Scope char_scope.

(* ---------- characters ---------- *)
Inductive cls := kSp | kWs | kHash | kBs | kSl | kSt | kDq | kSq | kBang | kAmp | kDol | kAl | kOt.

Definition cls_of (c : ascii) : cls :=
  let n := N_of_ascii c in
  (if n =? 32 then kSp
   else if ((9 <=? n) && (n <=? 13)) || ((28 <=? n) && (n <=? 31)) then kWs   (* str.isspace on ASCII *)
   else if n =? 35 then kHash
   else if n =? 92 then kBs
   else if n =? 47 then kSl
   else if n =? 42 then kSt
   else if n =? 34 then kDq
   else if n =? 39 then kSq
   else if n =? 33 then kBang
   else if n =? 38 then kAmp
   else if n =? 36 then kDol
   else if ((65 <=? n) && (n <=? 90)) || ((97 <=? n) && (n <=? 122)) then kAl  (* str.isalpha on ASCII *)
   else kOt)%N.

Definition is_ws (k : cls) : bool := match k with kSp | kWs => true | _ => false end.
Definition is_sp (c : ascii) : bool := Ascii.eqb c " ".
Definition is_hash (c : ascii) : bool := Ascii.eqb c "#".

(* ---------- one_space_line ---------- *)
Record osl := { parts : list ascii; trailing : bool }.
Definition osl0 : osl := {| parts := []; trailing := false |}.

Definition app_space (b : osl) : osl :=
  if trailing b then b else {| parts := parts b ++ [" "]; trailing := true |}.
Definition app_non (c : ascii) (b : osl) : osl := {| parts := parts b ++ [c]; trailing := false |}.
Definition app_char (c : ascii) (b : osl) : osl :=
  if is_ws (cls_of c) then app_space b else app_non c b.

Definition join (a b : osl) : osl :=
  match parts b with
  | [] => a
  | x :: r => {| parts := parts a ++ (if is_sp x && trailing a then r else x :: r); trailing := trailing b |}
  end.

Inductive cat := BLANK | SRC | CPPDIR.
Definition category (b : osl) : cat :=
  match parts b with
  | [] => BLANK
  | [x] => if is_sp x then BLANK else if is_hash x then CPPDIR else SRC
  | x :: y :: _ => if (is_sp x && is_hash y) || is_hash x then CPPDIR else SRC
  end.
Definition is_blank (b : osl) : bool := match category b with BLANK => true | _ => false end.
Definition cat_eqb (a b : cat) : bool :=
  match a, b with BLANK, BLANK | SRC, SRC | CPPDIR, CPPDIR => true | _, _ => false end.

(* ---------- c_cleaner ---------- *)
Inductive cmode := CTop | CCpp | CEsc | CSlash | CDq | CSq | CInline | CBlock | CBstar.
Definition cst := (list cmode * osl)%type.     (* state stack (head = state[-1]), outbuf *)
Definition rt_err {A} : res A := Err "RuntimeError"%string.

(* one iteration of the loop in c_cleaner.process for a state other than FOUND_SLASH *)
Definition cstep1 (donly : bool) (st : list cmode) (b : osl) (c : ascii) : res cst :=
  let k := cls_of c in
  match st with
  | CTop :: _ =>
      match k with
      | kBs => Ok (CEsc :: st, app_non c b)
      | kSl => if donly then Ok (st, app_char c b) else Ok (CSlash :: st, b)
      | kDq => if donly then Ok (st, app_char c b) else Ok (CDq :: st, app_non c b)
      | kSq => if donly then Ok (st, app_char c b) else Ok (CSq :: st, app_non c b)
      | kHash => if is_blank b then Ok (CCpp :: st, app_non c b) else Ok (st, app_char c b)
      | _ => Ok (st, app_char c b)
      end
  | CCpp :: _ =>
      match k with
      | kBs => Ok (CEsc :: st, app_non c b)
      | kSl => Ok (CSlash :: st, b)
      | kDq => Ok (CDq :: st, app_non c b)
      | kSq => Ok (CSq :: st, app_non c b)
      | _ => Ok (st, app_char c b)
      end
  | CDq :: r =>
      match k with
      | kBs => Ok (CEsc :: st, app_non c b)
      | kDq => Ok (r, app_non c b)
      | _ => Ok (st, app_non c b)
      end
  | CSq :: r =>                             (* scanned like a string literal (repo fix 684e2ba) *)
      match k with
      | kBs => Ok (CEsc :: st, app_non c b)
      | kSq => Ok (r, app_non c b)
      | _ => Ok (st, app_non c b)
      end
  | CBlock :: _ => match k with kSt => Ok (CBstar :: st, b) | _ => Ok (st, b) end
  | CBstar :: r =>
      match k with
      | kSl => match r with CBlock :: r' => Ok (r', app_space b) | _ => rt_err end
      | kSt => Ok (st, b)
      | _ => match r with CBlock :: _ => Ok (r, b) | _ => rt_err end
      end
  | CEsc :: r => Ok (r, app_non c b)
  | CInline :: _ => Ok (st, b)            (* `return`: the rest of the physical line is ignored *)
  | CSlash :: _ => rt_err                 (* never on top after a putback *)
  | [] => rt_err
  end.

Definition cstep (donly : bool) (s : cst) (c : ascii) : res cst :=
  let '(st, b) := s in
  match st with
  | CSlash :: r =>
      match cls_of c with
      | kSl => Ok (CInline :: r, b)
      | kSt => Ok (CBlock :: r, b)
      | _ => cstep1 donly r (app_char "/" b) c        (* pop; append_char("/"); putback(char) *)
      end
  | _ => cstep1 donly st b c
  end.

Fixpoint cprocess (donly : bool) (s : cst) (l : list ascii) : res cst :=
  match l with
  | [] => Ok s
  | c :: r => match cstep donly s c with Ok s' => cprocess donly s' r | Err e => Err e end
  end.

Definition cnewline (s : cst) : res cst :=
  let '(st, b) := s in
  match st with
  | CInline :: _ => Ok ([CTop], app_space b)
  | CSlash :: _ => Ok ([CTop], app_non "/" b)
  | CSq :: _ | CDq :: _ | CCpp :: _ => Ok ([CTop], b)
  | CBstar :: r => match r with CBlock :: _ => Ok (r, b) | _ => rt_err end
  | _ => Ok (st, b)
  end.

Definition top_is_block (st : list cmode) : bool := match st with CBlock :: _ => true | _ => false end.

(* ---------- c_file_source ---------- *)
Definition pline := (list ascii * bool)%type.        (* characters without the newline, has a newline *)
Record cll := { c_lines : list nat; c_cat : cat; c_text : list ascii }.   (* a yielded line_info *)

Fixpoint split_last (l : list ascii) : option (list ascii * ascii) :=
  match l with
  | [] => None
  | [c] => Some ([], c)
  | c :: r => match split_last r with Some (i, z) => Some (c :: i, z) | None => None end
  end.
Definition is_bs (c : ascii) : bool := match cls_of c with kBs => true | _ => false end.

Record cloop := { cl_stk : list cmode; cl_cur : osl; cl_lines : list nat; cl_out : list cll }.

Definition cflush (cur : osl) (lines : list nat) (out : list cll) : list cll :=
  match category cur with
  | BLANK => out
  | k => out ++ [{| c_lines := lines; c_cat := k; c_text := parts cur |}]
  end.

Definition c_line (donly : bool) (n : nat) (s : cloop) (pl : pline) : res cloop :=
  let '(txt, nl) := pl in
  let '(body, continued) :=
    match split_last txt with
    | Some (i, z) => if is_bs z then (i, true) else (txt, false)
    | None => (txt, false)
    end in
  if continued && negb nl then rt_err            (* "file seems to end in \ with no newline!" *)
  else
  match cprocess donly (cl_stk s, osl0) body with
  | Err e => Err e
  | Ok (st1, b1) =>
    let ends := negb continued && negb (top_is_block st1) in
    match (if ends then cnewline (st1, b1) else Ok (st1, b1)) with
    | Err e => Err e
    | Ok (st2, b2) =>
      let lines := if is_blank b2 then cl_lines s else cl_lines s ++ [n] in
      let cur := join (cl_cur s) b2 in
      if negb continued && negb (top_is_block st2)
      then Ok {| cl_stk := st2; cl_cur := osl0; cl_lines := []; cl_out := cflush cur lines (cl_out s) |}
      else Ok {| cl_stk := st2; cl_cur := cur; cl_lines := lines; cl_out := cl_out s |}
    end
  end.

Fixpoint c_lines_loop (donly : bool) (n : nat) (s : cloop) (ls : list pline) : res cloop :=
  match ls with
  | [] => Ok s
  | pl :: r => match c_line donly n s pl with Ok s' => c_lines_loop donly (S n) s' r | Err e => Err e end
  end.

Definition cmode_eqb (a b : cmode) : bool :=
  match a, b with
  | CTop, CTop | CCpp, CCpp | CEsc, CEsc | CSlash, CSlash | CDq, CDq | CSq, CSq
  | CInline, CInline | CBlock, CBlock | CBstar, CBstar => true
  | _, _ => false
  end.
Definition is_ctop (st : list cmode) : bool := match st with [CTop] => true | _ => false end.

(* the yielded logical lines, or the RuntimeError raised at some point *)
Definition c_source (donly : bool) (ls : list pline) : res (list cll) :=
  match c_lines_loop donly 1 {| cl_stk := [CTop]; cl_cur := osl0; cl_lines := []; cl_out := [] |} ls with
  | Err e => Err e
  | Ok s => if is_ctop (cl_stk s) then Ok (cflush (cl_cur s) (cl_lines s) (cl_out s)) else rt_err
  end.

(* ---------- fortran_cleaner, generic in the buffers ---------- *)
Inductive fmode := FTop | FDq | FSq | FEsc | FVc | FCfs.

Section FGen.
Variables B V F : Type.
Variable b_char : cls -> ascii -> B -> B.       (* outbuf.append_char(c) *)
Variable b_space : B -> B.                      (* outbuf.append_space() *)
Variable b_non : cls -> ascii -> B -> B.        (* outbuf.append_nonspace(c) *)
Variable v_nil : V.                             (* verify_continue == ["&"]: the blanks after the & *)
Variable v_push : ascii -> V -> V.
Variable v_flush : V -> B -> B.                 (* append_nonspace("&") then every pending blank *)
Variable f_nil : F.                             (* dir_check's found == ["!"]: the letters after the ! *)
Variable f_push : ascii -> F -> F.
Variable f_emit : F -> B -> B.                  (* append_nonspace of "!", the letters and "$" *)

(* where the loop over the physical line stands: in process itself, inside
   dir_check (letters so far), copying the rest of a sentinel comment, or
   after a `break` *)
Inductive lmode := LNorm | LDir (f : F) | LCopy | LSkip | LErr.
Record fstate := { fstk : list fmode; fbuf : B; fvc : V; flm : lmode }.

Definition fmk st b v m : fstate := {| fstk := st; fbuf := b; fvc := v; flm := m |}.

(* the branches for TOPLEVEL, the two quotations and ESCAPING *)
Definition gstep1 (s : fstate) (k : cls) (c : ascii) : fstate :=
  let st := fstk s in
  match st with
  | FTop :: _ =>
      match k with
      | kBs => fmk (FEsc :: st) (b_non k c (fbuf s)) (fvc s) LNorm
      | kBang => fmk [FTop] (fbuf s) (fvc s) (LDir f_nil)    (* dir_check; state = [TOPLEVEL]; break *)
      | kAmp => fmk (FVc :: st) (fbuf s) v_nil LNorm
      | kDq => fmk (FDq :: st) (b_non k c (fbuf s)) (fvc s) LNorm
      | kSq => fmk (FSq :: st) (b_non k c (fbuf s)) (fvc s) LNorm
      | _ => fmk st (b_char k c (fbuf s)) (fvc s) LNorm
      end
  | FDq :: r =>
      match k with
      | kBs => fmk (FEsc :: st) (b_non k c (fbuf s)) (fvc s) LNorm
      | kDq => fmk r (b_non k c (fbuf s)) (fvc s) LNorm
      | kAmp => fmk (FVc :: st) (fbuf s) v_nil LNorm
      | _ => fmk st (b_non k c (fbuf s)) (fvc s) LNorm
      end
  | FSq :: r =>
      match k with
      | kBs => fmk (FEsc :: st) (b_non k c (fbuf s)) (fvc s) LNorm
      | kSq => fmk r (b_non k c (fbuf s)) (fvc s) LNorm
      | kAmp => fmk (FVc :: st) (fbuf s) v_nil LNorm
      | _ => fmk st (b_non k c (fbuf s)) (fvc s) LNorm
      end
  | FEsc :: r => fmk r (b_non k c (fbuf s)) (fvc s) LNorm
  | _ => fmk st (fbuf s) (fvc s) LErr      (* a second putback / empty stack: not reachable *)
  end.

Definition gstep (s : fstate) (k : cls) (c : ascii) : fstate :=
  match flm s with
  | LSkip | LErr => s
  | LCopy => fmk (fstk s) (b_non k c (fbuf s)) (fvc s) LCopy
  | LDir f =>
      match k with
      | kDol => fmk (fstk s) (f_emit f (fbuf s)) (fvc s) LCopy
      | kAl => fmk (fstk s) (fbuf s) (fvc s) (LDir (f_push c f))
      | _ => fmk (fstk s) (fbuf s) (fvc s) LSkip
      end
  | LNorm =>
      match fstk s with
      | FCfs :: r =>
          if is_ws k then fmk (fstk s) (b_space (fbuf s)) (fvc s) LNorm
          else match k with
               | kAmp => fmk r (fbuf s) (fvc s) LNorm
               | kBang => fmk (fstk s) (fbuf s) (fvc s) (LDir f_nil)
               | _ => gstep1 (fmk r (fbuf s) (fvc s) LNorm) k c          (* pop; putback *)
               end
      | FVc :: r =>
          match k, r with
          | kBang, FTop :: _ => fmk (fstk s) (fbuf s) (fvc s) (LDir f_nil)
          | _, _ =>
              if is_ws k then fmk (fstk s) (fbuf s) (v_push c (fvc s)) LNorm
              else gstep1 (fmk r (v_flush (fvc s) (fbuf s)) v_nil LNorm) k c   (* flush; pop; putback *)
          end
      | _ => gstep1 s k c
      end
  end.

(* after the loop: VERIFY_CONTINUE becomes CONTINUING_FROM_SOL *)
Definition geol (s : fstate) : fstate :=
  let m := match flm s with LErr => LErr | _ => LNorm end in
  match fstk s with
  | FVc :: r => fmk (FCfs :: r) (fbuf s) v_nil m
  | st => fmk st (fbuf s) (fvc s) m
  end.

Definition gprocess (s : fstate) (cs : list ascii) : fstate :=
  geol (fold_left (fun s c => gstep s (cls_of c) c) cs s).
End FGen.

Arguments LNorm {F}. Arguments LDir {F}. Arguments LCopy {F}. Arguments LSkip {F}. Arguments LErr {F}.
Arguments fstk {B V F}. Arguments fbuf {B V F}. Arguments fvc {B V F}. Arguments flm {B V F}.

(* the concrete instance *)
Definition c_flush (v : list ascii) (b : osl) : osl := fold_left (fun b c => app_non c b) v (app_non "&" b).
Definition c_emit (f : list ascii) (b : osl) : osl := fold_left (fun b c => app_non c b) (f ++ ["$"]) (app_non "!" b).
Definition cfstate := fstate osl (list ascii) (list ascii).
Definition fprocess : cfstate -> list ascii -> cfstate :=
  gprocess osl (list ascii) (list ascii)
    (fun _ c b => app_char c b) app_space (fun _ c b => app_non c b)
    [] (fun c v => v ++ [c]) c_flush
    [] (fun c f => f ++ [c]) c_emit.

Definition top_is_cfs (st : list fmode) : bool := match st with FCfs :: _ => true | _ => false end.
Definition is_ftop (st : list fmode) : bool := match st with [FTop] => true | _ => false end.
Definition is_lerr {F} (m : lmode F) : bool := match m with LErr => true | _ => false end.

(* ---------- fortran_file_source ---------- *)
Record fll := { f_lines : list nat; f_cat : cat; f_text : list ascii }.   (* a yielded line_info: lines, category, flushed_line *)
Record floop := { fl_stk : list fmode; fl_vc : list ascii; fl_cur : osl; fl_lines : list nat; fl_out : list fll }.

Definition fflush (cur : osl) (lines : list nat) (out : list fll) : list fll :=
  match category cur with
  | BLANK => out
  | k => out ++ [{| f_lines := lines; f_cat := k; f_text := parts cur |}]
  end.

Definition f_line (s : floop) (l : cll) : res floop :=
  match c_cat l with
  | CPPDIR =>
      Ok {| fl_stk := fl_stk s; fl_vc := fl_vc s; fl_cur := osl0; fl_lines := [];
            fl_out := fflush (fl_cur s) (fl_lines s) (fl_out s) ++ [{| f_lines := c_lines l; f_cat := CPPDIR; f_text := c_text l |}] |}
  | _ =>
      let s1 := fprocess {| fstk := fl_stk s; fbuf := osl0; fvc := fl_vc s; flm := LNorm |} (c_text l) in
      if is_lerr (flm s1) then rt_err else
      let lines := if is_blank (fbuf s1) then fl_lines s else fl_lines s ++ c_lines l in
      let cur := join (fl_cur s) (fbuf s1) in
      if top_is_cfs (fstk s1)
      then Ok {| fl_stk := fstk s1; fl_vc := fvc s1; fl_cur := cur; fl_lines := lines; fl_out := fl_out s |}
      else Ok {| fl_stk := fstk s1; fl_vc := fvc s1; fl_cur := osl0; fl_lines := [];
                 fl_out := fflush cur lines (fl_out s) |}
  end.

Fixpoint f_lines_loop (s : floop) (ls : list cll) : res floop :=
  match ls with
  | [] => Ok s
  | l :: r => match f_line s l with Ok s' => f_lines_loop s' r | Err e => Err e end
  end.

Definition f_source (ls : list pline) : res (list fll) :=
  match c_source true ls with
  | Err e => Err e
  | Ok cl =>
      match f_lines_loop {| fl_stk := [FTop]; fl_vc := []; fl_cur := osl0; fl_lines := []; fl_out := [] |} cl with
      | Err e => Err e
      | Ok s => if is_ftop (fl_stk s) then Ok (fflush (fl_cur s) (fl_lines s) (fl_out s)) else rt_err
      end
  end.

(* ---------- FileParser.parse_file: code lines are grouped, each directive is a node ---------- *)
Definition node := (bool * list nat)%type.     (* is a directive node, node.lines *)
Fixpoint group_nodes (code : option (list nat)) (ls : list fll) : list node :=
  match ls with
  | [] => match code with Some l => [(false, l)] | None => [] end
  | x :: r =>
      match f_cat x with
      | CPPDIR => (match code with Some l => [(false, l)] | None => [] end) ++ (true, f_lines x) :: group_nodes None r
      | _ => group_nodes (Some (match code with Some l => l ++ f_lines x | None => f_lines x end)) r
      end
  end.

Definition parse_fortran (ls : list pline) : res (list node) := rmap (group_nodes None) (f_source ls).

(* the same for a C file scanned with the ordinary cleaner (used by C17_directives_as_C) *)
Definition fll_of_cll (l : cll) : fll := {| f_lines := c_lines l; f_cat := c_cat l; f_text := c_text l |}.

(* ---------- text -> physical lines, as text-mode iteration does ---------- *)
Definition is_nl (c : ascii) : bool := (N_of_ascii c =? 10)%N.
Fixpoint split_lines (cur_rev : list ascii) (l : list ascii) : list pline :=
  match l with
  | [] => match cur_rev with [] => [] | _ => [(rev cur_rev, false)] end
  | c :: r => if is_nl c then (rev cur_rev, true) :: split_lines [] r else split_lines (c :: cur_rev) r
  end.
