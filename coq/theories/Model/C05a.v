(* The second instance of the generic C05 model: characters reduced to their
   nine classes, output buffers reduced to eleven classes.  [babs] maps a real
   one_space_line to its class; Proofs/C05h.v shows that the generic model
   commutes with (classify, babs), so everything proved about this finite
   instance holds for the real one.  Definitions only. *)
From Coq Require Import Bool Ascii List.
From CBI Require Import Lib.Data Model.C05.
Import ListNotations.

(* parts = []                                   bE
   parts = [" "]                                bSp
   all parts white space, otherwise             bWn   (category SRC_NONBLANK although nothing but white space)
   parts[0] = "#"                               bD0
   parts[:2] = [" ", "#"]                       bD1
   otherwise                                    bN
   the flag is trailing_space *)
Inductive bcls := bE | bSp (t : bool) | bWn (t : bool) | bD0 (t : bool) | bD1 (t : bool) | bN (t : bool).

Definition btr (b : bcls) : bool :=
  match b with bE => false | bSp t | bWn t | bD0 t | bD1 t | bN t => t end.

Definition ab_nonspace (k : cls) (b : bcls) : bcls :=
  match b with
  | bE => match k with cSp => bSp false | cHash => bD0 false | cWs => bWn false | _ => bN false end
  | bSp _ => match k with cHash => bD1 false | cSp | cWs => bWn false | _ => bN false end
  | bWn _ => if cls_space k then bWn false else bN false
  | bD0 _ => bD0 false
  | bD1 _ => bD1 false
  | bN _ => bN false
  end.

Definition ab_space (b : bcls) : bcls :=
  if btr b then b else
  match b with
  | bE => bSp true
  | bSp _ => bWn true
  | bWn _ => bWn true
  | bD0 _ => bD0 true
  | bD1 _ => bD1 true
  | bN _ => bN true
  end.

Definition ab_char (k : cls) (b : bcls) : bcls := if cls_space k then ab_space b else ab_nonspace k b.

Definition ab_join (L b : bcls) : bcls :=
  match b with
  | bE => L
  | _ =>
    match L with
    | bE => b
    | bD0 _ => bD0 (btr b)
    | bD1 _ => bD1 (btr b)
    | bN _ => bN (btr b)
    | bWn _ => match b with bSp t | bWn t => bWn t | _ => bN (btr b) end
    | bSp lt =>
        match b with
        | bE => L
        | bSp t => if lt then bSp t else bWn t
        | bWn t => bWn t
        | bD0 t => bD1 t
        | bD1 t => if lt then bD1 t else bN t
        | bN t => bN t
        end
    end
  end.

Definition ab_cat (b : bcls) : cat :=
  match b with bE | bSp _ => BLANK | bD0 _ | bD1 _ => CPPD | bWn _ | bN _ => SRC end.

Definition absalg : alg cls bcls :=
  {| a_cls := fun k => k; a_slash := cSl; a_empty := bE; a_char := ab_char; a_space := ab_space;
     a_nonspace := ab_nonspace; a_join := ab_join; a_cat := ab_cat |}.

Definition babs (b : osl) : bcls :=
  let t := trailing b in
  match parts b with
  | [] => bE
  | [p] => if Ascii.eqb p sp then bSp t else if Ascii.eqb p hash then bD0 t
           else if isspace p then bWn t else bN t
  | p0 :: p1 :: _ =>
      if Ascii.eqb p0 hash then bD0 t
      else if Ascii.eqb p0 sp && Ascii.eqb p1 hash then bD1 t
      else if forallb isspace (parts b) then bWn t else bN t
  end.
