(* Model M of the macro code of codebasin/preprocessor.py, as it IS:
     DirectiveParser.macro_definition / __arg_list / __arg,
     macro_from_definition_string (on tokens), make_macro,
     Macro.__init__ / preproc_replacement, MacroFunction.__init__ / replace,
     Lexer.stringify, StringConstant.sanitized_str,
     ExpanderHelper.{eol,splice,peek_tok,consume_tok,replace_tok},
     MacroExpander.{pop,push,advance_tok,peek_tok_pop,peek_tok,consume_tok,
                    replace_tok,overflow_check,not_expandable,defined,expand}.
   Python exceptions are values [Err "<exception class>"]; EndofParse is the
   constructor XEnd.  Loops carry fuel; out of fuel is [Err "OutOfFuel"].
   Definitions only. *)
From Coq Require Import ZArith String Ascii Bool List.
From CBI Require Import Lib.Data Lib.Res Model.C03tok.
From CBI Require Gen.C03_tables.
Import ListNotations.
Local Open Scope string_scope.
Local Open Scope list_scope.

Record tok := mkTok { tk : tkind; tw : bool; tt : string; tx : bool }.
(* tw = prev_white, tx = Identifier.expandable (True for every other class) *)

Definition set_w (w : bool) (t : tok) : tok := mkTok (tk t) w (tt t) (tx t).
Definition set_w_hd (w : bool) (l : list tok) : list tok :=
  match l with [] => [] | t :: r => set_w w t :: r end.
Definition is_txt (s : string) (t : tok) : bool := String.eqb (tt t) s.
Definition is_id (t : tok) : bool := tkind_eqb (tk t) KId.

Fixpoint index_of (s : string) (l : list string) (i : nat) : option nat :=
  match l with
  | [] => None
  | a :: r => if String.eqb a s then Some i else index_of s r (S i)
  end.
Fixpoint set_nth {A} (n : nat) (x : A) (l : list A) : list A :=
  match l, n with
  | [], _ => []
  | _ :: r, O => x :: r
  | a :: r, S n' => a :: set_nth n' x r
  end.
Definition pop_last {A} (l : list A) : option (list A * A) :=
  match rev l with [] => None | x :: r => Some (rev r, x) end.

(* ------------------------------------------------------------------ *)
(* macros                                                              *)
(* ------------------------------------------------------------------ *)
Record macro := mkMacro {
  m_name : string;
  m_fun : bool;                 (* MacroFunction? *)
  m_args : list string;
  m_variadic : bool;
  m_strcat : bool;              (* has_strcat *)
  m_need : list bool;           (* arg_needs_expansion *)
  m_repl : list tok }.

Definition which_arg (isfun : bool) (args : list string) (s : string) : option nat :=
  if isfun then index_of s args 0 else None.

(* Macro.preproc_replacement, first loop; [rest] = replacement[idx:], [acc] = res_tokens *)
Fixpoint preproc (fuel : nat) (isfun : bool) (args : list string) (rest acc : list tok)
         (cat : bool) : res (list tok * bool) :=
  match fuel with
  | O => Err "OutOfFuel"
  | S f =>
    match rest with
    | [] => Ok (acc, cat)
    | t :: rest1 =>
      if is_txt "##" t then
        match pop_last acc with
        | None => Err "IndexError"
        | Some (res0, last) =>
          match which_arg isfun args (tt last) with
          | Some _ => preproc f isfun args rest1 (res0 ++ [last; t]) true
          | None =>
            match rest1 with
            | [] => Err "IndexError"
            | nt :: rest2 =>
              match which_arg isfun args (tt nt) with
              | Some _ => preproc f isfun args rest2 (res0 ++ [last; t; nt]) true
              | None =>
                match lex_one (tt last ++ tt nt)%string with
                | None => Err "ParseError"
                | Some (k, s) => preproc f isfun args rest2 (res0 ++ [mkTok k (tw last) s true]) cat
                end
              end
            end
          end
        end
      else if is_txt "#" t then
        preproc f isfun args rest1 (acc ++ [t]) (if isfun then true else cat)
      else preproc f isfun args rest1 (acc ++ [t]) cat
    end
  end.

(* second loop: arg_needs_expansion[i] iff parameter i occurs where it is not an operand of # / ## *)
Definition is_hash_or_cat (t : tok) : bool := is_txt "#" t || is_txt "##" t.
Fixpoint needs_scan (isfun : bool) (args : list string) (prev : option tok) (l : list tok) (need : list bool)
  : list bool :=
  match l with
  | [] => need
  | t :: r =>
      let need' :=
        if is_id t then
          match which_arg isfun args (tt t) with
          | Some i =>
              if match prev with Some p => is_hash_or_cat p | None => false end then need
              else if match r with n :: _ => is_txt "##" n | [] => false end then need
              else set_nth i true need
          | None => need
          end
        else need in
      needs_scan isfun args (Some t) r need'
  end.

Definition last_tok (l : list tok) : option tok := match rev l with [] => None | x :: _ => Some x end.

(* Macro.__init__ after the subclass has set args/variadic/needs *)
Definition macro_init (name : string) (isfun : bool) (args : list string) (variadic : bool)
           (repl : list tok) : res macro :=
  match repl with
  | [] => Ok (mkMacro name isfun args variadic false (map (fun _ => false) args) [])
  | t0 :: r0 =>
      if is_txt "##" t0 then Err "RuntimeError"
      else match last_tok repl with
           | Some tl => if is_txt "##" tl then Err "RuntimeError" else
               match preproc (S (List.length repl)) isfun args (set_w false t0 :: r0) [] false with
               | Ok (r, cat) =>
                   Ok (mkMacro name isfun args variadic cat
                               (needs_scan isfun args None r (map (fun _ => false) args)) r)
               | Err e => Err e
               end
           | None => Err "IndexError"
           end
  end.

Definition ends_dots (s : string) : bool :=
  match rev (ls s) with
  | a :: b :: c :: _ => c_dot a && c_dot b && c_dot c
  | _ => false
  end.
Definition strip3 (s : string) : string :=
  sl (rev (match rev (ls s) with _ :: _ :: _ :: r => r | r => r end)).

(* make_macro(identifier, args, expansion) *)
Definition make_macro (ident : tok) (args : option (list tok)) (expansion : list tok) : res macro :=
  match args with
  | None => macro_init (tt ident) false [] false expansion
  | Some al =>
      let names := map tt al in
      let variadic := match pop_last names with Some (_, x) => ends_dots x | None => false end in
      let names' :=
        if variadic then
          match pop_last names with
          | Some (pre, x) => pre ++ [if String.eqb x "..." then "__VA_ARGS__" else strip3 x]
          | None => names
          end
        else names in
      macro_init (tt ident) true names' variadic expansion
  end.

(* ---------- DirectiveParser.macro_definition on a token list ---------- *)
Definition is_punct (s : string) (t : tok) : bool := tkind_eqb (tk t) KPunct && String.eqb (tt t) s.

(* __arg: optional identifier, optional "..." ; returns the argument token and the rest *)
Definition parse_arg (l : list tok) : option (tok * list tok) :=
  let '(arg, l1) := match l with
                    | t :: r => if is_id t then (Some t, r) else (None, l)
                    | [] => (None, l)
                    end in
  match l1 with
  | a :: b :: c :: r =>
      if is_punct "." a && is_punct "." b && is_punct "." c then
        match arg with
        | None => Some (mkTok KId (tw a) "..." true, r)
        | Some t => Some (mkTok KId (tw t) (tt t ++ "...")%string (tx t), r)
        end
      else match arg with Some t => Some (t, l1) | None => None end
  | _ => match arg with Some t => Some (t, l1) | None => None end
  end.

(* the `while True` of __arg_list after the first argument *)
Fixpoint arg_list_more (fuel : nat) (l : list tok) (acc : list tok) : list tok * list tok :=
  match fuel with
  | O => (acc, l)
  | S f =>
      match l with
      | c :: r =>
          if is_punct "," c then
            match parse_arg r with
            | Some (a, r') => if ends_dots (tt a) then (acc ++ [a], r') else arg_list_more f r' (acc ++ [a])
            | None => (acc, r)        (* ParseError caught: pos stays after the comma *)
            end
          else (acc, l)
      | [] => (acc, l)
      end
  end.
Definition arg_list (l : list tok) : list tok * list tok :=
  match parse_arg l with
  | Some (a, r) => if ends_dots (tt a) then ([a], r) else arg_list_more (List.length r) r [a]
  | None => ([], l)
  end.

(* `arg.token += "..."` in __arg changes the Identifier object that is also an
   element of the directive's token list: when the parenthesised list is
   abandoned afterwards (ParseError -> object-like macro) the replacement list
   contains the changed token.  Only the last parsed argument can be affected;
   it sits four tokens before the end of what __arg_list consumed. *)
Definition arg_mutation (args : list tok) (before after : list tok) : list tok :=
  match pop_last args with
  | Some (_, a) =>
      if ends_dots (tt a) && negb (String.eqb (tt a) "...") then
        set_nth (List.length before - List.length after - 4) a before
      else before
  | None => before
  end.

(* macro_definition: (identifier, args or None, remaining tokens) *)
Definition macro_definition (l : list tok) : res (tok * option (list tok) * list tok) :=
  match l with
  | id :: r =>
      if is_id id then
        match r with
        | p :: r1 =>
            if is_punct "(" p && negb (tw p) then
              let '(args, r2) := arg_list r1 in
              match r2 with
              | q :: r3 => if is_punct ")" q then Ok (id, Some args, r3)
                           else Ok (id, None, p :: arg_mutation args r1 r2)
              | [] => Ok (id, None, p :: arg_mutation args r1 r2)
              end
            else Ok (id, None, r)
        | [] => Ok (id, None, r)
        end
      else Err "ParseError"
  | [] => Err "ParseError"
  end.

Definition one_tok : tok := mkTok KNum false Gen.C03_tables.default_expansion true.

(* macro_from_definition_string as it was before the repair: the whole string lexed at once,
   the separator matched as an Operator token (kept for the refutation witness) *)
Definition macro_from_deftokens_orig (l : list tok) : res macro :=
  match macro_definition l with
  | Err e => Err e
  | Ok (id, args, rest) =>
      match rest with
      | [] => make_macro id args [one_tok]
      | e :: v => if tkind_eqb (tk e) KOp && String.eqb (tt e) Gen.C03_tables.define_separator then make_macro id args v
                  else Err "ParseError"
      end
  end.

(* macro_from_definition_string: head, separator, value = string.partition("=");
   [l] = Lexer(head + " " + value).tokenize(), [head_length] = len(Lexer(head).tokenize()),
   [sep] = the separator was present.  (str.partition itself is not modelled.) *)
Definition macro_from_dash_d (l : list tok) (head_length : nat) (sep : bool) : res macro :=
  match macro_definition l with
  | Err e => Err e
  | Ok (id, args, rest) =>
      if Nat.eqb (List.length l - List.length rest) head_length
      then make_macro id args (if sep then rest else [one_tok])
      else Err "ParseError"
  end.

(* DirectiveParser.define after `define` has been matched + DefineNode.evaluate_for_platform *)
Definition macro_from_define (l : list tok) : res macro :=
  match macro_definition l with
  | Err e => Err e
  | Ok (id, args, rest) => make_macro id args rest
  end.

(* ------------------------------------------------------------------ *)
(* stringification                                                     *)
(* ------------------------------------------------------------------ *)
Fixpoint sanitize_str (l : list ascii) : list ascii :=
  match l with
  | [] => []
  | a :: r =>
      if c_bslash a then
        match r with
        | b :: r' => if c_quote b then ch_bslash :: ch_bslash :: ch_bslash :: ch_quote :: sanitize_str r'
                     else ch_bslash :: ch_bslash :: sanitize_str r
        | [] => [ch_bslash; ch_bslash]
        end
      else a :: sanitize_str r
  end.

(* Token.sanitized_str / StringConstant.sanitized_str *)
Definition sanitized (t : tok) : list ascii :=
  match tk t with
  | KStr => [ch_bslash; ch_quote] ++ sanitize_str (ls (tt t)) ++ [ch_bslash; ch_quote]
  | _ => ls (tt t)
  end.

Section Stringify.
(* [lead] : does a leading blank of the first token go into the string?
   (True in the code before the repair; kept as a parameter so that the
   refutation of the pre-repair behaviour stays a theorem.) *)
Variable lead : bool.
Fixpoint stringify_parts (first : bool) (l : list tok) : list ascii :=
  match l with
  | [] => []
  | p :: r => (if tw p && (lead || negb first) then ls " " else []) ++ sanitized p ++ stringify_parts false r
  end.
Definition stringify (l : list tok) : res tok :=
  match lex_one (sl ([ch_quote] ++ stringify_parts true l ++ [ch_quote])) with
  | Some (k, s) => Ok (mkTok k false s true)
  | None => Err "AttributeError"
  end.
End Stringify.

(* ------------------------------------------------------------------ *)
(* MacroFunction.replace                                               *)
(* ------------------------------------------------------------------ *)
Definition iarg := (list tok * option (list tok))%type.   (* (raw, pre-expanded or absent) *)
Definition comma_tok : tok := mkTok KPunct false "," true.

Definition exp_of (a : iarg) : res (list tok) :=
  match snd a with Some e => Ok e | None => Err "IndexError" end.

(* the `for idx in range(len(args)-1, len(input_args)-1)` loop *)
Fixpoint va_join (l : list iarg) : res (list tok * list tok) :=
  match l with
  | [] => Ok ([], [])
  | [a] => match exp_of a with Ok e => Ok (fst a, e) | Err x => Err x end
  | a :: r =>
      match exp_of a with
      | Err x => Err x
      | Ok e => match va_join r with
                | Ok (raw, ex) => Ok (fst a ++ comma_tok :: raw, e ++ comma_tok :: ex)
                | Err x => Err x
                end
      end
  end.

(* the re-joining of a split variable argument, as it was before the repairs *)
Definition merge_variadic_orig (m : macro) (ia : list iarg) : res (list iarg) :=
  if m_variadic m then
    let n1 := Nat.pred (List.length (m_args m)) in
    match va_join (skipn n1 ia) with
    | Ok (raw, ex) => Ok (firstn n1 ia ++ [(raw, Some ex)])
    | Err e => Err e
    end
  else Ok ia.
(* now: the variable argument arrives as one argument and may be omitted *)
Definition merge_variadic_new (m : macro) (ia : list iarg) : list iarg :=
  if m_variadic m && Nat.ltb (List.length ia) (List.length (m_args m)) then ia ++ [([], Some [])] else ia.

Section Replace.
Variable lead : bool.      (* see Stringify *)
Variable cat_fix : bool.   (* true: the repaired `##` with an empty operand; false: the original code *)
Variable str_white : bool. (* true: the string made by # has the prev_white of the # token (repaired) *)
Variable resub_fix : bool. (* true: results of # / ## are not searched for parameter names again (repaired) *)
Variable va_fix : bool.    (* true: no re-joining of the variable argument (repaired); false: the original *)

Definition raw_or_self (m : macro) (ia : list iarg) (t : tok) : res (list tok) :=
  match index_of (tt t) (m_args m) 0 with
  | Some i => match nth_error ia i with Some a => Ok (fst a) | None => Err "IndexError" end
  | None => Ok [t]
  end.

(* the repaired code leaves Identifier(..., prev_white, "") where both operands of ## are empty *)
Definition placemarker (w : bool) : tok := mkTok KId w "" true.
Definition is_placemarker (t : tok) : bool := is_id t && String.eqb (tt t) "".

(* the has_strcat loop; every element of res_tokens is paired with its `final` flag
   (True = result of # or ##).  Before the repair the code kept only the flag of the LAST
   element (last_cat), which is what [snd] of the popped pair is. *)
Definition fin (t : tok) : tok * bool := (t, true).

Fixpoint cat_loop (fuel : nat) (m : macro) (ia : list iarg) (rest : list tok) (acc : list (tok * bool))
  : res (list (tok * bool)) :=
  match fuel with
  | O => Err "OutOfFuel"
  | S f =>
    match rest with
    | [] => Ok acc
    | t :: rest1 =>
      if is_txt "##" t then
        match pop_last acc with
        | None => Err "IndexError"
        | Some (res0, (last, last_cat)) =>
          let pw := tw last in
          match (if last_cat then Ok [last] else raw_or_self m ia last) with
          | Err e => Err e
          | Ok lastl =>
            match rest1 with
            | [] => Err "IndexError"
            | nt :: rest2 =>
              match raw_or_self m ia nt with
              | Err e => Err e
              | Ok nextl =>
                match pop_last lastl with
                | Some (linit, ll) =>
                  match nextl with
                  | [] => if cat_fix then cat_loop f m ia rest2 (res0 ++ map fin lastl)
                          else Err "IndexError"
                  | n0 :: nrest =>
                    match lex_one (tt ll ++ tt n0)%string with
                    | None => Err "ParseError"
                    | Some (k, s) =>
                        let toadd := linit ++ [mkTok k (tw ll) s true] ++ nrest in
                        cat_loop f m ia rest2 (res0 ++ map fin (set_w_hd pw toadd))
                    end
                  end
                | None =>
                    match nextl with
                    | [] => if cat_fix then cat_loop f m ia rest2 (res0 ++ [fin (placemarker pw)])
                            else cat_loop f m ia rest2 res0
                    | _ => cat_loop f m ia rest2 (res0 ++ map fin nextl)
                    end
                end
              end
            end
          end
        end
      else if is_txt "#" t then
        match rest1 with
        | [] => Err "ParseError"
        | nt :: rest2 =>
          match index_of (tt nt) (m_args m) 0 with
          | None => Err "ParseError"
          | Some i =>
            match nth_error ia i with
            | None => Err "IndexError"
            | Some a =>
              match stringify lead (fst a) with
              | Ok s => cat_loop f m ia rest2 (acc ++ [fin (if str_white then set_w (tw t) s else s)])
              | Err e => Err e
              end
            end
          end
        end
      else cat_loop f m ia rest1 (acc ++ [(t, false)])
    end
  end.

(* the final substitution loop *)
Fixpoint substitute (m : macro) (ia : list iarg) (l : list (tok * bool)) : res (list tok) :=
  match l with
  | [] => Ok []
  | (t, done) :: r =>
      if cat_fix && is_placemarker t then substitute m ia r else
      match (if resub_fix && done then Ok [t] else
             match index_of (tt t) (m_args m) 0 with
             | Some i => match nth_error ia i with
                         | Some a => match exp_of a with
                                     | Ok e => Ok (set_w_hd (tw t) e)
                                     | Err x => Err x
                                     end
                         | None => Err "IndexError"
                         end
             | None => Ok [t]
             end) with
      | Err x => Err x
      | Ok sub => match substitute m ia r with Ok rr => Ok (sub ++ rr) | Err x => Err x end
      end
  end.

Definition replace_fun (m : macro) (ia : list iarg) : res (list tok) :=
  match (if va_fix then Ok (merge_variadic_new m ia) else merge_variadic_orig m ia) with
  | Err e => Err e
  | Ok ia' =>
      match (if m_strcat m then cat_loop (S (List.length (m_repl m))) m ia' (m_repl m) []
             else Ok (map (fun t => (t, false)) (m_repl m))) with
      | Err e => Err e
      | Ok res => substitute m ia' res
      end
  end.
End Replace.

(* ------------------------------------------------------------------ *)
(* the expander                                                        *)
(* ------------------------------------------------------------------ *)
Record helper := mkH { h_toks : list (option tok); h_pos : nat; h_pre : bool }.

Fixpoint somes {A} (l : list (option A)) : list A :=
  match l with [] => [] | Some x :: r => x :: somes r | None :: r => somes r end.

Definition h_eol (h : helper) : bool := Nat.leb (List.length (h_toks h)) (h_pos h).

Section Expand.
Variable lead : bool.
Variable cat_fix : bool.
Variable str_white : bool.
Variable resub_fix : bool.
Variable base_name : option string.   (* what expand() puts into no_expand for its own stream:
                                         Some "None" = the original `str(ident)`, None = repaired *)
Variable rescan : bool.               (* true = the original splice: pos goes back to the START of the
                                         inserted tokens, which are then scanned a second time *)
Variable va_fix : bool.               (* see Replace *)
Variable va_whole : bool.             (* true = the variable argument is collected as ONE argument that keeps
                                         its commas (repaired); false = split at every top-level comma *)
Variable max_level : nat.

(* ExpanderHelper.splice *)
Definition splice (lower upper : helper) : helper :=
  let start := somes (firstn (h_pos lower) (h_toks lower)) in
  mkH (map Some (start ++ somes (h_toks upper) ++ somes (skipn (h_pos lower) (h_toks lower))))
      (if rescan then List.length start else List.length start + List.length (somes (h_toks upper)))
      (h_pre lower).

(* the whole expander state: parser_stack and no_expand, top first *)
Record xst := mkX { x_stack : list helper; x_noexp : list (option string) }.

(* outcome of a primitive: value + state, EndofParse (with the state), or an exception *)
Inductive xr (A : Type) := XVal (a : A) (s : xst) | XEnd (s : xst) | XErr (e : string).
Arguments XVal {A}. Arguments XEnd {A}. Arguments XErr {A}.

(* `while self.parser_stack[-1].eol(): self.pop()`  - structural on the stack below the top *)
Fixpoint norm_top (top : helper) (below : list helper) (ne : list (option string)) : xr unit :=
  if h_eol top then
    match below with
    | [] => XEnd (mkX [top] ne)
    | lower :: below' =>
        if h_pre top then XEnd (mkX (top :: below) ne)
        else norm_top (splice lower top) below' (tl ne)
    end
  else XVal Datatypes.tt (mkX (top :: below) ne).
Definition norm (s : xst) : xr unit :=
  match x_stack s with
  | [] => XErr "IndexError"
  | top :: below => norm_top top below (x_noexp s)
  end.

Definition with_top {A} (s : xst) (f : helper -> list helper -> xr A) : xr A :=
  match norm s with
  | XVal _ s1 => match x_stack s1 with top :: below => f top below | [] => XErr "IndexError" end
  | XEnd s1 => XEnd s1
  | XErr e => XErr e
  end.

(* MacroExpander.peek_tok_pop *)
Definition peek_tok_pop (s : xst) : xr (option tok) :=
  match norm s with
  | XVal _ s1 =>
      match x_stack s1 with
      | top :: _ => match nth_error (h_toks top) (h_pos top) with
                    | Some t => XVal t s1
                    | None => XErr "IndexError"
                    end
      | [] => XErr "IndexError"
      end
  | XEnd s1 => XEnd s1
  | XErr e => XErr e
  end.

(* MacroExpander.advance_tok *)
Definition advance_tok (s : xst) : xr unit :=
  match norm s with
  | XVal _ s1 =>
      match x_stack s1 with
      | top :: below => XVal Datatypes.tt (mkX (mkH (h_toks top) (S (h_pos top)) (h_pre top) :: below) (x_noexp s1))
      | [] => XErr "IndexError"
      end
  | XEnd s1 => XEnd s1
  | XErr e => XErr e
  end.

(* MacroExpander.consume_tok *)
Definition consume_tok (s : xst) : xr (option tok) :=
  match norm s with
  | XVal _ s1 =>
      match x_stack s1 with
      | top :: below =>
          match nth_error (h_toks top) (h_pos top) with
          | Some t => XVal t (mkX (mkH (set_nth (h_pos top) None (h_toks top)) (S (h_pos top)) (h_pre top) :: below)
                                  (x_noexp s1))
          | None => XErr "IndexError"
          end
      | [] => XErr "IndexError"
      end
  | XEnd s1 => XEnd s1
  | XErr e => XErr e
  end.

(* MacroExpander.replace_tok *)
Definition replace_tok (t : tok) (s : xst) : xr unit :=
  match norm s with
  | XVal _ s1 =>
      match x_stack s1 with
      | top :: below =>
          if Nat.ltb (h_pos top) (List.length (h_toks top)) then
            XVal Datatypes.tt (mkX (mkH (set_nth (h_pos top) (Some t) (h_toks top)) (S (h_pos top)) (h_pre top) :: below)
                         (x_noexp s1))
          else XErr "IndexError"
      | [] => XErr "IndexError"
      end
  | XEnd s1 => XEnd s1
  | XErr e => XErr e
  end.

(* `self.parser_stack[-1].pos -= 1` followed by replace_tok *)
Definition put_back (t : tok) (s : xst) : xr unit :=
  match x_stack s with
  | top :: below => replace_tok t (mkX (mkH (h_toks top) (Nat.pred (h_pos top)) (h_pre top) :: below) (x_noexp s))
  | [] => XErr "IndexError"
  end.

(* MacroExpander.peek_tok: looks down the stack without popping *)
Fixpoint peek_down (st : list helper) : option tok :=
  match st with
  | [] => None
  | h :: below =>
      if h_eol h then
        match below with
        | [] => None
        | _ => if h_pre h then None else peek_down below
        end
      else match nth_error (h_toks h) (h_pos h) with Some t => t | None => None end
  end.

Definition in_noexp (s : string) (ne : list (option string)) : bool :=
  existsb (fun o => match o with Some x => String.eqb x s | None => false end) ne.

Definition table := list (string * macro).
Fixpoint get_macro (tb : table) (s : string) : option macro :=
  match tb with
  | [] => None
  | (k, m) :: r => if String.eqb k s then Some m else get_macro r s
  end.


Variable tb : table.

Definition push (l : list tok) (name : option string) (s : xst) : xr unit :=
  let s' := mkX (mkH (map Some l) 0 false :: x_stack s) (name :: x_noexp s) in
  if Nat.leb max_level (List.length (x_stack s')) then XErr "Overflow" else XVal Datatypes.tt s'.

(* argument collection: the inner `while True` *)
Fixpoint collect (fuel : nat) (maxargs : option nat) (s : xst) (args : list (list tok)) (cur : list tok) (depth : nat)
  : xr (list (list tok)) :=
  match fuel with
  | O => XErr "OutOfFuel"
  | S f =>
    match consume_tok s with
    | XEnd s1 => XEnd s1
    | XErr e => XErr e
    | XVal None _ => XErr "AttributeError"
    | XVal (Some t) s1 =>
        if is_txt "," t && Nat.eqb depth 1 &&
           match maxargs with None => true | Some n => Nat.ltb (S (List.length args)) n end
        then collect f maxargs s1 (args ++ [cur]) [] depth
        else if is_txt "(" t then collect f maxargs s1 args (cur ++ [t]) (S depth)
        else if is_txt ")" t then
          if Nat.eqb depth 1 then XVal (args ++ [cur]) s1
          else collect f maxargs s1 args (cur ++ [t]) (Nat.pred depth)
        else collect f maxargs s1 args (cur ++ [t]) depth
    end
  end.

Definition defined_tok (id : tok) : tok :=
  mkTok KNum (tw id) (match get_macro tb (tt id) with Some _ => "1" | None => "0" end) true.

(* the `defined` branch of expand *)
Definition do_defined (s : xst) : xr unit :=
  match peek_down (x_stack s) with
  | None => XErr "AttributeError"
  | Some t =>
      if is_txt "(" t then
        match consume_tok s with
        | XEnd s1 => XEnd s1 | XErr e => XErr e
        | XVal _ s1 =>
          match consume_tok s1 with
          | XEnd s2 => XEnd s2 | XErr e => XErr e
          | XVal None _ => XErr "AttributeError"
          | XVal (Some id) s2 =>
              match peek_down (x_stack s2) with
              | None => XErr "AttributeError"
              | Some p =>
                  if negb (is_txt ")" p) then XErr "ParseError"
                  else if negb (is_id id) then XErr "ParseError"
                  else match replace_tok (defined_tok id) s2 with
                       | XErr "IndexError" => XErr "ParseError"
                       | r => r
                       end
              end
          end
        end
      else if negb (is_id t) then XErr "ParseError"
      else match replace_tok (defined_tok t) s with
           | XErr "IndexError" => XErr "ParseError"
           | r => r
           end
  end.

(* self.expand(tokens, None, True) for an argument, given the function [runf] that runs the
   loop of the nested frame until EndofParse: returns the expansion and the state *)
Definition call_with (runf : xst -> res xst) (arg : list tok) (s0 : xst) : res (list tok * xst) :=
  if Nat.leb max_level (List.length (x_stack s0)) then Err "Overflow"
  else match arg with
       | [] => Ok ([], s0)
       | _ =>
         match runf (mkX (mkH (map Some arg) 0 true :: x_stack s0) (base_name :: x_noexp s0)) with
         | Ok s1 =>
             match x_stack s1 with
             | top :: below => Ok (somes (h_toks top), mkX below (tl (x_noexp s1)))
             | [] => Err "IndexError"
             end
         | Err "Overflow" =>
             (* except MacroExpandOverflow: self.__init__(platform); return [0] *)
             Ok ([mkTok KNum false "0" true], mkX [] [])
         | Err e => Err e
         end
       end.

(* pre-expansion of the arguments, in order *)
Fixpoint pre_with (runf : xst -> res xst) (m : macro) (i : nat) (al : list (list tok)) (st : xst)
  : res (list iarg * xst) :=
  match al with
  | [] => Ok ([], st)
  | a :: ar =>
      if match nth_error (m_need m) i with Some b => b | None => true end then
        match call_with runf a st with
        | Err e => Err e
        | Ok (ex, st1) =>
            match pre_with runf m (S i) ar st1 with
            | Ok (ias, st2) => Ok ((a, Some ex) :: ias, st2)
            | Err e => Err e
            end
        end
      else
        match pre_with runf m (S i) ar st with
        | Ok (ias, st2) => Ok ((a, None) :: ias, st2)
        | Err e => Err e
        end
  end.

(* The body of expand(): [run fuel s] iterates the `while True` until
   EndofParse and returns the state at that moment. *)
Fixpoint run (fuel : nat) (s : xst) : res xst :=
  match fuel with
  | O => Err "OutOfFuel"
  | S f =>
    let continue (r : xr unit) : res xst :=
      match r with
      | XVal _ s' => run f s'
      | XEnd s' => Ok s'
      | XErr e => Err e
      end in
    match peek_tok_pop s with
    | XEnd s1 => Ok s1
    | XErr e => Err e
    | XVal None s1 => continue (advance_tok s1)
    | XVal (Some ctok) s1 =>
      if negb (is_id ctok) then continue (advance_tok s1)
      else
        match consume_tok s1 with
        | XEnd s2 => Ok s2
        | XErr e => Err e
        | XVal _ s2 =>
          if is_txt "defined" ctok then continue (do_defined s2)
          else if negb (tx ctok) || in_noexp (tt ctok) (x_noexp s2) then
            continue (put_back (mkTok (tk ctok) (tw ctok) (tt ctok) false) s2)
          else
            match get_macro tb (tt ctok) with
            | None => continue (put_back ctok s2)
            | Some m =>
              if m_fun m then
                match peek_down (x_stack s2) with
                | Some p =>
                  if is_txt "(" p then
                    match consume_tok s2 with
                    | XEnd s3 => Ok s3
                    | XErr e => Err e
                    | XVal _ s3 =>
                      match collect f (if va_whole && m_variadic m then Some (List.length (m_args m)) else None)
                                    s3 [] [] 1 with
                      | XEnd s4 => Ok s4
                      | XErr e => Err e
                      | XVal args s4 =>
                        match pre_with (run f) m 0 args s4 with
                        | Err e => Err e
                        | Ok (ias, s5) =>
                          match replace_fun lead cat_fix str_white resub_fix va_fix m ias with
                          | Err e => Err e
                          | Ok repl => continue (push (set_w_hd (tw ctok) repl) (Some (m_name m)) s5)
                          end
                        end
                      end
                    end
                  else continue (put_back ctok s2)
                | None => continue (put_back ctok s2)
                end
              else continue (push (set_w_hd (tw ctok) (m_repl m)) (Some (m_name m)) s2)
            end
        end
    end
  end.

(* MacroExpander(platform).expand(tokens) *)
Definition expand (fuel : nat) (l : list tok) : res (list tok) :=
  match l with
  | [] => Ok []
  | _ =>
      if Nat.leb max_level 0 then Ok [mkTok KNum false "0" true] else
      match run fuel (mkX [mkH (map Some l) 0 false] [base_name]) with
      | Ok s => match x_stack s with
                | top :: _ => Ok (somes (h_toks top))
                | [] => Err "IndexError"
                end
      | Err "Overflow" => Ok [mkTok KNum false "0" true]
      | Err e => Err e
      end
  end.
End Expand.
Arguments XVal {A}.
Arguments XEnd {A}.
Arguments XErr {A}.
