(* Driver instance for C12: decodes a case (user configuration + sequence of
   commands), runs the model of the CURRENT code (legacy = false), the model of
   the code before the repairs (legacy = true) and the specification, on the
   built-in table generated from the repo's TOML files.  Definitions only. *)
From Coq Require Import ZArith Bool Ascii String List.
From CBI Require Import Lib.Data Lib.Res Model.C12 Spec.C12 Gen.C12_tables.
Import ListNotations.
Local Open Scope string_scope.
Local Open Scope list_scope.

Definition obind {A B} (o : option A) (f : A -> option B) : option B :=
  match o with Some x => f x | None => None end.

Definition dec_strs (d : data) : option (list string) := as_list_of as_str d.
(* () = absent, (x) = present *)
Definition dec_opt {A} (f : data -> option A) (d : data) : option (option A) :=
  match d with
  | DList [] => Some None
  | DList [x] => option_map Some (f x)
  | _ => None
  end.
Definition dec_dest (d : data) : option dest :=
  match d with
  | DInt 0%Z => Some DDefs | DInt 1%Z => Some DPaths | DInt 2%Z => Some DFiles
  | DInt 3%Z => Some DModes | DInt 4%Z => Some DPasses | _ => None
  end.
Definition dec_fmt (d : data) : option fmt :=
  match d with
  | DList [] => Some None
  | DList [DStr a; DStr b] => Some (Some (a, b))
  | _ => None
  end.
Definition dec_action (d : data) : option action :=
  match d with
  | DList [DStr "AC"; DStr c] => Some (AAppendConst c)
  | DList [DStr "AP"] => Some AAppend
  | DList [DStr "SS"; DStr (String c EmptyString); f] => option_map (AStoreSplit c) (dec_fmt f)
  | DList [DStr "EM"; p; f; o] =>
      obind (dec_strs p) (fun p => obind (dec_fmt f) (fun f => obind (as_bool o) (fun o => Some (AExtendMatch p f o))))
  | _ => None
  end.
Definition dec_rule (d : data) : option rule :=
  match d with
  | DList [fl; a; de; df] =>
      obind (dec_strs fl) (fun fl => obind (dec_action a) (fun a => obind (dec_dest de) (fun de =>
      obind (dec_opt dec_strs df) (fun df => Some {| r_flags := fl; r_act := a; r_dest := de; r_default := df |}))))
  | _ => None
  end.
Definition dec_mode (d : data) : option mode :=
  match d with
  | DList [DStr n; a; b; c] =>
      obind (dec_strs a) (fun a => obind (dec_strs b) (fun b => obind (dec_strs c) (fun c =>
      Some {| m_name := n; m_defs := a; m_paths := b; m_files := c |})))
  | _ => None
  end.
Definition dec_pass (d : data) : option pass :=
  match d with
  | DList [DStr n; a; b; c; m] =>
      obind (dec_strs a) (fun a => obind (dec_strs b) (fun b => obind (dec_strs c) (fun c => obind (dec_strs m) (fun m =>
      Some {| p_name := n; p_defs := a; p_paths := b; p_files := c; p_modes := m |}))))
  | _ => None
  end.
Definition dec_udef (d : data) : option udef :=
  match d with
  | DList [DStr "A"; DStr t] => Some (UAlias t)
  | DList [DStr "C"; o; r; m; p] =>
      obind (dec_opt dec_strs o) (fun o => obind (dec_opt (as_list_of dec_rule) r) (fun r =>
      obind (dec_opt (as_list_of dec_mode) m) (fun m => obind (dec_opt (as_list_of dec_pass) p) (fun p =>
      Some (UComp o r m p)))))
  | _ => None
  end.
Definition dec_named (d : data) : option (string * udef) :=
  match d with
  | DList [DStr n; u] => option_map (fun u => (n, u)) (dec_udef u)
  | _ => None
  end.
Definition dec_cmd (d : data) : option (string * list string) :=
  match d with
  | DList [DStr a0; argv] => option_map (fun l => (a0, l)) (dec_strs argv)
  | _ => None
  end.

Definition enc_strs (l : list string) : data := of_list DStr l.
Definition enc_status (s : status) : data :=
  match s with
  | SUnrec => DList [DStr "unrec"]
  | SOk t => DList [DStr "ok"; DStr t]
  | SLoop => DList [DStr "loop"]
  | SDangling a => DList [DStr "dangling"; DStr a]
  | SOutOfFuel => DList [DStr "fuel"]
  end.
Definition enc_config (g : config) : data :=
  DList [DStr (g_pass g); enc_strs (g_defs g); enc_strs (g_paths g); enc_strs (g_files g);
         of_list (fun m => DList [enc_strs (m_defs m); enc_strs (m_paths m); enc_strs (m_files m)]) (g_blocks g)].
Definition enc_ok (r : list config * list string) : data :=
  DList [DStr "Ok"; of_list enc_config (fst r); enc_strs (snd r)].
Definition enc_res (r : err + (list config * list string)) : data :=
  match r with
  | inl EArgument => DList [DStr "Err"; DStr "ArgumentError"]
  | inr x => enc_ok x
  end.
Definition enc_spec (r : option (list config * list string)) : data :=
  match r with None => DStr "NA" | Some x => enc_ok x end.

Definition load_table (user : list (string * udef)) : table := merge_user builtin_table user.

(* case: (user cmds) ; answer: per command (status_M result_M status_S result_S status_legacy result_legacy rules_conflict) *)
Definition run_C12 (d : data) : data :=
  match d with
  | DList [u; cs] =>
      match as_list_of dec_named u, as_list_of dec_cmd cs with
      | Some user, Some cmds =>
          let t := load_table user in
          let m := run_cmds false t cmds in
          let l := run_cmds true t cmds in
          let s := map (spec_cmd t) cmds in
          DList (map (fun x => match x with (mm, ll, ss) =>
                   DList [enc_status (fst mm); enc_res (snd mm); enc_status (fst ss); enc_spec (snd ss);
                          enc_status (fst ll); enc_res (snd ll);
                          of_bool (rules_conflict (compiler_of t (fst ss)))] end)
                     (combine (combine m l) s))
      | _, _ => bad_case
      end
  | _ => bad_case
  end.
