(* C13 - model of the lexical part of CPython 3.12 posixpath and of
   pathlib.PurePosixPath.suffix and os.path.splitext, on strings (str = list of characters).
   Definitions only; lemmas are in Proofs/C13p.v.

     isabs, join, normpath, abspath, basename   (Lib/posixpath.py)
     Path(x).suffix                             (Lib/pathlib.py, _parse_path / name / suffix)

   Nothing here touches a file system; [abspath] takes os.getcwd() as a parameter. *)
From Coq Require Import Bool Arith Ascii List.
Import ListNotations.

Definition str := list ascii.

Definition slash : ascii := "/"%char.
Definition dotc : ascii := "."%char.
Definition is_slash (c : ascii) : bool := Ascii.eqb c slash.

Fixpoint str_eqb (a b : str) : bool :=
  match a, b with
  | [], [] => true
  | x :: a', y :: b' => Ascii.eqb x y && str_eqb a' b'
  | _, _ => false
  end.

Definition dot : str := [dotc].
Definition dotdot : str := [dotc; dotc].

(* s.startswith('/') *)
Definition isabs (s : str) : bool :=
  match s with c :: _ => is_slash c | [] => false end.

(* s.endswith('/') *)
Fixpoint ends_slash (s : str) : bool :=
  match s with
  | [] => false
  | [c] => is_slash c
  | _ :: r => ends_slash r
  end.

(* posixpath.join(a, b): one iteration of its loop *)
Definition join (a b : str) : str :=
  if isabs b then b
  else match a with
       | [] => b
       | _ => if ends_slash a then a ++ b else a ++ slash :: b
       end.

(* s.split('/'): never empty, n separators give n+1 fields *)
Fixpoint split (s : str) : list str :=
  match s with
  | [] => [[]]
  | c :: r =>
      if is_slash c then [] :: split r
      else match split r with
           | h :: t => (c :: h) :: t
           | [] => [[c]]
           end
  end.

(* '/'.join(comps) *)
Fixpoint intercalate (comps : list str) : str :=
  match comps with
  | [] => []
  | [c] => c
  | c :: r => c ++ slash :: intercalate r
  end.

(* initial_slashes of normpath: 0, 1, or 2 (exactly two leading slashes are kept: POSIX) *)
Definition initial_slashes (s : str) : nat :=
  match s with
  | a :: b :: c :: _ => if is_slash a then (if is_slash b then (if is_slash c then 1 else 2) else 1) else 0
  | [a; b] => if is_slash a then (if is_slash b then 2 else 1) else 0
  | [a] => if is_slash a then 1 else 0
  | [] => 0
  end.

(* one iteration of normpath's loop; [acc] is new_comps REVERSED (head = new_comps[-1]) *)
Definition norm_step (absolute : bool) (acc : list str) (comp : str) : list str :=
  if str_eqb comp [] || str_eqb comp dot then acc
  else if negb (str_eqb comp dotdot)
          || (negb absolute && match acc with [] => true | _ => false end)
          || match acc with h :: _ => str_eqb h dotdot | [] => false end
       then comp :: acc
       else match acc with _ :: t => t | [] => [] end.

Definition normpath (s : str) : str :=
  match s with
  | [] => dot
  | _ =>
      let k := initial_slashes s in
      let comps := rev (fold_left (norm_step (Nat.ltb 0 k)) (split s) []) in
      match repeat slash k ++ intercalate comps with
      | [] => dot
      | p => p
      end
  end.

(* os.path.abspath(p) with os.getcwd() = cwd *)
Definition abspath (cwd p : str) : str :=
  normpath (if isabs p then p else join cwd p).

(* os.path.basename(p) = p[p.rfind('/')+1:] = last field of split *)
Definition basename (p : str) : str := last (split p) [].

(* ---- pathlib.PurePosixPath(x).suffix ---- *)
(* .name: last element of [x for x in rel.split('/') if x and x != '.'], '' if none *)
Definition path_name (s : str) : str :=
  last (filter (fun c => negb (str_eqb c [] || str_eqb c dot)) (split s)) [].

(* name[i:] for i = name.rfind('.') when 0 < i < len(name)-1, else ''.
   [suffix_from n] returns the part of n from its last dot, if any. *)
Fixpoint last_dot_suffix (n : str) : option str :=
  match n with
  | [] => None
  | c :: r =>
      match last_dot_suffix r with
      | Some s => Some s
      | None => if Ascii.eqb c dotc then Some (c :: r) else None
      end
  end.

Definition suffix (s : str) : str :=
  match path_name s with
  | [] => []
  | c :: r =>                       (* i > 0: the dot is searched in name[1:] *)
      match last_dot_suffix r with
      | Some (d :: e :: t) => d :: e :: t      (* i < len(name)-1: something follows the dot *)
      | _ => []
      end
  end.

(* ---- os.path.splitext(p)[1]  (genericpath._splitext with sep '/', extsep '.') ----
   the part of the last field from its last dot, unless only dots (or nothing)
   precede that dot in the field *)
Definition splitext_ext (p : str) : str :=
  let b := basename p in
  match last_dot_suffix b with
  | None => []
  | Some e =>
      let pre := firstn (length b - length e) b in
      if forallb (fun c => Ascii.eqb c dotc) pre then [] else e
  end.

