(* C10 — model M of code-base membership as far as C10 needs it (CodeBase.__contains__:
   under the root directory and not matched by an exclude pattern; the full
   gitignore semantics is C09's subject) and of the three places where the code
   base enters an analysis:
     finder.find            pre-parses the members (Model/C08.v: find_cb),
     get_setmap / report.files / coverage._compute   iterate `for fn in codebase`,
     __main__._main / tree._tree                      build it from  -x patterns ++ [codebase].exclude.
   Definitions only. *)
From Coq Require Import Bool Arith ZArith String Ascii List.
From CBI Require Import Lib.Res Model.C01 Model.C04 Model.C08 Gen.C08_tables.
Import ListNotations.
Local Open Scope string_scope.
Local Open Scope list_scope.

(* the four pattern shapes the correspondence generates; all without negation *)
Inductive pat :=
| PExact (rel : path)        (* "/src/a.c", "src/sub/c.c": anchored at the root; a directory match covers its contents *)
| PDir (d : string)          (* "inc1/": a directory of that name at any depth *)
| PExt (e : string)          (* "*.h": base name ends in .h *)
| PBase (b : string).        (* "h.h": a component of that name at any depth *)

Fixpoint strip_prefix (pre p : path) : option path :=
  match pre, p with
  | [], _ => Some p
  | a :: pre', b :: p' => if String.eqb a b then strip_prefix pre' p' else None
  | _ :: _, [] => None
  end.
Definition is_prefix (pre p : path) : bool := match strip_prefix pre p with Some _ => true | None => false end.

Fixpoint rev_string (s acc : string) : string :=
  match s with EmptyString => acc | String c r => rev_string r (String c acc) end.
Definition ends_with (suffix s : string) : bool := String.prefix (rev_string suffix "") (rev_string s "").

Definition matches (pt : pat) (rel : path) : bool :=
  match pt with
  | PExact r => is_prefix r rel
  | PDir d => existsb (String.eqb d) (removelast rel)
  | PExt e => match rev rel with [] => false | b :: _ => ends_with ("." ++ e) b end
  | PBase b => existsb (String.eqb b) rel
  end.

(* fn in CodeBase(root, exclude_patterns=pats), for an existing source file *)
Definition member_of (root : path) (pats : list pat) (f : path) : bool :=
  match strip_prefix root f with
  | Some ((_ :: _) as rel) => negb (existsb (fun pt => matches pt rel) pats)
  | _ => false
  end.

(* args.excludes (from -x, in order) += analysis_toml["codebase"]["exclude"]; how the two lists
   are combined in __main__._main is read from the source (Gen/C08_tables.v); Props/C10.v
   also checks that tree._tree does the same *)
Definition effective_for {A} (m : exclude_mode) (xs ts : list A) : list A :=
  match m with XThenToml => xs ++ ts | TomlOnly => ts end.
Definition effective {A} (xs ts : list A) : list A := effective_for excludes_main xs ts.

(* ---------- one whole analysis as the CLIs run it, for ANY membership predicate ----------
   [member] is `fn in codebase` (CodeBase.__contains__ for the code base built from the root
   and the effective pattern list): the analysis uses it in exactly two places. *)
Section AnyMembership.
Variable member : path -> bool.
Definition analyse_m (fs : fsys) (fuel : nat) (w : nodeid -> nat) (cfg : config) : res (amap * setmap) :=
  match find_cb fs fuel member cfg with
  | Ok am => Ok (am, setmap_M (names_of cfg) w member am fs)
  | Err x => Err x
  end.

(* the mutant C10 is about: files that are not members are neither parsed nor
   associated (an excluded / out-of-tree header is "not found", a compiled
   non-member is skipped) *)
Definition drop_nonmembers (fs : fsys) : fsys := filter (fun fl => member (fst fl)) fs.
Definition drop_entries (cfg : config) : config :=
  map (fun ne => (fst ne, filter (fun e => member (e_file e)) (snd ne))) cfg.
Definition analyse_skipping_m (fs : fsys) (fuel : nat) (w : nodeid -> nat) (cfg : config) : res (amap * setmap) :=
  match find_cb (drop_nonmembers fs) fuel member (drop_entries cfg) with
  | Ok am => Ok (am, setmap_M (names_of cfg) w member am fs)
  | Err x => Err x
  end.
End AnyMembership.

(* the CLI for a matcher given as a function of the pattern list: -x patterns and the
   analysis file's patterns are combined by [effective] and nothing else *)
Definition analyse_cli {X} (member : list X -> path -> bool) (fs : fsys) (fuel : nat) (xs ts : list X)
    (w : nodeid -> nat) (cfg : config) : res (amap * setmap) :=
  analyse_m (member (effective xs ts)) fs fuel w cfg.

(* the four-shape matcher of this file *)
Definition analyse (fs : fsys) (fuel : nat) (root : path) (xs ts : list pat) (w : nodeid -> nat) (cfg : config)
  : res (amap * setmap) := analyse_cli (member_of root) fs fuel xs ts w cfg.
Definition analyse_skipping (fs : fsys) (fuel : nat) (root : path) (xs ts : list pat) (w : nodeid -> nat) (cfg : config)
  : res (amap * setmap) := analyse_skipping_m (member_of root (effective xs ts)) fs fuel w cfg.

(* number of lines of member files whose platform set is [k]: the yardstick for a setmap row *)
Section Count.
Variable names : list pname.
Variable w : nodeid -> nat.
Variable am : amap.
Definition count_file (k : key) (f : path) (ls : list (line act cond)) : nat :=
  fold_right (fun l acc => (if key_eqb (plats_of names am (f, fst l)) k then w (f, fst l) else 0) + acc) 0 ls.
Definition count (member : path -> bool) (k : key) (fs : fsys) : nat :=
  fold_right (fun fl acc => (if member (fst fl) then count_file k (fst fl) (snd fl) else 0) + acc) 0 fs.
End Count.
