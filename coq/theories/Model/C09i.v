(* C09 — codec for the correspondence driver.
   case   : ( entries cwd dirs lines queries )
            entries = ( (path kind)* )   kind = F | D | (L target)
            cwd     = path (components), dirs/lines/queries = strings
   answer : ( status Mcontains Miter Scontains Smembers dom qclass eclass esc )
            status = ok | unsupported | ctor ;  each contains answer 0 | 1 | error word ;
            dom = directories are disjoint real directories ; qclass = known-finding class per query ;
            eclass = ( (path class)* ) for the regular files in a class ; esc = pathspec rejects a line git accepts *)
From Coq Require Import Bool Arith Ascii String List.
From CBI Require Import Lib.Res Lib.Data Lib.C09_glob Model.C09 Spec.C09.
Import ListNotations.
Local Open Scope string_scope.

Definition dec_kind (d : data) : option kind :=
  match d with
  | DStr "F" => Some KFile
  | DStr "D" => Some KDir
  | DList [DStr "L"; DStr t] => Some (KLink t)
  | _ => None
  end.
Definition dec_entry (d : data) : option (path * kind) := as_pair (as_list_of as_str) dec_kind d.

Definition enc_resb (r : res bool) : data :=
  match r with Ok b => of_bool b | Err e => DStr e end.
Definition enc_paths (r : res (list path)) : data :=
  match r with Ok ps => of_list (of_list DStr) ps | Err e => DStr e end.

Definition is_unsup (c : compiled) : bool := match c with CUnsup => true | _ => false end.

Definition run_C09 (d : data) : data :=
  match d with
  | DList [es; cwd; ds; ls; qs] =>
      match as_list_of dec_entry es, as_list_of as_str cwd, as_list_of as_str ds,
            as_list_of as_str ls, as_list_of as_str qs with
      | Some fs, Some cwd, Some ds, Some ls, Some qs =>
          if is_unsup (compile false ls) || is_unsup (compile true ls) then
            DList [DStr "unsupported"]
          else
          match make fs cwd ds ls with
          | Err e => DList [DStr "ctor"; DStr e]
          | Ok cb =>
              DList [DStr "ok";
                     of_list (fun q => enc_resb (contains fs cwd cb q)) qs;
                     enc_paths (iter fs cb);
                     of_list (fun q => enc_resb (member fs cwd cb q)) qs;
                     enc_paths (members fs cb);
                     of_bool (roots_ok fs (cb_roots cb));
                     of_list (fun q => match resolve fs cwd q with Ok r => of_nat (class_of cb r) | Err _ => of_nat 0 end) qs;
                     DList (flat_map (fun e => match snd e with
                                               | KFile => match class_of cb (fst e) with
                                                          | 0 => []
                                                          | n => [DList [of_list DStr (fst e); of_nat n]]
                                                          end
                                               | _ => []
                                               end) fs);
                     of_bool (match compile false ls, compile true ls with CErr, CPats _ => true | _, _ => false end)]
          end
      | _, _, _, _, _ => bad_case
      end
  | _ => bad_case
  end.
