(* C15 — file-system model with symbolic links.
   fnode := File | Dir | Link; os.path.realpath / Path.resolve (posixpath.
   _joinrealpath: component by component, a link's target is resolved by a
   nested call whose depth is bounded by the fuel; out of fuel = ELOOP),
   Path.rglob("*") (does not descend through directory links, CPython 3.12),
   CodeBase.__contains__ / __iter__ (codebasin/__init__.py).
   Paths are absolute: lists of components below the root of the tree.
   Definitions only. *)
From Coq Require Import Bool Arith String List.
From CBI Require Import Lib.Res Model.C04.
Import ListNotations.
Local Open Scope string_scope.
Local Open Scope list_scope.

Inductive fnode :=
| File (key : string)                         (* a regular file; key identifies its content *)
| Dir (kids : list (string * fnode))
| Link (abs : bool) (tgt : path).             (* readlink(): absolute or relative target *)

Fixpoint kid (name : string) (kids : list (string * fnode)) : option fnode :=
  match kids with
  | [] => None
  | (n, k) :: r => if String.eqb n name then Some k else kid name r
  end.

(* lstat() along a path that is followed WITHOUT resolving links: a link (or a
   file) in the middle of the path yields None *)
Fixpoint node_at (n : fnode) (p : path) : option fnode :=
  match p with
  | [] => Some n
  | c :: r =>
      match n with
      | Dir kids => match kid c kids with Some k => node_at k r | None => None end
      | _ => None
      end
  end.

Definition is_dot (c : string) : bool := String.eqb c "." || String.eqb c "".
Definition is_dotdot (c : string) : bool := String.eqb c "..".
Definition eloop : string := "ELOOP: too many levels of symbolic links".

Fixpoint is_prefix (a b : path) : bool :=
  match a, b with
  | [], _ => true
  | x :: a', y :: b' => String.eqb x y && is_prefix a' b'
  | _ :: _, [] => false
  end.

Section FS.
Variable root : fnode.

(* posixpath._joinrealpath(path = acc, rest): acc is already resolved *)
Fixpoint resolve (fuel : nat) {struct fuel} : path -> path -> res path :=
  fix go (acc rest : path) {struct rest} : res path :=
    match rest with
    | [] => Ok acc
    | c :: r =>
        if is_dot c then go acc r
        else if is_dotdot c then go (removelast acc) r
        else match node_at root (acc ++ [c]) with
             | Some (Link ab tgt) =>
                 match fuel with
                 | 0 => Err eloop
                 | S f =>
                     match resolve f (if ab then [] else acc) tgt with
                     | Ok acc' => go acc' r
                     | Err e => Err e
                     end
                 end
             | _ => go (acc ++ [c]) r            (* directory, file, or missing: kept as spelled *)
             end
    end.

Definition realpath (fuel : nat) (p : path) : res path := resolve fuel [] p.

(* a path that no lstat() along it finds to be a link and that has no ".", "", ".." *)
Definition plain (c : string) : bool := negb (is_dot c) && negb (is_dotdot c).
Definition nolink (o : option fnode) : bool := match o with Some (Link _ _) => false | _ => true end.
Fixpoint real_from (acc rest : path) : bool :=
  match rest with
  | [] => true
  | c :: r => plain c && nolink (node_at root (acc ++ [c])) && real_from (acc ++ [c]) r
  end.
Definition is_real (p : path) : bool := real_from [] p.

(* Path(d).rglob("*"): every entry below d, not descending through links *)
Fixpoint walk (n : fnode) (here : path) : list path :=
  match n with
  | Dir kids =>
      (fix wl (ks : list (string * fnode)) : list path :=
         match ks with
         | [] => []
         | (nm, k) :: r => (here ++ [nm]) :: walk k (here ++ [nm]) ++ wl r
         end) kids
  | _ => []
  end.
Definition rglob (d : path) : list path :=
  match node_at root d with Some n => walk n d | None => [] end.

(* ---------- CodeBase ---------- *)
Variable is_src : string -> bool.               (* codebasin.source.is_source_file on the final component *)
Variable F : nat.                               (* link-nesting bound used by the executable model *)

Definition eloop_path : path := ["?ELOOP"].
Definition rp (p : path) : path := match realpath F p with Ok q => q | Err _ => eloop_path end.

Definition is_file_node (o : option fnode) : bool := match o with Some (File _) => true | _ => false end.
Definition is_link_at (p : path) : bool := negb (nolink (node_at root p)).   (* Path.is_symlink() on an enumerated path *)

(* CodeBase.__contains__ with no exclude patterns; dirs = the resolved directories.
   (Path.resolve raises on a symlink loop: not a member) *)
Definition contains (dirs : list path) (p : path) : bool :=
  match realpath F p with
  | Ok r => is_file_node (node_at root r) && is_src (last r "") && existsb (fun d => is_prefix d r) dirs
  | Err _ => false
  end.

(* CodeBase.__iter__ *)
Definition iter (dirs : list path) : list path :=
  flat_map (fun d => filter (contains dirs) (rglob d)) dirs.

(* get_setmap: "if path.is_symlink() and path.resolve() in codebase: continue" *)
Definition skipped (dirs : list path) (fn : path) : bool :=
  is_link_at fn && match realpath F fn with Ok r => contains dirs r | Err _ => false end.
Definition counted (dirs : list path) : list path :=
  filter (fun fn => negb (skipped dirs fn)) (iter dirs).

End FS.

(* the same tree with every link removed *)
Fixpoint remove_links (n : fnode) : fnode :=
  match n with
  | Dir kids =>
      Dir ((fix rl (ks : list (string * fnode)) : list (string * fnode) :=
              match ks with
              | [] => []
              | (nm, Link _ _) :: r => rl r
              | (nm, k) :: r => (nm, remove_links k) :: rl r
              end) kids)
  | _ => n
  end.

(* create one more directory entry [nm] -> [l] in the directory [loc] *)
Fixpoint add_node (n : fnode) (loc : path) (nm : string) (l : fnode) {struct loc} : fnode :=
  match n with
  | Dir kids =>
      match loc with
      | [] => Dir (kids ++ [(nm, l)])
      | c :: r => Dir (map (fun x => if String.eqb (fst x) c then (fst x, add_node (snd x) r nm l) else x) kids)
      end
  | _ => n
  end.
