(* C18 — model M of everything that issues or counts a warning:
     config.load_database / ArgumentParser        (missing file, unsupported command, unknown
                                                   compiler, unrecognised arguments, empty database)
     FileParser.insert_directive_node             (unrecognised directive, once per parse)
     IncludeNode.evaluate_for_platform            (the C04 model's events, rendered as messages)
     finder.find                                  (files parsed once; every configuration entry
                                                   preprocessed from a fresh Platform)
     WarningAggregator / MetaWarning / _main      (counters over WARNING records by the substring
                                                   tests as written; the closing meta-warnings are
                                                   themselves logged through the same filter)
   The tables (unhandled directives, meta-warning regexes and messages, registered options,
   compilers, source extensions) are GENERATED from the repo: Gen/C18_tables.v.
   Definitions only. *)
From Coq Require Import Bool Arith ZArith Ascii String List.
From Coq Require DecimalString.
From CBI Require Import Lib.Res Lib.C18_str Model.C01 Model.C04.
Import ListNotations.
Local Open Scope list_scope.
Local Open Scope string_scope.

(* ---------- files: the C04 logical lines plus the unrecognised directives ---------- *)
(* one UnrecognizedDirectiveNode: position of its first token and its tokens
   (prev_white, spelling), the '#' included *)
Record udir := { u_line : nat; u_col : nat; u_toks : list (bool * string) }.
Record cfile := { cf_lines : list (line act cond); cf_unk : list udir }.
Definition cfs := list (path * cfile).
Definition fs_of (c : cfs) : fsys := map (fun pf => (fst pf, cf_lines (snd pf))) c.
Fixpoint cfs_get (c : cfs) (p : path) : option cfile :=
  match c with [] => None | (q, f) :: r => if path_eqb p q then Some f else cfs_get r p end.

(* ---------- the warnings ---------- *)
Inductive wrec :=
| WMissingFile (p : path)
| WUnsupported (cmd : string)
| WUnknownCompiler (name : string)
| WUnknownArgs (args : list string)
| WEmptyDB (db : string)
| WUnknownDirective (f : path) (u : udir)
| WMissingInclude (e : event) (spelling : string)
| WMissingForced (f : path) (n : path)
| WArgError (e : string).

(* DirectiveNode.spelling *)
Definition spelling_of (toks : list (bool * string)) : string :=
  String.concat "" (map (fun t : bool * string => (if fst t then " " else "") ++ snd t) toks).
(* repr of a str without backslashes: single quotes unless it holds a single and no double quote *)
Definition py_repr (s : string) : string :=
  if contains sq s && negb (contains dq s) then dq ++ s ++ dq else sq ++ s ++ sq.

Definition kind_label (angle : bool) : string := if angle then "system include" else "user include".
Definition inc_spelling (s : ispec) : string :=
  match s with
  | IQuote n => "#include " ++ dq ++ rname n ++ dq
  | IAngle n => "#include <" ++ rname n ++ ">"
  | IMacro m => "#include " ++ m
  end.

Definition msg_of (w : wrec) : string :=
  match w with
  | WMissingFile p => "Ignoring non-existent file: " ++ rpath p
  | WUnsupported cmd => "Ignoring unsupported compile command: " ++ cmd
  | WUnknownCompiler n => "Compiler '" ++ n ++ "' not recognized."
  | WUnknownArgs l => "Unrecognized arguments: '" ++ join " " l ++ "'"
  | WEmptyDB db => "No files found in compilation database at '" ++ db ++ "'." ++ nl
                   ++ "Ensure that 'directory' and 'file' are in the root directory."
  | WUnknownDirective f u =>
      rpath f ++ ":" ++ dec (u_line u) ++ ":" ++ dec (u_col u) ++ ": unrecognized directive '["
      ++ py_repr (spelling_of (u_toks u)) ++ "]'"
  | WMissingInclude e sp =>
      rpath (ev_file e) ++ ":" ++ dec (ev_tag e) ++ ": " ++ kind_label (ev_angle e) ++ " '" ++ rname (ev_name e)
      ++ "' not found" ++ nl ++ pad5 (dec (ev_tag e)) ++ " | " ++ sp
  | WMissingForced f n => rpath f ++ ": forced include '" ++ rname n ++ "' not found"
  | WArgError e => "Could not parse all arguments: " ++ e
  end.

(* ---------- FileParser.insert_directive_node ---------- *)
Section Tables.
Variable unhandled : list string.
Variable base_options : list (string * bool).
Variable compilers : list (string * option string * list string * list (string * bool) * nat).
Variable source_extensions : list string.
Variable optional_value : list string.           (* flags registered with nargs="?" *)
Variable flag_groups : list (list string).       (* option strings registered together *)

Definition warns_unknown (u : udir) : bool :=
  match u_toks u with
  | _ :: (_, name) :: _ => negb (mem_str name unhandled)      (* len(tokens) >= 2 and str(tokens[1]) not in unhandled *)
  | _ => false
  end.
Definition parse_warnings (f : path) (cf : cfile) : list wrec :=
  map (WUnknownDirective f) (filter warns_unknown (cf_unk cf)).

(* ---------- config: one compilation-database entry ---------- *)
Inductive carg :=
| CDef (m : string) (v : mval)          (* -DM=V *)
| CInc (sys : bool) (d : path)          (* -Id  /  -isystem d *)
| CForce (n : path)                     (* -include n *)
| CRaw (t : string).                    (* any other token *)
Record dbentry := { db_file : path; db_argv0 : option string; db_args : list carg }.

(* the argv the harness writes into the database for this description *)
Definition render_mval (v : mval) : string :=
  match v with
  | VE => ""
  | VI z => DecimalString.NilZero.string_of_int (Z.to_int z)
  | VP true n => "<" ++ rname n ++ ">"
  | VP false n => dq ++ rname n ++ dq
  end.
Definition render_arg (a : carg) : list string :=
  match a with
  | CDef m v => ["-D" ++ m ++ "=" ++ render_mval v]
  | CInc false d => ["-I" ++ rpath d]
  | CInc true d => ["-isystem"; rpath d]
  | CForce n => ["-include"; rname n]
  | CRaw t => [t]
  end.
(* str(CompileCommand) = " ".join(arguments) *)
Definition db_cmd (e : dbentry) : string :=
  match db_argv0 e with
  | None => ""
  | Some a => join " " (a :: (flat_map render_arg (db_args e) ++ [rpath (db_file e)])%list)
  end.

Definition is_source (p : path) : bool := mem_str (suffix (last p "")) source_extensions.

Fixpoint find_compiler (name : string) (l : list (string * option string * list string * list (string * bool) * nat)) :=
  match l with
  | [] => None
  | (n, a, o, f, k) :: r => if String.eqb n name then Some (a, o, f, k) else find_compiler name r
  end.
(* follow alias_of; a chain that loops or leaves the table leaves the empty compiler *)
Fixpoint resolve (fuel : nat) (name : string) : list string * list (string * bool) * nat :=
  match find_compiler name compilers with
  | None => ([], [], 0)
  | Some (None, o, f, k) => (o, f, k)
  | Some (Some a, _, _, _) => match fuel with 0 => ([], [], 0) | S n => resolve n a end
  end.

Inductive tclass := TPositional | TKnown0 | TKnown1 (f : string) | TAttached | TUnknown
                   | TAmbiguous (e : string) | TIgnored (e : string).
Definition starts_dash (t : string) : bool :=
  match t with String c (String _ _) => Ascii.eqb c "-"%char | _ => false end.
Definition double_dash (t : string) : bool := String.prefix "--" t.
(* the registered flags a single-dash token may stand for (_get_option_tuples), in registration
   order: a two-character flag the token starts with (attached value), or a flag the token is a
   prefix of (abbreviation - allow_abbrev=False does not stop this for single-dash flags) *)
Definition tok_matches (opts : list (string * bool)) (t : string) : list (string * bool) :=
  filter (fun o => (Nat.eqb (String.length (fst o)) 2 && String.prefix (fst o) t) || String.prefix t (fst o)) opts.
(* a value may be glued to the flag: it takes one argument, or an optional one (nargs="?") *)
Definition glue_ok (o : string * bool) : bool := snd o || mem_str (fst o) optional_value.
(* the name argparse prints for an option: the option strings registered together, joined by '/' *)
Definition display (f : string) : string :=
  match find (fun g => mem_str f g) flag_groups with Some g => join "/" g | None => f end.
Definition expected_one (f : string) : string := "argument " ++ display f ++ ": expected one argument".
Definition drop2 (s : string) : string := match s with String _ (String _ r) => r | _ => "" end.
(* ArgumentParser._parse_optional for one token without '=': an exact match wins; otherwise one
   match is used, several are an error, none leaves the token unrecognised *)
Definition classify_tok (opts : list (string * bool)) (t : string) : tclass :=
  if negb (starts_dash t) then TPositional
  else match find (fun o => String.eqb (fst o) t) opts with
       | Some (f, true) => TKnown1 f
       | Some (_, false) => TKnown0            (* no argument, or an optional one *)
       | None =>
           if double_dash t then TUnknown
           else
             match tok_matches opts t with
             | [] => TUnknown
             | [(f, takes)] =>
                 if Nat.eqb (String.length f) 2 then
                   (if glue_ok (f, takes) then TAttached
                    else TIgnored ("argument " ++ display f ++ ": ignored explicit argument " ++ py_repr (drop2 t)))
                 else (if takes then TKnown1 f else TKnown0)
             | l => TAmbiguous ("ambiguous option: " ++ t ++ " could match " ++ join ", " (map fst l))
             end
       end.
(* argparse.parse_known_args restricted to one-token flags, (flag, argument) pairs, attached
   one-letter forms and positionals: the unrecognised tokens in order, or the ArgumentError
   with the position of the token at which it is raised (what comes before has been applied) *)
Inductive sres := SOk (l : list string) | SErr (msg : string) (pos : nat).
Fixpoint scan (opts : list (string * bool)) (pending : option (string * nat)) (n : nat) (toks : list string) : sres :=
  match toks with
  | [] => match pending with Some (f, j) => SErr (expected_one f) j | None => SOk [] end
  | t :: r =>
      match pending with
      | Some (f, j) => if starts_dash t then SErr (expected_one f) j else scan opts None (S n) r
      | None =>
          match classify_tok opts t with
          | TPositional | TKnown0 | TAttached => scan opts None (S n) r
          | TKnown1 f => scan opts (Some (f, n)) (S n) r
          | TUnknown => match scan opts None (S n) r with SOk l => SOk (t :: l) | e => e end
          | TAmbiguous e | TIgnored e => SErr e n
          end
      end
  end.
(* every token is classified before any option is applied: an ambiguous one fails the whole parse *)
Fixpoint first_ambiguous (opts : list (string * bool)) (toks : list string) : option string :=
  match toks with
  | [] => None
  | t :: r => match classify_tok opts t with TAmbiguous e => Some e | _ => first_ambiguous opts r end
  end.
Definition parse_argv (opts : list (string * bool)) (toks : list string) : sres :=
  match first_ambiguous opts toks with
  | Some e => SErr e 0
  | None => scan opts None 0 toks
  end.
(* the options applied before the token at position pos *)
Fixpoint applied (args : list carg) (offset pos : nat) : list carg :=
  match args with
  | [] => []
  | a :: r => if Nat.ltb offset pos then a :: applied r (offset + List.length (render_arg a)) pos else []
  end.

(* arguments[1:] of the command: the rendered options, then the file *)
Definition argv_tokens (e : dbentry) : list string :=
  (flat_map render_arg (db_args e) ++ [rpath (db_file e)])%list.
Definition entry_of (e : dbentry) : entry :=
  {| e_file := db_file e;
     (* include_paths + system_include_paths: every -I value in command-line order, then every -isystem value *)
     e_dirs := (flat_map (fun a => match a with CInc false d => [d] | _ => [] end) (db_args e)
                ++ flat_map (fun a => match a with CInc true d => [d] | _ => [] end) (db_args e))%list;
     e_defs := flat_map (fun a => match a with CDef m v => [(m, v)] | _ => [] end) (db_args e);
     e_incs := flat_map (fun a => match a with CForce n => [n] | _ => [] end) (db_args e) |}.

(* the body of load_database's loop: warnings, and the configuration entries (one per pass) *)
Definition db_step (fs : fsys) (e : dbentry) : res (list wrec * list entry) :=
  match db_argv0 e with
  | None => Ok ([WUnsupported (db_cmd e)], [])
  | Some argv0 =>
      if negb (is_source (db_file e)) then Ok ([WUnsupported (db_cmd e)], [])
      else if negb (isfile fs (db_file e)) then Ok ([WMissingFile (db_file e)], [])
      else
        let name := basename argv0 in
        let w1 := match find_compiler name compilers with None => [WUnknownCompiler name] | Some _ => [] end in
        let '(defaults, flags, extra) := resolve (List.length compilers) name in
        match parse_argv (base_options ++ flags)%list (argv_tokens e ++ defaults)%list with
        | SErr msg pos =>
            (* ArgumentError is caught: warned about, the options applied so far are kept,
               unrecognised ones are not reported *)
            let e' := {| db_file := db_file e; db_argv0 := db_argv0 e; db_args := applied (db_args e) 0 pos |} in
            Ok ((w1 ++ [WArgError msg])%list, repeat (entry_of e') (S extra))
        | SOk unk =>
            let w2 := match unk with [] => [] | _ => [WUnknownArgs unk] end in
            Ok ((w1 ++ w2)%list, repeat (entry_of e) (S extra))
        end
  end.

Fixpoint db_steps (fs : fsys) (l : list dbentry) : res (list wrec * list entry) :=
  match l with
  | [] => Ok ([], [])
  | e :: r =>
      match db_step fs e with
      | Err x => Err x
      | Ok (w, es) => match db_steps fs r with Err x => Err x | Ok (w', es') => Ok ((w ++ w')%list, (es ++ es')%list) end
      end
  end.

(* load_database for one platform (dbpath is the string printed in the empty-database warning) *)
Definition load_db (fs : fsys) (dbpath : string) (l : list dbentry) : res (list wrec * list entry) :=
  match db_steps fs l with
  | Err x => Err x
  | Ok (w, es) => Ok ((w ++ match es with [] => [WEmptyDB dbpath] | _ => [] end)%list, es)
  end.

Fixpoint load_dbs (fs : fsys) (pls : list (string * list dbentry)) : res (list wrec * list (list entry)) :=
  match pls with
  | [] => Ok ([], [])
  | (dbpath, l) :: r =>
      match load_db fs dbpath l with
      | Err x => Err x
      | Ok (w, es) => match load_dbs fs r with Err x => Err x | Ok (w', ess) => Ok ((w ++ w')%list, es :: ess) end
      end
  end.

(* ---------- finder.find ---------- *)
Fixpoint dedup (seen : list path) (l : list path) : list path :=
  match l with
  | [] => []
  | p :: r => if mem_path p seen then dedup seen r else p :: dedup (p :: seen) r
  end.

Definition find_inc_spec (ls : list (line act cond)) (tag : nat) : option ispec :=
  match find (fun l => match snd l with KPlain (AInclude t _) => Nat.eqb t tag | _ => false end) ls with
  | Some (_, KPlain (AInclude _ s)) => Some s
  | _ => None
  end.
Definition render_event (fs : fsys) (e : event) : wrec :=
  WMissingInclude e (match fs_get fs (ev_file e) with
                     | Some ls => match find_inc_spec ls (ev_tag e) with Some s => inc_spelling s | None => "?" end
                     | None => "?"
                     end).

(* every configuration entry of every platform, each from a fresh Platform; gives the
   missing-include events in the order issued and the files visited in order *)
Fixpoint run_entries_M (fs : fsys) (fuel : nat) (es : list entry) : res (list event * list path) :=
  match es with
  | [] => Ok ([], [])
  | e :: r =>
      match run_tu_M fs fuel e with
      | Err x => Err x
      | Ok p => match run_entries_M fs fuel r with
                | Err x => Err x
                | Ok (evs, fl) => Ok ((rev (events p) ++ evs)%list, (rev (map fst (assoc p)) ++ fl)%list)
                end
      end
  end.

(* ParserState.trees: every file is parsed once, whatever the number of times it is reached:
   the code base and the entries' files first, then files as includes reach them *)
Definition parsed_files (codebase : list path) (es : list entry) (visited : list path) : list path :=
  dedup [] (codebase ++ map e_file es ++ visited)%list.

Definition parse_all (c : cfs) (files : list path) : list wrec :=
  flat_map (fun f => match cfs_get c f with Some cf => parse_warnings f cf | None => [] end) files.

Fixpoint first_build_error (c : cfs) (files : list path) : option string :=
  match files with
  | [] => None
  | f :: r =>
      match cfs_get c f with
      | Some cf => match build act cond (cf_lines cf) with Err x => Some x | Ok _ => first_build_error c r end
      | None => first_build_error c r
      end
  end.

(* the -include loop of finder.find, as far as its warning goes: each name is looked up from the
   directory of the unit's file among the unit's directories.  (The code asks the memoised
   Platform.find_include_file; on a fresh Platform whose directories do not change the answer is
   the un-memoised search - C04_memo_transparent.) *)
Definition forced_warnings (fs : fsys) (e : entry) : list wrec :=
  flat_map (fun n => match search fs (e_dirs e) (n, dirname (e_file e), false) with
                     | None => [WMissingForced (e_file e) n] | Some _ => [] end) (e_incs e).

Record run_out := { o_db : list wrec; o_parse : list wrec; o_inc : list wrec; o_forced : list wrec }.

Definition run_find_M (c : cfs) (fuel : nat) (codebase : list path) (pls : list (string * list dbentry)) : res run_out :=
  let fs := fs_of c in
  match load_dbs fs pls with
  | Err x => Err x
  | Ok (wdb, ess) =>
      let es := concat ess in
      (* the code base and the entries' files are parsed (their trees built) before anything is preprocessed *)
      match first_build_error c (codebase ++ map e_file es)%list with
      | Some x => Err x
      | None =>
          match run_entries_M fs fuel es with
          | Err x => Err x
          | Ok (evs, visited) =>
              Ok {| o_db := wdb; o_parse := parse_all c (parsed_files codebase es visited);
                    o_inc := map (render_event fs) evs; o_forced := flat_map (forced_warnings fs) es |}
          end
      end
  end.

End Tables.

(* ---------- WarningAggregator ---------- *)
Definition metaw := (bool * string * string * string)%type.   (* regex is '.', literal, message before/after the count *)
Definition mw_match (m : metaw) (msg : string) : bool :=
  let '(dot, lit, _, _) := m in if dot then has_dot msg else contains lit msg.
Definition mw_text (m : metaw) (n : nat) : string := let '(_, _, pre, post) := m in pre ++ dec n ++ post.

(* a log record: is its level WARNING, and its message *)
Definition lrec := (bool * string)%type.
(* WarningAggregator.filter: one counter per meta-warning *)
Definition agg_filter (ms : list metaw) (counts : list nat) (r : lrec) : list nat :=
  if fst r then map (fun mc => if mw_match (fst mc) (snd r) then S (snd mc) else snd mc) (combine ms counts)
  else counts.
Definition agg_run (ms : list metaw) (rs : list lrec) : list nat :=
  fold_left (agg_filter ms) rs (map (fun _ => 0) ms).

(* WarningAggregator.warn(log): each MetaWarning with a non-zero count logs its message at
   WARNING level - through the handler that carries the aggregator, so the message is itself
   inspected before the next MetaWarning is considered *)
Fixpoint agg_warn (ms : list metaw) (idx : list nat) (counts : list nat) : list string * list nat :=
  match idx with
  | [] => ([], counts)
  | i :: r =>
      match nth_error ms i, nth_error counts i with
      | Some m, Some (S k) =>
          let msg := mw_text m (S k) in
          let '(out, c') := agg_warn ms r (agg_filter ms counts (true, msg)) in (msg :: out, c')
      | _, _ => agg_warn ms r counts
      end
  end.

(* the closing lines of a run: the meta-warnings printed, and the counters afterwards *)
Definition closing (ms : list metaw) (rs : list lrec) : list string * list nat :=
  agg_warn ms (seq 0 (List.length ms)) (agg_run ms rs).

Definition all_records (o : run_out) : list wrec := (o_db o ++ o_parse o ++ o_inc o ++ o_forced o)%list.
Definition as_lrecs (ws : list wrec) : list lrec := map (fun w => (true, msg_of w)) ws.
