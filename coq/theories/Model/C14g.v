(* C14 - the model variant selected by the forms the source uses NOW at the
   order-sensitive sites (Gen/C14_sites.v, regenerated from /repo by
   tools/gen/c14_sites.py on every run).  Definitions only. *)
From Coq Require Import ZArith Bool List.
From CBI Require Import Lib.Data Gen.C14_sites Model.C14 Model.C14f.
Import ListNotations.

Definition summary_rows_src : setmap -> list (pset * Z) :=
  match site_summary_key with KeyLenNames => summary_rows | KeyLen => summary_rows_old end.

Definition distance_src : setmap -> name -> name -> fres :=
  match site_distance with DistIntOnce => distance_f | DistPerRow => distance_old_f end.

(* [order] is what list(set(...)) happens to yield *)
Definition divergence_src (sm : setmap) (order : list name) : fres :=
  divergence_with (distance_src sm) (if site_divergence_sorted then platforms_of sm else order).

Definition iter_codebase_src : list pfile -> list pfile :=
  if site_iter_sorted then iter_codebase else iter_codebase_old.

(* the remaining sites only need to be in their sorted / direct form *)
Definition other_sites_sorted : bool :=
  site_summary_names_sorted && site_clustering_sorted && site_duplicates_sorted &&
  site_tree_letters_sorted && site_tree_legend_sorted &&
  site_tree_iterates_codebase && site_export_iterates_codebase.
