(* C04 / C08 / C10 / C18 — multi-file model M: Platform (definitions, include paths,
   found_incl memo, _skip_includes), IncludeNode / PragmaNode / DefineNode /
   UndefNode.evaluate_for_platform, the -include loop of finder.find.
   Built on the generic tree/visitor model of Model/C01.v: an #include is a
   plain node whose action runs the included file's tree (fuel = include depth).
   Definitions only. *)
From Coq Require Import Bool Arith ZArith String List.
From CBI Require Import Lib.Res Model.C01.
Import ListNotations.
Local Open Scope string_scope.
Local Open Scope list_scope.

Definition path := list string.               (* absolute, normalised: list of components *)
Definition path_eqb (a b : path) : bool := if list_eq_dec string_dec a b then true else false.
Definition dirname (p : path) : path := removelast p.

Inductive mval := VE | VI (z : Z) | VP (angle : bool) (name : path).
Definition mval_eqb (a b : mval) : bool :=
  match a, b with
  | VE, VE => true
  | VI x, VI y => Z.eqb x y
  | VP a1 n1, VP a2 n2 => Bool.eqb a1 a2 && path_eqb n1 n2
  | _, _ => false
  end.

Inductive ispec := IQuote (name : path) | IAngle (name : path) | IMacro (m : string).
Inductive act :=
| ACode | AOther
| ADefine (m : string) (v : mval) | AUndef (m : string)
| AInclude (tag : nat) (s : ispec)             (* tag: the directive's line, reported in warnings *)
| AOnce.
Inductive cond :=
| CDefd (m : string) | CNDefd (m : string) | CVal (m : string)
| CEq (m : string) (k : Z) | CGt (m : string) (k : Z) | CConst (k : Z) | CBad.

(* "file:line: user/system include 'name' not found" *)
Record event := { ev_file : path; ev_tag : nat; ev_name : path; ev_angle : bool }.

Definition mkey := (path * path * bool)%type.  (* spelling, directory of the includer, angle form *)
Definition mkey_eqb (a b : mkey) : bool :=
  let '(n1, t1, a1) := a in let '(n2, t2, a2) := b in
  path_eqb n1 n2 && path_eqb t1 t2 && Bool.eqb a1 a2.

Record plat := {
  assoc : list (path * nat);                   (* (file, node) pairs recorded, newest first *)
  defs : list (string * mval);                 (* Platform._definitions *)
  memo : list (mkey * option path);            (* Platform.found_incl *)
  once : list path;                            (* Platform._skip_includes *)
  events : list event;                         (* warnings issued, newest first *)
  dirs : list path                             (* Platform._include_paths, in configured order *)
}.

Definition set_assoc x p := {| assoc := x; defs := defs p; memo := memo p; once := once p; events := events p; dirs := dirs p |}.
Definition set_defs x p := {| assoc := assoc p; defs := x; memo := memo p; once := once p; events := events p; dirs := dirs p |}.
Definition set_memo x p := {| assoc := assoc p; defs := defs p; memo := x; once := once p; events := events p; dirs := dirs p |}.
Definition set_once x p := {| assoc := assoc p; defs := defs p; memo := memo p; once := x; events := events p; dirs := dirs p |}.
Definition set_events x p := {| assoc := assoc p; defs := defs p; memo := memo p; once := once p; events := x; dirs := dirs p |}.

Fixpoint lookup {V} (m : string) (e : list (string * V)) : option V :=
  match e with [] => None | (k, v) :: e' => if String.eqb k m then Some v else lookup m e' end.
Fixpoint remove {V} (m : string) (e : list (string * V)) : list (string * V) :=
  match e with [] => [] | (k, v) :: e' => if String.eqb k m then remove m e' else (k, v) :: remove m e' end.
Fixpoint lookup_memo (k : mkey) (m : list (mkey * option path)) : option (option path) :=
  match m with [] => None | (k', r) :: m' => if mkey_eqb k k' then Some r else lookup_memo k m' end.
Definition mem_path (p : path) (l : list path) : bool := existsb (path_eqb p) l.

(* the files that exist, with their logical lines (node id, kind) *)
Definition fsys := list (path * list (line act cond)).
Fixpoint fs_get (fs : fsys) (p : path) : option (list (line act cond)) :=
  match fs with [] => None | (q, ls) :: r => if path_eqb p q then Some ls else fs_get r p end.
Definition isfile (fs : fsys) (p : path) : bool := match fs_get fs p with Some _ => true | None => false end.

(* ---------- Platform.find_include_file ---------- *)
(* the un-memoised search: the includer's directory first (quote form only), then
   the configured directories in order; first existing file wins *)
(* os.path.abspath(os.path.join(dir, name)) on component lists: "." and "" are dropped,
   ".." cancels the component before it (lexically; a leading ".." stays) *)
Fixpoint norm_aux (acc : list string) (p : path) : path :=
  match p with
  | [] => rev acc
  | c :: r =>
      if String.eqb c "." || String.eqb c "" then norm_aux acc r
      else if String.eqb c ".." then
        match acc with
        | x :: acc' => if String.eqb x ".." then norm_aux (c :: acc) r else norm_aux acc' r
        | [] => norm_aux [c] r
        end
      else norm_aux (c :: acc) r
  end.
Definition norm (p : path) : path := norm_aux [] p.

Definition candidates (ds : list path) (k : mkey) : list path :=
  let '(name, this, angle) := k in
  map (fun d => norm (d ++ name)) ((if angle then [] else [this]) ++ ds).
Definition search (fs : fsys) (ds : list path) (k : mkey) : option path :=
  find (isfile fs) (candidates ds k).

Definition find_include (fs : fsys) (k : mkey) (p : plat) : plat * option path :=
  match lookup_memo k (memo p) with
  | Some r => (p, r)
  | None => let r := search fs (dirs p) k in (set_memo ((k, r) :: memo p) p, r)
  end.

(* ---------- evaluation of conditions and plain nodes ---------- *)
Definition ident_val (m : string) (e : list (string * mval)) : res Z :=
  match lookup m e with
  | None => Ok 0%Z
  | Some (VI z) => Ok z
  | Some _ => Err "ParseError: macro does not expand to an integer expression"
  end.
Definition ev (c : cond) (p : plat) : res bool :=
  let e := defs p in
  match c with
  | CDefd m => Ok (match lookup m e with Some _ => true | None => false end)
  | CNDefd m => Ok (match lookup m e with Some _ => false | None => true end)
  | CVal m => rmap (fun z => negb (Z.eqb z 0)) (ident_val m e)
  | CEq m k => rmap (fun z => Z.eqb z k) (ident_val m e)
  | CGt m k => rmap (fun z => Z.ltb k z) (ident_val m e)
  | CConst k => Ok (negb (Z.eqb k 0))
  | CBad => Err "ParseError: malformed expression"
  end.

Definition mark_in (cur : path) (id : nat) (p : plat) : plat := set_assoc ((cur, id) :: assoc p) p.

Definition include_target (s : ispec) (p : plat) : res (bool * path) :=
  match s with
  | IQuote n => Ok (false, n)
  | IAngle n => Ok (true, n)
  | IMacro m => match lookup m (defs p) with
                | Some (VP a n) => Ok (a, n)
                | _ => Err "ParseError: computed include does not expand to a path"
                end
  end.

Definition out_of_fuel : string := "OutOfFuel: include depth".

Section WithFS.
Variable fs : fsys.

(* evaluate_for_platform of a plain node of file [cur]; fuel bounds the include depth *)
Fixpoint exec_M (fuel : nat) (cur : path) (a : act) (p : plat) {struct fuel} : res plat :=
  match a with
  | ACode | AOther => Ok p
  | ADefine m v => Ok (match lookup m (defs p) with Some _ => p | None => set_defs ((m, v) :: defs p) p end)
  | AUndef m => Ok (set_defs (remove m (defs p)) p)
  | AOnce => Ok (if mem_path cur (once p) then p else set_once (once p ++ [cur]) p)
  | AInclude tag s =>
      match include_target s p with
      | Err e => Err e
      | Ok (angle, name) =>
          let '(p1, r) := find_include fs (name, dirname cur, angle) p in
          match r with
          | None => Ok (set_events ({| ev_file := cur; ev_tag := tag; ev_name := name; ev_angle := angle |} :: events p1) p1)
          | Some f =>
              if mem_path f (once p1) then Ok p1
              else match fuel with
                   | 0 => Err out_of_fuel
                   | S fuel' =>
                       match fs_get fs f with
                       | None => Err "internal: resolved file does not exist"
                       | Some ls => run_M plat act cond (mark_in f) (exec_M fuel' f) ev ls p1
                       end
                   end
          end
      end
  end.

Definition run_file_M (fuel : nat) (f : path) (p : plat) : res plat :=
  match fs_get fs f with
  | None => Err "FileNotFoundError"
  | Some ls => run_M plat act cond (mark_in f) (exec_M fuel f) ev ls p
  end.

(* one compilation-database entry = one translation unit, from a FRESH platform *)
Record entry := { e_file : path; e_dirs : list path; e_defs : list (string * mval); e_incs : list path }.

Definition fresh (e : entry) : plat :=
  {| assoc := []; defs := fold_left (fun d kv => match lookup (fst kv) d with Some _ => d | None => kv :: d end) (e_defs e) [];
     memo := []; once := []; events := []; dirs := e_dirs e |}.

(* the -include loop: resolved like a quote include from the directory of the file; a
   forced include that is not found is ignored *)
Fixpoint forced_M (fuel : nat) (this : path) (incs : list path) (p : plat) : res plat :=
  match incs with
  | [] => Ok p
  | n :: r =>
      let '(p1, res) := find_include fs (n, this, false) p in
      match res with
      | None => forced_M fuel this r p1
      | Some f =>
          if mem_path f (once p1) then forced_M fuel this r p1            (* process_include *)
          else match run_file_M fuel f p1 with Ok p2 => forced_M fuel this r p2 | Err e => Err e end
      end
  end.

Definition run_tu_M (fuel : nat) (e : entry) : res plat :=
  match forced_M fuel (dirname (e_file e)) (e_incs e) (fresh e) with
  | Ok p => run_file_M fuel (e_file e) p
  | Err x => Err x
  end.

End WithFS.
