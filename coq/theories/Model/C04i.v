(* C04 — codec for the correspondence driver. *)
From Coq Require Import Bool Arith ZArith String List.
From CBI Require Import Lib.Res Lib.Data Model.C01 Spec.C01 Model.C04 Spec.C04 Model.C04d.
Import ListNotations.
Local Open Scope string_scope.

Definition dec_path (d : data) : option path := as_list_of as_str d.
Definition dec_mval (d : data) : option mval :=
  match d with
  | DInt z => Some (VI z)
  | DStr "E" => Some VE
  | DList [DStr "P"; a; n] => match as_bool a, dec_path n with Some a, Some n => Some (VP a n) | _, _ => None end
  | _ => None
  end.
Definition dec_cond (d : data) : option cond :=
  match d with
  | DList [DStr "Defd"; DStr m] => Some (CDefd m)
  | DList [DStr "NDefd"; DStr m] => Some (CNDefd m)
  | DList [DStr "Val"; DStr m] => Some (CVal m)
  | DList [DStr "Eq"; DStr m; DInt k] => Some (CEq m k)
  | DList [DStr "Gt"; DStr m; DInt k] => Some (CGt m k)
  | DList [DStr "Const"; DInt k] => Some (CConst k)
  | DList [DStr "Bad"] => Some CBad
  | _ => None
  end.
Definition dec_ispec (d : data) : option ispec :=
  match d with
  | DList [DStr "Q"; n] => option_map IQuote (dec_path n)
  | DList [DStr "A"; n] => option_map IAngle (dec_path n)
  | DList [DStr "M"; DStr m] => Some (IMacro m)
  | _ => None
  end.
(* the include tag is the node's position, filled in by [number] *)
Definition dec_kind (d : data) : option (nat -> kind act cond) :=
  match d with
  | DList [DStr "Code"] => Some (fun _ => KPlain ACode)
  | DList [DStr "Other"] => Some (fun _ => KPlain AOther)
  | DList [DStr "Def"; DStr m; v] => option_map (fun v _ => KPlain (ADefine m v)) (dec_mval v)
  | DList [DStr "Undef"; DStr m] => Some (fun _ => KPlain (AUndef m))
  | DList [DStr "Inc"; s] => option_map (fun s i => KPlain (AInclude i s)) (dec_ispec s)
  | DList [DStr "Once"] => Some (fun _ => KPlain AOnce)
  | DList [DStr "If"; c] => option_map (fun c _ => KIf c) (dec_cond c)
  | DList [DStr "Elif"; c] => option_map (fun c _ => KElif c) (dec_cond c)
  | DList [DStr "Else"] => Some (fun _ => KElse)
  | DList [DStr "Endif"] => Some (fun _ => KEndif)
  | _ => None
  end.
Fixpoint number (n : nat) (l : list (nat -> kind act cond)) : list (line act cond) :=
  match l with [] => [] | f :: r => (n, f n) :: number (S n) r end.
Definition dec_file (d : data) : option (path * list (line act cond)) :=
  match d with
  | DList [p; ls] => match dec_path p, as_list_of dec_kind ls with
                     | Some p, Some ks => Some (p, number 0 ks) | _, _ => None end
  | _ => None
  end.
(* (file dirs defs incs): the directories are the configured list itself;
   (file dirs defs incs kinds): dirs are the -I / -isystem values in command-line order and
   kinds says which is which (1 = -isystem): M and S then get the list that parse_args /
   a compiler builds from them *)
Definition dec_entry2 (d : data) : option (entry * entry) :=
  match d with
  | DList [f; ds; defs; incs] =>
      match dec_path f, as_list_of dec_path ds, as_list_of (as_pair as_str dec_mval) defs, as_list_of dec_path incs with
      | Some f, Some ds, Some defs, Some incs =>
          let e := {| e_file := f; e_dirs := ds; e_defs := defs; e_incs := incs |} in Some (e, e)
      | _, _, _, _ => None
      end
  | DList [f; ds; defs; incs; ks] =>
      match dec_path f, as_list_of dec_path ds, as_list_of (as_pair as_str dec_mval) defs, as_list_of dec_path incs,
            as_list_of as_bool ks with
      | Some f, Some ds, Some defs, Some incs, Some ks =>
          if Nat.eqb (List.length ks) (List.length ds) then
            let fl := combine ks ds in
            Some ({| e_file := f; e_dirs := configured_M fl; e_defs := defs; e_incs := incs |},
                  {| e_file := f; e_dirs := configured_S fl; e_defs := defs; e_incs := incs |})
          else None
      | _, _, _, _, _ => None
      end
  | _ => None
  end.

(* the plain four-field form (used by the C08/C10/C13/C18 codecs) *)
Definition dec_entry (d : data) : option entry := option_map fst (dec_entry2 d).

Definition enc_path (p : path) : data := of_list DStr p.
Definition enc_mval (v : mval) : data :=
  match v with VE => DStr "E" | VI z => DInt z | VP a n => DList [DStr "P"; of_bool a; enc_path n] end.
Definition enc_plat (r : res plat) : data :=
  match r with
  | Ok p => DList [DStr "Ok";
                   of_list (fun fi => DList [enc_path (fst fi); of_nat (snd fi)]) (rev (assoc p));
                   of_list (fun e => DList [enc_path (ev_file e); of_nat (ev_tag e); enc_path (ev_name e); of_bool (ev_angle e)]) (rev (events p));
                   of_list (fun kv => DList [DStr (fst kv); enc_mval (snd kv)]) (defs p)]
  | Err e => DList [DStr "Err"; DStr e]
  end.

Definition include_depth : nat := 40.

(* case: (files entry) ; answer: (M S) *)
Definition run_C04 (d : data) : data :=
  match d with
  | DList [files; e] =>
      match as_list_of dec_file files, dec_entry2 e with
      | Some fs, Some (eM, eS) => DList [enc_plat (run_tu_M fs include_depth eM); enc_plat (run_tu_S fs include_depth eS)]
      | _, _ => bad_case
      end
  | _ => bad_case
  end.
