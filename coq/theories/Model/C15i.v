(* C15 — instance of the abstract world of Model/C15.v with the link tree of
   Model/C15fs.v, and the codec for the correspondence driver. *)
From Coq Require Import Bool Arith ZArith String List.
From CBI Require Import Lib.Res Lib.Data Model.C01 Spec.C01 Model.C04 Spec.C04 Model.C04i Model.C15fs Model.C15 Spec.C15.
Import ListNotations.
Local Open Scope string_scope.
Local Open Scope list_scope.

Definition link_fuel : nat := 40.

(* the content table: key of a File node -> logical lines, physical lines per node *)
Definition ctable := list (string * (lines * list nat)).
Fixpoint clookup (k : string) (t : ctable) : option (lines * list nat) :=
  match t with [] => None | (k', v) :: r => if String.eqb k k' then Some v else clookup k r end.

Section Inst.
Variable root : fnode.
Variable tab : ctable.

Definition rp_i : path -> path := rp root link_fuel.
Definition entry_at (q : path) : option (lines * list nat) :=
  match node_at root q with Some (File k) => clookup k tab | _ => None end.
Definition getf_i (q : path) : option lines := option_map fst (entry_at q).
Definition shape_i (q : path) : list (nat * nat) :=
  match entry_at q with Some (_, ws) => combine (seq 0 (List.length ws)) ws | None => [] end.
End Inst.

(* ---------- codec ---------- *)
Fixpoint dec_tree (d : data) : option fnode :=
  match d with
  | DList [DStr "F"; DStr k] => Some (File k)
  | DList [DStr "L"; ab; t] => match as_bool ab, dec_path t with Some b, Some t => Some (Link b t) | _, _ => None end
  | DList [DStr "D"; DList kids] =>
      option_map Dir
        ((fix dk (l : list data) : option (list (string * fnode)) :=
            match l with
            | [] => Some []
            | DList [DStr n; t] :: r =>
                match dec_tree t, dk r with Some k, Some rr => Some ((n, k) :: rr) | _, _ => None end
            | _ => None
            end) kids)
  | _ => None
  end.

Definition dec_lines (d : data) : option lines := option_map (number 0) (as_list_of dec_kind d).
Definition dec_afile (d : data) : option (string * (lines * list nat)) :=
  match d with
  | DList [DStr k; ls; ws] =>
      match dec_lines ls, as_list_of as_nat ws with Some ls, Some ws => Some (k, (ls, ws)) | _, _ => None end
  | _ => None
  end.
Definition dec_cfile (d : data) : option (path * (lines * list nat)) :=
  match d with
  | DList [p; ls; ws] =>
      match dec_path p, dec_lines ls, as_list_of as_nat ws with
      | Some p, Some ls, Some ws => Some (p, (ls, ws)) | _, _, _ => None end
  | _ => None
  end.
Definition dec_pentry (d : data) : option (nat * entry) := as_pair as_nat dec_entry d.

Definition enc_mark (m : mark) : data := let '(pl, f, id) := m in DList [of_nat pl; enc_path f; of_nat id].
Definition enc_setmap (m : list (pset * nat)) : data :=
  of_list (fun kv => DList [of_list of_nat (fst kv); of_nat (snd kv)]) m.

Definition cshape (cf : list (path * (lines * list nat))) (q : path) : list (nat * nat) :=
  match find (fun x => path_eqb q (fst x)) cf with
  | Some (_, (_, ws)) => combine (seq 0 (List.length ws)) ws
  | None => []
  end.

Definition run_M15 (root : fnode) (tab : ctable) (is_src : string -> bool) (roots : list path)
           (nplat : nat) (cfg : list (nat * entry)) : data :=
  let rpx := rp_i root in
  let dirs := map rpx roots in                                  (* CodeBase.__init__: Path(d).resolve() *)
  match find_A rpx (getf_i root tab) include_depth (iter root is_src link_fuel dirs) cfg with
  | Err e => DList [DStr "Err"; DStr e]
  | Ok ms =>
      let it := iter root is_src link_fuel dirs in
      let cn := counted root is_src link_fuel dirs in
      DList [DStr "Ok"; of_list enc_mark ms;
             enc_setmap (setmap rpx (shape_i root tab) nplat ms cn);
             of_list (fun p => DList [enc_path p; of_bool (is_link_at root p); enc_path (rpx p)]) it;
             of_list enc_path cn]
  end.

Definition run_S15 (cf : list (path * (lines * list nat))) (is_src : string -> bool) (croots : list path)
           (nplat : nat) (cfg : list (nat * entry)) : data :=
  let cfs : fsys := map (fun x => (fst x, fst (snd x))) cf in
  match analyse_S cfs include_depth cfg with
  | Err e => DList [DStr "Err"; DStr e]
  | Ok ms =>
      DList [DStr "Ok"; of_list enc_mark ms;
             enc_setmap (setmap_S cfs is_src croots (cshape cf) nplat ms);
             of_list enc_path (members_S cfs is_src croots)]
  end.

(* case: (tree afiles cfiles roots croots srcnames nplat entries centries) ; answer: (M S) *)
Definition run_C15 (d : data) : data :=
  match d with
  | DList [t; af; cf; roots; croots; srcs; np; es; ces] =>
      match dec_tree t, as_list_of dec_afile af, as_list_of dec_cfile cf, as_list_of dec_path roots,
            as_list_of dec_path croots, as_list_of as_str srcs, as_nat np,
            as_list_of dec_pentry es, as_list_of dec_pentry ces with
      | Some t, Some af, Some cf, Some roots, Some croots, Some srcs, Some np, Some es, Some ces =>
          let is_src := fun n => existsb (String.eqb n) srcs in
          DList [run_M15 t af is_src roots np es; run_S15 cf is_src croots np ces]
      | _, _, _, _, _, _, _, _, _ => bad_case
      end
  | _ => bad_case
  end.
