(* C01 — concrete instance of the generic model used by the correspondence:
   platform state = (visited node ids, macro environment), object-like macros
   with integer or empty values, a small condition language.
   exec_M is what codebasin does (Platform.define: only if absent);
   exec_S is ISO C as gcc applies it (a differing redefinition is diagnosed,
   i.e. the program is outside the property's quantifier -> Err). *)
From Coq Require Import List Bool Arith ZArith String.
From CBI Require Import Lib.Res Lib.Data Model.C01 Spec.C01.
Import ListNotations.
Local Open Scope string_scope.

(* VRef m: the replacement list is the single identifier m (#define A B) *)
Inductive mval := VEmpty | VInt (z : Z) | VRef (m : string).
Definition mval_eqb (a b : mval) : bool :=
  match a, b with
  | VEmpty, VEmpty => true | VInt x, VInt y => Z.eqb x y | VRef x, VRef y => String.eqb x y
  | _, _ => false
  end.

Definition env := list (string * mval).
Fixpoint lookup (m : string) (e : env) : option mval :=
  match e with [] => None | (k, v) :: e' => if String.eqb k m then Some v else lookup m e' end.
Fixpoint remove (m : string) (e : env) : env :=
  match e with [] => [] | (k, v) :: e' => if String.eqb k m then remove m e' else (k, v) :: remove m e' end.

Record pstate := { marks : list nat; menv : env }.

Inductive act := ACode | ADefine (m : string) (v : mval) | AUndef (m : string) | AOther.
Inductive cond :=
| CDefd (m : string) | CNDefd (m : string) | CVal (m : string)
| CEq (m : string) (k : Z) | CGt (m : string) (k : Z) | CConst (k : Z)
| CBad.   (* an expression that does not parse: evaluating it raises ParseError *)

Definition mark (id : nat) (p : pstate) : pstate := {| marks := id :: marks p; menv := menv p |}.

Definition exec_M (a : act) (p : pstate) : res pstate :=
  match a with
  | ACode | AOther => Ok p
  | ADefine m v =>
      Ok (match lookup m (menv p) with
          | Some _ => p
          | None => {| marks := marks p; menv := (m, v) :: menv p |}
          end)
  | AUndef m => Ok {| marks := marks p; menv := remove m (menv p) |}
  end.

Definition exec_S (a : act) (p : pstate) : res pstate :=
  match a with
  | ACode | AOther => Ok p
  | ADefine m v =>
      match lookup m (menv p) with
      | Some v' => if mval_eqb v v' then Ok p else Err "diagnostic: macro redefined"
      | None => Ok {| marks := marks p; menv := (m, v) :: menv p |}
      end
  | AUndef m => Ok {| marks := marks p; menv := remove m (menv p) |}
  end.

(* value of an identifier in #if: undefined -> 0, empty -> no expression (diagnosed); a macro
   whose replacement is another identifier is expanded in the CURRENT table (rescanning); a name
   that is already being expanded is not expanded again and, like every identifier that
   survives expansion, counts as 0 *)
Fixpoint ident_val_f (fuel : nat) (seen : list string) (m : string) (e : env) : res Z :=
  match lookup m e with
  | None => Ok 0%Z
  | Some (VInt z) => Ok z
  | Some VEmpty => Err "ParseError: empty expansion in expression"
  | Some (VRef m') =>
      if existsb (String.eqb m') (m :: seen) then Ok 0%Z
      else match fuel with
           | 0 => Err "OutOfFuel: alias chain"
           | S f => ident_val_f f (m :: seen) m' e
           end
  end.
Definition ident_val (m : string) (e : env) : res Z := ident_val_f (S (List.length e)) [] m e.

Definition ev (c : cond) (p : pstate) : res bool :=
  let e := menv p in
  match c with
  | CDefd m => Ok (match lookup m e with Some _ => true | None => false end)
  | CNDefd m => Ok (match lookup m e with Some _ => false | None => true end)
  | CVal m => rmap (fun z => negb (Z.eqb z 0)) (ident_val m e)
  | CEq m k => rmap (fun z => Z.eqb z k) (ident_val m e)
  | CGt m k => rmap (fun z => Z.ltb k z) (ident_val m e)
  | CConst k => Ok (negb (Z.eqb k 0))
  | CBad => Err "ParseError: malformed expression"
  end.

Definition run_Mi := run_M pstate act cond mark exec_M ev.
Definition run_Si := run_S pstate act cond mark exec_S ev.

(* ---------- codec ---------- *)
Definition dec_mval (d : data) : option mval :=
  match d with
  | DInt z => Some (VInt z) | DStr "E" => Some VEmpty | DList [DStr "R"; DStr m] => Some (VRef m)
  | _ => None
  end.
Definition dec_cond (d : data) : option cond :=
  match d with
  | DList [DStr "Defd"; DStr m] => Some (CDefd m)
  | DList [DStr "NDefd"; DStr m] => Some (CNDefd m)
  | DList [DStr "Val"; DStr m] => Some (CVal m)
  | DList [DStr "Eq"; DStr m; DInt k] => Some (CEq m k)
  | DList [DStr "Gt"; DStr m; DInt k] => Some (CGt m k)
  | DList [DStr "Const"; DInt k] => Some (CConst k)
  | DList [DStr "Bad"] => Some CBad
  | _ => None
  end.
Definition dec_kind (d : data) : option (kind act cond) :=
  match d with
  | DList [DStr "Code"] => Some (KPlain ACode)
  | DList [DStr "Other"] => Some (KPlain AOther)
  | DList [DStr "Def"; DStr m; v] => option_map (fun v => KPlain (ADefine m v)) (dec_mval v)
  | DList [DStr "Undef"; DStr m] => Some (KPlain (AUndef m))
  | DList [DStr "If"; c] => option_map KIf (dec_cond c)
  | DList [DStr "Elif"; c] => option_map KElif (dec_cond c)
  | DList [DStr "Else"] => Some KElse
  | DList [DStr "Endif"] => Some KEndif
  | _ => None
  end.
Fixpoint number {A} (n : nat) (l : list A) : list (nat * A) :=
  match l with [] => [] | x :: r => (n, x) :: number (S n) r end.
Definition dec_env (d : data) : option env :=
  as_list_of (as_pair as_str dec_mval) d.

Definition enc_mval (v : mval) : data :=
  match v with VEmpty => DStr "E" | VInt z => DInt z | VRef m => DList [DStr "R"; DStr m] end.
Definition enc_out (r : res pstate) : data :=
  match r with
  | Ok p => DList [DStr "Ok"; of_list of_nat (rev (marks p));
                   of_list (fun kv => DList [DStr (fst kv); enc_mval (snd kv)]) (menv p)]
  | Err e => DList [DStr "Err"; DStr e]
  end.

(* case: (lines env) ; answer: (M S)
   case: (lines env (env2 ...)) - further commands compiling the same file, each from a fresh
   state ; answer: (M S ((M2 S2) ...)).  The harness forms the union of the marks: a platform
   uses a line iff one of its commands does (the composition law itself is C08's subject). *)
Definition run_one (prog : list (nat * kind act cond)) (e0 : env) : data :=
  let p0 := {| marks := []; menv := e0 |} in
  DList [enc_out (run_Mi prog p0); enc_out (run_Si prog p0)].
Definition run_C01 (d : data) : data :=
  match d with
  | DList [ls; e] =>
      match as_list_of dec_kind ls, dec_env e with
      | Some ks, Some e0 => run_one (number 0 ks) e0
      | _, _ => bad_case
      end
  | DList [ls; e; DList more] =>
      match as_list_of dec_kind ls, dec_env e, as_list_of dec_env (DList more) with
      | Some ks, Some e0, Some es =>
          match run_one (number 0 ks) e0 with
          | DList [m; s0] => DList [m; s0; DList (map (run_one (number 0 ks)) es)]
          | x => x
          end
      | _, _, _ => bad_case
      end
  | _ => bad_case
  end.
