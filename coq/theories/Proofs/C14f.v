(* C14 - closed witnesses about the binary64 model (Model/C14f.v). *)
From Coq Require Import ZArith String Bool List Permutation SpecFloat.
From CBI Require Import Lib.Data Model.C14 Model.C14f.
Import ListNotations.
Local Open Scope string_scope.
Local Open Scope Z_scope.

Definition nm (s : string) : name := name_of_string s.

(* T = 24, terms 2, 3, 4: the two insertion orders of the same table *)
Definition wit_rows1 : setmap :=
  [([nm "A"; nm "C"], 2); ([nm "B"; nm "C"], 3); ([nm "A"], 4); ([nm "A"; nm "B"; nm "C"], 15)].
Definition wit_rows2 : setmap :=
  [([nm "A"], 4); ([nm "B"; nm "C"], 3); ([nm "A"; nm "C"], 2); ([nm "A"; nm "B"; nm "C"], 15)].

Lemma wit_perm : Permutation wit_rows1 wit_rows2.
Proof.
  unfold wit_rows1, wit_rows2.
  eapply perm_trans; [apply perm_swap|].
  eapply perm_trans; [apply perm_skip; apply perm_swap|].
  apply perm_swap.
Qed.

Lemma distance_old_order_dependent :
  distance_old_f wit_rows1 (nm "A") (nm "B") = FVal (S754_finite false 6755399441055744 (-54)) /\
  distance_old_f wit_rows2 (nm "A") (nm "B") = FVal (S754_finite false 6755399441055743 (-54)) /\
  fmt2 (S754_finite false 6755399441055744 (-54)) = D2 38 /\
  fmt2 (S754_finite false 6755399441055743 (-54)) = D2 37.
Proof. repeat split; vm_compute; reflexivity. Qed.

(* ------------------------------------------------------------------ *)
(* the repaired binary64 metrics are functions of the table             *)
(* ------------------------------------------------------------------ *)
From CBI Require Import Proofs.C14.

Lemma distance_f_perm sm sm' p q : Permutation sm sm' -> distance_f sm p q = distance_f sm' p q.
Proof. intros P. unfold distance_f. now rewrite (dist_parts_perm _ _ p q P). Qed.

Lemma divergence_with_ext d d' ps : (forall p q, d p q = d' p q) -> divergence_with d ps = divergence_with d' ps.
Proof.
  intros E. unfold divergence_with.
  assert (H : forall l acc,
    fold_left (fun acc pq => match acc, d (fst pq) (snd pq) with FVal a, FVal x => FVal (fadd a x) | _, _ => FZeroDiv end) l acc =
    fold_left (fun acc pq => match acc, d' (fst pq) (snd pq) with FVal a, FVal x => FVal (fadd a x) | _, _ => FZeroDiv end) l acc).
  { induction l as [|pq l IH]; intros acc; cbn; auto. now rewrite E, IH. }
  now rewrite H.
Qed.

Lemma divergence_f_perm sm sm' : Permutation sm sm' -> divergence_f sm = divergence_f sm'.
Proof.
  intros P. unfold divergence_f. rewrite (platforms_perm _ _ P).
  apply divergence_with_ext. intros; now apply distance_f_perm.
Qed.

Lemma coverage_f_perm sm sm' ps : Permutation sm sm' -> coverage_f sm ps = coverage_f sm' ps.
Proof. intros P. unfold coverage_f. now rewrite (cov_parts_perm _ _ ps P). Qed.

Lemma average_coverage_f_perm sm sm' order : Permutation sm sm' -> average_coverage_f sm order = average_coverage_f sm' order.
Proof.
  intros P. unfold average_coverage_f. destruct order; auto.
  f_equal. f_equal. apply map_ext. intros p. now apply coverage_f_perm.
Qed.

Lemma float_report_perm sm sm' : Permutation sm sm' -> NoDup (map fst sm) -> float_report sm = float_report sm'.
Proof.
  intros P N. unfold float_report.
  rewrite (summary_rows_perm _ _ P N), (total_perm _ _ P), (platforms_perm _ _ P), (divergence_f_perm _ _ P).
  rewrite !(coverage_f_perm _ _ _ P), !(average_coverage_f_perm _ _ _ P).
  f_equal. f_equal. f_equal. unfold of_list. f_equal.
  apply map_ext. intros p. f_equal. apply map_ext. intros q. now rewrite (distance_f_perm _ _ p q P).
Qed.

Lemma tree_meta_perm ps sm sm' : Permutation sm sm' -> tree_meta ps sm = tree_meta ps sm'.
Proof.
  intros P. unfold tree_meta.
  now rewrite (platforms_perm _ _ P), (total_perm _ _ P), (coverage_f_perm _ _ _ P), (average_coverage_f_perm _ _ _ P).
Qed.

Lemma tree_rows_perm events events' files files' :
  Permutation events events' -> Permutation files files' -> NoDup (map pf_path files) ->
  tree_rows events files = tree_rows events' files'.
Proof.
  intros Pe Pf N. unfold tree_rows. rewrite (iter_codebase_perm _ _ Pf N).
  assert (H : map (fun f => (pf_path f, (is_link f, sm_build (file_contribs events f)))) (iter_codebase files') =
              map (fun f => (pf_path f, (is_link f, sm_build (file_contribs events' f)))) (iter_codebase files')).
  { apply map_ext. intros f. f_equal. f_equal. f_equal. apply file_contribs_ext. intros; now apply assoc_of_perm. }
  now rewrite H.
Qed.

(* everything the three tools print, for any enumeration order of the files and
   any order of the associate() calls of the analysis and of the coverage run *)
Lemma p_answer_f_perm files files' events events' cev cev' :
  Permutation files files' -> NoDup (map pf_path files) ->
  Permutation events events' -> Permutation cev cev' ->
  p_answer_f files events cev = p_answer_f files' events' cev'.
Proof.
  intros Pf N Pe Pc. unfold p_answer_f.
  rewrite (coverage_export_perm _ _ _ _ Pc Pf N), (tree_rows_perm _ _ _ _ Pe Pf N).
  assert (Psm : Permutation (get_setmap events (iter_codebase files)) (get_setmap events' (iter_codebase files'))).
  { apply get_setmap_perm; auto. rewrite (iter_codebase_perm _ _ Pf N). apply Permutation_refl. }
  rewrite (table_report_perm _ _ Psm (sm_build_nodup _)), (float_report_perm _ _ Psm (sm_build_nodup _)).
  reflexivity.
Qed.

(* finder.find + get_setmap observed directly: the dict INCLUDING its insertion
   order, and the platform set of every node of every member *)
Lemma get_setmap_sorted_eq events events' files files' :
  Permutation events events' -> Permutation files files' -> NoDup (map pf_path files) ->
  get_setmap events (iter_codebase files) = get_setmap events' (iter_codebase files').
Proof.
  intros Pe Pf N. rewrite (iter_codebase_perm _ _ Pf N). unfold get_setmap. f_equal.
  apply flat_map_ext'. intros f. apply file_contribs_ext. intros; now apply assoc_of_perm.
Qed.

Lemma f_answer_perm files files' events events' :
  Permutation files files' -> NoDup (map pf_path files) -> Permutation events events' ->
  f_answer files events = f_answer files' events'.
Proof.
  intros Pf N Pe. unfold f_answer.
  rewrite (get_setmap_sorted_eq _ _ _ _ Pe Pf N), (iter_codebase_perm _ _ Pf N).
  f_equal. f_equal. f_equal. unfold of_list. f_equal. apply map_ext. intros f. f_equal. f_equal. f_equal. f_equal.
  apply map_ext. intros iv. now rewrite (assoc_of_perm _ _ (pf_real f) (fst iv) Pe).
Qed.

(* the table form: contributions in any order *)
Lemma t_answer_perm rows rows' : Permutation rows rows' -> t_answer rows = t_answer rows'.
Proof.
  intros P. unfold t_answer.
  pose proof (sm_build_perm _ _ P) as Psm.
  now rewrite (table_report_perm _ _ Psm (sm_build_nodup _)), (float_report_perm _ _ Psm (sm_build_nodup _)).
Qed.

(* the binary64 model agrees with the kernel's hardware floats on the witness:
   the same two values come out of PrimFloat division and addition *)
From Coq Require PrimFloat Uint63 FloatOps.
Definition pz (z : Z) : PrimFloat.float := PrimFloat.of_uint63 (Uint63.of_Z z).
Lemma witness_on_hardware_floats :
  FloatOps.Prim2SF (PrimFloat.add (PrimFloat.add (PrimFloat.div (pz 2) (pz 24)) (PrimFloat.div (pz 3) (pz 24))) (PrimFloat.div (pz 4) (pz 24)))
    = fadd (fadd (fdiv (fz 2) (fz 24)) (fdiv (fz 3) (fz 24))) (fdiv (fz 4) (fz 24)) /\
  FloatOps.Prim2SF (PrimFloat.add (PrimFloat.add (PrimFloat.div (pz 4) (pz 24)) (PrimFloat.div (pz 3) (pz 24))) (PrimFloat.div (pz 2) (pz 24)))
    = fadd (fadd (fdiv (fz 4) (fz 24)) (fdiv (fz 3) (fz 24))) (fdiv (fz 2) (fz 24)).
Proof. split; vm_compute; reflexivity. Qed.
