(* C14 - closed witnesses about the binary64 model (Model/C14f.v). *)
From Coq Require Import ZArith String Bool List Permutation SpecFloat.
From CBI Require Import Lib.Data Model.C14 Model.C14f.
Import ListNotations.
Local Open Scope string_scope.
Local Open Scope Z_scope.

Definition nm (s : string) : name := name_of_string s.

(* T = 24, terms 2, 3, 4: the two insertion orders of the same table *)
Definition wit_rows1 : setmap :=
  [([nm "A"; nm "C"], 2); ([nm "B"; nm "C"], 3); ([nm "A"], 4); ([nm "A"; nm "B"; nm "C"], 15)].
Definition wit_rows2 : setmap :=
  [([nm "A"], 4); ([nm "B"; nm "C"], 3); ([nm "A"; nm "C"], 2); ([nm "A"; nm "B"; nm "C"], 15)].

Lemma wit_perm : Permutation wit_rows1 wit_rows2.
Proof.
  unfold wit_rows1, wit_rows2.
  eapply perm_trans; [apply perm_swap|].
  eapply perm_trans; [apply perm_skip; apply perm_swap|].
  apply perm_swap.
Qed.

Lemma distance_old_order_dependent :
  distance_old_f wit_rows1 (nm "A") (nm "B") = FVal (S754_finite false 6755399441055744 (-54)) /\
  distance_old_f wit_rows2 (nm "A") (nm "B") = FVal (S754_finite false 6755399441055743 (-54)) /\
  fmt2 (S754_finite false 6755399441055744 (-54)) = D2 38 /\
  fmt2 (S754_finite false 6755399441055743 (-54)) = D2 37.
Proof. repeat split; vm_compute; reflexivity. Qed.
