(* C13 - the kernel's walk versus the lexical walk; os.path.exists on a
   normalised path; the whole-database theorem M = S. *)
From Coq Require Import Bool Arith Ascii Lia String List.
From CBI Require Import Lib.Res Model.C13p Model.C13fs Model.C13 Spec.C13 Spec.C13db
  Proofs.C13p Proofs.C13 Proofs.C13db.
Import ListNotations.

(* ---------- kernel walk => lexical walk ---------- *)
Lemma kwalk_lexical fs comps cur l :
  kwalk fs cur comps = Some l -> l = fold_left step comps cur.
Proof.
  revert cur. induction comps as [|c r IH]; intros cur H; cbn in *.
  - congruence.
  - destruct (kind_of fs cur) as [[|]|]; try discriminate. apply IH. exact H.
Qed.

Lemma kresolve_lexical fs c p l :
  kresolve fs c p = Some l -> l = resolve c p /\ exists k, kind_of fs l = Some k.
Proof.
  unfold kresolve. destruct (kwalk fs _ (split p)) as [m|] eqn:E; [|discriminate].
  destruct (kind_of fs m) as [k|] eqn:K; [|discriminate].
  intro H. inversion H; subst. split; [|exists k; exact K].
  apply kwalk_lexical in E. exact E.
Qed.

(* if a compiler process started in `directory` can open `file`, it opens the
   file at S's location; same for an include directory it can search *)
Lemma k_dir_lexical fs root d l : k_dir fs root d = Some l -> l = s_dir root d.
Proof.
  unfold k_dir, s_dir. destruct d as [d|]; [|congruence].
  destruct (kresolve fs root d) as [m|] eqn:E; [|discriminate].
  destruct (kind_of fs m) as [[|]|]; try discriminate.
  intro H. inversion H; subst. apply kresolve_lexical in E. tauto.
Qed.

Lemma k_file_lexical fs root d f l :
  k_file fs root d f = Some l -> l = s_file root d f /\ kind_of fs l = Some false.
Proof.
  unfold k_file, s_file. destruct (k_dir fs root d) as [dl|] eqn:D; [|discriminate].
  apply k_dir_lexical in D. subst dl.
  destruct (kresolve fs (s_dir root d) f) as [m|] eqn:E; [|discriminate].
  destruct (kind_of fs m) as [[|]|] eqn:K; try discriminate.
  intro H. inversion H; subst. apply kresolve_lexical in E. split; [tauto|exact K].
Qed.

Lemma k_inc_lexical fs root d i l :
  k_inc fs root d i = Some l -> l = resolve (s_dir root d) i /\ kind_of fs l = Some true.
Proof.
  unfold k_inc. destruct (k_dir fs root d) as [dl|] eqn:D; [|discriminate].
  apply k_dir_lexical in D. subst dl.
  destruct (kresolve fs (s_dir root d) i) as [m|] eqn:E; [|discriminate].
  destruct (kind_of fs m) as [[|]|] eqn:K; try discriminate.
  intro H. inversion H; subst. apply kresolve_lexical in E. split; [tauto|exact K].
Qed.

(* ---------- well-formed trees: the parent of every object is a directory ---------- *)
Definition wf_fs (fs : fsys) : Prop :=
  forall c l k, lookup fs (c :: l) = Some k -> kind_of fs l = Some true.

Definition wf_b (fs : fsys) : bool :=
  forallb (fun o : loc * bool =>
             match fst o with
             | [] => true
             | _ :: p => match kind_of fs p with Some true => true | _ => false end
             end) fs.

Lemma lookup_In fs l k : lookup fs l = Some k -> In (l, k) fs.
Proof.
  induction fs as [|[l' k'] r IH]; cbn; [discriminate|].
  destruct (loc_eqb l l') eqn:E.
  - intro H. inversion H; subst. apply loc_eqb_eq in E. subst. left. reflexivity.
  - intro H. right. apply IH. exact H.
Qed.

Lemma wf_b_correct fs : wf_b fs = true -> wf_fs fs.
Proof.
  intros H c l k Hl. apply lookup_In in Hl.
  unfold wf_b in H. rewrite forallb_forall in H. specialize (H _ Hl). cbn in H.
  destruct (kind_of fs l) as [[|]|]; congruence.
Qed.

Lemma kwalk_app fs a b cur :
  kwalk fs cur (a ++ b) = match kwalk fs cur a with Some m => kwalk fs m b | None => None end.
Proof.
  revert cur. induction a as [|c r IH]; intro cur; cbn; [reflexivity|].
  destruct (kind_of fs cur) as [[|]|]; try reflexivity. apply IH.
Qed.

Lemma kwalk_root_empties fs k comps : kwalk fs [] (repeat [] k ++ comps) = kwalk fs [] comps.
Proof. induction k; cbn; [reflexivity|exact IHk]. Qed.

(* in a well-formed tree the walk along the names of an existing object arrives *)
Lemma kwalk_existing fs l k :
  wf_fs fs -> all_proper l -> kind_of fs l = Some k -> kwalk fs [] (rev l) = Some l.
Proof.
  intro W. revert k. induction l as [|c l IH]; intros k P K; [reflexivity|].
  inversion P; subst. cbn [rev]. rewrite kwalk_app.
  assert (D : kind_of fs l = Some true) by (apply (W c l k); exact K).
  rewrite (IH true) by assumption. cbn. rewrite D. rewrite step_proper by assumption. reflexivity.
Qed.

Lemma split_render k l :
  all_proper l -> split (render k l) = repeat [] k ++ (match l with [] => [[]] | _ => rev l end).
Proof.
  intro P. unfold render. rewrite split_slashes. f_equal.
  destruct l as [|c r]; [reflexivity|].
  apply split_intercalate.
  - cbn. destruct (rev r); discriminate.
  - apply proper_noslash. apply Forall_rev. exact P.
Qed.

(* os.path.exists of a rendered location = the location exists *)
Lemma exists_render fs c k l :
  wf_fs fs -> 1 <= k -> all_proper l ->
  os_path_exists fs c (render k l) = match kind_of fs l with Some _ => true | None => false end.
Proof.
  intros W Hk P. unfold os_path_exists.
  destruct (kind_of fs l) as [kd|] eqn:K.
  - unfold kresolve. rewrite isabs_render by exact Hk.
    rewrite split_render by exact P. rewrite kwalk_root_empties.
    destruct l as [|x r].
    + cbn. reflexivity.
    + rewrite (kwalk_existing fs (x :: r) kd W P K). rewrite K. reflexivity.
  - destruct (kresolve fs c (render k l)) as [m|] eqn:E; [|reflexivity].
    apply kresolve_lexical in E. destruct E as [E [kd K']].
    rewrite resolve_render in E by assumption. subst m. congruence.
Qed.

(* ---------- the whole database: M = S ---------- *)
Inductive swarn := SWMissing (l : loc) | SWUnsupported | SWNoFiles.

Definition denote_entry (o : out_entry) : loc * list loc :=
  (resolve [] (o_file o), map (resolve []) (o_incs o)).
Definition denote_warn (w : warn) : swarn :=
  match w with
  | WMissing p => SWMissing (resolve [] p)
  | WUnsupported => SWUnsupported
  | WNoFiles => SWNoFiles
  end.

Fixpoint opens (outs : list s_out) : list (loc * list loc) :=
  match outs with
  | [] => []
  | SOpen f incs :: r => (f, incs) :: opens r
  | _ :: r => opens r
  end.
Fixpoint swarns (outs : list s_out) : list swarn :=
  match outs with
  | [] => []
  | SOpen _ _ :: r => swarns r
  | SSkipUnsupported :: r => SWUnsupported :: swarns r
  | SSkipMissing l :: r => SWMissing l :: swarns r
  end.

Section DB.
Variable fs : fsys.
Variable cwd rootdir : str.
Hypothesis W : wf_fs fs.
Hypothesis A : isabs cwd = true.
Let root := resolve (cwdloc cwd) rootdir.

Lemma do_entry_spec d f a :
  exists o w, do_entry fs cwd rootdir d f a = Ok (o, w) /\
    map denote_entry o = opens [s_entry fs root d f a (extract_incs (tl a))] /\
    map denote_warn w = swarns [s_entry fs root d f a (extract_incs (tl a))].
Proof.
  unfold do_entry, s_entry, is_supported.
  destruct a as [|a0 ar]; [exists [], [WUnsupported]; repeat split|].
  destruct (is_source_file f); cbn [negb]; [|exists [], [WUnsupported]; repeat split].
  destruct (file_path_spec cwd rootdir d f A) as (k & Hk & E & P). fold root in E, P.
  rewrite E. rewrite exists_render; [|exact W|lia|exact P].
  destruct (kind_of fs (s_file root d f)) as [kd|] eqn:K; cbn [negb].
  - eexists; eexists; split; [reflexivity|]. split; [|reflexivity].
    cbn [map opens]. unfold denote_entry. cbn [o_file o_incs].
    rewrite resolve_render; [|lia|exact P].
    rewrite map_map. unfold root. rewrite inc_paths_denote by exact A. reflexivity.
  - eexists; eexists; split; [reflexivity|]. split; [reflexivity|].
    cbn [map swarns denote_warn]. rewrite resolve_render; [reflexivity|lia|exact P].
Qed.

Lemma opens_app a b : opens (a ++ b) = opens a ++ opens b.
Proof. induction a as [|[| |] a IH]; cbn; rewrite ?IH; reflexivity. Qed.
Lemma swarns_app a b : swarns (a ++ b) = swarns a ++ swarns b.
Proof. induction a as [|[| |] a IH]; cbn; rewrite ?IH; reflexivity. Qed.

Lemma loop_spec es outs :
  s_db fs root es = Some outs ->
  exists v l o w, validated es = Some v /\ with_files v = Some l /\
    loop fs cwd rootdir l = Ok (o, w) /\
    map denote_entry o = opens outs /\ map denote_warn w = swarns outs.
Proof.
  revert outs. induction es as [|e es IH]; intros outs H; cbn in H.
  - inversion H; subst. exists [], [], [], []. repeat split.
  - destruct (e_file e) as [f|] eqn:Ef; [|discriminate].
    destruct (e_argv e) as [a|] eqn:Ea; [|discriminate].
    destruct (s_db fs root es) as [t|] eqn:Et; [|discriminate].
    destruct (IH t eq_refl) as (v & l & o & w & Hv & Hl & Hloop & Ho & Hw).
    inversion H; subst. clear H.
    destruct (do_entry_spec (e_dir e) f a) as (o1 & w1 & D & O1 & W1).
    set (so := s_entry fs root (e_dir e) f a (extract_incs (tl a))) in *.
    exists ((e_dir e, Some f, a) :: v), ((e_dir e, f, a) :: l), (o1 ++ o), (w1 ++ w).
    cbn [validated with_files Model.C13.loop]. rewrite Ea, Ef, Hv. cbn [with_files]. rewrite Hl, D, Hloop.
    split; [reflexivity|]. split; [reflexivity|]. split; [reflexivity|]. split.
    + rewrite map_app, Ho, O1. change (so :: t) with ([so] ++ t). rewrite opens_app. reflexivity.
    + rewrite map_app, Hw, W1. change (so :: t) with ([so] ++ t). rewrite swarns_app. reflexivity.
Qed.

Lemma load_database_spec es outs :
  s_db fs root es = Some outs ->
  exists o w, load_database fs cwd rootdir es = Ok (o, w) /\
    map denote_entry o = opens outs /\
    map denote_warn w = swarns outs ++ (match opens outs with [] => [SWNoFiles] | _ => [] end).
Proof.
  intro H. destruct (loop_spec es outs H) as (v & l & o & w & Hv & Hl & Hloop & Ho & Hw).
  unfold load_database. rewrite Hv, Hl, Hloop.
  eexists; eexists; split; [reflexivity|]. split; [exact Ho|].
  rewrite <- Ho. destruct o; cbn.
  - rewrite map_app, Hw. reflexivity.
  - rewrite Hw, app_nil_r. reflexivity.
Qed.
End DB.
