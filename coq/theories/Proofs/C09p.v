(* C09 — reading a pattern line: pathspec's and git's readings coincide unless
   pathspec rejects the line; the generated extension tables agree. *)
From Coq Require Import Bool Arith Ascii String List Lia.
From CBI Require Import Lib.Res Lib.Data Lib.C09_glob Gen.C09_tables Model.C09 Spec.C09.
Import ListNotations.

Lemma read_segs_indep l :
  match read_segs false l with
  | None => read_segs true l = None
  | Some None => True
  | Some (Some ss) => read_segs true l = Some (Some ss)
  end.
Proof.
  induction l as [|s r IH]; [reflexivity|]. cbn [read_segs].
  destruct (read_seg s) as [x|x|].
  - destruct (read_segs false r) as [[ss|]|]; [rewrite IH; reflexivity|exact I|rewrite IH; reflexivity].
  - destruct r as [|s' r']; [exact I|].
    destruct (read_segs false (s' :: r')) as [[ss|]|]; [exact I|exact I|rewrite IH; reflexivity].
  - reflexivity.
Qed.

Lemma parse_indep raw : parse false raw <> PErr -> parse true raw = parse false raw.
Proof.
  unfold parse. destruct (negb (forallb printable (list_of_string raw))); [reflexivity|].
  destruct (list_of_string raw) as [|c s']; [reflexivity|].
  destruct (is_space c); [reflexivity|].
  destruct (strip_trailing (c :: s')) as [s1|]; [|reflexivity].
  destruct s1 as [|c1 rest1]; [reflexivity|].
  destruct (Ascii.eqb c1 "#"); [reflexivity|].
  destruct (is_slash c1 && match rest1 with [] => true | _ => false end); [reflexivity|].
  assert (forall (ng : bool) (s2 : chars), s2 <> [] ->
            parse_body false ng s2 <> PErr -> parse_body true ng s2 = parse_body false ng s2) as K.
  { intros ng s2 Hne. destruct s2 as [|c2 s2']; [contradiction|]. unfold parse_body.
    set (raw_segs := split_on is_slash (c2 :: s2')).
    set (anchored := match raw_segs with [] :: _ :: _ => true | _ => false end).
    set (body1 := if anchored then tl raw_segs else raw_segs).
    set (isdir := match rev body1 with [] :: _ :: _ => true | _ => false end).
    set (body := if isdir then removelast body1 else body1).
    destruct body as [|b0 body']; [reflexivity|].
    pose proof (read_segs_indep (b0 :: body')) as H.
    destruct (read_segs false (b0 :: body')) as [[ss|]|].
    - rewrite H. reflexivity.
    - intros Hc. exfalso. apply Hc. reflexivity.
    - rewrite H. reflexivity. }
  destruct (Ascii.eqb c1 "!").
  - destruct rest1 as [|c2 r2]; [intros Hc; exfalso; apply Hc; reflexivity|]. apply (K true (c2 :: r2)). discriminate.
  - apply (K false (c1 :: rest1)). discriminate.
Qed.

Lemma compile_indep ls ps : compile false ls = CPats ps -> compile true ls = CPats ps.
Proof.
  revert ps. induction ls as [|l r IH]; intros ps; [trivial|]. cbn [compile].
  destruct (parse false l) eqn:Hp.
  - rewrite parse_indep by congruence. rewrite Hp.
    destruct (compile false r) as [qs| |]; try discriminate. rewrite (IH qs eq_refl). trivial.
  - rewrite parse_indep by congruence. rewrite Hp.
    destruct (compile false r) as [qs| |]; try discriminate. rewrite (IH qs eq_refl). trivial.
  - destruct (compile false r); discriminate.
  - discriminate.
Qed.

(* ---------- generated tables ---------- *)
Definition ext_tables_agree : bool :=
  forallb (fun e => existsb (String.eqb e) (flat_map snd language_extensions)) source_extensions &&
  forallb (fun e => existsb (String.eqb e) source_extensions) (flat_map snd language_extensions) &&
  forallb (fun l => existsb (String.eqb l) (map fst language_extensions)) supported_languages &&
  forallb (fun l => existsb (String.eqb l) supported_languages) (map fst language_extensions).

Lemma ext_tables_agree_true : ext_tables_agree = true.
Proof. vm_compute. reflexivity. Qed.

Lemma existsb_eqb_In e l : existsb (String.eqb e) l = true <-> In e l.
Proof.
  rewrite existsb_exists. split.
  - intros (x & Hx & E). apply String.eqb_eq in E. subst. assumption.
  - intros H. exists e. split; [assumption|apply String.eqb_refl].
Qed.

Theorem extensions_agree :
  (forall e, In e source_extensions <->
             exists lang exts, In (lang, exts) language_extensions /\ In lang supported_languages /\ In e exts) /\
  (forall lang, In lang supported_languages <-> exists exts, In (lang, exts) language_extensions).
Proof.
  pose proof ext_tables_agree_true as H. unfold ext_tables_agree in H.
  apply andb_true_iff in H. destruct H as (H & H4). apply andb_true_iff in H. destruct H as (H & H3).
  apply andb_true_iff in H. destruct H as (H1 & H2).
  rewrite forallb_forall in H1, H2, H3, H4.
  assert (forall lang, In lang supported_languages <-> exists exts, In (lang, exts) language_extensions) as Hl.
  { intros lang. split.
    - intros Hin. apply H3 in Hin. apply existsb_eqb_In in Hin. apply in_map_iff in Hin.
      destruct Hin as ((l, exts) & E & Hin). cbn in E. subst. exists exts. assumption.
    - intros (exts & Hin). apply existsb_eqb_In. apply H4. apply in_map_iff. exists (lang, exts). auto. }
  split; [|exact Hl]. intros e. split.
  - intros Hin. apply H1 in Hin. apply existsb_eqb_In in Hin. apply in_flat_map in Hin.
    destruct Hin as ((lang, exts) & Hin & He). exists lang, exts. repeat split; try assumption.
    apply Hl. exists exts. assumption.
  - intros (lang & exts & Hin & _ & He). apply existsb_eqb_In. apply H2. apply in_flat_map.
    exists (lang, exts). auto.
Qed.

Lemma has_language_eq p : has_language p = is_source_file p.
Proof.
  unfold has_language, is_source_file, has_ext_in.
  pose proof ext_tables_agree_true as H. unfold ext_tables_agree in H.
  apply andb_true_iff in H. destruct H as (H & _). apply andb_true_iff in H. destruct H as (H & _).
  apply andb_true_iff in H. destruct H as (H1 & H2). rewrite forallb_forall in H1, H2.
  set (e := splitext_ext (last p ""%string)).
  destruct (existsb (String.eqb e) source_extensions) eqn:E1.
  - apply existsb_exists in E1. destruct E1 as (x & Hx & E). apply String.eqb_eq in E. subst x.
    apply H1 in Hx. rewrite existsb_exists in Hx. destruct Hx as (y & Hy & E). apply String.eqb_eq in E. subst y.
    apply existsb_exists. exists e. split; [assumption|apply String.eqb_refl].
  - destruct (existsb (String.eqb e) (flat_map snd language_extensions)) eqn:E2; [|reflexivity].
    apply existsb_exists in E2. destruct E2 as (x & Hx & E). apply String.eqb_eq in E. subst x.
    apply H2 in Hx. rewrite existsb_exists in Hx. destruct Hx as (y & Hy & E). apply String.eqb_eq in E. subst y.
    assert (existsb (String.eqb e) source_extensions = true) by (apply existsb_exists; exists e; split; [assumption|apply String.eqb_refl]).
    congruence.
Qed.
