(* C01 — M (tree builder + visitor with branch_taken) = S (skipping machine)
   on every structured program, for every mark/exec/ev. *)
From Coq Require Import List Bool Arith String Lia.
From CBI Require Import Lib.Res Model.C01 Spec.C01.
Import ListNotations.

Section Generic.
Variables ST ACT COND : Type.
Variable mark : nat -> ST -> ST.
Variable exec : ACT -> ST -> res ST.
Variable ev : COND -> ST -> res bool.

Notation kind := (kind ACT COND).
Notation line := (line ACT COND).
Notation tree := (tree ACT COND).
Notation item := (item ACT COND).
Notation visit := (visit ST ACT COND mark exec ev).
Notation visits := (visits ST ACT COND mark exec ev).
Notation sstep := (sstep ST ACT COND mark exec ev).
Notation ssteps := (ssteps ST ACT COND mark exec ev).
Notation inserts := (inserts ACT COND).
Notation insert := (insert ACT COND).
Notation flat := (flat ACT COND).
Notation flats := (flats ACT COND).
Notation hk := (hk ACT COND).
Notation mst := (mst ST).
Notation sst := (sst ST).

(* ---------- nested induction principle for items ---------- *)
Section item_ind2.
  Variable P : item -> Prop.
  Hypothesis Hplain : forall id a, P (IPlain id a).
  Hypothesis Hchain : forall id c body rest eid,
      Forall P body -> Forall (fun x => Forall P (snd x)) rest -> P (IChain id c body rest eid).
  Fixpoint item_ind2 (i : item) : P i :=
    match i with
    | IPlain id a => Hplain id a
    | IChain id c body rest eid =>
        Hchain id c body rest eid
          ((fix go l := match l return Forall P l with
                        | [] => Forall_nil _
                        | x :: l' => Forall_cons _ (item_ind2 x) (go l') end) body)
          ((fix go2 r := match r return Forall (fun x => Forall P (snd x)) r with
                         | [] => Forall_nil _
                         | x :: r' =>
                             Forall_cons _
                               ((fix go l := match l return Forall P l with
                                             | [] => Forall_nil _
                                             | y :: l' => Forall_cons _ (item_ind2 y) (go l') end) (snd x))
                               (go2 r') end) rest)
    end.
End item_ind2.

Lemma all_items (P : item -> Prop) (H : forall i, P i) (l : list item) : Forall P l.
Proof. apply Forall_forall. intros; apply H. Qed.

(* ---------- the tree a structured program denotes ---------- *)
Fixpoint tree_of (i : item) : list tree :=
  match i with
  | IPlain id a => [T id (KPlain a) []]
  | IChain id c body rest eid =>
      T id (KIf c) (flat_map tree_of body) ::
      map (fun x => let '(hid, h, b) := x in T hid (hk h) (flat_map tree_of b)) rest ++
      [T eid KEndif []]
  end.
Definition trees (is : list item) := flat_map tree_of is.

Lemma inserts_app z a b :
  inserts z (a ++ b) = match inserts z a with Ok z' => inserts z' b | Err e => Err e end.
Proof.
  revert z; induction a as [|l a IH]; intros z; cbn [C01.inserts app]; [reflexivity|].
  destruct (insert z l); [apply IH|reflexivity].
Qed.

(* a block pushes its trees on the current level and leaves the stack alone *)
Definition build_ok (i : item) := forall cur stk,
  inserts (cur, stk) (flat i) = Ok (rev (tree_of i) ++ cur, stk).

Lemma build_items its : Forall build_ok its -> forall cur stk,
  inserts (cur, stk) (flats its) = Ok (rev (trees its) ++ cur, stk).
Proof.
  induction 1 as [|i its Hi _ IH]; intros cur stk; [reflexivity|].
  unfold Spec.C01.flats, trees in *; cbn [flat_map]. rewrite inserts_app, Hi, IH.
  rewrite rev_app_distr, app_assoc. reflexivity.
Qed.

Lemma build_rest rest : Forall (fun x => Forall build_ok (snd x)) rest ->
  forall eid cur before0 oid0 ok0 stk,
  inserts (cur, {| before := before0; oid := oid0; ok := ok0 |} :: stk)
     (flat_map (fun x => let '(hid, h, b) := x in (hid, hk h) :: flat_map flat b) rest ++ [(eid, KEndif)])
  = Ok (T eid KEndif [] ::
        rev (map (fun x => let '(hid, h, b) := x in T hid (hk h) (flat_map tree_of b)) rest)
        ++ T oid0 ok0 (rev cur) :: before0, stk).
Proof.
  induction 1 as [|[[hid h] b] rest Hb _ IH]; intros eid cur before0 oid0 ok0 stk.
  - reflexivity.
  - cbn [flat_map map snd] in *. rewrite <- app_assoc. cbn [app C01.inserts].
    assert (Hc : insert (cur, {| before := before0; oid := oid0; ok := ok0 |} :: stk) (hid, hk h)
                 = Ok ([], {| before := T oid0 ok0 (rev cur) :: before0; oid := hid; ok := hk h |} :: stk))
      by (destruct h; reflexivity).
    rewrite Hc. rewrite inserts_app. fold (flats b). rewrite (build_items b Hb). rewrite app_nil_r.
    rewrite IH. rewrite rev_involutive. cbn [rev]. rewrite <- app_assoc. reflexivity.
Qed.

Lemma build_item i : build_ok i.
Proof.
  induction i as [id a|id c body rest eid Hbody Hrest] using item_ind2; intros cur stk.
  - reflexivity.
  - cbn [Spec.C01.flat C01.inserts]. cbn [C01.insert is_start]. rewrite inserts_app. fold (flats body).
    rewrite (build_items body Hbody), app_nil_r. rewrite (build_rest rest Hrest).
    rewrite rev_involutive. cbn [tree_of]. fold (trees body).
    cbn [rev]. rewrite rev_app_distr. cbn [rev app]. rewrite <- !app_assoc. reflexivity.
Qed.

Theorem build_flats its : build ACT COND (flats its) = Ok (trees its).
Proof.
  unfold build. rewrite (build_items its (all_items _ build_item its)).
  cbn. rewrite app_nil_r, rev_involutive. reflexivity.
Qed.

(* ---------- list lemmas for the two runners ---------- *)
Lemma ssteps_app s a b :
  ssteps s (a ++ b) = match ssteps s a with Ok s' => ssteps s' b | Err e => Err e end.
Proof.
  revert s; induction a as [|l a IH]; intros s; cbn [Spec.C01.ssteps app]; [reflexivity|].
  destruct (sstep s l); [apply IH|reflexivity].
Qed.
Lemma visits_app s a b :
  visits (a ++ b) s = match visits a s with Ok s' => visits b s' | Err e => Err e end.
Proof.
  revert s; induction a as [|l a IH]; intros s; cbn [C01.visits app]; [reflexivity|].
  destruct (visit l s); [apply IH|reflexivity].
Qed.

(* visit with its local fix unfolded into [visits] *)
Lemma visit_eq id k kids s :
  visit (T id k kids) s =
    let p := mark id (pst ST s) in
    match k with
    | KPlain a => match exec a p with Ok p' => Ok {| bt := bt ST s; pst := p' |} | Err e => Err e end
    | KIf c =>
        match ev c p with
        | Err e => Err e
        | Ok a => let s' := {| bt := a :: bt ST s; pst := p |} in if a then visits kids s' else Ok s'
        end
    | KElif c =>
        match bt ST s with
        | [] => Err pop_err
        | b :: r =>
            if b then Ok {| bt := bt ST s; pst := p |}
            else match ev c p with
                 | Err e => Err e
                 | Ok a => let s' := {| bt := a :: r; pst := p |} in if a then visits kids s' else Ok s'
                 end
        end
    | KElse =>
        match bt ST s with
        | [] => Err pop_err
        | b :: r => if b then Ok {| bt := bt ST s; pst := p |} else visits kids {| bt := true :: r; pst := p |}
        end
    | KEndif => match bt ST s with [] => Err pop_err | _ :: r => Ok {| bt := r; pst := p |} end
    end.
Proof.
  assert (H : forall ts s0,
             (fix vl (ts : list tree) (s : mst) : res mst :=
                match ts with
                | [] => Ok s
                | t' :: ts' => match visit t' s with Ok s' => vl ts' s' | Err e => Err e end
                end) ts s0 = visits ts s0).
  { induction ts as [|t ts IH]; intros s0; [reflexivity|]. cbn [C01.visits]. destruct (visit t s0); auto. }
  destruct k; cbn [C01.visit]; rewrite ?H; reflexivity.
Qed.

(* ---------- skipped regions leave S untouched ---------- *)
Definition dead (stk : list sframe) := live stk = false.
Definition skip_ok (i : item) := forall s, dead (sstk ST s) -> ssteps s (flat i) = Ok s.

Lemma skip_items its : Forall skip_ok its -> forall s, dead (sstk ST s) -> ssteps s (flats its) = Ok s.
Proof.
  induction 1 as [|i its Hi _ IH]; intros s Hd; [reflexivity|].
  unfold Spec.C01.flats in *; cbn [flat_map]. rewrite ssteps_app, Hi by assumption. apply IH; assumption.
Qed.

Lemma skip_rest rest : Forall (fun x => Forall skip_ok (snd x)) rest ->
  forall eid tk ac r p,
  ssteps {| sstk := {| outer := false; taken := tk; active := ac |} :: r; sp := p |}
     (flat_map (fun x => let '(hid, h, b) := x in (hid, hk h) :: flat_map flat b) rest ++ [(eid, KEndif)])
  = Ok {| sstk := r; sp := p |}.
Proof.
  induction 1 as [|[[hid h] b] rest Hb _ IH]; intros eid tk ac r p.
  - reflexivity.
  - cbn [flat_map snd] in *. rewrite <- app_assoc. cbn [app Spec.C01.ssteps].
    destruct h; cbn [Spec.C01.hk Spec.C01.sstep sstk outer taken active sp andb];
      rewrite ssteps_app; fold (flats b);
      (rewrite (skip_items b Hb); [apply IH | reflexivity]).
Qed.

Lemma skip_item i : skip_ok i.
Proof.
  induction i as [id a|id c body rest eid Hbody Hrest] using item_ind2; intros s Hd; unfold dead in *.
  - destruct s as [stk p]; cbn in *. rewrite Hd. reflexivity.
  - destruct s as [stk p]; cbn [sstk] in *. cbn [Spec.C01.flat Spec.C01.ssteps Spec.C01.sstep sstk sp].
    rewrite Hd. rewrite ssteps_app. fold (flats body). rewrite (skip_items body Hbody) by reflexivity.
    apply skip_rest; assumption.
Qed.

Lemma skip_all its s : dead (sstk ST s) -> ssteps s (flats its) = Ok s.
Proof. apply skip_items, all_items, skip_item. Qed.

(* ---------- live regions: M and S in lock step ---------- *)
Definition R (m : mst) (s : sst) :=
  pst ST m = sp ST s /\ bt ST m = map taken (sstk ST s) /\ live (sstk ST s) = true.

(* related outcomes: both fail with the same error, or both succeed in related states *)
Definition RR (stk0 : list sframe) (rm : res mst) (rs : res sst) : Prop :=
  match rm, rs with
  | Ok m', Ok s' => R m' s' /\ sstk ST s' = stk0
  | Err a, Err b => a = b
  | _, _ => False
  end.

Definition live_ok (i : item) := forall m s, R m s -> RR (sstk ST s) (visits (tree_of i) m) (ssteps s (flat i)).

Lemma live_items its : Forall live_ok its -> forall m s, R m s ->
  RR (sstk ST s) (visits (trees its) m) (ssteps s (flats its)).
Proof.
  induction 1 as [|i its Hi _ IH]; intros m s HR.
  - cbn. split; [exact HR|reflexivity].
  - unfold Spec.C01.flats, trees in *; cbn [flat_map]. rewrite visits_app, ssteps_app.
    specialize (Hi m s HR). unfold RR in Hi.
    destruct (visits (tree_of i) m) as [m1|e1], (ssteps s (flat i)) as [s1|e2]; try contradiction.
    + destruct Hi as [R1 K1]. rewrite <- K1. apply IH; exact R1.
    + exact Hi.
Qed.

(* the tail  {elif/else group}* endif  of a reached chain *)
Definition RRt (r : list sframe) (rm : res mst) (rs : res sst) : Prop :=
  match rm, rs with
  | Ok m', Ok s' => bt ST m' = map taken r /\ sstk ST s' = r /\ pst ST m' = sp ST s'
  | Err a, Err b => a = b
  | _, _ => False
  end.

Lemma live_rest rest : Forall (fun x => Forall live_ok (snd x)) rest ->
  forall eid tk ac r p, live r = true ->
  RRt r
    (visits (map (fun x => let '(hid, h, b) := x in T hid (hk h) (flat_map tree_of b)) rest ++ [T eid KEndif []])
            {| bt := tk :: map taken r; pst := p |})
    (ssteps {| sstk := {| outer := true; taken := tk; active := ac |} :: r; sp := p |}
            (flat_map (fun x => let '(hid, h, b) := x in (hid, hk h) :: flat_map flat b) rest ++ [(eid, KEndif)])).
Proof.
  induction 1 as [|[[hid h] b] rest Hb _ IH]; intros eid tk ac r p Hr.
  - cbn [map app flat_map C01.visits Spec.C01.ssteps]. rewrite visit_eq. cbn. auto.
  - cbn [flat_map map snd] in *. rewrite <- !app_assoc. cbn [app Spec.C01.ssteps C01.visits].
    rewrite visit_eq. fold (trees b).
    (* what happens when the group [b] of this header is entered *)
    assert (Henter : forall p1,
      RRt r
       (match visits (trees b) {| bt := true :: map taken r; pst := p1 |} with
        | Ok s' => visits (map (fun x => let '(hid, h, b) := x in T hid (hk h) (flat_map tree_of b)) rest ++ [T eid KEndif []]) s'
        | Err e => Err e end)
       (match ssteps {| sstk := {| outer := true; taken := true; active := true |} :: r; sp := p1 |} (flats b) with
        | Ok s' => ssteps s' (flat_map (fun x => let '(hid, h, b) := x in (hid, hk h) :: flat_map flat b) rest ++ [(eid, KEndif)])
        | Err e => Err e end)).
    { intros p1.
      pose proof (live_items b Hb {| bt := true :: map taken r; pst := p1 |}
                    {| sstk := {| outer := true; taken := true; active := true |} :: r; sp := p1 |}) as HL.
      unfold RR in HL.
      destruct (visits (trees b) _) as [m1|e1], (ssteps _ (flats b)) as [s1|e2];
        try (exfalso; apply HL; repeat split; reflexivity).
      - destruct HL as [(Ra & Rb & Rc) K1]; [repeat split; reflexivity|].
        destruct m1 as [bt1 p1'], s1 as [st1 sp1]; cbn in *. subst. apply IH; assumption.
      - apply HL. repeat split; reflexivity. }
    destruct h as [c|]; cbn [Spec.C01.hk Spec.C01.sstep sstk outer taken active sp bt pst andb].
    + (* #elif *)
      destruct tk.
      * (* chain already selected: neither side evaluates the condition *)
        rewrite ssteps_app. fold (flats b). rewrite skip_all by reflexivity. apply IH; assumption.
      * destruct (ev c (mark hid p)) as [[|]|e] eqn:Ec.
        -- rewrite ssteps_app. fold (flats b). apply Henter.
        -- rewrite ssteps_app. fold (flats b). rewrite skip_all by reflexivity. apply IH; assumption.
        -- cbn. reflexivity.
    + (* #else *)
      destruct tk; cbn [negb].
      * rewrite ssteps_app. fold (flats b). rewrite skip_all by reflexivity. apply IH; assumption.
      * rewrite ssteps_app. fold (flats b). apply Henter.
Qed.

Lemma live_item i : live_ok i.
Proof.
  induction i as [id a|id c body rest eid Hbody Hrest] using item_ind2; intros m s (Ra & Rb & Rc).
  - destruct m as [b p], s as [st sp0]; cbn [pst bt sstk sp] in *; subst.
    cbn [tree_of Spec.C01.flat C01.visits Spec.C01.ssteps Spec.C01.sstep sstk sp]. rewrite visit_eq.
    rewrite Rc. cbn [pst bt]. destruct (exec a (mark id sp0)); cbn; [|reflexivity].
    repeat split; auto.
  - destruct m as [b p], s as [st sp0]; cbn [pst bt sstk sp] in *; subst.
    cbn [tree_of Spec.C01.flat C01.visits Spec.C01.ssteps Spec.C01.sstep sstk sp]. rewrite visit_eq. rewrite Rc.
    cbn [pst bt]. fold (trees body).
    destruct (ev c (mark id sp0)) as [[|]|e] eqn:Ec; cbn [sstk sp]; [| |cbn; reflexivity].
    + (* first group selected *)
      rewrite ssteps_app. fold (flats body).
      pose proof (live_items body Hbody {| bt := true :: map taken st; pst := mark id sp0 |}
                    {| sstk := {| outer := true; taken := true; active := true |} :: st; sp := mark id sp0 |}) as HL.
      unfold RR in HL.
      destruct (visits (trees body) _) as [m1|e1], (ssteps _ (flats body)) as [s1|e2];
        try (exfalso; apply HL; repeat split; reflexivity).
      * destruct HL as [(Sa & Sb & Sc) K1]; [repeat split; reflexivity|].
        destruct m1 as [bt1 p1], s1 as [st1 sp1]; cbn in *. subst.
        pose proof (live_rest rest Hrest eid true true st sp1 Rc) as HT. unfold RRt in HT. unfold RR.
        destruct (visits _ _) as [m2|], (ssteps _ _) as [s2|]; try contradiction; [|exact HT].
        destruct HT as (T1 & T2 & T3). subst. repeat split; auto.
      * cbn. apply HL. repeat split; reflexivity.
    + rewrite ssteps_app. fold (flats body). rewrite skip_all by reflexivity.
      pose proof (live_rest rest Hrest eid false false st (mark id sp0) Rc) as HT. unfold RRt in HT. unfold RR.
      destruct (visits _ _) as [m2|], (ssteps _ _) as [s2|]; try contradiction; [|exact HT].
      destruct HT as (T1 & T2 & T3). subst. repeat split; auto.
Qed.

Theorem attribution its p : run_M ST ACT COND mark exec ev (flats its) p = run_S ST ACT COND mark exec ev (flats its) p.
Proof.
  unfold run_M, run_S. rewrite build_flats.
  pose proof (live_items its (all_items _ live_item its) {| bt := []; pst := p |} {| sstk := []; sp := p |}) as H.
  unfold RR in H.
  destruct (visits (trees its) _) as [m'|e1], (ssteps _ (flats its)) as [s'|e2];
    try (exfalso; apply H; repeat split; reflexivity).
  - destruct H as [(Ra & _) _]; [repeat split; reflexivity|]. rewrite Ra. reflexivity.
  - rewrite H; [reflexivity|repeat split; reflexivity].
Qed.

(* M never fails on its own account: an error can only come from exec or ev *)
Theorem never_fails its p :
  (forall a q, exists q', exec a q = Ok q') -> (forall c q, exists b, ev c q = Ok b) ->
  exists p', run_S ST ACT COND mark exec ev (flats its) p = Ok p'.
Proof.
  intros Hexec Hev. unfold run_S.
  assert (G : forall i s, exists s', ssteps s (flat i) = Ok s' /\ sstk ST s' = sstk ST s).
  { induction i as [id a|id c body rest eid Hbody Hrest] using item_ind2; intros s.
    - cbn. destruct (live (sstk ST s)); [|eauto]. destruct (Hexec a (mark id (sp ST s))) as [q' ->]. eauto.
    - assert (Gl : forall its, Forall (fun i => forall s, exists s', ssteps s (flat i) = Ok s' /\ sstk ST s' = sstk ST s) its ->
                     forall s, exists s', ssteps s (flats its) = Ok s' /\ sstk ST s' = sstk ST s).
      { induction 1 as [|x l Hx _ IHl]; intros s0; [cbn; eauto|].
        unfold Spec.C01.flats in *; cbn [flat_map]. rewrite ssteps_app.
        destruct (Hx s0) as (s1 & -> & K1). destruct (IHl s1) as (s2 & E2 & K2). exists s2. split; [exact E2|congruence]. }
      assert (Gr : forall s f r, sstk ST s = f :: r -> exists s',
                 ssteps s (flat_map (fun x => let '(hid, h, b) := x in (hid, hk h) :: flat_map flat b) rest ++ [(eid, KEndif)]) = Ok s'
                 /\ sstk ST s' = r).
      { clear Hbody. induction Hrest as [|[[hid h] b] rest Hb _ IHr]; intros s0 f r Hs.
        - cbn. rewrite Hs. eexists; split; [reflexivity|reflexivity].
        - cbn [flat_map snd] in *. rewrite <- app_assoc. cbn [app Spec.C01.ssteps].
          assert (exists s1 f1, sstep s0 (hid, hk h) = Ok s1 /\ sstk ST s1 = f1 :: r) as (s1 & f1 & E1 & K1).
          { destruct h as [c0|]; cbn [Spec.C01.hk Spec.C01.sstep]; rewrite Hs.
            - destruct (outer f); [|do 2 eexists; split; [reflexivity|exact Hs]].
              destruct (taken f); [do 2 eexists; split; reflexivity|].
              destruct (Hev c0 (mark hid (sp ST s0))) as [bb ->]. do 2 eexists; split; reflexivity.
            - destruct (outer f); do 2 eexists; (split; [reflexivity|]); [reflexivity|exact Hs]. }
          rewrite E1. rewrite ssteps_app. fold (flats b).
          destruct (Gl b Hb s1) as (s2 & -> & K2). apply (IHr s2 f1 r). congruence. }
      cbn [Spec.C01.flat Spec.C01.ssteps].
      assert (exists s1 f1, sstep s (id, KIf c) = Ok s1 /\ sstk ST s1 = f1 :: sstk ST s) as (s1 & f1 & E1 & K1).
      { cbn [Spec.C01.sstep]. destruct (live (sstk ST s)); [|do 2 eexists; split; reflexivity].
        destruct (Hev c (mark id (sp ST s))) as [bb ->]. do 2 eexists; split; reflexivity. }
      rewrite E1. rewrite ssteps_app. fold (flats body).
      destruct (Gl body Hbody s1) as (s2 & -> & K2). apply (Gr s2 f1). congruence. }
  assert (Gl : forall its s, exists s', ssteps s (flats its) = Ok s').
  { induction its0 as [|x l IHl]; intros s0; [cbn; eauto|].
    unfold Spec.C01.flats in *; cbn [flat_map]. rewrite ssteps_app.
    destruct (G x s0) as (s1 & -> & _). apply IHl. }
  destruct (Gl its {| sstk := []; sp := p |}) as (s' & ->). eauto.
Qed.

End Generic.

(* ---------- S is monotone in exec: a more permissive exec accepts at least as much ---------- *)
Section Mono.
Variables ST ACT COND : Type.
Variable mark : nat -> ST -> ST.
Variables exec1 exec2 : ACT -> ST -> res ST.
Variable ev : COND -> ST -> res bool.
Hypothesis Hmono : forall a p p', exec1 a p = Ok p' -> exec2 a p = Ok p'.

Lemma ssteps_mono ls : forall s s',
  ssteps ST ACT COND mark exec1 ev s ls = Ok s' -> ssteps ST ACT COND mark exec2 ev s ls = Ok s'.
Proof.
  induction ls as [|[id k] ls IH]; intros s s' H; cbn [ssteps] in *; [exact H|].
  assert (E : forall s1, sstep ST ACT COND mark exec1 ev s (id, k) = Ok s1 ->
                         sstep ST ACT COND mark exec2 ev s (id, k) = Ok s1).
  { intros s1. destruct k as [a| | | |]; cbn [sstep]; try (intros E; exact E).
    destruct (live (sstk ST s)); [|intros E; exact E].
    destruct (exec1 a (mark id (sp ST s))) as [p'|e] eqn:E1; [|discriminate].
    rewrite (Hmono _ _ _ E1). intros E; exact E. }
  destruct (sstep ST ACT COND mark exec1 ev s (id, k)) as [s1|e]; [|discriminate].
  rewrite (E s1 eq_refl). apply IH; exact H.
Qed.

Lemma run_S_mono ls p r :
  run_S ST ACT COND mark exec1 ev ls p = Ok r -> run_S ST ACT COND mark exec2 ev ls p = Ok r.
Proof.
  unfold run_S. destruct (ssteps ST ACT COND mark exec1 ev _ ls) as [s'|e] eqn:E; [|discriminate].
  rewrite (ssteps_mono _ _ _ E). intros H; exact H.
Qed.
End Mono.

(* ---------- forward simulation between two instances of the S machine ---------- *)
Section Sim.
Variables ST1 ST2 ACT COND : Type.
Variable mark1 : nat -> ST1 -> ST1.
Variable mark2 : nat -> ST2 -> ST2.
Variable exec1 : ACT -> ST1 -> res ST1.
Variable exec2 : ACT -> ST2 -> res ST2.
Variable ev1 : COND -> ST1 -> res bool.
Variable ev2 : COND -> ST2 -> res bool.
Variable Rel : ST1 -> ST2 -> Prop.
Hypothesis Hmark : forall id p q, Rel p q -> Rel (mark1 id p) (mark2 id q).
Hypothesis Hev : forall c p q b, Rel p q -> ev1 c p = Ok b -> ev2 c q = Ok b.
Hypothesis Hexec : forall a p q p', Rel p q -> exec1 a p = Ok p' -> exists q', exec2 a q = Ok q' /\ Rel p' q'.

Definition SRel (s : sst ST1) (t : sst ST2) : Prop := sstk ST1 s = sstk ST2 t /\ Rel (sp ST1 s) (sp ST2 t).

Lemma sstep_sim l s t s' :
  SRel s t -> sstep ST1 ACT COND mark1 exec1 ev1 s l = Ok s' ->
  exists t', sstep ST2 ACT COND mark2 exec2 ev2 t l = Ok t' /\ SRel s' t'.
Proof.
  destruct l as [id k]. destruct s as [stk p], t as [stk2 q]. intros [Hs Hr]; cbn [sstk sp] in *. subst stk2.
  destruct k as [a|c|c| |]; cbn [sstep sstk sp].
  - destruct (live stk).
    + destruct (exec1 a (mark1 id p)) as [p'|e] eqn:E; [|discriminate]. intros H; inversion H; subst.
      destruct (Hexec a _ _ _ (Hmark id _ _ Hr) E) as (q' & -> & Hr'). eexists; split; [reflexivity|split; auto].
    + intros H; inversion H; subst. eexists; split; [reflexivity|split; auto].
  - destruct (live stk).
    + destruct (ev1 c (mark1 id p)) as [b|e] eqn:E; [|discriminate]. intros H; inversion H; subst.
      rewrite (Hev c _ _ _ (Hmark id _ _ Hr) E). eexists; split; [reflexivity|split; cbn; auto].
    + intros H; inversion H; subst. eexists; split; [reflexivity|split; cbn; auto].
  - destruct stk as [|f r]; [discriminate|]. destruct (outer f).
    + destruct (taken f).
      * intros H; inversion H; subst. eexists; split; [reflexivity|split; cbn; auto].
      * destruct (ev1 c (mark1 id p)) as [b|e] eqn:E; [|discriminate]. intros H; inversion H; subst.
        rewrite (Hev c _ _ _ (Hmark id _ _ Hr) E). eexists; split; [reflexivity|split; cbn; auto].
    + intros H; inversion H; subst. eexists; split; [reflexivity|split; cbn; auto].
  - destruct stk as [|f r]; [discriminate|]. destruct (outer f);
      intros H; inversion H; subst; eexists; (split; [reflexivity|split; cbn; auto]).
  - destruct stk as [|f r]; [discriminate|].
    intros H; inversion H; subst. eexists; split; [reflexivity|split; cbn; auto].
    destruct (outer f); auto.
Qed.

Lemma ssteps_sim ls : forall s t s',
  SRel s t -> ssteps ST1 ACT COND mark1 exec1 ev1 s ls = Ok s' ->
  exists t', ssteps ST2 ACT COND mark2 exec2 ev2 t ls = Ok t' /\ SRel s' t'.
Proof.
  induction ls as [|l ls IH]; intros s t s' HR H; cbn [ssteps] in *.
  - inversion H; subst. eauto.
  - destruct (sstep ST1 ACT COND mark1 exec1 ev1 s l) as [s1|e] eqn:E; [|discriminate].
    destruct (sstep_sim l s t s1 HR E) as (t1 & -> & HR1). apply (IH s1 t1 s' HR1 H).
Qed.

Lemma run_S_sim ls p q p' :
  Rel p q -> run_S ST1 ACT COND mark1 exec1 ev1 ls p = Ok p' ->
  exists q', run_S ST2 ACT COND mark2 exec2 ev2 ls q = Ok q' /\ Rel p' q'.
Proof.
  unfold run_S. intros HR H.
  destruct (ssteps ST1 ACT COND mark1 exec1 ev1 _ ls) as [s'|e] eqn:E; [|discriminate].
  inversion H; subst.
  assert (HS : SRel {| sstk := []; sp := p |} {| sstk := []; sp := q |}) by (split; [reflexivity|exact HR]).
  destruct (ssteps_sim ls _ _ s' HS E) as (t' & -> & _ & HR').
  eauto.
Qed.
End Sim.
