(* C10 — the code base only decides what is pre-parsed and what is counted:
   rows of the setmap are sums over member files, additive over a partition of
   the members; the attribution map does not depend on membership. *)
From Coq Require Import Bool Arith ZArith String List Lia.
From CBI Require Import Lib.Res Model.C01 Spec.C01 Model.C04 Spec.C04 Proofs.C01 Proofs.C04 Model.C08 Spec.C08 Proofs.C08 Model.C10.
Import ListNotations.
Local Open Scope list_scope.

Lemma key_eqb_eq a b : key_eqb a b = true <-> a = b.
Proof. unfold key_eqb. destruct (list_eq_dec string_dec a b); split; auto; discriminate. Qed.
Lemma key_eqb_refl a : key_eqb a a = true.
Proof. apply key_eqb_eq. reflexivity. Qed.

(* ---------- a row of the setmap is a sum ---------- *)
Lemma get_bump k k' w sm : get k (bump k' w sm) = (if key_eqb k k' then w else 0) + get k sm.
Proof.
  induction sm as [|[k2 c] r IH]; cbn [bump get].
  - destruct (key_eqb k k'); lia.
  - destruct (key_eqb k' k2) eqn:E2; cbn [get].
    + apply key_eqb_eq in E2. subst k2. destruct (key_eqb k k'); lia.
    + destruct (key_eqb k k2) eqn:E; [|exact IH].
      apply key_eqb_eq in E. subst k2. destruct (key_eqb k k') eqn:E3; [|lia].
      apply key_eqb_eq in E3. subst k'. rewrite key_eqb_refl in E2. discriminate.
Qed.

Section Rows.
Variable names : list pname.
Variable w : nodeid -> nat.
Variable am : amap.

Lemma get_setmap_file k f ls : forall sm,
  get k (setmap_file names w am f ls sm) = count_file names w am k f ls + get k sm.
Proof.
  unfold setmap_file. induction ls as [|l r IH]; intros sm; cbn [fold_left count_file fold_right]; [reflexivity|].
  rewrite IH, get_bump. fold (count_file names w am k f r).
  destruct (key_eqb k (plats_of names am (f, fst l))) eqn:E1, (key_eqb (plats_of names am (f, fst l)) k) eqn:E2; try lia.
  - apply key_eqb_eq in E1. subst k. rewrite key_eqb_refl in E2. discriminate.
  - apply key_eqb_eq in E2. subst k. rewrite key_eqb_refl in E1. discriminate.
Qed.

Lemma get_fold (member : path -> bool) k (fs : fsys) : forall sm,
  get k (fold_left (fun (s : setmap) (fl : path * list (C01.line C04.act C04.cond)) => if member (fst fl) then setmap_file names w am (fst fl) (snd fl) s else s) fs sm)
  = count names w am member k fs + get k sm.
Proof.
  induction fs as [|[f ls] r IH]; intros sm; cbn [fold_left count fold_right fst snd]; [reflexivity|].
  rewrite IH. fold (count names w am member k r). destruct (member f); [rewrite get_setmap_file; lia|lia].
Qed.

Theorem row_is_count member k fs : get k (setmap_M names w member am fs) = count names w am member k fs.
Proof. unfold setmap_M. rewrite get_fold. cbn [get]. lia. Qed.

Lemma count_split m1 m2 m3 k fs :
  (forall f, m1 f = m2 f || m3 f) -> (forall f, m2 f && m3 f = false) ->
  count names w am m1 k fs = count names w am m2 k fs + count names w am m3 k fs.
Proof.
  intros H1 H2. induction fs as [|[f ls] r IH]; cbn [count fold_right fst snd]; [reflexivity|].
  fold (count names w am m1 k r) (count names w am m2 k r) (count names w am m3 k r). rewrite IH, H1.
  specialize (H2 f). destruct (m2 f), (m3 f); cbn in *; try discriminate; lia.
Qed.

(* files that are not members may be removed from (or changed in) the file system without changing the setmap *)
Lemma setmap_filter member keep fs :
  (forall f, member f = true -> keep f = true) ->
  setmap_M names w member am fs = setmap_M names w member am (filter (fun fl => keep (fst fl)) fs).
Proof.
  intros H. unfold setmap_M. generalize (@nil (key * nat)).
  induction fs as [|[f ls] r IH]; intros sm; cbn [fold_left filter fst snd]; [reflexivity|].
  destruct (keep f) eqn:Ek; cbn [fold_left fst snd].
  - apply IH.
  - destruct (member f) eqn:Em; [rewrite (H f Em) in Ek; discriminate|]. apply IH.
Qed.

Lemma setmap_ext m1 m2 fs : (forall f, m1 f = m2 f) -> setmap_M names w m1 am fs = setmap_M names w m2 am fs.
Proof.
  intros H. unfold setmap_M. generalize (@nil (key * nat)).
  induction fs as [|[f ls] r IH]; intros sm; cbn [fold_left fst snd]; [reflexivity|]. rewrite H. apply IH.
Qed.
End Rows.

(* ---------- membership ---------- *)
Lemma member_under root pats f : member_of root pats f = true -> is_prefix root f = true.
Proof. unfold member_of, is_prefix. destruct (strip_prefix root f) as [[|a r]|]; auto; discriminate. Qed.

Lemma member_app root a b f :
  member_of root (a ++ b) f = member_of root a f && member_of root (a ++ b) f.
Proof.
  unfold member_of. destruct (strip_prefix root f) as [[|c r]|]; try reflexivity.
  rewrite existsb_app. destruct (existsb (fun pt => matches pt (c :: r)) a); reflexivity.
Qed.
Lemma effective_app {A} (xs ts : list A) : effective xs ts = xs ++ ts.
Proof. reflexivity. Qed.
Lemma member_comm root a b f : member_of root (a ++ b) f = member_of root (b ++ a) f.
Proof.
  unfold member_of. destruct (strip_prefix root f) as [[|c r]|]; try reflexivity.
  rewrite !existsb_app, orb_comm. reflexivity.
Qed.

(* ---------- the attribution does not depend on the code base ---------- *)
Lemma preparse_ext fs m1 m2 cfg : (forall f, m1 f = m2 f) -> preparse fs m1 cfg = preparse fs m2 cfg.
Proof.
  intros H. unfold preparse. f_equal.
  replace (forallb (fun fl => negb (m1 (fst fl) || is_compiled cfg (fst fl)) || parses (snd fl)) fs)
    with (forallb (fun fl => negb (m2 (fst fl) || is_compiled cfg (fst fl)) || parses (snd fl)) fs); [reflexivity|].
  induction fs as [|fl r IH]; cbn [forallb]; [reflexivity|]. rewrite IH, H. reflexivity.
Qed.

Theorem assoc_independent fs fuel cfg m1 m2 am1 am2 :
  find_cb fs fuel m1 cfg = Ok am1 -> find_cb fs fuel m2 cfg = Ok am2 -> am1 = am2.
Proof.
  intros H1 H2. apply find_cb_ok in H1, H2. destruct H1 as [_ H1], H2 as [_ H2]. congruence.
Qed.
Theorem assoc_independent_wf fs fuel cfg m1 m2 :
  fs_wf fs -> find_cb fs fuel m1 cfg = find_cb fs fuel m2 cfg.
Proof. intros H. unfold find_cb. rewrite !(preparse_wf fs _ cfg H). reflexivity. Qed.

(* ---------- adding exclude patterns ---------- *)
Theorem setmap_filter_rows fs fuel root xs ts more w cfg am sm am' sm' :
  analyse fs fuel root xs ts w cfg = Ok (am, sm) ->
  analyse fs fuel root xs (ts ++ more) w cfg = Ok (am', sm') ->
  am' = am /\
  forall k, get k sm = get k sm' +
    count (names_of cfg) w am
      (fun f => member_of root (effective xs ts) f && negb (member_of root (effective xs (ts ++ more)) f)) k fs.
Proof.
  unfold analyse, analyse_cli, analyse_m. intros H1 H2.
  destruct (find_cb fs fuel (member_of root (effective xs ts)) cfg) as [a1|] eqn:E1; [|discriminate].
  destruct (find_cb fs fuel (member_of root (effective xs (ts ++ more))) cfg) as [a2|] eqn:E2; [|discriminate].
  inversion H1; subst am sm. inversion H2; subst am' sm'.
  pose proof (assoc_independent _ _ _ _ _ _ _ E1 E2) as ->. split; [reflexivity|].
  intros k. rewrite !row_is_count. apply count_split.
  - intros f. rewrite (effective_app xs ts), (effective_app xs (ts ++ more)). rewrite app_assoc. rewrite (member_app root (xs ++ ts) more f).
    destruct (member_of root (xs ++ ts) f), (member_of root ((xs ++ ts) ++ more) f); reflexivity.
  - intros f. destruct (member_of root (effective xs (ts ++ more)) f), (member_of root (effective xs ts) f); reflexivity.
Qed.

Theorem exclusion_total fs fuel root xs ts more w cfg am sm :
  fs_wf fs -> analyse fs fuel root xs ts w cfg = Ok (am, sm) ->
  exists sm', analyse fs fuel root xs (ts ++ more) w cfg = Ok (am, sm').
Proof.
  unfold analyse, analyse_cli, analyse_m. intros Hwf H.
  rewrite (assoc_independent_wf fs fuel cfg (member_of root (effective xs (ts ++ more))) (member_of root (effective xs ts)) Hwf).
  destruct (find_cb fs fuel (member_of root (effective xs ts)) cfg) as [a1|]; [|discriminate].
  inversion H; subst. eauto.
Qed.

(* ---------- files outside the root ---------- *)
Theorem outside_root fs root pats names w am :
  setmap_M names w (member_of root pats) am fs =
  setmap_M names w (member_of root pats) am (filter (fun fl => is_prefix root (fst fl)) fs).
Proof. apply setmap_filter. intros f. apply member_under. Qed.

(* ---------- -x and [codebase] exclude ---------- *)
Lemma analyse_ext fs fuel root xs ts xs' ts' w cfg :
  (forall f, member_of root (effective xs ts) f = member_of root (effective xs' ts') f) ->
  analyse fs fuel root xs ts w cfg = analyse fs fuel root xs' ts' w cfg.
Proof.
  intros H. unfold analyse, analyse_cli, analyse_m, find_cb. rewrite (preparse_ext fs _ _ cfg H).
  destruct (preparse fs (member_of root (effective xs' ts')) cfg) as [[]|]; [|reflexivity].
  destruct (find_M fs fuel cfg) as [am|]; [|reflexivity]. rewrite (setmap_ext _ _ _ _ _ fs H). reflexivity.
Qed.

Theorem x_equals_toml fs fuel root xs ts w cfg :
  analyse fs fuel root xs ts w cfg = analyse fs fuel root [] (xs ++ ts) w cfg /\
  analyse fs fuel root xs ts w cfg = analyse fs fuel root (xs ++ ts) [] w cfg /\
  analyse fs fuel root xs ts w cfg = analyse fs fuel root ts xs w cfg.
Proof.
  split; [|split]; apply analyse_ext; intros f.
  - reflexivity.
  - rewrite (effective_app xs ts), (effective_app (xs ++ ts) []), app_nil_r. reflexivity.
  - rewrite (effective_app xs ts), (effective_app ts xs). apply member_comm.
Qed.

(* ---------- the keys of the setmap are the specification's platform sets ---------- *)
Lemma dedup_In x l : In x (dedup l) <-> In x l.
Proof.
  induction l as [|y r IH]; cbn [dedup]; [reflexivity|].
  destruct (existsb (String.eqb y) r) eqn:E.
  - rewrite IH. split; [cbn; auto|]. intros [<-|H]; [|exact H].
    apply existsb_exists in E. destruct E as (z & Hz & Ez). apply String.eqb_eq in Ez. subst z. exact Hz.
  - cbn [In]. rewrite IH. reflexivity.
Qed.
Lemma plats_of_In names am x n : In n (plats_of names am x) <-> In n names /\ In (n, x) am.
Proof. unfold plats_of. rewrite filter_In, mem_triple_In. reflexivity. Qed.

Theorem keys_are_spec fs fuel root xs ts w cfg :
  fs_wf fs -> accepted_S fs fuel cfg ->
  exists am sm, analyse fs fuel root xs ts w cfg = Ok (am, sm) /\
    (forall n x, In n (plats_of (names_of cfg) am x) <-> uses_S fs fuel cfg n x) /\
    (forall k, get k sm = count (names_of cfg) w am (member_of root (effective xs ts)) k fs).
Proof.
  intros Hwf Hacc. destruct (union_S_cb fs fuel (member_of root (effective xs ts)) cfg Hwf Hacc) as (am & E & Hin).
  exists am, (setmap_M (names_of cfg) w (member_of root (effective xs ts)) am fs).
  split; [unfold analyse, analyse_cli, analyse_m; rewrite E; reflexivity|]. split; [|intros k; apply row_is_count].
  intros n x. rewrite plats_of_In, Hin. split; [tauto|]. intros H. split; [|exact H].
  destruct H as (es & e & r & Hn & _). unfold names_of. apply dedup_In. apply in_map_iff. exists (n, es). auto.
Qed.

(* ====================================================================== *)
(* The same theorems for an ARBITRARY matcher.  [PATS] is any type of pattern
   lists / code-base descriptions and [member pats f] is `f in CodeBase(..., pats)`.
   No hypothesis on [member] is needed except where stated:
   - monotonicity only for the one-sided form of the row equation,
   - locality ("members lie under [keep]") only for the outside-root statement. *)
Section AnyMatcher.
Variable PATS : Type.
Variable member : PATS -> path -> bool.

Theorem g_assoc_independent fs fuel w cfg p1 p2 am1 sm1 am2 sm2 :
  analyse_m (member p1) fs fuel w cfg = Ok (am1, sm1) ->
  analyse_m (member p2) fs fuel w cfg = Ok (am2, sm2) -> am1 = am2.
Proof.
  unfold analyse_m. intros H1 H2.
  destruct (find_cb fs fuel (member p1) cfg) as [a1|] eqn:E1; [|discriminate].
  destruct (find_cb fs fuel (member p2) cfg) as [a2|] eqn:E2; [|discriminate].
  inversion H1; inversion H2; subst. eapply assoc_independent; eauto.
Qed.

Theorem g_total fs fuel w cfg p1 p2 am sm :
  fs_wf fs -> analyse_m (member p1) fs fuel w cfg = Ok (am, sm) ->
  exists sm', analyse_m (member p2) fs fuel w cfg = Ok (am, sm').
Proof.
  unfold analyse_m. intros Hwf H. rewrite (assoc_independent_wf fs fuel cfg (member p2) (member p1) Hwf).
  destruct (find_cb fs fuel (member p1) cfg) as [a1|]; [|discriminate]. inversion H; subst. eauto.
Qed.

Theorem g_rows fs fuel w cfg p am sm :
  analyse_m (member p) fs fuel w cfg = Ok (am, sm) ->
  forall k, get k sm = count (names_of cfg) w am (member p) k fs.
Proof.
  unfold analyse_m. intros H k. destruct (find_cb fs fuel (member p) cfg); [|discriminate].
  inversion H; subst. apply row_is_count.
Qed.

(* rows change exactly by the lines of the files whose membership changed, in both directions *)
Theorem g_setmap_change fs fuel w cfg p1 p2 am sm1 sm2 :
  analyse_m (member p1) fs fuel w cfg = Ok (am, sm1) ->
  analyse_m (member p2) fs fuel w cfg = Ok (am, sm2) ->
  forall k,
    get k sm1 + count (names_of cfg) w am (fun f => member p2 f && negb (member p1 f)) k fs =
    get k sm2 + count (names_of cfg) w am (fun f => member p1 f && negb (member p2 f)) k fs.
Proof.
  intros H1 H2 k. rewrite (g_rows _ _ _ _ _ _ _ H1 k), (g_rows _ _ _ _ _ _ _ H2 k).
  rewrite (count_split (names_of cfg) w am (member p1) (fun f => member p1 f && member p2 f)
             (fun f => member p1 f && negb (member p2 f)) k fs).
  - rewrite (count_split (names_of cfg) w am (member p2) (fun f => member p1 f && member p2 f)
               (fun f => member p2 f && negb (member p1 f)) k fs).
    + lia.
    + intros f. destruct (member p1 f), (member p2 f); reflexivity.
    + intros f. destruct (member p1 f), (member p2 f); reflexivity.
  - intros f. destruct (member p1 f), (member p2 f); reflexivity.
  - intros f. destruct (member p1 f), (member p2 f); reflexivity.
Qed.

(* with a matcher that is monotone between the two lists (more patterns, fewer members):
   the new rows are the old ones minus the newly excluded files *)
Theorem g_setmap_filter fs fuel w cfg p1 p2 am sm1 sm2 :
  (forall f, member p2 f = true -> member p1 f = true) ->
  analyse_m (member p1) fs fuel w cfg = Ok (am, sm1) ->
  analyse_m (member p2) fs fuel w cfg = Ok (am, sm2) ->
  forall k, get k sm1 = get k sm2 +
    count (names_of cfg) w am (fun f => member p1 f && negb (member p2 f)) k fs.
Proof.
  intros Hmono H1 H2 k. pose proof (g_setmap_change _ _ _ _ _ _ _ _ _ H1 H2 k) as H.
  replace (count (names_of cfg) w am (fun f => member p2 f && negb (member p1 f)) k fs) with 0 in H; [lia|].
  symmetry. clear H H1 H2. induction fs as [|[f ls] r IH]; cbn [count fold_right fst snd]; [reflexivity|].
  fold (count (names_of cfg) w am (fun f => member p2 f && negb (member p1 f)) k r). rewrite IH.
  destruct (member p2 f) eqn:E2; [rewrite (Hmono f E2)|]; reflexivity.
Qed.

Theorem g_keys_are_spec fs fuel w cfg p :
  fs_wf fs -> accepted_S fs fuel cfg ->
  exists am sm, analyse_m (member p) fs fuel w cfg = Ok (am, sm) /\
    (forall n x, In n (plats_of (names_of cfg) am x) <-> uses_S fs fuel cfg n x) /\
    (forall k, get k sm = count (names_of cfg) w am (member p) k fs).
Proof.
  intros Hwf Hacc. destruct (union_S_cb fs fuel (member p) cfg Hwf Hacc) as (am & E & Hin).
  exists am, (setmap_M (names_of cfg) w (member p) am fs).
  split; [unfold analyse_m; rewrite E; reflexivity|]. split; [|intros k; apply row_is_count].
  intros n x. rewrite plats_of_In, Hin. split; [tauto|]. intros H. split; [|exact H].
  destruct H as (es & e & r & Hn & _). unfold names_of. apply dedup_In. apply in_map_iff. exists (n, es). auto.
Qed.

(* files that cannot be members (e.g. outside the root) contribute nothing *)
Theorem g_outside fs names w am p (keep : path -> bool) :
  (forall f, member p f = true -> keep f = true) ->
  setmap_M names w (member p) am fs = setmap_M names w (member p) am (filter (fun fl => keep (fst fl)) fs).
Proof. apply setmap_filter. Qed.
End AnyMatcher.

(* -x and the analysis file, at the level of the concatenated list, for any matcher of lists *)
Theorem g_x_equals_toml {X} (member : list X -> path -> bool) fs fuel (xs ts : list X) w cfg :
  analyse_cli member fs fuel xs ts w cfg = analyse_m (member (xs ++ ts)) fs fuel w cfg /\
  analyse_cli member fs fuel xs ts w cfg = analyse_cli member fs fuel [] (xs ++ ts) w cfg /\
  analyse_cli member fs fuel xs ts w cfg = analyse_cli member fs fuel (xs ++ ts) [] w cfg.
Proof.
  unfold analyse_cli. rewrite (effective_app xs ts), (effective_app [] (xs ++ ts)), (effective_app (xs ++ ts) []), app_nil_r.
  repeat split; reflexivity.
Qed.
