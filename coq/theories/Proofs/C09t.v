(* C09 — from pattern TEXT to abstract patterns, for literal names: the forms
   "/name", "name", "name/" and "!name" are read (by pathspec and by git alike) as the
   anchored, unanchored, directory-only and negated patterns the matcher laws speak of. *)
From Coq Require Import Bool Arith Ascii String List Lia.
From CBI Require Import Lib.Res Lib.Data Lib.C09_glob Model.C09 Spec.C09 Proofs.C09p Proofs.C09.
Import ListNotations.
Local Open Scope char_scope.

Lemma class_plain_facts c : class_plain c = true ->
  is_bslash c = false /\ is_star c = false /\ Ascii.eqb c "?" = false /\ Ascii.eqb c "[" = false /\
  is_slash c = false /\ is_space c = false /\ printable c = true /\ Ascii.eqb c "#" = false /\ Ascii.eqb c "!" = false.
Proof.
  destruct c as [[] [] [] [] [] [] [] []]; vm_compute; intros H; try discriminate H; repeat split.
Qed.

Lemma list_of_string_of_list l : list_of_string (string_of_list l) = l.
Proof. induction l as [|c l IH]; [reflexivity|]. cbn. rewrite IH. reflexivity. Qed.

Lemma split_on_noslash n : forallb class_plain n = true -> split_on is_slash n = [n].
Proof.
  induction n as [|c n IH]; [reflexivity|]. cbn [forallb split_on]. intros H. apply andb_true_iff in H.
  destruct H as (Hc & Hn). rewrite (IH Hn). destruct (class_plain_facts c Hc) as (_ & _ & _ & _ & -> & _). reflexivity.
Qed.

Lemma lex_seg_plain n : forallb class_plain n = true ->
  forall fuel, length n < fuel -> lex_seg fuel n = LOk (map GLit n).
Proof.
  induction n as [|c n IH]; intros H fuel Hf; (destruct fuel as [|f]; [cbn in Hf; lia|]); [reflexivity|].
  cbn [forallb] in H. apply andb_true_iff in H. destruct H as (Hc & Hn).
  destruct (class_plain_facts c Hc) as (E1 & E2 & E3 & E4 & _).
  cbn [lex_seg]. rewrite E1, E2, E3, E4. rewrite (IH Hn f) by (cbn in Hf; lia). reflexivity.
Qed.

Lemma has_2stars_plain n : forallb class_plain n = true -> has_2stars n = false.
Proof.
  induction n as [|c n IH]; [reflexivity|]. cbn [forallb]. intros H. apply andb_true_iff in H. destruct H as (Hc & Hn).
  cbn [has_2stars]. destruct n as [|d n']; [reflexivity|].
  destruct (class_plain_facts c Hc) as (_ & -> & _). cbn [andb orb]. apply IH, Hn.
Qed.

Lemma read_seg_plain n : n <> [] -> forallb class_plain n = true -> read_seg n = SOk (SGlob (map GLit n)).
Proof.
  intros Hne H. unfold read_seg. rewrite (has_2stars_plain n H).
  assert (forallb is_star n = false) as ->.
  { destruct n as [|c n]; [contradiction|]. cbn in H |- *. apply andb_true_iff in H.
    destruct (class_plain_facts c (proj1 H)) as (_ & -> & _). reflexivity. }
  cbn [andb]. rewrite (lex_seg_plain n H) by lia. reflexivity.
Qed.

Lemma gmatch_lits n c : gmatch (map GLit n) c = true <-> c = n.
Proof.
  revert c. induction n as [|x n IH]; intros [|y c]; cbn; split; try discriminate; try reflexivity.
  - intros H. apply andb_true_iff in H. destruct H as (Hx & Hr). apply Ascii.eqb_eq in Hx. apply IH in Hr. congruence.
  - intros [= -> ->]. rewrite Ascii.eqb_refl. apply IH. reflexivity.
Qed.

Definition mkpat (ng dir : bool) (ss : list seg) : apat := {| p_neg := ng; p_dir := dir; p_tail := false; p_segs := ss |}.

Lemma parse_body_anchored g ng n : n <> [] -> forallb class_plain n = true ->
  parse_body g ng ("/" :: n) = PPat (mkpat ng false [SGlob (map GLit n)]).
Proof.
  intros Hne H. unfold parse_body. cbn [split_on]. rewrite (split_on_noslash n H).
  change (is_slash "/") with true. cbn [tl rev app removelast].
  destruct n as [|c n']; [contradiction|]. cbn [read_segs].
  rewrite (read_seg_plain (c :: n') Hne H). reflexivity.
Qed.

Lemma parse_body_unanchored g ng n : n <> [] -> forallb class_plain n = true ->
  parse_body g ng n = PPat (mkpat ng false [SDStar; SGlob (map GLit n)]).
Proof.
  intros Hne H. unfold parse_body. rewrite (split_on_noslash n H).
  destruct n as [|c n']; [contradiction|]. cbn [tl rev app removelast read_segs].
  rewrite (read_seg_plain (c :: n') Hne H). reflexivity.
Qed.

Lemma split_on_trailing n : forallb class_plain n = true -> split_on is_slash (n ++ ["/"]) = [n; []].
Proof.
  induction n as [|c n IH]; [reflexivity|]. cbn [forallb app split_on]. intros H. apply andb_true_iff in H.
  destruct H as (Hc & Hn). rewrite (IH Hn). destruct (class_plain_facts c Hc) as (_ & _ & _ & _ & -> & _). reflexivity.
Qed.

Lemma parse_body_dironly g ng n : n <> [] -> forallb class_plain n = true ->
  parse_body g ng (n ++ ["/"]) = PPat (mkpat ng true [SDStar; SGlob (map GLit n)]).
Proof.
  intros Hne H. unfold parse_body. rewrite (split_on_trailing n H).
  destruct n as [|c n']; [contradiction|]. cbn [tl rev app removelast read_segs].
  rewrite (read_seg_plain (c :: n') Hne H). reflexivity.
Qed.

Lemma strip_nospace s : forallb (fun c => negb (is_space c)) s = true -> strip_trailing s = Some s.
Proof.
  intros H. unfold strip_trailing.
  assert (count_while is_space (rev s) = 0) as ->; [|reflexivity].
  destruct (rev s) as [|c r] eqn:E; [reflexivity|]. cbn.
  rewrite forallb_forall in H. assert (In c s) as Hin by (apply in_rev; rewrite E; left; reflexivity).
  specialize (H c Hin). apply negb_true_iff in H. rewrite H. reflexivity.
Qed.

Lemma plain_nospace n : forallb class_plain n = true -> forallb (fun c => negb (is_space c)) n = true.
Proof.
  intros H. rewrite forallb_forall in *. intros c Hc. destruct (class_plain_facts c (H c Hc)) as (_ & _ & _ & _ & _ & -> & _). reflexivity.
Qed.
Lemma plain_printable n : forallb class_plain n = true -> forallb printable n = true.
Proof.
  intros H. rewrite forallb_forall in *. intros c Hc. destruct (class_plain_facts c (H c Hc)) as (_ & _ & _ & _ & _ & _ & -> & _). reflexivity.
Qed.

Lemma parse_unfold g c1 rest1 :
  forallb printable (c1 :: rest1) = true ->
  forallb (fun c => negb (is_space c)) (c1 :: rest1) = true ->
  parse g (string_of_list (c1 :: rest1)) =
    if Ascii.eqb c1 "#" then PNone
    else if is_slash c1 && match rest1 with [] => true | _ => false end then PNone
    else if Ascii.eqb c1 "!"
         then match rest1 with [] => (if g then PNone else PErr) | _ => parse_body g true rest1 end
         else parse_body g false (c1 :: rest1).
Proof.
  intros Hp Hs. unfold parse. rewrite list_of_string_of_list, Hp. cbn [negb].
  pose proof Hs as Hs'. cbn [forallb] in Hs'. apply andb_true_iff in Hs'. destruct Hs' as (Hc & _).
  apply negb_true_iff in Hc. rewrite Hc. rewrite (strip_nospace _ Hs). reflexivity.
Qed.

Theorem text_patterns g n : n <> [] -> forallb class_plain n = true ->
  parse g (string_of_list ("/" :: n)) = PPat (mkpat false false [SGlob (map GLit n)]) /\
  parse g (string_of_list n) = PPat (mkpat false false [SDStar; SGlob (map GLit n)]) /\
  parse g (string_of_list (n ++ ["/"])) = PPat (mkpat false true [SDStar; SGlob (map GLit n)]) /\
  parse g (string_of_list ("!" :: n)) = PPat (mkpat true false [SDStar; SGlob (map GLit n)]).
Proof.
  intros Hne H. pose proof (plain_nospace n H) as Hs. pose proof (plain_printable n H) as Hp.
  destruct n as [|c n']; [contradiction|].
  pose proof H as H'. cbn [forallb] in H'. apply andb_true_iff in H'. destruct H' as (Hc & _).
  destruct (class_plain_facts c Hc) as (_ & _ & _ & _ & Esl & Esp & _ & Eh & Eb).
  repeat split.
  - rewrite parse_unfold.
    + change (Ascii.eqb "/" "#") with false. change (is_slash "/") with true.
      change (Ascii.eqb "/" "!") with false. cbn [andb]. cbv iota. apply parse_body_anchored; assumption.
    + change (forallb printable ("/" :: c :: n')) with (printable "/" && forallb printable (c :: n')).
      rewrite Hp. reflexivity.
    + change (forallb (fun c0 => negb (is_space c0)) ("/" :: c :: n'))
        with (negb (is_space "/") && forallb (fun c0 => negb (is_space c0)) (c :: n')).
      rewrite Hs. reflexivity.
  - rewrite (parse_unfold g c n' Hp Hs). rewrite Eh, Esl, Eb. cbn [andb]. apply parse_body_unanchored; assumption.
  - assert (forallb printable ((c :: n') ++ ["/"]) = true) as Hp2
      by (rewrite forallb_app, Hp; reflexivity).
    assert (forallb (fun c => negb (is_space c)) ((c :: n') ++ ["/"]) = true) as Hs2
      by (rewrite forallb_app, Hs; reflexivity).
    change ((c :: n') ++ ["/"]) with (c :: (n' ++ ["/"])) in Hp2, Hs2 |- *.
    rewrite (parse_unfold g c (n' ++ ["/"]) Hp2 Hs2). rewrite Eh, Esl, Eb. cbn [andb].
    apply (parse_body_dironly g false (c :: n')); assumption.
  - rewrite parse_unfold.
    + change (Ascii.eqb "!" "#") with false. change (is_slash "!") with false.
      change (Ascii.eqb "!" "!") with true. cbn [andb]. cbv iota. apply parse_body_unanchored; assumption.
    + change (forallb printable ("!" :: c :: n')) with (printable "!" && forallb printable (c :: n')).
      rewrite Hp. reflexivity.
    + change (forallb (fun c0 => negb (is_space c0)) ("!" :: c :: n'))
        with (negb (is_space "!") && forallb (fun c0 => negb (is_space c0)) (c :: n')).
      rewrite Hs. reflexivity.
Qed.

(* the laws, read on text: "/name" hits exactly the root entry name, "name" hits any
   path whose last component is name, "name/" hits such directories only *)
Theorem text_anchoring g n p1 p2 p3 : n <> [] -> forallb class_plain n = true ->
  parse g (string_of_list ("/" :: n)) = PPat p1 /\
  parse g (string_of_list n) = PPat p2 /\
  parse g (string_of_list (n ++ ["/"])) = PPat p3 ->
  forall cs isdir,
    (pat_hits isdir cs p1 = true <-> cs = [n]) /\
    (pat_hits isdir cs p2 = true <-> exists pre, cs = pre ++ [n]) /\
    (pat_hits isdir cs p3 = true <-> isdir = true /\ exists pre, cs = pre ++ [n]).
Proof.
  intros Hne H (E1 & E2 & E3) cs isdir.
  destruct (text_patterns g n Hne H) as (T1 & T2 & T3 & _).
  rewrite T1 in E1. rewrite T2 in E2. rewrite T3 in E3.
  injection E1 as <-. injection E2 as <-. injection E3 as <-.
  unfold pat_hits, pat_segs, mkpat. cbn [p_dir p_tail p_segs implb andb].
  split; [|split].
  - rewrite anchored_only_at_root. split.
    + intros (c & -> & Hg). apply gmatch_lits in Hg. subst. reflexivity.
    + intros ->. exists n. split; [reflexivity|]. apply gmatch_lits. reflexivity.
  - rewrite unanchored_any_depth. split.
    + intros (pre & c & -> & Hg). apply gmatch_lits in Hg. subst. exists pre. reflexivity.
    + intros (pre & ->). exists pre, n. split; [reflexivity|]. apply gmatch_lits. reflexivity.
  - destruct isdir; cbn [andb].
    + rewrite unanchored_any_depth. split.
      * intros (pre & c & -> & Hg). apply gmatch_lits in Hg. subst. split; [reflexivity|]. exists pre. reflexivity.
      * intros (_ & pre & ->). exists pre, n. split; [reflexivity|]. apply gmatch_lits. reflexivity.
    + split; [discriminate|]. intros (Hf & _). discriminate.
Qed.
