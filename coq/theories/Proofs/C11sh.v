(* shlex: split (join argv) = argv for every list of words over all 256 byte values. *)
From Coq Require Import Ascii String Bool Arith List.
From CBI Require Import Lib.Data Model.C11sh.
Import ListNotations.

(* a safe character is neither white space, nor a quote, nor the escape character *)
Lemma safe_char_plain c :
  safe_char c = true ->
  is_ws c = false /\ Ascii.eqb c c_sq = false /\ Ascii.eqb c c_dq = false /\ Ascii.eqb c c_bs = false.
Proof.
  destruct c as [[] [] [] [] [] [] [] []]; vm_compute; intros H; try discriminate H; repeat split.
Qed.

(* unquoted safe text is appended to the current token *)
Lemma lex_safe w : forall tok q s,
  forallb safe_char w = true -> lex LW tok q (w ++ s) = lex LW (tok ++ w) q s.
Proof.
  induction w as [|c w IH]; intros tok q s H; cbn [app].
  - now rewrite app_nil_r.
  - cbn [forallb] in H. apply andb_prop in H. destruct H as [Hc Hw].
    destruct (safe_char_plain c Hc) as (H1 & H2 & H3 & H4).
    cbn [lex]. rewrite H1, H2, H3, H4. rewrite IH by assumption.
    now rewrite <- app_assoc.
Qed.

(* inside single quotes the escaped text is appended literally *)
Lemma lex_esc_sq w : forall tok s,
  lex LQ1 tok true (esc_sq w ++ s) = lex LQ1 (tok ++ w) true s.
Proof.
  induction w as [|c w IH]; intros tok s; cbn [esc_sq app].
  - now rewrite app_nil_r.
  - destruct (Ascii.eqb c c_sq) eqn:E.
    + apply Ascii.eqb_eq in E. subst c.
      cbn [app]. cbn [lex].
      change (Ascii.eqb c_sq c_sq) with true. change (Ascii.eqb c_dq c_sq) with false.
      change (is_ws c_dq) with false. change (Ascii.eqb c_dq c_dq) with true.
      change (Ascii.eqb c_sq c_dq) with false. change (Ascii.eqb c_sq c_bs) with false.
      change (is_ws c_sq) with false.
      cbn iota. rewrite IH. now rewrite <- app_assoc.
    + cbn [app lex]. rewrite E. rewrite IH. now rewrite <- app_assoc.
Qed.

Definition nonempty (w : word) : bool := match w with [] => false | _ => true end.

(* one quoted word followed by the rest of the command *)
Lemma lex_quote_then w s :
  lex LSp [] false (quote w ++ c_sp :: s) = emit w true (lex LSp [] false s)
  \/ (nonempty w = true /\ lex LSp [] false (quote w ++ c_sp :: s) = emit w false (lex LSp [] false s)).
Proof.
  unfold quote. destruct w as [|c w].
  - left. reflexivity.
  - destruct (forallb safe_char (c :: w)) eqn:F.
    + right. split; [reflexivity|].
      pose proof F as F'. cbn [forallb] in F'. apply andb_prop in F'. destruct F' as [Hc Hw].
      destruct (safe_char_plain c Hc) as (H1 & H2 & H3 & H4).
      cbn [app lex]. rewrite H1, H2, H3, H4.
      rewrite lex_safe by assumption. cbn [lex app].
      change (is_ws c_sp) with true. cbn iota. reflexivity.
    + left. cbn [app lex].
      change (is_ws c_sq) with false. change (Ascii.eqb c_sq c_bs) with false.
      change (Ascii.eqb c_sq c_sq) with true. cbn iota.
      rewrite <- app_assoc. rewrite lex_esc_sq. cbn [app lex].
      change (Ascii.eqb c_sq c_sq) with true. change (is_ws c_sp) with true. cbn iota. reflexivity.
Qed.

Lemma lex_quote_end w : lex LSp [] false (quote w) = inr [w].
Proof.
  unfold quote. destruct w as [|c w].
  - reflexivity.
  - destruct (forallb safe_char (c :: w)) eqn:F.
    + pose proof F as F'. cbn [forallb] in F'. apply andb_prop in F'. destruct F' as [Hc Hw].
      destruct (safe_char_plain c Hc) as (H1 & H2 & H3 & H4).
      cbn [lex]. rewrite H1, H2, H3, H4.
      rewrite <- (app_nil_r w) at 1. rewrite lex_safe by assumption. reflexivity.
    + cbn [lex].
      change (is_ws c_sq) with false. change (Ascii.eqb c_sq c_bs) with false.
      change (Ascii.eqb c_sq c_sq) with true. cbn iota.
      rewrite lex_esc_sq. cbn [app lex].
      change (Ascii.eqb c_sq c_sq) with true. cbn iota. reflexivity.
Qed.

Lemma emit_cons w q l : (q = true \/ nonempty w = true) -> emit w q (inr l) = inr (w :: l).
Proof. intros [H|H]; subst; destruct w; try discriminate; try reflexivity; destruct q; reflexivity. Qed.

Theorem split_join : forall ws : list word, split (join ws) = inr ws.
Proof.
  unfold split. induction ws as [|w ws IH]; [reflexivity|].
  destruct ws as [|w' ws'].
  - cbn [join]. apply lex_quote_end.
  - change (join (w :: w' :: ws')) with (quote w ++ c_sp :: join (w' :: ws')).
    destruct (lex_quote_then w (join (w' :: ws'))) as [H|[Hn H]]; rewrite H, IH.
    + apply emit_cons. now left.
    + apply emit_cons. now right.
Qed.

(* ---------- string level ---------- *)
Lemma list_of_string_of_list l : list_of_string (string_of_list l) = l.
Proof. induction l; cbn; congruence. Qed.
Lemma string_of_list_of_string s : string_of_list (list_of_string s) = s.
Proof. induction s; cbn; congruence. Qed.

Theorem split_quote_join : forall argv : list string, split_string (quote_join argv) = inr argv.
Proof.
  intros argv. unfold split_string, quote_join.
  rewrite list_of_string_of_list, split_join, map_map.
  f_equal. rewrite <- (map_id argv) at 2. apply map_ext. intros; apply string_of_list_of_string.
Qed.
