(* C15 — the files that are counted are exactly the members of the tree with
   every link removed, in the same order; each is enumerated once. *)
From Coq Require Import Bool Arith String List Lia.
From CBI Require Import Lib.Res Model.C04 Model.C15fs Proofs.C15fs.
Import ListNotations.
Local Open Scope string_scope.
Local Open Scope list_scope.

Definition rl_list (ks : list (string * fnode)) : list (string * fnode) :=
  flat_map (fun x => match snd x with Link _ _ => [] | k => [(fst x, remove_links k)] end) ks.
Lemma remove_links_dir kids : remove_links (Dir kids) = Dir (rl_list kids).
Proof.
  unfold rl_list. cbn. f_equal. induction kids as [|[nm k] r IH]; [reflexivity|].
  destruct k; cbn; rewrite IH; reflexivity.
Qed.

Definition is_link (n : fnode) : bool := match n with Link _ _ => true | _ => false end.
Lemma is_link_rl n : is_link n = false -> is_link (remove_links n) = false.
Proof. destruct n; cbn; auto. Qed.

Lemma kid_rl_absent c ks : ~ In c (map fst ks) -> kid c (rl_list ks) = None.
Proof.
  induction ks as [|[n0 k0] r IH]; [reflexivity|]. cbn. intros H.
  assert (Hr : kid c (rl_list r) = None) by (apply IH; tauto).
  assert (Hn : String.eqb n0 c = false) by (apply String.eqb_neq; tauto).
  unfold rl_list in *. cbn. destruct k0; cbn; rewrite ?Hn; exact Hr.
Qed.

Lemma kid_rl c ks : NoDup (map fst ks) ->
  kid c (rl_list ks) = match kid c ks with
                       | Some k => if is_link k then None else Some (remove_links k)
                       | None => None
                       end.
Proof.
  induction ks as [|[n0 k0] r IH]; [reflexivity|]. cbn [map fst]. intros Hnd. inversion Hnd; subst.
  cbn [kid]. destruct (String.eqb n0 c) eqn:E.
  - apply String.eqb_eq in E. subst.
    destruct k0; unfold rl_list; cbn; rewrite ?String.eqb_refl; try reflexivity.
    apply kid_rl_absent. assumption.
  - rewrite <- IH by assumption. unfold rl_list. cbn. destruct k0; cbn; rewrite ?E; reflexivity.
Qed.

Lemma node_at_rl p : forall m, wf m ->
  node_at (remove_links m) p =
  match node_at m p with
  | Some n => if is_link n && negb (match p with [] => true | _ => false end) then None else Some (remove_links n)
  | None => None
  end.
Proof.
  induction p as [|c r IH]; intros m Hwf.
  - cbn. rewrite andb_false_r. reflexivity.
  - destruct m as [k|kids|a t]; try reflexivity.
    rewrite remove_links_dir. cbn [node_at]. inversion Hwf as [| |kids' Hnd Hall]; subst.
    rewrite kid_rl by assumption. destruct (kid c kids) as [k|] eqn:Ek; [|reflexivity].
    assert (Hwk : wf k) by (eapply kid_wf; eauto).
    destruct (is_link k) eqn:El.
    + destruct k; try discriminate. destruct r; reflexivity.
    + rewrite IH by assumption. destruct (node_at k r) as [n|] eqn:En; [|reflexivity].
      cbn [negb andb]. rewrite andb_true_r. destruct r as [|c' r'].
      * cbn in En. inversion En; subst. rewrite El. reflexivity.
      * rewrite andb_true_r. reflexivity.
Qed.

Lemma walk_nonempty n : forall here p, In p (walk n here) -> p <> [].
Proof.
  induction n as [k|a t|kids IH] using fnode_ind2; intros here p; try (cbn; intros []).
  rewrite walk_dir. unfold walk_list. intros H. apply in_flat_map in H. destruct H as ([nm k] & Hk & [H|H]).
  - subst. destruct here; discriminate.
  - rewrite Forall_forall in IH. apply (IH _ Hk _ _ H).
Qed.

Section FS.
Variable root : fnode.
Variable is_src : string -> bool.
Variable F : nat.
Hypothesis Hwf : wf root.
Let root' := remove_links root.

Lemma rl_never_link q : q <> [] -> nolink (node_at root' q) = true.
Proof.
  intros Hq. unfold root'. rewrite node_at_rl by assumption. destruct (node_at root q) as [n|]; [|reflexivity].
  destruct (is_link n) eqn:E.
  - destruct q; [congruence|reflexivity].
  - cbn. destruct n; try discriminate; reflexivity.
Qed.

Lemma real_rl_from : forall rest acc, real_from root acc rest = true -> real_from root' acc rest = true.
Proof.
  induction rest as [|c r IH]; intros acc; [reflexivity|]. cbn. intros H.
  apply andb_true_iff in H. destruct H as [H Hr]. apply andb_true_iff in H. destruct H as [Hp Hn].
  rewrite Hp, (IH _ Hr), rl_never_link; [reflexivity|]. destruct acc; discriminate.
Qed.
Lemma real_rl p : is_real root p = true -> is_real root' p = true.
Proof. apply real_rl_from. Qed.

Lemma real_last_nolink p : is_real root p = true -> p <> [] -> nolink (node_at root p) = true.
Proof.
  unfold is_real. induction p as [|x l _] using rev_ind; [congruence|]. intros H _.
  rewrite real_from_app in H. apply andb_true_iff in H. destruct H as [_ H]. cbn in H.
  apply andb_true_iff in H. destruct H as [H _]. apply andb_true_iff in H. apply H.
Qed.

(* a real path names the same kind of node in both trees *)
Lemma node_real_rl p : is_real root p = true -> p <> [] ->
  node_at root' p = option_map remove_links (node_at root p).
Proof.
  intros Hr Hne. unfold root'. rewrite node_at_rl by assumption.
  pose proof (real_last_nolink p Hr Hne) as Hl. destruct (node_at root p) as [n|]; [|reflexivity].
  destruct n; cbn in *; try discriminate; reflexivity.
Qed.

(* ---------- the enumeration ---------- *)
Definition nl (p : path) : bool := nolink (node_at root p).

Lemma walk_rl n : forall here, wf n -> node_at root here = Some n ->
  walk (remove_links n) here = filter nl (walk n here).
Proof.
  induction n as [k|a t|kids IH] using fnode_ind2; intros here Hw Hn; try reflexivity.
  rewrite remove_links_dir, !walk_dir. inversion Hw as [| |kids' Hnd Hall]; subst.
  assert (Hkid : forall nm k, In (nm, k) kids -> node_at root (here ++ [nm]) = Some k).
  { intros nm k Hin. rewrite node_at_app, Hn. cbn. rewrite (kid_in nm k kids Hnd Hin). reflexivity. }
  clear Hnd Hn Hw. induction kids as [|[nm k] r IHr]; [reflexivity|].
  inversion IH as [|x l Hk IHl]; subst. inversion Hall as [|x l [_ Hwk] Hall']; subst. cbn [snd fst] in *.
  assert (Hr : walk_list here (rl_list r) = filter nl (walk_list here r)).
  { apply IHr; auto. intros nm' k' Hin. apply Hkid. right. exact Hin. }
  pose proof (Hkid nm k (or_introl eq_refl)) as Hnk.
  unfold walk_list, rl_list in *. cbn [flat_map fst snd]. rewrite flat_map_app. cbn [app filter].
  unfold nl at 1. rewrite Hnk, filter_app.
  destruct k as [key|kk|a t]; cbn [nolink flat_map fst snd app].
  - cbn [walk filter app]. f_equal. exact Hr.
  - rewrite app_nil_r, (Hk (here ++ [nm]) Hwk Hnk). f_equal. f_equal. exact Hr.
  - cbn [walk filter app]. exact Hr.
Qed.

Lemma rglob_rl d : is_real root d = true ->
  rglob root' d = filter nl (rglob root d).
Proof.
  intros Hd. unfold rglob, root'. rewrite node_at_rl by assumption.
  destruct (node_at root d) as [n|] eqn:En; [|reflexivity].
  destruct (is_link n) eqn:El.
  - destruct n; try discriminate. destruct d as [|c r]; [reflexivity|].
    exfalso. pose proof (real_last_nolink (c :: r) Hd ltac:(discriminate)) as H. rewrite En in H. discriminate.
  - cbn [andb]. apply walk_rl; [eapply wf_sub; eauto|exact En].
Qed.

Definition contains' := contains root' is_src F.
Lemma contains_rl dirs d p :
  is_real root d = true -> In p (rglob root d) -> nl p = true ->
  contains' dirs p = contains root is_src F dirs p.
Proof.
  intros Hd Hin Hnl. pose proof (rglob_real root d p Hwf Hd Hin Hnl) as Hr.
  unfold contains', contains. rewrite (realpath_of_real root F p Hr), (realpath_of_real root' F p (real_rl p Hr)).
  assert (Hne : p <> []).
  { intros ->. unfold rglob in Hin. destruct (node_at root d) as [n|]; [|contradiction].
    apply (walk_nonempty _ _ _ Hin). reflexivity. }
  rewrite (node_real_rl p Hr Hne). destruct (node_at root p) as [[k|kk|a t]|]; reflexivity.
Qed.

(* a member's resolved path is a member: the skip test of get_setmap is "is a link" *)
Lemma skipped_is_link dirs fn :
  contains root is_src F dirs fn = true -> skipped root is_src F dirs fn = is_link_at root fn.
Proof.
  unfold skipped, contains. destruct (realpath root F fn) as [r|e] eqn:Er; [|discriminate].
  intros H. rewrite (realpath_idempotent root F F fn r Er), H. apply andb_true_r.
Qed.

Lemma filter_flat_map {A B} (f : B -> bool) (g : A -> list B) l :
  filter f (flat_map g l) = flat_map (fun x => filter f (g x)) l.
Proof. induction l as [|x l IH]; [reflexivity|]. cbn. rewrite filter_app, IH. reflexivity. Qed.

Lemma filter_filter_comm {A} (f g : A -> bool) l : filter f (filter g l) = filter g (filter f l).
Proof.
  induction l as [|x l IH]; [reflexivity|]. cbn. destruct (g x) eqn:Eg, (f x) eqn:Ef; cbn; rewrite ?Eg, ?Ef, IH; reflexivity.
Qed.

Lemma flat_map_ext_in' {A B} (f g : A -> list B) l :
  (forall x, In x l -> f x = g x) -> flat_map f l = flat_map g l.
Proof.
  induction l as [|x l IH]; [reflexivity|]. intros H. cbn. rewrite (H x (or_introl eq_refl)), IH; [reflexivity|].
  intros y Hy. apply H. right. exact Hy.
Qed.

Theorem counted_rl dirs :
  Forall (fun d => is_real root d = true) dirs ->
  counted root is_src F dirs = iter root' is_src F dirs.
Proof.
  intros Hd. unfold counted, iter.
  (* 1: the skip test is "is a link" on members *)
  transitivity (filter nl (flat_map (fun d => filter (contains root is_src F dirs) (rglob root d)) dirs)).
  { apply filter_ext_in. intros fn Hin. apply in_flat_map in Hin. destruct Hin as (d & _ & Hin).
    apply filter_In in Hin. destruct Hin as [_ Hc]. rewrite (skipped_is_link dirs fn Hc).
    unfold nl, is_link_at. rewrite negb_involutive. reflexivity. }
  rewrite filter_flat_map. apply flat_map_ext_in'. intros d Hin.
  rewrite Forall_forall in Hd. specialize (Hd d Hin).
  rewrite filter_filter_comm, (rglob_rl d Hd).
  apply filter_ext_in. intros p Hp. apply filter_In in Hp. destruct Hp as [Hp Hnl].
  symmetry. apply (contains_rl dirs d p Hd Hp Hnl).
Qed.

End FS.

(* ---------- each path is enumerated once ---------- *)
Definition under (here : path) (nm : string) (p : path) : Prop := exists suf, p = here ++ nm :: suf.

Lemma under_inj here n1 n2 p : under here n1 p -> under here n2 p -> n1 = n2.
Proof. intros (s1 & ->) (s2 & H). apply app_inv_head in H. inversion H. reflexivity. Qed.

Lemma walk_under n : forall here p, In p (walk n here) -> exists nm, under here nm p.
Proof.
  induction n as [k|a t|kids IH] using fnode_ind2; intros here p; try (cbn; intros []).
  rewrite walk_dir. unfold walk_list. intros H. apply in_flat_map in H. destruct H as ([nm k] & Hk & [H|H]); cbn [fst snd] in *.
  - subst. exists nm. exists nil. reflexivity.
  - rewrite Forall_forall in IH. destruct (IH _ Hk _ _ H) as (nm' & suf & ->). exists nm, (nm' :: suf).
    rewrite <- app_assoc. reflexivity.
Qed.

Lemma walk_piece_under nm k here p :
  In p ((here ++ [nm]) :: walk k (here ++ [nm])) -> under here nm p.
Proof.
  intros [<-|H]; [exists nil; reflexivity|]. destruct (walk_under _ _ _ H) as (nm' & suf & ->).
  exists (nm' :: suf). rewrite <- app_assoc. reflexivity.
Qed.

Lemma walk_NoDup n : forall here, wf n -> NoDup (walk n here).
Proof.
  induction n as [k|a t|kids IH] using fnode_ind2; intros here Hw; try (cbn; constructor).
  rewrite walk_dir. inversion Hw as [| |kids' Hnd Hall]; subst. unfold walk_list. clear Hw.
  induction kids as [|[nm k] r IHr]; [constructor|].
  inversion IH as [|x l Hk IHl]; subst. inversion Hall as [|x l [_ Hwk] Hall']; subst.
  cbn [map fst] in Hnd. inversion Hnd as [|x l Hnotin Hnd']; subst. cbn [snd fst] in *.
  cbn [flat_map fst snd].
  assert (Hrest : forall p, In p (flat_map (fun x => (here ++ [fst x]) :: walk (snd x) (here ++ [fst x])) r) ->
                            exists nm', In nm' (map fst r) /\ under here nm' p).
  { intros p Hp. apply in_flat_map in Hp. destruct Hp as ([nm' k'] & Hin & Hp). exists nm'. split.
    - apply in_map_iff. exists (nm', k'). auto.
    - apply walk_piece_under with (k := k'). exact Hp. }
  assert (Hdisj : forall p, In p ((here ++ [nm]) :: walk k (here ++ [nm])) ->
                            ~ In p (flat_map (fun x => (here ++ [fst x]) :: walk (snd x) (here ++ [fst x])) r)).
  { intros p Hp Hq. destruct (Hrest p Hq) as (nm' & Hin & Hu).
    pose proof (under_inj here nm nm' p (walk_piece_under nm k here p Hp) Hu). subst. contradiction. }
  change ((here ++ [nm]) :: walk k (here ++ [nm]) ++ flat_map (fun x => (here ++ [fst x]) :: walk (snd x) (here ++ [fst x])) r)
    with (((here ++ [nm]) :: walk k (here ++ [nm])) ++ flat_map (fun x => (here ++ [fst x]) :: walk (snd x) (here ++ [fst x])) r).
  assert (Hpiece : NoDup ((here ++ [nm]) :: walk k (here ++ [nm]))).
  { constructor; [|apply Hk; exact Hwk]. intros Hin. destruct (walk_under _ _ _ Hin) as (nm' & suf & E).
    rewrite <- app_assoc in E. apply app_inv_head in E. discriminate. }
  assert (HB0 : NoDup (flat_map (fun x => (here ++ [fst x]) :: walk (snd x) (here ++ [fst x])) r)) by (apply IHr; assumption).
  revert Hpiece Hdisj HB0.
  generalize ((here ++ [nm]) :: walk k (here ++ [nm])) as A.
  generalize (flat_map (fun x => (here ++ [fst x]) :: walk (snd x) (here ++ [fst x])) r) as B.
  intros B A HA Hd HB. induction A as [|a A IHA]; [exact HB|]. cbn. inversion HA; subst. constructor.
  - intros Hin. apply in_app_or in Hin. destruct Hin as [Hin|Hin]; [contradiction|]. apply (Hd a (or_introl eq_refl) Hin).
  - apply IHA; [assumption|]. intros p Hp. apply Hd. right. exact Hp.
Qed.

Theorem counted_NoDup root is_src F d : wf root -> NoDup (counted root is_src F [d]).
Proof.
  intros Hwf. unfold counted, iter. cbn [flat_map]. rewrite app_nil_r.
  apply NoDup_filter. apply NoDup_filter. unfold rglob. destruct (node_at root d) as [n|] eqn:E; [|constructor].
  apply walk_NoDup. eapply wf_sub; eauto.
Qed.

(* every counted path is its own realpath *)
Theorem counted_real root is_src F dirs p : wf root ->
  Forall (fun d => is_real root d = true) dirs ->
  In p (counted root is_src F dirs) -> forall f, realpath root f p = Ok p.
Proof.
  intros Hwf Hd Hin f. apply realpath_of_real. unfold counted in Hin. apply filter_In in Hin. destruct Hin as [Hin Hsk].
  unfold iter in Hin. apply in_flat_map in Hin. destruct Hin as (d & Hdd & Hin). apply filter_In in Hin. destruct Hin as [Hin Hc].
  rewrite Forall_forall in Hd. apply (rglob_real root d p Hwf (Hd d Hdd) Hin).
  rewrite (skipped_is_link root is_src F dirs p Hc) in Hsk. unfold is_link_at in Hsk. rewrite negb_involutive in Hsk. exact Hsk.
Qed.

(* ---------- creating a link changes nothing in the link-free tree ---------- *)
Lemma rl_list_app a b : rl_list (a ++ b) = rl_list a ++ rl_list b.
Proof. unfold rl_list. apply flat_map_app. Qed.

Lemma add_link_rl w : forall n nm a t, remove_links (add_node n w nm (Link a t)) = remove_links n.
Proof.
  induction w as [|c r IH]; intros n nm a t; destruct n as [k|kids|a' t']; try reflexivity.
  - cbn [add_node]. rewrite !remove_links_dir, rl_list_app. unfold rl_list at 2. cbn. rewrite app_nil_r. reflexivity.
  - cbn [add_node]. rewrite !remove_links_dir. f_equal.
    induction kids as [|[n0 k0] l IHl]; [reflexivity|]. cbn [map fst snd].
    change ((n0, k0) :: l) with ([(n0, k0)] ++ l).
    change ((if String.eqb n0 c then (n0, add_node k0 r nm (Link a t)) else (n0, k0)) :: map (fun x => if String.eqb (fst x) c then (fst x, add_node (snd x) r nm (Link a t)) else x) l)
      with ([if String.eqb n0 c then (n0, add_node k0 r nm (Link a t)) else (n0, k0)] ++ map (fun x => if String.eqb (fst x) c then (fst x, add_node (snd x) r nm (Link a t)) else x) l).
    rewrite !rl_list_app, IHl. f_equal.
    destruct (String.eqb n0 c); [|reflexivity].
    specialize (IH k0 nm a t). unfold rl_list. cbn [flat_map fst snd].
    destruct k0 as [k|kk|a' t'].
    + destruct r; reflexivity.
    + assert (E : exists kk', add_node (Dir kk) r nm (Link a t) = Dir kk') by (destruct r; eexists; reflexivity).
      destruct E as (kk' & E). rewrite E in *. cbv iota beta. rewrite IH. reflexivity.
    + destruct r; reflexivity.
Qed.

(* ---------- several pairwise disjoint code-base directories ---------- *)
Lemma NoDup_app_intro {A} (a b : list A) :
  NoDup a -> NoDup b -> (forall x, In x a -> In x b -> False) -> NoDup (a ++ b).
Proof.
  intros Ha Hb Hd. induction a as [|x a IH]; [exact Hb|]. cbn. inversion Ha; subst. constructor.
  - intros Hin. apply in_app_or in Hin. destruct Hin as [Hin|Hin]; [contradiction|]. apply (Hd x (or_introl eq_refl) Hin).
  - apply IH; [assumption|]. intros y Hy. apply Hd. right. exact Hy.
Qed.

Lemma NoDup_flat_map_disjoint {A B} (f : A -> list B) l :
  (forall a, In a l -> NoDup (f a)) ->
  ForallOrdPairs (fun a b => forall x, In x (f a) -> In x (f b) -> False) l ->
  NoDup (flat_map f l).
Proof.
  intros Hn Hp. induction Hp as [|a l Ha _ IH]; [constructor|]. cbn. apply NoDup_app_intro.
  - apply Hn. left. reflexivity.
  - apply IH. intros b Hb. apply Hn. right. exact Hb.
  - intros x Hx Hy. apply in_flat_map in Hy. destruct Hy as (b & Hb & Hy). rewrite Forall_forall in Ha. apply (Ha b Hb x Hx Hy).
Qed.

Lemma is_prefix_app a s : is_prefix a (a ++ s) = true.
Proof. induction a as [|x a IH]; [reflexivity|]. cbn. rewrite String.eqb_refl. exact IH. Qed.
Lemma is_prefix_split a : forall p, is_prefix a p = true -> exists s, p = a ++ s.
Proof.
  induction a as [|x a IH]; intros p; [exists p; reflexivity|]. destruct p as [|y p]; cbn; [discriminate|].
  intros H. apply andb_true_iff in H. destruct H as [E H]. apply String.eqb_eq in E. subst.
  destruct (IH p H) as (s & ->). exists s. reflexivity.
Qed.
Lemma prefixes_comparable a : forall b x y, a ++ x = b ++ y -> is_prefix a b = true \/ is_prefix b a = true.
Proof.
  induction a as [|c a IH]; intros b x y H; [left; reflexivity|]. destruct b as [|d b]; [right; reflexivity|].
  cbn in H. inversion H; subst. cbn. rewrite String.eqb_refl. cbn. eapply IH; eauto.
Qed.

Lemma rglob_under root d p : In p (rglob root d) -> exists s, p = d ++ s.
Proof.
  unfold rglob. destruct (node_at root d) as [n|]; [|intros []]. intros H.
  destruct (walk_under _ _ _ H) as (nm & suf & ->). eauto.
Qed.

Definition disjoint_dirs (d1 d2 : path) : Prop := is_prefix d1 d2 = false /\ is_prefix d2 d1 = false.

Theorem counted_NoDup_disjoint root is_src F dirs :
  wf root -> ForallOrdPairs disjoint_dirs dirs -> NoDup (counted root is_src F dirs).
Proof.
  intros Hwf Hp. unfold counted, iter. apply NoDup_filter. generalize (contains root is_src F dirs) as C. intros C.
  apply NoDup_flat_map_disjoint.
  - intros d _. apply NoDup_filter. unfold rglob. destruct (node_at root d) as [n|] eqn:E; [|constructor].
    apply walk_NoDup. eapply wf_sub; eauto.
  - induction Hp as [|a l Ha _ IH]; [constructor|]. constructor; [|exact IH].
    rewrite Forall_forall in *. intros b Hb x Hx Hy. apply filter_In in Hx, Hy. destruct Hx as [Hx _], Hy as [Hy _].
    destruct (rglob_under _ _ _ Hx) as (s1 & E1), (rglob_under _ _ _ Hy) as (s2 & E2). subst x.
    destruct (Ha b Hb) as [H1 H2]. destruct (prefixes_comparable a b s1 s2 E2) as [H|H]; congruence.
Qed.
