(* C05, step 6: assembling the property-level statements. *)
From Coq Require Import ZArith Bool Ascii String Arith List Sorted Lia.
From CBI Require Import Lib.Data Model.C05 Model.C05a Spec.C05 Spec.C05f Spec.C05i Model.C05r
                        Proofs.C05t Proofs.C05s Proofs.C05h Proofs.C05b Proofs.C05n Proofs.C05f Proofs.C05i.
Import ListNotations.

Lemma cls_lines_eq ls : cls_lines ls = map cls_line ls.
Proof. reflexivity. Qed.

(* ---------- counted lines and directive flags: M = S ---------- *)
Theorem counted_lines (ls : list (pline ascii)) :
  r_wf (S_scan (cls_lines ls)) = true -> r_c20 (S_scan (cls_lines ls)) = false ->
  r_c22 (S_scan (cls_lines ls)) = false ->
  exists out total,
    c_file_source conc ls = FsOk out total (length ls) /\
    map proj out = r_logical (S_scan (cls_lines ls)).
Proof.
  rewrite cls_lines_eq. intros H1 H2 H3.
  destruct (abs_sim _ H1 H2 H3) as (out' & total & E & P).
  rewrite conc_abs_file_source, map_length in E.
  destruct (c_file_source conc ls) as [out t n|e]; cbn [map_res] in E; [|discriminate E].
  injection E as <- <- <-. exists out, t. split; [reflexivity|].
  rewrite <- P, map_map. reflexivity.
Qed.

(* ---------- every logical line S reports has at least one counted line ---------- *)
Definition out_ne (s : sst) : Prop := Forall (fun x : list nat * bool => fst x <> []) (s_out s).

Lemma sstep_out n s c : s_out (sstep n s c) = s_out s.
Proof.
  destruct s as [q sl ms d op lw out wf c20 c22]. destruct q, c; cbn -[mark marked]; try reflexivity;
    destruct (marked n ms); reflexivity.
Qed.
Lemma sfold_out n cs : forall s, s_out (fold_left (sstep n) cs s) = s_out s.
Proof. induction cs as [|c cs IH]; intros s; cbn [fold_left]; [reflexivity|]. rewrite IH. apply sstep_out. Qed.
Lemma rev_nonnil {X} (l : list X) : l <> [] -> rev l <> [].
Proof. destruct l as [|x l]; [congruence|]. intros _ H. cbn in H. destruct (rev l); discriminate H. Qed.
Lemma end_logical_ne s : out_ne s -> out_ne (end_logical s).
Proof.
  unfold out_ne, end_logical. cbn [s_out]. intros H. destruct (s_ms s) as [|k r] eqn:E; [exact H|].
  apply Forall_app. split; [exact H|]. constructor; [|constructor]. cbn [fst]. apply rev_nonnil. discriminate.
Qed.
Lemma s_eol_ne n continued s : out_ne s -> out_ne (s_eol n continued s).
Proof.
  intros H. unfold s_eol. destruct continued; [exact H|].
  destruct (s_q s); try (apply end_logical_ne; exact H); exact H.
Qed.
Lemma s_lines_ne ls : forall n s, out_ne s -> out_ne (s_lines n s ls).
Proof.
  induction ls as [|l ls IH]; intros n s H; cbn [s_lines]; [exact H|].
  apply IH. unfold s_line. apply s_eol_ne. unfold out_ne. rewrite sfold_out. exact H.
Qed.
Lemma S_logical_ne ls : Forall (fun x : list nat * bool => fst x <> []) (r_logical (S_scan ls)).
Proof.
  unfold S_scan. cbn [r_logical]. apply end_logical_ne. apply s_lines_ne. constructor.
Qed.

(* ---------- nodes = grouping of the logical lines ---------- *)
Section Group.
Context {C B : Type} (A : alg C B).

Lemma close_code_eq (p : ps) :
  K p -> (lg_empty (ps_code p) = false -> lg_lines (ps_code p) <> []) ->
  (if lg_empty (ps_code p) then [] else [(NCode, lg_lines (ps_code p))]) = close_code (lg_lines (ps_code p)).
Proof.
  intros (K1 & _) H. destruct (lg_empty (ps_code p)) eqn:E.
  - rewrite (K1 eq_refl). reflexivity.
  - specialize (H eq_refl). destruct (lg_lines (ps_code p)); [congruence|reflexivity].
Qed.

Lemma fold_group (out : list (lline B)) : forall p,
  K p -> (lg_empty (ps_code p) = false -> lg_lines (ps_code p) <> []) ->
  Forall (fun l => 1 <= ll_start l /\ ll_sloc l = length (ll_lines l) /\ ll_lines l <> []) out ->
  map nk (ps_nodes (fold_left parse_step out p)) ++
    (if lg_empty (ps_code (fold_left parse_step out p)) then []
     else [(NCode, lg_lines (ps_code (fold_left parse_step out p)))])
  = map nk (ps_nodes p) ++ group (lg_lines (ps_code p)) (map (@pj B) out).
Proof.
  induction out as [|l out IH]; intros p HK Hne F; cbn [fold_left map group].
  - rewrite close_code_eq by assumption. reflexivity.
  - inversion F as [|? ? (F1 & F2 & F3) F']; subst.
    assert (HK' : K (parse_step p l)) by (apply parse_step_K; assumption).
    unfold pj at 1. destruct (ll_cat l) eqn:Ec.
    + (* code *)
      rewrite IH; [| exact HK' | | exact F'].
      * unfold parse_step. rewrite Ec. cbn [ps_nodes ps_code lg_add lg_lines]. reflexivity.
      * unfold parse_step. rewrite Ec. cbn [ps_code lg_add lg_lines]. intros _ H.
        apply app_eq_nil in H. destruct H as [_ H]. exact (F3 H).
    + (* directive *)
      destruct (flush_code_K p HK) as (_ & E1 & E2).
      rewrite IH; [| exact HK' | | exact F'].
      * unfold parse_step. rewrite Ec. cbn [ps_nodes ps_code]. rewrite E1.
        rewrite map_app, E2. cbn [lg_new lg_lines map nk node_of n_kind n_lines lg_add app].
        rewrite close_code_eq by assumption. rewrite <- !app_assoc. reflexivity.
      * unfold parse_step. rewrite Ec. cbn [ps_code]. rewrite E1. cbn. discriminate.
    + rewrite IH; [| exact HK' | | exact F'].
      * unfold parse_step. rewrite Ec. cbn [ps_nodes ps_code lg_add lg_lines]. reflexivity.
      * unfold parse_step. rewrite Ec. cbn [ps_code lg_add lg_lines]. intros _ H.
        apply app_eq_nil in H. destruct H as [_ H]. exact (F3 H).
Qed.

Theorem nodes_group ls out total n t :
  c_file_source A ls = FsOk out total n -> parse_file A ls = Some t ->
  Forall (fun l => ll_lines l <> []) out ->
  map nk (t_nodes t) = group [] (map (@pj B) out).
Proof.
  intros Ef Ep Hne. unfold parse_file in Ep. rewrite Ef in Ep. injection Ep as <-.
  destruct (file_source_chain _ _ _ _ _ Ef) as [-> Hch].
  destruct (chain_forall _ _ _ Hch) as (F1 & F2 & F3).
  assert (F : Forall (fun l => 1 <= ll_start l /\ ll_sloc l = length (ll_lines l) /\ ll_lines l <> []) out).
  { apply Forall_forall. intros l Hl. rewrite Forall_forall in F1, F2, Hne. repeat split; auto; try (apply F1; [exact Hl|lia]). }
  assert (F1' : Forall (fun l => 1 <= ll_start l) out) by (eapply Forall_impl; [|exact F]; cbn; tauto).
  destruct (fold_K out ps_init K_init F1' F2) as [HK _].
  destruct (finish_facts _ (length ls) HK) as (_ & _ & _ & Q4).
  rewrite Q4. rewrite (fold_group out ps_init K_init); [reflexivity| |exact F].
  cbn. discriminate.
Qed.
End Group.

(* ---------- the node-level statement for the real model ---------- *)
Theorem nodes_spec (ls : list (pline ascii)) :
  r_wf (S_scan (cls_lines ls)) = true -> r_c20 (S_scan (cls_lines ls)) = false ->
  r_c22 (S_scan (cls_lines ls)) = false ->
  exists t, parse_file conc ls = Some t /\
    map nk (t_nodes t) = S_nodes (cls_lines ls) /\
    t_total_sloc t = length (S_counted (cls_lines ls)).
Proof.
  intros H1 H2 H3. destruct (counted_lines ls H1 H2 H3) as (out & total & Ef & P).
  assert (Ep : parse_file conc ls = Some (parse_finish (fold_left parse_step out ps_init) (length ls))).
  { unfold parse_file. rewrite Ef. reflexivity. }
  eexists. split; [exact Ep|].
  assert (Hne : Forall (fun l : lline osl => ll_lines l <> []) out).
  { pose proof (S_logical_ne (cls_lines ls)) as N. rewrite <- P in N. rewrite Forall_map in N. exact N. }
  split.
  - rewrite (nodes_group conc ls out total (length ls) _ Ef Ep Hne). unfold S_nodes. rewrite <- P. reflexivity.
  - destruct (parse_file_invariants conc ls _ Ep) as (_ & _ & _ & Q & R). rewrite Q, (R _ _ _ Ef).
    unfold S_counted. rewrite <- P, map_map. reflexivity.
Qed.

(* ---------- known classes: the unguarded statement is false ---------- *)
Definition M_counted (t : list ascii) : option (list nat) :=
  match M_file_source t with FsOk out _ _ => Some (flat out) | FsErr _ => None end.
Definition S_counted_text (t : list ascii) : option (list nat) :=
  option_map (fun ls => S_counted (cls_lines ls)) (plines_of_text t).
Definition wf_text (t : list ascii) : bool :=
  match plines_of_text t with Some ls => r_wf (S_scan (cls_lines ls)) | None => false end.

(* ---------- text-level forms ---------- *)
Theorem counted_lines_text (t : list ascii) (ls : list (pline ascii)) :
  plines_of_text t = Some ls ->
  r_wf (S_scan (cls_lines ls)) = true -> r_c20 (S_scan (cls_lines ls)) = false ->
  r_c22 (S_scan (cls_lines ls)) = false ->
  exists out total,
    M_file_source t = FsOk out total (length ls) /\
    map (fun l : lline osl => (ll_lines l, match ll_cat l with CPPD => true | _ => false end)) out
      = r_logical (S_scan (cls_lines ls)) /\
    flat out = S_counted (cls_lines ls).
Proof.
  intros E H1 H2 H3. unfold M_file_source. rewrite E.
  destruct (counted_lines ls H1 H2 H3) as (out & total & Ef & P).
  exists out, total. split; [exact Ef|]. split; [exact P|].
  unfold flat, S_counted. rewrite <- P, map_map. reflexivity.
Qed.

Theorem nodes_spec_text (t : list ascii) (ls : list (pline ascii)) :
  plines_of_text t = Some ls ->
  r_wf (S_scan (cls_lines ls)) = true -> r_c20 (S_scan (cls_lines ls)) = false ->
  r_c22 (S_scan (cls_lines ls)) = false ->
  exists tr, M_parse_file t = Some tr /\
    map (fun x => (n_kind x, n_lines x)) (t_nodes tr) = S_nodes (cls_lines ls) /\
    t_total_sloc tr = length (S_counted (cls_lines ls)).
Proof.
  intros E H1 H2 H3. unfold M_parse_file. rewrite E. exact (nodes_spec ls H1 H2 H3).
Qed.

Theorem invariants_text (t : list ascii) (tr : tree) :
  M_parse_file t = Some tr ->
  exists ls, plines_of_text t = Some ls /\
    let nl := concat (map n_lines (t_nodes tr)) in
    StronglySorted lt nl /\ (forall k, In k nl -> 1 <= k /\ k <= length ls) /\
    Forall (fun x => n_count x = length (n_lines x)) (t_nodes tr) /\
    t_total_sloc tr = length nl.
Proof.
  unfold M_parse_file. destruct (plines_of_text t) as [ls|]; [|discriminate]. intros H.
  exists ls. split; [reflexivity|].
  destruct (parse_file_invariants conc ls tr H) as (Q1 & Q2 & Q3 & Q4 & _). auto.
Qed.

(* ---------- raw-text forms: S computed from the characters of the text alone ---------- *)
Theorem counted_lines_raw (t : list ascii) :
  ends_nl t = true ->
  r_wf (F_scan t) = true -> r_c20 (F_scan t) = false -> r_c22 (F_scan t) = false ->
  exists out total n,
    M_file_source t = FsOk out total n /\
    map (fun l : lline osl => (ll_lines l, match ll_cat l with CPPD => true | _ => false end)) out
      = r_logical (F_scan t) /\
    flat out = concat (map fst (r_logical (F_scan t))).
Proof.
  intros He. destruct (F_scan_eq t He) as (ls & P & E). rewrite E. intros H1 H2 H3.
  destruct (counted_lines_text t ls P H1 H2 H3) as (out & total & Q1 & Q2 & Q3).
  exists out, total, (length ls). auto.
Qed.

Theorem nodes_spec_raw (t : list ascii) :
  ends_nl t = true ->
  r_wf (F_scan t) = true -> r_c20 (F_scan t) = false -> r_c22 (F_scan t) = false ->
  exists tr, M_parse_file t = Some tr /\
    map (fun x => (n_kind x, n_lines x)) (t_nodes tr) = group [] (r_logical (F_scan t)) /\
    t_total_sloc tr = length (concat (map fst (r_logical (F_scan t)))).
Proof.
  intros He. destruct (F_scan_eq t He) as (ls & P & E). rewrite E. intros H1 H2 H3.
  exact (nodes_spec_text t ls P H1 H2 H3).
Qed.

(* ---------- ISO forms: the yardstick is the literal look-ahead reading of Spec/C05i.v ---------- *)
(* the two finding classes as predicates of the text alone *)
Definition in_class20 (t : list ascii) : bool := r_c20 (F_scan (norm_nl t)).
Definition in_class22 (t : list ascii) : bool := r_c22 (F_scan (norm_nl t)).

Theorem counted_lines_iso (t : list ascii) :
  ends_bare_bs t = false ->
  iso_wf (iso_scan t) = true -> in_class20 t = false -> in_class22 t = false ->
  exists out total n,
    M_file_source t = FsOk out total n /\
    map (fun l : lline osl => (ll_lines l, match ll_cat l with CPPD => true | _ => false end)) out
      = iso_logical (iso_scan t) /\
    flat out = iso_counted t.
Proof.
  intros Hb Hwf H20 H22.
  destruct (plines_of_text t) as [ls|] eqn:P; [|apply plines_none_iff in P; congruence].
  destruct (iso_eq t ls P) as [Ewf Elog]. specialize (Elog (iso_wf_no_splice t Hwf)).
  unfold in_class20, in_class22 in *. rewrite (F_scan_norm_eq t ls P) in H20, H22. rewrite Ewf in Hwf.
  destruct (counted_lines_text t ls P Hwf H20 H22) as (out & total & Q1 & Q2 & Q3).
  exists out, total, (length ls). unfold iso_counted. rewrite Elog. auto.
Qed.

Theorem nodes_spec_iso (t : list ascii) :
  ends_bare_bs t = false ->
  iso_wf (iso_scan t) = true -> in_class20 t = false -> in_class22 t = false ->
  exists tr, M_parse_file t = Some tr /\
    map (fun x => (n_kind x, n_lines x)) (t_nodes tr) = iso_nodes t /\
    t_total_sloc tr = length (iso_counted t).
Proof.
  intros Hb Hwf H20 H22.
  destruct (plines_of_text t) as [ls|] eqn:P; [|apply plines_none_iff in P; congruence].
  destruct (iso_eq t ls P) as [Ewf Elog]. specialize (Elog (iso_wf_no_splice t Hwf)).
  unfold in_class20, in_class22 in *. rewrite (F_scan_norm_eq t ls P) in H20, H22. rewrite Ewf in Hwf.
  destruct (nodes_spec_text t ls P Hwf H20 H22) as (tr & Q1 & Q2 & Q3).
  exists tr. unfold iso_nodes, iso_counted. rewrite Elog. auto.
Qed.

(* a text ending in a backslash that no new-line follows: the code raises, nothing is counted *)
Theorem bare_backslash_raises (t : list ascii) :
  ends_bare_bs t = true -> M_file_source t = FsErr "RuntimeError" /\ M_parse_file t = None.
Proof.
  intros Hb. apply plines_none_iff in Hb. unfold M_file_source, M_parse_file. rewrite Hb. auto.
Qed.
