(* C05, step 2: the reference scanner S (with physical line numbers and the
   pending-slash line) agrees with its per-line view [cstep]/[c_eol] as long as
   no slash is pending at a splice; together with the tables of C05t this
   gives the file-level simulation for the abstract instance of the model. *)
From Coq Require Import Bool Arith List Lia.
From CBI Require Import Lib.Data Model.C05 Model.C05a Spec.C05 Proofs.C05t.
Import ListNotations.

Ltac splits := repeat match goal with |- _ /\ _ => split end.

Definition okS (s : sst) : bool := s_wf s && negb (s_c20 s) && negb (s_c22 s).
Definition sabs (n : nat) (s : sst) : ast :=
  {| a_q := s_q s; a_m := marked n (s_ms s); a_d := s_d s; a_lw := s_lw s; a_sc := Nat.eqb (s_sl s) n; a_ok := okS s |}.
Definition dm (ms : list nat) (d : dstate) : Prop := ms = [] <-> d = dNone.

Lemma marked_mark n ms : marked n (mark n ms) = true.
Proof.
  destruct ms as [|j r]; simpl; [apply Nat.eqb_refl|].
  destruct (Nat.eqb j n) eqn:E; simpl; [exact E | apply Nat.eqb_refl].
Qed.
Lemma mark_marked n ms : marked n ms = true -> mark n ms = ms.
Proof. destruct ms; simpl; [discriminate|]. intros ->. reflexivity. Qed.
Lemma mark_nonnil n ms : mark n ms <> [].
Proof. destruct ms as [|j r]; simpl; [discriminate|]. destruct (Nat.eqb j n); discriminate. Qed.
Lemma mark_idem n ms : mark n (mark n ms) = mark n ms.
Proof. apply mark_marked. apply marked_mark. Qed.

Lemma dm_survive n ms d h :
  dm (mark n ms) (match d with dNone => if h : bool then dDir else dSrc | d' => d' end).
Proof.
  split; intros H.
  - exfalso. exact (mark_nonnil _ _ H).
  - exfalso. destruct d, h; discriminate.
Qed.

Ltac fin_sstep n ms d Em :=
  rewrite ?marked_mark, ?Em;
  repeat match goal with |- _ /\ _ => split end; try reflexivity; try discriminate; try (intros; assumption);
  try (symmetry; apply mark_marked; assumption);
  try (intros _; apply dm_survive);
  try (intros _; apply (dm_survive n (mark n ms) (match d with dNone => dSrc | d' => d' end) _));
  try apply mark_idem;
  try (intros _; split; intros H0; [exfalso; exact (mark_nonnil _ _ H0) | destruct d; discriminate H0]).

Lemma sstep_abs n s c : okS (sstep n s c) = true ->
  sabs n (sstep n s c) = cstep (sabs n s) c /\
  s_out (sstep n s c) = s_out s /\ s_open (sstep n s c) = s_open s /\
  s_ms (sstep n s c) = (if a_m (cstep (sabs n s) c) then mark n (s_ms s) else s_ms s) /\
  (dm (s_ms s) (s_d s) -> dm (s_ms (sstep n s c)) (s_d (sstep n s c))).
Proof.
  destruct s as [q sl ms d op lw out wf c20 c22]. unfold okS.
  destruct (Nat.eqb sl n) eqn:Esl.
  - apply Nat.eqb_eq in Esl. subst sl. intros _.
    destruct q, c; unfold sabs, okS, far_slash;
    cbn -[mark marked Nat.eqb]; rewrite ?Nat.eqb_refl; cbn -[mark marked Nat.eqb]; rewrite ?orb_false_r;
    try (destruct (marked n ms) eqn:Em; cbn -[mark marked Nat.eqb]); rewrite ?Nat.eqb_refl;
    fin_sstep n ms d Em.
  - destruct q, c; unfold sabs, okS, far_slash;
    cbn -[mark marked Nat.eqb]; rewrite ?Esl, ?Nat.eqb_refl; cbn -[mark marked Nat.eqb];
    rewrite ?orb_true_r, ?andb_false_r; cbn -[mark marked Nat.eqb];
    intros Hok; try discriminate Hok;
    try (destruct (marked n ms) eqn:Em; cbn -[mark marked Nat.eqb]); rewrite ?Esl, ?Nat.eqb_refl;
    fin_sstep n ms d Em.
Qed.

(* ---------- monotonicity of the well-formedness / class flags of S ---------- *)
Lemma okS_mono_step n s c : okS (sstep n s c) = true -> okS s = true.
Proof.
  destruct s as [q sl ms d op lw out wf c20 c22]. unfold okS.
  destruct q, c; unfold far_slash; cbn -[mark marked Nat.eqb]; try (destruct (marked n ms); cbn -[mark marked Nat.eqb]);
    intros H; try exact H; try discriminate H;
    destruct wf, c20, c22, (Nat.eqb sl n); cbn in *; try discriminate H; reflexivity.
Qed.
Lemma okS_mono_fold n cs : forall s, okS (fold_left (sstep n) cs s) = true -> okS s = true.
Proof.
  induction cs as [|c cs IH]; intros s H; [exact H|]. apply okS_mono_step with n c. apply IH. exact H.
Qed.
Lemma okS_mono_eol n continued s : okS (s_eol n continued s) = true -> okS s = true.
Proof.
  destruct s as [q sl ms d op lw out wf c20 c22]. unfold okS, s_eol.
  destruct continued, q; unfold far_slash; cbn -[mark marked Nat.eqb]; destruct wf, c20, c22, (Nat.eqb sl n); cbn; intros H; try exact H; try discriminate H; reflexivity.
Qed.
Lemma okS_mono_line n s l : okS (s_line n s l) = true -> okS s = true.
Proof. unfold s_line. intros H. apply okS_mono_eol in H. apply okS_mono_fold in H. exact H. Qed.
Lemma okS_mono_lines ls : forall n s, okS (s_lines n s ls) = true -> okS s = true.
Proof.
  induction ls as [|l ls IH]; intros n s H; [exact H|]. cbn [s_lines] in H.
  apply IH in H. apply okS_mono_line in H. exact H.
Qed.


Lemma m_mono_step a c : a_m a = true -> a_m (cstep a c) = true.
Proof. destruct a as [q m d w sc ok]. cbn [a_m]. intros ->. destruct q, c, sc; reflexivity. Qed.
Lemma m_mono_fold cs : forall a, a_m a = true -> a_m (fold_left cstep cs a) = true.
Proof. induction cs as [|c cs IH]; intros a H; [exact H|]. apply IH. apply m_mono_step. exact H. Qed.

Lemma sfold_abs n cs : forall s, okS (fold_left (sstep n) cs s) = true ->
  sabs n (fold_left (sstep n) cs s) = fold_left cstep cs (sabs n s) /\
  s_out (fold_left (sstep n) cs s) = s_out s /\ s_open (fold_left (sstep n) cs s) = s_open s /\
  s_ms (fold_left (sstep n) cs s) =
    (if a_m (fold_left cstep cs (sabs n s)) then mark n (s_ms s) else s_ms s) /\
  (dm (s_ms s) (s_d s) -> dm (s_ms (fold_left (sstep n) cs s)) (s_d (fold_left (sstep n) cs s))).
Proof.
  induction cs as [|c cs IH]; intros s Hok; cbn [fold_left] in *.
  - splits; auto.
    unfold sabs; cbn [a_m]. destruct (marked n (s_ms s)) eqn:E; [symmetry; apply mark_marked; exact E | reflexivity].
  - pose proof (okS_mono_fold _ _ _ Hok) as Hok1.
    destruct (sstep_abs n s c Hok1) as (A1 & A3 & A4 & A5 & A6).
    destruct (IH (sstep n s c) Hok) as (B1 & B3 & B4 & B5 & B6).
    rewrite A1 in B1, B5. splits.
    + exact B1.
    + congruence.
    + congruence.
    + rewrite B5, A5.
      destruct (a_m (cstep (sabs n s) c)) eqn:E1.
      * rewrite (m_mono_fold cs _ E1). apply mark_idem.
      * reflexivity.
    + intros H. apply B6. apply A6. exact H.
Qed.

Definition marks_le (n : nat) (ms : list nat) : Prop := forall k, In k ms -> k <= n.
Lemma marks_le_mark n ms : marks_le n ms -> marks_le n (mark n ms).
Proof.
  intros H k. destruct ms as [|j r]; simpl.
  - intros [<-|[]]. lia.
  - destruct (Nat.eqb j n); simpl; intros [<-|Hk]; try lia; apply H; simpl; auto.
Qed.
Lemma marks_le_unmarked n ms : marks_le n ms -> marked (S n) ms = false.
Proof.
  destruct ms as [|j r]; simpl; [reflexivity|]. intros H. apply Nat.eqb_neq.
  specialize (H j (or_introl eq_refl)). lia.
Qed.

Definition d_is_dir (d : dstate) : bool := match d with dDir => true | _ => false end.

Lemma s_eol_abs n continued s : okS (s_eol n continued s) = true -> marks_le n (s_ms s) -> s_sl s <= n ->
  let e := c_eol continued (sabs n s) in
  let s' := s_eol n continued s in
  let ms_pre := if e_counted e then mark n (s_ms s) else s_ms s in
  sabs (S n) s' = e_next e /\
  (if e_ended e
   then s_out s' = s_out s ++ match ms_pre with [] => [] | _ => [(rev ms_pre, d_is_dir (e_d e))] end
        /\ s_ms s' = [] /\ s_open s' = false
   else s_out s' = s_out s /\ s_ms s' = ms_pre /\ s_open s' = true) /\
  (dm (s_ms s) (s_d s) -> dm ms_pre (e_d e)) /\
  marks_le n ms_pre.
Proof.
  destruct s as [q sl ms d op lw out wf c20 c22]. cbn [s_ms s_d s_sl]. intros Hok Hle Hsle.
  pose proof (marks_le_unmarked _ _ Hle) as Hu.
  pose proof (marks_le_unmarked _ _ (marks_le_mark _ _ Hle)) as Hu'.
  pose proof (marks_le_mark _ _ Hle) as Hle'.
  assert (Hsl : continued = true \/ q <> sSlash \/ sl = n).
  { destruct continued; [left; reflexivity|]. destruct q; try (right; left; discriminate).
    right. right. revert Hok. unfold okS, s_eol, far_slash. cbn -[mark marked Nat.eqb rev].
    destruct (Nat.eqb sl n) eqn:E; [intros _; apply Nat.eqb_eq; exact E|].
    rewrite orb_true_r. cbn. rewrite andb_false_r. discriminate. }
  assert (Hne : Nat.eqb sl (S n) = false) by (apply Nat.eqb_neq; lia).
  assert (Hne' : Nat.eqb n (S n) = false) by (apply Nat.eqb_neq; lia).
  clear Hok.
  destruct q; destruct continued;
    try (destruct Hsl as [Hsl|[Hsl|Hsl]]; [discriminate Hsl | exfalso; apply Hsl; reflexivity | subst sl]);
  unfold sabs, okS, s_eol, c_eol, far_slash;
  cbn -[mark marked rev Nat.eqb]; rewrite ?Nat.eqb_refl; cbn -[mark marked rev Nat.eqb];
  destruct (marked n ms) eqn:Em; cbn -[mark marked rev Nat.eqb];
  rewrite ?marked_mark, ?Em, ?Hu, ?Hu', ?Hne, ?Hne';
  repeat match goal with |- _ /\ _ => split end;
  try reflexivity; try assumption;
  try (intros H; exact H);
  try (f_equal; destruct wf, c20, c22, lw; reflexivity).
  all: try (symmetry; apply mark_marked; exact Em).
  all: try (rewrite (mark_marked _ _ Em)).
  all: try (intros H; exact H).
  all: try (intros _; split; intros H0; [exfalso; exact (mark_nonnil _ _ H0) | destruct d; discriminate H0]).
  all: unfold d_is_dir; try (destruct (mark n ms); [rewrite app_nil_r|]; reflexivity);
       try (destruct ms; [rewrite app_nil_r|]; reflexivity).
  all: try (intros _; split; intros H0; [subst ms; discriminate Em | destruct d; discriminate H0]).
Qed.

(* ---------- facts about c_eol ---------- *)
Lemma ceol_counted_false continued a : e_counted (c_eol continued a) = false -> a_m a = false.
Proof. destruct a as [q m d w sc ok]. unfold c_eol. destruct continued, q; cbn; intros H; try exact H; discriminate H. Qed.
Lemma ceol_d continued a :
  a_d (e_next (c_eol continued a)) = if e_ended (c_eol continued a) then dNone else e_d (c_eol continued a).
Proof. destruct a as [q m d w sc ok]. unfold c_eol. destruct continued, q; reflexivity. Qed.

Lemma mark_fresh n ms : (forall k, In k ms -> k < n) -> mark n ms = n :: ms.
Proof.
  destruct ms as [|j r]; simpl; [reflexivity|]. intros H.
  specialize (H j (or_introl eq_refl)). destruct (Nat.eqb j n) eqn:E; [|reflexivity].
  apply Nat.eqb_eq in E. lia.
Qed.

Lemma sstep_sl n s c : s_sl s <= n -> s_sl (sstep n s c) <= n.
Proof.
  destruct s as [q sl ms d op lw out wf c20 c22]. cbn [s_sl]. intros H.
  destruct q, c; unfold far_slash; cbn -[mark marked Nat.eqb]; try lia; destruct (marked n ms); cbn; lia.
Qed.
Lemma sfold_sl n cs : forall s, s_sl s <= n -> s_sl (fold_left (sstep n) cs s) <= n.
Proof. induction cs as [|c cs IH]; intros s H; cbn [fold_left]; [exact H|]. apply IH. apply sstep_sl. exact H. Qed.
Lemma s_eol_sl n continued s : s_sl (s_eol n continued s) = s_sl s.
Proof.
  destruct s as [q sl ms d op lw out wf c20 c22]. unfold s_eol, far_slash. destruct continued, q; reflexivity.
Qed.

(* ---------- the loop invariant between the abstract model and S ---------- *)
Definition proj {B} (l : lline B) : list nat * bool :=
  (ll_lines l, match ll_cat l with CPPD => true | _ => false end).

Record Inv (n : nat) (f : fs bcls) (s : sst) : Prop := {
  inv_rel : relb (fs_st f) bE (fs_L f) (sabs n s) = true;
  inv_sl : s_sl s <= n;
  inv_lt : forall k, In k (s_ms s) -> k < n;
  inv_lines : fs_lines f = rev (s_ms s);
  inv_out : map proj (fs_out f) = s_out s;
  inv_dm : dm (s_ms s) (s_d s);
  inv_open : s_open s = false -> fs_st f = [TOP] /\ fs_L f = bE /\ fs_lines f = []
}.

Lemma phys_line_eq (f : fs bcls) n body continued :
  phys_line absalg f n (body, continued) =
  let r1 := process absalg (fs_st f) bE body in
  let r2 := m_eol (fst r1) (snd r1) continued in
  let counted := negb (cat_blank (ab_cat (snd r2))) in
  let lines := if counted then fs_lines f ++ [n] else fs_lines f in
  let sloc := if counted then S (fs_sloc f) else fs_sloc f in
  let L := ab_join (fs_L f) (snd r2) in
  if negb continued && negb (top_is_block (fst r2))
  then close_logical absalg (fst r2) L lines sloc (fs_start f) (fs_total f) (fs_out f) n
  else {| fs_st := fst r2; fs_L := L; fs_lines := lines; fs_sloc := sloc; fs_start := fs_start f;
          fs_total := fs_total f; fs_out := fs_out f |}.
Proof.
  unfold phys_line, m_eol. cbn [a_empty absalg].
  destruct (process absalg (fs_st f) bE body) as [st1 b1]. cbn [fst snd].
  destruct (if negb continued && negb (top_is_block st1) then logical_newline absalg st1 b1 else (st1, b1)) as [st2 b2].
  reflexivity.
Qed.

Lemma line_inv n f s l :
  Inv n f s -> okS (s_line n s l) = true -> Inv (S n) (phys_line absalg f n l) (s_line n s l).
Proof.
  intros I Hok. destruct l as [body continued]. unfold s_line in *. cbn [fst snd] in *.
  pose proof (okS_mono_eol _ _ _ Hok) as Hok1s.
  destruct (sfold_abs n body s Hok1s) as (A1 & A3 & A4 & A5 & A6).
  pose proof (sfold_sl n body s (inv_sl _ _ _ I)) as A2.
  remember (fold_left (sstep n) body s) as s1 eqn:Es1.
  remember (fold_left cstep body (sabs n s)) as a1 eqn:Ea1.
  assert (Hle1 : marks_le n (s_ms s1)).
  { rewrite A5. assert (H0 : marks_le n (s_ms s)) by (intros k Hk; apply (inv_lt _ _ _ I) in Hk; lia).
    destruct (a_m a1); [apply marks_le_mark|]; exact H0. }
  destruct (s_eol_abs n continued s1 Hok Hle1 A2) as (E1 & E2 & E3 & E4).
  rewrite A1 in E1, E2, E3, E4.
  remember (c_eol continued a1) as e eqn:Ee.
  remember (s_eol n continued s1) as s' eqn:Es'.
  assert (Hoke : a_ok (e_next e) = true) by (rewrite <- E1; exact Hok).
  assert (Hok1 : a_ok a1 = true) by (rewrite <- A1; exact Hok1s).
  pose proof (inv_rel _ _ _ I) as R0.
  assert (R1 := fold_sim (fs_L f) body (fs_st f) bE (sabs n s) R0).
  rewrite <- Ea1 in R1. specialize (R1 Hok1).
  assert (Hoke' : a_ok (e_next (c_eol continued a1)) = true) by (rewrite <- Ee; exact Hoke).
  destruct (eol_sim _ _ _ _ continued R1 Hoke') as (C1 & C2 & C3 & C4 & C5).
  rewrite <- Ee in C1, C2, C3, C5.
  rewrite phys_line_eq. cbv zeta.
  remember (process absalg (fs_st f) bE body) as r1 eqn:Er1.
  remember (m_eol (fst r1) (snd r1) continued) as r2 eqn:Er2.
  (* the counted lines of the logical line so far, on both sides *)
  assert (Hpre : (if e_counted e then mark n (s_ms s1) else s_ms s1) = if e_counted e then n :: s_ms s else s_ms s).
  { rewrite A5. destruct (e_counted e) eqn:Ec.
    - rewrite <- (mark_fresh n (s_ms s) (inv_lt _ _ _ I)). destruct (a_m a1); [apply mark_idem | reflexivity].
    - rewrite Ee in Ec. apply ceol_counted_false in Ec. rewrite Ec. reflexivity. }
  rewrite Hpre in E2, E3, E4.
  assert (Hlines : (if negb (cat_blank (ab_cat (snd r2))) then fs_lines f ++ [n] else fs_lines f)
                   = rev (if e_counted e then n :: s_ms s else s_ms s)).
  { rewrite C1, (inv_lines _ _ _ I). destruct (e_counted e); reflexivity. }
  rewrite Hlines.
  pose proof (E3 (A6 (inv_dm _ _ _ I))) as Hdm.
  assert (Hd' : s_d s' = if e_ended e then dNone else e_d e).
  { change (s_d s') with (a_d (sabs (S n) s')). rewrite E1, Ee. apply ceol_d. }
  assert (Hsl' : s_sl s' <= S n) by (rewrite Es', s_eol_sl; lia).
  rewrite C2 in C4, C5. rewrite C2. destruct (e_ended e) eqn:Eend.
  - (* the logical line ends here *)
    destruct E2 as (O1 & O2 & O3).
    unfold close_logical. constructor; cbn [fs_st fs_L fs_lines fs_out a_empty absalg a_cat].
    + rewrite E1. exact C5.
    + exact Hsl'.
    + rewrite O2. intros k [].
    + rewrite O2. reflexivity.
    + rewrite O1, A3, <- (inv_out _ _ _ I).
      destruct (ab_cat (ab_join (fs_L f) (snd r2))) eqn:Ecat; cbn [cat_blank dof] in *.
      * (* BLANK: nothing counted on this logical line *)
        assert (Hnil : (if e_counted e then n :: s_ms s else s_ms s) = []) by (apply Hdm; symmetry; exact C3).
        rewrite Hnil, app_nil_r. reflexivity.
      * destruct (if e_counted e then n :: s_ms s else s_ms s) as [|k r] eqn:Epre.
        { exfalso. assert (Hx : e_d e = dNone) by (apply Hdm; reflexivity). rewrite <- C3 in Hx. discriminate. }
        rewrite map_app. cbn [map proj ll_lines ll_cat]. rewrite <- C3. reflexivity.
      * destruct (if e_counted e then n :: s_ms s else s_ms s) as [|k r] eqn:Epre.
        { exfalso. assert (Hx : e_d e = dNone) by (apply Hdm; reflexivity). rewrite <- C3 in Hx. discriminate. }
        rewrite map_app. cbn [map proj ll_lines ll_cat]. rewrite <- C3. reflexivity.
    + rewrite O2, Hd'. split; reflexivity.
    + intros _. rewrite (C4 eq_refl). auto.
  - (* the logical line continues on the next physical line *)
    destruct E2 as (O1 & O2 & O3).
    constructor; cbn [fs_st fs_L fs_lines fs_out].
    + rewrite E1. exact C5.
    + exact Hsl'.
    + rewrite O2. intros k Hk. apply E4 in Hk. lia.
    + rewrite O2. reflexivity.
    + rewrite O1, A3. exact (inv_out _ _ _ I).
    + rewrite O2, Hd'. exact Hdm.
    + rewrite O3. discriminate.
Qed.

Lemma lines_inv ls : forall n f s,
  Inv n f s -> okS (s_lines n s ls) = true ->
  Inv (n + length ls) (phys_loop absalg f n ls) (s_lines n s ls).
Proof.
  induction ls as [|l ls IH]; intros n f s I Hok; cbn [phys_loop s_lines length] in *.
  - rewrite Nat.add_0_r. exact I.
  - replace (n + S (length ls)) with (S n + length ls) by lia.
    apply IH; [|exact Hok]. apply line_inv; [exact I|].
    apply okS_mono_lines in Hok. exact Hok.
Qed.

Lemma inv_init : Inv 1 (fs_init absalg) s_init.
Proof.
  constructor; cbn.
  - exact (rel_init false).
  - lia.
  - intros k [].
  - reflexivity.
  - reflexivity.
  - split; reflexivity.
  - auto.
Qed.

(* the file-level simulation for the abstract instance *)
Theorem abs_sim (ls : list (list cls * bool)) :
  r_wf (S_scan ls) = true -> r_c20 (S_scan ls) = false -> r_c22 (S_scan ls) = false ->
  exists out total,
    c_file_source absalg ls = FsOk out total (length ls) /\
    map proj out = r_logical (S_scan ls).
Proof.
  unfold S_scan. cbn [r_wf r_c20 r_c22 r_logical]. intros Hwf H20 H22.
  apply andb_true_iff in Hwf. destruct Hwf as [Hwf Hopen]. apply negb_true_iff in Hopen.
  assert (Hok : okS (s_lines 1 s_init ls) = true) by (unfold okS; rewrite Hwf, H20, H22; reflexivity).
  pose proof (lines_inv ls 1 _ _ inv_init Hok) as I.
  destruct (inv_open _ _ _ I Hopen) as (T1 & T2 & T3).
  unfold c_file_source. rewrite T1, T2. cbn [has_err].
  unfold close_logical. cbn [a_cat absalg ab_cat a_empty cat_blank fs_out fs_total].
  eexists. eexists. split; [reflexivity|].
  rewrite (inv_out _ _ _ I).
  pose proof (inv_lines _ _ _ I) as HL. rewrite T3 in HL.
  assert (Hms : s_ms (s_lines 1 s_init ls) = []).
  { destruct (s_ms (s_lines 1 s_init ls)) as [|k r]; [reflexivity|].
    cbn [rev] in HL. destruct (rev r); discriminate HL. }
  unfold end_logical. cbn [s_out]. rewrite Hms. reflexivity.
Qed.
Print Assumptions abs_sim.
