(* C17 — part a: the finite abstraction of fortran_cleaner and its simulation
   by the reference scanner (technique of DESIGN Appendix A.1c).

   1. one_space_line is abstracted to seven classes [bcls]; every buffer
      operation is a homomorphism (no invariant needed).
   2. The generic cleaner of Model/C17.v is instantiated with [bcls] and unit
      accumulators: a FINITE machine [astep]; [absF] commutes with every step
      of the concrete cleaner, for all states and characters.
   3. [rel] relates abstract cleaner states to scanner states; two boolean
      tables (one step per related pair and character class; one per related
      pair at a line end) are closed by vm_compute over the finitely many
      related pairs and lifted with forallb_forall.
   4. [line_sim]: for every character list satisfying the guards, running the
      concrete cleaner and the scanner from related states ends in related
      states, and the line-end facts hold. *)
From Coq Require Import NArith Bool Ascii String List.
From CBI Require Import Lib.Res Model.C17 Spec.C17.
Import ListNotations.

(* ---------- characters ---------- *)
Lemma is_sp_cls c : is_sp c = match cls_of c with kSp => true | _ => false end.
Proof. destruct c as [[] [] [] [] [] [] [] []]; reflexivity. Qed.
Lemma is_hash_cls c : is_hash c = match cls_of c with kHash => true | _ => false end.
Proof. destruct c as [[] [] [] [] [] [] [] []]; reflexivity. Qed.

(* ---------- the buffer abstraction ---------- *)
(* empty / empty with the trailing flag set (not reachable, kept so that the
   homomorphism is unconditional) / one blank with trailing_space / one blank
   without / begins with # / begins with blank,# / anything else *)
Inductive bcls := bE | bE' | bT | bN | bH0 | bH1 | bO.

Definition babs (b : osl) : bcls :=
  match parts b with
  | [] => if trailing b then bE' else bE
  | [x] => if is_sp x then (if trailing b then bT else bN) else if is_hash x then bH0 else bO
  | x :: y :: _ => if is_hash x then bH0 else if is_sp x && is_hash y then bH1 else bO
  end.

Definition a_cat (b : bcls) : cat :=
  match b with bE | bE' | bT | bN => BLANK | bH0 | bH1 => CPPDIR | bO => SRC end.

Definition a_space (b : bcls) : bcls :=
  match b with bE => bT | bN => bO | _ => b end.
Definition a_non (k : cls) (b : bcls) : bcls :=
  match b with
  | bE | bE' => match k with kSp => bN | kHash => bH0 | _ => bO end
  | bT | bN => match k with kHash => bH1 | _ => bO end
  | _ => b
  end.
Definition a_char (k : cls) (b : bcls) : bcls := if is_ws k then a_space b else a_non k b.

Lemma babs_cat b : category b = a_cat (babs b).
Proof.
  unfold category, babs. destruct (parts b) as [|x [|y r]].
  - destruct (trailing b); reflexivity.
  - destruct (is_sp x); [destruct (trailing b); reflexivity|]. destruct (is_hash x); reflexivity.
  - destruct (is_hash x); [rewrite orb_true_r; reflexivity|]. rewrite orb_false_r.
    destruct (is_sp x && is_hash y); reflexivity.
Qed.

Lemma sp_not_hash x : is_sp x = true -> is_hash x = false.
Proof. rewrite is_sp_cls, is_hash_cls. destruct (cls_of x); congruence. Qed.

Lemma babs_space b : babs (app_space b) = a_space (babs b).
Proof.
  unfold app_space, babs. destruct (trailing b) eqn:T.
  - rewrite T. destruct (parts b) as [|x [|y r]]; [reflexivity| |].
    + destruct (is_sp x); [reflexivity|]. destruct (is_hash x); reflexivity.
    + destruct (is_hash x); [reflexivity|]. destruct (is_sp x && is_hash y); reflexivity.
  - cbn [parts trailing]. destruct (parts b) as [|x [|y r]]; cbn [app].
    + reflexivity.
    + destruct (is_sp x) eqn:S.
      * rewrite (sp_not_hash x S). cbn. reflexivity.
      * destruct (is_hash x); reflexivity.
    + destruct (is_hash x); [reflexivity|]. destruct (is_sp x && is_hash y); reflexivity.
Qed.

Lemma babs_non c b : babs (app_non c b) = a_non (cls_of c) (babs b).
Proof.
  unfold app_non, babs. cbn [parts trailing]. destruct (parts b) as [|x [|y r]]; cbn [app].
  - rewrite is_sp_cls, is_hash_cls. destruct (trailing b); destruct (cls_of c); reflexivity.
  - destruct (is_sp x) eqn:S.
    + rewrite (sp_not_hash x S). cbn [andb]. rewrite is_hash_cls.
      destruct (trailing b); destruct (cls_of c); reflexivity.
    + destruct (is_hash x); reflexivity.
  - destruct (is_hash x); [reflexivity|]. destruct (is_sp x && is_hash y); reflexivity.
Qed.

Lemma babs_char c b : babs (app_char c b) = a_char (cls_of c) (babs b).
Proof. unfold app_char, a_char. destruct (is_ws (cls_of c)); [apply babs_space|apply babs_non]. Qed.

(* appending to a buffer that already holds a non-blank never changes its class *)
Definition absorbing (b : bcls) : bool := match b with bH0 | bH1 | bO => true | _ => false end.
Lemma a_non_abs k b : absorbing b = true -> a_non k b = b.
Proof. destruct b; cbn; congruence. Qed.

Lemma babs_fold_non l : forall b, absorbing (babs b) = true ->
  babs (fold_left (fun b c => app_non c b) l b) = babs b.
Proof.
  induction l as [|c l IH]; intros b H; cbn [fold_left]; [reflexivity|].
  assert (E : babs (app_non c b) = babs b) by (rewrite babs_non; apply a_non_abs; exact H).
  rewrite IH; [exact E|rewrite E; exact H].
Qed.

Lemma absorbing_non k b : is_ws k = false -> absorbing (a_non k b) = true.
Proof. destruct b, k; cbn; congruence. Qed.

Lemma babs_flush v b : babs (c_flush v b) = a_non kAmp (babs b).
Proof.
  unfold c_flush. rewrite babs_fold_non; rewrite babs_non; [reflexivity|].
  apply absorbing_non. reflexivity.
Qed.
Lemma babs_emit f b : babs (c_emit f b) = a_non kBang (babs b).
Proof.
  unfold c_emit. rewrite babs_fold_non; rewrite babs_non; [reflexivity|].
  apply absorbing_non. reflexivity.
Qed.

(* ---------- the abstract cleaner ---------- *)
Definition afstate := fstate bcls unit unit.
Definition astep : afstate -> cls -> ascii -> afstate :=
  gstep bcls unit unit (fun k _ b => a_char k b) a_space (fun k _ b => a_non k b)
        tt (fun _ v => v) (fun _ b => a_non kAmp b)
        tt (fun _ f => f) (fun _ b => a_non kBang b).
Definition aeol : afstate -> afstate := geol bcls unit unit tt.

Definition cstepF : cfstate -> cls -> ascii -> cfstate :=
  gstep osl (list ascii) (list ascii)
    (fun _ c b => app_char c b) app_space (fun _ c b => app_non c b)
    [] (fun c v => v ++ [c]) c_flush
    [] (fun c f => f ++ [c]) c_emit.
Definition ceolF : cfstate -> cfstate := geol osl (list ascii) (list ascii) [].

Definition labs (m : lmode (list ascii)) : lmode unit :=
  match m with LNorm => LNorm | LDir _ => LDir tt | LCopy => LCopy | LSkip => LSkip | LErr => LErr end.
Definition absF (s : cfstate) : afstate :=
  {| fstk := fstk s; fbuf := babs (fbuf s); fvc := tt; flm := labs (flm s) |}.

Lemma astep_char_irrelevant s k c c' : astep s k c = astep s k c'.
Proof. reflexivity. Qed.

Ltac homs := rewrite ?babs_char, ?babs_space, ?babs_non, ?babs_flush, ?babs_emit.

Lemma absF_step1 s c :
  absF (gstep1 osl (list ascii) (list ascii) (fun _ c b => app_char c b) (fun _ c b => app_non c b) [] [] s (cls_of c) c)
  = gstep1 bcls unit unit (fun k _ b => a_char k b) (fun k _ b => a_non k b) tt tt (absF s) (cls_of c) c.
Proof.
  destruct s as [st b v m]. unfold gstep1, absF, fmk. cbn [fstk fbuf fvc flm].
  destruct st as [|[] r]; destruct (cls_of c) eqn:K; cbn [labs fstk fbuf fvc flm]; homs; rewrite ?K; reflexivity.
Qed.

Ltac fin_step K c :=
  first
    [ reflexivity
    | (unfold absF, fmk; cbn [fstk fbuf fvc flm labs]; homs; reflexivity)
    | (rewrite <- K;
       match goal with |- absF (gstep1 _ _ _ _ _ _ _ ?s0 _ _) = _ => rewrite (absF_step1 s0 c) end;
       unfold absF, fmk; cbn [fstk fbuf fvc flm labs]; homs; rewrite ?K; reflexivity) ].

Lemma absF_step s c : absF (cstepF s (cls_of c) c) = astep (absF s) (cls_of c) c.
Proof.
  destruct s as [st b v m]. unfold cstepF, astep, gstep. cbn [flm fstk fbuf fvc absF].
  destruct m as [|f| | |]; cbn [labs].
  - (* LNorm *)
    destruct st as [|top r].
    + apply absF_step1.
    + destruct top; try apply absF_step1.
      * (* FVc *)
        destruct r as [|t r']; [|destruct t]; destruct (cls_of c) eqn:K; cbn [is_ws]; fin_step K c.
      * (* FCfs *)
        destruct (cls_of c) eqn:K; cbn [is_ws]; fin_step K c.
  - (* LDir *)
    destruct (cls_of c); unfold absF, fmk; cbn [fstk fbuf fvc flm labs]; homs; reflexivity.
  - unfold absF, fmk; cbn [fstk fbuf fvc flm labs]; homs; reflexivity.
  - reflexivity.
  - reflexivity.
Qed.

Lemma absF_eol s : absF (ceolF s) = aeol (absF s).
Proof.
  destruct s as [st b v m]. unfold ceolF, aeol, geol, absF, fmk. cbn [fstk fbuf fvc flm].
  destruct st as [|[] r]; destruct m; reflexivity.
Qed.

Definition cfold (s : cfstate) (cs : list ascii) : cfstate := fold_left (fun s c => cstepF s (cls_of c) c) cs s.
Definition afold (s : afstate) (cs : list ascii) : afstate := fold_left (fun s c => astep s (cls_of c) c) cs s.

Lemma absF_fold cs : forall s, absF (cfold s cs) = afold (absF s) cs.
Proof.
  induction cs as [|c cs IH]; intros s; cbn [cfold afold fold_left]; [reflexivity|].
  change (absF (cfold (cstepF s (cls_of c) c) cs) = afold (astep (absF s) (cls_of c) c) cs).
  rewrite IH, absF_step. reflexivity.
Qed.

Lemma fprocess_eq s cs : fprocess s cs = ceolF (cfold s cs).
Proof. reflexivity. Qed.
