(* C04 — multi-file model (memoised search, tree/visitor, on-demand inclusion) is
   simulated by the specification (un-memoised search, skipping machine,
   textual inclusion), for every file system of structured files, every
   include depth, every entry. *)
From Coq Require Import Bool Arith ZArith String List.
From CBI Require Import Lib.Res Model.C01 Spec.C01 Model.C04 Spec.C04 Proofs.C01.
Import ListNotations.

Lemma path_eqb_eq a b : path_eqb a b = true -> a = b.
Proof. unfold path_eqb. destruct (list_eq_dec string_dec a b); [auto|discriminate]. Qed.
Lemma path_eqb_refl a : path_eqb a a = true.
Proof. unfold path_eqb. destruct (list_eq_dec string_dec a a); [auto|congruence]. Qed.
Lemma mkey_eqb_eq a b : mkey_eqb a b = true -> a = b.
Proof.
  destruct a as [[n1 t1] a1], b as [[n2 t2] a2]. cbn. rewrite !andb_true_iff. intros [[H1 H2] H3].
  apply path_eqb_eq in H1, H2. apply Bool.eqb_prop in H3. congruence.
Qed.

(* ---------- the search: first existing candidate ---------- *)
Lemma find_first {A} (f : A -> bool) l x :
  find f l = Some x -> exists l1 l2, l = l1 ++ x :: l2 /\ f x = true /\ forall y, In y l1 -> f y = false.
Proof.
  induction l as [|a l IH]; cbn; [discriminate|]. destruct (f a) eqn:E.
  - intros H; inversion H; subst. exists [], l. repeat split; auto. intros y [].
  - intros H. destruct (IH H) as (l1 & l2 & -> & Hx & Hl). exists (a :: l1), l2. repeat split; auto.
    intros y [<-|Hy]; auto.
Qed.
Lemma find_none {A} (f : A -> bool) l : find f l = None -> forall y, In y l -> f y = false.
Proof.
  induction l as [|a l IH]; cbn; [intros _ y []|]. destruct (f a) eqn:E; [discriminate|].
  intros H y [<-|Hy]; auto.
Qed.

Section WithFS.
Variable fs : fsys.

Lemma search_first ds k p :
  search fs ds k = Some p ->
  exists l1 l2, candidates ds k = l1 ++ p :: l2 /\ isfile fs p = true /\ forall y, In y l1 -> isfile fs y = false.
Proof. apply find_first. Qed.
Lemma search_none ds k : search fs ds k = None -> forall y, In y (candidates ds k) -> isfile fs y = false.
Proof. apply find_none. Qed.
Lemma search_angle ds name this :
  search fs ds (name, this, true) = find (isfile fs) (map (fun d => norm (d ++ name)) ds).
Proof. reflexivity. Qed.
Lemma search_quote ds name this :
  search fs ds (name, this, false) =
  if isfile fs (norm (this ++ name)) then Some (norm (this ++ name)) else search fs ds (name, this, true).
Proof. reflexivity. Qed.

(* ---------- the memo is transparent ---------- *)
Definition memo_ok (p : plat) : Prop :=
  forall k r, lookup_memo k (memo p) = Some r -> r = search fs (dirs p) k.

Lemma find_include_spec k p p1 r :
  memo_ok p -> find_include fs k p = (p1, r) ->
  r = search fs (dirs p) k /\ memo_ok p1 /\ obs_eq p p1.
Proof.
  intros Hm. unfold find_include. destruct (lookup_memo k (memo p)) as [r0|] eqn:E.
  - intros H; inversion H; subst. split; [apply Hm; exact E|]. split; [exact Hm|]. repeat split.
  - intros H; inversion H; subst. split; [reflexivity|]. split; [|repeat split].
    intros k' r'. cbn [memo set_memo dirs lookup_memo].
    destruct (mkey_eqb k' k) eqn:Ek.
    + apply mkey_eqb_eq in Ek. subst. intros H'; inversion H'; reflexivity.
    + apply Hm.
Qed.

(* any history of look-ups: every answer equals the un-memoised search *)
Fixpoint lookups (ks : list mkey) (p : plat) : list (option path) * plat :=
  match ks with
  | [] => ([], p)
  | k :: r => let '(p1, a) := find_include fs k p in let '(l, p2) := lookups r p1 in (a :: l, p2)
  end.

Theorem memo_transparent ks : forall p, memo_ok p ->
  fst (lookups ks p) = map (search fs (dirs p)) ks /\ memo_ok (snd (lookups ks p)).
Proof.
  induction ks as [|k ks IH]; intros p Hm; cbn [lookups map]; [split; [reflexivity|exact Hm]|].
  destruct (find_include fs k p) as [p1 a] eqn:E.
  destruct (find_include_spec k p p1 a Hm E) as (-> & Hm1 & Ho).
  destruct (IH p1 Hm1) as [H1 H2]. destruct (lookups ks p1) as [l p2]. cbn [fst snd] in *.
  destruct Ho as (_ & _ & _ & _ & Hd). rewrite Hd, H1. split; [reflexivity|exact H2].
Qed.

(* ---------- simulation S -> M ---------- *)
Hypothesis Hfs : fs_structured fs.

Definition Rel (a b : plat) : Prop := obs_eq a b /\ memo_ok b.

Lemma Rel_mark f id a b : Rel a b -> Rel (mark_in f id a) (mark_in f id b).
Proof.
  intros [(H1 & H2 & H3 & H4 & H5) Hm]. split; [|exact Hm].
  unfold mark_in, obs_eq; cbn. rewrite H1. repeat split; auto.
Qed.
Lemma Rel_ev c a b r : Rel a b -> ev c a = Ok r -> ev c b = Ok r.
Proof. intros [(_ & H2 & _) _]. unfold ev, ident_val. rewrite H2. auto. Qed.

Lemma exec_S_unfold fuel cur a p :
  exec_S fs fuel cur a p =
  match a with
  | ACode | AOther => Ok p
  | ADefine m v =>
      match lookup m (defs p) with
      | Some v' => if mval_eqb v v' then Ok p else Err "diagnostic: macro redefined"%string
      | None => Ok (set_defs ((m, v) :: defs p) p)
      end
  | AUndef m => Ok (set_defs (remove m (defs p)) p)
  | AOnce => Ok (if mem_path cur (once p) then p else set_once (once p ++ [cur]) p)
  | AInclude tag s =>
      match include_target s p with
      | Err e => Err e
      | Ok (angle, name) =>
          match search fs (dirs p) (name, dirname cur, angle) with
          | None => Ok (set_events ({| ev_file := cur; ev_tag := tag; ev_name := name; ev_angle := angle |} :: events p) p)
          | Some f =>
              if mem_path f (once p) then Ok p
              else match fuel with
                   | 0 => Err out_of_fuel
                   | S fuel' =>
                       match fs_get fs f with
                       | None => Err "internal: resolved file does not exist"%string
                       | Some ls => run_S plat act cond (mark_in f) (exec_S fs fuel' f) ev ls p
                       end
                   end
          end
      end
  end.
Proof. destruct fuel; reflexivity. Qed.

Lemma exec_M_unfold fuel cur a p :
  exec_M fs fuel cur a p =
  match a with
  | ACode | AOther => Ok p
  | ADefine m v => Ok (match lookup m (defs p) with Some _ => p | None => set_defs ((m, v) :: defs p) p end)
  | AUndef m => Ok (set_defs (remove m (defs p)) p)
  | AOnce => Ok (if mem_path cur (once p) then p else set_once (once p ++ [cur]) p)
  | AInclude tag s =>
      match include_target s p with
      | Err e => Err e
      | Ok (angle, name) =>
          let '(p1, r) := find_include fs (name, dirname cur, angle) p in
          match r with
          | None => Ok (set_events ({| ev_file := cur; ev_tag := tag; ev_name := name; ev_angle := angle |} :: events p1) p1)
          | Some f =>
              if mem_path f (once p1) then Ok p1
              else match fuel with
                   | 0 => Err out_of_fuel
                   | S fuel' =>
                       match fs_get fs f with
                       | None => Err "internal: resolved file does not exist"%string
                       | Some ls => run_M plat act cond (mark_in f) (exec_M fs fuel' f) ev ls p1
                       end
                   end
          end
      end
  end.
Proof. destruct fuel; reflexivity. Qed.

Definition exec_sim_at (fuel : nat) : Prop :=
  forall cur a pS pM pS', Rel pS pM -> exec_S fs fuel cur a pS = Ok pS' ->
  exists pM', exec_M fs fuel cur a pM = Ok pM' /\ Rel pS' pM'.

Lemma run_lines_sim fuel f ls pS pM pS' :
  exec_sim_at fuel -> (exists its, ls = flats act cond its) -> Rel pS pM ->
  run_S plat act cond (mark_in f) (exec_S fs fuel f) ev ls pS = Ok pS' ->
  exists pM', run_M plat act cond (mark_in f) (exec_M fs fuel f) ev ls pM = Ok pM' /\ Rel pS' pM'.
Proof.
  intros Hsim (its & ->) HR H. rewrite attribution.
  eapply (run_S_sim plat plat act cond (mark_in f) (mark_in f) (exec_S fs fuel f) (exec_M fs fuel f) ev ev Rel);
    [apply Rel_mark | intros c p q b; apply Rel_ev | intros a p q p'; apply Hsim | exact HR | exact H].
Qed.

Lemma exec_sim_step fuel : (forall n, fuel = S n -> exec_sim_at n) -> exec_sim_at fuel.
Proof.
  intros IH cur a pS pM pS' HR. rewrite exec_S_unfold, exec_M_unfold.
  destruct HR as [Ho Hm]. pose proof Ho as (H1 & H2 & H3 & H4 & H5).
  destruct a as [| |m v|m| tag s|].
  - intros H; inversion H; subst. eexists; split; [reflexivity|split; assumption].
  - intros H; inversion H; subst. eexists; split; [reflexivity|split; assumption].
  - rewrite <- H2. destruct (lookup m (defs pS)) as [v'|].
    + destruct (mval_eqb v v'); [|discriminate]. intros H; inversion H; subst.
      eexists; split; [reflexivity|split; assumption].
    + intros H; inversion H; subst. eexists; split; [reflexivity|]. split; [|exact Hm].
      unfold obs_eq, set_defs; cbn. rewrite H2. repeat split; auto.
  - intros H; inversion H; subst. eexists; split; [reflexivity|]. split; [|exact Hm].
    unfold obs_eq, set_defs; cbn. rewrite H2. repeat split; auto.
  - assert (Hit : include_target s pM = include_target s pS).
    { unfold include_target. rewrite H2. reflexivity. }
    rewrite Hit. destruct (include_target s pS) as [[angle name]|e]; [|discriminate].
    destruct (find_include fs (name, dirname cur, angle) pM) as [p1 r] eqn:Ef.
    destruct (find_include_spec _ _ _ _ Hm Ef) as (-> & Hm1 & Ho1).
    pose proof Ho1 as (G1 & G2 & G3 & G4 & G5).
    rewrite <- H5. destruct (search fs (dirs pS) (name, dirname cur, angle)) as [f|].
    + assert (HR1 : Rel pS p1).
      { split; [|exact Hm1]. unfold obs_eq. repeat split; congruence. }
      replace (once p1) with (once pS) by congruence.
      destruct (mem_path f (once pS)).
      * intros H; inversion H; subst. eexists; split; [reflexivity|exact HR1].
      * destruct fuel as [|n]; [discriminate|].
        destruct (fs_get fs f) as [ls|] eqn:Eg; [|discriminate].
        intros H. apply (run_lines_sim n f ls pS p1 pS' (IH n eq_refl) (Hfs f ls Eg) HR1 H).
    + intros H; inversion H; subst. eexists; split; [reflexivity|]. split.
      * unfold obs_eq, set_events; cbn. repeat split; congruence.
      * exact Hm1.
  - intros H; inversion H; subst. rewrite <- H3. eexists; split; [reflexivity|].
    destruct (mem_path cur (once pS)); [split; assumption|]. split; [|exact Hm].
    unfold obs_eq, set_once; cbn. rewrite H3. repeat split; auto.
Qed.

Lemma exec_sim fuel : exec_sim_at fuel.
Proof.
  induction fuel as [|n IH]; apply exec_sim_step.
  - intros n H; discriminate.
  - intros m H; inversion H; subst; exact IH.
Qed.

Lemma run_file_sim fuel f pS pM pS' :
  Rel pS pM -> run_file_S fs fuel f pS = Ok pS' ->
  exists pM', run_file_M fs fuel f pM = Ok pM' /\ Rel pS' pM'.
Proof.
  unfold run_file_S, run_file_M. intros HR. destruct (fs_get fs f) as [ls|] eqn:Eg; [|discriminate].
  apply run_lines_sim; [apply exec_sim|exact (Hfs f ls Eg)|exact HR].
Qed.

Lemma forced_sim fuel this incs : forall pS pM pS',
  Rel pS pM -> forced_S fs fuel this incs pS = Ok pS' ->
  exists pM', forced_M fs fuel this incs pM = Ok pM' /\ Rel pS' pM'.
Proof.
  induction incs as [|n r IH]; intros pS pM pS' HR; cbn [forced_S forced_M].
  - intros H; inversion H; subst. eauto.
  - destruct HR as [Ho Hm]. pose proof Ho as (H1 & H2 & H3 & H4 & H5).
    destruct (find_include fs (n, this, false) pM) as [p1 res] eqn:Ef.
    destruct (find_include_spec _ _ _ _ Hm Ef) as (-> & Hm1 & Ho1).
    assert (HR1 : Rel pS p1).
    { split; [|exact Hm1]. destruct Ho1 as (G1 & G2 & G3 & G4 & G5). unfold obs_eq. repeat split; congruence. }
    rewrite <- H5. destruct (search fs (dirs pS) (n, this, false)) as [f|].
    + replace (once p1) with (once pS) by (destruct HR1 as [(G1 & G2 & G3 & G4 & G5) _]; congruence).
      destruct (mem_path f (once pS)); [apply IH; exact HR1|].
      destruct (run_file_S fs fuel f pS) as [p2|e] eqn:E2; [|discriminate].
      destruct (run_file_sim fuel f pS p1 p2 HR1 E2) as (q2 & -> & HR2). apply IH; exact HR2.
    + apply IH; exact HR1.
Qed.

Theorem run_tu_sim fuel e r :
  run_tu_S fs fuel e = Ok r -> exists r', run_tu_M fs fuel e = Ok r' /\ obs_eq r r'.
Proof.
  unfold run_tu_S, run_tu_M.
  destruct (forced_S fs fuel (dirname (e_file e)) (e_incs e) (fresh e)) as [p|x] eqn:E; [|discriminate].
  assert (HR0 : Rel (fresh e) (fresh e)).
  { split; [repeat split|]. intros k r0. cbn. discriminate. }
  destruct (forced_sim fuel _ _ _ _ _ HR0 E) as (q & -> & HR1).
  intros H. destruct (run_file_sim fuel _ _ _ _ HR1 H) as (r' & -> & [Ho _]). eauto.
Qed.

End WithFS.

(* ---------- the memo keyed by spelling only (the code before the repair) is NOT transparent ---------- *)
Definition find_include_by_spelling (fs : fsys) (k : mkey) (p : plat) : plat * option path :=
  let '(name, this, angle) := k in
  match lookup_memo (name, [], false) (memo p) with
  | Some r => (p, r)
  | None => let r := search fs (dirs p) k in (set_memo (((name, [], false), r) :: memo p) p, r)
  end.
