(* C02 proofs, part 1: the generated tables are C's; precedence and associativity of
   every ordered pair of binary operators; unary / ternary placement; operator
   semantics M = S; unknown identifiers; `defined` forms; skipped #elif. *)
From Coq Require Import ZArith Bool String Ascii List Lia ZifyBool.
From CBI Require Import Lib.Data Lib.Res Gen.C02_tables Model.C02 Spec.C02.
From CBI Require Model.C01 Spec.C01.
Import ListNotations.
Local Open Scope Z_scope.
Local Open Scope string_scope.

(* ------------------------------------------------------------------ tables *)
Lemma binary_table_is_C o : lookup (bspell o) binary_operators = Some (level o, LEFT).
Proof. destruct o; reflexivity. Qed.
Lemma ternary_table_is_C : lookup "?" binary_operators = Some (1%nat, RIGHT).
Proof. reflexivity. Qed.
Lemma unary_table_is_C o : lookup (uspell o) unary_operators = Some (12%nat, RIGHT).
Proof. destruct o; reflexivity. Qed.

Definition keys_nodup (l : list string) : bool :=
  (fix go (l : list string) : bool :=
     match l with [] => true | x :: r => negb (existsb (String.eqb x) r) && go r end) l.

Lemma binary_table_exact :
  forallb (fun kv => String.eqb (fst kv) "?" || existsb (fun o => String.eqb (bspell o) (fst kv)) all_binops) binary_operators
  && keys_nodup (map fst binary_operators) = true.
Proof. vm_compute. reflexivity. Qed.
Lemma unary_table_exact :
  forallb (fun kv => existsb (fun o => String.eqb (uspell o) (fst kv)) all_unops) unary_operators
  && keys_nodup (map fst unary_operators) = true.
Proof. vm_compute. reflexivity. Qed.

Theorem tables_are_C :
  (forall o, lookup (bspell o) binary_operators = Some (level o, LEFT)) /\
  lookup "?" binary_operators = Some (1%nat, RIGHT) /\
  (forall o, lookup (uspell o) unary_operators = Some (12%nat, RIGHT)) /\
  (forall s p, lookup s binary_operators = Some p -> s = "?" \/ exists o, s = bspell o) /\
  (forall s p, lookup s unary_operators = Some p -> exists o, s = uspell o) /\
  (forall o, (1 < level o < 12)%nat).
Proof.
  split; [exact binary_table_is_C|]. split; [exact ternary_table_is_C|].
  split; [exact unary_table_is_C|]. split; [|split].
  - intros s p H.
    assert (G : forall tbl : list (string * (nat * assoc)),
               forallb (fun kv => String.eqb (fst kv) "?" || existsb (fun o => String.eqb (bspell o) (fst kv)) all_binops) tbl = true ->
               lookup s tbl = Some p -> s = "?" \/ exists o, s = bspell o).
    { induction tbl as [|[k v] r IH]; cbn [lookup forallb fst]; [discriminate|].
      intros Hf Hl. apply andb_true_iff in Hf. destruct Hf as [Hk Hr].
      destruct (String.eqb_spec s k) as [->|_]; [|exact (IH Hr Hl)].
      apply orb_true_iff in Hk. destruct Hk as [Hk|Hk].
      - left. apply String.eqb_eq. exact Hk.
      - right. apply existsb_exists in Hk. destruct Hk as (o & _ & Ho). exists o. symmetry. apply String.eqb_eq. exact Ho. }
    apply (G binary_operators); [|exact H].
    pose proof binary_table_exact as E. apply andb_true_iff in E. exact (proj1 E).
  - intros s p H.
    assert (G : forall tbl : list (string * (nat * assoc)),
               forallb (fun kv => existsb (fun o => String.eqb (uspell o) (fst kv)) all_unops) tbl = true ->
               lookup s tbl = Some p -> exists o, s = uspell o).
    { induction tbl as [|[k v] r IH]; cbn [lookup forallb fst]; [discriminate|].
      intros Hf Hl. apply andb_true_iff in Hf. destruct Hf as [Hk Hr].
      destruct (String.eqb_spec s k) as [->|_]; [|exact (IH Hr Hl)].
      apply existsb_exists in Hk. destruct Hk as (o & _ & Ho). exists o. symmetry. apply String.eqb_eq. exact Ho. }
    apply (G unary_operators); [|exact H].
    pose proof unary_table_exact as E. apply andb_true_iff in E. exact (proj1 E).
  - destruct o; cbn; lia.
Qed.

(* ------------------------------------------------------------------ pairs *)
Definition num (s : string) : token := Tok KNum s.
Definition bop (o : binop) : token := Tok KOp (bspell o).
Definition uop (o : unop) : token := Tok KOp (uspell o).
Definition qm : token := Tok KOp "?".
Definition colon : token := Tok KOp ":".

(* M's operator application, as a function of the operator type of S *)
Definition mbin (o : binop) (a b : val) : option val := apply_binary (bspell o) a b.
Definition mun (o : unop) (a : val) : option val := apply_unary (uspell o) a.
Definition oval (o : option val) : outcome := match o with Some v => OVal v | None => OParseError end.
Definition obind (o : option val) (f : val -> option val) : option val := match o with Some v => f v | None => None end.


(* ------------------------------------------------------------------ one-step lemmas
   (symbolic execution of the parser by rewriting; also used by Proofs/C02g.v) *)
Lemma bspell_not_qm o : String.eqb (bspell o) "?" = false.
Proof. destruct o; reflexivity. Qed.

Lemma expr_num f p s v r : lit_value s = inr v -> expression (S f) p (num s :: r) = loop f p v r.
Proof. intros H. cbn [expression]. unfold primary, term, num. cbn [tkind tspell kind_eqb is_tok andb]. rewrite H. reflexivity. Qed.

Lemma expr_num_err f p s e r : lit_value s = inl e -> expression (S f) p (num s :: r) = PFatal e.
Proof. intros H. cbn [expression]. unfold primary, term, num. cbn [tkind tspell kind_eqb is_tok andb]. rewrite H. reflexivity. Qed.

Lemma expr_char f p s v r : char_value s = inr v -> expression (S f) p (Tok KChar s :: r) = loop f p v r.
Proof. intros H. cbn [expression]. unfold primary, term. cbn [tkind tspell kind_eqb is_tok andb]. rewrite H. reflexivity. Qed.

Lemma expr_uop f p u r :
  expression (S f) p (uop u :: r) =
  match expression f 12 r with
  | POk v r' => match apply_unary (uspell u) v with Some x => loop f p x r' | None => PFatal EValue end
  | PFail _ => PFail (uop u :: r)
  | PFatal e => PFatal e
  | POut => POut
  end.
Proof.
  cbn [expression]. unfold primary, uop. cbn [tkind tspell kind_eqb]. rewrite unary_table_is_C.
  destruct (expression f 12 r); try reflexivity. destruct (apply_unary (uspell u) v); reflexivity.
Qed.

Lemma expr_paren f p r :
  expression (S f) p (lpar :: r) =
  match expression f 0 r with
  | POk v (c :: r') => if is_tok KPunct ")" c then loop f p v r' else PFail (lpar :: r)
  | POk _ [] => PFail (lpar :: r)
  | PFail _ => PFail (lpar :: r)
  | PFatal e => PFatal e
  | POut => POut
  end.
Proof.
  cbn [expression]. unfold primary, lpar. cbn [tkind tspell kind_eqb is_tok andb String.eqb Ascii.eqb Bool.eqb].
  destruct (expression f 0 r) as [v [|c r']| | |]; try reflexivity.
  destruct (is_tok KPunct ")" c); reflexivity.
Qed.

Definition starts_call (r : list token) : bool :=
  match r with p :: _ => is_tok KPunct "(" p | [] => false end.
Lemma expr_id f p n r : starts_call r = false -> expression (S f) p (Tok KId n :: r) = loop f p zero r.
Proof.
  intros H. cbn [expression]. unfold primary, term. cbn [tkind tspell kind_eqb is_tok andb].
  destruct r as [|q r]; [reflexivity|]. cbn [starts_call] in H. unfold is_tok in *. rewrite H. reflexivity.
Qed.

Lemma loop_nil f p v : loop (S f) p v [] = POk v [].
Proof. reflexivity. Qed.

Lemma loop_other f p v t r : lookup (tspell t) binary_operators = None -> loop (S f) p v (t :: r) = POk v (t :: r).
Proof. intros H. cbn [loop]. rewrite H. reflexivity. Qed.

Lemma loop_bop f p v o r :
  loop (S f) p v (bop o :: r) =
  if (p <=? level o)%nat then
    match expression f (S (level o)) r with
    | POk w r1 => match apply_binary (bspell o) v w with Some x => loop f p x r1 | None => PFatal EValue end
    | other => other
    end
  else POk v (bop o :: r).
Proof.
  cbn [loop]. unfold bop. cbn [tkind tspell kind_eqb]. rewrite binary_table_is_C, bspell_not_qm. reflexivity.
Qed.

Lemma loop_qm f p v r :
  loop (S f) p v (qm :: r) =
  if (p <=? 1)%nat then
    match expression f 0 r with
    | POk tv (c :: r2) =>
        if is_tok KOp ":" c then
          match expression f 1 r2 with
          | POk fv r3 => loop f p (cond_value v tv fv) r3
          | other => other
          end
        else PFail (c :: r2)
    | POk _ [] => PFail []
    | other => other
    end
  else POk v (qm :: r).
Proof.
  cbn [loop]. unfold qm. cbn [tkind tspell kind_eqb]. rewrite ternary_table_is_C.
  cbn [String.eqb Ascii.eqb Bool.eqb rhs_prec].
  destruct (p <=? 1)%nat; [|reflexivity]. destruct (expression f 0 r) as [tv [|c r2]| | |]; reflexivity.
Qed.

Lemma colon_stops f p v r : loop (S f) p v (colon :: r) = POk v (colon :: r).
Proof. apply loop_other. reflexivity. Qed.
Lemma rpar_stops f p v r : loop (S f) p v (rpar :: r) = POk v (rpar :: r).
Proof. apply loop_other. reflexivity. Qed.

Lemma leb0 n : (0 <=? n)%nat = true.
Proof. reflexivity. Qed.
Lemma leb1_level o : (1 <=? level o)%nat = true.
Proof. destruct o; reflexivity. Qed.
Lemma leb2_level o : (2 <=? level o)%nat = true.
Proof. destruct o; reflexivity. Qed.
Lemma leb12_level o : (12 <=? level o)%nat = false.
Proof. destruct o; reflexivity. Qed.

(* ------------------------------------------------------------------ pairs *)
Section Pairs.
Variables sa sb sc sd se : string.
Variables va vb vc vd ve : val.
Hypothesis Ha : lit_value sa = inr va.
Hypothesis Hb : lit_value sb = inr vb.
Hypothesis Hc : lit_value sc = inr vc.
Hypothesis Hd : lit_value sd = inr vd.
Hypothesis He : lit_value se = inr ve.

Ltac lits := rewrite ?(expr_num _ _ _ _ _ Ha), ?(expr_num _ _ _ _ _ Hb), ?(expr_num _ _ _ _ _ Hc),
                     ?(expr_num _ _ _ _ _ Hd), ?(expr_num _ _ _ _ _ He).
Ltac step :=
  first [ rewrite loop_nil | rewrite colon_stops | rewrite loop_bop | rewrite loop_qm | rewrite expr_uop
        | rewrite leb0 | rewrite leb12_level | rewrite leb1_level
        | progress lits | progress cbn [is_tok colon tkind tspell kind_eqb andb String.eqb Ascii.eqb Bool.eqb] ].
Ltac go := cbn [obind oval]; repeat step; try reflexivity.
Ltac start := unfold evaluate, evaluate_fuel, fuel_for, mbin, mun; cbn [List.length Nat.mul Nat.add].

(* a o1 b o2 c  is  (a o1 b) o2 c  when o2 does not bind tighter than o1 (left associativity
   included), and  a o1 (b o2 c)  otherwise - for all 324 ordered pairs, by one symbolic proof *)
Theorem pairs o1 o2 :
  evaluate [num sa; bop o1; num sb; bop o2; num sc] =
  oval (if (level o2 <=? level o1)%nat
        then obind (mbin o1 va vb) (fun x => mbin o2 x vc)
        else obind (mbin o2 vb vc) (fun y => mbin o1 va y)).
Proof.
  start. repeat step.
  destruct (Nat.leb_spec (level o2) (level o1)) as [L|L].
  - replace (S (level o1) <=? level o2)%nat with false by (symmetry; apply Nat.leb_gt; lia).
    destruct (apply_binary (bspell o1) va vb) as [x|]; go.
    destruct (apply_binary (bspell o2) x vc); go.
  - replace (S (level o1) <=? level o2)%nat with true by (symmetry; apply Nat.leb_le; lia).
    go. destruct (apply_binary (bspell o2) vb vc) as [y|]; go.
    destruct (apply_binary (bspell o1) va y); go.
Qed.

(* unary operators bind tighter than every binary operator, on either side *)
Theorem unary_binds_tighter u o :
  evaluate [uop u; num sa; bop o; num sb] = oval (obind (mun u va) (fun x => mbin o x vb)).
Proof.
  start. go. destruct (apply_unary (uspell u) va) as [x|]; go.
  destruct (apply_binary (bspell o) x vb); go.
Qed.

Theorem unary_operand_is_unary u o :
  evaluate [num sa; bop o; uop u; num sb] = oval (obind (mun u vb) (fun y => mbin o va y)).
Proof.
  start. go. destruct (apply_unary (uspell u) vb) as [y|]; go.
  destruct (apply_binary (bspell o) va y); go.
Qed.

Theorem unary_right_assoc u1 u2 :
  evaluate [uop u1; uop u2; num sa] = oval (obind (mun u2 va) (fun x => mun u1 x)).
Proof.
  start. go. destruct (apply_unary (uspell u2) va) as [x|]; go.
  destruct (apply_unary (uspell u1) x); go.
Qed.

(* ?: binds looser than every binary operator, in each of its three operand positions *)
Theorem ternary_lowest_cond o :
  evaluate [num sa; bop o; num sb; qm; num sc; colon; num sd] =
  oval (obind (mbin o va vb) (fun x => Some (cond_value x vc vd))).
Proof.
  start. go. replace (S (level o) <=? 1)%nat with false by (destruct o; reflexivity).
  destruct (apply_binary (bspell o) va vb) as [x|]; go.
Qed.
Theorem ternary_lowest_then o :
  evaluate [num sa; qm; num sb; bop o; num sc; colon; num sd] =
  oval (obind (mbin o vb vc) (fun x => Some (cond_value va x vd))).
Proof.
  start. go. destruct (apply_binary (bspell o) vb vc) as [x|]; go.
Qed.
Theorem ternary_lowest_else o :
  evaluate [num sa; qm; num sb; colon; num sc; bop o; num sd] =
  oval (obind (mbin o vc vd) (fun x => Some (cond_value va vb x))).
Proof.
  start. go. destruct (apply_binary (bspell o) vc vd) as [x|]; go.
Qed.

(* a ? b : c ? d : e  is  a ? b : (c ? d : e) *)
Theorem ternary_right_assoc :
  evaluate [num sa; qm; num sb; colon; num sc; qm; num sd; colon; num se] =
  OVal (cond_value va vb (cond_value vc vd ve)).
Proof. start. go. Qed.
(* a ? b ? c : d : e  is  a ? (b ? c : d) : e *)
Theorem ternary_nested_then :
  evaluate [num sa; qm; num sb; qm; num sc; colon; num sd; colon; num se] =
  OVal (cond_value va (cond_value vb vc vd) ve).
Proof. start. go. Qed.
End Pairs.
