(* C15 — forward simulation between two runs of the skipping machine of
   Spec/C01.v over two DIFFERENT line lists whose plain actions are pairwise
   related (same conditional structure, same conditions).  Generalises
   Proofs/C01.v, Section Sim (one list, two interpretations). *)
From Coq Require Import List Bool Arith String.
From CBI Require Import Lib.Res Model.C01 Spec.C01.
Import ListNotations.

Section Sim2.
Variables ST1 ST2 ACT1 ACT2 COND : Type.
Variable mark1 : nat -> ST1 -> ST1.
Variable mark2 : nat -> ST2 -> ST2.
Variable exec1 : ACT1 -> ST1 -> res ST1.
Variable exec2 : ACT2 -> ST2 -> res ST2.
Variable ev1 : COND -> ST1 -> res bool.
Variable ev2 : COND -> ST2 -> res bool.
Variable Rel : ST1 -> ST2 -> Prop.
Variable AR : ACT1 -> ACT2 -> Prop.
Hypothesis Hmark : forall id p q, Rel p q -> Rel (mark1 id p) (mark2 id q).
Hypothesis Hev : forall c p q b, Rel p q -> ev1 c p = Ok b -> ev2 c q = Ok b.
Hypothesis Hexec : forall a1 a2 p q p', AR a1 a2 -> Rel p q -> exec1 a1 p = Ok p' ->
  exists q', exec2 a2 q = Ok q' /\ Rel p' q'.

Definition kind_rel (k1 : kind ACT1 COND) (k2 : kind ACT2 COND) : Prop :=
  match k1, k2 with
  | KPlain a1, KPlain a2 => AR a1 a2
  | KIf c1, KIf c2 => c1 = c2
  | KElif c1, KElif c2 => c1 = c2
  | KElse, KElse => True
  | KEndif, KEndif => True
  | _, _ => False
  end.
Definition line_rel (l1 : line ACT1 COND) (l2 : line ACT2 COND) : Prop :=
  fst l1 = fst l2 /\ kind_rel (snd l1) (snd l2).

Definition SRel (s : sst ST1) (t : sst ST2) : Prop := sstk ST1 s = sstk ST2 t /\ Rel (sp ST1 s) (sp ST2 t).

Lemma sstep_sim2 l1 l2 s t s' :
  line_rel l1 l2 -> SRel s t -> sstep ST1 ACT1 COND mark1 exec1 ev1 s l1 = Ok s' ->
  exists t', sstep ST2 ACT2 COND mark2 exec2 ev2 t l2 = Ok t' /\ SRel s' t'.
Proof.
  destruct l1 as [id k1], l2 as [id2 k2]. intros [Hid Hk]. cbn [fst snd] in *. subst id2.
  destruct s as [stk p], t as [stk2 q]. intros [Hs Hr]; cbn [sstk sp] in *. subst stk2.
  destruct k1 as [a1|c|c| |], k2 as [a2|c2|c2| |]; cbn in Hk; try contradiction; subst; cbn [sstep sstk sp].
  - destruct (live stk).
    + destruct (exec1 a1 (mark1 id p)) as [p'|e] eqn:E; [|discriminate]. intros H; inversion H; subst.
      destruct (Hexec a1 a2 _ _ _ Hk (Hmark id _ _ Hr) E) as (q' & -> & Hr'). eexists; split; [reflexivity|split; auto].
    + intros H; inversion H; subst. eexists; split; [reflexivity|split; auto].
  - destruct (live stk).
    + destruct (ev1 c2 (mark1 id p)) as [b|e] eqn:E; [|discriminate]. intros H; inversion H; subst.
      rewrite (Hev c2 _ _ _ (Hmark id _ _ Hr) E). eexists; split; [reflexivity|split; cbn; auto].
    + intros H; inversion H; subst. eexists; split; [reflexivity|split; cbn; auto].
  - destruct stk as [|f r]; [discriminate|]. destruct (outer f).
    + destruct (taken f).
      * intros H; inversion H; subst. eexists; split; [reflexivity|split; cbn; auto].
      * destruct (ev1 c2 (mark1 id p)) as [b|e] eqn:E; [|discriminate]. intros H; inversion H; subst.
        rewrite (Hev c2 _ _ _ (Hmark id _ _ Hr) E). eexists; split; [reflexivity|split; cbn; auto].
    + intros H; inversion H; subst. eexists; split; [reflexivity|split; cbn; auto].
  - destruct stk as [|f r]; [discriminate|]. destruct (outer f);
      intros H; inversion H; subst; eexists; (split; [reflexivity|split; cbn; auto]).
  - destruct stk as [|f r]; [discriminate|].
    intros H; inversion H; subst. eexists; split; [reflexivity|split; cbn; auto].
    destruct (outer f); auto.
Qed.

Lemma ssteps_sim2 ls1 : forall ls2 s t s',
  Forall2 line_rel ls1 ls2 -> SRel s t -> ssteps ST1 ACT1 COND mark1 exec1 ev1 s ls1 = Ok s' ->
  exists t', ssteps ST2 ACT2 COND mark2 exec2 ev2 t ls2 = Ok t' /\ SRel s' t'.
Proof.
  induction ls1 as [|l ls IH]; intros ls2 s t s' HL HR H; inversion HL; subst; cbn [ssteps] in *.
  - inversion H; subst. eauto.
  - destruct (sstep ST1 ACT1 COND mark1 exec1 ev1 s l) as [s1|e] eqn:E; [|discriminate].
    destruct (sstep_sim2 l y s t s1 H2 HR E) as (t1 & -> & HR1). apply (IH l' s1 t1 s' H4 HR1 H).
Qed.

Lemma run_S_sim2 ls1 ls2 p q p' :
  Forall2 line_rel ls1 ls2 -> Rel p q -> run_S ST1 ACT1 COND mark1 exec1 ev1 ls1 p = Ok p' ->
  exists q', run_S ST2 ACT2 COND mark2 exec2 ev2 ls2 q = Ok q' /\ Rel p' q'.
Proof.
  unfold run_S. intros HL HR H.
  destruct (ssteps ST1 ACT1 COND mark1 exec1 ev1 _ ls1) as [s'|e] eqn:E; [|discriminate].
  inversion H; subst.
  assert (HS : SRel {| sstk := []; sp := p |} {| sstk := []; sp := q |}) by (split; [reflexivity|exact HR]).
  destruct (ssteps_sim2 ls1 ls2 _ _ s' HL HS E) as (t' & -> & _ & HR').
  eauto.
Qed.
End Sim2.
