(* C03_funlike_partial, third step: `defined X` / `defined ( X )` in the plain
   parts of the source list (the usual shape of a controlling expression:
   `defined(A) && GE(V, 3)`). *)
From Coq Require Import ZArith String Ascii Bool List Lia Arith.
From CBI Require Import Lib.Data Lib.Res Model.C03tok Model.C03 Model.C03run Spec.C03.
From CBI Require Import Proofs.C03o Proofs.C03s Proofs.C03d Proofs.C03j Proofs.C03f Proofs.C03g.
Import ListNotations.
Local Open Scope string_scope.
Local Open Scope list_scope.

Section Defined3.
Variable fs : list fdef.
Hypothesis Hwf : wf_fdefs fs = true.
Notation tb := (mtable2 fs).
Notation stb := (stable2 fs).

(* plain part of the source: `defined` forms and source tokens *)
Fixpoint wfd3 (ts : list tok) : bool :=
  match ts with
  | [] => true
  | t :: r =>
      if is_def t then
        match r with
        | x :: r1 =>
            if is_punct "(" x then
              match r1 with
              | id :: c :: r2 => is_id id && is_punct ")" c && wfd3 r2
              | _ => false
              end
            else is_id x && negb (is_txt "(" x) && wfd3 r1
        | [] => false
        end
      else okf fs t && wfd3 r
  end.

Lemma items_ind3 (P : list tok -> Prop) :
  P [] ->
  (forall t x r, is_def t = true -> is_punct "(" x = false -> is_id x = true -> is_txt "(" x = false ->
                 P r -> P (t :: x :: r)) ->
  (forall t x id c r, is_def t = true -> is_punct "(" x = true -> is_id id = true -> is_punct ")" c = true ->
                      P r -> P (t :: x :: id :: c :: r)) ->
  (forall t r, is_def t = false -> okf fs t = true -> P r -> P (t :: r)) ->
  forall ts, wfd3 ts = true -> P ts.
Proof.
  intros H0 H1 H2 H3 ts.
  assert (Hn : forall n l, List.length l <= n -> wfd3 l = true -> P l).
  { induction n as [|n IH]; intros l Hl Hw.
    - destruct l; [exact H0|cbn in Hl; lia].
    - destruct l as [|t r]; [exact H0|]. cbn [wfd3] in Hw.
      destruct (is_def t) eqn:Hd.
      + destruct r as [|x r1]; [discriminate|].
        destruct (is_punct "(" x) eqn:Hp.
        * destruct r1 as [|id [|c r2]]; try discriminate.
          rewrite !andb_true_iff in Hw. destruct Hw as [[Hi Hc] Hw].
          apply H2; try assumption. apply IH; [cbn in Hl; lia|assumption].
        * rewrite !andb_true_iff, negb_true_iff in Hw. destruct Hw as [[Hx Hnp] Hw].
          apply H1; try assumption. apply IH; [cbn in Hl; lia|assumption].
      + rewrite andb_true_iff in Hw. destruct Hw as [Ho Hw].
        apply H3; try assumption. apply IH; [cbn in Hl; lia|assumption]. }
  intros Hw. exact (Hn (List.length ts) ts (le_n _) Hw).
Qed.

(* the plain part after the evaluation of `defined` *)
Definition numd3 (d x : tok) : tok :=
  mkTok KNum (tw d) (if is_macname fs (tt x) then "1" else "0") true.
Fixpoint DSt3 (ts : list tok) : list tok :=
  match ts with
  | [] => []
  | t :: r =>
      if is_def t then
        match r with
        | x :: r1 =>
            if is_punct "(" x then
              match r1 with
              | id :: _ :: r2 => numd3 t id :: DSt3 r2
              | _ => []
              end
            else numd3 t x :: DSt3 r1
        | [] => []
        end
      else t :: DSt3 r
  end.

Lemma src_numd3 d x : src_tok fs (numd3 d x) = true.
Proof. unfold numd3. destruct (is_macname fs (tt x)); reflexivity. Qed.

Lemma wfd3_wfd ts : wfd3 ts = true -> wfd tb ts = true.
Proof.
  apply (items_ind3 (fun l => wfd tb l = true)); [reflexivity| | |].
  - intros t x r Hd Hp Hx Hnp IH. cbn [wfd]. unfold is_def in Hd. rewrite Hd, Hnp, Hx. exact IH.
  - intros t x id c r Hd Hp Hi Hc IH. cbn [wfd]. unfold is_def in Hd.
    rewrite Hd, (is_punct_txt _ _ Hp), Hi, (is_punct_txt _ _ Hc). exact IH.
  - intros t r Hd Ho IH. cbn [wfd]. unfold is_def in Hd. rewrite Hd.
    pose proof (okf_okt2 fs t Ho) as H2. unfold okt2 in H2. apply andb_true_iff in H2. destruct H2 as [_ Hn].
    unfold okf in Ho. apply andb_true_iff in Ho. destruct Ho as [Hok _]. now rewrite (okd_tx t Hok), Hn.
Qed.

Lemma DSt3_src ts : wfd3 ts = true -> forallb (src_tok fs) (DSt3 ts) = true.
Proof.
  apply (items_ind3 (fun l => forallb (src_tok fs) (DSt3 l) = true)); [reflexivity| | |].
  - intros t x r Hd Hp _ _ IH. cbn [DSt3]. rewrite Hd, Hp. cbn [forallb]. now rewrite src_numd3.
  - intros t x id c r Hd Hp _ _ IH. cbn [DSt3]. rewrite Hd, Hp. cbn [forallb]. now rewrite src_numd3.
  - intros t r Hd Ho IH. cbn [DSt3]. rewrite Hd. cbn [forallb]. unfold src_tok. now rewrite Ho, Hd.
Qed.

Lemma macname_slookup s : (match slookup stb s with Some _ => "1" | None => "0" end) = (if is_macname fs s then "1" else "0").
Proof. rewrite slookup2. unfold is_macname. destruct (flookup fs s); reflexivity. Qed.
Lemma macname_get s : (match get_macro tb s with Some _ => "1" | None => "0" end) = (if is_macname fs s then "1" else "0").
Proof. rewrite get_mtable2. unfold is_macname. destruct (flookup fs s); reflexivity. Qed.

(* sdefined is compositional over a complete plain part *)
Lemma sdefined_DSt3 ts rest : wfd3 ts = true ->
  sdefined stb (map btok_of (ts ++ rest))
  = match sdefined stb (map btok_of rest) with Ok r => Ok (map btok_of (DSt3 ts) ++ r) | Err e => Err e end.
Proof.
  apply (items_ind3 (fun l => sdefined stb (map btok_of (l ++ rest))
     = match sdefined stb (map btok_of rest) with Ok r => Ok (map btok_of (DSt3 l) ++ r) | Err e => Err e end)).
  - cbn. now destruct (sdefined stb (map btok_of rest)).
  - intros t x r Hd Hp Hx _ IH. cbn [app map sdefined DSt3]. rewrite Hd, Hp.
    change (b_is KId "defined" (btok_of t)) with (is_def t). rewrite Hd.
    change (tkind_eqb (bk (btok_of x)) KId) with (is_id x). rewrite Hx. rewrite IH.
    destruct (sdefined stb (map btok_of rest)); [|reflexivity]. cbn [map app].
    unfold numd3, btok_of at 2. cbn [tk tw tt btok_of bt bw]. now rewrite macname_slookup.
  - intros t x id c r Hd Hp Hi Hc IH. cbn [app map sdefined DSt3]. rewrite Hd, Hp.
    change (b_is KId "defined" (btok_of t)) with (is_def t). rewrite Hd.
    assert (Hxk : is_id x = false).
    { unfold is_punct in Hp. apply andb_true_iff in Hp. destruct Hp as [Hk _]. unfold is_id. destruct (tk x); try discriminate; reflexivity. }
    change (tkind_eqb (bk (btok_of x)) KId) with (is_id x). rewrite Hxk.
    change (b_is KPunct "(" (btok_of x)) with (is_punct "(" x). rewrite Hp.
    change (tkind_eqb (bk (btok_of id)) KId) with (is_id id). rewrite Hi.
    change (b_is KPunct ")" (btok_of c)) with (is_punct ")" c). rewrite Hc. cbn [andb].
    rewrite IH. destruct (sdefined stb (map btok_of rest)); [|reflexivity]. cbn [map app].
    unfold numd3, btok_of at 2. cbn [tk tw tt btok_of bt bw]. now rewrite macname_slookup.
  - intros t r Hd Ho IH. cbn [app map sdefined DSt3]. rewrite Hd.
    change (b_is KId "defined" (btok_of t)) with (is_def t). rewrite Hd. rewrite IH.
    now destruct (sdefined stb (map btok_of rest)).
Qed.

Lemma sdefined_nodef l rest : forallb (fun t => negb (is_def t)) l = true ->
  sdefined stb (map btok_of (l ++ rest))
  = match sdefined stb (map btok_of rest) with Ok r => Ok (map btok_of l ++ r) | Err e => Err e end.
Proof.
  induction l as [|t r IH]; intros H; cbn [app map sdefined].
  - now destruct (sdefined stb (map btok_of rest)).
  - cbn [forallb] in H. apply andb_true_iff in H. destruct H as [Ht Hr]. apply negb_true_iff in Ht.
    change (b_is KId "defined" (btok_of t)) with (is_def t). rewrite Ht, (IH Hr).
    now destruct (sdefined stb (map btok_of rest)).
Qed.

Lemma EI_DSt3 d ne ts : wfd3 ts = true ->
  map sp (EI tb d ne ts) = map sp (flat_map (E tb d ne) (DSt3 ts)).
Proof.
  apply (items_ind3 (fun l => map sp (EI tb d ne l) = map sp (flat_map (E tb d ne) (DSt3 l)))); [reflexivity| | |].
  - intros t x r Hd Hp Hx Hnp IH. cbn [EI DSt3]. unfold is_def in Hd. rewrite Hd, Hnp. fold (is_def t).
    unfold is_def. rewrite Hd, Hp. cbn [flat_map map]. rewrite E_eq. cbn [numd3 is_id tk tkind_eqb negb app map].
    rewrite IH. f_equal. unfold sp, defined_tok, numd3. cbn [tk tt]. now rewrite macname_get.
  - intros t x id c r Hd Hp Hi Hc IH. cbn [EI DSt3]. unfold is_def in Hd. rewrite Hd, (is_punct_txt _ _ Hp).
    unfold is_def. rewrite Hd, Hp. cbn [flat_map map]. rewrite E_eq. cbn [numd3 is_id tk tkind_eqb negb app map].
    rewrite IH. f_equal. unfold sp, defined_tok, numd3. cbn [tk tt]. now rewrite macname_get.
  - intros t r Hd Ho IH. cbn [EI DSt3]. unfold is_def in Hd. rewrite Hd. unfold is_def. rewrite Hd.
    cbn [flat_map]. now rewrite !map_app, IH.
Qed.

(* ---------- source lists: plain parts with `defined`, and invocations ---------- *)
Definition wf_src3 (i : sitem) : Prop :=
  match i with
  | SToks l => wfd3 l = true
  | SCall _ _ _ _ _ => wf_src2 fs i
  end.
Definition convert (i : sitem) : sitem :=
  match i with SToks l => SToks (DSt3 l) | c => c end.

Lemma src_okd l : forallb (src_tok fs) l = true -> forallb okd l = true.
Proof.
  apply forallb_impl. intros x Hx. unfold src_tok, okf in Hx. rewrite !andb_true_iff in Hx. tauto.
Qed.

Lemma convert_wf i : wf_src3 i -> wf_src2 fs (convert i).
Proof.
  destruct i as [l|t lp a more rp]; cbn [wf_src3 convert]; [|auto].
  intros H. pose proof (DSt3_src l H) as Hs. split; [cbn [stoks]; now apply src_okd|exact Hs].
Qed.

Lemma punct_nodef s x : is_punct s x = true -> is_def x = false.
Proof.
  unfold is_punct, is_def, is_id. rewrite andb_true_iff. intros [Hk _]. destruct (tk x); try discriminate; reflexivity.
Qed.

Lemma call_nodef t lp a more rp : wf_src2 fs (SCall t lp a more rp) ->
  forallb (fun x => negb (is_def x)) (stoks (SCall t lp a more rp)) = true.
Proof.
  intros [_ (Hid & Hdef & Hlp & Hrp & Ha & Hmore & _)]. cbn [stoks forallb]. rewrite Hdef, (punct_nodef _ _ Hlp). cbn [negb andb].
  rewrite !forallb_app. cbn [forallb]. rewrite (punct_nodef _ _ Hrp). cbn [negb andb].
  assert (Harg : forall l, forallb (arg_tok2 fs) l = true -> forallb (fun x => negb (is_def x)) l = true).
  { intros l. apply forallb_impl. intros x Hx. destruct (arg2_facts fs x Hx) as (_ & _ & _ & Hd). now rewrite Hd. }
  rewrite (Harg a Ha). cbn [andb]. rewrite andb_true_r.
  induction Hmore as [|[c a2] r [Hc Ha2] Hr IH]; [reflexivity|]. cbn [flat_more forallb fst snd] in *.
  rewrite (punct_nodef _ _ Hc). cbn [negb andb]. rewrite forallb_app, (Harg a2 Ha2), IH. reflexivity.
Qed.

Lemma sdefined_items items : Forall wf_src3 items ->
  sdefined stb (map btok_of (flat_map stoks items)) = Ok (map btok_of (flat_map stoks (map convert items))).
Proof.
  intros H. induction H as [|i items Hi Hr IH]; [reflexivity|]. cbn [flat_map map].
  destruct i as [l|t lp a more rp]; cbn [wf_src3 convert stoks] in *.
  - rewrite (sdefined_DSt3 l _ Hi), IH. now rewrite map_app.
  - rewrite (sdefined_nodef _ _ (call_nodef t lp a more rp Hi)), IH. now rewrite map_app.
Qed.

Lemma wf_src3_sitem lead cat_fix str_white resub_fix va_fix d i :
  wf_src3 i -> wf_sitem lead cat_fix str_white resub_fix va_fix tb d [None] i.
Proof.
  destruct i as [l|t lp a more rp]; cbn [wf_src3]; intros H.
  - cbn [wf_sitem]. now apply wfd3_wfd.
  - now apply (wf_src2_sitem fs Hwf).
Qed.

Lemma item_corr3 lead cat_fix str_white resub_fix va_fix d i :
  wf_src3 i -> List.length fs = S d ->
  map sp (item_out lead cat_fix str_white resub_fix va_fix tb d [None] i) = map sph (sitem_out2 fs d (convert i)).
Proof.
  intros Hi Hfs. pose proof (item_corr2 fs Hwf lead cat_fix str_white resub_fix va_fix d (convert i) (convert_wf i Hi) Hfs) as Hc.
  destruct i as [l|t lp a more rp]; cbn [wf_src3 convert] in *; [|exact Hc].
  rewrite <- Hc. cbn [item_out]. rewrite (EI_DSt3 (S d) [None] l Hi).
  now rewrite (EI_plain fs (S d) [None] (DSt3 l) (DSt3_src l Hi)).
Qed.

Theorem funlike3_main (lead cat_fix str_white resub_fix va_fix va_whole : bool) (max_level : nat) (items : list sitem) :
  Forall wf_src3 items -> fs <> [] ->
  S (S (List.length fs)) < max_level ->
  exists n, forall fuel, n <= fuel ->
    exists out,
      expand lead cat_fix str_white resub_fix None false va_fix va_whole max_level tb fuel (flat_map stoks items) = Ok out /\
      run_spec fuel stb (map btok_of (flat_map stoks items)) = Ok (map sp out).
Proof.
  intros Hitems Hne Hlev.
  assert (Hnames : List.length (names tb) = List.length fs) by (unfold names, mtable2; now rewrite !map_length).
  assert (Hsnames : List.length (snames stb) = List.length fs) by (unfold snames, stable2; now rewrite !map_length).
  assert (Hpos : List.length fs <> 0) by (destruct fs; [contradiction|discriminate]).
  set (d := Nat.pred (List.length fs)).
  assert (Hfs : List.length fs = S d) by (unfold d; lia).
  destruct (expand_src lead cat_fix str_white resub_fix va_fix va_whole max_level tb (Hobj2 fs Hwf) items) as (n1 & H1).
  { rewrite Hnames. rewrite Forall_forall in Hitems |- *. intros i Hi. now apply wf_src3_sitem, Hitems. }
  { now rewrite Hnames. }
  { now rewrite Hnames. }
  assert (Hconv : Forall (wf_src2 fs) (map convert items)).
  { rewrite Forall_forall in Hitems |- *. intros i Hi. apply in_map_iff in Hi. destruct Hi as (i0 & <- & Hi0). now apply convert_wf, Hitems. }
  destruct (S_src2 fs Hwf d (map convert items) Hconv) as (n2 & m2 & H2).
  { now rewrite Hsnames. }
  exists (n1 + n2 + m2 + 1). intros fuel Hf. eexists. split; [apply H1; lia|].
  unfold run_spec. rewrite (table_ok2 fs Hwf). cbn [negb]. rewrite (sdefined_items items Hitems).
  rewrite map_map. change (fun x => lift [] (btok_of x)) with hl0.
  replace fuel with (n2 + (fuel - n2)) by lia.
  rewrite <- (app_nil_r (map hl0 (flat_map stoks (map convert items)))).
  rewrite (H2 (fuel - n2)) with (r := []); [| lia |].
  2:{ destruct (fuel - n2) eqn:E; [lia|reflexivity]. }
  rewrite app_nil_r. f_equal. rewrite Hnames. fold d.
  clear -Hitems Hfs Hwf. induction Hitems as [|i items Hi Hr IH]; [reflexivity|].
  cbn [flat_map map]. rewrite !map_app, IH. now rewrite (item_corr3 lead cat_fix str_white resub_fix va_fix d i Hi Hfs).
Qed.
End Defined3.
