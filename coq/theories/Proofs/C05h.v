(* C05, step 3: the generic model commutes with a homomorphism of character /
   buffer algebras.  Instantiated in C05b.v with (classify, babs). *)
From Coq Require Import ZArith Bool Arith List.
From CBI Require Import Lib.Data Model.C05.
Import ListNotations.

Definition map_ll {B1 B2} (h : B1 -> B2) (l : lline B1) : lline B2 :=
  {| ll_start := ll_start l; ll_end := ll_end l; ll_lines := ll_lines l; ll_sloc := ll_sloc l;
     ll_cat := ll_cat l; ll_buf := h (ll_buf l) |}.
Definition map_res {B1 B2} (h : B1 -> B2) (r : fs_result B1) : fs_result B2 :=
  match r with
  | FsOk out t n => FsOk (map (map_ll h) out) t n
  | FsErr e => FsErr e
  end.
Definition map_line {C1 C2} (g : C1 -> C2) (l : pline C1) : pline C2 := (map g (fst l), snd l).

Section Hom.
Context {C1 B1 C2 B2 : Type} (A1 : alg C1 B1) (A2 : alg C2 B2) (g : C1 -> C2) (h : B1 -> B2) (I : B1 -> Prop).
Hypothesis Hcls : forall c, a_cls A2 (g c) = a_cls A1 c.
Hypothesis Hslash : g (a_slash A1) = a_slash A2.
Hypothesis Hempty : h (a_empty A1) = a_empty A2.
Hypothesis Iempty : I (a_empty A1).
Hypothesis Hchar : forall c b, I b -> h (a_char A1 c b) = a_char A2 (g c) (h b).
Hypothesis Ichar : forall c b, I b -> I (a_char A1 c b).
Hypothesis Hspace : forall b, I b -> h (a_space A1 b) = a_space A2 (h b).
Hypothesis Ispace : forall b, I b -> I (a_space A1 b).
Hypothesis Hnon : forall c b, I b -> h (a_nonspace A1 c b) = a_nonspace A2 (g c) (h b).
Hypothesis Inon : forall c b, I b -> I (a_nonspace A1 c b).
Hypothesis Hjoin : forall a b, I a -> I b -> h (a_join A1 a b) = a_join A2 (h a) (h b).
Hypothesis Ijoin : forall a b, I a -> I b -> I (a_join A1 a b).
Hypothesis Hcat : forall b, I b -> a_cat A2 (h b) = a_cat A1 b.

Lemma mstep_hom st : forall b c, I b ->
  mstep A2 st (h b) (g c) = (fst (mstep A1 st b c), h (snd (mstep A1 st b c))) /\ I (snd (mstep A1 st b c)).
Proof.
  induction st as [|m r IH]; intros b c Ib; [cbn; auto|].
  destruct m; cbn [mstep]; unfold step_top, step_cpp; rewrite ?Hcls;
    try (destruct (a_cls A1 c); cbn [fst snd]; rewrite ?Hnon, ?Hchar, ?Hspace, ?Hcat by assumption;
         try (destruct (cat_blank (a_cat A1 b)); cbn [fst snd]; rewrite ?Hnon, ?Hchar by assumption);
         auto; fail).
  - (* SLASH *)
    destruct (a_cls A1 c); cbn [fst snd]; auto;
      rewrite <- Hslash, <- Hchar by assumption; apply IH; apply Ichar; assumption.
  - (* BSTAR *)
    destruct (a_cls A1 c); cbn [fst snd]; auto;
      destruct r as [|[] r']; cbn [fst snd]; rewrite ?Hspace by assumption; auto.
Qed.

Lemma process_hom body : forall st b, I b ->
  process A2 st (h b) (map g body) = (fst (process A1 st b body), h (snd (process A1 st b body))) /\
  I (snd (process A1 st b body)).
Proof.
  unfold process. induction body as [|c body IH]; intros st b Ib; cbn [map fold_left]; [auto|].
  replace (mstep' A2 (st, h b) (g c)) with (mstep A2 st (h b) (g c)) by reflexivity.
  replace (mstep' A1 (st, b) c) with (mstep A1 st b c) by reflexivity.
  destruct (mstep_hom st b c Ib) as [E Ib']. rewrite E.
  destruct (mstep A1 st b c) as [st1 b1]. cbn [fst snd] in *. apply IH. exact Ib'.
Qed.

Lemma newline_hom st b : I b ->
  logical_newline A2 st (h b) = (fst (logical_newline A1 st b), h (snd (logical_newline A1 st b))) /\
  I (snd (logical_newline A1 st b)).
Proof.
  intros Ib. destruct st as [|[] r]; cbn [logical_newline fst snd]; auto.
  - rewrite <- Hslash, Hnon by assumption. auto.
  - destruct r as [|[] r']; cbn; auto.
  - rewrite Hspace by assumption. auto.
Qed.

Definition fs_rel (f1 : fs B1) (f2 : fs B2) : Prop :=
  fs_st f2 = fs_st f1 /\ fs_L f2 = h (fs_L f1) /\ I (fs_L f1) /\ fs_lines f2 = fs_lines f1 /\
  fs_sloc f2 = fs_sloc f1 /\ fs_start f2 = fs_start f1 /\ fs_total f2 = fs_total f1 /\
  fs_out f2 = map (map_ll h) (fs_out f1).

Lemma close_hom st L lines sloc start total out n : I L ->
  fs_rel (close_logical A1 st L lines sloc start total out n)
         (close_logical A2 st (h L) lines sloc start total (map (map_ll h) out) n).
Proof.
  intros IL. unfold close_logical, fs_rel. cbn [fs_st fs_L fs_lines fs_sloc fs_start fs_total fs_out].
  rewrite Hcat by assumption. repeat split; auto.
  destruct (cat_blank (a_cat A1 L)); [reflexivity|]. rewrite map_app. reflexivity.
Qed.

Lemma phys_line_hom f1 f2 n l : fs_rel f1 f2 -> fs_rel (phys_line A1 f1 n l) (phys_line A2 f2 n (map_line g l)).
Proof.
  intros (R1 & R2 & R3 & R4 & R5 & R6 & R7 & R8). destruct l as [body continued].
  unfold phys_line, map_line. cbn [fst snd]. rewrite R1, <- Hempty.
  destruct (process_hom body (fs_st f1) (a_empty A1) Iempty) as [E Ib1]. rewrite E.
  destruct (process A1 (fs_st f1) (a_empty A1) body) as [st1 b1]. cbn [fst snd] in *.
  assert (E2 : (if negb continued && negb (top_is_block st1) then logical_newline A2 st1 (h b1) else (st1, h b1))
               = (fst (if negb continued && negb (top_is_block st1) then logical_newline A1 st1 b1 else (st1, b1)),
                  h (snd (if negb continued && negb (top_is_block st1) then logical_newline A1 st1 b1 else (st1, b1))))
               /\ I (snd (if negb continued && negb (top_is_block st1) then logical_newline A1 st1 b1 else (st1, b1)))).
  { destruct (negb continued && negb (top_is_block st1)); [apply newline_hom; assumption | auto]. }
  destruct E2 as [E2 Ib2]. rewrite E2.
  destruct (if negb continued && negb (top_is_block st1) then logical_newline A1 st1 b1 else (st1, b1)) as [st2 b2].
  cbn [fst snd] in *. rewrite Hcat, R2, R4, R5, R6, R7, R8, <- Hjoin by assumption.
  destruct (negb continued && negb (top_is_block st2)).
  - apply close_hom. apply Ijoin; assumption.
  - unfold fs_rel. cbn [fs_st fs_L fs_lines fs_sloc fs_start fs_total fs_out]. repeat split; auto.
Qed.

Lemma phys_loop_hom ls : forall f1 f2 n, fs_rel f1 f2 ->
  fs_rel (phys_loop A1 f1 n ls) (phys_loop A2 f2 n (map (map_line g) ls)).
Proof.
  induction ls as [|l ls IH]; intros f1 f2 n R; cbn [phys_loop map]; [exact R|].
  apply IH. apply phys_line_hom. exact R.
Qed.

Theorem file_source_hom ls :
  c_file_source A2 (map (map_line g) ls) = map_res h (c_file_source A1 ls).
Proof.
  unfold c_file_source. rewrite map_length.
  assert (R0 : fs_rel (fs_init A1) (fs_init A2)).
  { unfold fs_rel, fs_init. cbn. repeat split; auto. }
  pose proof (phys_loop_hom ls _ _ 1 R0) as (R1 & R2 & R3 & R4 & R5 & R6 & R7 & R8).
  rewrite R1, R2, R4, R5, R6, R7, R8.
  destruct (has_err (fs_st (phys_loop A1 (fs_init A1) 1 ls))); [reflexivity|].
  destruct (fs_st (phys_loop A1 (fs_init A1) 1 ls)) as [|[] [|? ?]]; try reflexivity.
  pose proof (close_hom [TOP] (fs_L (phys_loop A1 (fs_init A1) 1 ls)) (fs_lines (phys_loop A1 (fs_init A1) 1 ls))
                (fs_sloc (phys_loop A1 (fs_init A1) 1 ls)) (fs_start (phys_loop A1 (fs_init A1) 1 ls))
                (fs_total (phys_loop A1 (fs_init A1) 1 ls)) (fs_out (phys_loop A1 (fs_init A1) 1 ls)) (length ls) R3)
    as (_ & _ & _ & _ & _ & _ & Q7 & Q8).
  cbn [map_res]. rewrite Q7, Q8. reflexivity.
Qed.

Lemma parse_step_hom p (l : lline B1) : parse_step p (map_ll h l) = parse_step p l.
Proof. reflexivity. Qed.

Theorem parse_file_hom ls : parse_file A2 (map (map_line g) ls) = parse_file A1 ls.
Proof.
  unfold parse_file. rewrite file_source_hom.
  destruct (c_file_source A1 ls) as [out t n|e]; cbn [map_res]; [|reflexivity].
  f_equal. f_equal. clear. generalize ps_init. induction out as [|l out IH]; intros p; cbn [map fold_left]; [reflexivity|].
  rewrite parse_step_hom. apply IH.
Qed.
End Hom.
