(* C15 — the two-world theorem instantiated twice and composed:
   (A) one tree, two content tables and two configurations that differ in the
       spelling of entry files, -I directories, #include / -include names;
   (B) a tree and the same tree with every link removed, canonical contents
       and configuration (names that meet no link from any real directory);
   (A)+(B): the aliased code base and the canonical code base with the links
       removed yield the same marks and the same setmap. *)
From Coq Require Import Bool Arith ZArith String List.
From CBI Require Import Lib.Res Model.C01 Spec.C01 Model.C04 Model.C15fs Model.C15 Model.C15i
     Proofs.C15fs Proofs.C15enum Proofs.C15 Proofs.C15i Proofs.C15w.
Import ListNotations.
Local Open Scope list_scope.

Lemma find_ext_in {A} (f g : A -> bool) l : (forall x, In x l -> f x = g x) -> find f l = find g l.
Proof.
  induction l as [|a l IH]; [reflexivity|]. intros H. cbn. rewrite (H a (or_introl eq_refl)).
  destruct (g a); [reflexivity|]. apply IH. intros x Hx. apply H. right. exact Hx.
Qed.
Lemma Forall2_diag {A} (P : A -> Prop) (R : A -> A -> Prop) l :
  (forall x, P x -> R x x) -> Forall P l -> Forall2 R l l.
Proof. intros H. induction 1; constructor; auto. Qed.
Lemma fold_left_ext_in {A B} (f g : A -> B -> A) l : forall a,
  (forall a x, In x l -> f a x = g a x) -> fold_left f l a = fold_left g l a.
Proof.
  induction l as [|x l IH]; intros a H; [reflexivity|]. cbn. rewrite (H a x (or_introl eq_refl)).
  apply IH. intros a' y Hy. apply H. right. exact Hy.
Qed.

(* ====================== (A) one tree, two spellings ====================== *)
Section InstA.
Variable root : fnode.
Variables tab1 tab2 : ctable.
Variable D : list path.                 (* the directories from which a name may be searched *)

Notation rpx := (rp_i root).
(* what a candidate yields: the real path of a regular file, or nothing *)
Definition fres (p : path) : option path :=
  if isfile_A (getf_i root tab1) (rpx p) then Some (rpx p) else None.
(* n1 and n2 denote the same file (or both none) from every search directory *)
Definition name_equiv (n1 n2 : path) : Prop := forall d, In d D -> fres (d ++ n1) = fres (d ++ n2).
(* d1 and d2 are spellings of one search directory *)
Definition dir_pair (d1 d2 : path) : Prop := exists d, In d D /\ same_real root d1 d /\ same_real root d2 d.
Definition GoodA (q : path) : Prop := In (dirname q) D.

(* the two tables hold the same files up to the spelling of include names *)
Definition tab_rel : Prop :=
  forall k, match clookup k tab1, clookup k tab2 with
            | Some (l1, w1), Some (l2, w2) => Forall2 (lrel name_equiv) l1 l2 /\ w1 = w2
            | None, None => True
            | _, _ => False
            end.
Hypothesis Htab : tab_rel.
(* D contains the directory of every regular file *)
Hypothesis HD : forall q, isfile_A (getf_i root tab1) q = true -> In (dirname (rpx q)) D.

Lemma contentA q : GoodA q ->
  match getf_i root tab1 q, getf_i root tab2 q with
  | Some l1, Some l2 => Forall2 (lrel name_equiv) l1 l2
  | None, None => True
  | _, _ => False
  end.
Proof.
  intros _. unfold getf_i, entry_at. destruct (node_at root q) as [[k|kk|a t]|]; try exact I.
  pose proof (Htab k) as H. destruct (clookup k tab1) as [[l1 w1]|], (clookup k tab2) as [[l2 w2]|]; cbn; try contradiction; tauto.
Qed.

Lemma isfileA x : isfile_A (getf_i root tab1) x = isfile_A (getf_i root tab2) x.
Proof.
  unfold isfile_A, getf_i, entry_at. destruct (node_at root x) as [[k|kk|a t]|]; try reflexivity.
  pose proof (Htab k) as H. destruct (clookup k tab1) as [[l1 w1]|], (clookup k tab2) as [[l2 w2]|]; cbn; try contradiction; reflexivity.
Qed.

Lemma find_fres L1 : forall L2, Forall2 (fun x y => fres x = fres y) L1 L2 ->
  find (isfile_A (getf_i root tab1)) (map rpx L1) = find (isfile_A (getf_i root tab1)) (map rpx L2).
Proof.
  induction L1 as [|x L1 IH]; intros L2 H; inversion H as [|x' y l1 l2 Hxy Hr]; subst; [reflexivity|].
  cbn. unfold fres in Hxy.
  destruct (isfile_A (getf_i root tab1) (rpx x)), (isfile_A (getf_i root tab1) (rpx y)); try discriminate.
  - inversion Hxy. reflexivity.
  - apply IH. exact Hr.
Qed.

Lemma searchA ds1 ds2 n1 n2 cur a :
  Forall2 dir_pair ds1 ds2 -> name_equiv n1 n2 -> GoodA cur ->
  match search_A rpx (getf_i root tab1) ds1 (n1, dirname cur, a), search_A rpx (getf_i root tab2) ds2 (n2, dirname cur, a) with
  | Some f1, Some f2 => f1 = f2 /\ rpx f1 = rpx f2 /\ GoodA (rpx f1)
  | None, None => True
  | _, _ => False
  end.
Proof.
  intros Hd Hn Hg. unfold search_A.
  rewrite <- (find_ext_in _ (isfile_A (getf_i root tab2)) _ (fun x _ => isfileA x)).
  unfold candidates_A.
  assert (E1 : forall n (L : list path), map (fun d => rpx (d ++ n)) L = map rpx (map (fun d => d ++ n) L))
    by (intros n L; rewrite map_map; reflexivity).
  rewrite !E1.
  rewrite (find_fres (map (fun d => d ++ n1) ((if a then [] else [dirname cur]) ++ ds1))
                     (map (fun d => d ++ n2) ((if a then [] else [dirname cur]) ++ ds2))).
  - destruct (find _ _) as [f|] eqn:Ef; [|exact I]. split; [reflexivity|]. split; [reflexivity|].
    destruct (find_some _ _ Ef) as [_ Hf]. exact (HD f Hf).
  - rewrite !map_app. apply Forall2_app.
    + destruct a; constructor; [apply Hn; exact Hg|constructor].
    + clear - Hd Hn. induction Hd as [|d1 d2 l1 l2 (d & Hin & H1 & H2) _ IH]; constructor; [|exact IH].
      unfold fres. rewrite (same_real_rp root _ _ (dir_alias root link_fuel d1 d n1 H1)),
                           (same_real_rp root _ _ (dir_alias root link_fuel d2 d n2 H2)).
      apply (Hn d Hin).
Qed.

Definition alias_entry2 (e1 e2 : entry) : Prop :=
  same_real root (e_file e1) (e_file e2) /\ In (dirname (rpx (e_file e2))) D /\
  Forall2 dir_pair (e_dirs e1) (e_dirs e2) /\
  defs_rel name_equiv (e_defs e1) (e_defs e2) /\ Forall2 name_equiv (e_incs e1) (e_incs e2).
Definition alias_cfg2 (c1 c2 : list (nat * entry)) : Prop :=
  Forall2 (fun x y => fst x = fst y /\ alias_entry2 (snd x) (snd y)) c1 c2.

Lemma alias_cfg2_rel c1 c2 : alias_cfg2 c1 c2 -> cfg_rel rpx rpx name_equiv dir_pair GoodA c1 c2.
Proof.
  induction 1 as [|x y l1 l2 [Hp (Hf & Hg & Hd & H3 & H4)] _ IH]; constructor; [|exact IH].
  split; [exact Hp|]. pose proof (same_real_rp root _ _ Hf) as E.
  split; [exact E|]. split; [unfold GoodA; rewrite E; exact Hg|]. split; [exact Hd|split; assumption].
Qed.

Theorem find_alias_names fuel members c1 c2 ms :
  tab_structured tab1 -> tab_structured tab2 -> alias_cfg2 c1 c2 ->
  Forall (fun fn => In (dirname (rpx fn)) D) members ->
  find_A rpx (getf_i root tab1) fuel members c1 = Ok ms ->
  find_A rpx (getf_i root tab2) fuel members c2 = Ok ms.
Proof.
  intros S1 S2 Hc Hm.
  apply (find_sim2 rpx rpx (getf_i root tab1) (getf_i root tab2) name_equiv dir_pair GoodA
           (getf_structured root tab1 S1) (getf_structured root tab2 S2) searchA contentA fuel members members c1 c2 ms).
  - unfold same_files. induction Hm; constructor; [split; [reflexivity|assumption]|assumption].
  - apply alias_cfg2_rel. exact Hc.
Qed.

End InstA.

(* every directory of the tree *)
Definition is_dir_at (root : fnode) (p : path) : bool := match node_at root p with Some (Dir _) => true | _ => false end.
Definition alldirs (root : fnode) : list path := [] :: filter (is_dir_at root) (walk root []).

Lemma kid_some_in c k kids : kid c kids = Some k -> In (c, k) kids.
Proof.
  induction kids as [|[n0 k0] r IH]; cbn; [discriminate|]. destruct (String.eqb n0 c) eqn:E.
  - apply String.eqb_eq in E. subst. intros H; inversion H; subst. left. reflexivity.
  - intros H. right. apply IH. exact H.
Qed.

Lemma node_at_walk q : forall n here x, node_at n q = Some x -> q <> [] -> In (here ++ q) (walk n here).
Proof.
  induction q as [|c r IH]; intros n here x; [congruence|]. cbn. destruct n as [k|kids|a t]; try discriminate.
  destruct (kid c kids) as [k|] eqn:Ek; [|discriminate]. intros Hn _. rewrite walk_dir. unfold walk_list.
  apply in_flat_map. exists (c, k). split; [apply kid_some_in; exact Ek|]. cbn [fst snd].
  destruct r as [|c' r'].
  - left. reflexivity.
  - right. replace (here ++ c :: c' :: r') with ((here ++ [c]) ++ c' :: r') by (rewrite <- app_assoc; reflexivity).
    apply (IH k (here ++ [c]) x Hn). discriminate.
Qed.

Lemma node_at_real root : wf root -> forall q x, node_at root q = Some x -> nolink (Some x) = true -> is_real root q = true.
Proof.
  intros Hwf q. induction q as [|c l IH] using rev_ind; intros x Hn Hx; [reflexivity|].
  rewrite node_at_app in Hn. destruct (node_at root l) as [m|] eqn:El; [|discriminate].
  destruct m as [k|kids|a t]; try discriminate. cbn in Hn. destruct (kid c kids) as [k|] eqn:Ek; [|discriminate].
  inversion Hn; subst. apply real_snoc.
  - apply (IH (Dir kids)); reflexivity.
  - pose proof (wf_sub l root (Dir kids) Hwf El) as Hw. inversion Hw as [| |kids' Hnd Hall]; subst.
    rewrite Forall_forall in Hall. apply (Hall _ (kid_some_in _ _ _ Ek)).
  - rewrite node_at_app, El. cbn. rewrite Ek. exact Hx.
Qed.

Lemma dirname_in_alldirs root r x : node_at root r = Some x -> In (dirname r) (alldirs root).
Proof.
  unfold alldirs, dirname. destruct r as [|c l _] using rev_ind; [left; reflexivity|]. rewrite removelast_last.
  rewrite node_at_app. destruct (node_at root l) as [m|] eqn:El; [|discriminate].
  destruct m as [k0|kids|a t]; try discriminate. intros _.
  destruct l as [|c0 q0]; [left; reflexivity|]. right. apply filter_In. split.
  - apply (node_at_walk (c0 :: q0) root [] (Dir kids) El). discriminate.
  - unfold is_dir_at. rewrite El. reflexivity.
Qed.

(* with D = every directory of the tree, the closure hypothesis of (A) holds *)
Lemma file_dir_in_alldirs root tab : wf root ->
  forall q, isfile_A (getf_i root tab) q = true -> In (dirname (rp_i root q)) (alldirs root).
Proof.
  intros Hwf q. unfold isfile_A, getf_i, entry_at. destruct (node_at root q) as [[k|kk|a t]|] eqn:En; try discriminate. intros _.
  assert (Hr : is_real root q = true) by (apply (node_at_real root Hwf q (File k) En); reflexivity).
  unfold rp_i, rp. rewrite (realpath_of_real root _ q Hr). eapply dirname_in_alldirs; eauto.
Qed.

(* ====================== (B) the links removed ====================== *)
Section InstB.
Variable root : fnode.
Variable tab : ctable.
Hypothesis Hwf : wf root.
Let root' := remove_links root.

(* a name that meets no link (and has no '.', '..', '') from any real directory *)
Definition linkfree_name (n : path) : Prop := forall d, is_real root d = true -> real_from root d n = true.
Definition NRb (n1 n2 : path) : Prop := n1 = n2 /\ linkfree_name n1.
Definition DRb (d1 d2 : path) : Prop := d1 = d2 /\ is_real root d1 = true.
Definition GoodB (q : path) : Prop := is_real root q = true.

Lemma rp_real r q : is_real r q = true -> rp_i r q = q.
Proof. intros H. unfold rp_i, rp. rewrite realpath_of_real by exact H. reflexivity. Qed.

Lemma entry_rl q : is_real root q = true -> entry_at root' tab q = entry_at root tab q.
Proof.
  intros Hr. unfold entry_at. destruct q as [|c r].
  - cbn. unfold root'. destruct root; reflexivity.
  - unfold root'. rewrite (node_real_rl root Hwf (c :: r) Hr ltac:(discriminate)).
    destruct (node_at root (c :: r)) as [[k|kk|a t]|]; reflexivity.
Qed.
Lemma getf_rl q : is_real root q = true -> getf_i root' tab q = getf_i root tab q.
Proof. intros Hr. unfold getf_i. rewrite entry_rl by exact Hr. reflexivity. Qed.
Lemma shape_rl q : is_real root q = true -> shape_i root' tab q = shape_i root tab q.
Proof. intros Hr. unfold shape_i. rewrite entry_rl by exact Hr. reflexivity. Qed.

Lemma real_dirname q : is_real root q = true -> is_real root (dirname q) = true.
Proof. apply real_removelast. Qed.

Lemma real_join d n : is_real root d = true -> linkfree_name n -> is_real root (d ++ n) = true.
Proof. intros Hd Hn. unfold is_real. rewrite real_from_app. cbn [app]. rewrite (Hn d Hd). unfold is_real in Hd. rewrite Hd. reflexivity. Qed.

Lemma searchB ds1 ds2 n1 n2 cur a :
  Forall2 DRb ds1 ds2 -> NRb n1 n2 -> GoodB cur ->
  match search_A (rp_i root) (getf_i root tab) ds1 (n1, dirname cur, a),
        search_A (rp_i root') (getf_i root' tab) ds2 (n2, dirname cur, a) with
  | Some f1, Some f2 => f1 = f2 /\ rp_i root f1 = rp_i root' f2 /\ GoodB (rp_i root f1)
  | None, None => True
  | _, _ => False
  end.
Proof.
  intros Hd [<- Hn] Hg. unfold search_A.
  assert (Eds : ds2 = ds1 /\ Forall (fun d => is_real root d = true) ds1).
  { clear - Hd. induction Hd as [|d1 d2 l1 l2 [<- Hr] _ [-> IH]]; split; auto. }
  destruct Eds as [-> Hreal].
  set (L := (if a then [] else [dirname cur]) ++ ds1).
  assert (HL : Forall (fun d => is_real root d = true) L).
  { unfold L. apply Forall_app. split; [|exact Hreal]. destruct a; constructor; [apply real_dirname; exact Hg|constructor]. }
  assert (E1 : candidates_A (rp_i root) ds1 (n1, dirname cur, a) = map (fun d => d ++ n1) L).
  { unfold candidates_A. fold L. apply map_ext_in. intros d Hin. rewrite Forall_forall in HL.
    apply rp_real. apply real_join; auto. }
  assert (E2 : candidates_A (rp_i root') ds1 (n1, dirname cur, a) = map (fun d => d ++ n1) L).
  { unfold candidates_A. fold L. apply map_ext_in. intros d Hin. rewrite Forall_forall in HL.
    apply rp_real. apply real_rl; [exact Hwf|]. apply real_join; auto. }
  rewrite E1, E2.
  assert (Hall : forall x, In x (map (fun d => d ++ n1) L) -> is_real root x = true).
  { intros x Hx. apply in_map_iff in Hx. destruct Hx as (d & <- & Hin). rewrite Forall_forall in HL. apply real_join; auto. }
  rewrite (find_ext_in (isfile_A (getf_i root' tab)) (isfile_A (getf_i root tab)) _
             (fun x Hx => f_equal (fun o => match o with Some _ => true | None => false end) (getf_rl x (Hall x Hx)))).
  destruct (find (isfile_A (getf_i root tab)) (map (fun d => d ++ n1) L)) as [f|] eqn:Ef; [|exact I].
  destruct (find_some _ _ Ef) as [Hin _]. pose proof (Hall f Hin) as Hr.
  split; [reflexivity|]. rewrite (rp_real root f Hr), (rp_real root' f (real_rl root Hwf f Hr)). split; [reflexivity|exact Hr].
Qed.

(* every name written in the table is link-free *)
Definition act_ok (a : act) : Prop :=
  match a with
  | AInclude _ (IQuote n) | AInclude _ (IAngle n) => linkfree_name n
  | ADefine _ (VP _ n) => linkfree_name n
  | _ => True
  end.
Definition line_ok (l : line act cond) : Prop := match snd l with KPlain a => act_ok a | _ => True end.
Definition tab_names_ok : Prop := forall k ls ws, clookup k tab = Some (ls, ws) -> Forall line_ok ls.
Hypothesis Hnames : tab_names_ok.

Lemma line_ok_rel l : line_ok l -> lrel NRb l l.
Proof.
  destruct l as [id k]. unfold line_ok, lrel, Proofs.C15sim.line_rel. cbn. intros H. split; [reflexivity|].
  destruct k as [a|c|c| |]; cbn; auto.
  destruct a as [| |m v|m|tag s|]; try constructor.
  - destruct v; constructor. split; [reflexivity|exact H].
  - destruct s; constructor; split; auto.
Qed.

Lemma contentB q : GoodB q ->
  match getf_i root tab q, getf_i root' tab q with
  | Some l1, Some l2 => Forall2 (lrel NRb) l1 l2
  | None, None => True
  | _, _ => False
  end.
Proof.
  intros Hg. rewrite (getf_rl q Hg). destruct (getf_i root tab q) as [l|] eqn:E; [|exact I].
  apply Forall2_diag with (P := line_ok); [apply line_ok_rel|].
  unfold getf_i, entry_at in E. destruct (node_at root q) as [[k|kk|a t]|]; try discriminate.
  destruct (clookup k tab) as [[ls ws]|] eqn:Ek; [|discriminate]. cbn in E. inversion E; subst. eapply Hnames; eauto.
Qed.

(* a canonical entry: real source file, real -I directories, link-free names *)
Definition val_ok (v : mval) : Prop := match v with VP _ n => linkfree_name n | _ => True end.
Definition canon_entry (e : entry) : Prop :=
  is_real root (e_file e) = true /\ Forall (fun d => is_real root d = true) (e_dirs e) /\
  Forall (fun kv => val_ok (snd kv)) (e_defs e) /\ Forall linkfree_name (e_incs e).
Definition canon_cfg (c : list (nat * entry)) : Prop := Forall (fun x => canon_entry (snd x)) c.

Lemma canon_cfg_rel c : canon_cfg c -> cfg_rel (rp_i root) (rp_i root') NRb DRb GoodB c c.
Proof.
  induction 1 as [|[pl e] l (Hf & Hd & Hv & Hi) _ IH]; constructor; [|exact IH]. cbn [fst snd] in *.
  split; [reflexivity|]. unfold entry_rel. rewrite (rp_real root _ Hf), (rp_real root' _ (real_rl root Hwf _ Hf)).
  split; [reflexivity|]. split; [exact Hf|]. split; [|split].
  - apply Forall2_diag with (P := fun d => is_real root d = true); [intros x Hx; split; auto|exact Hd].
  - apply Forall2_diag with (P := fun kv => val_ok (snd kv)); [|exact Hv].
    intros [k v] Hx. split; [reflexivity|]. cbn in *. destruct v; constructor. split; auto.
  - apply Forall2_diag with (P := linkfree_name); [intros x Hx; split; auto|exact Hi].
Qed.

Theorem analyse_linkfree fuel c ms :
  tab_structured tab -> canon_cfg c ->
  analyse (rp_i root) (getf_i root tab) fuel c = Ok ms ->
  analyse (rp_i root') (getf_i root' tab) fuel c = Ok ms.
Proof.
  intros S Hc.
  apply (analyse_sim2 (rp_i root) (rp_i root') (getf_i root tab) (getf_i root' tab) NRb DRb GoodB
           (getf_structured root tab S) (getf_structured root' tab S) searchB contentB fuel c c (canon_cfg_rel c Hc)).
Qed.

(* the files parsed up front *)
Lemma parse_all_in rp getf l : parse_all rp getf l = Ok tt ->
  forall fn, In fn l -> exists ls t, getf (rp fn) = Some ls /\ build act cond ls = Ok t.
Proof.
  induction l as [|x l IH]; cbn [parse_all]; [intros _ fn []|].
  destruct (getf (rp x)) as [ls|] eqn:E; [|discriminate]. destruct (build act cond ls) as [t|e] eqn:B; [|discriminate].
  intros H fn [<-|Hin]; [eauto|apply IH; assumption].
Qed.
Lemma parse_all_of rp getf l :
  (forall fn, In fn l -> exists ls t, getf (rp fn) = Some ls /\ build act cond ls = Ok t) -> parse_all rp getf l = Ok tt.
Proof.
  induction l as [|x l IH]; intros H; cbn [parse_all]; [reflexivity|].
  destruct (H x (or_introl eq_refl)) as (ls & t & -> & ->). apply IH. intros fn Hin. apply H. right. exact Hin.
Qed.

Theorem find_linkfree is_src F fuel dirs c ms :
  tab_structured tab -> canon_cfg c -> Forall (fun d => is_real root d = true) dirs ->
  find_A (rp_i root) (getf_i root tab) fuel (iter root is_src F dirs) c = Ok ms ->
  find_A (rp_i root') (getf_i root' tab) fuel (iter root' is_src F dirs) c = Ok ms.
Proof.
  intros S Hc Hd. unfold find_A.
  destruct (parse_all (rp_i root) (getf_i root tab) (iter root is_src F dirs ++ map (fun pe => e_file (snd pe)) c)) as [[]|e] eqn:E; [|discriminate].
  rewrite parse_all_of; [apply analyse_linkfree; assumption|].
  intros fn Hin.
  assert (Hr : is_real root fn = true /\ In fn (iter root is_src F dirs ++ map (fun pe => e_file (snd pe)) c)).
  { apply in_app_or in Hin. destruct Hin as [Hin|Hin].
    - unfold root' in Hin. rewrite <- (counted_rl root is_src F Hwf dirs Hd) in Hin. split.
      + eapply realpath_is_real. apply (counted_real root is_src F dirs fn Hwf Hd Hin 0).
      + apply in_or_app. left. unfold counted in Hin. apply filter_In in Hin. apply Hin.
    - split; [|apply in_or_app; right; exact Hin].
      apply in_map_iff in Hin. destruct Hin as ([pl e0] & <- & Hin). unfold canon_cfg in Hc. rewrite Forall_forall in Hc.
      apply (Hc _ Hin). }
  destruct Hr as [Hr Hin1]. destruct (parse_all_in _ _ _ E fn Hin1) as (ls & t & Hg & Hb).
  rewrite (rp_real root fn Hr) in Hg. rewrite (rp_real root' fn (real_rl root Hwf fn Hr)), (getf_rl fn Hr). eauto.
Qed.

End InstB.

(* ====================== (A) + (B) ====================== *)
Theorem counted_once_full (root : fnode) (tab_a tab_c : ctable) (is_src : string -> bool)
        (fuel nplat : nat) (dirs : list path) (c_a c_c : list (nat * entry)) (ms : list mark) :
  wf root -> Forall (fun d => is_real root d = true) dirs ->
  tab_structured tab_a -> tab_structured tab_c ->
  tab_rel root tab_a tab_c (alldirs root) -> alias_cfg2 root tab_a (alldirs root) c_a c_c ->
  tab_names_ok root tab_c -> canon_cfg root c_c ->
  find_A (rp_i root) (getf_i root tab_a) fuel (iter root is_src link_fuel dirs) c_a = Ok ms ->
  find_A (rp_i (remove_links root)) (getf_i (remove_links root) tab_c) fuel (iter (remove_links root) is_src link_fuel dirs) c_c = Ok ms /\
  setmap (rp_i root) (shape_i root tab_a) nplat ms (counted root is_src link_fuel dirs) =
  setmap (rp_i (remove_links root)) (shape_i (remove_links root) tab_c) nplat ms (iter (remove_links root) is_src link_fuel dirs).
Proof.
  intros Hwf Hd Sa Sc Ht Hc Hn Hcc H.
  assert (Hm : Forall (fun fn => In (dirname (rp_i root fn)) (alldirs root)) (iter root is_src link_fuel dirs)).
  { apply Forall_forall. intros fn Hin. unfold iter in Hin. apply in_flat_map in Hin. destruct Hin as (d & _ & Hin).
    apply filter_In in Hin. destruct Hin as [_ Hc0]. unfold contains in Hc0.
    destruct (realpath root link_fuel fn) as [r|e] eqn:Er; [|discriminate].
    apply andb_true_iff in Hc0. destruct Hc0 as [Hc0 _]. apply andb_true_iff in Hc0. destruct Hc0 as [Hf _].
    unfold rp_i, rp. rewrite Er. destruct (node_at root r) as [[k|kk|a t]|] eqn:En; try discriminate.
    eapply dirname_in_alldirs; eauto. }
  pose proof (find_alias_names root tab_a tab_c (alldirs root) Ht (file_dir_in_alldirs root tab_a Hwf) fuel _ c_a c_c ms Sa Sc Hc Hm H) as H1.
  split; [apply (find_linkfree root tab_c Hwf Hn is_src link_fuel fuel dirs c_c ms Sc Hcc Hd H1)|].
  rewrite <- (counted_rl root is_src link_fuel Hwf dirs Hd). unfold setmap.
  apply fold_left_ext_in. intros m fn Hin.
  assert (Hr : is_real root fn = true) by (eapply realpath_is_real; apply (counted_real root is_src link_fuel dirs fn Hwf Hd Hin 0)).
  rewrite (rp_real root fn Hr), (rp_real (remove_links root) fn (real_rl root Hwf fn Hr)), (shape_rl root tab_c Hwf fn Hr).
  f_equal. unfold shape_i, entry_at. destruct (node_at root fn) as [[k|kk|a t]|]; try reflexivity.
  pose proof (Ht k) as Hk. destruct (clookup k tab_a) as [[l1 w1]|], (clookup k tab_c) as [[l2 w2]|]; try contradiction; [|reflexivity].
  destruct Hk as [_ ->]. reflexivity.
Qed.

(* ====================== sufficient conditions that can be checked ====================== *)
(* the names of all links of a tree *)
Fixpoint link_names (n : fnode) : list string :=
  match n with
  | Dir kids =>
      (fix go (ks : list (string * fnode)) : list string :=
         match ks with
         | [] => []
         | (nm, k) :: r => (match k with Link _ _ => [nm] | _ => [] end) ++ link_names k ++ go r
         end) kids
  | _ => []
  end.

Lemma link_names_kid c k kids x :
  In (c, k) kids -> In x ((match k with Link _ _ => [c] | _ => [] end) ++ link_names k) -> In x (link_names (Dir kids)).
Proof.
  cbn [link_names]. induction kids as [|[n0 k0] r IH]; [intros []|]. intros [H|H] Hx.
  - inversion H; subst. rewrite app_assoc. apply in_or_app. left. exact Hx.
  - apply in_or_app. right. apply in_or_app. right. apply IH; assumption.
Qed.

Lemma nolink_not_named c p : forall m, ~ In c (link_names m) -> nolink (node_at m (p ++ [c])) = true.
Proof.
  induction p as [|c0 r IH]; intros m Hc.
  - cbn. destruct m as [k|kids|a t]; try reflexivity. destruct (kid c kids) as [k|] eqn:Ek; [|reflexivity].
    destruct k as [key|kk|a t]; try reflexivity. exfalso. apply Hc.
    apply (link_names_kid c (Link a t) kids c (kid_some_in _ _ _ Ek)). left. reflexivity.
  - cbn. destruct m as [k|kids|a t]; try reflexivity. destruct (kid c0 kids) as [k|] eqn:Ek; [|reflexivity].
    apply IH. intros Hin. apply Hc. apply (link_names_kid c0 k kids c (kid_some_in _ _ _ Ek)).
    apply in_or_app. right. exact Hin.
Qed.

(* a name whose components are ordinary and are not the name of any link is link-free *)
Theorem linkfree_of_names root n :
  Forall (fun c => plain c = true /\ ~ In c (link_names root)) n -> linkfree_name root n.
Proof.
  intros H d _. revert d. induction H as [|c r [Hp Hc] _ IH]; intros d; [reflexivity|].
  cbn. rewrite Hp, (nolink_not_named c d root Hc), IH. reflexivity.
Qed.

(* "./name" denotes what "name" denotes, in every tree and from every directory *)
Theorem name_equiv_dot root tab D n : name_equiv root tab D ("."%string :: n) n.
Proof.
  intros d _. unfold fres.
  assert (E : rp_i root (d ++ "."%string :: n) = rp_i root (d ++ n)).
  { unfold rp_i, rp, realpath. rewrite !resolve_app. destruct (resolve root link_fuel [] d) as [acc|e]; [|reflexivity].
    rewrite resolve_cons. reflexivity. }
  rewrite E. reflexivity.
Qed.
Theorem name_equiv_refl root tab D n : name_equiv root tab D n n.
Proof. intros d _. reflexivity. Qed.
