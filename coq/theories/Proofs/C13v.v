(* C13 - the converse of the compiler view (inside the explicit domain
   [dir_ok]/[spelling_ok]), M's decision for one entry = what a compiler
   process does, and load_database as a map over the entries. *)
From Coq Require Import Bool Arith Ascii Lia String List.
From CBI Require Import Lib.Res Model.C13p Model.C13fs Model.C13 Spec.C13 Spec.C13db
  Proofs.C13p Proofs.C13 Proofs.C13db Proofs.C13k.
Import ListNotations.

(* ---------- the kernel walk, characterised ---------- *)
Lemma kwalk_char fs comps : forall cur,
  kwalk fs cur comps = if walk_ok fs cur comps then Some (fold_left step comps cur) else None.
Proof.
  induction comps as [|c r IH]; intro cur; cbn; [reflexivity|].
  destruct (kind_of fs cur) as [[|]|]; try reflexivity. apply IH.
Qed.

Lemma kresolve_char fs c p :
  spelling_ok fs c p = true ->
  kresolve fs c p = match kind_of fs (resolve c p) with Some _ => Some (resolve c p) | None => None end.
Proof.
  unfold spelling_ok, kresolve, resolve. intro H. rewrite kwalk_char, H. reflexivity.
Qed.

Lemma k_dir_char fs root d : dir_ok fs root d = true -> k_dir fs root d = Some (s_dir root d).
Proof.
  unfold dir_ok, k_dir, s_dir. destruct d as [d|]; [|reflexivity].
  intro H. apply andb_prop in H. destruct H as [H1 H2].
  rewrite (kresolve_char fs root d H1).
  destruct (kind_of fs (resolve root d)) as [[|]|] eqn:K; try discriminate.
  rewrite K. reflexivity.
Qed.

(* inside the domain the compiler's view is decided by the kind of S's location *)
Lemma k_file_char fs root d f :
  dir_ok fs root d = true -> spelling_ok fs (s_dir root d) f = true ->
  k_file fs root d f = match kind_of fs (s_file root d f) with
                       | Some false => Some (s_file root d f) | _ => None end.
Proof.
  intros Hd Hf. unfold k_file. rewrite (k_dir_char fs root d Hd), (kresolve_char _ _ _ Hf).
  unfold s_file. destruct (kind_of fs (resolve (s_dir root d) f)) as [[|]|] eqn:K; try reflexivity; rewrite K; reflexivity.
Qed.

Lemma k_inc_char fs root d i :
  dir_ok fs root d = true -> spelling_ok fs (s_dir root d) i = true ->
  k_inc fs root d i = match kind_of fs (resolve (s_dir root d) i) with
                      | Some true => Some (resolve (s_dir root d) i) | _ => None end.
Proof.
  intros Hd Hi. unfold k_inc. rewrite (k_dir_char fs root d Hd), (kresolve_char _ _ _ Hi).
  destruct (kind_of fs (resolve (s_dir root d) i)) as [[|]|] eqn:K; try reflexivity; rewrite K; reflexivity.
Qed.

(* both directions, as equivalences *)
Lemma compiler_view_iff fs root d :
  dir_ok fs root d = true ->
  (forall f l, spelling_ok fs (s_dir root d) f = true ->
     (k_file fs root d f = Some l <-> l = s_file root d f /\ kind_of fs l = Some false)) /\
  (forall i l, spelling_ok fs (s_dir root d) i = true ->
     (k_inc fs root d i = Some l <-> l = resolve (s_dir root d) i /\ kind_of fs l = Some true)).
Proof.
  intro Hd. split.
  - intros f l Hf. split; [apply k_file_lexical|]. intros [-> K].
    rewrite (k_file_char fs root d f Hd Hf), K. reflexivity.
  - intros i l Hi. split; [apply k_inc_lexical|]. intros [-> K].
    rewrite (k_inc_char fs root d i Hd Hi), K. reflexivity.
Qed.

(* the harness's in-domain flag follows from the explicit domain *)
Lemma domain_agrees fs root d f a incs :
  dir_ok fs root d = true -> spelling_ok fs (s_dir root d) f = true ->
  forallb (spelling_ok fs (s_dir root d)) incs = true ->
  kind_of fs (s_file root d f) <> Some true ->
  k_agrees fs root d f incs (s_entry fs root d f a incs) = true.
Proof.
  intros Hd Hf Hi Hk. unfold s_entry.
  destruct a as [|a0 ar]; [reflexivity|].
  destruct (negb (is_source_file f)); [reflexivity|].
  destruct (kind_of fs (s_file root d f)) as [k|] eqn:K; cbn [k_agrees].
  - rewrite K. destruct k; [congruence|].
    rewrite (k_file_char fs root d f Hd Hf), K. cbn [opt_loc_eqb].
    assert (E : loc_eqb (s_file root d f) (s_file root d f) = true) by (apply loc_eqb_eq; reflexivity).
    rewrite E. cbn [andb].
    apply forallb_forall. intros i Hin. rewrite forallb_forall in Hi. specialize (Hi i Hin).
    rewrite (k_inc_char fs root d i Hd Hi).
    destruct (kind_of fs (resolve (s_dir root d) i)) as [[|]|]; try reflexivity.
    cbn. apply loc_eqb_eq. reflexivity.
  - rewrite (k_file_char fs root d f Hd Hf), K. reflexivity.
Qed.

(* ---------- M's decision for one entry = what the compiler process does ---------- *)
Section Entry.
Variable fs : fsys.
Variable cwd rootdir : str.
Hypothesis W : wf_fs fs.
Hypothesis A : isabs cwd = true.
Let root := resolve (cwdloc cwd) rootdir.

Lemma entry_iff_compiler d f a l :
  is_supported f a = true ->
  dir_ok fs root d = true -> spelling_ok fs (s_dir root d) f = true ->
  kind_of fs (s_file root d f) <> Some true ->
  ((exists x, do_entry fs cwd rootdir d f a = Ok ([x], []) /\ resolve [] (o_file x) = l)
   <-> k_file fs root d f = Some l).
Proof.
  intros Hs Hd Hf Hk.
  destruct (do_entry_spec fs cwd rootdir W A d f a) as (o & w & D & O & Wn). fold root in O, Wn.
  rewrite (k_file_char fs root d f Hd Hf).
  unfold s_entry in O, Wn. unfold is_supported in Hs.
  destruct a as [|a0 ar]; [discriminate|]. rewrite Hs in O, Wn. cbn [negb] in O, Wn.
  destruct (kind_of fs (s_file root d f)) as [k|] eqn:K.
  - destruct k; [congruence|]. cbn [opens swarns] in O, Wn.
    destruct o as [|x [|y o']]; try discriminate. destruct w; [|discriminate].
    inversion O. split.
    + intros (x' & D' & E'). rewrite D in D'. inversion D'; subst x'. congruence.
    + intro H. inversion H; subst l. exists x. split; [exact D|congruence].
  - cbn [opens] in O. destruct o; [|discriminate]. split.
    + intros (x' & D' & _). rewrite D in D'. discriminate.
    + discriminate.
Qed.
End Entry.

(* ---------- load_database is a map over the entries ---------- *)
Definition outputs (r : res (list out_entry * list warn)) : option (list out_entry) :=
  match r with Ok (o, _) => Some o | Err _ => None end.
Definition entry_warnings (r : res (list out_entry * list warn)) : option (list warn) :=
  match r with
  | Ok (_, w) => Some (filter (fun x => match x with WNoFiles => false | _ => true end) w)
  | Err _ => None
  end.

Section Map.
Variable fs : fsys.
Variable cwd rootdir : str.

Lemma do_entry_no_nofiles d f a o w :
  do_entry fs cwd rootdir d f a = Ok (o, w) ->
  filter (fun x => match x with WNoFiles => false | _ => true end) w = w.
Proof.
  unfold do_entry. destruct (negb (is_supported f a)); [intro H; inversion H; reflexivity|].
  destruct (negb (os_path_exists _ _ _)); intro H; inversion H; reflexivity.
Qed.

Lemma loop_no_nofiles l : forall o w,
  loop fs cwd rootdir l = Ok (o, w) ->
  filter (fun x => match x with WNoFiles => false | _ => true end) w = w.
Proof.
  induction l as [|[[d f] a] l IH]; intros o w H; cbn in H.
  - inversion H; reflexivity.
  - destruct (do_entry fs cwd rootdir d f a) as [[o1 w1]|] eqn:D; [|discriminate].
    destruct (loop fs cwd rootdir l) as [[o2 w2]|] eqn:L; [|discriminate].
    inversion H; subst. rewrite filter_app, (do_entry_no_nofiles _ _ _ _ _ D), (IH _ _ eq_refl). reflexivity.
Qed.

Definition W (es : list entry) : option (list out_entry * list warn) :=
  match validated es with
  | None => None
  | Some v => match with_files v with
              | None => None
              | Some l => match loop fs cwd rootdir l with Ok ow => Some ow | Err _ => None end
              end
  end.

Lemma load_view es :
  outputs (load_database fs cwd rootdir es) = option_map fst (W es) /\
  entry_warnings (load_database fs cwd rootdir es) = option_map snd (W es).
Proof.
  unfold load_database, W. destruct (validated es) as [v|]; [|split; reflexivity].
  destruct (with_files v) as [l|]; [|split; reflexivity].
  destruct (loop fs cwd rootdir l) as [[o w]|] eqn:L; [|split; reflexivity].
  cbn [outputs entry_warnings option_map fst snd]. pose proof (loop_no_nofiles l o w L) as F.
  split; [reflexivity|].
  destruct o; [|rewrite F; reflexivity].
  rewrite filter_app, F. cbn. rewrite app_nil_r. reflexivity.
Qed.

Lemma W_app xs ys :
  W (xs ++ ys) = match W xs, W ys with
                 | Some (o1, w1), Some (o2, w2) => Some (o1 ++ o2, w1 ++ w2)
                 | _, _ => None
                 end.
Proof.
  unfold W. rewrite validated_app.
  destruct (validated xs) as [vx|]; [|reflexivity].
  destruct (validated ys) as [vy|].
  2:{ destruct (with_files vx) as [fx|]; [|reflexivity].
      destruct (loop fs cwd rootdir fx) as [[o1 w1]|]; reflexivity. }
  rewrite with_files_app.
  destruct (with_files vx) as [fx|]; [|reflexivity].
  destruct (with_files vy) as [fy|].
  2:{ destruct (loop fs cwd rootdir fx) as [[o1 w1]|]; reflexivity. }
  rewrite (loop_app fs cwd rootdir).
  destruct (loop fs cwd rootdir fx) as [[o1 w1]|]; [|reflexivity].
  destruct (loop fs cwd rootdir fy) as [[o2 w2]|]; reflexivity.
Qed.

Lemma load_app xs ys :
  outputs (load_database fs cwd rootdir (xs ++ ys)) =
    match outputs (load_database fs cwd rootdir xs), outputs (load_database fs cwd rootdir ys) with
    | Some a, Some b => Some (a ++ b) | _, _ => None end /\
  entry_warnings (load_database fs cwd rootdir (xs ++ ys)) =
    match entry_warnings (load_database fs cwd rootdir xs), entry_warnings (load_database fs cwd rootdir ys) with
    | Some a, Some b => Some (a ++ b) | _, _ => None end.
Proof.
  destruct (load_view (xs ++ ys)) as [A1 A2]. destruct (load_view xs) as [B1 B2]. destruct (load_view ys) as [C1 C2].
  rewrite A1, A2, B1, B2, C1, C2, W_app.
  destruct (W xs) as [[o1 w1]|]; destruct (W ys) as [[o2 w2]|]; split; reflexivity.
Qed.
End Map.
