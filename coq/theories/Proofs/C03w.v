(* C03: closed witnesses.
   (a) one per known-finding class: the model of the code AS IT IS disagrees
       with the specification on an input inside the property's quantifier;
   (b) one per repaired defect: the model with the ORIGINAL behaviour
       (selected by the model's flags) disagrees with the specification, the
       current model agrees.
   All by vm_compute. *)
From Coq Require Import ZArith String Ascii Bool List.
From CBI Require Import Lib.Data Lib.Res Model.C03tok Model.C03 Model.C03run Spec.C03.
From CBI Require Gen.C03_tables.
Import ListNotations.
Local Open Scope string_scope.
Local Open Scope list_scope.

(* token shorthands: I identifier, N number, O operator, P punctuator; a trailing w = preceded by white space *)
Definition tI s := mkTok KId false s true.   Definition tIw s := mkTok KId true s true.
Definition tN s := mkTok KNum false s true.  Definition tNw s := mkTok KNum true s true.
Definition tO s := mkTok KOp false s true.   Definition tOw s := mkTok KOp true s true.
Definition tP s := mkTok KPunct false s true. Definition tPw s := mkTok KPunct true s true.

(* a #define / -D of the case format: definition tokens for M, structure for S *)
Definition def_obj (viaD : via) (mt : list tok) (name : string) (body : list tok) : cmacro :=
  mkC viaD mt name false [] false body.
Definition def_fun (viaD : via) (mt : list tok) (name : string) (ps : list string) (va : bool) (body : list tok) : cmacro :=
  mkC viaD mt name true ps va body.

Definition S_ok (cs : list cmacro) (input : list tok) : Prop :=
  exists l, run_S_case cs input = DList [DStr "Ok"; l].
Definition disagree (cs : list cmacro) (input : list tok) : Prop :=
  S_ok cs input /\ run_M_case cs input <> run_S_case cs input.
Definition agree (cs : list cmacro) (input : list tok) : Prop :=
  S_ok cs input /\ run_M_case cs input = run_S_case cs input.

Ltac closed_disagree := split; [eexists; vm_compute; reflexivity | vm_compute; discriminate].
Ltac closed_agree := split; [eexists; vm_compute; reflexivity | vm_compute; reflexivity].

(* ------------------------------------------------------------------ *)
(* (a) known-finding classes                                           *)
(* ------------------------------------------------------------------ *)

(* #define H(...) #__VA_ARGS__     H(7 ,8) *)
Definition w_vacomma :=
  [def_fun ViaDefine [tIw "H"; tP "("; tP "."; tP "."; tP "."; tP ")"; tOw "#"; tI "__VA_ARGS__"] "H" ["__VA_ARGS__"] true
           [tO "#"; tI "__VA_ARGS__"]].

(* #define G(x,y) #y x     G(1,x) *)
Definition w_resub :=
  [def_fun ViaDefine [tIw "G"; tP "("; tI "x"; tP ","; tI "y"; tP ")"; tOw "#"; tI "y"; tIw "x"] "G" ["x"; "y"] false
           [tO "#"; tI "y"; tIw "x"]].

(* #define F(x,y) x y   #define S(x) #x     S(F(1)) *)
Definition w_operand :=
  [def_fun ViaDefine [tIw "F"; tP "("; tI "x"; tP ","; tI "y"; tP ")"; tIw "x"; tIw "y"] "F" ["x"; "y"] false [tI "x"; tIw "y"];
   def_fun ViaDefine [tIw "S"; tP "("; tI "x"; tP ")"; tOw "#"; tI "x"] "S" ["x"] false [tO "#"; tI "x"]].
(* repaired: the argument of S is not expanded any more *)
Lemma operand_only_now_conforms :
  agree w_operand [tI "S"; tP "("; tI "F"; tP "("; tN "1"; tP ")"; tP ")"].
Proof. closed_agree. Qed.

(* S is stricter than the implementation (and than gcc 12 / clang 14, which answer like the
   implementation) where ISO C is silent: in Prosser's algorithm the result of a function-like
   invocation inherits the hide sets common to the macro name and the closing parenthesis, so a name
   stays hidden although the expansion it came from is complete.
     #define H(x,y,z) z #x G
     #define B H(,,) G((0))
     #define G(x) x y B
     H(,,B)      M, gcc, clang:  "" 0 y H(,,) G((0)) y B "" G        S:  "" 0 y B y B "" G   *)
Definition w_inherit :=
  [def_fun ViaDefine [tIw "H"; tP "("; tI "x"; tP ","; tI "y"; tP ","; tI "z"; tP ")"; tIw "z"; tOw "#"; tI "x"; tIw "G"]
           "H" ["x"; "y"; "z"] false [tI "z"; tOw "#"; tI "x"; tIw "G"];
   def_obj ViaDefine [tIw "B"; tIw "H"; tP "("; tP ","; tP ","; tP ")"; tIw "G"; tP "("; tP "("; tN "0"; tP ")"; tP ")"]
           "B" [tI "H"; tP "("; tP ","; tP ","; tP ")"; tIw "G"; tP "("; tP "("; tN "0"; tP ")"; tP ")"];
   def_fun ViaDefine [tIw "G"; tP "("; tI "x"; tP ")"; tIw "x"; tIw "y"; tIw "B"] "G" ["x"] false [tI "x"; tIw "y"; tIw "B"]].
Lemma refuted_hide_set_inheritance :
  disagree w_inherit [tI "H"; tP "("; tP ","; tP ","; tI "B"; tP ")"].
Proof. closed_disagree. Qed.

(* a painted self-reference survives its context and the pre-expansion barrier (C11 6.10.3.4p2):
     #define f(x) x + f   #define CALL(m) m(2)   CALL(f(1))   ->   1 + f(2)      (M = S; gcc, clang agree)
     #define ID(x) x                              ID(f(1))(2)  ->   1 + f(2) *)
Definition w_selfref :=
  [def_fun ViaDefine [tIw "f"; tP "("; tI "x"; tP ")"; tIw "x"; tOw "+"; tIw "f"] "f" ["x"] false [tI "x"; tOw "+"; tIw "f"];
   def_fun ViaDefine [tIw "CALL"; tP "("; tI "m"; tP ")"; tIw "m"; tP "("; tN "2"; tP ")"] "CALL" ["m"] false [tI "m"; tP "("; tN "2"; tP ")"];
   def_fun ViaDefine [tIw "ID"; tP "("; tI "x"; tP ")"; tIw "x"] "ID" ["x"] false [tI "x"]].
Lemma selfref_applied_conforms :
  agree w_selfref [tI "CALL"; tP "("; tI "f"; tP "("; tN "1"; tP ")"; tP ")"]
  /\ agree w_selfref [tI "ID"; tP "("; tI "f"; tP "("; tN "1"; tP ")"; tP ")"; tP "("; tN "2"; tP ")"]
  /\ run_M_case w_selfref [tI "CALL"; tP "("; tI "f"; tP "("; tN "1"; tP ")"; tP ")"]
     = DList [DStr "Ok"; DList [DStr "1"; DStr "+"; DStr "f"; DStr "("; DStr "2"; DStr ")"]].
Proof. split; [closed_agree|split; [closed_agree|]]. vm_compute. reflexivity. Qed.

(* the result of ## is a NEW token (6.10.3.3p3), even when its left operand was painted:
     #define CAT_(a,b) a##b   #define CAT(a,b) CAT_(a,b)   #define X CAT(X,1)   #define X1 5
     X  ->  5      (the inner X is painted while the argument of CAT is pre-expanded, then pasted to X1,
                    which is rescanned and replaced; M = S; gcc, clang agree) *)
Definition w_ppaste :=
  [def_fun ViaDefine [tIw "CAT_"; tP "("; tI "a"; tP ","; tI "b"; tP ")"; tIw "a"; tO "##"; tI "b"] "CAT_" ["a"; "b"] false
           [tI "a"; tO "##"; tI "b"];
   def_fun ViaDefine [tIw "CAT"; tP "("; tI "a"; tP ","; tI "b"; tP ")"; tIw "CAT_"; tP "("; tI "a"; tP ","; tI "b"; tP ")"]
           "CAT" ["a"; "b"] false [tI "CAT_"; tP "("; tI "a"; tP ","; tI "b"; tP ")"];
   def_obj ViaDefine [tIw "X"; tIw "CAT"; tP "("; tI "X"; tP ","; tN "1"; tP ")"] "X" [tI "CAT"; tP "("; tI "X"; tP ","; tN "1"; tP ")"];
   def_obj ViaDefine [tIw "X1"; tNw "5"] "X1" [tN "5"]].
Lemma painted_paste_conforms :
  agree w_ppaste [tI "X"]
  /\ run_M_case w_ppaste [tI "X"] = DList [DStr "Ok"; DList [DStr "5"]].
Proof. split; [closed_agree|]. vm_compute. reflexivity. Qed.
(* MacroFunction.replace of CAT_ on a PAINTED left operand: the pasted token is not painted *)
Lemma paste_result_is_fresh :
  exists m, macro_from_define [tIw "CAT_"; tP "("; tI "a"; tP ","; tI "b"; tP ")"; tIw "a"; tO "##"; tI "b"] = Ok m /\
    replace_fun cur_lead cur_cat_fix cur_str_white cur_resub_fix cur_va_fix m
                [([mkTok KId false "X" false], None); ([tN "1"], None)]
    = Ok [mkTok KId false "X1" true].
Proof. eexists. split; vm_compute; reflexivity. Qed.

(* the backstop: a chain a -> aa -> aaa -> ... of max_level object-like macros, the last one -> 1 *)
Fixpoint rep (n : nat) : string := match n with O => "a" | S k => String "a" (rep k) end.
Fixpoint chain (i n : nat) : list cmacro :=
  match n with
  | O => [def_obj ViaDefine [tIw (rep i); tNw "1"] (rep i) [tN "1"]]
  | S k => def_obj ViaDefine [tIw (rep i); tIw (rep (S i))] (rep i) [tI (rep (S i))] :: chain (S i) k
  end.
(* max_level - 1 macros nested = max_level streams on the stack *)
Lemma refuted_depth_limit : disagree (chain 0 (Nat.pred (Nat.pred Gen.C03_tables.max_level))) [tI "a"].
Proof. closed_disagree. Qed.
(* one macro fewer is fine *)
Lemma depth_below_limit : agree (chain 0 (Nat.pred (Nat.pred (Nat.pred Gen.C03_tables.max_level)))) [tI "a"].
Proof. closed_agree. Qed.

(* ------------------------------------------------------------------ *)
(* (b) the original behaviours that were repaired                      *)
(* ------------------------------------------------------------------ *)
Definition run_M_with (lead cat_fix str_white resub_fix : bool) (base : option string) (rescan va_fix va_whole : bool)
           (cs : list cmacro) (input : list tok) : data :=
  match build_table 0 (map (fun c => (c_via c, c_mtoks c)) cs) [] with
  | inr (i, e) => DList [DStr "DefErr"; of_nat i; DStr e]
  | inl tb => enc_M (expand lead cat_fix str_white resub_fix base rescan va_fix va_whole Gen.C03_tables.max_level tb fuel_M input)
  end.
Lemma run_M_with_current cs input :
  run_M_with cur_lead cur_cat_fix cur_str_white cur_resub_fix cur_base cur_rescan cur_va_fix cur_va_whole cs input = run_M_case cs input.
Proof. reflexivity. Qed.

Definition was_wrong (mk : list cmacro -> list tok -> data) (cs : list cmacro) (input : list tok) : Prop :=
  S_ok cs input /\ mk cs input <> run_S_case cs input /\ run_M_case cs input = run_S_case cs input.
Ltac closed_was := split; [eexists; vm_compute; reflexivity | split; [vm_compute; discriminate | vm_compute; reflexivity]].

(* -DA===  (A defined as ==): the original parser saw A, ==, = *)
Lemma original_dashD_equals :
  S_ok [def_obj ViaDorig [tI "A"; tO "=="; tO "="] "A" [tO "=="]] [tI "A"]
  /\ run_M_case [def_obj ViaDorig [tI "A"; tO "=="; tO "="] "A" [tO "=="]] [tI "A"]
     <> run_S_case [def_obj ViaDorig [tI "A"; tO "=="; tO "="] "A" [tO "=="]] [tI "A"]
  /\ agree [def_obj (ViaD 1 true) [tI "A"; tOw "=="] "A" [tO "=="]] [tI "A"].
Proof.
  split; [eexists; vm_compute; reflexivity|]. split; [vm_compute; discriminate|]. closed_agree.
Qed.

(* #define S(x) #x     S( a) *)
Definition w_str := [def_fun ViaDefine [tIw "S"; tP "("; tI "x"; tP ")"; tOw "#"; tI "x"] "S" ["x"] false [tO "#"; tI "x"]].
Lemma original_leading_blank :
  was_wrong (run_M_with true cur_cat_fix cur_str_white cur_resub_fix cur_base cur_rescan cur_va_fix cur_va_whole)
            w_str [tI "S"; tP "("; tIw "a"; tP ")"].
Proof. closed_was. Qed.

(* #define F(x,y) x##y     F(a,) *)
Definition w_cat :=
  [def_fun ViaDefine [tIw "F"; tP "("; tI "x"; tP ","; tI "y"; tP ")"; tIw "x"; tO "##"; tI "y"] "F" ["x"; "y"] false
           [tI "x"; tO "##"; tI "y"]].
Lemma original_empty_paste_operand :
  was_wrong (run_M_with cur_lead false cur_str_white cur_resub_fix cur_base cur_rescan cur_va_fix cur_va_whole)
            w_cat [tI "F"; tP "("; tI "a"; tP ","; tP ")"].
Proof. closed_was. Qed.

(* #define F(x,y,z) x##y##z     F(,,1) *)
Definition w_cat3 :=
  [def_fun ViaDefine [tIw "F"; tP "("; tI "x"; tP ","; tI "y"; tP ","; tI "z"; tP ")"; tIw "x"; tO "##"; tI "y"; tO "##"; tI "z"]
           "F" ["x"; "y"; "z"] false [tI "x"; tO "##"; tI "y"; tO "##"; tI "z"]].
Lemma original_two_empty_paste_operands :
  was_wrong (run_M_with cur_lead false cur_str_white cur_resub_fix cur_base cur_rescan cur_va_fix cur_va_whole)
            w_cat3 [tI "F"; tP "("; tP ","; tP ","; tN "1"; tP ")"].
Proof. closed_was. Qed.

(* #define None 1     None *)
Lemma original_macro_named_None :
  was_wrong (run_M_with cur_lead cur_cat_fix cur_str_white cur_resub_fix (Some "None") cur_rescan cur_va_fix cur_va_whole)
            [def_obj ViaDefine [tIw "None"; tNw "1"] "None" [tN "1"]] [tI "None"].
Proof. closed_was. Qed.

(* #define f(a) a*g   #define g(a) f(a)     f(2)(9) *)
Definition w_fg :=
  [def_fun ViaDefine [tIw "f"; tP "("; tI "a"; tP ")"; tIw "a"; tO "*"; tI "g"] "f" ["a"] false [tI "a"; tO "*"; tI "g"];
   def_fun ViaDefine [tIw "g"; tP "("; tI "a"; tP ")"; tIw "f"; tP "("; tI "a"; tP ")"] "g" ["a"] false [tI "f"; tP "("; tI "a"; tP ")"]].
Lemma original_rescan_following_source :
  was_wrong (run_M_with cur_lead cur_cat_fix cur_str_white cur_resub_fix cur_base true cur_va_fix cur_va_whole)
            w_fg [tI "f"; tP "("; tN "2"; tP ")"; tP "("; tN "9"; tP ")"].
Proof. closed_was. Qed.

(* #define LP (   #define F(x) x   #define X F LP 1 )     X *)
Definition w_lp :=
  [def_obj ViaDefine [tIw "LP"; tPw "("] "LP" [tP "("];
   def_fun ViaDefine [tIw "F"; tP "("; tI "x"; tP ")"; tIw "x"] "F" ["x"] false [tI "x"];
   def_obj ViaDefine [tIw "X"; tIw "F"; tIw "LP"; tNw "1"; tPw ")"] "X" [tI "F"; tIw "LP"; tNw "1"; tPw ")"]].
Lemma original_rescan_paren_indirection :
  was_wrong (run_M_with cur_lead cur_cat_fix cur_str_white cur_resub_fix cur_base true cur_va_fix cur_va_whole) w_lp [tI "X"].
Proof. closed_was. Qed.

(* #define LOG(...) 0     LOG(1) *)
Definition w_log :=
  [def_fun ViaDefine [tIw "LOG"; tP "("; tP "."; tP "."; tP "."; tP ")"; tNw "0"] "LOG" ["__VA_ARGS__"] true [tN "0"]].
Lemma original_variadic_unused :
  was_wrong (run_M_with cur_lead cur_cat_fix cur_str_white cur_resub_fix cur_base cur_rescan false cur_va_whole)
            w_log [tI "LOG"; tP "("; tN "1"; tP ")"].
Proof. closed_was. Qed.

(* #define H(...) #__VA_ARGS__     H(7 ,8) *)
Lemma original_variadic_comma_white :
  was_wrong (run_M_with cur_lead cur_cat_fix cur_str_white cur_resub_fix cur_base cur_rescan cur_va_fix false)
            w_vacomma [tI "H"; tP "("; tN "7"; tPw ","; tN "8"; tP ")"].
Proof. closed_was. Qed.

(* #define G(x,y) #y x     G(1,x) *)
Lemma original_operand_resubstituted :
  was_wrong (run_M_with cur_lead cur_cat_fix cur_str_white false cur_base cur_rescan cur_va_fix cur_va_whole)
            w_resub [tI "G"; tP "("; tN "1"; tP ","; tI "x"; tP ")"].
Proof. closed_was. Qed.

(* #define S(x) #x   #define T(x) S(a #x)     T(b) *)
Definition w_tb :=
  [def_fun ViaDefine [tIw "S"; tP "("; tI "x"; tP ")"; tOw "#"; tI "x"] "S" ["x"] false [tO "#"; tI "x"];
   def_fun ViaDefine [tIw "T"; tP "("; tI "x"; tP ")"; tIw "S"; tP "("; tI "a"; tOw "#"; tI "x"; tP ")"] "T" ["x"] false
           [tI "S"; tP "("; tI "a"; tOw "#"; tI "x"; tP ")"]].
Lemma original_string_white :
  was_wrong (run_M_with cur_lead cur_cat_fix false cur_resub_fix cur_base cur_rescan cur_va_fix cur_va_whole)
            w_tb [tI "T"; tP "("; tI "b"; tP ")"].
Proof. closed_was. Qed.
