(* C06 - proofs about FileTree.insert, report.files (prune) and _print (levels). *)
From Coq Require Import ZArith String Bool Arith Lia Permutation List.
From CBI Require Import Lib.Data Lib.Res Model.C06 Spec.C06 Proofs.C06.
Import ListNotations.
Local Open Scope Z_scope.

(* ---------- paths ---------- *)
Lemma path_eqb_eq p q : path_eqb p q = true <-> p = q.
Proof.
  revert q. induction p as [|x p IH]; destruct q as [|y q]; cbn; try (split; congruence).
  rewrite andb_true_iff, String.eqb_eq, IH. split; [intros [-> ->]; reflexivity | intros H; inversion H; auto].
Qed.
Lemma path_eqb_refl p : path_eqb p p = true.
Proof. apply path_eqb_eq. reflexivity. Qed.
Lemma strict_prefix_nil_r q : strict_prefix q [] = false.
Proof. destruct q; reflexivity. Qed.
Lemma strict_prefix_irrefl p : strict_prefix p p = false.
Proof. induction p as [|x p IH]; cbn; [reflexivity|]. rewrite IH. apply andb_false_r. Qed.
Lemma strict_prefix_neq p q : strict_prefix p q = true -> p <> q.
Proof. intros H ->. rewrite strict_prefix_irrefl in H. discriminate. Qed.

(* ---------- one insert ---------- *)
Definition nfig (P : pset -> bool) (o : option tnode) : Z :=
  match o with Some n => sum_if P (tsm n) | None => 0 end.

Lemma insert_name comps link sm t : tname (insert comps link sm t) = tname t.
Proof. destruct comps, t; reflexivity. Qed.
Lemma fresh_name c rest link sm : tname (fresh_node c rest link sm) = c.
Proof. destruct rest; reflexivity. Qed.

Definition child (c : string) (ch : list tnode) : option tnode := find (fun x => String.eqb (tname x) c) ch.

Lemma find_upd_child f fresh c ch c' :
  (forall x, tname (f x) = tname x) -> tname fresh = c ->
  child c' (upd_child f fresh c ch) =
  if String.eqb c c' then Some (f (match child c ch with Some x => x | None => fresh end))
  else child c' ch.
Proof.
  intros Hf Hfr. unfold child. induction ch as [|x ch IH]; cbn [upd_child find].
  - rewrite Hf, Hfr. destruct (String.eqb c c'); reflexivity.
  - destruct (String.eqb (tname x) c) eqn:E.
    + apply String.eqb_eq in E. cbn [find]. rewrite Hf, E. destruct (String.eqb c c'); reflexivity.
    + cbn [find]. destruct (String.eqb (tname x) c') eqn:E'.
      * apply String.eqb_eq in E'. subst c'. rewrite String.eqb_sym, E. reflexivity.
      * exact IH.
Qed.

Lemma lookup_cons c q t : lookup (c :: q) t = match child c (tch t) with Some x => lookup q x | None => None end.
Proof. reflexivity. Qed.

Lemma lookup_fresh_nonempty c' q c rest link sm : lookup (c' :: q) (fresh_node c rest link sm) = None.
Proof. destruct rest; reflexivity. Qed.

Lemma insert_children c rest link sm nm d l m ch :
  tch (insert (c :: rest) link sm (TNode nm d l m ch)) = upd_child (insert rest link sm) (fresh_node c rest link sm) c ch.
Proof. reflexivity. Qed.

Lemma lookup_insert_cons c rest link sm t c' q :
  lookup (c' :: q) (insert (c :: rest) link sm t) =
  if String.eqb c c'
  then lookup q (insert rest link sm (match child c (tch t) with Some x => x | None => fresh_node c rest link sm end))
  else lookup (c' :: q) t.
Proof.
  destruct t as [nm d l m ch]. rewrite lookup_cons, insert_children, find_upd_child;
    [|intros x; apply insert_name | apply fresh_name].
  destruct (String.eqb c c'); reflexivity.
Qed.

(* (A) figures of every node other than the inserted leaf *)
Lemma lookup_insert_fig P link sm : forall comps q t, q <> comps ->
  nfig P (lookup q (insert comps link sm t))
  = nfig P (lookup q t) + (if strict_prefix q comps && negb link then sum_if P sm else 0).
Proof.
  induction comps as [|c rest IH]; intros q t Hq.
  - cbn [insert]. rewrite strict_prefix_nil_r. cbn [andb]. lia.
  - destruct q as [|c' q].
    + destruct t as [nm d l m ch]. cbn [insert lookup nfig tsm strict_prefix andb].
      destruct link; cbn [negb]; [lia|]. apply sum_if_merge.
    + rewrite lookup_insert_cons. cbn [strict_prefix]. destruct (String.eqb c c') eqn:E.
      * apply String.eqb_eq in E. subst c'. rewrite String.eqb_refl. cbn [andb].
        assert (Hq' : q <> rest) by congruence. rewrite (IH q _ Hq'). f_equal.
        rewrite lookup_cons. destruct (child c (tch t)) as [x|]; [reflexivity|].
        destruct q as [|c'' q]; [|rewrite lookup_fresh_nonempty; reflexivity].
        destruct rest as [|r rest]; [congruence | reflexivity].
      * rewrite String.eqb_sym, E. cbn [andb]. lia.
Qed.

(* (B) nodes off the inserted path are untouched *)
Lemma lookup_insert_other link sm : forall comps q t, q <> comps -> strict_prefix q comps = false ->
  lookup q (insert comps link sm t) = lookup q t.
Proof.
  induction comps as [|c rest IH]; intros q t Hq Hs; [reflexivity|].
  destruct q as [|c' q]; [discriminate|]. rewrite lookup_insert_cons. cbn [strict_prefix] in Hs.
  destruct (String.eqb c c') eqn:E; [|reflexivity].
  apply String.eqb_eq in E. subst c'. rewrite String.eqb_refl in Hs. cbn [andb] in Hs.
  assert (Hq' : q <> rest) by congruence. rewrite (IH q _ Hq' Hs), lookup_cons.
  destruct (child c (tch t)) as [x|]; [reflexivity|].
  destruct q as [|c'' q]; [|apply lookup_fresh_nonempty].
  destruct rest as [|r rest]; [congruence | discriminate].
Qed.

(* (C) the leaf: a path not yet in the tree gets a file node that shares the file's setmap *)
Definition is_leaf (n : tnode) (c : string) (link : bool) (sm : setmap) : Prop :=
  tname n = c /\ tdir n = false /\ tlink n = link /\ tsm n = sm /\ tch n = [].

Lemma lookup_insert_leaf link sm : forall comps t, comps <> [] -> lookup comps t = None ->
  exists n, lookup comps (insert comps link sm t) = Some n /\ is_leaf n (last comps EmptyString) link sm.
Proof.
  induction comps as [|c rest IH]; intros t Hne Hnone; [congruence|].
  rewrite lookup_insert_cons, String.eqb_refl. rewrite lookup_cons in Hnone.
  destruct rest as [|r rest].
  - destruct (child c (tch t)) as [x|]; [discriminate|]. cbn [insert lookup fresh_node last].
    eexists. split; [reflexivity|]. repeat split.
  - change (last (c :: r :: rest) EmptyString) with (last (r :: rest) EmptyString).
    apply IH; [discriminate|]. destruct (child c (tch t)) as [x|]; [exact Hnone | reflexivity].
Qed.

(* (D) nodes on the way exist afterwards; an existing one keeps its kind, a new one is a directory *)
Lemma lookup_insert_on_path link sm : forall comps q t, strict_prefix q comps = true ->
  exists n, lookup q (insert comps link sm t) = Some n /\
            match lookup q t with Some n0 => tdir n = tdir n0 /\ tlink n = tlink n0 | None => tdir n = true /\ tlink n = false end.
Proof.
  induction comps as [|c rest IH]; intros q t Hs; [rewrite strict_prefix_nil_r in Hs; discriminate|].
  destruct q as [|c' q].
  - destruct t as [nm d l m ch]. cbn [insert lookup]. eexists. split; [reflexivity|]. cbn. auto.
  - cbn [strict_prefix] in Hs. apply andb_true_iff in Hs. destruct Hs as [E Hs]. apply String.eqb_eq in E. subst c'.
    rewrite lookup_insert_cons, String.eqb_refl, lookup_cons.
    destruct (IH q (match child c (tch t) with Some x => x | None => fresh_node c rest link sm end) Hs) as (n & Hn & Hk).
    exists n. split; [exact Hn|]. destruct (child c (tch t)) as [x|]; [exact Hk|].
    destruct q as [|c'' q]; [|rewrite lookup_fresh_nonempty in Hk; exact Hk].
    destruct rest as [|r rest]; [discriminate|]. cbn [lookup fresh_node tdir tlink] in Hk. tauto.
Qed.

(* (E) an existing node at the inserted path itself is kept *)
Lemma lookup_insert_existing link sm : forall comps t n0, lookup comps t = Some n0 ->
  lookup comps (insert comps link sm t) = Some n0.
Proof.
  induction comps as [|c rest IH]; intros t n0 H; [exact H|].
  rewrite lookup_insert_cons, String.eqb_refl. rewrite lookup_cons in H.
  destruct (child c (tch t)) as [x|]; [|discriminate]. apply IH, H.
Qed.

(* ---------- the loop of report.files ---------- *)
Definition step (prune : bool) (t : tnode) (f : file) : tnode :=
  if kept prune f then insert (fpath f) (flink f) (file_setmap f) t else t.
Lemma files_tree_fold prune files : files_tree prune files = fold_left (step prune) files root0.
Proof. reflexivity. Qed.

Lemma sm_used_add_nodes ns : forall m, sm_used (add_nodes m ns) = sm_used m || existsb (fun n => negb (is_empty (nplat n))) ns.
Proof.
  assert (A : forall k n m, sm_used (sm_add k n m) = sm_used m || negb (is_empty k)).
  { intros k n m. unfold sm_used. induction m as [|[k' v] m IH]; cbn [sm_add existsb fst]; [rewrite orb_false_r; reflexivity|].
    destruct (key_eqb k' k) eqn:E; cbn [existsb fst].
    - apply key_eqb_eq in E. subst k'. destruct (negb (is_empty k)); cbn; [reflexivity|]. rewrite orb_false_r. reflexivity.
    - rewrite IH. rewrite orb_assoc. reflexivity. }
  unfold add_nodes. induction ns as [|n ns IH]; intros m; cbn [fold_left existsb]; [rewrite orb_false_r; reflexivity|].
  rewrite IH, A, orb_assoc. reflexivity.
Qed.
Lemma kept_shown prune f : kept prune f = shown prune f.
Proof. unfold kept, shown, file_used, file_setmap. rewrite sm_used_add_nodes. reflexivity. Qed.

Lemma spec_dir_cons P prune q f files :
  spec_dir P prune q (f :: files) =
  (if shown prune f && negb (flink f) && strict_prefix q (fpath f) then nodes_sum P (fnodes f) else 0) + spec_dir P prune q files.
Proof. unfold spec_dir. cbn [fold_right]. destruct (shown prune f && negb (flink f) && strict_prefix q (fpath f)); lia. Qed.

Lemma tree_fig_gen P prune q : forall files t, (forall f, In f files -> fpath f <> q) ->
  nfig P (lookup q (fold_left (step prune) files t)) = nfig P (lookup q t) + spec_dir P prune q files.
Proof.
  induction files as [|f files IH]; intros t Hq; cbn [fold_left]; [unfold spec_dir; cbn; lia|].
  rewrite IH by (intros g Hg; apply Hq; right; exact Hg). rewrite spec_dir_cons.
  unfold step. rewrite kept_shown. destruct (shown prune f); cbn [andb]; [|lia].
  rewrite lookup_insert_fig by (intros E; apply (Hq f (or_introl eq_refl)); auto).
  rewrite sum_if_file_setmap, andb_comm. destruct (strict_prefix q (fpath f) && negb (flink f)); lia.
Qed.

(* every node that is not at the path of a file shows, for every figure P, the sum over
   the shown non-link files strictly below it *)
Theorem tree_dir_sums P prune q files : (forall f, In f files -> fpath f <> q) ->
  nfig P (lookup q (files_tree prune files)) = spec_dir P prune q files.
Proof. intros H. rewrite files_tree_fold, tree_fig_gen by exact H. cbn. destruct q; cbn; lia. Qed.

(* ---------- which paths exist, and what kind of node is there ---------- *)
Lemma prefix_eq_cases q comps : prefix_eq q comps = true <-> q = comps \/ strict_prefix q comps = true.
Proof. unfold prefix_eq. rewrite orb_true_iff, path_eqb_eq. reflexivity. Qed.

Lemma lookup_insert_present link sm comps q t :
  lookup q (insert comps link sm t) <> None <-> lookup q t <> None \/ prefix_eq q comps = true.
Proof.
  rewrite prefix_eq_cases. destruct (path_eqb q comps) eqn:E.
  - apply path_eqb_eq in E. subst q. split; [auto|]. intros _.
    destruct (lookup comps t) as [n0|] eqn:L.
    + rewrite (lookup_insert_existing link sm comps t n0 L). discriminate.
    + destruct comps as [|c rest]; [discriminate|].
      destruct (lookup_insert_leaf link sm (c :: rest) t) as (n & Hn & _); [discriminate | exact L | rewrite Hn; discriminate].
  - assert (Hne : q <> comps) by (intros ->; rewrite path_eqb_refl in E; discriminate).
    destruct (strict_prefix q comps) eqn:S.
    + destruct (lookup_insert_on_path link sm comps q t S) as (n & Hn & _). rewrite Hn. split; [auto | discriminate].
    + rewrite lookup_insert_other by assumption. split; [auto|]. intros [H|[H|H]]; [exact H | contradiction | discriminate].
Qed.

Lemma tree_present_gen prune q : forall files t,
  lookup q (fold_left (step prune) files t) <> None <->
  lookup q t <> None \/ exists f, In f files /\ shown prune f = true /\ prefix_eq q (fpath f) = true.
Proof.
  induction files as [|f files IH]; intros t; cbn [fold_left].
  - split; [auto|]. intros [H|(f & [] & _)]. exact H.
  - rewrite IH. unfold step. rewrite kept_shown. destruct (shown prune f) eqn:Sf.
    + rewrite lookup_insert_present. split.
      * intros [[H|H]|(g & Hg & Hs & Hp)]; [auto | right; exists f; cbn; auto | right; exists g; cbn; auto].
      * intros [H|(g & [<-|Hg] & Hs & Hp)]; [auto | auto | right; exists g; auto].
    + split.
      * intros [H|(g & Hg & Hs & Hp)]; [auto | right; exists g; cbn; auto].
      * intros [H|(g & [<-|Hg] & Hs & Hp)]; [auto | congruence | right; exists g; auto].
Qed.

Theorem tree_present prune q files :
  lookup q (files_tree prune files) <> None <->
  q = [] \/ exists f, In f files /\ shown prune f = true /\ prefix_eq q (fpath f) = true.
Proof.
  rewrite files_tree_fold, tree_present_gen. destruct q as [|c q].
  - split; [auto|]. intros _. left. discriminate.
  - split; (intros [H|H]; [|auto]); [exfalso; apply H; reflexivity | discriminate].
Qed.

Lemma tree_kind_gen prune (all : list file) : forall files t, incl files all ->
  (forall q n, lookup q t = Some n -> (forall f, In f all -> fpath f <> q) -> tdir n = true /\ tlink n = false) ->
  forall q n, lookup q (fold_left (step prune) files t) = Some n -> (forall f, In f all -> fpath f <> q) -> tdir n = true /\ tlink n = false.
Proof.
  induction files as [|f files IH]; intros t Hincl Ht; cbn [fold_left]; [exact Ht|].
  apply IH; [intros g Hg; apply Hincl; right; exact Hg|].
  intros q n Hl Hq. unfold step in Hl. destruct (kept prune f); [|apply (Ht q n Hl Hq)].
  assert (Hne : q <> fpath f) by (intros E; apply (Hq f); [apply Hincl; left; reflexivity | auto]).
  destruct (strict_prefix q (fpath f)) eqn:S.
  - destruct (lookup_insert_on_path (flink f) (file_setmap f) (fpath f) q t S) as (n' & Hn' & Hk).
    rewrite Hl in Hn'. inversion Hn'; subst n'. destruct (lookup q t) as [n0|] eqn:L; [|exact Hk].
    destruct (Ht q n0 L Hq) as [A B]. destruct Hk as [-> ->]. auto.
  - rewrite lookup_insert_other in Hl by assumption. apply (Ht q n Hl Hq).
Qed.

(* a node that is not at the path of a file is a directory and not a link *)
Theorem tree_dir_kind prune files q n :
  lookup q (files_tree prune files) = Some n -> (forall f, In f files -> fpath f <> q) -> tdir n = true /\ tlink n = false.
Proof.
  rewrite files_tree_fold. apply (tree_kind_gen prune files files root0); [apply incl_refl|].
  intros q' n' Hl _. destruct q' as [|c q']; [inversion Hl; subst; auto | discriminate].
Qed.

Lemma lookup_fold_other prune q : forall files t,
  (forall g, In g files -> fpath g <> q /\ strict_prefix q (fpath g) = false) ->
  lookup q (fold_left (step prune) files t) = lookup q t.
Proof.
  induction files as [|g files IH]; intros t H; cbn [fold_left]; [reflexivity|].
  rewrite IH by (intros g' Hg'; apply H; right; exact Hg').
  unfold step. destruct (kept prune g); [|reflexivity]. destruct (H g (or_introl eq_refl)) as [A B].
  apply lookup_insert_other; [congruence | exact B].
Qed.

(* every shown file has its own leaf, carrying the file's setmap *)
Theorem tree_file_node prune files f : wf_paths files -> In f files -> shown prune f = true ->
  exists n, lookup (fpath f) (files_tree prune files) = Some n /\
            is_leaf n (last (fpath f) EmptyString) (flink f) (file_setmap f).
Proof.
  intros (Hnd & Hpf & Hne) Hf Hs. destruct (in_split _ _ Hf) as (l1 & l2 & ->).
  rewrite files_tree_fold, fold_left_app. cbn [fold_left].
  rewrite map_app in Hnd. cbn [map] in Hnd. pose proof (NoDup_remove_2 _ _ _ Hnd) as Hnot.
  assert (Hoth : forall g, In g (l1 ++ l2) -> fpath g <> fpath f /\ strict_prefix (fpath f) (fpath g) = false).
  { intros g Hg. split.
    - intros E. apply Hnot. rewrite <- E, <- map_app. apply in_map, Hg.
    - apply Hpf; [exact Hf|]. apply in_app_or in Hg. apply in_or_app. destruct Hg; [left | right; right]; assumption. }
  rewrite lookup_fold_other by (intros g Hg; apply Hoth, in_or_app; right; exact Hg).
  unfold step at 1. rewrite kept_shown, Hs.
  apply lookup_insert_leaf; [apply Hne, Hf|].
  destruct (lookup (fpath f) (fold_left (step prune) l1 root0)) as [n0|] eqn:L; [|reflexivity]. exfalso.
  assert (Hp : lookup (fpath f) (fold_left (step prune) l1 root0) <> None) by (rewrite L; discriminate).
  apply tree_present_gen in Hp. destruct Hp as [Hp|(g & Hg & _ & Hp)].
  - destruct (fpath f) as [|c r] eqn:E; [apply (Hne f Hf E) | apply Hp; reflexivity].
  - destruct (Hoth g (in_or_app _ _ _ (or_introl Hg))) as [A B].
    apply prefix_eq_cases in Hp. destruct Hp as [Hp|Hp]; [congruence|].
    rewrite B in Hp. discriminate.
Qed.

(* ---------- root = summary ---------- *)
Lemma spec_dir_root P files : links_ok files -> (forall f, In f files -> fpath f <> []) ->
  spec_dir P false [] files = spec_sum P files.
Proof.
  induction files as [|f files IH]; intros Hl Hne; [reflexivity|].
  rewrite spec_dir_cons. cbn [spec_sum fold_right]. fold (spec_sum P files).
  rewrite IH by (try (intros g Hg; apply Hne; right; exact Hg); intros g Hg; apply Hl; right; exact Hg).
  assert (S : strict_prefix [] (fpath f) = true).
  { destruct (fpath f) eqn:E; [exfalso; apply (Hne f (or_introl eq_refl) E) | reflexivity]. }
  rewrite S. unfold shown, counted, skipped. cbn [negb orb andb]. rewrite andb_true_r.
  destruct (flink f) eqn:L; cbn [negb andb]; [rewrite (Hl f (or_introl eq_refl) L); cbn; lia | lia].
Qed.

Theorem root_is_summary files : links_ok files -> (forall f, In f files -> fpath f <> []) ->
  forall P, sum_if P (tsm (files_tree false files)) = sum_if P (get_setmap files).
Proof.
  intros Hl Hne P. rewrite setmap_sums, <- (spec_dir_root P files Hl Hne).
  rewrite <- (tree_dir_sums P false [] files) by (intros f Hf E; apply (Hne f Hf E)). reflexivity.
Qed.

(* ---------- prune ---------- *)
Lemma prune_filter_gen files : forall t,
  fold_left (step true) files t = fold_left (step false) (filter file_used files) t.
Proof.
  induction files as [|f files IH]; intros t; cbn [fold_left filter]; [reflexivity|].
  rewrite IH. unfold step at 2. rewrite kept_shown. unfold shown. cbn [negb orb].
  destruct (file_used f); [|reflexivity]. cbn [fold_left]. unfold step at 3. rewrite kept_shown. reflexivity.
Qed.

(* the pruned tree is the unpruned tree of the files some platform uses *)
Theorem prune_filter files : files_tree true files = files_tree false (filter file_used files).
Proof. rewrite !files_tree_fold. apply prune_filter_gen. Qed.

Theorem prune_exact files f : wf_paths files -> In f files ->
  (lookup (fpath f) (files_tree true files) <> None <-> file_used f = true).
Proof.
  intros Hwf Hf. split.
  - intros H. apply tree_present in H. destruct Hwf as (Hnd & Hpf & Hne).
    destruct H as [H|(g & Hg & Hs & Hp)]; [exfalso; apply (Hne f Hf H)|].
    apply prefix_eq_cases in Hp. destruct Hp as [Hp|Hp].
    + assert (g = f); [|subst g; exact Hs].
      clear - Hnd Hg Hf Hp. induction files as [|x files IH]; [destruct Hf|]. cbn [map] in Hnd. inversion Hnd as [|? ? Hx Hr]; subst.
      destruct Hg as [<-|Hg], Hf as [<-|Hf]; [reflexivity | | |apply IH; assumption].
      * exfalso. apply Hx. rewrite <- Hp. apply in_map, Hf.
      * exfalso. apply Hx. rewrite Hp. apply in_map, Hg.
    + rewrite (Hpf f g Hf Hg) in Hp. discriminate.
  - intros Hu. destruct (tree_file_node true files f Hwf Hf) as (n & Hn & _); [unfold shown; rewrite Hu; reflexivity|].
    rewrite Hn. discriminate.
Qed.

Lemma file_used_iff f : file_used f = true <-> exists n, In n (fnodes f) /\ nplat n <> [].
Proof.
  unfold file_used. rewrite existsb_exists. split; intros (n & Hn & H); exists n; (split; [exact Hn|]).
  - destruct (nplat n); [discriminate | discriminate].
  - destruct (nplat n); [congruence | reflexivity].
Qed.

(* pruning does not change any figure that ignores the empty platform set (used lines, per-platform lines) *)
Theorem prune_keeps_used P q files : P [] = false -> spec_dir P true q files = spec_dir P false q files.
Proof.
  intros HP. induction files as [|f files IH]; [reflexivity|]. rewrite !spec_dir_cons, IH. f_equal.
  unfold shown. cbn [negb orb andb]. destruct (file_used f) eqn:U; [reflexivity|]. cbn [andb].
  destruct (negb (flink f) && strict_prefix q (fpath f)); [|reflexivity].
  unfold file_used in U. induction (fnodes f) as [|n ns IHn]; [reflexivity|]. cbn [existsb] in U.
  apply orb_false_iff in U. destruct U as [U1 U2]. cbn [nodes_sum fold_right]. fold (nodes_sum P ns).
  rewrite <- (IHn U2). destruct (nplat n); [rewrite HP; reflexivity | discriminate].
Qed.

(* ---------- levels ---------- *)
Fixpoint tnode_ind2 (P : tnode -> Prop)
  (H : forall nm d l m ch, Forall P ch -> P (TNode nm d l m ch)) (t : tnode) {struct t} : P t :=
  match t with
  | TNode nm d l m ch =>
      H nm d l m ch ((fix go (ch : list tnode) : Forall P ch :=
                        match ch with
                        | [] => Forall_nil P
                        | x :: r => Forall_cons x (tnode_ind2 P H x) (go r)
                        end) ch)
  end.

Lemma rows_unfold rp U lv d t :
  rows rp U lv d t = if hidden lv d then [] else mkrow rp U d t :: flat_map (rows rp U lv (S d)) (tch t).
Proof. destruct t; reflexivity. Qed.

Lemma rows_depth_ge rp U t : forall d r, In r (rows rp U None d t) -> (d <= rdepth r)%nat.
Proof.
  induction t as [nm dd l m ch IH] using tnode_ind2. intros d r. rewrite rows_unfold. cbn [hidden tch].
  intros [<-|Hr]; [cbn; lia|]. apply in_flat_map in Hr. destruct Hr as (x & Hx & Hr).
  rewrite Forall_forall in IH. specialize (IH x Hx (S d) r Hr). lia.
Qed.

Lemma filter_flat_map_gen {A B} (g : B -> bool) (h : A -> list B) (l : list A) :
  filter g (flat_map h l) = flat_map (fun x => filter g (h x)) l.
Proof. induction l as [|x l IH]; [reflexivity|]. cbn [flat_map]. rewrite filter_app, IH. reflexivity. Qed.

Lemma flat_map_ext_in_local {A B} (f g : A -> list B) (l : list A) :
  (forall x, In x l -> f x = g x) -> flat_map f l = flat_map g l.
Proof.
  induction l as [|x l IH]; intros H; [reflexivity|]. cbn [flat_map].
  rewrite (H x (or_introl eq_refl)), IH by (intros y Hy; apply H; right; exact Hy). reflexivity.
Qed.

Theorem rows_levels rp U k t : (0 < k)%nat -> forall d,
  rows rp U (Some k) d t = filter (fun r => (rdepth r <=? k)%nat) (rows rp U None d t).
Proof.
  intros Hk. induction t as [nm dd l m ch IH] using tnode_ind2. intros d.
  rewrite (rows_unfold rp U (Some k)). unfold hidden.
  replace (k =? 0)%nat with false by (symmetry; apply Nat.eqb_neq; lia). cbn [negb andb].
  destruct (k <? d)%nat eqn:E.
  - apply Nat.ltb_lt in E. symmetry. rewrite (filter_const _ false); [reflexivity|].
    intros r Hr. apply rows_depth_ge in Hr. apply Nat.leb_gt. lia.
  - apply Nat.ltb_ge in E. rewrite (rows_unfold rp U None). cbn [hidden filter tch].
    replace (rdepth (mkrow rp U d (TNode nm dd l m ch)) <=? k)%nat with true by (symmetry; apply Nat.leb_le; cbn; lia).
    f_equal. rewrite filter_flat_map_gen. apply flat_map_ext_in_local.
    rewrite Forall_forall in IH. intros x Hx. apply IH, Hx.
Qed.

(* levels = 0 is Python-false: nothing is hidden (the cbi-tree front end rejects it beforehand) *)
Lemma rows_levels_zero rp U t : forall d, rows rp U (Some O) d t = rows rp U None d t.
Proof.
  induction t as [nm dd l m ch IH] using tnode_ind2. intros d. rewrite !rows_unfold. cbn [hidden Nat.eqb negb andb tch].
  f_equal. apply flat_map_ext_in_local. rewrite Forall_forall in IH. intros x Hx. apply IH, Hx.
Qed.

Theorem report_levels U prune k files :
  report_files U prune (Some k) files =
  (fst (report_files U prune None files),
   if (k =? 0)%nat then snd (report_files U prune None files)
   else filter (fun r => (rdepth r <=? k)%nat) (snd (report_files U prune None files))).
Proof.
  unfold report_files. cbn [fst snd]. f_equal. destruct k as [|k]; cbn [Nat.eqb].
  - apply rows_levels_zero.
  - apply rows_levels. lia.
Qed.

(* the root row of the unpruned report shows the summary's figures *)
Lemma report_root_row U prune lv files :
  exists rest, snd (report_files U prune lv files) =
     mkrow (node_plats U (tsm (files_tree prune files))) U 0 (files_tree prune files) :: rest.
Proof.
  unfold report_files. cbn [snd]. rewrite rows_unfold.
  replace (hidden lv 0) with false by (destruct lv as [k|]; [unfold hidden; destruct k; reflexivity | reflexivity]).
  eexists. reflexivity.
Qed.
