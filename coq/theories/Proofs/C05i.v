(* C05, step 9: the literal ISO reading (Spec/C05i.v: splice, then look-ahead
   comment recognition) equals the pending-state scanner of Spec/C05.v. *)
From Coq Require Import ZArith Bool Ascii Arith List Lia.
From CBI Require Import Lib.Data Model.C05 Spec.C05 Spec.C05f Spec.C05i Model.C05r Proofs.C05s Proofs.C05f.
Import ListNotations.

(* ---------- part 1: phase 2 = the token stream of C05f without its splice marks ---------- *)
Definition strip1 (x : tok * nat) : list (ich * nat) :=
  match x with
  | (TCh k, n) => [(ICh k, n)]
  | (TNl, n) => [(INl, n)]
  | (TSplice, _) => []
  end.
Definition strip (L : list (tok * nat)) : list (ich * nat) := flat_map strip1 L.

Lemma phase2_strip : forall k t n, length t <= k -> phase2 n t = strip (tokens n t).
Proof.
  induction k as [|k IH]; intros t n Hl.
  - destruct t; [reflexivity|cbn in Hl; lia].
  - destruct t as [|c r]; [reflexivity|]. cbn [length] in Hl. cbn [phase2 tokens].
    destruct (is_nl c).
    + cbn [strip flat_map strip1 app]. f_equal. apply IH. lia.
    + destruct (is_bs c).
      * destruct r as [|d r']; [reflexivity|]. cbn [length] in Hl. destruct (is_nl d).
        -- cbn [strip flat_map strip1 app]. apply IH. lia.
        -- cbn [strip flat_map strip1 app]. f_equal. apply IH. cbn [length]. lia.
      * cbn [strip flat_map strip1 app]. f_equal. apply IH. lia.
Qed.

(* ---------- part 2: the scanner does not need the splice marks ---------- *)
Definition ftok' (s : sst) (x : ich * nat) : sst :=
  match x with
  | (ICh k, n) => sstep n s k
  | (INl, n) => s_eol n false s
  end.

(* equality on what the result is made of; the pending-slash line only matters while a slash is pending *)
Definition E (s1 s2 : sst) : Prop :=
  s_q s1 = s_q s2 /\ s_ms s1 = s_ms s2 /\ s_d s1 = s_d s2 /\ s_out s1 = s_out s2 /\ s_wf s1 = s_wf s2 /\
  (s_q s1 = sSlash -> s_sl s1 = s_sl s2).

Lemma E_refl s : E s s.
Proof. unfold E. repeat split; auto. Qed.
Lemma E_trans s1 s2 s3 : E s1 s2 -> E s2 s3 -> E s1 s3.
Proof.
  unfold E. intros (A1 & A2 & A3 & A4 & A5 & A6) (B1 & B2 & B3 & B4 & B5 & B6).
  repeat split; try congruence. intros H. rewrite A6 by exact H. apply B6. congruence.
Qed.
Lemma E_sym s1 s2 : E s1 s2 -> E s2 s1.
Proof.
  unfold E. intros (A1 & A2 & A3 & A4 & A5 & A6). repeat split; try congruence.
  intros H. symmetry. apply A6. congruence.
Qed.

Lemma E_sstep n c s1 s2 : E s1 s2 -> E (sstep n s1 c) (sstep n s2 c).
Proof.
  destruct s1 as [q1 sl1 ms1 d1 op1 lw1 out1 wf1 a1 b1], s2 as [q2 sl2 ms2 d2 op2 lw2 out2 wf2 a2 b2].
  unfold E. cbn [s_q s_ms s_d s_out s_wf s_sl]. intros (<- & <- & <- & <- & <- & Hsl).
  destruct q1; try (specialize (Hsl eq_refl); subst sl2);
    destruct c; unfold far_slash; cbn -[mark marked Nat.eqb];
    try (destruct (marked n ms1); cbn -[mark marked Nat.eqb]);
    repeat split; try reflexivity; try discriminate.
Qed.

Lemma E_eol n s1 s2 : E s1 s2 -> E (s_eol n false s1) (s_eol n false s2).
Proof.
  destruct s1 as [q1 sl1 ms1 d1 op1 lw1 out1 wf1 a1 b1], s2 as [q2 sl2 ms2 d2 op2 lw2 out2 wf2 a2 b2].
  unfold E. cbn [s_q s_ms s_d s_out s_wf s_sl]. intros (<- & <- & <- & <- & <- & Hsl).
  destruct q1; try (specialize (Hsl eq_refl); subst sl2);
    unfold s_eol, far_slash; cbn -[mark marked Nat.eqb rev];
    repeat split; try reflexivity; try discriminate.
Qed.

Lemma E_splice n s : E (s_eol n true s) s.
Proof.
  destruct s as [q sl ms d op lw out wf a b]. unfold E, s_eol. cbn -[mark marked]. repeat split; reflexivity.
Qed.

Lemma E_ftok' x s1 s2 : E s1 s2 -> E (ftok' s1 x) (ftok' s2 x).
Proof. destruct x as [[k|] n]; cbn [ftok']; [apply E_sstep | apply E_eol]. Qed.

Lemma E_run X : forall s1 s2, E s1 s2 -> E (fold_left ftok' X s1) (fold_left ftok' X s2).
Proof. induction X as [|x X IH]; intros s1 s2 H; cbn [fold_left]; [exact H|]. apply IH. apply E_ftok'. exact H. Qed.

Lemma E_strip L : forall s1 s2, E s1 s2 -> E (fold_left ftok L s1) (fold_left ftok' (strip L) s2).
Proof.
  induction L as [|[[k| |] n] L IH]; intros s1 s2 H; cbn [fold_left strip flat_map strip1 app ftok].
  - exact H.
  - apply IH. apply E_sstep. exact H.
  - apply IH. apply E_eol. exact H.
  - apply IH. apply E_trans with s1; [apply E_splice|exact H].
Qed.

(* ---------- part 3: look-ahead phase 3 = pending-state scanner on the spliced sequence ---------- *)
Definition qof (m : imode) : sm :=
  match m with iTop => sTop | iLine => sLC | iBlock => sBlk | iLit cSq => sSQ | iLit _ => sDQ end.
Definition mok (m : imode) : Prop :=
  match m with iLit cDq | iLit cSq => True | iLit _ => False | _ => True end.
Definition Rel (m : imode) (a : iacc) (s : sst) : Prop :=
  mok m /\ s_q s = qof m /\ i_ms a = s_ms s /\ i_d a = s_d s /\ i_out a = s_out s /\ i_wf a = s_wf s.

Lemma Rel_E m a s1 s2 : Rel m a s1 -> E s1 s2 -> Rel m a s2.
Proof.
  unfold Rel, E. intros (R0 & R1 & R2 & R3 & R4 & R5) (A1 & A2 & A3 & A4 & A5 & _).
  repeat split; congruence.
Qed.

Fixpoint ok_end (X : list (ich * nat)) : bool :=
  match X with
  | [] => true
  | x :: r => match r with
              | [] => match x with (INl, _) => true | _ => false end
              | _ => ok_end r
              end
  end.
Lemma ok_end_tl x y r : ok_end (x :: y :: r) = ok_end (y :: r).
Proof. reflexivity. Qed.

Ltac open_rel H :=
  match type of H with
  | Rel ?m ?a ?s =>
      destruct s as [q sl ms d op lw out wf c20 c22]; destruct a as [ims id iout iwf];
      unfold Rel, mok, qof in H; cbn [s_q s_ms s_d s_out s_wf i_ms i_d i_out i_wf] in H;
      destruct H as (_ & ? & ? & ? & ? & ?); subst
  end.
Ltac close_goal :=
  unfold Rel, E, mok, qof, far_slash, i_char, i_surv, i_endl, i_bad, s_eol, ftok';
  cbn -[mark marked Nat.eqb rev];
  rewrite ?Proofs.C05s.marked_mark, ?Nat.eqb_refl; cbn -[mark marked Nat.eqb rev];
  repeat match goal with |- context [marked ?x ?y] => destruct (marked x y); cbn -[mark marked Nat.eqb rev] end;
  repeat split; try reflexivity; try discriminate; auto.

(* single-token transitions *)
Lemma step_top n k a s : Rel iTop a s -> k <> cSl ->
  Rel (match k with cDq => iLit cDq | cSq => iLit cSq | _ => iTop end)
      (match k with
       | cDq | cSq => i_surv n false a
       | cBs => i_bad (i_surv n false a)
       | cHash => i_surv n true a
       | _ => i_char n k a
       end) (sstep n s k).
Proof. intros H Hk. open_rel H. destruct k; try congruence; close_goal. Qed.

Lemma step_nl_top n a s : Rel iTop a s -> Rel iTop (i_endl a) (s_eol n false s).
Proof. intros H. open_rel H. close_goal. Qed.
Lemma step_line n c a s : Rel iLine a s ->
  Rel (match c with INl => iTop | _ => iLine end) (match c with INl => i_endl a | _ => a end) (ftok' s (c, n)).
Proof. intros H. open_rel H. destruct c as [k|]; [destruct k|]; close_goal. Qed.
Lemma step_block n c a s : Rel iBlock a s -> c <> ICh cSt -> Rel iBlock a (ftok' s (c, n)).
Proof. intros H Hc. open_rel H. destruct c as [k|]; [destruct k; try congruence|]; close_goal. Qed.
Lemma step_lit_nl n q a s : Rel (iLit q) a s -> Rel iTop (i_endl (i_bad a)) (s_eol n false s).
Proof. intros H. pose proof H as (Hm & _). destruct q; try (exfalso; exact Hm); open_rel H; close_goal. Qed.
Lemma step_lit n q k a s : Rel (iLit q) a s -> k <> cBs ->
  Rel (if is_quote q k then iTop else iLit q) (if is_quote q k then i_surv n false a else i_char n k a) (sstep n s k).
Proof.
  intros H Hk. pose proof H as (Hm & _). destruct q; try (exfalso; exact Hm); open_rel H;
    destruct k; try congruence; close_goal.
Qed.

(* two-token transitions *)
Lemma step_slash_slash n n2 a s : Rel iTop a s -> Rel iLine a (sstep n2 (sstep n s cSl) cSl).
Proof. intros H. open_rel H. close_goal. Qed.
Lemma step_slash_star n n2 a s : Rel iTop a s -> Rel iBlock a (sstep n2 (sstep n s cSl) cSt).
Proof. intros H. open_rel H. close_goal. Qed.
Lemma step_star_slash n n2 a s : Rel iBlock a s -> Rel iTop a (sstep n2 (sstep n s cSt) cSl).
Proof. intros H. open_rel H. close_goal. Qed.
Lemma step_escape n n2 q k a s : Rel (iLit q) a s ->
  Rel (iLit q) (i_char n2 k (i_surv n false a)) (sstep n2 (sstep n s cBs) k).
Proof.
  intros H. pose proof H as (Hm & _). destruct q; try (exfalso; exact Hm); open_rel H;
    destruct k; close_goal.
Qed.

(* a pending state whose look-ahead fails behaves like the resolved state *)
Lemma desync_slash n y a s : Rel iTop a s -> fst y <> ICh cSl -> fst y <> ICh cSt ->
  let s2 := set_q sTop (survive n false s) in
  Rel iTop (i_surv n false a) s2 /\ E (ftok' (sstep n s cSl) y) (ftok' s2 y).
Proof.
  intros H H1 H2. destruct y as [[k|] n2]; cbn [fst] in *; open_rel H.
  - split; [close_goal|]. destruct k; try congruence; close_goal.
  - split; close_goal.
Qed.
Lemma desync_star n y a s : Rel iBlock a s -> fst y <> ICh cSl ->
  E (ftok' (sstep n s cSt) y) (ftok' s y).
Proof.
  intros H H1. destruct y as [[k|] n2]; cbn [fst] in *; open_rel H.
  - destruct k; try congruence; close_goal.
  - close_goal.
Qed.
Lemma desync_escape n n2 q a s : Rel (iLit q) a s ->
  let s3 := set_q (qof (iLit q)) (survive n false s) in
  Rel (iLit q) (i_surv n false a) s3 /\ E (ftok' (sstep n s cBs) (INl, n2)) (ftok' s3 (INl, n2)).
Proof.
  intros H. pose proof H as (Hm & _). destruct q; try (exfalso; exact Hm); open_rel H; split; close_goal.
Qed.

Lemma ok_end_cons x tl : ok_end (x :: tl) = true -> ok_end tl = true.
Proof. destruct tl; [reflexivity|]. intros H; exact H. Qed.

Lemma p3_slash_other a n y r : fst y <> ICh cSl -> fst y <> ICh cSt ->
  phase3 iTop a ((ICh cSl, n) :: y :: r) = phase3 iTop (i_surv n false a) (y :: r).
Proof. destruct y as [[k|] n2]; [destruct k|]; cbn [fst]; intros H1 H2; try congruence; reflexivity. Qed.
Lemma p3_star_other a n y r : fst y <> ICh cSl ->
  phase3 iBlock a ((ICh cSt, n) :: y :: r) = phase3 iBlock a (y :: r).
Proof. destruct y as [[k|] n2]; [destruct k|]; cbn [fst]; intros H1; try congruence; reflexivity. Qed.
Lemma p3_bs_nl q a n n2 r :
  phase3 (iLit q) a ((ICh cBs, n) :: (INl, n2) :: r) = phase3 (iLit q) (i_surv n false a) ((INl, n2) :: r).
Proof. reflexivity. Qed.

Lemma sim : forall k X, length X <= k -> ok_end X = true ->
  forall m a s, Rel m a s ->
  Rel (snd (phase3 m a X)) (fst (phase3 m a X)) (fold_left ftok' X s).
Proof.
  induction k as [|k IH]; intros X Hl Hok m a s HR.
  - destruct X; [exact HR | cbn in Hl; lia].
  - destruct X as [|[c n] tl]; [exact HR|]. cbn [length] in Hl.
    assert (Htl : length tl <= k) by lia.
    pose proof (ok_end_cons _ _ Hok) as Hoktl.
    cbn [fold_left].
    destruct m as [| | |q].
    + (* code *)
      destruct c as [kc|]; [destruct kc|];
        try (cbn [phase3]; apply IH; [exact Htl | exact Hoktl | ];
             first [ match goal with |- Rel _ _ (ftok' _ (ICh ?kk, _)) => apply (step_top n kk a s HR); discriminate end
                   | apply step_nl_top; exact HR ]; fail).
      (* a slash: look ahead *)
      destruct tl as [|[c2 n2] r]; [discriminate Hok|]. cbn [length] in Htl.
      assert (Hr : length r <= k) by lia. pose proof (ok_end_cons _ _ Hoktl) as Hokr.
      destruct c2 as [k2|]; [destruct k2|];
        try (rewrite p3_slash_other by (cbn; discriminate);
             match goal with |- Rel _ _ (fold_left ftok' (?y :: ?rr) _) =>
               destruct (desync_slash n y a s HR ltac:(cbn; discriminate) ltac:(cbn; discriminate)) as [R2 EE];
               refine (Rel_E _ _ _ _ (IH (y :: rr) ltac:(cbn [length]; lia) Hoktl _ _ _ R2) _) end;
             cbn [fold_left]; apply E_run; apply E_sym; exact EE).
      * cbn [phase3 fold_left]. apply IH; [lia | exact Hokr | apply step_slash_slash; exact HR].
      * cbn [phase3 fold_left]. apply IH; [lia | exact Hokr | apply step_slash_star; exact HR].
    + (* // comment *)
      pose proof (step_line n c a s HR) as R1.
      destruct c as [kc|]; cbn [phase3]; apply IH; auto.
    + (* /* comment *)
      destruct c as [kc|].
      * destruct kc;
          try (cbn [phase3]; apply IH; [exact Htl | exact Hoktl | apply step_block; [exact HR | discriminate]]; fail).
        (* a star: look ahead *)
        destruct tl as [|[c2 n2] r]; [discriminate Hok|]. cbn [length] in Htl.
        assert (Hr : length r <= k) by lia. pose proof (ok_end_cons _ _ Hoktl) as Hokr.
        destruct c2 as [k2|]; [destruct k2|];
          try (rewrite p3_star_other by (cbn; discriminate);
               match goal with |- Rel _ _ (fold_left ftok' (?y :: ?rr) _) =>
                 pose proof (desync_star n y a s HR ltac:(cbn; discriminate)) as EE;
                 refine (Rel_E _ _ _ _ (IH (y :: rr) ltac:(cbn [length]; lia) Hoktl _ _ _ HR) _) end;
               cbn [fold_left]; apply E_run; apply E_sym; exact EE).
        cbn [phase3 fold_left]. apply IH; [lia | exact Hokr | apply step_star_slash; exact HR].
      * cbn [phase3]. apply IH; [exact Htl | exact Hoktl | apply step_block; [exact HR | discriminate]].
    + (* literal *)
      destruct c as [kc|].
      * destruct kc;
          try (match goal with |- context [(ICh ?kk, n) :: tl] => pose proof (step_lit n q kk a s HR ltac:(discriminate)) as R1 end; cbn [phase3];
               match type of R1 with context [is_quote ?x ?y] => destruct (is_quote x y) end;
               apply IH; auto; fail).
        (* a backslash: look ahead *)
        destruct tl as [|[c2 n2] r]; [discriminate Hok|]. cbn [length] in Htl.
        assert (Hr : length r <= k) by lia. pose proof (ok_end_cons _ _ Hoktl) as Hokr.
        destruct c2 as [k2|].
        -- cbn [phase3 fold_left]. apply IH; [lia | exact Hokr | apply step_escape; exact HR].
        -- rewrite p3_bs_nl. destruct (desync_escape n n2 q a s HR) as [R3 EE].
           refine (Rel_E _ _ _ _ (IH ((INl, n2) :: r) ltac:(cbn [length]; lia) Hoktl _ _ _ R3) _).
           cbn [fold_left]. apply E_run. apply E_sym. exact EE.
      * cbn [phase3]. apply IH; [exact Htl | exact Hoktl | apply (step_lit_nl n q); exact HR].
Qed.

(* ---------- part 4: the end of the text ---------- *)
Fixpoint last_splice (L : list (tok * nat)) : bool :=
  match L with
  | [] => false
  | x :: r => match r with
              | [] => match x with (TSplice, _) => true | _ => false end
              | _ => last_splice r
              end
  end.
Lemma last_splice_cons x L : L <> [] -> last_splice (x :: L) = last_splice L.
Proof. destruct L; [congruence|reflexivity]. Qed.
Lemma last_splice_app L : forall y, last_splice (L ++ [y]) = match y with (TSplice, _) => true | _ => false end.
Proof.
  induction L as [|x L IH]; intros y; [reflexivity|]. cbn [app]. rewrite last_splice_cons; [apply IH|].
  destruct L; discriminate.
Qed.
Lemma tokens_nonempty t n : t <> [] -> tokens n t <> [].
Proof.
  destruct t as [|c r]; [congruence|]. intros _. cbn [tokens].
  destruct (is_nl c); [discriminate|]. destruct (is_bs c); [|discriminate].
  destruct r as [|d r']; [discriminate|]. destruct (is_nl d); discriminate.
Qed.
Lemma nl_not_bs c : is_nl c = true -> is_bs c = false.
Proof. unfold is_nl, is_bs. intros H. apply Z.eqb_eq in H. rewrite H. reflexivity. Qed.
Lemma single_token c n : last_splice (tokens n [c]) = false.
Proof. cbn [tokens]. destruct (is_nl c); [reflexivity|]. destruct (is_bs c); reflexivity. Qed.

Lemma tokens_cons c r n :
  tokens n (c :: r) =
  if is_nl c then (TNl, n) :: tokens (S n) r
  else if is_bs c then
    match r with
    | d :: r' => if is_nl d then (TSplice, n) :: tokens (S n) r' else (TCh cBs, n) :: tokens n r
    | [] => [(TCh cBs, n)]
    end
  else (TCh (classify c), n) :: tokens n r.
Proof. reflexivity. Qed.

Lemma last_splice_tokens : forall k t n, length t <= k -> last_splice (tokens n t) = ends_bs_nl t.
Proof.
  induction k as [|k IH]; intros t n Hl.
  - destruct t; [reflexivity|cbn in Hl; lia].
  - destruct t as [|c r]; [reflexivity|]. cbn [length] in Hl.
    destruct r as [|d r'].
    + rewrite single_token. reflexivity.
    + cbn [length] in Hl.
      assert (Hrec : forall m, last_splice (tokens m (d :: r')) = ends_bs_nl (d :: r')) by (intros m; apply IH; cbn [length]; lia).
      assert (Hne : forall m, tokens m (d :: r') <> []) by (intros m; apply tokens_nonempty; discriminate).
      assert (Hebn : r' <> [] -> ends_bs_nl (c :: d :: r') = ends_bs_nl (d :: r')) by (destruct r'; [congruence|reflexivity]).
      rewrite tokens_cons. destruct (is_nl c) eqn:Ec.
      * rewrite last_splice_cons by apply Hne. rewrite Hrec.
        destruct r' as [|e r'']; [|symmetry; apply Hebn; discriminate].
        cbn [ends_bs_nl]. rewrite (nl_not_bs _ Ec). reflexivity.
      * destruct (is_bs c) eqn:Eb.
        -- destruct (is_nl d) eqn:Ed.
           ++ destruct r' as [|e r''].
              ** cbn [tokens last_splice ends_bs_nl]. rewrite Eb, Ed. reflexivity.
              ** rewrite last_splice_cons by (apply tokens_nonempty; discriminate).
                 rewrite (IH (e :: r'') (S n)) by (cbn [length] in *; lia).
                 rewrite Hebn by discriminate.
                 destruct r'' as [|f r3]; [cbn [ends_bs_nl]; rewrite (nl_not_bs _ Ed); reflexivity | reflexivity].
           ++ rewrite last_splice_cons by apply Hne. rewrite Hrec.
              destruct r' as [|e r'']; [|symmetry; apply Hebn; discriminate].
              cbn [ends_bs_nl]. rewrite Ed, andb_false_r. reflexivity.
        -- rewrite last_splice_cons by apply Hne. rewrite Hrec.
           destruct r' as [|e r'']; [|symmetry; apply Hebn; discriminate].
           cbn [ends_bs_nl]. rewrite Eb. reflexivity.
Qed.

Lemma lines_tokens_app a : forall n b, lines_tokens n (a ++ b) = lines_tokens n a ++ lines_tokens (n + length a) b.
Proof.
  induction a as [|l a IH]; intros n b; cbn [app lines_tokens length].
  - rewrite Nat.add_0_r. reflexivity.
  - rewrite IH, <- app_assoc. replace (S n + length a) with (n + S (length a)) by lia. reflexivity.
Qed.

Lemma lines_tokens_last ls n : ls <> [] ->
  exists L0 x m, lines_tokens n ls = L0 ++ [(x, m)] /\ (x = TNl \/ x = TSplice).
Proof.
  intros Hne. destruct (exists_last Hne) as (ls0 & l & ->).
  rewrite lines_tokens_app. cbn [lines_tokens]. rewrite app_nil_r. unfold line_tokens.
  eexists. eexists. eexists. split; [rewrite app_assoc; reflexivity|]. destruct (snd l); auto.
Qed.

Lemma ok_end_app X n : ok_end (X ++ [(INl, n)]) = true.
Proof.
  induction X as [|x X IH]; [reflexivity|]. cbn [app]. destruct (X ++ [(INl, n)]) eqn:E; [destruct X; discriminate E|].
  exact IH.
Qed.
Lemma strip_app A B : strip (A ++ B) = strip A ++ strip B.
Proof. unfold strip. apply flat_map_app. Qed.

Lemma eol_open n s : s_open (s_eol n false s) = sm_eqb (s_q (s_eol n false s)) sBlk /\
                     (s_q (s_eol n false s) = sTop \/ s_q (s_eol n false s) = sBlk).
Proof. destruct s as [q sl ms d op lw out wf a b]. unfold s_eol. destruct q; cbn; auto. Qed.
Lemma splice_open n s : s_open (s_eol n true s) = true.
Proof. destruct s as [q sl ms d op lw out wf a b]. reflexivity. Qed.

(* ---------- part 5: a missing final new-line ---------- *)
Lemma ends_nl_snoc t c : ends_nl (t ++ [c]) = is_nl c.
Proof. unfold ends_nl. rewrite rev_app_distr. reflexivity. Qed.
Lemma ends_nl_norm t : ends_nl (norm_nl t) = true.
Proof. unfold norm_nl. destruct (ends_nl t) eqn:E; [exact E|]. rewrite ends_nl_snoc. reflexivity. Qed.
Lemma ends_nl_cons c r : r <> [] -> ends_nl (c :: r) = ends_nl r.
Proof.
  intros Hne. unfold ends_nl. cbn [rev]. destruct (rev r) as [|x y] eqn:E; [|reflexivity].
  exfalso. apply Hne. rewrite <- (rev_involutive r), E. reflexivity.
Qed.

Lemma raw_cons cur c r :
  raw_lines_aux cur (c :: r) =
  if (zascii c =? 10)%Z then (rev cur, true) :: raw_lines_aux [] r else raw_lines_aux (c :: cur) r.
Proof. reflexivity. Qed.

Lemma raw_snoc_nl t : forall cur ls, ends_nl t = false ->
  prep_lines (raw_lines_aux cur t) = Some ls ->
  prep_lines (raw_lines_aux cur (t ++ ["010"%char])) = Some ls.
Proof.
  induction t as [|c r IH]; intros cur ls He H; [discriminate He|].
  destruct r as [|d r'].
  - (* c is the last character and is not a new-line *)
    assert (Hc : (zascii c =? 10)%Z = false) by (unfold ends_nl, is_nl in He; cbn in He; exact He).
    cbn [app raw_lines_aux] in *. rewrite Hc in *. cbn [raw_lines_aux] in *.
    change (zascii "010" =? 10)%Z with true. cbn iota. cbn [prep_lines] in *. clear IH.
    unfold prep_line in *. rewrite rev_involutive in *. cbn [rev] in *.
    destruct (rev cur ++ [c]) as [|x before] eqn:Er; [destruct (rev cur); discriminate Er|].
    cbn [rev app] in *. rewrite <- Er in *.
    destruct (is_bs c); [discriminate H|exact H].
  - rewrite ends_nl_cons in He by discriminate.
    change ((c :: d :: r') ++ ["010"%char]) with (c :: (d :: r') ++ ["010"%char]).
    rewrite raw_cons in H. rewrite raw_cons. destruct (zascii c =? 10)%Z.
    + cbn [prep_lines] in *. destruct (prep_line (rev cur, true)); [|discriminate H].
      destruct (prep_lines (raw_lines_aux [] (d :: r'))) as [ps|] eqn:Ep; [|discriminate H].
      rewrite (IH [] ps He Ep). exact H.
    + apply IH; assumption.
Qed.

Lemma plines_norm t ls : plines_of_text t = Some ls -> plines_of_text (norm_nl t) = Some ls.
Proof.
  unfold norm_nl. destruct (ends_nl t) eqn:E; [auto|]. unfold plines_of_text, raw_lines. apply raw_snoc_nl. exact E.
Qed.

(* ---------- part 6: the equivalence ---------- *)
Lemma qof_top m : mok m -> qof m = sTop -> m = iTop.
Proof. destruct m as [| | |[]]; cbn; intros H E; try discriminate E; try contradiction; reflexivity. Qed.
Lemma qof_blk m : mok m -> qof m = sBlk -> m = iBlock.
Proof. destruct m as [| | |[]]; cbn; intros H E; try discriminate E; try contradiction; reflexivity. Qed.
Lemma Rel_init : Rel iTop i_init s_init.
Proof. unfold Rel. cbn. repeat split. Qed.

Theorem iso_eq t ls : plines_of_text t = Some ls ->
  iso_wf (iso_scan t) = r_wf (S_scan (cls_lines ls)) /\
  (ends_bs_nl (norm_nl t) = false -> iso_logical (iso_scan t) = r_logical (S_scan (cls_lines ls))).
Proof.
  intros P. pose proof (plines_norm _ _ P) as P'. pose proof (ends_nl_norm t) as He.
  destruct (F_scan_eq _ He) as (ls' & P'' & EF). rewrite P' in P''. injection P'' as <-.
  rewrite <- EF. unfold iso_scan, F_scan. remember (norm_nl t) as t' eqn:Et'.
  destruct (tokens_lines t' He) as (ls2 & P2 & T2). rewrite P' in P2. injection P2 as <-.
  rewrite (phase2_strip (length t') t' 1 (le_n _)).
  remember (tokens 1 t') as L eqn:EL.
  pose proof (E_strip L s_init s_init (E_refl _)) as EE.
  pose proof (last_splice_tokens (length t') t' 1 (le_n _)) as LS. rewrite <- EL in LS.
  destruct ls as [|l0 ls0].
  - (* no physical line at all: the empty text *)
    assert (HL : L = []) by (rewrite EL, T2; reflexivity).
    rewrite HL in *. cbn [last_splice] in LS. rewrite <- LS. cbn. split; reflexivity.
  - destruct (lines_tokens_last (l0 :: ls0) 1 ltac:(discriminate)) as (L0 & x & m & HL & Hx).
    rewrite <- T2, <- EL in HL. rewrite HL, last_splice_app in LS.
    rewrite HL in EE. rewrite HL. rewrite strip_app in *. rewrite fold_left_app in *.
    destruct Hx as [-> | ->]; cbn [strip flat_map strip1 app fold_left ftok] in *; rewrite <- LS.
    + (* the text ends with a new-line that is not spliced away *)
      remember (strip L0 ++ [(INl, m)]) as X eqn:EX.
      assert (Hok : ok_end X = true) by (rewrite EX; apply ok_end_app).
      pose proof (sim (length X) X (le_n _) Hok iTop i_init s_init Rel_init) as R.
      destruct (phase3 iTop i_init X) as [a' m'] eqn:Ep. cbn [fst snd] in R.
      pose proof (Rel_E _ _ _ _ R (E_sym _ _ EE)) as R'.
      remember (fold_left ftok L0 s_init) as s0 eqn:Es0.
      destruct (eol_open m s0) as [Ho Hq].
      destruct R' as (Rm & Rq & R1 & R2 & R3 & R4).
      split.
      * cbn [iso_wf r_wf]. rewrite Ho, R4, Rq. rewrite Rq in Hq. destruct Hq as [Hq|Hq].
        -- rewrite (qof_top _ Rm Hq). cbn. rewrite !andb_true_r. reflexivity.
        -- rewrite (qof_blk _ Rm Hq). cbn. rewrite !andb_false_r. reflexivity.
      * intros _. cbn [iso_logical r_logical]. unfold i_endl, end_logical. cbn [i_out s_out].
        rewrite R1, R2, R3. reflexivity.
    + (* the text ends with backslash, new-line *)
      split.
      * cbn [iso_wf r_wf]. rewrite splice_open. destruct (phase3 iTop i_init (strip L0 ++ [])) as [a' m'].
        cbn. rewrite !andb_false_r. reflexivity.
      * intros H. discriminate H.
Qed.
Print Assumptions iso_eq.

(* ---------- part 7: corollaries ---------- *)
(* S on the raw characters needs no final new-line once one is supplied *)
Theorem F_scan_norm_eq t ls : plines_of_text t = Some ls -> F_scan (norm_nl t) = S_scan (cls_lines ls).
Proof.
  intros P. pose proof (plines_norm _ _ P) as P'.
  destruct (F_scan_eq _ (ends_nl_norm t)) as (ls' & P'' & EF). rewrite P' in P''. injection P'' as <-. exact EF.
Qed.

Lemma iso_wf_no_splice t : iso_wf (iso_scan t) = true -> ends_bs_nl (norm_nl t) = false.
Proof.
  unfold iso_scan. destruct (phase3 iTop i_init (phase2 1 (norm_nl t))) as [a m]. cbn [iso_wf].
  intros H. apply andb_true_iff in H. destruct H as [_ H]. apply negb_true_iff in H. exact H.
Qed.

(* which texts have no physical-line form: exactly those ending in a backslash that no new-line follows
   (c_file_source raises "file seems to end in \ with no newline!") *)
Definition ends_bare_bs (t : list ascii) : bool :=
  match rev t with c :: _ => is_bs c | [] => false end.

Lemma bare_cons c r : r <> [] -> ends_bare_bs (c :: r) = ends_bare_bs r.
Proof.
  intros Hne. unfold ends_bare_bs. cbn [rev]. destruct (rev r) as [|x y] eqn:E; [|reflexivity].
  exfalso. apply Hne. rewrite <- (rev_involutive r), E. reflexivity.
Qed.

Lemma raw_bare t : forall cur, ends_nl t = false -> ends_bare_bs t = true ->
  prep_lines (raw_lines_aux cur t) = None.
Proof.
  induction t as [|c r IH]; intros cur He Hb; [discriminate He|].
  destruct r as [|d r'].
  - assert (Hc : (zascii c =? 10)%Z = false) by (unfold ends_nl, is_nl in He; cbn in He; exact He).
    unfold ends_bare_bs in Hb. cbn in Hb.
    rewrite raw_cons, Hc. cbn [raw_lines_aux prep_lines]. unfold prep_line. rewrite rev_involutive.
    rewrite Hb. reflexivity.
  - rewrite ends_nl_cons in He by discriminate. rewrite bare_cons in Hb by discriminate.
    rewrite raw_cons. destruct (zascii c =? 10)%Z.
    + cbn [prep_lines]. rewrite (IH [] He Hb). destruct (prep_line (rev cur, true)); reflexivity.
    + apply IH; assumption.
Qed.

Lemma raw_not_bare t : forall cur ls, ends_nl t = false -> ends_bare_bs t = false ->
  prep_lines (raw_lines_aux cur (t ++ ["010"%char])) = Some ls ->
  prep_lines (raw_lines_aux cur t) = None -> False.
Proof.
  induction t as [|c r IH]; intros cur ls He Hb P HN; [discriminate He|].
  destruct r as [|d r'].
  - assert (Hc : (zascii c =? 10)%Z = false) by (unfold ends_nl, is_nl in He; cbn in He; exact He).
    unfold ends_bare_bs in Hb. cbn in Hb.
    rewrite raw_cons, Hc in HN. cbn [raw_lines_aux prep_lines] in HN. unfold prep_line in HN.
    rewrite rev_involutive, Hb in HN. discriminate HN.
  - rewrite ends_nl_cons in He by discriminate. rewrite bare_cons in Hb by discriminate.
    change ((c :: d :: r') ++ ["010"%char]) with (c :: (d :: r') ++ ["010"%char]) in P.
    rewrite raw_cons in HN, P. destruct (zascii c =? 10)%Z.
    + cbn [prep_lines] in HN, P. destruct (prep_line (rev cur, true)); [|discriminate P].
      destruct (prep_lines (raw_lines_aux [] ((d :: r') ++ ["010"%char]))) as [ps|] eqn:Ep; [|discriminate P].
      destruct (prep_lines (raw_lines_aux [] (d :: r'))) eqn:Eq; [discriminate HN|].
      exact (IH [] ps He Hb Ep Eq).
    + exact (IH (c :: cur) ls He Hb P HN).
Qed.

Theorem plines_none_iff t : plines_of_text t = None <-> ends_bare_bs t = true.
Proof.
  split.
  - intros HN. destruct (ends_nl t) eqn:He.
    + destruct (tokens_lines t He) as (ls & P & _). congruence.
    + destruct (ends_bare_bs t) eqn:Hb; [reflexivity|]. exfalso.
      assert (Hn : ends_nl (t ++ ["010"%char]) = true) by (rewrite ends_nl_snoc; reflexivity).
      destruct (tokens_lines _ Hn) as (ls & P & _).
      exact (raw_not_bare t [] ls He Hb P HN).
  - intros Hb. destruct (ends_nl t) eqn:He.
    + exfalso. unfold ends_nl, ends_bare_bs in *. destruct (rev t) as [|c r]; [discriminate Hb|].
      rewrite (nl_not_bs _ He) in Hb. discriminate Hb.
    + unfold plines_of_text, raw_lines. apply raw_bare; assumption.
Qed.
Print Assumptions plines_none_iff.
