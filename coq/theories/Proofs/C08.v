(* C08 — the attribution map computed by find is the union, over all compile
   commands, of the marks of that command analysed alone from a fresh Platform:
   characterisation of the fold, then union / projection / order as corollaries. *)
From Coq Require Import Bool Arith ZArith String List Permutation.
From CBI Require Import Lib.Res Model.C01 Spec.C01 Model.C04 Spec.C04 Proofs.C01 Proofs.C04 Model.C08 Spec.C08.
Import ListNotations.
Local Open Scope list_scope.

(* ---------- the set of triples ---------- *)
Lemma nodeid_eqb_eq a b : nodeid_eqb a b = true <-> a = b.
Proof.
  destruct a as [f i], b as [g j]. unfold nodeid_eqb. cbn [fst snd]. rewrite andb_true_iff, Nat.eqb_eq. split.
  - intros [H1 H2]. apply path_eqb_eq in H1. congruence.
  - intros H; inversion H; subst. split; [apply path_eqb_refl|reflexivity].
Qed.
Lemma triple_eqb_eq a b : triple_eqb a b = true <-> a = b.
Proof.
  destruct a as [n x], b as [m y]. unfold triple_eqb. cbn [fst snd].
  rewrite andb_true_iff, String.eqb_eq, nodeid_eqb_eq. split; [intros [-> ->]; reflexivity|intros H; inversion H; auto].
Qed.
Lemma mem_triple_In t am : mem_triple t am = true <-> In t am.
Proof.
  unfold mem_triple. rewrite existsb_exists. split.
  - intros (u & Hu & E). apply triple_eqb_eq in E. subst. exact Hu.
  - intros H. exists t. split; [exact H|apply triple_eqb_eq; reflexivity].
Qed.
Lemma add_triple_In t u am : In t (add_triple u am) <-> t = u \/ In t am.
Proof.
  unfold add_triple. destruct (mem_triple u am) eqn:E.
  - apply mem_triple_In in E. split; [auto|intros [->|H]; auto].
  - rewrite in_app_iff. cbn. split; [intros [H|[H|[]]]; auto|intros [H|H]; auto].
Qed.
Lemma merge_In n marks : forall am t,
  In t (merge n marks am) <-> In t am \/ exists x, In x marks /\ t = (n, x).
Proof.
  unfold merge. induction marks as [|y r IH]; intros am t; cbn [fold_left].
  - split; [auto|intros [H|(x & [] & _)]; exact H].
  - rewrite IH, add_triple_In. split.
    + intros [[->|H]|(x & Hx & ->)]; [right; exists y; cbn; auto|auto|right; exists x; cbn; auto].
    + intros [H|(x & [<-|Hx] & ->)]; [auto|auto|right; exists x; auto].
Qed.

Section WithFS.
Variable fs : fsys.
Variable fuel : nat.

(* a fresh Platform configured for the entry is the [fresh] record of Model/C04.v *)
Lemma run_entry_fresh e : run_entry fs fuel e new_platform = run_tu_M fs fuel e.
Proof. reflexivity. Qed.

(* what one entry / one platform / the configuration contributes *)
Definition contrib_entries (n : pname) (es : list entry) (t : triple) : Prop :=
  exists e r x, In e es /\ run_tu_M fs fuel e = Ok r /\ In x (assoc r) /\ t = (n, x).
Definition contrib (cfg : config) (t : triple) : Prop :=
  exists n es, In (n, es) cfg /\ contrib_entries n es t.
Definition entry_ok (e : entry) : Prop := exists r, run_tu_M fs fuel e = Ok r.
Definition cfg_ok (cfg : config) : Prop := forall n es e, In (n, es) cfg -> In e es -> entry_ok e.

Lemma entries_char n es : forall am,
  (forall am', entries_G fs fuel carry_none n es new_platform am = Ok am' ->
     (forall e, In e es -> entry_ok e) /\ forall t, In t am' <-> In t am \/ contrib_entries n es t) /\
  ((forall e, In e es -> entry_ok e) -> exists am', entries_G fs fuel carry_none n es new_platform am = Ok am').
Proof.
  induction es as [|e r IH]; intros am; cbn [entries_G].
  - split.
    + intros am' H; inversion H; subst. split; [intros e []|].
      intros t. split; [auto|intros [H1|(e & _ & _ & [] & _)]; exact H1].
    + intros _. eauto.
  - rewrite run_entry_fresh. unfold carry_none at 1 2. split.
    + intros am'. destruct (run_tu_M fs fuel e) as [p|x] eqn:E; [|discriminate].
      intros H. destruct (IH (merge n (rev (assoc p)) am)) as [IH1 _]. destruct (IH1 am' H) as [Hok Hin].
      split.
      * intros e' [<-|He']; [exists p; exact E|auto].
      * intros t. rewrite Hin, merge_In. split.
        -- intros [[H1|(x & Hx & ->)]|(e' & r' & x & He' & Hr & Hx & ->)].
           ++ auto.
           ++ right. exists e, p, x. rewrite <- in_rev in Hx. cbn; auto.
           ++ right. exists e', r', x. cbn; auto.
        -- intros [H1|(e' & r' & x & [<-|He'] & Hr & Hx & ->)].
           ++ auto.
           ++ left; right. exists x. rewrite <- in_rev. rewrite E in Hr. inversion Hr; subst r'. split; [exact Hx|reflexivity].
           ++ right. exists e', r', x. auto.
    + intros Hok. destruct (Hok e (or_introl eq_refl)) as [p Ep]. rewrite Ep.
      apply (IH (merge n (rev (assoc p)) am)). intros e' He'. apply Hok. right; exact He'.
Qed.

Lemma find_char cfg : forall am,
  (forall am', find_G fs fuel carry_none cfg am = Ok am' ->
     cfg_ok cfg /\ forall t, In t am' <-> In t am \/ contrib cfg t) /\
  (cfg_ok cfg -> exists am', find_G fs fuel carry_none cfg am = Ok am').
Proof.
  induction cfg as [|[n es] r IH]; intros am; cbn [find_G].
  - split.
    + intros am' H; inversion H; subst. split; [intros n es e []|].
      intros t. split; [auto|intros [H1|(n & es & [] & _)]; exact H1].
    + eauto.
  - destruct (entries_char n es am) as [E1 E2]. split.
    + intros am'. destruct (entries_G fs fuel carry_none n es new_platform am) as [am1|x] eqn:E; [|discriminate].
      destruct (E1 am1 eq_refl) as [Hok Hin]. intros H. destruct (IH am1) as [IH1 _].
      destruct (IH1 am' H) as [Hok' Hin']. split.
      * intros n' es' e [H1|H1] He; [inversion H1; subst; auto|eapply Hok'; eauto].
      * intros t. rewrite Hin', Hin. split.
        -- intros [[H1|H1]|(n' & es' & Hn & Hc)].
           ++ auto.
           ++ right. exists n, es. cbn; auto.
           ++ right. exists n', es'. cbn; auto.
        -- intros [H1|(n' & es' & [Hn|Hn] & Hc)].
           ++ auto.
           ++ inversion Hn; subst. auto.
           ++ right. exists n', es'. auto.
    + intros Hok. destruct E2 as [am1 E]; [intros e He; apply (Hok n es e); cbn; auto|].
      rewrite E. apply (IH am1). intros n' es' e Hn He. apply (Hok n' es' e); cbn; auto.
Qed.

(* ---------- the characterisation of find_M ---------- *)
Theorem find_M_ok cfg am :
  find_M fs fuel cfg = Ok am -> cfg_ok cfg /\ forall t, In t am <-> contrib cfg t.
Proof.
  unfold find_M. intros H. destruct (find_char cfg []) as [H1 _]. destruct (H1 am H) as [Hok Hin].
  split; [exact Hok|]. intros t. rewrite Hin. split; [intros [[]|Hc]; exact Hc|auto].
Qed.
Theorem find_M_total cfg : cfg_ok cfg -> exists am, find_M fs fuel cfg = Ok am.
Proof. intros H. destruct (find_char cfg []) as [_ H2]. exact (H2 H). Qed.

(* ---------- full run = union of the single-command runs (within M) ---------- *)
Lemma single_contrib n e t : contrib [(n, [e])] t <-> contrib_entries n [e] t.
Proof.
  split.
  - intros (n' & es & [H|[]] & Hc). inversion H; subst. exact Hc.
  - intros Hc. exists n, [e]. cbn; auto.
Qed.

Theorem union_singles cfg am :
  find_M fs fuel cfg = Ok am ->
  (forall n es e, In (n, es) cfg -> In e es -> exists am1, single_M fs fuel n e = Ok am1) /\
  (forall n x, In (n, x) am <-> uses_single_M fs fuel cfg n x).
Proof.
  intros H. destruct (find_M_ok cfg am H) as [Hok Hin]. split.
  - intros n es e Hn He. apply find_M_total. intros n' es' e' [E|[]] He'. inversion E; subst n' es'.
    destruct He' as [<-|[]]. exact (Hok n es e Hn He).
  - intros n x. rewrite Hin. split.
    + intros (n' & es & Hn & e & r & y & He & Hr & Hy & E). inversion E; subst n' y.
      destruct (find_M_total [(n, [e])]) as [am1 E1].
      { intros n2 es2 e2 [E'|[]] He'. inversion E'; subst n2 es2. destruct He' as [<-|[]]. exists r; exact Hr. }
      exists es, e, am1. repeat split; auto. apply (proj2 (find_M_ok _ _ E1)). apply single_contrib.
      exists e, r, x. cbn; auto.
    + intros (es & e & am1 & Hn & He & E1 & Hx). apply (proj2 (find_M_ok _ _ E1)) in Hx.
      apply single_contrib in Hx. destruct Hx as (e' & r & y & [<-|[]] & Hr & Hy & E).
      exists n, es. split; [exact Hn|]. exists e, r, y. auto.
Qed.

Theorem singles_total cfg :
  (forall n es e, In (n, es) cfg -> In e es -> exists am1, single_M fs fuel n e = Ok am1) ->
  exists am, find_M fs fuel cfg = Ok am.
Proof.
  intros H. apply find_M_total. intros n es e Hn He. destruct (H n es e Hn He) as [am1 E1].
  destruct (find_M_ok _ _ E1) as [Hok _]. apply (Hok n [e] e); cbn; auto.
Qed.

(* ---------- projection on a selection of platforms ---------- *)
Lemma select_In keep cfg n es : In (n, es) (select keep cfg) <-> In (n, es) cfg /\ keep n = true.
Proof. unfold select. rewrite filter_In. cbn. reflexivity. Qed.

Theorem projection keep cfg am :
  find_M fs fuel cfg = Ok am ->
  exists am', find_M fs fuel (select keep cfg) = Ok am' /\
    forall n x, In (n, x) am' <-> keep n = true /\ In (n, x) am.
Proof.
  intros H. destruct (find_M_ok cfg am H) as [Hok Hin].
  destruct (find_M_total (select keep cfg)) as [am' E'].
  { intros n es e Hn He. apply select_In in Hn. destruct Hn as [Hn _]. exact (Hok n es e Hn He). }
  exists am'. split; [exact E'|]. intros n x. rewrite (proj2 (find_M_ok _ _ E')), Hin. split.
  - intros (n' & es & Hn & Hc). apply select_In in Hn. destruct Hn as [Hn Hk].
    pose proof Hc as (e & r & y & _ & _ & _ & E). inversion E; subst n' y. split; [exact Hk|]. exists n, es. auto.
  - intros [Hk (n' & es & Hn & Hc)]. pose proof Hc as (e & r & y & _ & _ & _ & E). inversion E; subst n' y.
    exists n, es. split; [apply select_In; auto|exact Hc].
Qed.

(* the platform SET of every node in the selected run is the full run's set restricted to the selection *)
Lemma mem_triple_iff a b t u : (In t a <-> In u b) -> mem_triple t a = mem_triple u b.
Proof.
  intros H. destruct (mem_triple t a) eqn:E1, (mem_triple u b) eqn:E2; try reflexivity.
  - apply mem_triple_In, H, mem_triple_In in E1. congruence.
  - apply mem_triple_In, H, mem_triple_In in E2. congruence.
Qed.
Lemma projection_sets (keep : pname -> bool) (am am' : amap) :
  (forall n x, In (n, x) am' <-> keep n = true /\ In (n, x) am) ->
  forall names x, plats_of (filter keep names) am' x = filter keep (plats_of names am x).
Proof.
  intros H names x. unfold plats_of. induction names as [|n r IH]; [reflexivity|]. cbn [filter].
  destruct (keep n) eqn:Ek; cbn [filter].
  - rewrite (mem_triple_iff am' am (n, x) (n, x)) by (rewrite H; tauto).
    destruct (mem_triple (n, x) am); cbn [filter]; [rewrite Ek|]; rewrite IH; reflexivity.
  - destruct (mem_triple (n, x) am); cbn [filter]; [rewrite Ek|]; exact IH.
Qed.

(* ---------- order of commands and of platforms ---------- *)
(* cfg' is cfg with the platforms permuted and each platform's commands permuted *)
Definition reordered (cfg cfg' : config) : Prop :=
  exists mid, Permutation cfg mid /\
    Forall2 (fun a b => fst a = fst b /\ Permutation (snd a) (snd b)) mid cfg'.

Lemma contrib_entries_perm n es es' t :
  Permutation es es' -> contrib_entries n es t -> contrib_entries n es' t.
Proof.
  intros P (e & r & x & He & H). exists e, r, x. split; [eapply Permutation_in; eauto|exact H].
Qed.
Lemma Forall2_In_l {A B} (R : A -> B -> Prop) l l' a :
  Forall2 R l l' -> In a l -> exists b, In b l' /\ R a b.
Proof.
  induction 1 as [|x y l l' Hxy HF IH]; [intros []|]. intros [<-|Ha].
  - exists y. cbn; auto.
  - destruct (IH Ha) as (b & Hb & Hr). exists b. cbn; auto.
Qed.
Lemma Forall2_In_r {A B} (R : A -> B -> Prop) l l' b :
  Forall2 R l l' -> In b l' -> exists a, In a l /\ R a b.
Proof.
  induction 1 as [|x y l l' Hxy HF IH]; [intros []|]. intros [<-|Hb].
  - exists x. cbn; auto.
  - destruct (IH Hb) as (a & Ha & Hr). exists a. cbn; auto.
Qed.

Lemma reordered_contrib cfg cfg' t : reordered cfg cfg' -> (contrib cfg t <-> contrib cfg' t).
Proof.
  intros (mid & P & F). split.
  - intros (n & es & Hn & Hc). apply (Permutation_in _ P) in Hn.
    destruct (Forall2_In_l _ _ _ _ F Hn) as ([n' es'] & Hb & Hf & Hp). cbn in Hf, Hp. subst n'.
    exists n, es'. split; [exact Hb|]. eapply contrib_entries_perm; eauto.
  - intros (n & es' & Hn & Hc). destruct (Forall2_In_r _ _ _ _ F Hn) as ([n' es] & Ha & Hf & Hp).
    cbn in Hf, Hp. subst n'. apply (Permutation_in _ (Permutation_sym P)) in Ha.
    exists n, es. split; [exact Ha|]. eapply contrib_entries_perm; [apply Permutation_sym; exact Hp|exact Hc].
Qed.
Lemma reordered_ok cfg cfg' : reordered cfg cfg' -> cfg_ok cfg -> cfg_ok cfg'.
Proof.
  intros (mid & P & F) Hok n es' e Hn He.
  destruct (Forall2_In_r _ _ _ _ F Hn) as ([n' es] & Ha & Hf & Hp). cbn in Hf, Hp. subst n'.
  apply (Permutation_in _ (Permutation_sym P)) in Ha.
  apply (Hok n es e Ha). eapply Permutation_in; [apply Permutation_sym; exact Hp|exact He].
Qed.

Theorem entry_order cfg cfg' am :
  reordered cfg cfg' -> find_M fs fuel cfg = Ok am ->
  exists am', find_M fs fuel cfg' = Ok am' /\ same_map am am'.
Proof.
  intros R H. destruct (find_M_ok cfg am H) as [Hok Hin].
  destruct (find_M_total cfg' (reordered_ok _ _ R Hok)) as [am' E']. exists am'. split; [exact E'|].
  intros t. rewrite Hin, (proj2 (find_M_ok _ _ E')). apply reordered_contrib. exact R.
Qed.

(* ---------- the pre-parse step and find_cb ---------- *)
Lemma is_compiled_iff cfg f :
  is_compiled cfg f = true <-> exists n es e, In (n, es) cfg /\ In e es /\ e_file e = f.
Proof.
  unfold is_compiled. rewrite existsb_exists. split.
  - intros ([n es] & Hn & H). cbn [snd] in H. apply existsb_exists in H. destruct H as (e & He & E).
    apply path_eqb_eq in E. exists n, es, e. auto.
  - intros (n & es & e & Hn & He & E). exists (n, es). split; [exact Hn|]. cbn [snd].
    apply existsb_exists. exists e. split; [exact He|]. subst f. apply path_eqb_refl.
Qed.

Lemma preparse_mono member cfg cfg' :
  (forall f, is_compiled cfg' f = true -> is_compiled cfg f = true) ->
  preparse fs member cfg = Ok tt -> preparse fs member cfg' = Ok tt.
Proof.
  unfold preparse. intros Hc.
  destruct (forallb (fun fl => negb (member (fst fl) || is_compiled cfg (fst fl)) || parses (snd fl)) fs) eqn:E; [|discriminate].
  intros _. rewrite forallb_forall in E.
  replace (forallb (fun fl => negb (member (fst fl) || is_compiled cfg' (fst fl)) || parses (snd fl)) fs) with true; [reflexivity|].
  symmetry. apply forallb_forall. intros fl Hfl. specialize (E fl Hfl).
  destruct (parses (snd fl)); [apply orb_true_r|]. rewrite orb_false_r in *.
  destruct (member (fst fl)); [exact E|]. cbn [orb] in *.
  destruct (is_compiled cfg' (fst fl)) eqn:E'; [|reflexivity]. rewrite (Hc _ E') in E. exact E.
Qed.

Lemma find_cb_ok member cfg am :
  find_cb fs fuel member cfg = Ok am <-> preparse fs member cfg = Ok tt /\ find_M fs fuel cfg = Ok am.
Proof.
  unfold find_cb. destruct (preparse fs member cfg) as [[]|x]; split; try tauto; try (intros [H _]; discriminate); discriminate.
Qed.

Theorem projection_cb member keep cfg am :
  find_cb fs fuel member cfg = Ok am ->
  exists am', find_cb fs fuel member (select keep cfg) = Ok am' /\
    forall n x, In (n, x) am' <-> keep n = true /\ In (n, x) am.
Proof.
  intros H. apply find_cb_ok in H. destruct H as [Hp H]. destruct (projection keep cfg am H) as (am' & E' & Hin).
  exists am'. split; [|exact Hin]. apply find_cb_ok. split; [|exact E'].
  apply (preparse_mono member cfg); [|exact Hp]. intros f Hf. apply is_compiled_iff in Hf.
  destruct Hf as (n & es & e & Hn & He & E). apply select_In in Hn. apply is_compiled_iff. exists n, es, e. tauto.
Qed.

Lemma reordered_compiled cfg cfg' f : reordered cfg cfg' -> is_compiled cfg' f = true -> is_compiled cfg f = true.
Proof.
  intros (mid & P & F) H. apply is_compiled_iff in H. destruct H as (n & es' & e & Hn & He & E).
  destruct (Forall2_In_r _ _ _ _ F Hn) as ([n' es] & Ha & Hf & Hp). cbn in Hf, Hp. subst n'.
  apply (Permutation_in _ (Permutation_sym P)) in Ha. apply is_compiled_iff. exists n, es, e.
  split; [exact Ha|]. split; [eapply Permutation_in; [apply Permutation_sym; exact Hp|exact He]|exact E].
Qed.

Theorem entry_order_cb member cfg cfg' am :
  reordered cfg cfg' -> find_cb fs fuel member cfg = Ok am ->
  exists am', find_cb fs fuel member cfg' = Ok am' /\ same_map am am'.
Proof.
  intros R H. apply find_cb_ok in H. destruct H as [Hp H]. destruct (entry_order cfg cfg' am R H) as (am' & E' & Hs).
  exists am'. split; [|exact Hs]. apply find_cb_ok. split; [|exact E'].
  apply (preparse_mono member cfg); [|exact Hp]. intros f. apply reordered_compiled. exact R.
Qed.

(* ---------- the executable specification is the declarative one ---------- *)
Lemma spec_entries_char n es : forall l,
  spec_entries fs fuel n es = Ok l ->
  (forall e, In e es -> exists r, run_tu_S fs fuel e = Ok r) /\
  forall t, In t l <-> exists e r x, In e es /\ run_tu_S fs fuel e = Ok r /\ In x (assoc r) /\ t = (n, x).
Proof.
  induction es as [|e r IH]; intros l; cbn [spec_entries].
  - intros H; inversion H; subst. split; [intros e []|]. intros t. split; [intros []|intros (e & _ & _ & [] & _)].
  - destruct (run_tu_S fs fuel e) as [p|x] eqn:E; [|discriminate].
    destruct (spec_entries fs fuel n r) as [l'|x] eqn:E'; [|discriminate].
    intros H; inversion H; subst l. destruct (IH l' eq_refl) as [Hok Hin]. split.
    + intros e' [<-|He']; [exists p; exact E|auto].
    + intros t. rewrite in_app_iff, in_map_iff, Hin. split.
      * intros [(x & <- & Hx)|(e' & r' & x & He' & Hr & Hx & ->)].
        -- exists e, p, x. rewrite <- in_rev in Hx. cbn; auto.
        -- exists e', r', x. cbn; auto.
      * intros (e' & r' & x & [<-|He'] & Hr & Hx & ->).
        -- left. exists x. rewrite <- in_rev. rewrite E in Hr. inversion Hr; subst r'. auto.
        -- right. exists e', r', x. auto.
Qed.

Theorem spec_S_char cfg : forall l,
  spec_S fs fuel cfg = Ok l ->
  accepted_S fs fuel cfg /\ forall n x, In (n, x) l <-> uses_S fs fuel cfg n x.
Proof.
  induction cfg as [|[n es] r IH]; intros l; cbn [spec_S].
  - intros H; inversion H; subst. split; [intros n es e []|].
    intros n x. split; [intros []|intros (es & e & r & [] & _)].
  - destruct (spec_entries fs fuel n es) as [l1|x] eqn:E; [|discriminate].
    destruct (spec_S fs fuel r) as [l2|x] eqn:E'; [|discriminate].
    intros H; inversion H; subst l. destruct (spec_entries_char n es l1 E) as [Hok Hin].
    destruct (IH l2 eq_refl) as [Hacc Hin2]. split.
    + intros n' es' e [H1|H1] He; [inversion H1; subst; auto|eapply Hacc; eauto].
    + intros n' x. rewrite in_app_iff, Hin, Hin2. split.
      * intros [(e & p & y & He & Hp & Hy & Et)|(es' & e & p & Hn & He & Hp & Hy)].
        -- inversion Et; subst n' y. exists es, e, p. cbn; auto.
        -- exists es', e, p. cbn; auto.
      * intros (es' & e & p & [Hn|Hn] & He & Hp & Hy).
        -- inversion Hn; subst n' es'. left. exists e, p, x. auto.
        -- right. exists es', e, p. auto.
Qed.

(* ---------- against the reference preprocessor ---------- *)
Hypothesis Hfs : fs_structured fs.

Lemma parses_structured p ls : fs_get fs p = Some ls -> parses ls = true.
Proof.
  intros H. destruct (Hfs p ls H) as (its & ->). unfold parses. rewrite build_flats. reflexivity.
Qed.

Theorem union_S cfg :
  accepted_S fs fuel cfg ->
  exists am, find_M fs fuel cfg = Ok am /\ forall n x, In (n, x) am <-> uses_S fs fuel cfg n x.
Proof.
  intros Hacc.
  assert (Hok : cfg_ok cfg).
  { intros n es e Hn He. destruct (Hacc n es e Hn He) as [r Hr].
    destruct (run_tu_sim fs Hfs fuel e r Hr) as (r' & Hr' & _). exists r'; exact Hr'. }
  destruct (find_M_total cfg Hok) as [am E]. exists am. split; [exact E|].
  intros n x. rewrite (proj2 (find_M_ok _ _ E)). split.
  - intros (n' & es & Hn & e & r' & y & He & Hr' & Hy & Et). inversion Et; subst n' y.
    destruct (Hacc n es e Hn He) as [r Hr]. destruct (run_tu_sim fs Hfs fuel e r Hr) as (r2 & Hr2 & Ho).
    rewrite Hr' in Hr2. inversion Hr2; subst r2. destruct Ho as (Ha & _).
    exists es, e, r. repeat split; auto. rewrite Ha. exact Hy.
  - intros (es & e & r & Hn & He & Hr & Hx). destruct (run_tu_sim fs Hfs fuel e r Hr) as (r' & Hr' & Ha & _).
    exists n, es. split; [exact Hn|]. exists e, r', x. repeat split; auto. rewrite <- Ha. exact Hx.
Qed.

End WithFS.

(* every file that exists is a structured program *)
Definition fs_wf (fs : fsys) : Prop := forall p ls, In (p, ls) fs -> exists its, ls = flats act cond its.

Lemma fs_get_In fs p ls : fs_get fs p = Some ls -> exists q, In (q, ls) fs.
Proof.
  induction fs as [|[q l] r IH]; cbn [fs_get]; [discriminate|].
  destruct (path_eqb p q); [intros H; inversion H; subst; exists q; cbn; auto|].
  intros H. destruct (IH H) as (q' & Hq). exists q'. cbn; auto.
Qed.
Lemma fs_wf_structured fs : fs_wf fs -> fs_structured fs.
Proof. intros H p ls Hg. destruct (fs_get_In fs p ls Hg) as (q & Hq). exact (H q ls Hq). Qed.

Lemma preparse_wf fs member cfg : fs_wf fs -> preparse fs member cfg = Ok tt.
Proof.
  intros H. unfold preparse.
  replace (forallb (fun fl => negb (member (fst fl) || is_compiled cfg (fst fl)) || parses (snd fl)) fs) with true; [reflexivity|].
  symmetry. apply forallb_forall. intros [p ls] Hfl. destruct (H p ls Hfl) as (its & ->). cbn [snd].
  unfold parses. rewrite build_flats. apply orb_true_r.
Qed.

Theorem union_S_cb fs fuel member cfg :
  fs_wf fs -> accepted_S fs fuel cfg ->
  exists am, find_cb fs fuel member cfg = Ok am /\ forall n x, In (n, x) am <-> uses_S fs fuel cfg n x.
Proof.
  intros Hwf Hacc. destruct (union_S fs fuel (fs_wf_structured fs Hwf) cfg Hacc) as (am & E & Hin).
  exists am. split; [|exact Hin]. apply find_cb_ok. split; [apply preparse_wf; exact Hwf|exact E].
Qed.
