(* C14 - format(x, ".2f") as modelled by [fmt2] is the decimal with two places
   nearest to the exact binary value, ties to the even last digit. *)
From Coq Require Import ZArith Bool Lia ZifyBool List SpecFloat.
From CBI Require Import Lib.Data Model.C14 Model.C14f.
Local Open Scope Z_scope.

Lemma d2_sign (s : bool) mag h :
  D2 (if s then - mag else mag) = D2 h -> 0 <= mag ->
  Z.abs h = mag /\ Z.even h = Z.even mag /\ (s = true -> h <= 0) /\ (s = false -> 0 <= h).
Proof.
  intros H Hpos. injection H as <-. destruct s; rewrite ?Z.even_opp; repeat split; intros; try lia; discriminate.
Qed.

(* value of the float times 100 and the answer, both scaled by 2^(-e) *)
Lemma fmt2_nearest s m e h :
  fmt2 (S754_finite s m e) = D2 h ->
  (0 <= e -> Z.abs h = Zpos m * 100 * 2 ^ e) /\
  (e < 0 ->
     let k := 2 ^ (- e) in
     let err := Z.abs (Z.abs h * k - Zpos m * 100) in
     2 * err <= k /\ (2 * err = k -> Z.even h = true)) /\
  (s = true -> h <= 0) /\ (s = false -> 0 <= h).
Proof.
  unfold fmt2. intros H.
  destruct (0 <=? e) eqn:E.
  - assert (Hm : 0 <= Zpos m * 100 * 2 ^ e) by (apply Z.mul_nonneg_nonneg; [lia|apply Z.pow_nonneg; lia]).
    apply d2_sign in H; [|exact Hm]. destruct H as (Ha & _ & Hs1 & Hs2).
    split; [intros _; exact Ha|]. split; [intros; lia|]. split; assumption.
  - set (num := Zpos m * 100) in *. set (den := 2 ^ (- e)) in *.
    assert (Hden : 0 < den) by (apply Z.pow_pos_nonneg; lia).
    pose proof (Z.div_mod num den ltac:(lia)) as Hdm.
    pose proof (Z.mod_pos_bound num den Hden) as Hr.
    assert (Hq : 0 <= num / den) by (apply Z.div_pos; lia).
    set (q := num / den) in *. set (r := num mod den) in *.
    destruct (2 * r <? den) eqn:C1.
    + apply d2_sign in H; [|exact Hq]. destruct H as (Ha & He & Hs1 & Hs2). rewrite Ha.
      split; [intros; lia|]. split; [|split; assumption]. intros _. cbn zeta. split; [nia|]. intros; nia.
    + destruct (den <? 2 * r) eqn:C2.
      * apply d2_sign in H; [|lia]. destruct H as (Ha & He & Hs1 & Hs2). rewrite Ha.
        split; [intros; lia|]. split; [|split; assumption]. intros _. cbn zeta. split; [nia|]. intros; nia.
      * destruct (Z.even q) eqn:Ev.
        -- apply d2_sign in H; [|exact Hq]. destruct H as (Ha & He & Hs1 & Hs2). rewrite Ha.
           split; [intros; lia|]. split; [|split; assumption]. intros _. cbn zeta. split; [nia|]. intros _. now rewrite He.
        -- apply d2_sign in H; [|lia]. destruct H as (Ha & He & Hs1 & Hs2). rewrite Ha.
           split; [intros; lia|]. split; [|split; assumption]. intros _. cbn zeta. split; [nia|]. intros _.
           rewrite He, Z.even_add, Ev. reflexivity.
Qed.
