From Coq Require Import ZArith String Bool Arith Lia Permutation List.
From CBI Require Import Lib.Data Lib.ListX Model.C16.
Import ListNotations.

(* ---------- content equality is an equivalence ---------- *)
Lemma ceq_refl a : ceq a a = true.
Proof. apply String.eqb_refl. Qed.
Lemma ceq_sym a b : ceq a b = ceq b a.
Proof. apply String.eqb_sym. Qed.
Lemma ceq_iff a b : ceq a b = true <-> fcontent a = fcontent b.
Proof. apply String.eqb_eq. Qed.
Lemma ceq_trans a b c : ceq a b = true -> ceq b c = true -> ceq a c = true.
Proof. rewrite !ceq_iff. congruence. Qed.
Lemma ceq_false_l a b c : ceq a b = true -> ceq a c = false -> ceq b c = false.
Proof.
  intros H1 H2. destruct (ceq b c) eqn:E; [|reflexivity].
  rewrite (ceq_trans _ _ _ H1 E) in H2. discriminate.
Qed.

(* what set.pop() is assumed to do *)
Definition choose_ok (choose : list file -> option (file * list file)) : Prop :=
  (forall l x r, choose l = Some (x, r) -> Permutation l (x :: r)) /\
  (forall l, l <> [] -> choose l <> None).

Lemma choose_hd_ok : choose_ok choose_hd.
Proof.
  split.
  - intros [|a l] x r H; cbn in H; inversion H; subst. apply Permutation_refl.
  - intros [|a l] H; cbn; congruence.
Qed.
Lemma choose_last_ok : choose_ok choose_last.
Proof.
  split.
  - intros l x r H. unfold choose_last in H. destruct (rev l) as [|y t] eqn:E; inversion H; subst.
    apply Permutation_trans with (rev l); [apply Permutation_rev|]. rewrite E.
    constructor. apply Permutation_rev.
  - intros l H. unfold choose_last. destruct (rev l) eqn:E; [|congruence].
    apply (f_equal (@rev _)) in E. rewrite rev_involutive in E. cbn in E. congruence.
Qed.

Section Proofs.
Variable h : string -> Z.
Variable choose : list file -> option (file * list file).
Hypothesis Hchoose : choose_ok choose.

(* ---------- the confirmation loop ---------- *)
Definition group_ok (g : list file) : Prop :=
  2 <= List.length g /\ NoDup g /\ forall p q, In p g -> In q g -> ceq p q = true.
Definition differ (g1 g2 : list file) : Prop :=
  forall p q, In p g1 -> In q g2 -> ceq p q = false.
Definition has_twin (l : list file) (p : file) : Prop :=
  In p l /\ exists q, In q l /\ q <> p /\ ceq p q = true.

Lemma loop_spec fuel : forall rem, List.length rem <= fuel -> NoDup rem ->
  exists out, loop choose fuel rem = Some out /\
    Forall group_ok out /\
    (forall p, In p (concat out) <-> has_twin rem p) /\
    ForallOrdPairs differ out.
Proof.
  induction fuel as [|fuel IH]; intros rem Hlen Hnd.
  - destruct rem as [|a [|b t]]; cbn in Hlen; try lia.
    exists []. cbn. repeat split; try constructor; try tauto.
    intros (Hin & _). exact Hin.
  - destruct rem as [|a [|b t]].
    + exists []. cbn. repeat split; try constructor; try tauto. intros (H & _); exact H.
    + exists []. cbn. repeat split; try constructor; try tauto.
      intros ([<-|[]] & q & [<-|[]] & Hne & _). congruence.
    + set (rem := a :: b :: t) in *.
      assert (Hnz : rem <> []) by (unfold rem; congruence).
      destruct Hchoose as [Hperm Hsome].
      destruct (choose rem) as [[first rest]|] eqn:Ech; [|exfalso; exact (Hsome rem Hnz Ech)].
      specialize (Hperm _ _ _ Ech).
      assert (Hnd' : NoDup (first :: rest)) by (eapply Permutation_NoDup; eauto).
      apply NoDup_cons_iff in Hnd'. destruct Hnd' as [Hnotin Hndrest].
      assert (Hlenr : List.length rest <= fuel).
      { apply Permutation_length in Hperm. subst rem. cbn in Hperm, Hlen. lia. }
      set (m := filter (ceq first) rest).
      set (rest' := filter (fun x => negb (ceq first x)) rest).
      assert (Hin_rem : forall p, In p rem <-> p = first \/ In p rest).
      { intros p. split; intros H.
        - apply (Permutation_in _ Hperm) in H. destruct H; auto.
        - apply (Permutation_in _ (Permutation_sym Hperm)). destruct H; [left; auto|right; auto]. }
      assert (Hm : forall p, In p m <-> In p rest /\ ceq first p = true) by (intros; apply filter_In).
      assert (Hr' : forall p, In p rest' <-> In p rest /\ ceq first p = false).
      { intros p. unfold rest'. rewrite filter_In, negb_true_iff. tauto. }
      destruct (IH rest') as (out & Eout & Hg & Hmem & Hdiff).
      { etransitivity; [apply filter_length_le|exact Hlenr]. }
      { apply NoDup_filter; assumption. }
      assert (Hloop : loop choose (S fuel) rem =
                      Some (match m with [] => out | _ => (first :: m) :: out end)).
      { unfold rem. cbn [loop]. fold rem. rewrite Ech. fold m. fold rest'. rewrite Eout. reflexivity. }
      rewrite Hloop. eexists; split; [reflexivity|].
      assert (Hnew_vs_out : forall p q, In p (first :: m) -> In q (concat out) -> ceq p q = false).
      { intros p q Hp Hq. apply Hmem in Hq. destruct Hq as (Hq & _). apply Hr' in Hq.
        destruct Hq as (_ & Hq).
        destruct Hp as [<-|Hp]; [exact Hq|]. apply Hm in Hp. eapply ceq_false_l; [apply Hp|exact Hq]. }
      split; [|split].
      * destruct m as [|m0 mt] eqn:Em; [exact Hg|]. constructor; [|exact Hg].
        rewrite <- Em in *. split; [rewrite Em; cbn; lia|]. split.
        -- constructor; [intros Hc; apply Hm in Hc; tauto | apply NoDup_filter; assumption].
        -- intros p q Hp Hq.
           assert (Hfp : forall x, In x (first :: m) -> ceq first x = true).
           { intros x [<-|Hx]; [apply ceq_refl|apply Hm in Hx; tauto]. }
           eapply ceq_trans; [rewrite ceq_sym; apply Hfp; exact Hp|apply Hfp; exact Hq].
      * intros p.
        assert (Hmain : (m <> [] /\ In p (first :: m)) \/ In p (concat out) <-> has_twin rem p).
        { split.
          - intros [[Hmne Hp]|Hp].
            + destruct Hp as [<-|Hp].
              * split; [apply Hin_rem; auto|].
                destruct m as [|q mt] eqn:Em; [congruence|]. exists q.
                assert (Hq : In q m) by (rewrite Em; left; reflexivity).
                rewrite <- Em in *. apply Hm in Hq. destruct Hq as (Hq1 & Hq2).
                split; [apply Hin_rem; auto|]. split; [congruence|exact Hq2].
              * apply Hm in Hp. destruct Hp as (Hp1 & Hp2). split; [apply Hin_rem; auto|].
                exists first. split; [apply Hin_rem; auto|]. split; [congruence|].
                rewrite ceq_sym; exact Hp2.
            + apply Hmem in Hp. destruct Hp as (Hp & q & Hq & Hne & Hc).
              apply Hr' in Hp. apply Hr' in Hq. split; [apply Hin_rem; tauto|].
              exists q. split; [apply Hin_rem; tauto|]. tauto.
          - intros (Hp & q & Hq & Hne & Hc). apply Hin_rem in Hp. apply Hin_rem in Hq.
            destruct Hp as [->|Hp].
            + destruct Hq as [->|Hq]; [congruence|].
              assert (Hqm : In q m) by (apply Hm; tauto).
              left. split; [intros E; rewrite E in Hqm; exact Hqm|left; reflexivity].
            + destruct (ceq first p) eqn:Efp.
              * assert (Hpm : In p m) by (apply Hm; tauto).
                left. split; [intros E; rewrite E in Hpm; exact Hpm|right; exact Hpm].
              * right. apply Hmem. split; [apply Hr'; tauto|]. exists q.
                destruct Hq as [->|Hq]; [rewrite ceq_sym in Hc; congruence|].
                split; [|tauto]. apply Hr'. split; [exact Hq|].
                destruct (ceq first q) eqn:Efq; [|reflexivity].
                rewrite ceq_sym in Hc. rewrite (ceq_trans _ _ _ Efq Hc) in Efp. discriminate. }
        destruct m as [|m0 mt] eqn:Em.
        -- rewrite <- Hmain. split; [tauto|]. intros [[Hc _]|H]; [congruence|exact H].
        -- rewrite <- Em in *. cbn [concat]. rewrite in_app_iff, <- Hmain.
           assert (m <> []) by (rewrite Em; congruence). tauto.
      * destruct m as [|m0 mt] eqn:Em; [exact Hdiff|]. rewrite <- Em in *. constructor; [|exact Hdiff].
        apply Forall_forall. intros g Hg' p q Hp Hq. apply Hnew_vs_out; [exact Hp|].
        apply in_concat. exists g. tauto.
Qed.

(* ---------- bucketing ---------- *)
Lemma add_bucket_keys k f b :
  map fst (add_bucket k f b) = if in_dec Z.eq_dec k (map fst b) then map fst b else map fst b ++ [k].
Proof.
  induction b as [|[k' fs] r IH]; cbn [add_bucket]; [reflexivity|].
  destruct (Z.eqb_spec k k') as [->|Hne].
  - cbn. destruct (Z.eq_dec k' k'); [|congruence]. destruct (in_dec _ _ _); reflexivity.
  - cbn [map fst]. rewrite IH. cbn [in_dec].
    destruct (in_dec Z.eq_dec k (k' :: map fst r)) as [[E|H]|H].
    + congruence.
    + destruct (in_dec Z.eq_dec k (map fst r)); [reflexivity|tauto].
    + destruct (in_dec Z.eq_dec k (map fst r)) as [H'|H']; [exfalso; apply H; right; exact H'|reflexivity].
Qed.

Lemma add_bucket_in k f b k' fs' :
  In (k', fs') (add_bucket k f b) ->
  In (k', fs') b \/ (k' = k /\ (fs' = [f] \/ exists fs, In (k, fs) b /\ fs' = fs ++ [f])).
Proof.
  induction b as [|[k0 fs0] r IH]; cbn [add_bucket].
  - intros [E|[]]. inversion E; subst. right; auto.
  - destruct (Z.eqb_spec k k0) as [->|Hne].
    + intros [E|H]; [inversion E; subst|left; right; exact H].
      right. split; [reflexivity|]. right. exists fs0. split; [left; reflexivity|reflexivity].
    + intros [E|H]; [left; left; exact E|].
      destruct (IH H) as [H1|(-> & [H2|(fs & H2 & H3)])].
      * left; right; exact H1.
      * right; auto.
      * right. split; [reflexivity|]. right. exists fs. split; [right; exact H2|exact H3].
Qed.

Lemma add_bucket_has k f b : exists fs, In (k, fs) (add_bucket k f b) /\ In f fs.
Proof.
  induction b as [|[k0 fs0] r IH]; cbn [add_bucket].
  - exists [f]. split; left; reflexivity.
  - destruct (Z.eqb_spec k k0) as [->|Hne].
    + exists (fs0 ++ [f]). split; [left; reflexivity|apply in_or_app; right; left; reflexivity].
    + destruct IH as (fs & H1 & H2). exists fs. split; [right; exact H1|exact H2].
Qed.

Lemma add_bucket_keeps k f b k' fs x :
  In (k', fs) b -> In x fs -> exists fs', In (k', fs') (add_bucket k f b) /\ In x fs'.
Proof.
  induction b as [|[k0 fs0] r IH]; cbn [add_bucket]; [intros []|].
  destruct (Z.eqb_spec k k0) as [->|Hne].
  - intros [E|H] Hx.
    + inversion E; subst. exists (fs ++ [f]). split; [left; reflexivity|apply in_or_app; left; exact Hx].
    + exists fs. split; [right; exact H|exact Hx].
  - intros [E|H] Hx.
    + exists fs. split; [left; exact E|exact Hx].
    + destruct (IH H Hx) as (fs' & H1 & H2). exists fs'. split; [right; exact H1|exact H2].
Qed.

Definition bstep (b : list (Z * list file)) (f : file) :=
  if flink f then b else add_bucket (h (fcontent f)) f b.

Record Binv (seen : list file) (b : list (Z * list file)) : Prop := {
  bi_keys : NoDup (map fst b);
  bi_sound : forall k fs, In (k, fs) b ->
      fs <> [] /\ NoDup fs /\ forall f, In f fs -> h (fcontent f) = k /\ flink f = false /\ In f seen;
  bi_complete : forall f, In f seen -> flink f = false -> exists fs, In (h (fcontent f), fs) b /\ In f fs
}.

Lemma Binv_step seen b f : Binv seen b -> ~ In f seen -> Binv (seen ++ [f]) (bstep b f).
Proof.
  intros [Hk Hs Hc] Hnew. unfold bstep. destruct (flink f) eqn:El.
  - split; [exact Hk| |].
    + intros k fs H. destruct (Hs k fs H) as (A & B & C). split; [exact A|split; [exact B|]].
      intros x Hx. destruct (C x Hx) as (C1 & C2 & C3). repeat split; auto. apply in_or_app; auto.
    + intros x Hx Hl. apply in_app_or in Hx. destruct Hx as [Hx|[<-|[]]]; [auto|congruence].
  - split.
    + rewrite add_bucket_keys. destruct (in_dec _ _ _) as [H|H]; [exact Hk|].
      apply NoDup_snoc; assumption.
    + intros k fs H. apply add_bucket_in in H.
      destruct H as [H|(-> & [->|(fs0 & H & ->)])].
      * destruct (Hs k fs H) as (A & B & C). split; [exact A|split; [exact B|]].
        intros x Hx. destruct (C x Hx) as (C1 & C2 & C3). repeat split; auto. apply in_or_app; auto.
      * split; [congruence|]. split; [constructor; [intros []|constructor]|].
        intros x [<-|[]]. repeat split; auto. apply in_or_app; right; left; reflexivity.
      * destruct (Hs _ _ H) as (A & B & C). split; [destruct fs0; cbn; congruence|]. split.
        -- apply NoDup_snoc; [exact B|]. intros Hin. apply Hnew. apply (C f Hin).
        -- intros x Hx. apply in_app_or in Hx. destruct Hx as [Hx|[<-|[]]].
           ++ destruct (C x Hx) as (C1 & C2 & C3). repeat split; auto. apply in_or_app; auto.
           ++ repeat split; auto. apply in_or_app; right; left; reflexivity.
    + intros x Hx Hl. apply in_app_or in Hx. destruct Hx as [Hx|[<-|[]]].
      * destruct (Hc x Hx Hl) as (fs & H1 & H2). eapply add_bucket_keeps; eauto.
      * apply add_bucket_has.
Qed.

Lemma buckets_inv files : NoDup files -> Binv files (buckets h files).
Proof.
  intros Hnd. unfold buckets.
  assert (G : forall todo seen b, NoDup (seen ++ todo) -> Binv seen b ->
              Binv (seen ++ todo) (fold_left bstep todo b)).
  { induction todo as [|f todo IH]; intros seen b Hn Hb; cbn [fold_left].
    - rewrite app_nil_r. exact Hb.
    - replace (seen ++ f :: todo) with ((seen ++ [f]) ++ todo) in * by (rewrite <- app_assoc; reflexivity).
      apply IH; [exact Hn|]. apply Binv_step; [exact Hb|].
      rewrite <- app_assoc in Hn. cbn in Hn. apply NoDup_remove_2 in Hn.
      intros Hin. apply Hn. apply in_or_app. left; exact Hin. }
  apply (G files [] []); [exact Hnd|].
  split; cbn; [constructor|intros ? ? []|intros ? []].
Qed.

(* ---------- the whole function ---------- *)
Definition nonlink_twin (files : list file) (p : file) : Prop :=
  In p files /\ flink p = false /\
  exists q, In q files /\ flink q = false /\ q <> p /\ fcontent q = fcontent p.

Lemma confirm_spec : forall b,
  NoDup (map fst b) ->
  (forall k fs, In (k, fs) b -> fs <> [] /\ NoDup fs /\ forall f, In f fs -> h (fcontent f) = k) ->
  exists out, confirm choose b = Some out /\
    Forall group_ok out /\
    (forall p, In p (concat out) <-> exists k fs, In (k, fs) b /\ has_twin fs p) /\
    ForallOrdPairs differ out.
Proof.
  induction b as [|[k fs] r IH]; intros Hk Hs.
  - exists []. split; [reflexivity|]. split; [constructor|]. split; [|constructor].
    intros p; cbn; split; [intros []|intros (? & ? & [] & _)].
  - cbn [map fst] in Hk. inversion Hk as [|? ? Hkn Hk']; subst.
    destruct IH as (outr & Er & Gr & Mr & Dr); [exact Hk'|intros; eapply Hs; right; eauto|].
    destruct (Hs k fs (or_introl eq_refl)) as (Hne & Hnd & Hh).
    destruct (loop_spec (List.length fs) fs (le_n _) Hnd) as (outl & El & Gl & Ml & Dl).
    assert (Hcross : forall g1 g2, In g1 outl -> In g2 outr -> differ g1 g2).
    { intros g1 g2 H1 H2 p q Hp Hq.
      assert (Hp' : In p (concat outl)) by (apply in_concat; exists g1; tauto).
      assert (Hq' : In q (concat outr)) by (apply in_concat; exists g2; tauto).
      apply Ml in Hp'. destruct Hp' as (Hp' & _).
      apply Mr in Hq'. destruct Hq' as (k2 & fs2 & Hin2 & Hq' & _).
      destruct (ceq p q) eqn:E; [|reflexivity]. apply ceq_iff in E. exfalso. apply Hkn.
      assert (k2 = k).
      { destruct (Hs k2 fs2 (or_intror Hin2)) as (_ & _ & Hh2).
        rewrite <- (Hh2 q Hq'), <- (Hh p Hp'), E. reflexivity. }
      subst. apply (in_map fst) in Hin2. exact Hin2. }
    assert (Hcomb : exists out, (match loop choose (List.length fs) fs, confirm choose r with
                                 | Some a, Some c => Some (a ++ c) | _, _ => None end) = Some out /\
       Forall group_ok out /\
       (forall p, In p (concat out) <-> exists k0 fs0, In (k0, fs0) ((k, fs) :: r) /\ has_twin fs0 p) /\
       ForallOrdPairs differ out).
    { rewrite El, Er. eexists; split; [reflexivity|]. split; [apply Forall_app; tauto|]. split.
      - intros p. rewrite concat_app, in_app_iff, Ml, Mr. split.
        + intros [H|(k0 & fs0 & H1 & H2)]; [exists k, fs; split; [left; reflexivity|exact H]|].
          exists k0, fs0. split; [right; exact H1|exact H2].
        + intros (k0 & fs0 & [E|H1] & H2); [inversion E; subst; left; exact H2|].
          right. exists k0, fs0. tauto.
      - clear - Dl Dr Hcross. induction Dl as [|g outl Hg Dl IHl]; [exact Dr|].
        cbn. constructor.
        + apply Forall_app. split; [exact Hg|]. apply Forall_forall. intros g2 H2.
          apply Hcross; [left; reflexivity|exact H2].
        + apply IHl. intros g1 g2 H1 H2. apply Hcross; [right; exact H1|exact H2]. }
    cbn [confirm]. destruct fs as [|f0 [|f1 ft]]; [congruence| |exact Hcomb].
    (* singleton bucket: `continue` *)
    exists outr. split; [exact Er|]. split; [exact Gr|]. split; [|exact Dr].
    intros p. rewrite Mr. split.
    + intros (k0 & fs0 & H1 & H2). exists k0, fs0. split; [right; exact H1|exact H2].
    + intros (k0 & fs0 & [E|H1] & H2).
      * inversion E; subst. destruct H2 as ([<-|[]] & q & [<-|[]] & Hq & _). congruence.
      * exists k0, fs0. tauto.
Qed.

Theorem find_duplicates_exact files :
  NoDup files ->
  exists out, find_duplicates h choose files = Some out /\
    Forall group_ok out /\
    ForallOrdPairs differ out /\
    (forall p, In p (concat out) <-> nonlink_twin files p).
Proof.
  intros Hnd. destruct (buckets_inv files Hnd) as [Hk Hs Hc].
  destruct (confirm_spec (buckets h files) Hk) as (out & E & G & M & D).
  { intros k fs H. destruct (Hs k fs H) as (A & B & C). split; [exact A|split; [exact B|]].
    intros f Hf. apply (C f Hf). }
  exists out. split; [exact E|]. split; [exact G|]. split; [exact D|].
  intros p. rewrite M. split.
  - intros (k & fs & Hin & Hp & q & Hq & Hne & Hceq).
    destruct (Hs k fs Hin) as (_ & _ & C).
    destruct (C p Hp) as (_ & P2 & P3). destruct (C q Hq) as (_ & Q2 & Q3).
    split; [exact P3|]. split; [exact P2|]. exists q. apply ceq_iff in Hceq. repeat split; auto.
  - intros (Hp & Hpl & q & Hq & Hql & Hne & Hceq).
    destruct (Hc p Hp Hpl) as (fs & Hin & Hpin).
    destruct (Hc q Hq Hql) as (fs2 & Hin2 & Hqin).
    rewrite Hceq in Hin2.
    assert (fs2 = fs).
    { clear - Hk Hin Hin2. revert Hk Hin Hin2. generalize (buckets h files) as b. generalize (h (fcontent p)) as k.
      intros k b. induction b as [|[k0 fs0] r IH]; cbn; [tauto|].
      intros Hk. inversion Hk as [|? ? Hn Hk']; subst.
      intros [E1|H1] [E2|H2].
      - congruence.
      - inversion E1; subst. exfalso. apply Hn. apply (in_map fst) in H2. exact H2.
      - inversion E2; subst. exfalso. apply Hn. apply (in_map fst) in H1. exact H1.
      - auto. }
    subst. exists (h (fcontent p)), fs. split; [exact Hin|]. split; [exact Hpin|].
    exists q. split; [exact Hqin|]. split; [exact Hne|]. apply ceq_iff. congruence.
Qed.

End Proofs.
