(* C17 — part c: the C pass in directives-only mode on one physical line.
   - what it hands to the Fortran cleaner is the line with every run of white
     space collapsed to one blank ([collapse]); the reference scanner cannot
     tell the difference ([sfold_collapse], [tguards_collapse]);
   - a line whose first non-blank character is # comes out as a directive
     (category CPP_DIRECTIVE), any other non-blank line as source, a blank
     line not at all ([c_line_wf]). *)
From Coq Require Import NArith Bool Ascii String List.
From CBI Require Import Lib.Res Model.C17 Spec.C17 Proofs.C17a Proofs.C17b.
Import ListNotations.

(* ---------- collapse ---------- *)
Fixpoint collapse (tr : bool) (cs : list ascii) : list ascii :=
  match cs with
  | [] => []
  | c :: r => if is_ws (cls_of c) then (if tr then collapse true r else " "%char :: collapse true r)
              else c :: collapse false r
  end.

Definition fold_char (cs : list ascii) (b : osl) : osl := fold_left (fun b c => app_char c b) cs b.

Lemma fold_char_parts cs : forall b, parts (fold_char cs b) = parts b ++ collapse (trailing b) cs.
Proof.
  induction cs as [|c cs IH]; intros b; cbn [fold_char fold_left collapse]; [rewrite app_nil_r; reflexivity|].
  change (parts (fold_char cs (app_char c b)) = parts b ++ (if is_ws (cls_of c) then if trailing b then collapse true cs else " "%char :: collapse true cs else c :: collapse false cs)).
  rewrite IH. unfold app_char. destruct (is_ws (cls_of c)).
  - unfold app_space. destruct (trailing b) eqn:T; [rewrite T; reflexivity|].
    cbn [parts trailing]. rewrite <- app_assoc. reflexivity.
  - unfold app_non. cbn [parts trailing]. rewrite <- app_assoc. reflexivity.
Qed.

(* ---------- the scanner does not see the difference ---------- *)
Definition ws_stable (s : sst) : Prop := forall k, is_ws k = true -> sstep s k = s.

Lemma sstep_ws_idem s k : is_ws k = true -> ws_stable (sstep s k).
Proof.
  intros Hk k' Hk'. destruct s as [q m].
  destruct k; try discriminate; destruct k'; try discriminate;
    destruct q as [[]|[|[]]|[|[]]|[]|[]|[]|[] []]; destruct m; reflexivity.
Qed.
Lemma sstep_ws_same s k : is_ws k = true -> sstep s k = sstep s kSp.
Proof.
  intros Hk. destruct s as [q m]. destruct k; try discriminate; [reflexivity|].
  destruct q as [[]|[|[]]|[|[]]|[]|[]|[]|[] []]; destruct m; reflexivity.
Qed.
Lemma tguard_ws s k : is_ws k = true -> tguard s k = true.
Proof.
  intros Hk. destruct s as [q m]. destruct k; try discriminate;
    destruct q as [[]|[|[]]|[|[]]|[]|[]|[]|[] []]; destruct m; reflexivity.
Qed.

Lemma sfold_cons s c cs : sfold s (c :: cs) = sfold (sstep s (cls_of c)) cs.
Proof. reflexivity. Qed.

Lemma sfold_collapse cs : forall tr s, (tr = true -> ws_stable s) -> sfold s (collapse tr cs) = sfold s cs.
Proof.
  induction cs as [|c cs IH]; intros tr s Hs; [reflexivity|].
  cbn [collapse]. rewrite (sfold_cons s c cs). destruct (is_ws (cls_of c)) eqn:W.
  - destruct tr.
    + rewrite (Hs eq_refl _ W). apply IH. exact Hs.
    + rewrite sfold_cons. change (cls_of " "%char) with kSp. rewrite (sstep_ws_same s _ W).
      apply IH. intros _. apply sstep_ws_idem. reflexivity.
  - rewrite sfold_cons. apply IH. discriminate.
Qed.

Lemma tguards_collapse cs : forall tr s, (tr = true -> ws_stable s) -> tguards s cs = true -> tguards s (collapse tr cs) = true.
Proof.
  induction cs as [|c cs IH]; intros tr s Hs HG; [reflexivity|].
  cbn [tguards] in HG. apply andb_true_iff in HG. destruct HG as [G1 G2].
  cbn [collapse]. destruct (is_ws (cls_of c)) eqn:W.
  - destruct tr.
    + rewrite (Hs eq_refl _ W) in G2. apply IH; assumption.
    + cbn [tguards]. change (cls_of " "%char) with kSp. rewrite tguard_ws by reflexivity. cbn [andb].
      rewrite (sstep_ws_same s _ W) in G2. apply IH; [|exact G2]. intros _. apply sstep_ws_idem. reflexivity.
  - cbn [tguards]. rewrite G1. cbn [andb]. apply IH; [discriminate|exact G2].
Qed.

(* ---------- first non-blank character; directive lines of the scanner ---------- *)
Fixpoint fnb (cs : list ascii) : option cls :=
  match cs with
  | [] => None
  | c :: r => if is_ws (cls_of c) then fnb r else Some (cls_of c)
  end.

Definition is_sdir (q : sq) : bool := match q with SDir _ _ => true | _ => false end.
Definition is_sbol (q : sq) : bool := match q with SBol _ => true | _ => false end.

Definition dfold (d : dsub) (cs : list ascii) : dsub := fold_left (fun d c => dstep d (cls_of c)) cs d.
Lemma sfold_dir cs : forall k d m, exists m', sfold (SDir k d, m) cs = (SDir k (dfold d cs), m').
Proof.
  induction cs as [|c cs IH]; intros k d m; [exists m; reflexivity|]. rewrite sfold_cons. cbn [sstep].
  destruct (IH k (dstep d (cls_of c)) (dmark d (cls_of c) m)) as [m' E]. exists m'. exact E.
Qed.

Lemma sstep_inside q m k : is_sbol q = false -> is_sdir q = false ->
  is_sbol (fst (sstep (q, m) k)) = false /\ is_sdir (fst (sstep (q, m) k)) = false.
Proof.
  intros H1 H2. destruct q as [[]|[|[]]|[|[]]|[]|[]|[]|[] []]; try discriminate; destruct k; destruct m; split; reflexivity.
Qed.
Lemma sfold_inside cs : forall q m, is_sbol q = false -> is_sdir q = false -> is_sdir (fst (sfold (q, m) cs)) = false.
Proof.
  induction cs as [|c cs IH]; intros q m H1 H2; [exact H2|].
  rewrite sfold_cons. destruct (sstep (q, m) (cls_of c)) as [q' m'] eqn:E.
  pose proof (sstep_inside q m (cls_of c) H1 H2) as [A B]. rewrite E in A, B. apply IH; assumption.
Qed.

Definition is_hashk (k : cls) : bool := match k with kHash => true | _ => false end.

Lemma sline_fnb k cs :
  match fnb cs with
  | None => sfold (SBol k, mU) cs = (SBol k, mU)
  | Some kh => if is_hashk kh then exists d m, sfold (SBol k, mU) cs = (SDir k d, m)
               else is_sdir (fst (sfold (SBol k, mU) cs)) = false
  end.
Proof.
  induction cs as [|c cs IH]; [reflexivity|].
  cbn [fnb]. rewrite sfold_cons. destruct (is_ws (cls_of c)) eqn:W.
  - assert (E : sstep (SBol k, mU) (cls_of c) = (SBol k, mU)) by (destruct (cls_of c); try discriminate; reflexivity).
    rewrite E. exact IH.
  - destruct (is_hashk (cls_of c)) eqn:H.
    + destruct (cls_of c); try discriminate. cbn [sstep]. destruct (sfold_dir cs k DTxt mM) as [m' E]. eexists. eexists. exact E.
    + destruct (sstep (SBol k, mU) (cls_of c)) as [q' m'] eqn:E.
      apply sfold_inside;
        destruct (cls_of c); try discriminate; destruct k; cbn in E; inversion E; reflexivity.
Qed.

Lemma tguards_of_cguards cs : forall s, cguards s cs = true -> is_sdir (fst (sfold s cs)) = false -> tguards s cs = true.
Proof.
  induction cs as [|c cs IH]; intros s HG HD; [reflexivity|].
  cbn [cguards] in HG. apply andb_true_iff in HG. destruct HG as [G1 G2].
  rewrite sfold_cons in HD. cbn [tguards]. rewrite (IH _ G2 HD), andb_true_r.
  unfold tguard. rewrite G1. cbn [andb]. destruct s as [q m]. cbn [fst].
  destruct q as [k0| | | | | |]; try reflexivity. destruct (cls_of c) eqn:K; try reflexivity.
  cbn [sstep] in HD. destruct (sfold_dir cs k0 DTxt mM) as [m' E]. rewrite E in HD. discriminate.
Qed.

(* ---------- the C pass on one line ---------- *)
Definition nobs (cs : list ascii) : bool := forallb (fun c => negb (is_bs c)) cs.

(* backslashes are admitted on # lines only *)
Lemma cguards_nobs cs : forall s, cguards s cs = true -> is_sdir (fst (sfold s cs)) = false -> nobs cs = true.
Proof.
  induction cs as [|c cs IH]; intros s HG HD; [reflexivity|].
  cbn [cguards] in HG. apply andb_true_iff in HG. destruct HG as [G1 G2]. rewrite sfold_cons in HD.
  cbn [nobs forallb]. fold (nobs cs). rewrite (IH _ G2 HD), andb_true_r.
  unfold is_bs. destruct (cls_of c) eqn:K; try reflexivity. destruct s as [q m].
  destruct q as [k0|x|x|k0|k0|k0|k0 d]; try discriminate.
  cbn [sstep] in HD. destruct (sfold_dir cs k0 (dstep d kBs) (dmark d kBs m)) as [m' E]. rewrite E in HD. discriminate.
Qed.

Lemma is_blank_abs b : is_blank b = cat_eqb (a_cat (babs b)) BLANK.
Proof. rewrite is_blank_cat, babs_cat. reflexivity. Qed.

Lemma blank_char_nonws c b : is_ws (cls_of c) = false -> is_blank (app_char c b) = false.
Proof.
  intros W. rewrite is_blank_abs, babs_char. unfold a_char. rewrite W.
  destruct (babs b), (cls_of c); try discriminate; reflexivity.
Qed.
Lemma blank_char_ws c b : is_ws (cls_of c) = true -> is_blank (app_char c b) = true -> is_blank b = true.
Proof.
  intros W. rewrite !is_blank_abs, babs_char. unfold a_char. rewrite W.
  destruct (babs b); cbn; congruence.
Qed.

(* a line that is not a directive: the cleaner stays at top level and only appends *)
Lemma cproc_plain cs : forall b, nobs cs = true -> (is_blank b = true -> fnb cs <> Some kHash) ->
  cprocess true ([CTop], b) cs = Ok ([CTop], fold_char cs b).
Proof.
  induction cs as [|c cs IH]; intros b HN HB; [reflexivity|].
  cbn [nobs forallb] in HN. apply andb_true_iff in HN. destruct HN as [N1 N2]. fold (nobs cs) in N2.
  cbn [cprocess].
  assert (E : cstep true ([CTop], b) c = Ok ([CTop], app_char c b)).
  { unfold cstep, cstep1. unfold is_bs in N1. destruct (cls_of c) eqn:K; try reflexivity; try discriminate.
    destruct (is_blank b) eqn:BL; [|reflexivity]. exfalso. apply (HB eq_refl). cbn [fnb]. rewrite K. reflexivity. }
  rewrite E. cbn [fold_char fold_left]. apply IH; [exact N2|].
  intros BL. destruct (is_ws (cls_of c)) eqn:W.
  - cbn [fnb] in HB. rewrite W in HB. apply HB. exact (blank_char_ws c b W BL).
  - rewrite (blank_char_nonws c b W) in BL. discriminate.
Qed.

(* inside a directive line: the cleaner's stack against the scanner's sub-state *)
(* ---------- inside a directive line ---------- *)
(* the cleaner's stack against the scanner's sub-state *)
Definition dstack (d : dsub) : list cmode :=
  match d with
  | DTxt => [CCpp; CTop]
  | DSl => [CSlash; CCpp; CTop]
  | DLc => [CInline; CCpp; CTop]
  | DBlk => [CBlock; CCpp; CTop]
  | DBlkSt => [CBstar; CBlock; CCpp; CTop]
  | DDq => [CDq; CCpp; CTop]
  | DSq => [CSq; CCpp; CTop]
  | DEscT => [CEsc; CCpp; CTop]
  | DEscD => [CEsc; CDq; CCpp; CTop]
  | DEscS => [CEsc; CSq; CCpp; CTop]
  end.

(* what one character does to the class of the physical line's buffer *)
Definition a_dtxt (k : cls) (b : bcls) : bcls :=
  match k with
  | kSl => b
  | kBs | kDq | kSq => a_non k b
  | _ => a_char k b
  end.
Definition a_dstep (d : dsub) (k : cls) (b : bcls) : bcls :=
  match d with
  | DTxt => a_dtxt k b
  | DSl => match k with kSl | kSt => b | _ => a_dtxt k (a_non kSl b) end
  | DLc | DBlk => b
  | DBlkSt => match k with kSl => a_space b | _ => b end
  | DDq => a_non k b
  | DSq => a_non k b
  | DEscT | DEscD | DEscS => a_non k b
  end.

Lemma slash_cls : cls_of "/"%char = kSl. Proof. reflexivity. Qed.

(* one character of a directive line, for either value of the directives_only flag *)
Lemma cstep_dir fl d c b k m : cguard (SDir k d, m) (cls_of c) = true ->
  exists b', cstep fl (dstack d, b) c = Ok (dstack (dstep d (cls_of c)), b') /\
             babs b' = a_dstep d (cls_of c) (babs b).
Proof.
  intros HG. destruct d; unfold cstep, cstep1, dstack; destruct (cls_of c) eqn:K; try discriminate;
    cbn [dstep dtxt a_dstep a_dtxt]; eexists; (split; [reflexivity|]);
    repeat (first [rewrite babs_char | rewrite babs_non | rewrite babs_space]); rewrite ?slash_cls, ?K; unfold a_char; cbn [is_ws]; reflexivity.
Qed.

(* mark of the scanner vs class of the buffer, on # lines *)
Definition d_esc (d : dsub) : bool := match d with DEscT | DEscD | DEscS => true | _ => false end.
Definition mbd (d : dsub) (m : mark) (b : bcls) : bool :=
  match m, b with
  | mU, (bE | bT) => negb (d_esc d)          (* the backslash before an escaped character has marked the line *)
  | mB, (bN | bO) => negb (d_esc d)
  | mM, (bO | bH0 | bH1) => true
  | _, _ => false
  end.
Definition isH (b : bcls) : bool := match b with bH0 | bH1 => true | _ => false end.

Definition allD' : list dsub := [DTxt; DSl; DLc; DBlk; DBlkSt; DDq; DSq; DEscT; DEscD; DEscS].
Definition dstep_ok (d : dsub) (m : mark) (b : bcls) (k : cls) : bool :=
  implb (mbd d m b && cguard (SDir K0 d, m) k)
        (mbd (dstep d k) (dmark d k m) (a_dstep d k b) && implb (isH b) (isH (a_dstep d k b))).
Lemma dstep_table :
  forallb (fun d => forallb (fun m => forallb (fun b => forallb (dstep_ok d m b) allC) allB) allM) allD' = true.
Proof. vm_compute. reflexivity. Qed.

Lemma in_allD' d : In d allD'. Proof. destruct d; cbn; repeat (first [left; reflexivity | right]). Qed.
Lemma cguard_dir_k k d m c : cguard (SDir k d, m) c = cguard (SDir K0 d, m) c.
Proof. destruct c, d; reflexivity. Qed.

Lemma dstep_sim d m b k0 c : mbd d m b = true -> cguard (SDir k0 d, m) c = true ->
  mbd (dstep d c) (dmark d c m) (a_dstep d c b) = true /\ (isH b = true -> isH (a_dstep d c b) = true).
Proof.
  intros H1 H2. rewrite cguard_dir_k in H2.
  pose proof dstep_table as T. rewrite forallb_forall in T. specialize (T d (in_allD' d)).
  rewrite forallb_forall in T. specialize (T m (in_allM m)).
  rewrite forallb_forall in T. specialize (T b (in_allB b)).
  rewrite forallb_forall in T. specialize (T c (in_allC c)).
  unfold dstep_ok in T. rewrite H1, H2 in T. cbn [andb implb] in T.
  apply andb_true_iff in T. destruct T as [T1 T2]. split; [exact T1|].
  intros HH. rewrite HH in T2. exact T2.
Qed.

Lemma cproc_in_dir fl cs : forall d b m k, mbd d m (babs b) = true -> cguards (SDir k d, m) cs = true ->
  exists d' m' b', sfold (SDir k d, m) cs = (SDir k d', m') /\
    cprocess fl (dstack d, b) cs = Ok (dstack d', b') /\ mbd d' m' (babs b') = true /\
    (isH (babs b) = true -> isH (babs b') = true).
Proof.
  induction cs as [|c cs IH]; intros d b m k HM HG.
  - exists d, m, b. repeat split; auto.
  - cbn [cguards] in HG. apply andb_true_iff in HG. destruct HG as [G1 G2]. cbn [sstep] in G2.
    destruct (cstep_dir fl d c b k m G1) as [b1 [E1 E2]].
    destruct (dstep_sim d m (babs b) k (cls_of c) HM G1) as [S1 S2]. rewrite <- E2 in S1, S2.
    destruct (IH _ b1 _ k S1 G2) as [d' [m' [b' [F1 [F2 [F3 F4]]]]]].
    exists d', m', b'. rewrite sfold_cons. cbn [sstep cprocess]. rewrite E1.
    repeat split; auto.
Qed.

Lemma cat_hash_blank c b : cls_of c = kHash -> is_blank b = true -> isH (babs (app_non c b)) = true.
Proof.
  intros K. rewrite is_blank_abs, babs_non, K. destruct (babs b); cbn; congruence.
Qed.

(* only the two classes reachable from the empty buffer by white space *)
Definition fresh (b : osl) : bool := match babs b with bE | bT => true | _ => false end.
Lemma fresh_blank b : fresh b = true -> is_blank b = true.
Proof. unfold fresh. rewrite is_blank_abs. destruct (babs b); cbn; congruence. Qed.
Lemma fresh_ws c b : is_ws (cls_of c) = true -> fresh b = true -> fresh (app_char c b) = true.
Proof. unfold fresh. rewrite babs_char. unfold a_char. intros ->. destruct (babs b); cbn; congruence. Qed.

Lemma isH_mM d b : isH b = true -> mbd d mM b = true.
Proof. destruct b; cbn; congruence. Qed.

(* a line whose first non-blank character is #, from the top level *)
Lemma cproc_dir fl cs : forall b k, fresh b = true -> fnb cs = Some kHash -> cguards (SBol k, mU) cs = true ->
  exists d' m' b', sfold (SBol k, mU) cs = (SDir k d', m') /\
    cprocess fl ([CTop], b) cs = Ok (dstack d', b') /\ mbd d' m' (babs b') = true /\ isH (babs b') = true.
Proof.
  induction cs as [|c cs IH]; intros b k HF HH HG; [discriminate|].
  cbn [cguards] in HG. apply andb_true_iff in HG. destruct HG as [G1 G2].
  cbn [fnb] in HH. cbn [cprocess]. rewrite sfold_cons. destruct (is_ws (cls_of c)) eqn:W.
  - assert (E : cstep fl ([CTop], b) c = Ok ([CTop], app_char c b)).
    { unfold cstep, cstep1. destruct (cls_of c); try discriminate; reflexivity. }
    rewrite E.
    assert (E2 : sstep (SBol k, mU) (cls_of c) = (SBol k, mU)) by (destruct (cls_of c); try discriminate; reflexivity).
    rewrite E2 in G2 |- *. apply IH; [apply fresh_ws; assumption|exact HH|exact G2].
  - injection HH as HH.
    assert (E : cstep fl ([CTop], b) c = Ok ([CCpp; CTop], app_non c b)).
    { unfold cstep, cstep1. rewrite HH, (fresh_blank b HF). reflexivity. }
    rewrite E. rewrite HH in G2 |- *. cbn [sstep] in G2 |- *.
    pose proof (cat_hash_blank c b HH (fresh_blank b HF)) as HB.
    destruct (cproc_in_dir fl cs DTxt (app_non c b) mM k (isH_mM _ _ HB) G2) as [d' [m' [b' [F1 [F2 [F3 F4]]]]]].
    exists d', m', b'. repeat split; auto.
Qed.

(* class of the collapsed line *)
Lemma absorbing_fold_char cs : forall b, absorbing (babs b) = true -> babs (fold_char cs b) = babs b.
Proof.
  induction cs as [|c cs IH]; intros b H; [reflexivity|]. cbn [fold_char fold_left].
  assert (E : babs (app_char c b) = babs b).
  { rewrite babs_char. unfold a_char. destruct (babs b); try discriminate; destruct (is_ws (cls_of c)); reflexivity. }
  change (babs (fold_char cs (app_char c b)) = babs b). rewrite IH; [exact E|rewrite E; exact H].
Qed.

Lemma cat_fold_char cs : forall b, fresh b = true ->
  category (fold_char cs b) = match fnb cs with None => BLANK | Some kh => if is_hashk kh then CPPDIR else SRC end.
Proof.
  induction cs as [|c cs IH]; intros b HF.
  - cbn. rewrite babs_cat. unfold fresh in HF. destruct (babs b); try discriminate; reflexivity.
  - cbn [fold_char fold_left fnb]. change (fold_left (fun b c => app_char c b) cs (app_char c b)) with (fold_char cs (app_char c b)).
    destruct (is_ws (cls_of c)) eqn:W.
    + apply IH. apply fresh_ws; assumption.
    + rewrite babs_cat, absorbing_fold_char; rewrite babs_char; unfold a_char; rewrite W; unfold fresh in HF;
        destruct (babs b); try discriminate; destruct (cls_of c); try discriminate; reflexivity.
Qed.

(* ---------- c_line ---------- *)
Definition clean (out : list cll) : cloop := {| cl_stk := [CTop]; cl_cur := osl0; cl_lines := []; cl_out := out |}.

Lemma split_last_in cs : forall i z, split_last cs = Some (i, z) -> In z cs.
Proof.
  induction cs as [|c cs IH]; intros i z H; [discriminate|].
  cbn [split_last] in H. destruct cs as [|d cs'].
  - injection H as _ H. subst. left. reflexivity.
  - destruct (split_last (d :: cs')) as [[i' z']|] eqn:E; [|discriminate].
    injection H as _ H. subst. right. exact (IH _ _ eq_refl).
Qed.

Lemma body_nobs cs : nobs cs = true -> split_cont cs = (cs, false).
Proof.
  intros HN. unfold split_cont. destruct (split_last cs) as [[i z]|] eqn:E; [|reflexivity].
  pose proof (split_last_in cs i z E) as HI. unfold nobs in HN. rewrite forallb_forall in HN.
  specialize (HN z HI). apply negb_true_iff in HN. rewrite HN. reflexivity.
Qed.

Lemma join0_parts b : parts (join osl0 b) = parts b.
Proof. unfold join. destruct (parts b) as [|x r]; [reflexivity|]. cbn. rewrite andb_false_r. reflexivity. Qed.
Lemma join0_cat b : category (join osl0 b) = category b.
Proof. unfold category. rewrite join0_parts. reflexivity. Qed.

(* c_line with the splitting of the trailing backslash made explicit *)
Lemma c_line_unfold fl n s cs nl :
  c_line fl n s (cs, nl) =
  (let body := fst (split_cont cs) in let continued := snd (split_cont cs) in
   if continued && negb nl then rt_err else
   match cprocess fl (cl_stk s, osl0) body with
   | Err e => Err e
   | Ok (st1, b1) =>
     match (if negb continued && negb (top_is_block st1) then cnewline (st1, b1) else Ok (st1, b1)) with
     | Err e => Err e
     | Ok (st2, b2) =>
       let lines := if is_blank b2 then cl_lines s else cl_lines s ++ [n] in
       let cur := join (cl_cur s) b2 in
       if negb continued && negb (top_is_block st2)
       then Ok {| cl_stk := st2; cl_cur := osl0; cl_lines := []; cl_out := cflush cur lines (cl_out s) |}
       else Ok {| cl_stk := st2; cl_cur := cur; cl_lines := lines; cl_out := cl_out s |}
     end
   end).
Proof.
  unfold c_line, split_cont. destruct (split_last cs) as [[i z]|]; [destruct (is_bs z)|]; reflexivity.
Qed.

(* a line of Fortran text (not a directive) from a clean state *)
Definition cout_ok (n : nat) (cs : list ascii) (l : list cll) : Prop :=
  match fnb cs with
  | None => l = []
  | Some _ => l = [{| c_lines := [n]; c_cat := SRC; c_text := collapse false cs |}]
  end.

Lemma c_line_plain n out cs nl : nobs cs = true -> fnb cs <> Some kHash ->
  exists l, c_line true n (clean out) (cs, nl) = Ok (clean (out ++ l)) /\ cout_ok n cs l.
Proof.
  intros HN HF. rewrite c_line_unfold, (body_nobs cs HN). cbn [fst snd andb negb clean cl_stk cl_cur cl_lines cl_out].
  rewrite (cproc_plain cs osl0 HN (fun _ => HF)).
  cbn [top_is_block negb andb cnewline]. unfold cflush. rewrite join0_cat.
  rewrite (cat_fold_char cs osl0 eq_refl). unfold is_blank. rewrite (cat_fold_char cs osl0 eq_refl).
  unfold cout_ok. destruct (fnb cs) as [kh|] eqn:FK.
  - assert (HK : is_hashk kh = false) by (destruct kh; try reflexivity; exfalso; apply HF; reflexivity).
    rewrite HK. cbn [app]. rewrite join0_parts, fold_char_parts. cbn [parts trailing osl0 app].
    eexists. split; reflexivity.
  - exists []. rewrite app_nil_r. split; reflexivity.
Qed.

(* ---------- a physical line in directive mode ---------- *)
Definition a_newline (d : dsub) (b : bcls) : bcls :=
  match d with DLc => a_space b | DSl => a_non kSl b | _ => b end.
Definition d_open (d : dsub) : bool := match d with DBlk | DBlkSt => true | _ => false end.
Lemma dir_newline d b : d_open d = false -> d_esc d = false ->
  top_is_block (dstack d) = false /\ exists b', cnewline (dstack d, b) = Ok ([CTop], b') /\ babs b' = a_newline d (babs b).
Proof.
  intros H1 H2. destruct d; try discriminate; (split; [reflexivity|]); unfold cnewline, dstack, a_newline;
    eexists; (split; [reflexivity|]); rewrite ?babs_space, ?babs_non, ?slash_cls; reflexivity.
Qed.

(* the end of a directive-mode line: relation of the final mark and buffer class *)
Definition dend_ok (d : dsub) (m : mark) (b : bcls) (cont : bool) : bool :=
  implb (mbd d m b && eguard (SDir K0 d, m) && negb (cont && match d with DSl => true | _ => false end))
        (let b2 := if cont then b else a_newline d b in
         Bool.eqb (cat_eqb (a_cat b2) BLANK)
                  (negb (is_mM m || (negb cont && match d with DSl => true | _ => false end)))
         && implb (isH b) (isH b2)).
Lemma dend_table :
  forallb (fun d => forallb (fun m => forallb (fun b => forallb (dend_ok d m b) [true; false]) allB) allM) allD' = true.
Proof. vm_compute. reflexivity. Qed.

Lemma dend_sim d m b cont k : mbd d m b = true -> eguard (SDir k d, m) = true ->
  (cont = true -> d <> DSl) ->
  let b2 := if cont then b else a_newline d b in
  cat_eqb (a_cat b2) BLANK = negb (is_mM m || (negb cont && match d with DSl => true | _ => false end)) /\
  (isH b = true -> isH b2 = true).
Proof.
  intros H1 H2 H3.
  pose proof dend_table as T. rewrite forallb_forall in T. specialize (T d (in_allD' d)).
  rewrite forallb_forall in T. specialize (T m (in_allM m)).
  rewrite forallb_forall in T. specialize (T b (in_allB b)).
  rewrite forallb_forall in T. specialize (T cont). 
  assert (HI : In cont [true; false]) by (destruct cont; cbn; tauto). specialize (T HI).
  unfold dend_ok in T. rewrite H1 in T.
  assert (E2 : eguard (SDir K0 d, m) = true) by (destruct d, m; cbn in *; congruence).
  rewrite E2 in T.
  assert (E3 : negb (cont && match d with DSl => true | _ => false end) = true).
  { destruct cont; [|reflexivity]. destruct d; try reflexivity. exfalso. apply (H3 eq_refl). reflexivity. }
  rewrite E3 in T. cbn [andb implb] in T. apply andb_true_iff in T. destruct T as [T1 T2].
  apply Bool.eqb_prop in T1. split; [exact T1|]. intros HH. rewrite HH in T2. exact T2.
Qed.
