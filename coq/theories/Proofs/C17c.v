(* C17 — part c: the C pass in directives-only mode on one physical line.
   - what it hands to the Fortran cleaner is the line with every run of white
     space collapsed to one blank ([collapse]); the reference scanner cannot
     tell the difference ([sfold_collapse], [tguards_collapse]);
   - a line whose first non-blank character is # comes out as a directive
     (category CPP_DIRECTIVE), any other non-blank line as source, a blank
     line not at all ([c_line_wf]). *)
From Coq Require Import NArith Bool Ascii String List.
From CBI Require Import Lib.Res Model.C17 Spec.C17 Proofs.C17a Proofs.C17b.
Import ListNotations.

(* ---------- collapse ---------- *)
Fixpoint collapse (tr : bool) (cs : list ascii) : list ascii :=
  match cs with
  | [] => []
  | c :: r => if is_ws (cls_of c) then (if tr then collapse true r else " "%char :: collapse true r)
              else c :: collapse false r
  end.

Definition fold_char (cs : list ascii) (b : osl) : osl := fold_left (fun b c => app_char c b) cs b.

Lemma fold_char_parts cs : forall b, parts (fold_char cs b) = parts b ++ collapse (trailing b) cs.
Proof.
  induction cs as [|c cs IH]; intros b; cbn [fold_char fold_left collapse]; [rewrite app_nil_r; reflexivity|].
  change (parts (fold_char cs (app_char c b)) = parts b ++ (if is_ws (cls_of c) then if trailing b then collapse true cs else " "%char :: collapse true cs else c :: collapse false cs)).
  rewrite IH. unfold app_char. destruct (is_ws (cls_of c)).
  - unfold app_space. destruct (trailing b) eqn:T; [rewrite T; reflexivity|].
    cbn [parts trailing]. rewrite <- app_assoc. reflexivity.
  - unfold app_non. cbn [parts trailing]. rewrite <- app_assoc. reflexivity.
Qed.

(* ---------- the scanner does not see the difference ---------- *)
Definition ws_stable (s : sst) : Prop := forall k, is_ws k = true -> sstep s k = s.

Lemma sstep_ws_idem s k : is_ws k = true -> ws_stable (sstep s k).
Proof.
  intros Hk k' Hk'. destruct s as [q m].
  destruct k; try discriminate; destruct k'; try discriminate;
    destruct q as [[]|[|[]]|[|[]]|[]|[]|[]|[] []]; destruct m; reflexivity.
Qed.
Lemma sstep_ws_same s k : is_ws k = true -> sstep s k = sstep s kSp.
Proof.
  intros Hk. destruct s as [q m]. destruct k; try discriminate; [reflexivity|].
  destruct q as [[]|[|[]]|[|[]]|[]|[]|[]|[] []]; destruct m; reflexivity.
Qed.
Lemma tguard_ws s k : is_ws k = true -> tguard s k = true.
Proof.
  intros Hk. destruct s as [q m]. destruct k; try discriminate;
    destruct q as [[]|[|[]]|[|[]]|[]|[]|[]|[] []]; destruct m; reflexivity.
Qed.

Lemma sfold_cons s c cs : sfold s (c :: cs) = sfold (sstep s (cls_of c)) cs.
Proof. reflexivity. Qed.

Lemma sfold_collapse cs : forall tr s, (tr = true -> ws_stable s) -> sfold s (collapse tr cs) = sfold s cs.
Proof.
  induction cs as [|c cs IH]; intros tr s Hs; [reflexivity|].
  cbn [collapse]. rewrite (sfold_cons s c cs). destruct (is_ws (cls_of c)) eqn:W.
  - destruct tr.
    + rewrite (Hs eq_refl _ W). apply IH. exact Hs.
    + rewrite sfold_cons. change (cls_of " "%char) with kSp. rewrite (sstep_ws_same s _ W).
      apply IH. intros _. apply sstep_ws_idem. reflexivity.
  - rewrite sfold_cons. apply IH. discriminate.
Qed.

Lemma tguards_collapse cs : forall tr s, (tr = true -> ws_stable s) -> tguards s cs = true -> tguards s (collapse tr cs) = true.
Proof.
  induction cs as [|c cs IH]; intros tr s Hs HG; [reflexivity|].
  cbn [tguards] in HG. apply andb_true_iff in HG. destruct HG as [G1 G2].
  cbn [collapse]. destruct (is_ws (cls_of c)) eqn:W.
  - destruct tr.
    + rewrite (Hs eq_refl _ W) in G2. apply IH; assumption.
    + cbn [tguards]. change (cls_of " "%char) with kSp. rewrite tguard_ws by reflexivity. cbn [andb].
      rewrite (sstep_ws_same s _ W) in G2. apply IH; [|exact G2]. intros _. apply sstep_ws_idem. reflexivity.
  - cbn [tguards]. rewrite G1. cbn [andb]. apply IH; [discriminate|exact G2].
Qed.

(* ---------- first non-blank character; directive lines of the scanner ---------- *)
Fixpoint fnb (cs : list ascii) : option cls :=
  match cs with
  | [] => None
  | c :: r => if is_ws (cls_of c) then fnb r else Some (cls_of c)
  end.

Definition is_sdir (q : sq) : bool := match q with SDir _ _ => true | _ => false end.
Definition is_sbol (q : sq) : bool := match q with SBol _ => true | _ => false end.

Definition dfold (d : dsub) (cs : list ascii) : dsub := fold_left (fun d c => dstep d (cls_of c)) cs d.
Lemma sfold_dir cs : forall k d m, sfold (SDir k d, m) cs = (SDir k (dfold d cs), m).
Proof. induction cs as [|c cs IH]; intros k d m; [reflexivity|]. rewrite sfold_cons. cbn [sstep]. apply IH. Qed.

Lemma sstep_inside q m k : is_sbol q = false -> is_sdir q = false ->
  is_sbol (fst (sstep (q, m) k)) = false /\ is_sdir (fst (sstep (q, m) k)) = false.
Proof.
  intros H1 H2. destruct q as [[]|[|[]]|[|[]]|[]|[]|[]|[] []]; try discriminate; destruct k; destruct m; split; reflexivity.
Qed.
Lemma sfold_inside cs : forall q m, is_sbol q = false -> is_sdir q = false -> is_sdir (fst (sfold (q, m) cs)) = false.
Proof.
  induction cs as [|c cs IH]; intros q m H1 H2; [exact H2|].
  rewrite sfold_cons. destruct (sstep (q, m) (cls_of c)) as [q' m'] eqn:E.
  pose proof (sstep_inside q m (cls_of c) H1 H2) as [A B]. rewrite E in A, B. apply IH; assumption.
Qed.

Definition is_hashk (k : cls) : bool := match k with kHash => true | _ => false end.

Lemma sline_fnb k cs :
  match fnb cs with
  | None => sfold (SBol k, mU) cs = (SBol k, mU)
  | Some kh => if is_hashk kh then exists d, sfold (SBol k, mU) cs = (SDir k d, mM)
               else is_sdir (fst (sfold (SBol k, mU) cs)) = false
  end.
Proof.
  induction cs as [|c cs IH]; [reflexivity|].
  cbn [fnb]. rewrite sfold_cons. destruct (is_ws (cls_of c)) eqn:W.
  - assert (E : sstep (SBol k, mU) (cls_of c) = (SBol k, mU)) by (destruct (cls_of c); try discriminate; reflexivity).
    rewrite E. exact IH.
  - destruct (is_hashk (cls_of c)) eqn:H.
    + destruct (cls_of c); try discriminate. cbn [sstep]. eexists. apply sfold_dir.
    + destruct (sstep (SBol k, mU) (cls_of c)) as [q' m'] eqn:E.
      apply sfold_inside;
        destruct (cls_of c); try discriminate; destruct k; cbn in E; inversion E; reflexivity.
Qed.

Lemma tguards_of_cguards cs : forall s, cguards s cs = true -> is_sdir (fst (sfold s cs)) = false -> tguards s cs = true.
Proof.
  induction cs as [|c cs IH]; intros s HG HD; [reflexivity|].
  cbn [cguards] in HG. apply andb_true_iff in HG. destruct HG as [G1 G2].
  rewrite sfold_cons in HD. cbn [tguards]. rewrite (IH _ G2 HD), andb_true_r.
  unfold tguard. rewrite G1. cbn [andb]. destruct s as [q m]. cbn [fst].
  destruct q as [k0| | | | | |]; try reflexivity. destruct (cls_of c) eqn:K; try reflexivity.
  cbn [sstep] in HD. rewrite sfold_dir in HD. discriminate.
Qed.

(* ---------- the C pass on one line ---------- *)
Definition nobs (cs : list ascii) : bool := forallb (fun c => negb (is_bs c)) cs.

Lemma cguards_nobs cs : forall s, cguards s cs = true -> nobs cs = true.
Proof.
  induction cs as [|c cs IH]; intros s HG; [reflexivity|].
  cbn [cguards] in HG. apply andb_true_iff in HG. destruct HG as [G1 G2].
  cbn [nobs forallb]. fold (nobs cs). rewrite (IH _ G2), andb_true_r.
  unfold is_bs. destruct (cls_of c); try reflexivity. destruct s as [q m]; discriminate.
Qed.

Lemma is_blank_abs b : is_blank b = cat_eqb (a_cat (babs b)) BLANK.
Proof. rewrite is_blank_cat, babs_cat. reflexivity. Qed.

Lemma blank_char_nonws c b : is_ws (cls_of c) = false -> is_blank (app_char c b) = false.
Proof.
  intros W. rewrite is_blank_abs, babs_char. unfold a_char. rewrite W.
  destruct (babs b), (cls_of c); try discriminate; reflexivity.
Qed.
Lemma blank_char_ws c b : is_ws (cls_of c) = true -> is_blank (app_char c b) = true -> is_blank b = true.
Proof.
  intros W. rewrite !is_blank_abs, babs_char. unfold a_char. rewrite W.
  destruct (babs b); cbn; congruence.
Qed.

(* a line that is not a directive: the cleaner stays at top level and only appends *)
Lemma cproc_plain cs : forall b, nobs cs = true -> (is_blank b = true -> fnb cs <> Some kHash) ->
  cprocess true ([CTop], b) cs = Ok ([CTop], fold_char cs b).
Proof.
  induction cs as [|c cs IH]; intros b HN HB; [reflexivity|].
  cbn [nobs forallb] in HN. apply andb_true_iff in HN. destruct HN as [N1 N2]. fold (nobs cs) in N2.
  cbn [cprocess].
  assert (E : cstep true ([CTop], b) c = Ok ([CTop], app_char c b)).
  { unfold cstep, cstep1. unfold is_bs in N1. destruct (cls_of c) eqn:K; try reflexivity; try discriminate.
    destruct (is_blank b) eqn:BL; [|reflexivity]. exfalso. apply (HB eq_refl). cbn [fnb]. rewrite K. reflexivity. }
  rewrite E. cbn [fold_char fold_left]. apply IH; [exact N2|].
  intros BL. destruct (is_ws (cls_of c)) eqn:W.
  - cbn [fnb] in HB. rewrite W in HB. apply HB. exact (blank_char_ws c b W BL).
  - rewrite (blank_char_nonws c b W) in BL. discriminate.
Qed.

(* inside a directive line: the cleaner's stack against the scanner's sub-state *)
Definition dstack (d : dsub) : list cmode :=
  match d with
  | DTxt => [CCpp; CTop]
  | DSl => [CSlash; CCpp; CTop]
  | DLc => [CInline; CCpp; CTop]
  | DBlk => [CBlock; CCpp; CTop]
  | DBlkSt => [CBstar; CBlock; CCpp; CTop]
  | DDq => [CDq; CCpp; CTop]
  | DSq => [CSq; CCpp; CTop]
  end.

Lemma cat_dir_char c b : category b = CPPDIR -> category (app_char c b) = CPPDIR.
Proof. rewrite !babs_cat, babs_char. unfold a_char. destruct (babs b); try discriminate; destruct (is_ws (cls_of c)); reflexivity. Qed.
Lemma cat_dir_non c b : category b = CPPDIR -> category (app_non c b) = CPPDIR.
Proof. rewrite !babs_cat, babs_non. destruct (babs b); try discriminate; reflexivity. Qed.
Lemma cat_dir_space b : category b = CPPDIR -> category (app_space b) = CPPDIR.
Proof. rewrite !babs_cat, babs_space. destruct (babs b); try discriminate; reflexivity. Qed.

Ltac solve_cat HC := repeat (first [exact HC | apply cat_dir_char | apply cat_dir_non | apply cat_dir_space]).

(* one character of a directive line, for either value of the directives_only flag *)
Lemma cstep_dir fl d c b k m : category b = CPPDIR -> cguard (SDir k d, m) (cls_of c) = true ->
  exists b', cstep fl (dstack d, b) c = Ok (dstack (dstep d (cls_of c)), b') /\ category b' = CPPDIR.
Proof.
  intros HC HG. destruct d; unfold cstep, cstep1, dstack; destruct (cls_of c) eqn:K; try discriminate;
    cbn [dstep dtxt]; eexists; (split; [reflexivity|solve_cat HC]).
Qed.

Lemma cproc_in_dir fl cs : forall d b k m, category b = CPPDIR -> cguards (SDir k d, m) cs = true ->
  exists b', cprocess fl (dstack d, b) cs = Ok (dstack (dfold d cs), b') /\ category b' = CPPDIR.
Proof.
  induction cs as [|c cs IH]; intros d b k m HC HG; [exists b; split; [reflexivity|exact HC]|].
  cbn [cguards] in HG. apply andb_true_iff in HG. destruct HG as [G1 G2]. cbn [sstep] in G2.
  cbn [cprocess]. destruct (cstep_dir fl d c b k m HC G1) as [b1 [E1 E2]]. rewrite E1.
  exact (IH _ b1 k m E2 G2).
Qed.

Lemma cat_hash_blank c b : cls_of c = kHash -> is_blank b = true -> category (app_non c b) = CPPDIR.
Proof.
  intros K. rewrite is_blank_abs, babs_cat, babs_non, K. destruct (babs b); cbn; congruence.
Qed.

(* only the two classes reachable from the empty buffer by white space *)
Definition fresh (b : osl) : bool := match babs b with bE | bT => true | _ => false end.
Lemma fresh_blank b : fresh b = true -> is_blank b = true.
Proof. unfold fresh. rewrite is_blank_abs. destruct (babs b); cbn; congruence. Qed.
Lemma fresh_ws c b : is_ws (cls_of c) = true -> fresh b = true -> fresh (app_char c b) = true.
Proof. unfold fresh. rewrite babs_char. unfold a_char. intros ->. destruct (babs b); cbn; congruence. Qed.

Lemma cproc_dir fl cs : forall b k, fresh b = true -> fnb cs = Some kHash -> cguards (SBol k, mU) cs = true ->
  exists d b', cprocess fl ([CTop], b) cs = Ok (dstack d, b') /\ category b' = CPPDIR /\
               sfold (SBol k, mU) cs = (SDir k d, mM).
Proof.
  induction cs as [|c cs IH]; intros b k HF HH HG; [discriminate|].
  cbn [cguards] in HG. apply andb_true_iff in HG. destruct HG as [G1 G2].
  cbn [fnb] in HH. cbn [cprocess]. rewrite sfold_cons. destruct (is_ws (cls_of c)) eqn:W.
  - assert (E : cstep fl ([CTop], b) c = Ok ([CTop], app_char c b)).
    { unfold cstep, cstep1. destruct (cls_of c); try discriminate; reflexivity. }
    rewrite E.
    assert (E2 : sstep (SBol k, mU) (cls_of c) = (SBol k, mU)) by (destruct (cls_of c); try discriminate; reflexivity).
    rewrite E2 in G2 |- *. apply IH; [apply fresh_ws; assumption|exact HH|exact G2].
  - injection HH as HH.
    assert (E : cstep fl ([CTop], b) c = Ok ([CCpp; CTop], app_non c b)).
    { unfold cstep, cstep1. rewrite HH, (fresh_blank b HF). reflexivity. }
    rewrite E. rewrite HH in G2 |- *. cbn [sstep] in G2 |- *.
    destruct (cproc_in_dir fl cs DTxt (app_non c b) k mM) as [b' [E1 E2]];
      [apply cat_hash_blank; [exact HH|apply fresh_blank; exact HF]|exact G2|].
    exists (dfold DTxt cs), b'. split; [exact E1|]. split; [exact E2|apply sfold_dir].
Qed.

(* class of the collapsed line *)
Lemma absorbing_fold_char cs : forall b, absorbing (babs b) = true -> babs (fold_char cs b) = babs b.
Proof.
  induction cs as [|c cs IH]; intros b H; [reflexivity|]. cbn [fold_char fold_left].
  assert (E : babs (app_char c b) = babs b).
  { rewrite babs_char. unfold a_char. destruct (babs b); try discriminate; destruct (is_ws (cls_of c)); reflexivity. }
  change (babs (fold_char cs (app_char c b)) = babs b). rewrite IH; [exact E|rewrite E; exact H].
Qed.

Lemma cat_fold_char cs : forall b, fresh b = true ->
  category (fold_char cs b) = match fnb cs with None => BLANK | Some kh => if is_hashk kh then CPPDIR else SRC end.
Proof.
  induction cs as [|c cs IH]; intros b HF.
  - cbn. rewrite babs_cat. unfold fresh in HF. destruct (babs b); try discriminate; reflexivity.
  - cbn [fold_char fold_left fnb]. change (fold_left (fun b c => app_char c b) cs (app_char c b)) with (fold_char cs (app_char c b)).
    destruct (is_ws (cls_of c)) eqn:W.
    + apply IH. apply fresh_ws; assumption.
    + rewrite babs_cat, absorbing_fold_char; rewrite babs_char; unfold a_char; rewrite W; unfold fresh in HF;
        destruct (babs b); try discriminate; destruct (cls_of c); try discriminate; reflexivity.
Qed.

(* ---------- c_line on a clean state ---------- *)
Definition clean (out : list cll) : cloop := {| cl_stk := [CTop]; cl_cur := osl0; cl_lines := []; cl_out := out |}.

Lemma split_last_in cs : forall i z, split_last cs = Some (i, z) -> In z cs.
Proof.
  induction cs as [|c cs IH]; intros i z H; [discriminate|].
  cbn [split_last] in H. destruct cs as [|d cs'].
  - injection H as _ H. subst. left. reflexivity.
  - destruct (split_last (d :: cs')) as [[i' z']|] eqn:E; [|discriminate].
    injection H as _ H. subst. right. exact (IH _ _ eq_refl).
Qed.

Lemma body_nobs cs : nobs cs = true ->
  match split_last cs with
  | Some (i, z) => if is_bs z then (i, true) else (cs, false)
  | None => (cs, false)
  end = (cs, false).
Proof.
  intros HN. destruct (split_last cs) as [[i z]|] eqn:E; [|reflexivity].
  pose proof (split_last_in cs i z E) as HI. unfold nobs in HN. rewrite forallb_forall in HN.
  specialize (HN z HI). apply negb_true_iff in HN. rewrite HN. reflexivity.
Qed.

Lemma join0_parts b : parts (join osl0 b) = parts b.
Proof. unfold join. destruct (parts b) as [|x r]; [reflexivity|]. cbn. rewrite andb_false_r. reflexivity. Qed.
Lemma join0_cat b : category (join osl0 b) = category b.
Proof. unfold category. rewrite join0_parts. reflexivity. Qed.

Definition cout_ok (n : nat) (cs : list ascii) (l : list cll) : Prop :=
  match fnb cs with
  | None => l = []
  | Some kh => if is_hashk kh then exists txt, l = [{| c_lines := [n]; c_cat := CPPDIR; c_text := txt |}]
               else l = [{| c_lines := [n]; c_cat := SRC; c_text := collapse false cs |}]
  end.

Lemma dir_newline d b k m : eguard (SDir k d, m) = true -> category b = CPPDIR ->
  top_is_block (dstack d) = false /\ exists b', cnewline (dstack d, b) = Ok ([CTop], b') /\ category b' = CPPDIR.
Proof.
  intros HE HC. destruct d; try discriminate; (split; [reflexivity|]); unfold cnewline, dstack;
    eexists; (split; [reflexivity|solve_cat HC]).
Qed.

Lemma c_line_wf n out cs nl k : cguards (SBol k, mU) cs = true -> eguard (sfold (SBol k, mU) cs) = true ->
  exists l, c_line true n (clean out) (cs, nl) = Ok (clean (out ++ l)) /\ cout_ok n cs l.
Proof.
  intros HG HE. pose proof (cguards_nobs _ _ HG) as HN.
  unfold c_line. rewrite (body_nobs cs HN). cbn [andb negb clean cl_stk cl_cur cl_lines cl_out].
  unfold cout_ok. destruct (fnb cs) as [kh|] eqn:F; [destruct (is_hashk kh) eqn:H|].
  - (* directive *)
    assert (kh = kHash) by (destruct kh; try discriminate; reflexivity). subst kh.
    destruct (cproc_dir true cs osl0 k eq_refl F HG) as [d [b' [E1 [E3 ES]]]].
    rewrite E1. rewrite ES in HE. destruct (dir_newline d b' k mM HE E3) as [T1 [b2 [T2 T3]]]. rewrite T1. cbn [negb]. rewrite T2.
    cbn [top_is_block negb]. unfold cflush. rewrite join0_cat, T3.
    unfold is_blank. rewrite T3. cbn [app].
    eexists. split; [reflexivity|]. eexists. reflexivity.
  - (* source *)
    rewrite (cproc_plain cs osl0 HN) by (intros _; rewrite F; intros E; injection E as E; subst; discriminate).
    cbn [top_is_block negb cnewline]. unfold cflush. rewrite join0_cat.
    rewrite (cat_fold_char cs osl0 eq_refl), F, H. unfold is_blank.
    rewrite (cat_fold_char cs osl0 eq_refl), F, H. cbn [app].
    rewrite join0_parts, fold_char_parts. cbn [parts trailing osl0 app].
    eexists. split; reflexivity.
  - (* blank *)
    rewrite (cproc_plain cs osl0 HN) by (intros _; rewrite F; discriminate).
    cbn [top_is_block negb cnewline]. unfold cflush. rewrite join0_cat.
    rewrite (cat_fold_char cs osl0 eq_refl), F.
    exists []. rewrite app_nil_r. split; reflexivity.
Qed.
