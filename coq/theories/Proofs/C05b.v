(* C05, step 4: [babs] (real one_space_line -> buffer class) and [classify]
   form a homomorphism from the concrete algebra [conc] to [absalg]. *)
From Coq Require Import ZArith Bool Ascii Arith List.
From CBI Require Import Lib.Data Model.C05 Model.C05a Proofs.C05h.
Import ListNotations.

Definition wfb (b : osl) : Prop := parts b = [] -> trailing b = false.

(* the three facts about a character the buffer cares about, by class *)
Definition triple (k : cls) : bool * bool * bool :=
  match k with
  | cSp => (true, false, true)
  | cHash => (false, true, false)
  | cWs => (false, false, true)
  | _ => (false, false, false)
  end.
Lemma classify_triple c : (Ascii.eqb c sp, Ascii.eqb c hash, isspace c) = triple (classify c).
Proof. destruct c as [[] [] [] [] [] [] [] []]; vm_compute; reflexivity. Qed.

Lemma classify_facts c :
  Ascii.eqb c sp = fst (fst (triple (classify c))) /\ Ascii.eqb c hash = snd (fst (triple (classify c))) /\
  isspace c = snd (triple (classify c)).
Proof. rewrite <- classify_triple. cbn. auto. Qed.

(* appending one part x, new trailing flag t' *)
Definition ab_snoc (xs xh xw : bool) (b : bcls) (t' : bool) : bcls :=
  match b with
  | bE => if xs then bSp t' else if xh then bD0 t' else if xw then bWn t' else bN t'
  | bSp _ => if xh then bD1 t' else if xw then bWn t' else bN t'
  | bWn _ => if xw then bWn t' else bN t'
  | bD0 _ => bD0 t'
  | bD1 _ => bD1 t'
  | bN _ => bN t'
  end.

Lemma eqb_sp_facts p : Ascii.eqb p sp = true -> Ascii.eqb p hash = false /\ isspace p = true.
Proof. intros H. apply Ascii.eqb_eq in H. subst p. split; reflexivity. Qed.
Lemma eqb_hash_facts p : Ascii.eqb p hash = true -> Ascii.eqb p sp = false /\ isspace p = false.
Proof. intros H. apply Ascii.eqb_eq in H. subst p. split; reflexivity. Qed.

Lemma babs_snoc ps t x t' :
  babs {| parts := ps ++ [x]; trailing := t' |} =
  ab_snoc (Ascii.eqb x sp) (Ascii.eqb x hash) (isspace x) (babs {| parts := ps; trailing := t |}) t'.
Proof.
  destruct ps as [|p0 [|p1 r]]; unfold babs; cbn [parts trailing app forallb].
  - reflexivity.
  - destruct (Ascii.eqb p0 sp) eqn:E0.
    + destruct (eqb_sp_facts _ E0) as [H1 H2]. rewrite H1, H2. cbn [andb ab_snoc].
      destruct (Ascii.eqb x hash) eqn:Ex; [reflexivity|].
      destruct (isspace x); reflexivity.
    + destruct (Ascii.eqb p0 hash) eqn:E1; cbn [andb ab_snoc]; [reflexivity|].
      destruct (isspace p0); cbn [andb ab_snoc]; [|reflexivity]. destruct (isspace x); reflexivity.
  - destruct (Ascii.eqb p0 hash); [reflexivity|].
    destruct (Ascii.eqb p0 sp && Ascii.eqb p1 hash); [reflexivity|].
    rewrite forallb_app. cbn [forallb]. rewrite andb_true_r.
    destruct (isspace p0); cbn; [|reflexivity].
    destruct (isspace p1); cbn; [|reflexivity].
    destruct (forallb isspace r); cbn; [|reflexivity].
    destruct (isspace x); reflexivity.
Qed.

Lemma babs_tr ps t : ps <> [] -> btr (babs {| parts := ps; trailing := t |}) = t.
Proof.
  destruct ps as [|p0 [|p1 r]]; intros H; [congruence| |]; unfold babs; cbn [parts trailing].
  - destruct (Ascii.eqb p0 sp), (Ascii.eqb p0 hash), (isspace p0); reflexivity.
  - destruct (Ascii.eqb p0 hash), (Ascii.eqb p0 sp && Ascii.eqb p1 hash), (forallb isspace (p0 :: p1 :: r)); reflexivity.
Qed.
Lemma babs_E ps t : babs {| parts := ps; trailing := t |} = bE -> ps = [].
Proof.
  destruct ps as [|p0 [|p1 r]]; intros H; [reflexivity| |]; exfalso; revert H; unfold babs; cbn [parts trailing].
  - destruct (Ascii.eqb p0 sp), (Ascii.eqb p0 hash), (isspace p0); discriminate.
  - destruct (Ascii.eqb p0 hash), (Ascii.eqb p0 sp && Ascii.eqb p1 hash), (forallb isspace (p0 :: p1 :: r)); discriminate.
Qed.

Lemma btr_wfb b : wfb b -> btr (babs b) = trailing b.
Proof.
  destruct b as [ps t]. unfold wfb. cbn [parts trailing]. intros H.
  destruct ps as [|p ps']; [rewrite H by reflexivity; reflexivity|]. apply babs_tr. discriminate.
Qed.

Lemma space_hom b : wfb b -> babs (c_space b) = ab_space (babs b).
Proof.
  intros W. unfold c_space, ab_space. rewrite (btr_wfb b W).
  destruct b as [ps t]. cbn [parts trailing] in *. destruct t; [reflexivity|].
  rewrite (babs_snoc ps false sp true). change (Ascii.eqb sp sp) with true. change (Ascii.eqb sp hash) with false.
  change (isspace sp) with true. destruct (babs {| parts := ps; trailing := false |}); reflexivity.
Qed.
Lemma nonspace_hom c b : babs (c_nonspace c b) = ab_nonspace (classify c) (babs b).
Proof.
  destruct b as [ps t]. unfold c_nonspace. cbn [parts trailing]. rewrite (babs_snoc ps t c false).
  destruct (classify_facts c) as (T1 & T2 & T3). rewrite T1, T2, T3.
  destruct (classify c); cbn [triple fst snd]; destruct (babs {| parts := ps; trailing := t |}); reflexivity.
Qed.
Lemma char_hom c b : wfb b -> babs (c_char c b) = ab_char (classify c) (babs b).
Proof.
  intros W. unfold c_char, ab_char. destruct (classify_facts c) as (T1 & T2 & T3). rewrite T3.
  destruct (classify c) eqn:Ec; cbn [triple fst snd cls_space];
    try (apply space_hom; exact W);
    change {| parts := parts b ++ [c]; trailing := false |} with (c_nonspace c b);
    rewrite nonspace_hom, Ec; reflexivity.
Qed.
Lemma cat_hom b : ab_cat (babs b) = c_cat b.
Proof.
  destruct b as [ps t]. unfold babs, c_cat. cbn [parts trailing]. destruct ps as [|p0 [|p1 r]]; [reflexivity| |].
  - destruct (Ascii.eqb p0 sp); [reflexivity|]. destruct (Ascii.eqb p0 hash); [reflexivity|]. destruct (isspace p0); reflexivity.
  - destruct (Ascii.eqb p0 hash) eqn:E1.
    + rewrite orb_true_r. reflexivity.
    + rewrite orb_false_r. destruct (Ascii.eqb p0 sp && Ascii.eqb p1 hash); [reflexivity|].
      destruct (forallb isspace (p0 :: p1 :: r)); reflexivity.
Qed.

Lemma wfb_space b : wfb b -> wfb (c_space b).
Proof.
  destruct b as [ps t]. unfold wfb, c_space. cbn [parts trailing]. intros W.
  destruct t; cbn [parts trailing]; [exact W|]. intros H.
  apply app_eq_nil in H. destruct H as [_ H]. discriminate H.
Qed.
Lemma wfb_nonspace c b : wfb (c_nonspace c b).
Proof. unfold wfb, c_nonspace. cbn [parts trailing]. reflexivity. Qed.
Lemma wfb_char c b : wfb b -> wfb (c_char c b).
Proof. intros W. unfold c_char. destruct (isspace c); [apply wfb_space; exact W|]. unfold wfb. cbn [parts trailing]. reflexivity. Qed.

(* ---------- join ---------- *)
Definition set_tr (b : bcls) (t : bool) : bcls :=
  match b with bE => bE | bSp _ => bSp t | bWn _ => bWn t | bD0 _ => bD0 t | bD1 _ => bD1 t | bN _ => bN t end.

(* class of xs ++ ys (ys not empty); the trailing flag is that of ys *)
Definition ab_app (x y : bcls) : bcls :=
  match y with
  | bE => x
  | _ =>
    let t := btr y in
    match x with
    | bE => y
    | bSp _ => match y with bE => x | bSp _ | bWn _ => bWn t | bD0 _ => bD1 t | bD1 _ | bN _ => bN t end
    | bWn _ => match y with bSp _ | bWn _ => bWn t | _ => bN t end
    | bD0 _ => bD0 t
    | bD1 _ => bD1 t
    | bN _ => bN t
    end
  end.

Lemma app_snoc_law k X Y t' :
  let '(xs, xh, xw) := triple k in
  ab_snoc xs xh xw (ab_app X Y) t' = ab_app X (ab_snoc xs xh xw Y t').
Proof. destruct k, X as [|[]|[]|[]|[]|[]], Y as [|[]|[]|[]|[]|[]], t'; reflexivity. Qed.

Lemma babs_set_tr ps t t' : babs {| parts := ps; trailing := t' |} = set_tr (babs {| parts := ps; trailing := t |}) t'.
Proof.
  destruct ps as [|p0 [|p1 r]]; unfold babs; cbn [parts trailing]; [reflexivity| |].
  - destruct (Ascii.eqb p0 sp), (Ascii.eqb p0 hash), (isspace p0); reflexivity.
  - destruct (Ascii.eqb p0 hash), (Ascii.eqb p0 sp && Ascii.eqb p1 hash), (forallb isspace (p0 :: p1 :: r)); reflexivity.
Qed.

Lemma babs_app ys : forall xs t t', ys <> [] ->
  babs {| parts := xs ++ ys; trailing := t' |} =
  ab_app (babs {| parts := xs; trailing := t |}) (babs {| parts := ys; trailing := t' |}).
Proof.
  induction ys as [|y ys' IH] using rev_ind; intros xs t t' Hne; [congruence|].
  rewrite app_assoc. rewrite (babs_snoc (xs ++ ys') t y t'). rewrite (babs_snoc ys' t y t').
  pose proof (app_snoc_law (classify y) (babs {| parts := xs; trailing := t |})
                (babs {| parts := ys'; trailing := t |}) t') as Law.
  rewrite <- classify_triple in Law.
  destruct ys' as [|z zs].
  - rewrite app_nil_r. exact Law.
  - rewrite (IH xs t t) by discriminate. exact Law.
Qed.

Lemma babs_starts_sp p0 rest t :
  (exists u, babs {| parts := p0 :: rest; trailing := t |} = bSp u) \/
  (exists u, babs {| parts := p0 :: rest; trailing := t |} = bD1 u) -> Ascii.eqb p0 sp = true.
Proof.
  unfold babs. cbn [parts trailing]. destruct rest as [|p1 r].
  - destruct (Ascii.eqb p0 sp); [reflexivity|].
    destruct (Ascii.eqb p0 hash), (isspace p0); intros [[u H]|[u H]]; discriminate H.
  - destruct (Ascii.eqb p0 hash); [intros [[u H]|[u H]]; discriminate H|].
    destruct (Ascii.eqb p0 sp); [reflexivity|]. cbn [andb].
    destruct (forallb isspace (p0 :: p1 :: r)); intros [[u H]|[u H]]; discriminate H.
Qed.

Lemma join_law1 X Y : btr X = false -> Y <> bE -> ab_join X Y = ab_app X Y.
Proof. destruct X as [|[]|[]|[]|[]|[]], Y as [|[]|[]|[]|[]|[]]; cbn; intros H1 H2; try discriminate H1; try congruence. Qed.
Lemma join_law2 X Y : Y <> bE -> (forall u, Y <> bSp u) -> (forall u, Y <> bD1 u) -> ab_join X Y = ab_app X Y.
Proof.
  destruct X as [|[]|[]|[]|[]|[]], Y as [|u|u|u|u|u]; cbn; intros H1 H2 H3; try congruence;
    try (exfalso; exact (H2 u eq_refl)); try (exfalso; exact (H3 u eq_refl)).
Qed.
Lemma join_law3 X u : btr X = true -> ab_join X (bSp u) = set_tr X u.
Proof. destruct X as [|[]|[]|[]|[]|[]]; cbn; intros H; try discriminate H; reflexivity. Qed.
Lemma join_law4 X R : btr X = true -> R <> bE -> ab_join X (ab_app (bSp false) R) = ab_app X R.
Proof. destruct X as [|[]|[]|[]|[]|[]], R as [|[]|[]|[]|[]|[]]; cbn; intros H1 H2; try discriminate H1; try congruence. Qed.

Lemma join_hom a b : wfb a -> babs (c_join a b) = ab_join (babs a) (babs b).
Proof.
  intros Wa. pose proof (btr_wfb a Wa) as Ha.
  destruct a as [ps t], b as [[|p0 rest] u]; unfold c_join; cbn [parts trailing] in *.
  - destruct (babs {| parts := ps; trailing := t |}); reflexivity.
  - destruct (Ascii.eqb p0 sp && t) eqn:Ec.
    + apply andb_true_iff in Ec. destruct Ec as [E0 Et]. subst t. apply Ascii.eqb_eq in E0. subst p0.
      destruct rest as [|r0 rs].
      * rewrite app_nil_r. rewrite (babs_set_tr ps true u).
        change (babs {| parts := [sp]; trailing := u |}) with (bSp u). symmetry. apply join_law3. exact Ha.
      * rewrite (babs_app (r0 :: rs) ps true u) by discriminate.
        change (sp :: r0 :: rs) with ([sp] ++ r0 :: rs).
        rewrite (babs_app (r0 :: rs) [sp] false u) by discriminate.
        change (babs {| parts := [sp]; trailing := false |}) with (bSp false).
        symmetry. apply join_law4; [exact Ha|]. intros H. apply babs_E in H. discriminate H.
    + rewrite (babs_app (p0 :: rest) ps t u) by discriminate. symmetry.
      assert (Hne : babs {| parts := p0 :: rest; trailing := u |} <> bE) by (intros H; apply babs_E in H; discriminate H).
      apply andb_false_iff in Ec. destruct Ec as [E0|Et].
      * apply join_law2; [exact Hne| |]; intros v H; rewrite (babs_starts_sp p0 rest u) in E0; try discriminate E0; eauto.
      * subst t. apply join_law1; [exact Ha | exact Hne].
Qed.

Lemma wfb_join a b : wfb a -> wfb (c_join a b).
Proof.
  destruct a as [ps t], b as [[|p0 rest] u]; unfold wfb, c_join; cbn [parts trailing]; intros W; [exact W|].
  intros H. apply app_eq_nil in H. destruct H as [H1 H2]. subst ps. rewrite (W eq_refl) in H2.
  rewrite andb_false_r in H2. discriminate H2.
Qed.

(* ---------- the instance ---------- *)
Definition cls_line (l : pline ascii) : pline cls := map_line classify l.

Theorem conc_abs_file_source ls :
  c_file_source absalg (map cls_line ls) = map_res babs (c_file_source conc ls).
Proof.
  apply (file_source_hom conc absalg classify babs wfb); cbn [a_cls a_slash a_empty a_char a_space a_nonspace a_join a_cat conc absalg].
  - reflexivity.
  - reflexivity.
  - reflexivity.
  - unfold wfb; reflexivity.
  - intros c b W. apply char_hom. exact W.
  - intros c b W. apply wfb_char. exact W.
  - intros b W. apply space_hom. exact W.
  - intros b W. apply wfb_space. exact W.
  - intros c b _. apply nonspace_hom.
  - intros c b _. apply wfb_nonspace.
  - intros a b Wa _. apply join_hom. exact Wa.
  - intros a b Wa _. apply wfb_join. exact Wa.
  - intros b _. apply cat_hom.
Qed.

Theorem conc_abs_parse_file ls : parse_file absalg (map cls_line ls) = parse_file conc ls.
Proof.
  apply (parse_file_hom conc absalg classify babs wfb); cbn [a_cls a_slash a_empty a_char a_space a_nonspace a_join a_cat conc absalg].
  - reflexivity.
  - reflexivity.
  - reflexivity.
  - unfold wfb; reflexivity.
  - intros c b W. apply char_hom. exact W.
  - intros c b W. apply wfb_char. exact W.
  - intros b W. apply space_hom. exact W.
  - intros b W. apply wfb_space. exact W.
  - intros c b _. apply nonspace_hom.
  - intros c b _. apply wfb_nonspace.
  - intros a b Wa _. apply join_hom. exact Wa.
  - intros a b Wa _. apply wfb_join. exact Wa.
  - intros b _. apply cat_hom.
Qed.
Print Assumptions conc_abs_parse_file.
