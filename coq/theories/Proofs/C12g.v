(* Proofs for C12, part 3: lists that are only ever appended to are the in-order
   concatenation of the contributions of the items. *)
From Coq Require Import ZArith Bool Ascii String Arith Lia List.
From CBI Require Import Lib.Data Lib.Res Model.C12 Spec.C12 Proofs.C12.
Import ListNotations.
Local Open Scope string_scope.
Local Open Scope list_scope.

(* rule r never rewrites list d *)
Definition appendish (d : dest) (r : rule) : bool :=
  negb (dest_eqb (r_dest r) d) ||
  match r_act r with
  | AAppendConst _ | AAppend | AIgnore0 | AIgnore1 | AIgnoreOpt => true
  | AStoreSplit _ _ | AExtendMatch _ _ _ => dest_eqb d DPasses   (* custom actions write _passes, not passes *)
  end.
(* what rule r, given value v, appends to list d *)
Definition contrib (d : dest) (r : rule) (v : string) : list string :=
  if dest_eqb (r_dest r) d then
    match r_act r with AAppendConst k => [k] | AAppend => [v] | _ => [] end
  else [].
Definition item_contrib (rs : list rule) (d : dest) (it : item) : list string :=
  match it with
  | I0 f => match find_opt rs f with Some r => contrib d r "" | None => [] end
  | IEq f v | ISep f v | IAtt f v => match find_opt rs f with Some r => contrib d r v | None => [] end
  | IPos _ | IUnk _ => []
  end.

Lemma dest_eqb_eq a b : dest_eqb a b = true <-> a = b.
Proof. destruct a, b; cbn; split; congruence. Qed.
Lemma get_set_same d v n : get_dest d (set_dest d v n) = v.
Proof. destruct d; reflexivity. Qed.
Lemma get_set_other d d' v n : dest_eqb d' d = false -> get_dest d (set_dest d' v n) = get_dest d n.
Proof. destruct d, d'; cbn; try reflexivity; discriminate. Qed.
Lemma get_set_up d u n : get_dest d (set_up u n) = get_dest d n.
Proof. destruct d; reflexivity. Qed.
Lemma get_add_ov d k n : get_dest d (add_ov k n) = get_dest d n.
Proof. destruct d; reflexivity. Qed.

Lemma apply_rule_contrib d r f v n : appendish d r = true ->
  get_dest d (apply_rule false r f v n) = get_dest d n ++ contrib d r v.
Proof.
  unfold appendish, contrib, apply_rule. intros H.
  destruct (dest_eqb (r_dest r) d) eqn:Hd; cbn [negb orb] in H.
  - apply dest_eqb_eq in Hd. subst d.
    destruct (r_act r) as [k| |sep fm|pfx fm ov| | |]; try (rewrite app_nil_r; reflexivity).
    + apply get_set_same.
    + apply get_set_same.
    + apply dest_eqb_eq in H. rewrite H. cbn [dest_eqb]. rewrite get_set_up, app_nil_r. rewrite <- H. reflexivity.
    + apply dest_eqb_eq in H. rewrite H. cbn [dest_eqb].
      destruct (ov && negb (smem (flag0 r) (n_ov n))); rewrite ?get_add_ov, get_set_up, app_nil_r, <- H; reflexivity.
  - rewrite app_nil_r.
    destruct (r_act r) as [k| |sep fm|pfx fm ov| | |]; try reflexivity.
    + apply get_set_other. exact Hd.
    + apply get_set_other. exact Hd.
    + destruct (dest_eqb (r_dest r) DPasses); [apply get_set_up|apply get_set_other; exact Hd].
    + destruct (dest_eqb (r_dest r) DPasses).
      * destruct (ov && negb (smem (flag0 r) (n_ov n))); rewrite ?get_add_ov, get_set_up; reflexivity.
      * destruct ov; apply get_set_other; exact Hd.
Qed.

Lemma find_opt_In rs f r : find_opt rs f = Some r -> In r rs.
Proof.
  induction rs as [|x rs IH]; cbn; [discriminate|].
  destruct (smem f (r_flags x)); [intros H; injection H as <-; auto|auto].
Qed.

Lemma item_effect_contrib rs d it n : forallb (appendish d) rs = true ->
  get_dest d (item_effect rs it n) = get_dest d n ++ item_contrib rs d it.
Proof.
  intros Ha. rewrite forallb_forall in Ha.
  destruct it as [f|f v|f v|f v|s|u]; cbn [item_effect item_contrib]; try (rewrite app_nil_r; reflexivity);
    (destruct (find_opt rs f) as [r|] eqn:Hf; [|rewrite app_nil_r; reflexivity]);
    apply apply_rule_contrib; apply Ha; eapply find_opt_In; eauto.
Qed.

(* C12_append_only_lists *)
Theorem append_only_lists rs d : forallb (appendish d) rs = true ->
  forall items n,
    get_dest d (fold_left (fun n it => item_effect rs it n) items n) =
    get_dest d n ++ flat_map (item_contrib rs d) items.
Proof.
  intros Ha. induction items as [|it items IH]; intros n; cbn [fold_left flat_map].
  - rewrite app_nil_r. reflexivity.
  - rewrite IH, (item_effect_contrib _ _ _ _ Ha), app_assoc. reflexivity.
Qed.
