(* C13 + C04 - composition: what load_database returns, fed to the finder. *)
From Coq Require Import Bool Arith Ascii String List.
From CBI Require Model.C01 Model.C04 Spec.C04 Proofs.C13c.
From CBI Require Import Lib.Data Lib.Res Model.C13p Model.C13fs Model.C13 Spec.C13 Spec.C13db
  Proofs.C13p Proofs.C13 Proofs.C13db Proofs.C13k.
Import ListNotations.

(* a location as a path of the multi-file model: names root-first, as strings *)
Definition path_of (l : loc) : Model.C04.path := rev (map string_of_list l).

(* the translation unit the finder runs for one entry returned by load_database
   (macro definitions and -include names are C11's; any will do) *)
Definition tu_of (x : out_entry) (defs : list (string * Model.C04.mval)) (forced : list Model.C04.path)
  : Model.C04.entry :=
  {| Model.C04.e_file := path_of (resolve [] (o_file x));
     Model.C04.e_dirs := map (fun i => path_of (resolve [] i)) (o_incs x);
     Model.C04.e_defs := defs;
     Model.C04.e_incs := forced |}.

Lemma only_named_files_full fs cwd rootdir :
  wf_fs fs -> isabs cwd = true ->
  forall es outs,
    s_db fs (resolve (cwdloc cwd) rootdir) es = Some outs ->
    exists o w, load_database fs cwd rootdir es = Ok (o, w) /\
      forall x, In x o ->
        In (denote_entry x) (opens outs) /\
        forall (fs4 : Model.C04.fsys) fuel defs forced r,
          Spec.C04.fs_structured fs4 ->
          Model.C04.run_tu_M fs4 fuel (tu_of x defs forced) = Ok r ->
          forall g id, In (g, id) (Model.C04.assoc r) ->
                       Proofs.C13c.reach fs4 (tu_of x defs forced) g.
Proof.
  intros W A es outs H.
  destruct (load_database_spec fs cwd rootdir W A es outs H) as (o & w & L & Ho & _).
  exists o, w. split; [exact L|]. intros x Hx. split.
  - rewrite <- Ho. apply in_map. exact Hx.
  - intros fs4 fuel defs forced r Hs HM.
    apply (Proofs.C13c.tu_M_only_reachable fs4 (tu_of x defs forced) Hs fuel r HM).
Qed.
