(* C02 proofs, part 5: the lexer.  For every expression tree e whose constants ISO C accepts and
   whose identifiers are identifiers, the model of Lexer.tokenize run on the TEXT of e (the token
   spellings of [tokens dt_source need e] separated by single blanks, character constants between
   quotes) returns exactly [tokens dt_source need e] - so the unbounded evaluation theorem of
   Proofs/C02g.v holds from the text of the directive on. *)
From Coq Require Import ZArith Bool String Ascii List Lia ZifyBool Arith.
From CBI Require Import Lib.Data Gen.C02_tables Model.C02 Model.C02lex Spec.C02 Proofs.C02 Proofs.C02s Proofs.C02l Proofs.C02g.
Import ListNotations.
Local Open Scope Z_scope.

(* ------------------------------------------------------------------ text of a token list *)
Definition sp : ascii := " "%char.
Definition quote : ascii := "'"%char.

Definition text_of (t : token) : list ascii :=
  match tkind t with
  | KChar => quote :: list_of_string (tspell t) ++ [quote]
  | _ => list_of_string (tspell t)
  end.
Fixpoint join (ts : list token) : list ascii :=
  match ts with
  | [] => []
  | [t] => text_of t
  | t :: r => text_of t ++ sp :: join r
  end.

(* what may follow a token: the end of the text or a blank *)
Definition stop (rest : list ascii) : Prop := rest = [] \/ exists r, rest = sp :: r.

Definition lexable (t : token) : Prop :=
  (forall rest, stop rest -> tokenize_one (text_of t ++ rest) = Some (t, rest)) /\
  (exists c r, text_of t = c :: r /\ is_ws c = false).

Lemma skip_ws_sp r : skip_ws (sp :: r) = skip_ws r.
Proof. reflexivity. Qed.

Lemma join_cons t r : join (t :: r) = text_of t ++ match r with [] => [] | _ => sp :: join r end.
Proof. destruct r; cbn [join]; [rewrite app_nil_r|]; reflexivity. Qed.

Lemma tokenize_join ts : Forall lexable ts ->
  forall f, (List.length ts < f)%nat -> tokenize_fuel f (join ts) = Some ts.
Proof.
  induction 1 as [|t r Ht Hr IH]; intros f Hf.
  - destruct f; [lia|]. reflexivity.
  - destruct f as [|f]; [lia|]. cbn [List.length] in Hf. rewrite join_cons.
    destruct Ht as [Hone (c & w & Htx & Hc)].
    set (rest := match r with [] => [] | _ => sp :: join r end).
    assert (Hstop : stop rest) by (subst rest; destruct r; [left; reflexivity|right; eexists; reflexivity]).
    cbn [tokenize_fuel]. rewrite Htx. cbn [app skip_ws]. rewrite Hc.
    change (c :: w ++ rest) with ((c :: w) ++ rest). rewrite <- Htx. rewrite (Hone rest Hstop).
    assert (E : tokenize_fuel f rest = Some r).
    { subst rest. destruct r as [|t2 r2].
      - destruct f; [lia|]. reflexivity.
      - destruct f as [|f2]; [cbn [List.length] in Hf; lia|].
        specialize (IH (S f2)). cbn [tokenize_fuel] in *. rewrite skip_ws_sp. apply IH. lia. }
    rewrite E. reflexivity.
Qed.

Lemma text_nonempty t : lexable t -> (1 <= List.length (text_of t))%nat.
Proof. intros [_ (c & r & -> & _)]. cbn. lia. Qed.

Lemma join_length ts : Forall lexable ts -> (List.length ts <= List.length (join ts))%nat.
Proof.
  induction 1 as [|t r Ht Hr IH]; [cbn; lia|]. rewrite join_cons, app_length.
  pose proof (text_nonempty t Ht). destruct r; cbn [List.length] in *; lia.
Qed.

Theorem tokenize_join_ok ts : Forall lexable ts -> tokenize (join ts) = Some ts.
Proof. intros H. unfold tokenize. apply tokenize_join; [exact H|]. pose proof (join_length ts H). lia. Qed.

(* ------------------------------------------------------------------ operators and parentheses *)
Ltac lex_concrete :=
  split; [intros rest [->|[r ->]]; reflexivity | do 2 eexists; split; reflexivity].

Lemma lexable_bop o : lexable (bop o).
Proof. destruct o; lex_concrete. Qed.
Lemma lexable_uop o : lexable (uop o).
Proof. destruct o; lex_concrete. Qed.
Lemma lexable_qm : lexable qm.
Proof. lex_concrete. Qed.
Lemma lexable_colon : lexable colon.
Proof. lex_concrete. Qed.
Lemma lexable_lpar : lexable lpar.
Proof. lex_concrete. Qed.
Lemma lexable_rpar : lexable rpar.
Proof. lex_concrete. Qed.

(* ------------------------------------------------------------------ take_while *)
Lemma take_while_all (p : ascii -> bool) l : forall n rest,
  Forall (fun c => p c = true) l ->
  (List.length l = n \/ ((List.length l < n)%nat /\ (rest = [] \/ exists c r, rest = c :: r /\ p c = false))) ->
  take_while p n (l ++ rest) = (l, rest).
Proof.
  induction l as [|a l IH]; intros n rest Hall Hn; cbn [app].
  - destruct Hn as [Hn|[Hn Hr]]; [cbn in Hn; subst n; reflexivity|].
    destruct n; [cbn in Hn; lia|]. cbn [take_while].
    destruct Hr as [->|(c & r & -> & Hc)]; [reflexivity|]. rewrite Hc. reflexivity.
  - inversion Hall as [|? ? Ha Hl]; subst. destruct n as [|n]; [cbn in Hn; lia|].
    cbn [take_while]. rewrite Ha. rewrite (IH n rest Hl); [reflexivity|]. cbn [List.length] in Hn.
    destruct Hn as [Hn|[Hn Hr]]; [left; lia|right; split; [lia|exact Hr]].
Qed.

(* ------------------------------------------------------------------ numbers *)
Lemma aln_not_exp a b : is_aln b = true \/ b = sp -> is_exponent a b = false.
Proof.
  intros H. unfold is_exponent, lexer_exponents. cbn [existsb String.eqb].
  assert (P : Ascii.eqb b "+" = false /\ Ascii.eqb b "-" = false).
  { destruct H as [H| ->]; [|split; reflexivity].
    split; apply Ascii.eqb_neq; intros ->; vm_compute in H; discriminate. }
  destruct P as [P1 P2]. rewrite P1, P2.
  repeat match goal with |- context [Ascii.eqb a ?k] => destruct (Ascii.eqb a k) end; reflexivity.
Qed.

Lemma aln_num_char a : is_aln a = true -> num_char a = true.
Proof. unfold is_aln, num_char. intros H. apply orb_true_iff in H. destruct H as [->| ->]; [reflexivity|]. rewrite orb_true_r. reflexivity. Qed.

Lemma num_tail_stop rest : stop rest -> num_tail rest = ([], rest).
Proof.
  intros [->|[r ->]]; [reflexivity|]. destruct r as [|b r]; [reflexivity|].
  cbn [num_tail]. assert (E : is_exponent sp b = false).
  { unfold is_exponent, lexer_exponents. cbn [existsb String.eqb Ascii.eqb Bool.eqb sp andb orb]. reflexivity. }
  rewrite E. reflexivity.
Qed.

Lemma num_tail_aln cs : forall rest, Forall (fun c => is_aln c = true) cs -> stop rest ->
  num_tail (cs ++ rest) = (cs, rest).
Proof.
  induction cs as [|a t IH]; intros rest Hall Hs; [apply num_tail_stop; exact Hs|].
  inversion Hall as [|? ? Ha Ht]; subst. cbn [app num_tail].
  destruct (t ++ rest) as [|b r] eqn:E.
  - apply app_eq_nil in E. destruct E as [-> ->]. rewrite (aln_num_char a Ha). reflexivity.
  - assert (Hb : is_aln b = true \/ b = sp).
    { destruct t as [|b' t']; cbn [app] in E.
      - destruct Hs as [->|[r' ->]]; [discriminate|]. inversion E. right. reflexivity.
      - inversion E; subst. inversion Ht; subst. left. assumption. }
    rewrite (aln_not_exp a b Hb), (aln_num_char a Ha). rewrite <- E. rewrite (IH rest Ht Hs). reflexivity.
Qed.

Definition word_num (w : list ascii) : Prop :=
  exists d cs, w = d :: cs /\ is_dig d = true /\ Forall (fun c => is_aln c = true) cs.

Lemma sol_app_los w : list_of_string (string_of_list w) = w.
Proof. induction w as [|c w IH]; cbn; [reflexivity|]. rewrite IH. reflexivity. Qed.

Lemma dig_not_ws d : is_dig d = true -> is_ws d = false.
Proof. unfold is_dig, is_ws, lexer_whitespace. cbn [existsb]. lia. Qed.
Lemma dig_not_dot d : is_dig d = true -> is_ch 46 d = false.
Proof. unfold is_dig, is_ch. lia. Qed.

Lemma lexable_num s : word_num (list_of_string s) -> lexable (Tok KNum s).
Proof.
  intros (d & cs & E & Hd & Hcs). split.
  - intros rest Hs. unfold text_of. cbn [tkind tspell]. rewrite E. cbn [app].
    unfold tokenize_one, lexer_candidates. cbn [first_candidate candidate String.eqb Ascii.eqb Bool.eqb].
    unfold lex_number. rewrite (dig_not_dot d Hd), Hd. rewrite (num_tail_aln cs rest Hcs Hs). cbn [app].
    rewrite <- E, sol_los. reflexivity.
  - unfold text_of. cbn [tkind tspell]. rewrite E. do 2 eexists. split; [reflexivity|apply dig_not_ws; exact Hd].
Qed.

(* an integer constant that ISO C accepts is such a word *)
Lemma digit_val_aln c d : digit_val c = Some d -> is_aln c = true.
Proof.
  unfold digit_val, is_aln, is_alp, is_dig. set (n := zascii c).
  repeat match goal with |- context [if ?b then _ else _] => destruct b eqn:? end; intros H; try discriminate; lia.
Qed.

Lemma horner_all dig base l : forall acc m, horner dig base acc l = Some m -> Forall (fun x => exists k, dig x = Some k) l.
Proof.
  induction l as [|y l IH]; intros acc m Hm; [constructor|].
  cbn [horner] in Hm. destruct (dig y) as [k|] eqn:Dy; [|discriminate]. constructor; [eauto|exact (IH _ _ Hm)].
Qed.

Lemma digits_aln dig base (OK : dig_ok dig base) l m : digits_value dig base l = Some m ->
  Forall (fun c => is_aln c = true) l.
Proof.
  unfold digits_value. destruct l as [|c r]; [discriminate|]. intros H.
  apply horner_all in H. eapply Forall_impl; [|exact H]. cbn beta. intros a [k K].
  apply (digit_val_aln a k). exact (proj1 (dig_val _ _ OK a k K)).
Qed.

Lemma dec_is_dig c k : dec_digit c = Some k -> is_dig c = true.
Proof. unfold dec_digit, is_dig. destruct ((48 <=? zascii c) && (zascii c <=? 57)); [reflexivity|discriminate]. Qed.

Lemma legal_sfx_aln sfx : In sfx legal_suffixes -> Forall (fun c => is_aln c = true) (list_of_string sfx).
Proof.
  intros Hin. cbn [In legal_suffixes] in Hin.
  repeat (destruct Hin as [<-|Hin]; [repeat constructor|]). destruct Hin.
Qed.

Lemma literal_word body sfx v : lit_sem body sfx = Some v -> word_num (list_of_string (body ++ sfx)%string).
Proof.
  unfold lit_sem. destruct (existsb (String.eqb sfx) legal_suffixes) eqn:L; [|discriminate].
  assert (Hin : In sfx legal_suffixes).
  { apply existsb_exists in L. destruct L as (s & Hs & E). apply String.eqb_eq in E. subst. exact Hs. }
  destruct (body_value body) as [[rdx n]|] eqn:B; [|discriminate]. intros _.
  rewrite los_app. pose proof (legal_sfx_aln sfx Hin) as HS.
  unfold body_value in B. revert B. destruct (list_of_string body) as [|z [|x r]]; intros B; [discriminate| |].
  - exists z, (list_of_string sfx). split; [reflexivity|]. split; [|exact HS].
    destruct (Ascii.eqb_spec z "0"%char) as [Ez|Nz]; [subst z; reflexivity|].
    destruct (digits_value dec_digit 10 [z]) eqn:D; [|discriminate].
    unfold digits_value in D. cbn [horner] in D. destruct (dec_digit z) eqn:Dz; [|discriminate]. exact (dec_is_dig _ _ Dz).
  - assert (G : is_dig z = true /\ Forall (fun c => is_aln c = true) (x :: r)).
    { destruct (Ascii.eqb_spec z "0"%char) as [Ez|Nz].
      - subst z. split; [reflexivity|].
        destruct (Ascii.eqb x "x" || Ascii.eqb x "X")%char eqn:HX.
        + constructor.
          * apply orb_true_iff in HX. destruct HX as [HX|HX]; apply Ascii.eqb_eq in HX; subst x; reflexivity.
          * destruct (digits_value hex_digit 16 r) eqn:D; [|discriminate]. exact (digits_aln _ _ hex_ok _ _ D).
        + destruct (Ascii.eqb x "b" || Ascii.eqb x "B")%char eqn:HB.
          * constructor.
            -- apply orb_true_iff in HB. destruct HB as [HB|HB]; apply Ascii.eqb_eq in HB; subst x; reflexivity.
            -- destruct (digits_value bin_digit 2 r) eqn:D; [|discriminate]. exact (digits_aln _ _ bin_ok _ _ D).
          * destruct (digits_value oct_digit 8 ("0"%char :: x :: r)) eqn:D; [|discriminate].
            pose proof (digits_aln _ _ oct_ok _ _ D) as F. inversion F; assumption.
      - destruct (digits_value dec_digit 10 (z :: x :: r)) eqn:D; [|discriminate].
        pose proof (digits_aln _ _ dec_ok _ _ D) as F. inversion F; subst. split; [|assumption].
        unfold digits_value in D. cbn [horner] in D. destruct (dec_digit z) eqn:Dz; [|discriminate]. exact (dec_is_dig _ _ Dz). }
    destruct G as [Gz Gr]. exists z, ((x :: r) ++ list_of_string sfx). split; [reflexivity|]. split; [exact Gz|].
    apply Forall_app. split; assumption.
Qed.

Lemma lexable_literal body sfx v : lit_sem body sfx = Some v -> lexable (Tok KNum (body ++ sfx)).
Proof. intros H. apply lexable_num. exact (literal_word _ _ _ H). Qed.

(* ------------------------------------------------------------------ identifiers *)
Definition ident_ok (name : string) : bool :=
  match list_of_string name with
  | c :: cs => id_char c && negb (is_dig c) && forallb id_char cs
  | [] => false
  end.

Lemma id_char_facts c : id_char c = true ->
  is_ch 46 c = false /\ is_ch 39 c = false /\ is_ch 34 c = false /\ is_ws c = false.
Proof.
  unfold id_char, is_aln, is_alp, is_dig, is_ch, is_ws, lexer_whitespace. cbn [existsb]. set (n := zascii c). lia.
Qed.

Lemma lexable_ident name : ident_ok name = true -> lexable (Tok KId name).
Proof.
  unfold ident_ok. destruct (list_of_string name) as [|c cs] eqn:E; [discriminate|]. intros H.
  apply andb_true_iff in H. destruct H as [H Hcs]. apply andb_true_iff in H. destruct H as [Hc Hd].
  destruct (id_char_facts c Hc) as (F1 & F2 & F3 & F4). apply negb_true_iff in Hd.
  split.
  - intros rest Hs. unfold text_of. cbn [tkind tspell]. rewrite E. cbn [app].
    unfold tokenize_one, lexer_candidates. cbn [first_candidate candidate String.eqb Ascii.eqb Bool.eqb].
    unfold lex_number. rewrite F1, Hd. unfold lex_char. rewrite F2. unfold lex_string. rewrite F3.
    unfold lex_ident. rewrite Hc, Hd. cbn [andb negb].
    change (c :: cs ++ rest) with ((c :: cs) ++ rest).
    rewrite (take_while_all id_char (c :: cs) (List.length ((c :: cs) ++ rest)) rest).
    + rewrite <- E, sol_los. reflexivity.
    + constructor; [exact Hc|]. apply Forall_forall. intros x Hx. exact (proj1 (forallb_forall _ _) Hcs x Hx).
    + rewrite app_length. destruct Hs as [->|[r ->]].
      * left. cbn [List.length]. lia.
      * right. split; [cbn [List.length]; lia|]. right. exists sp, r. split; reflexivity.
  - unfold text_of. cbn [tkind tspell]. rewrite E. do 2 eexists. split; [reflexivity|exact F4].
Qed.

(* ------------------------------------------------------------------ character constants *)
Lemma hexdigit_is_hexd c k : hex_digit c = Some k -> is_hexd c = true.
Proof.
  unfold hex_digit, hexval, is_hexd. set (n := zascii c).
  repeat match goal with |- context [if ?b then _ else _] => destruct b eqn:? end; intros H; try discriminate; lia.
Qed.
Lemma octdigit_is_octal c k : oct_digit c = Some k -> is_octal c = true.
Proof.
  unfold oct_digit, is_octal. destruct ((48 <=? zascii c) && (zascii c <=? 55)); [reflexivity|discriminate].
Qed.

Lemma digits_forall dig base l m (p : ascii -> bool) :
  (forall c k, dig c = Some k -> p c = true) -> digits_value dig base l = Some m -> Forall (fun c => p c = true) l.
Proof.
  intros Hp. unfold digits_value. destruct l as [|c r]; [discriminate|]. intros H.
  apply horner_all in H. eapply Forall_impl; [|exact H]. cbn beta. intros a [k K]. exact (Hp a k K).
Qed.

Lemma q39 : is_ch 39 quote = true.
Proof. reflexivity. Qed.

Lemma lex_char_ok s v rest : char_sem s = Some v ->
  lex_char (quote :: list_of_string s ++ quote :: rest) = Some (list_of_string s, rest).
Proof.
  unfold char_sem.
  destruct (list_of_string s) as [|b [|c r]]; [discriminate| |].
  - (* one printable character *)
    destruct ((32 <=? zascii b) && (zascii b <? 127) && negb (zascii b =? 39) && negb (zascii b =? 92)) eqn:E; [|discriminate].
    intros _. cbn [app]. unfold lex_char. rewrite q39. change (is_ch 92 b) with (zascii b =? 92).
    replace (zascii b =? 92) with false by lia. cbn [andb].
    replace (is_print b) with true by (unfold is_print; lia). reflexivity.
  - destruct (zascii b =? 92) eqn:Eb; [|discriminate].
    assert (Simple : forall c0, is_print c0 = true -> is_octal c0 = false -> (zascii c0 =? 120) = false ->
              lex_char (quote :: b :: c0 :: quote :: rest) = Some ([b; c0], rest)).
    { intros c0 P O X. unfold lex_char. rewrite q39. change (is_ch 92 b) with (zascii b =? 92).
      rewrite Eb, P. cbn [andb]. rewrite O. change (is_ch 120 c0) with (zascii c0 =? 120). rewrite X. reflexivity. }
    destruct r as [|r1 rr].
    + destruct (simple_escape c) as [v0|] eqn:SE.
      * (* simple escape *)
        intros _. cbn [app]. apply Simple;
          unfold simple_escape in SE;
          repeat match type of SE with
                 | (if Ascii.eqb c ?k then _ else _) = _ => destruct (Ascii.eqb_spec c k) as [?|?]; [subst c; reflexivity|cbv iota in SE]
                 end; discriminate SE.
      * (* \x or one octal digit, nothing after it *)
        destruct (zascii c =? 120) eqn:Ex.
        -- cbn [digits_value]. discriminate.
        -- cbn [List.length Nat.leb]. destruct (digits_value oct_digit 8 [c]) as [n|] eqn:D; [|discriminate]. intros _.
           pose proof (digits_forall _ _ _ _ is_octal octdigit_is_octal D) as F. inversion F as [|? ? Oc _]; subst.
           cbn [app]. unfold lex_char. rewrite q39. change (is_ch 92 b) with (zascii b =? 92).
           rewrite Eb.
           replace (is_print c) with true by (unfold is_print, is_octal in *; lia). cbn [andb]. rewrite Oc.
           cbn [take_while]. reflexivity.
    + (* at least two characters after the backslash: \x.. or octal *)
      replace (match simple_escape c with Some v0 => _ | None => _ end) with
        (if zascii c =? 120
         then match digits_value hex_digit 16 (r1 :: rr) with Some n => if n <? 128 then Some (V n false) else None | None => None end
         else if (List.length (c :: r1 :: rr) <=? 3)%nat
              then match digits_value oct_digit 8 (c :: r1 :: rr) with Some n => if n <? 128 then Some (V n false) else None | None => None end
              else None) by (destruct (simple_escape c); reflexivity).
      destruct (zascii c =? 120) eqn:Ex.
      * (* hexadecimal escape *)
        destruct (digits_value hex_digit 16 (r1 :: rr)) as [n|] eqn:D; [|discriminate]. intros _.
        pose proof (digits_forall _ _ _ _ is_hexd hexdigit_is_hexd D) as F.
        cbn [app]. unfold lex_char. rewrite q39. change (is_ch 92 b) with (zascii b =? 92).
        rewrite Eb.
        replace (is_print c) with true by (unfold is_print; lia). cbn [andb].
        replace (is_octal c) with false by (unfold is_octal; lia).
        change (is_ch 120 c) with (zascii c =? 120). rewrite Ex.
        change (r1 :: rr ++ "'"%char :: rest) with ((r1 :: rr) ++ quote :: rest).
        rewrite (take_while_all is_hexd (r1 :: rr) _ (quote :: rest) F).
        -- reflexivity.
        -- right. split; [cbn [List.length app]; rewrite ?app_length; cbn [List.length]; lia|]. right. exists quote, rest. split; reflexivity.
      * (* octal escape: two or three digits *)
        destruct (List.length (c :: r1 :: rr) <=? 3)%nat eqn:Len; [|discriminate].
        destruct (digits_value oct_digit 8 (c :: r1 :: rr)) as [n|] eqn:D; [|discriminate]. intros _.
        pose proof (digits_forall _ _ _ _ is_octal octdigit_is_octal D) as F. inversion F as [|? ? Oc Fr]; subst.
        cbn [app]. unfold lex_char. rewrite q39. change (is_ch 92 b) with (zascii b =? 92).
        rewrite Eb.
        replace (is_print c) with true by (unfold is_print, is_octal in *; lia). cbn [andb]. rewrite Oc.
        rewrite (app_comm_cons rr (quote :: rest) r1).
        rewrite (take_while_all is_octal (r1 :: rr) 2 (quote :: rest) Fr).
        -- reflexivity.
        -- apply Nat.leb_le in Len. cbn [List.length] in Len. destruct rr as [|r2 rr]; [|destruct rr; [|cbn [List.length] in Len; lia]].
           ++ right. split; [cbn; lia|]. right. exists quote, rest. split; reflexivity.
           ++ left. reflexivity.
Qed.

Lemma lexable_char s v : char_sem s = Some v -> lexable (Tok KChar s).
Proof.
  intros H. split.
  2: { unfold text_of. cbn [tkind]. do 2 eexists. split; reflexivity. }
  intros rest _. unfold text_of. cbn [tkind tspell].
  unfold tokenize_one, lexer_candidates. cbn [first_candidate candidate String.eqb Ascii.eqb Bool.eqb app].
  rewrite <- app_assoc. cbn [app].
  assert (LN : forall X, lex_number (quote :: X) = None) by reflexivity. rewrite LN.
  rewrite (lex_char_ok s v rest H). rewrite sol_los. reflexivity.
Qed.

(* ------------------------------------------------------------------ expressions *)
Fixpoint names_ok (e : expr) : bool :=
  match e with
  | EId n | EDefined n _ => ident_ok n
  | ELit _ _ | EChar _ => true
  | EParen x | EUn _ x => names_ok x
  | EBin _ a b => names_ok a && names_ok b
  | ECond c a b => names_ok c && names_ok a && names_ok b
  end.

Lemma lexable_wrap (need : nat) x ts : Forall lexable ts ->
  Forall lexable (if (expr_level x <? need)%nat then lpar :: ts ++ [rpar] else ts).
Proof.
  intros H. destruct (expr_level x <? need)%nat; [|exact H].
  constructor; [apply lexable_lpar|]. apply Forall_app. split; [exact H|]. constructor; [apply lexable_rpar|constructor].
Qed.

Lemma lexable_raw e : forall u, static e = Some u -> names_ok e = true -> Forall lexable (tokens_raw dt_source e).
Proof.
  induction e as [body sfx|s|name|name paren|x IHx|o x IHx|o a IHa b IHb|c IHc a IHa b IHb]; intros u; cbn [static names_ok tokens_raw].
  - destruct (lit_sem body sfx) as [v|] eqn:L; [|discriminate]. intros _ _.
    constructor; [exact (lexable_literal _ _ _ L)|constructor].
  - destruct (char_sem s) as [v|] eqn:L; [|discriminate]. intros _ _.
    constructor; [exact (lexable_char _ _ L)|constructor].
  - intros _ H. constructor; [exact (lexable_ident _ H)|constructor].
  - intros _ H. unfold dt_source. assert (D : lexable (Tok KId "defined")) by (apply lexable_ident; reflexivity).
    destruct paren; repeat (constructor; try assumption); try apply lexable_lpar; try apply lexable_rpar; apply lexable_ident; exact H.
  - intros S N. constructor; [apply lexable_lpar|]. apply Forall_app. split; [exact (IHx u S N)|].
    constructor; [apply lexable_rpar|constructor].
  - destruct (static x) as [ux|] eqn:Sx; [|discriminate]. intros _ N.
    constructor; [apply (lexable_uop o)|]. apply lexable_wrap. exact (IHx ux eq_refl N).
  - destruct (static a) as [ua|] eqn:Sa; [|discriminate]. destruct (static b) as [ub|] eqn:Sb; [|discriminate].
    intros _ N. apply andb_true_iff in N. destruct N as [Na Nb].
    apply Forall_app. split; [apply lexable_wrap; exact (IHa ua eq_refl Na)|].
    constructor; [apply (lexable_bop o)|]. apply lexable_wrap. exact (IHb ub eq_refl Nb).
  - destruct (static c) as [uc|] eqn:Sc; [|discriminate]. destruct (static a) as [ua|] eqn:Sa; [|discriminate].
    destruct (static b) as [ub|] eqn:Sb; [|discriminate].
    intros _ N. apply andb_true_iff in N. destruct N as [N Nb]. apply andb_true_iff in N. destruct N as [Nc Na].
    apply Forall_app. split; [apply lexable_wrap; exact (IHc uc eq_refl Nc)|].
    constructor; [apply lexable_qm|]. apply Forall_app. split; [exact (IHa ua eq_refl Na)|].
    constructor; [apply lexable_colon|]. apply lexable_wrap. exact (IHb ub eq_refl Nb).
Qed.

Theorem lex_tokens need e u : static e = Some u -> names_ok e = true ->
  tokenize (join (tokens dt_source need e)) = Some (tokens dt_source need e).
Proof.
  intros S N. apply tokenize_join_ok. unfold tokens. apply lexable_wrap. exact (lexable_raw e u S N).
Qed.

Lemma sem_static defs e : forall v, sem defs e = Some v -> exists u, static e = Some u.
Proof.
  induction e as [body sfx|s|name|name paren|x IHx|o x IHx|o a IHa b IHb|c IHc a IHa b IHb]; intros v; cbn [sem static].
  - intros H. rewrite H. cbn. eauto.
  - intros H. rewrite H. cbn. eauto.
  - eauto.
  - eauto.
  - apply IHx.
  - destruct (sem defs x) as [vx|] eqn:Sx; [|discriminate]. intros _. destruct (IHx vx eq_refl) as [ux ->]. eauto.
  - intros H.
    assert (G : exists va ub, sem defs a = Some va /\ static b = Some ub).
    { destruct o; cbn [sem] in H; destruct (sem defs a) as [va|] eqn:Sa; try discriminate H;
        first [ destruct (static b) as [ub|] eqn:Tb; [|discriminate H]; eauto
              | destruct (sem defs b) as [vb|] eqn:Sb; [|discriminate H]; destruct (IHb vb eq_refl) as [ub Tb]; eauto ]. }
    destruct G as (va & ub & Sa & Tb). destruct (IHa va Sa) as [ua ->]. rewrite Tb. eauto.
  - destruct (sem defs c) as [vc|] eqn:Sc; [|discriminate]. destruct (IHc vc eq_refl) as [uc ->].
    destruct (static a) as [ua|]; [|discriminate]. destruct (static b) as [ub|]; [|discriminate]. eauto.
Qed.

(* C02 from the TEXT of the directive: tokenize, expand, parse, evaluate = ISO C's value *)
Theorem text_to_value env e v :
  names_ok e = true -> ids_ok env e = true -> guard e = true -> sem (map fst env) e = Some v ->
  evaluate_text env (join (tokens dt_source 0 e)) = OVal v.
Proof.
  intros N I G S. destruct (sem_static _ _ _ S) as [u U].
  unfold evaluate_text. rewrite (lex_tokens 0 e u U N). apply evaluate_for_platform_ok; assumption.
Qed.
