(* C06 - the printed cells of a directory row are the sums over the files beneath it *)
From Coq Require Import ZArith String Bool Arith Lia Permutation List.
From CBI Require Import Lib.Data Lib.Res Model.C06 Spec.C06 Proofs.C06 Proofs.C06tree.
From CBI Require Import Proofs.C06letters.
Import ListNotations.
Local Open Scope Z_scope.

Lemma sum_if_ext_in P P' m : (forall kv, In kv m -> P (fst kv) = P' (fst kv)) -> sum_if P m = sum_if P' m.
Proof.
  induction m as [|kv m IH]; intros H; [reflexivity|]. rewrite !sum_if_cons, (H kv (or_introl eq_refl)),
    IH by (intros x Hx; apply H; right; exact Hx). reflexivity.
Qed.

Lemma below_any_exists Q prune q files :
  below_any Q prune q files = true <->
  exists f n, In f files /\ shown prune f = true /\ flink f = false /\ strict_prefix q (fpath f) = true /\ In n (fnodes f) /\ Q (nplat n) = true.
Proof.
  unfold below_any. rewrite existsb_exists. split.
  - intros (f & Hf & H). rewrite !andb_true_iff, negb_true_iff, existsb_exists in H. destruct H as (((A & B) & C) & (n & Hn & D)).
    exists f, n. auto 10.
  - intros (f & n & Hf & A & B & C & Hn & D). exists f. split; [exact Hf|].
    rewrite !andb_true_iff, negb_true_iff, existsb_exists. split; [auto|]. exists n. auto.
Qed.

Lemma strict_prefix_root q p : strict_prefix q p = true -> strict_prefix [] p = true.
Proof. destruct p; [rewrite strict_prefix_nil_r; discriminate | reflexivity]. Qed.

Lemma below_any_root Q prune q files : below_any Q prune q files = true -> below_any Q prune [] files = true.
Proof.
  rewrite !below_any_exists. intros (f & n & Hf & A & B & C & Hn & D). exists f, n.
  repeat (split; [assumption|]). split; [eapply strict_prefix_root; exact C|]. auto.
Qed.

(* every platform name that occurs in the analysis result belongs to the universe U *)
Definition names_in (U : list string) (files : list file) : Prop :=
  forall f n p, In f files -> In n (fnodes f) -> mem p (nplat n) = true -> mem p U = true.

Lemma mem_head p k : mem p (p :: k) = true.
Proof. unfold mem. cbn [existsb]. rewrite String.eqb_refl. reflexivity. Qed.

Lemma In_mem p U : In p U -> mem p U = true.
Proof. intros H. unfold mem. apply existsb_exists. exists p. split; [exact H | apply String.eqb_refl]. Qed.

Lemma nonempty_mem p k : negb (is_empty k) && mem p k = mem p k.
Proof. destruct k; reflexivity. Qed.

Theorem dir_row U prune files q n d : names_in U files ->
  (forall f, In f files -> fpath f <> []) ->
  (forall f, In f files -> fpath f <> q) -> lookup q (files_tree prune files) = Some n ->
  let rp := node_plats U (tsm (files_tree prune files)) in
  let r := mkrow rp U d n in
  rp = filter (fun p => below_any (mem p) prune [] files) U /\
  eff_plats rp U (tsm n) = match rp with [] => filter (fun p => below_any (mem p) prune q files) U | _ => rp end /\
  rtotal r = spec_dir (fun _ => true) prune q files /\
  rused r = spec_dir (fun k => negb (is_empty k)) prune q files /\
  rmask r = map (fun p => below_any (mem p) prune q files) rp /\
  rper r = map (fun p => spec_dir (mem p) prune q files) (eff_plats rp U (tsm n)).
Proof.
  intros HU Hne Hq Hn rp r.
  assert (Fig : forall P, sum_if P (tsm n) = spec_dir P prune q files).
  { intros P. pose proof (tree_dir_sums P prune q files Hq) as H. rewrite Hn in H. exact H. }
  destruct (tree_dir_platforms prune [] files U (files_tree prune files) Hne eq_refl) as [Rp RpM].
  destruct (tree_dir_platforms prune q files U n Hq Hn) as [Np NpM].
  fold rp in Rp, RpM. subst r. clearbody rp.
  assert (InU : forall p0, anyk (mem p0) (tsm n) = true -> mem p0 U = true /\ below_any (mem p0) prune q files = true).
  { intros p0 H. pose proof (tree_dir_any (mem p0) prune q files Hq) as T. rewrite Hn in T. cbn [nany] in T.
    rewrite T in H. split; [|exact H]. apply below_any_exists in H. destruct H as (f & x & Hf & _ & _ & _ & Hx & Hm).
    exact (HU f x p0 Hf Hx Hm). }
  split; [exact Rp|]. split; [unfold eff_plats; rewrite Np; reflexivity|].
  split; [apply (Fig (fun _ => true))|]. split; [|split].
  - cbn [mkrow rused]. rewrite <- Fig. apply sum_if_ext_in. intros [k v] Hkv. cbn [fst].
    destruct k as [|p0 k]; [reflexivity|]. cbn [is_empty negb andb existsb].
    assert (A : anyk (mem p0) (tsm n) = true).
    { unfold anyk. apply existsb_exists. exists (p0 :: k, v). split; [exact Hkv | apply mem_head]. }
    destruct (InU p0 A) as [B C].
    assert (M : mem p0 (eff_plats rp U (tsm n)) = true).
    { unfold eff_plats. destruct rp as [|x rp'] eqn:Erp.
      - rewrite NpM, B, C. reflexivity.
      - rewrite RpM, B, (below_any_root _ _ _ _ C). reflexivity. }
    rewrite M. reflexivity.
  - cbn [mkrow rmask]. apply map_ext_in. intros p Hp. rewrite NpM.
    rewrite Rp in Hp. apply filter_In in Hp. destruct Hp as [Hp _]. rewrite (In_mem p U Hp). reflexivity.
  - cbn [mkrow rper]. apply map_ext. intros p. rewrite <- Fig. apply sum_if_ext_in. intros kv _. apply nonempty_mem.
Qed.
