(* C06 - the printed cells of a regular file's row; the percentages of the summary add up to 100 *)
From Coq Require Import ZArith QArith String Bool Arith Lia Permutation List.
From CBI Require Import Lib.Data Lib.Res Model.C06 Spec.C06 Proofs.C06 Proofs.C06tree Proofs.C06more Proofs.C06letters Proofs.C06rowsx.
Import ListNotations.
Local Open Scope Z_scope.

Theorem file_row U prune files f n d : names_in U files ->
  (forall g, In g files -> fpath g <> []) ->
  In f files -> shown prune f = true -> flink f = false -> tsm n = file_setmap f ->
  let rp := node_plats U (tsm (files_tree prune files)) in
  let r := mkrow rp U d n in
  rtotal r = nodes_sum (fun _ => true) (fnodes f) /\
  rused r = nodes_sum (fun k => negb (is_empty k)) (fnodes f) /\
  rmask r = map (fun p => existsb (fun x => mem p (nplat x)) (fnodes f)) rp /\
  rper r = map (fun p => nodes_sum (mem p) (fnodes f)) (eff_plats rp U (tsm n)).
Proof.
  intros HU Hne Hf Hs Hl Hn rp r.
  assert (Fig : forall P, sum_if P (tsm n) = nodes_sum P (fnodes f)) by (intros P; rewrite Hn; apply sum_if_file_setmap).
  assert (Any : forall Q, anyk Q (tsm n) = existsb (fun x => Q (nplat x)) (fnodes f)) by (intros Q; rewrite Hn; apply anyk_file_setmap).
  destruct (tree_dir_platforms prune [] files U (files_tree prune files) Hne eq_refl) as [Rp RpM].
  fold rp in Rp, RpM. subst r. clearbody rp.
  assert (Root : forall p0, anyk (mem p0) (tsm n) = true -> mem p0 U = true /\ below_any (mem p0) prune [] files = true).
  { intros p0 H. rewrite Any in H. pose proof H as H'. apply existsb_exists in H. destruct H as (x & Hx & Hm). split; [exact (HU f x p0 Hf Hx Hm)|].
    apply below_any_exists. exists f, x. repeat (split; [assumption|]). split; [|auto].
    destruct (fpath f) eqn:E; [exfalso; exact (Hne f Hf E) | reflexivity]. }
  assert (NpM : forall p, mem p (node_plats U (tsm n)) = mem p U && anyk (mem p) (tsm n)).
  { intros p. unfold node_plats. rewrite mem_filter. reflexivity. }
  split; [apply (Fig (fun _ => true))|]. split; [|split].
  - cbn [mkrow rused]. rewrite <- Fig. apply sum_if_ext_in. intros [k v] Hkv. cbn [fst].
    destruct k as [|p0 k]; [reflexivity|]. cbn [is_empty negb andb existsb].
    assert (A : anyk (mem p0) (tsm n) = true).
    { unfold anyk. apply existsb_exists. exists (p0 :: k, v). split; [exact Hkv | apply mem_head]. }
    destruct (Root p0 A) as [B C].
    assert (M : mem p0 (eff_plats rp U (tsm n)) = true).
    { unfold eff_plats. destruct rp as [|x rp'] eqn:Erp.
      - rewrite NpM, B, A. reflexivity.
      - rewrite RpM, B, C. reflexivity. }
    rewrite M. reflexivity.
  - cbn [mkrow rmask]. apply map_ext_in. intros p Hp. rewrite NpM, Any.
    rewrite Rp in Hp. apply filter_In in Hp. destruct Hp as [Hp _]. rewrite (In_mem p U Hp). reflexivity.
  - cbn [mkrow rper]. apply map_ext. intros p. rewrite <- Fig. apply sum_if_ext_in. intros kv _. apply nonempty_mem.
Qed.

(* ---------- the percentages of the summary add up to 100 ---------- *)
Local Open Scope Q_scope.
Definition percent (r : srow) : Q := inject_Z (scount r) / inject_Z (stotal r) * 100.
Definition qsum (l : list Q) : Q := fold_right Qplus 0 l.

Lemma qsum_percent t rows : Forall (fun r => stotal r = t) rows ->
  qsum (map percent rows) == inject_Z (fold_right (fun r b => (scount r + b)%Z) 0%Z rows) / inject_Z t * 100.
Proof.
  induction 1 as [|r rows Hr _ IH]; cbn [map qsum fold_right].
  - unfold Qdiv. rewrite Qmult_0_l, Qmult_0_l. reflexivity.
  - fold (qsum (map percent rows)). rewrite IH. unfold percent. rewrite Hr, inject_Z_plus. unfold Qdiv. ring.
Qed.

Theorem percent_sum files rows total : summary (get_setmap files) = Ok (rows, total) -> sloc files <> 0%Z ->
  (forall r, In r rows -> percent r == inject_Z (bucket (skey r) files) / inject_Z (sloc files) * 100) /\
  qsum (map percent rows) == 100.
Proof.
  intros H Hz. pose proof (summary_rows files rows total H) as (Ht & _ & Hrows & _ & _).
  apply summary_ok in H. destruct H as [Hr Htot]. split.
  - intros r Hin. rewrite Forall_forall in Hrows. destruct (Hrows r Hin) as [A B]. unfold percent. rewrite A, B. reflexivity.
  - rewrite (qsum_percent (sloc files)).
    + assert (S : fold_right (fun r b => (scount r + b)%Z) 0%Z rows = sloc files).
      { rewrite Hr, rows_count. rewrite (sum_if_perm _ _ _ (sort_len_perm _)). apply setmap_total. }
      rewrite S. field. intros E. apply Hz. unfold Qeq in E. cbn in E. lia.
    + eapply Forall_impl; [|exact Hrows]. intros r [_ B]. exact B.
Qed.

(* ---------- the three reports agree on the totals ---------- *)
Local Open Scope Z_scope.
Definition export_total (sel : entry -> list Z) (files : list file) : Z :=
  fold_right (fun f a => if counted f then Z.of_nat (List.length (sel (export_file f))) + a else a) 0 files.

Lemma sum_if_split P m : sm_total m = sum_if P m + sum_if (fun k => negb (P k)) m.
Proof.
  unfold sm_total. induction m as [|kv m IH]; [reflexivity|]. rewrite !sum_if_cons, IH. destruct (P (fst kv)); cbn [negb]; lia.
Qed.

Theorem reports_agree files : Forall file_ok files -> links_ok files -> (forall f, In f files -> fpath f <> []) ->
  let used := export_total eused files in
  let unused := export_total eunused files in
  sum_if (fun k => negb (is_empty k)) (get_setmap files) = used /\
  sum_if is_empty (get_setmap files) = unused /\
  sm_total (get_setmap files) = used + unused /\
  tsm (files_tree false files) = get_setmap files.
Proof.
  intros Hok Hl Hne used unused. destruct (partition files Hok) as [Hp _].
  assert (A : sum_if (fun k => negb (is_empty k)) (get_setmap files) = used) by (rewrite Hp; reflexivity).
  assert (B : sum_if is_empty (get_setmap files) = unused) by (rewrite Hp; reflexivity).
  split; [exact A|]. split; [exact B|]. split; [|apply root_setmap_exact; assumption].
  rewrite (sum_if_split is_empty), B. rewrite A. lia.
Qed.
