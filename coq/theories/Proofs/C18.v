(* C18 — lemmas about events: one per occurrence, the memo does not suppress, the form label,
   the rule for unrecognised directives, files parsed once. *)
From Coq Require Import Bool Arith ZArith Ascii String List Lia.
From CBI Require Import Lib.Res Lib.C18_str Model.C01 Spec.C01 Model.C04 Spec.C04 Model.C18 Spec.C18
                        Gen.C18_tables Spec.C18t Proofs.C01 Proofs.C04.
Import ListNotations.
Local Open Scope string_scope.
Local Open Scope list_scope.

(* ---------- one event per reached unresolved include, for every list of units ---------- *)
Lemma run_entries_sim fs (Hfs : fs_structured fs) fuel es : forall evs vis,
  run_entries_S fs fuel es = Ok (evs, vis) -> run_entries_M fs fuel es = Ok (evs, vis).
Proof.
  induction es as [|e es IH]; intros evs vis; cbn [run_entries_S run_entries_M]; [auto|].
  destruct (run_tu_S fs fuel e) as [p|x] eqn:E; [|discriminate].
  destruct (run_tu_sim fs Hfs fuel e p E) as (p' & -> & (H1 & _ & _ & H4 & _)).
  destruct (run_entries_S fs fuel es) as [[evs' fl']|x] eqn:E2; [|discriminate].
  rewrite (IH _ _ eq_refl). rewrite <- H1, <- H4. auto.
Qed.

(* ---------- a memoised failure does not suppress the warning ---------- *)
Lemma memo_sound_ok fs p : memo_sound fs p <-> memo_ok fs p.
Proof. split; intros H; exact H. Qed.

Lemma missing_include_step fs fuel cur tag s p angle name :
  memo_sound fs p ->
  include_target s p = Ok (angle, name) ->
  search fs (dirs p) (name, dirname cur, angle) = None ->
  exists p', exec_M fs fuel cur (AInclude tag s) p = Ok p' /\
    events p' = {| ev_file := cur; ev_tag := tag; ev_name := name; ev_angle := angle |} :: events p /\
    memo_sound fs p' /\ dirs p' = dirs p /\ defs p' = defs p /\ once p' = once p /\ assoc p' = assoc p.
Proof.
  intros Hm Ht Hs. rewrite exec_M_unfold, Ht.
  destruct (find_include fs (name, dirname cur, angle) p) as [p1 r] eqn:Ef.
  destruct (find_include_spec fs _ _ _ _ Hm Ef) as (-> & Hm1 & (H1 & H2 & H3 & H4 & H5)).
  rewrite Hs. eexists. split; [reflexivity|]. cbn.
  repeat split; try congruence. intros k r. cbn. apply Hm1.
Qed.

Lemma missing_include_times fs fuel cur tag s angle name n : forall p,
  memo_sound fs p ->
  include_target s p = Ok (angle, name) ->
  search fs (dirs p) (name, dirname cur, angle) = None ->
  exists p', exec_times fs fuel cur (AInclude tag s) n p = Ok p' /\
    events p' = repeat {| ev_file := cur; ev_tag := tag; ev_name := name; ev_angle := angle |} n ++ events p.
Proof.
  induction n as [|n IH]; intros p Hm Ht Hs; cbn [exec_times repeat app]; [eauto|].
  destruct (missing_include_step fs fuel cur tag s p angle name Hm Ht Hs) as (p1 & -> & He & Hm1 & Hd & Hdf & _).
  destruct (IH p1 Hm1) as (p' & -> & He').
  - unfold include_target in *. rewrite Hdf. exact Ht.
  - rewrite Hd. exact Hs.
  - eexists. split; [reflexivity|]. rewrite He', He.
    change (?e :: events p) with ([e] ++ events p). rewrite app_assoc. f_equal.
    rewrite <- repeat_cons. reflexivity.
Qed.

(* a look-up that has failed before is answered from the memo - and still warns *)
Lemma memoised_failure_warns fs fuel cur tag s p angle name :
  memo_sound fs p ->
  include_target s p = Ok (angle, name) ->
  lookup_memo (name, dirname cur, angle) (memo p) = Some None ->
  exists p', exec_M fs fuel cur (AInclude tag s) p = Ok p' /\
    memo p' = memo p /\
    events p' = {| ev_file := cur; ev_tag := tag; ev_name := name; ev_angle := angle |} :: events p.
Proof.
  intros Hm Ht Hl. rewrite exec_M_unfold, Ht. unfold find_include. rewrite Hl.
  eexists. split; [reflexivity|]. split; reflexivity.
Qed.

(* ---------- the label of an event is the form of the directive ---------- *)
Section SInv.
Variables ST ACT COND : Type.
Variable mark : nat -> ST -> ST.
Variable exec : ACT -> ST -> res ST.
Variable ev : COND -> ST -> res bool.
Variable Inv : ST -> Prop.
Variable ls0 : list (line ACT COND).
Hypothesis Hmark : forall id p, Inv p -> Inv (mark id p).
Hypothesis Hexec : forall id a p p', In (id, KPlain a) ls0 -> Inv p -> exec a p = Ok p' -> Inv p'.

Lemma sstep_inv l s s' : In l ls0 -> Inv (sp ST s) -> sstep ST ACT COND mark exec ev s l = Ok s' -> Inv (sp ST s').
Proof.
  destruct l as [id k]. intros Hin HI. unfold sstep.
  destruct k as [a|c|c| |].
  - destruct (live (sstk ST s)).
    + destruct (exec a (mark id (sp ST s))) as [p'|x] eqn:E; [|discriminate].
      intros H; inversion H; subst; cbn. eapply Hexec; [exact Hin|apply Hmark; exact HI|exact E].
    + intros H; inversion H; subst; exact HI.
  - destruct (live (sstk ST s)).
    + destruct (ev c (mark id (sp ST s))); [|discriminate]. intros H; inversion H; subst; cbn. apply Hmark; exact HI.
    + intros H; inversion H; subst; exact HI.
  - destruct (sstk ST s) as [|f r]; [discriminate|]. destruct (outer f).
    + destruct (taken f).
      * intros H; inversion H; subst; cbn. apply Hmark; exact HI.
      * destruct (ev c (mark id (sp ST s))); [|discriminate]. intros H; inversion H; subst; cbn. apply Hmark; exact HI.
    + intros H; inversion H; subst; exact HI.
  - destruct (sstk ST s) as [|f r]; [discriminate|]. destruct (outer f).
    + intros H; inversion H; subst; cbn. apply Hmark; exact HI.
    + intros H; inversion H; subst; exact HI.
  - destruct (sstk ST s) as [|f r]; [discriminate|].
    intros H; inversion H; subst; cbn. destruct (outer f); [apply Hmark|]; exact HI.
Qed.

Lemma ssteps_inv ls : incl ls ls0 -> forall s s', Inv (sp ST s) -> ssteps ST ACT COND mark exec ev s ls = Ok s' -> Inv (sp ST s').
Proof.
  induction ls as [|l ls IH]; intros Hi s s' HI; cbn [ssteps].
  - intros H; inversion H; subst; exact HI.
  - destruct (sstep ST ACT COND mark exec ev s l) as [s1|x] eqn:E; [|discriminate].
    apply IH; [intros y Hy; apply Hi; right; exact Hy|].
    eapply sstep_inv; [apply Hi; left; reflexivity|exact HI|exact E].
Qed.
End SInv.

Definition all_genuine (fs : fsys) (p : plat) : Prop := Forall (genuine fs) (events p).

Lemma run_S_genuine fs fuel f ls p p' :
  (forall id a q q', In (id, KPlain a) ls -> all_genuine fs q -> exec_S fs fuel f a q = Ok q' -> all_genuine fs q') ->
  all_genuine fs p ->
  run_S plat act cond (mark_in f) (exec_S fs fuel f) ev ls p = Ok p' -> all_genuine fs p'.
Proof.
  intros Hex HI. unfold run_S.
  destruct (ssteps plat act cond (mark_in f) (exec_S fs fuel f) ev {| sstk := []; sp := p |} ls) as [s|x] eqn:E; [|discriminate].
  intros H; inversion H; subst.
  eapply (ssteps_inv plat act cond (mark_in f) (exec_S fs fuel f) ev (all_genuine fs) ls); [| |apply incl_refl| |exact E].
  - intros id q Hq. exact Hq.
  - exact Hex.
  - exact HI.
Qed.

Lemma exec_S_genuine fs fuel : forall cur ls id a p p',
  fs_get fs cur = Some ls -> In (id, KPlain a) ls -> all_genuine fs p ->
  exec_S fs fuel cur a p = Ok p' -> all_genuine fs p'.
Proof.
  induction fuel as [fuel IH] using lt_wf_ind. intros cur ls id a p p' Hg Hin HI. rewrite exec_S_unfold.
  destruct a as [| |m v|m|tag s|].
  - intros H; inversion H; subst; exact HI.
  - intros H; inversion H; subst; exact HI.
  - destruct (lookup m (defs p)) as [v'|].
    + destruct (mval_eqb v v'); [|discriminate]. intros H; inversion H; subst; exact HI.
    + intros H; inversion H; subst; exact HI.
  - intros H; inversion H; subst; exact HI.
  - destruct (include_target s p) as [[angle name]|x] eqn:Et; [|discriminate].
    destruct (search fs (dirs p) (name, dirname cur, angle)) as [f|] eqn:Es.
    + destruct (mem_path f (once p)); [intros H; inversion H; subst; exact HI|].
      destruct fuel as [|n]; [discriminate|].
      destruct (fs_get fs f) as [ls'|] eqn:Eg; [|discriminate].
      apply run_S_genuine; [|exact HI].
      intros id' a' q q' Hin' Hq. apply (IH n (Nat.lt_succ_diag_r n) f ls' id' a' q q' Eg Hin' Hq).
    + intros H; inversion H; subst. constructor; [|exact HI].
      exists ls, id, s. cbn. split; [exact Hg|]. split; [exact Hin|].
      destruct s as [n|n|m]; cbn in Et |- *; [inversion Et; auto|inversion Et; auto|exact I].
  - intros H; inversion H; subst. destruct (mem_path cur (once p)); exact HI.
Qed.

Lemma run_file_S_genuine fs fuel f p p' :
  all_genuine fs p -> run_file_S fs fuel f p = Ok p' -> all_genuine fs p'.
Proof.
  unfold run_file_S. intros HI. destruct (fs_get fs f) as [ls|] eqn:Eg; [|discriminate].
  apply run_S_genuine; [|exact HI].
  intros id a q q' Hin Hq. apply (exec_S_genuine fs fuel f ls id a q q' Eg Hin Hq).
Qed.

Lemma forced_S_genuine fs fuel this incs : forall p p',
  all_genuine fs p -> forced_S fs fuel this incs p = Ok p' -> all_genuine fs p'.
Proof.
  induction incs as [|n r IH]; intros p p' HI; cbn [forced_S]; [intros H; inversion H; subst; exact HI|].
  destruct (search fs (dirs p) (n, this, false)) as [f|]; [|apply IH; exact HI].
  destruct (mem_path f (once p)); [apply IH; exact HI|].
  destruct (run_file_S fs fuel f p) as [p2|x] eqn:E; [|discriminate].
  apply IH. eapply run_file_S_genuine; [exact HI|exact E].
Qed.

Lemma run_tu_S_genuine fs fuel e p : run_tu_S fs fuel e = Ok p -> all_genuine fs p.
Proof.
  unfold run_tu_S. destruct (forced_S fs fuel (dirname (e_file e)) (e_incs e) (fresh e)) as [q|x] eqn:E; [|discriminate].
  apply run_file_S_genuine. eapply forced_S_genuine; [|exact E]. constructor.
Qed.

Lemma run_entries_S_genuine fs fuel es : forall evs vis,
  run_entries_S fs fuel es = Ok (evs, vis) -> Forall (genuine fs) evs.
Proof.
  induction es as [|e es IH]; intros evs vis; cbn [run_entries_S].
  - intros H; inversion H; subst; constructor.
  - destruct (run_tu_S fs fuel e) as [p|x] eqn:E; [|discriminate].
    destruct (run_entries_S fs fuel es) as [[evs' fl']|x] eqn:E2; [|discriminate].
    intros H; inversion H; subst. apply Forall_app. split; [|eapply IH; reflexivity].
    apply Forall_rev. exact (run_tu_S_genuine fs fuel e p E).
Qed.

(* ---------- unrecognised directives ---------- *)
Lemma warns_unknown_iff unh u :
  warns_unknown unh u = true <->
  exists t0 w name rest, u_toks u = t0 :: (w, name) :: rest /\ ~ In name unh.
Proof.
  unfold warns_unknown. destruct (u_toks u) as [|t0 [|[w name] rest]].
  - split; [discriminate|intros (? & ? & ? & ? & H & _); discriminate].
  - split; [discriminate|intros (? & ? & ? & ? & H & _); discriminate].
  - rewrite negb_true_iff. unfold mem_str. split.
    + intros H. exists t0, w, name, rest. split; [reflexivity|]. intros Hin.
      assert (existsb (String.eqb name) unh = true); [|congruence].
      apply existsb_exists. exists name. split; [exact Hin|apply String.eqb_refl].
    + intros (t0' & w' & name' & rest' & Heq & Hn). inversion Heq; subst.
      destruct (existsb (String.eqb name') unh) eqn:E; [|reflexivity].
      apply existsb_exists in E. destruct E as (x & Hx & Hxe). apply String.eqb_eq in Hxe. subst. contradiction.
Qed.

Lemma parse_warnings_spec f cf :
  map sev_of_wrec (parse_warnings unhandled f cf) =
  map (fun u => SUnknownDirective f (u_line u) (u_col u) (spelling_of (u_toks u))) (filter reportable (cf_unk cf)).
Proof. unfold parse_warnings. rewrite map_map. reflexivity. Qed.

(* every file is parsed once, however often it is reached *)
Lemma mem_path_In p l : mem_path p l = true <-> In p l.
Proof.
  unfold mem_path. rewrite existsb_exists. split.
  - intros (x & Hx & He). apply path_eqb_eq in He. subst. exact Hx.
  - intros H. exists p. split; [exact H|apply path_eqb_refl].
Qed.
Lemma dedup_spec l : forall seen,
  NoDup (dedup seen l) /\ forall p, In p (dedup seen l) <-> (In p l /\ ~ In p seen).
Proof.
  induction l as [|x l IH]; intros seen; cbn [dedup].
  - split; [constructor|]. intros p; split; [intros []|intros [[] _]].
  - destruct (mem_path x seen) eqn:E.
    + destruct (IH seen) as [H1 H2]. split; [exact H1|]. intros p. rewrite H2. apply mem_path_In in E.
      split; [intros [A B]; split; [right; exact A|exact B]|].
      intros [[A|A] B]; [subst; contradiction|split; assumption].
    + destruct (IH (x :: seen)) as [H1 H2]. assert (Hx : ~ In x seen).
      { intros H. apply mem_path_In in H. congruence. }
      split.
      * constructor; [|exact H1]. rewrite H2. intros [_ B]. apply B. left. reflexivity.
      * intros p. cbn [In]. rewrite H2. split.
        -- intros [A|[A B]]; [subst; split; [left; reflexivity|exact Hx]|].
           split; [right; exact A|]. intros C. apply B. right. exact C.
        -- intros [[A|A] B]; [left; exact A|].
           destruct (list_eq_dec string_dec x p) as [D|D]; [left; exact D|].
           right. split; [exact A|]. intros [C|C]; [contradiction|contradiction].
Qed.

Lemma parsed_once cb es vis :
  NoDup (parsed_files cb es vis) /\
  forall f, In f (parsed_files cb es vis) <-> In f (cb ++ map e_file es ++ vis).
Proof.
  unfold parsed_files. destruct (dedup_spec (cb ++ map e_file es ++ vis) []) as [H1 H2].
  split; [exact H1|]. intros f. rewrite H2. split; [intros [A _]; exact A|intros A; split; [exact A|intros []]].
Qed.
