(* Proofs for C12, part 2: on every command line inside the specification's
   scanner, the argparse-level model (classification, consumption loop) computes
   exactly the declared effect of the items. *)
From Coq Require Import ZArith Bool Ascii String Arith Lia List.
From CBI Require Import Lib.Data Lib.Res Model.C12 Spec.C12 Proofs.C12.
Import ListNotations.
Local Open Scope string_scope.
Local Open Scope list_scope.

(* ------------------------------------------------------------------ strings *)
Lemma append_nil_r s : (s ++ "")%string = s.
Proof. induction s; cbn; congruence. Qed.
Lemma head2_tail2 t : (head2 t ++ tail2 t)%string = t.
Proof. destruct t as [|a [|b r]]; cbn; try reflexivity. Qed.
Lemma split_first_join c : forall s a b, split_first c s = Some (a, b) -> s = (a ++ String c b)%string.
Proof.
  induction s as [|d s IH]; intros a b H; cbn in H; [discriminate|].
  destruct (Ascii.eqb_spec c d) as [->|Hne].
  - injection H as <- <-. reflexivity.
  - destruct (split_first c s) as [[a' b']|] eqn:Hs; [|discriminate].
    injection H as <- <-. cbn. rewrite (IH a' b' eq_refl). reflexivity.
Qed.
Lemma split_first_app c : forall f v, has_char c f = false -> split_first c (f ++ String c v) = Some (f, v).
Proof.
  induction f as [|d f IH]; intros v H.
  - cbn. rewrite Ascii.eqb_refl. reflexivity.
  - change (has_char c (String d f)) with (Ascii.eqb c d || has_char c f) in H.
    apply orb_false_iff in H. destruct H as [Hd Hf].
    cbn. rewrite Hd. rewrite (IH v Hf). reflexivity.
Qed.
Lemma starts_dash_nonempty s : starts_dash s = true -> exists c r, s = String c r.
Proof. destruct s; [discriminate|eauto]. Qed.
Lemma not_dashdash_of_pos s : starts_dash s = false -> String.eqb s "--" = false.
Proof. intros H. destruct (String.eqb_spec s "--"); [subst; discriminate|reflexivity]. Qed.

(* ------------------------------------------------------------------ scanner and rendering *)
Lemma render_cons it its : render (it :: its) = render_item it ++ render its.
Proof. reflexivity. Qed.

Lemma scan_render rs : forall n toks items, List.length toks <= n -> scan rs toks = Some items -> render items = toks.
Proof.
  induction n as [|n IH]; intros toks items Hn H.
  - destruct toks; [|cbn in Hn; lia]. injection H as <-. reflexivity.
  - destruct toks as [|t r]; [injection H as <-; reflexivity|].
    cbn in Hn. cbn [scan] in H.
    destruct (negb (starts_dash t)).
    { destruct (scan rs r) as [its|] eqn:Hr; [|discriminate]. injection H as <-.
      rewrite render_cons; cbn [render_item app]. rewrite (IH r its); [reflexivity|lia|exact Hr]. }
    destruct (find_opt rs t) as [ru|] eqn:Hf.
    { destruct (nargs0 (r_act ru) || nargs_opt (r_act ru)).
      - destruct (scan rs r) as [its|] eqn:Hr; [|discriminate]. injection H as <-.
        rewrite render_cons; cbn [render_item app]. rewrite (IH r its); [reflexivity|lia|exact Hr].
      - destruct r as [|v r']; [discriminate|].
        destruct (scan rs r') as [its|] eqn:Hr; [|discriminate]. injection H as <-.
        rewrite render_cons; cbn [render_item app]. rewrite (IH r' its); [reflexivity|cbn in Hn; lia|exact Hr]. }
    destruct (match split_first "="%char t with
              | Some (f, v) => match find_opt rs f with
                               | Some ru => if nargs0 (r_act ru) then None else Some (IEq f v)
                               | None => None
                               end
              | None => None
              end) as [it|] eqn:He.
    { destruct (scan rs r) as [its|] eqn:Hr; [|discriminate]. injection H as <-.
      destruct (split_first "="%char t) as [[f v]|] eqn:Hs; [|discriminate].
      destruct (find_opt rs f) as [ru|]; [|discriminate].
      destruct (nargs0 (r_act ru)); [discriminate|]. injection He as <-.
      rewrite render_cons; cbn [render_item app]. rewrite (IH r its); [|lia|exact Hr]. rewrite (split_first_join _ _ _ _ Hs). reflexivity. }
    destruct (find_opt rs (head2 t)) as [ru|].
    { destruct (nargs0 (r_act ru)); [discriminate|].
      destruct (scan rs r) as [its|] eqn:Hr; [|discriminate]. injection H as <-.
      rewrite render_cons; cbn [render_item app]. rewrite (IH r its); [|lia|exact Hr]. rewrite head2_tail2. reflexivity. }
    destruct (scan rs r) as [its|] eqn:Hr; [|discriminate]. injection H as <-.
    rewrite render_cons; cbn [render_item app]. rewrite (IH r its); [reflexivity|lia|exact Hr].
Qed.

(* ------------------------------------------------------------------ classification of well-formed items *)
Lemma is1_find rs f : is1 rs f = true -> exists r, find_opt rs f = Some r /\ nargs0 (r_act r) = false.
Proof. unfold is1. destruct (find_opt rs f) as [r|]; [|discriminate]. intros H. exists r. split; [reflexivity|]. apply negb_true_iff. exact H. Qed.
Lemma is0_find rs f : is0 rs f = true ->
  exists r, find_opt rs f = Some r /\ (nargs0 (r_act r) = true \/ (nargs0 (r_act r) = false /\ nargs_opt (r_act r) = true)).
Proof.
  unfold is0. destruct (find_opt rs f) as [r|]; [|discriminate]. intros H. exists r. split; [reflexivity|].
  destruct (nargs0 (r_act r)); [auto|]. right. auto.
Qed.
Lemma isreq_find rs f : isreq rs f = true ->
  exists r, find_opt rs f = Some r /\ nargs0 (r_act r) = false /\ nargs_opt (r_act r) = false.
Proof.
  unfold isreq. destruct (find_opt rs f) as [r|]; [|discriminate]. intros H. exists r. split; [reflexivity|].
  apply andb_prop in H. destruct H as [H1 H2]. split; apply negb_true_iff; assumption.
Qed.

Lemma classify_exact rs f r : starts_dash f = true -> find_opt rs f = Some r -> classify rs f = COpt r f None.
Proof.
  intros Hd Hf. destruct (starts_dash_nonempty _ Hd) as [c [s ->]].
  unfold classify. cbn [String.eqb]. rewrite Hd. cbn [negb]. rewrite Hf. reflexivity.
Qed.
Lemma classify_pos rs s : starts_dash s = false -> classify rs s = CPos.
Proof.
  intros Hd. unfold classify. destruct (String.eqb s ""); [reflexivity|]. rewrite Hd. reflexivity.
Qed.

Lemma classify_eq rs f v :
  wf_item rs (IEq f v) = true ->
  exists r, find_opt rs f = Some r /\ nargs0 (r_act r) = false /\
            classify rs (f ++ "=" ++ v) = COpt r f (Some v) /\ String.eqb (f ++ "=" ++ v) "--" = false.
Proof.
  cbn [wf_item]. intros H.
  apply andb_prop in H. destruct H as [H Hlen].
  apply andb_prop in H. destruct H as [H Hdd].
  apply andb_prop in H. destruct H as [H Hno].
  apply andb_prop in H. destruct H as [H Heq].
  apply andb_prop in H. destruct H as [H1 Hd].
  destruct (is1_find _ _ H1) as [r [Hf Hn]]. exists r. split; [exact Hf|]. split; [exact Hn|].
  split; [|apply negb_true_iff; exact Hdd].
  apply negb_true_iff in Heq. apply negb_true_iff in Hlen.
  destruct (starts_dash_nonempty _ Hd) as [c [s ->]].
  unfold classify.
  change ((String c s ++ "=" ++ v)%string) with (String c (s ++ "=" ++ v)%string) in *.
  cbn [String.eqb]. cbn [starts_dash] in *. rewrite Hd. cbn [negb].
  destruct (find_opt rs (String c (s ++ "=" ++ v))); [discriminate|].
  rewrite Hlen.
  change (String c (s ++ "=" ++ v)%string) with ((String c s ++ String "="%char v)%string).
  rewrite (split_first_app _ _ _ Heq). rewrite Hf. reflexivity.
Qed.

Lemma classify_att rs f v :
  wf_item rs (IAtt f v) = true ->
  exists r, find_opt rs f = Some r /\ nargs0 (r_act r) = false /\
            classify rs (f ++ v) = COpt r f (Some v) /\ String.eqb (f ++ v) "--" = false.
Proof.
  cbn [wf_item]. intros H.
  apply andb_prop in H. destruct H as [H Htup].
  apply andb_prop in H. destruct H as [H Hsd].
  apply andb_prop in H. destruct H as [H Hsplit].
  apply andb_prop in H. destruct H as [H Hno].
  apply andb_prop in H. destruct H as [H Hlen].
  apply andb_prop in H. destruct H as [H Hdd].
  apply andb_prop in H. destruct H as [H1 Hd].
  destruct (is1_find _ _ H1) as [r [Hf Hn]]. exists r. split; [exact Hf|]. split; [exact Hn|].
  split; [|apply negb_true_iff; exact Hdd].
  apply negb_true_iff in Hlen. apply negb_true_iff in Hsd.
  destruct (starts_dash_nonempty _ Hd) as [c [s ->]].
  unfold classify.
  change ((String c s ++ v)%string) with (String c (s ++ v)%string) in *.
  cbn [String.eqb]. cbn [starts_dash] in *. rewrite Hd. cbn [negb].
  destruct (find_opt rs (String c (s ++ v))); [discriminate|].
  rewrite Hlen.
  assert (Hbe : match split_first "="%char (String c (s ++ v)) with
                | Some (o, e) => match find_opt rs o with Some r0 => Some (COpt r0 o (Some e)) | None => None end
                | None => None
                end = None).
  { destruct (split_first "="%char (String c (s ++ v))) as [[o e]|]; [|reflexivity].
    destruct (find_opt rs o); [discriminate|reflexivity]. }
  rewrite Hbe. rewrite Hsd.
  destruct (tuples (all_flags rs) (String c (s ++ v))) as [|[os [e|]] [|? ?]]; try discriminate.
  apply andb_prop in Htup. destruct Htup as [Ho He].
  apply String.eqb_eq in Ho. apply String.eqb_eq in He. subst os e. rewrite Hf. reflexivity.
Qed.

Lemma classify_unk rs t :
  wf_item rs (IUnk t) = true ->
  (classify rs t = CPos \/ classify rs t = CUnk) /\ String.eqb t "--" = false.
Proof.
  cbn [wf_item]. intros H.
  apply andb_prop in H. destruct H as [H Htup].
  apply andb_prop in H. destruct H as [H Hsplit].
  apply andb_prop in H. destruct H as [H Hno].
  apply andb_prop in H. destruct H as [Hd Hdd].
  split; [|apply negb_true_iff; exact Hdd].
  unfold classify. destruct (String.eqb t ""); [auto|]. rewrite Hd. cbn [negb].
  destruct (find_opt rs t); [discriminate|].
  destruct (Nat.eqb (String.length t) 1); [auto|]. cbn [orb] in Htup.
  assert (Hbe : match split_first "="%char t with
                | Some (o, e) => match find_opt rs o with Some r0 => Some (COpt r0 o (Some e)) | None => None end
                | None => None
                end = None).
  { destruct (split_first "="%char t) as [[o e]|]; [|reflexivity].
    destruct (find_opt rs o); [discriminate|reflexivity]. }
  rewrite Hbe.
  assert (Ht : (if second_dash t then [] else tuples (all_flags rs) t) = []).
  { destruct (second_dash t); [reflexivity|]. cbn [orb] in Htup.
    destruct (tuples (all_flags rs) t); [reflexivity|discriminate]. }
  rewrite Ht.
  destruct (is_negnum t && negb (existsb is_negnum (all_flags rs))); [auto|].
  destruct (has_char " "%char t); auto.
Qed.

(* ------------------------------------------------------------------ the loop on rendered items *)
Definition no_ambig (l : list (string * cls)) : bool :=
  negb (existsb (fun tc => match snd tc with CAmbig => true | _ => false end) l).

Lemma classify_all_cons rs a r : String.eqb a "--" = false ->
  classify_all rs (a :: r) = (a, classify rs a) :: classify_all rs r.
Proof. intros H. cbn. rewrite H. reflexivity. Qed.

Lemma consume_value rs r f v nx n : nargs0 (r_act r) = false ->
  consume false rs r f (Some v) nx n = inr (apply_rule false r f v n, false).
Proof.
  intros Hn. unfold consume. destruct v as [|c e]; [rewrite Hn; reflexivity|].
  cbn [cluster]. rewrite Hn. reflexivity.
Qed.

Lemma loop_items rs : forall items n,
  forallb (wf_item rs) items = true ->
  no_ambig (classify_all rs (render items)) = true /\
  loop false rs (classify_all rs (render items)) n = (fold_left (fun n it => item_effect rs it n) items n, false).
Proof.
  induction items as [|it items IH]; intros n Hwf.
  - split; reflexivity.
  - cbn [forallb] in Hwf. apply andb_prop in Hwf. destruct Hwf as [Hit Hrest].
    cbn [fold_left]. unfold render. cbn [flat_map]. fold (render items).
    destruct it as [f|f v|f v|f v|s|u]; cbn [render_item app].
    + (* I0 *)
      cbn [wf_item] in Hit. apply andb_prop in Hit. destruct Hit as [Hit Hdd].
      apply andb_prop in Hit. destruct Hit as [H0 Hd]. apply negb_true_iff in Hdd.
      destruct (is0_find _ _ H0) as [r [Hf Hn]].
      rewrite (classify_all_cons _ _ _ Hdd), (classify_exact _ _ _ Hd Hf).
      destruct (IH (item_effect rs (I0 f) n) Hrest) as [Ha Hl]. split.
      * unfold no_ambig in *. cbn. exact Ha.
      * cbn [item_effect] in Hl |- *. rewrite Hf in Hl |- *.
        cbn [loop]. unfold consume. cbn [cluster].
        destruct Hn as [Hn|[Hn Ho]]; rewrite Hn.
        -- exact Hl.
        -- assert (Hsame : forall v, apply_rule false r f v n = apply_rule false r f "" n).
           { intros v. unfold apply_rule. destruct (r_act r); try discriminate; reflexivity. }
           destruct (classify_all rs (render items)) as [|[v c] r'] eqn:E; cbn [next_pos].
           ++ rewrite Ho. exact Hl.
           ++ destruct c; try (rewrite Ho; exact Hl).
              rewrite Hsame. cbn [loop] in Hl. exact Hl.
    + (* IEq *)
      destruct (classify_eq _ _ _ Hit) as [r [Hf [Hn [Hc Hdd]]]].
      rewrite (classify_all_cons _ _ _ Hdd), Hc.
      destruct (IH (item_effect rs (IEq f v) n) Hrest) as [Ha Hl]. split.
      * unfold no_ambig in *. cbn. exact Ha.
      * cbn [loop]. rewrite (consume_value _ _ _ _ _ _ Hn).
        cbn [item_effect] in Hl |- *. rewrite Hf in Hl |- *. exact Hl.
    + (* ISep *)
      cbn [wf_item] in Hit. apply andb_prop in Hit. destruct Hit as [Hit Hv].
      apply andb_prop in Hit. destruct Hit as [Hit Hdd].
      apply andb_prop in Hit. destruct Hit as [H1 Hd]. apply negb_true_iff in Hdd. apply negb_true_iff in Hv.
      destruct (isreq_find _ _ H1) as [r [Hf [Hn Ho]]].
      rewrite (classify_all_cons _ _ _ Hdd), (classify_exact _ _ _ Hd Hf).
      rewrite (classify_all_cons _ _ _ (not_dashdash_of_pos _ Hv)), (classify_pos _ _ Hv).
      destruct (IH (item_effect rs (ISep f v) n) Hrest) as [Ha Hl]. split.
      * unfold no_ambig in *. cbn. exact Ha.
      * cbn [loop next_pos]. unfold consume. cbn [cluster]. rewrite Hn.
        cbn [item_effect] in Hl |- *. rewrite Hf in Hl |- *. exact Hl.
    + (* IAtt *)
      destruct (classify_att _ _ _ Hit) as [r [Hf [Hn [Hc Hdd]]]].
      rewrite (classify_all_cons _ _ _ Hdd), Hc.
      destruct (IH (item_effect rs (IAtt f v) n) Hrest) as [Ha Hl]. split.
      * unfold no_ambig in *. cbn. exact Ha.
      * cbn [loop]. rewrite (consume_value _ _ _ _ _ _ Hn).
        cbn [item_effect] in Hl |- *. rewrite Hf in Hl |- *. exact Hl.
    + (* IPos *)
      cbn [wf_item] in Hit. apply negb_true_iff in Hit.
      rewrite (classify_all_cons _ _ _ (not_dashdash_of_pos _ Hit)), (classify_pos _ _ Hit).
      destruct (IH (item_effect rs (IPos s) n) Hrest) as [Ha Hl]. split.
      * unfold no_ambig in *. cbn. exact Ha.
      * cbn [loop]. exact Hl.
    + (* IUnk *)
      destruct (classify_unk _ _ Hit) as [Hc Hdd].
      rewrite (classify_all_cons _ _ _ Hdd).
      destruct (IH (item_effect rs (IUnk u) n) Hrest) as [Ha Hl].
      destruct Hc as [Hc|Hc]; rewrite Hc; (split; [unfold no_ambig in *; cbn; exact Ha|cbn [loop]; exact Hl]).
Qed.

(* C12_flags_exact: M = S on every command line S reads *)
Theorem flags_exact c argv r : spec_parse c argv = Some r -> parse_args false c argv = inr r.
Proof.
  unfold spec_parse, parse_args, parse_ns.
  destruct (conflict [] (generic_rules ++ c_rules c)); [discriminate|].
  destruct (scan (generic_rules ++ c_rules c) (argv ++ c_opts c)) as [items|] eqn:Hs; [|discriminate].
  destruct (forallb (wf_item (generic_rules ++ c_rules c)) items) eqn:Hwf; [|discriminate].
  intros H. injection H as <-.
  rewrite <- (scan_render _ _ _ _ (le_n _) Hs).
  destruct (loop_items (generic_rules ++ c_rules c) items (init_ns c) Hwf) as [Ha Hl].
  unfold no_ambig in Ha. apply negb_true_iff in Ha. rewrite Ha. rewrite Hl. rewrite app_nil_r. reflexivity.
Qed.
