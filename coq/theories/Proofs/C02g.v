(* C02 proofs, part 4 (the unbounded statements):
   - grammar soundness: for EVERY expression tree e, M's precedence-climbing parser run on the
     token sequence that ISO C's grammar assigns to e (minimal parentheses, plus any explicit
     ones) computes the value of e bottom-up with M's operators - with the fuel that evaluate()
     really uses (no out-of-fuel);
   - evaluation: that bottom-up value is the ISO C value [sem e] whenever ISO C defines one
     (short circuit included), outside the known finding class of literals. *)
From Coq Require Import ZArith Bool String Ascii List Lia ZifyBool Arith.
From CBI Require Import Lib.Data Gen.C02_tables Model.C02 Spec.C02 Proofs.C02 Proofs.C02s Proofs.C02l.
Import ListNotations.
Local Open Scope string_scope.
Local Open Scope list_scope.

(* ------------------------------------------------------------------ M's value of a tree *)
Section Meval.
Variable defs : list string.

Definition of_sum (r : err + val) : option val := match r with inr v => Some v | inl _ => None end.

Fixpoint meval (e : expr) : option val :=
  match e with
  | ELit body sfx => of_sum (lit_value (body ++ sfx)%string)
  | EChar s => of_sum (char_value s)
  | EId _ => Some zero
  | EDefined n _ => Some (truth (existsb (String.eqb n) defs))
  | EParen x => meval x
  | EUn o x => obind (meval x) (mun o)
  | EBin o a b => obind (meval a) (fun x => obind (meval b) (fun y => mbin o x y))
  | ECond c a b =>
      obind (meval c) (fun vc => obind (meval a) (fun va => obind (meval b) (fun vb => Some (cond_value vc va vb))))
  end.
End Meval.

(* ------------------------------------------------------------------ what may follow an expression *)
Definition stop_level (need : nat) : nat := if Nat.eqb need 1 then 1%nat else S need.

(* [follow need rest]: rest does not continue an expression written at grammar level need *)
Definition follow (need : nat) (rest : list token) : Prop :=
  starts_call rest = false /\
  forall p, (stop_level need <= p)%nat -> forall f v, loop (S f) p v rest = POk v rest.

Lemma follow_mono n1 n2 rest : (n1 <= n2)%nat -> follow n1 rest -> follow n2 rest.
Proof.
  intros L [A B]. split; [exact A|]. intros p Hp. apply B.
  unfold stop_level in *. destruct (Nat.eqb_spec n1 1), (Nat.eqb_spec n2 1); lia.
Qed.

Lemma follow_nil need : follow need [].
Proof. split; [reflexivity|]. intros. reflexivity. Qed.
Lemma follow_rpar need r : follow need (rpar :: r).
Proof. split; [reflexivity|]. intros. apply rpar_stops. Qed.
Lemma follow_colon need r : follow need (colon :: r).
Proof. split; [reflexivity|]. intros. apply colon_stops. Qed.
Lemma follow_bop o r : follow (level o) (bop o :: r).
Proof.
  split; [reflexivity|]. intros p Hp f v. rewrite loop_bop.
  replace (p <=? level o)%nat with false; [reflexivity|].
  symmetry. apply Nat.leb_gt. unfold stop_level in Hp. destruct (Nat.eqb_spec (level o) 1); [destruct o; discriminate|lia].
Qed.
Lemma follow_qm r : follow 2 (qm :: r).
Proof.
  split; [reflexivity|]. intros p Hp f v. rewrite loop_qm.
  replace (p <=? 1)%nat with false; [reflexivity|]. symmetry. apply Nat.leb_gt. cbn in Hp. lia.
Qed.

Lemma follow_stops need rest p : follow need rest -> (stop_level need <= p)%nat ->
  forall f, (1 <= f)%nat -> forall v, loop f p v rest = POk v rest.
Proof. intros [_ B] Hp f Hf v. destruct f as [|f]; [lia|]. apply B. exact Hp. Qed.

(* no binary operator has level 12 or more: a loop at level 12 always stops *)
Lemma table_below_12 s q a : lookup s binary_operators = Some (q, a) -> (q < 12)%nat.
Proof.
  intros H. destruct tables_are_C as (T1 & T2 & _ & T4 & _ & T6).
  destruct (T4 s (q, a) H) as [->|[o ->]].
  - rewrite T2 in H. inversion H. lia.
  - rewrite T1 in H. inversion H. subst. apply T6.
Qed.
Lemma loop12_stops f v rest : loop (S f) 12 v rest = POk v rest.
Proof.
  destruct rest as [|t r]; [reflexivity|]. cbn [loop].
  destruct (lookup (tspell t) binary_operators) as [[q a]|] eqn:L; [|reflexivity].
  apply table_below_12 in L. replace (12 <=? q)%nat with false by (symmetry; apply Nat.leb_gt; lia). reflexivity.
Qed.

(* ------------------------------------------------------------------ the parser follows the grammar *)
Section Grammar.
Variable defs : list string.
Notation dt := (dt_expanded defs).
Notation toks := (tokens dt).
Notation raw := (tokens_raw dt).

Lemma tokens_unfold need e :
  toks need e = if (expr_level e <? need)%nat then lpar :: raw e ++ [rpar] else raw e.
Proof. reflexivity. Qed.

Lemma raw_un o x : raw (EUn o x) = uop o :: toks 12 x.
Proof. reflexivity. Qed.
Lemma raw_bin o a b : raw (EBin o a b) = toks (level o) a ++ bop o :: toks (S (level o)) b.
Proof. reflexivity. Qed.
Lemma raw_cond c a b : raw (ECond c a b) = toks 2 c ++ qm :: raw a ++ colon :: toks 1 b.
Proof. reflexivity. Qed.
Lemma raw_paren x : raw (EParen x) = lpar :: raw x ++ [rpar].
Proof. reflexivity. Qed.

(* "with enough fuel": for all f >= n *)
Definition P (e : expr) : Prop :=
  forall v, meval defs e = Some v ->
  forall need p rest r n, (p <= need)%nat -> follow need rest ->
    (forall f, (n <= f)%nat -> loop f p v rest = r) ->
    forall f, (n + 2 * List.length (toks need e) <= f)%nat -> expression f p (toks need e ++ rest) = r.

Definition Q (e : expr) : Prop :=
  forall v, meval defs e = Some v ->
  forall need p rest r n, (p <= need)%nat -> (need <= expr_level e)%nat -> follow need rest ->
    (forall f, (n <= f)%nat -> loop f p v rest = r) ->
    forall f, (n + 2 * List.length (raw e) <= f)%nat -> expression f p (raw e ++ rest) = r.

Lemma P_of_Q e : Q e -> P e.
Proof.
  intros HQ v Hv need p rest r n Hp Hfol Hloop f Hf. rewrite tokens_unfold in *.
  destruct (Nat.ltb_spec (expr_level e) need) as [Lt|Ge].
  - (* parenthesised *)
    cbn [List.length app] in *. rewrite app_length in Hf. cbn [List.length] in Hf.
    destruct f as [|f]; [lia|]. rewrite <- app_assoc. cbn [app]. rewrite expr_paren.
    rewrite (HQ v Hv 0%nat 0%nat (rpar :: rest) (POk v (rpar :: rest)) 1%nat); try lia.
    + cbn [is_tok rpar tkind tspell kind_eqb andb String.eqb Ascii.eqb Bool.eqb]. apply Hloop. lia.
    + apply follow_rpar.
    + intros g Hg. destruct g as [|g]; [lia|]. apply rpar_stops.
  - apply (HQ v Hv need p rest r n); assumption.
Qed.

Lemma num_tok_value b : lit_value (tspell (num_tok b)) = inr (truth b).
Proof. destruct b; reflexivity. Qed.

Theorem grammar_Q : forall e, Q e.
Proof.
  induction e as [body sfx|s|name|name paren|x IHx|o x IHx|o a IHa b IHb|c IHc a IHa b IHb];
    intros v Hv need p rest r n Hp Hlvl Hfol Hloop f Hf.
  - (* literal *)
    cbn [meval of_sum] in Hv. destruct (lit_value (body ++ sfx)%string) as [e|v0] eqn:L; [discriminate|]. inversion Hv; subst v0.
    cbn [tokens_raw List.length app] in *. destruct f as [|f]; [lia|].
    change (Tok KNum (body ++ sfx)%string) with (num (body ++ sfx)%string). rewrite (expr_num _ _ _ _ _ L). apply Hloop. lia.
  - (* character constant *)
    cbn [meval of_sum] in Hv. destruct (char_value s) as [e|v0] eqn:L; [discriminate|]. inversion Hv; subst v0.
    cbn [tokens_raw List.length app] in *. destruct f as [|f]; [lia|].
    rewrite (expr_char _ _ _ _ _ L). apply Hloop. lia.
  - (* identifier *)
    cbn [meval] in Hv. inversion Hv; subst v.
    cbn [tokens_raw List.length app] in *. destruct f as [|f]; [lia|].
    rewrite (expr_id _ _ _ _ (proj1 Hfol)). apply Hloop. lia.
  - (* defined, after expansion: one number *)
    cbn [meval] in Hv. inversion Hv; subst v.
    cbn [tokens_raw dt_expanded List.length app] in *. destruct f as [|f]; [lia|].
    set (bb := existsb (String.eqb name) defs) in *.
    change (num_tok bb) with (num (tspell (num_tok bb))).
    rewrite (expr_num _ _ _ _ _ (num_tok_value bb)). apply Hloop. lia.
  - (* explicit parentheses *)
    cbn [meval] in Hv. rewrite raw_paren in *. cbn [List.length app] in *. rewrite app_length in Hf. cbn [List.length] in Hf.
    destruct f as [|f]; [lia|]. rewrite <- app_assoc. cbn [app]. rewrite expr_paren.
    rewrite (IHx v Hv 0%nat 0%nat (rpar :: rest) (POk v (rpar :: rest)) 1%nat); try lia.
    + cbn [is_tok rpar tkind tspell kind_eqb andb String.eqb Ascii.eqb Bool.eqb]. apply Hloop. lia.
    + apply follow_rpar.
    + intros g Hg. destruct g as [|g]; [lia|]. apply rpar_stops.
  - (* unary *)
    cbn [meval obind] in Hv. destruct (meval defs x) as [vx|] eqn:Ex; [|discriminate]. cbn [obind] in Hv. unfold mun in Hv.
    rewrite raw_un in *. cbn [List.length app] in *.
    destruct f as [|f]; [lia|]. rewrite expr_uop.
    rewrite (P_of_Q x IHx vx Ex 12%nat 12%nat rest (POk vx rest) 1%nat); try lia.
    + rewrite Hv. apply Hloop. lia.
    + apply (follow_mono need); [cbn [expr_level] in Hlvl; lia|exact Hfol].
    + intros g Hg. destruct g as [|g]; [lia|]. apply loop12_stops.
  - (* binary *)
    cbn [meval obind] in Hv. destruct (meval defs a) as [va|] eqn:Ea; [|discriminate]. cbn [obind] in Hv.
    destruct (meval defs b) as [vb|] eqn:Eb; [|discriminate]. cbn [obind] in Hv. unfold mbin in Hv.
    cbn [expr_level] in Hlvl.
    rewrite raw_bin in *. rewrite app_length in Hf. cbn [List.length] in Hf. rewrite <- app_assoc. cbn [app].
    pose (B := toks (S (level o)) b). pose (A := toks (level o) a). fold B A in Hf |- *.
    apply (P_of_Q a IHa va Ea (level o) p (bop o :: B ++ rest) r (1 + Nat.max n (1 + 2 * List.length B))%nat);
      [lia|apply follow_bop| |fold A; lia].
    intros g Hg. destruct g as [|g]; [lia|]. rewrite loop_bop.
    replace (p <=? level o)%nat with true by (symmetry; apply Nat.leb_le; lia).
    rewrite (P_of_Q b IHb vb Eb (S (level o)) (S (level o)) rest (POk vb rest) 1%nat); try (fold B; lia).
    + rewrite Hv. apply Hloop. lia.
    + apply (follow_mono need); [lia|exact Hfol].
    + intros h Hh. apply (follow_stops need); [exact Hfol| |lia].
      unfold stop_level. destruct (Nat.eqb_spec need 1); lia.
  - (* conditional *)
    cbn [meval obind] in Hv. destruct (meval defs c) as [vc|] eqn:Ec; [|discriminate]. cbn [obind] in Hv.
    destruct (meval defs a) as [va|] eqn:Ea; [|discriminate]. cbn [obind] in Hv.
    destruct (meval defs b) as [vb|] eqn:Eb; [|discriminate]. cbn [obind] in Hv. inversion Hv; subst v. clear Hv.
    cbn [expr_level] in Hlvl.
    rewrite raw_cond in *. rewrite app_length in Hf. cbn [List.length] in Hf. rewrite app_length in Hf. cbn [List.length] in Hf.
    rewrite <- app_assoc. cbn [app]. rewrite <- app_assoc. cbn [app].
    pose (B := toks 1 b). pose (C := toks 2 c). pose (A := raw a). fold B C A in Hf |- *.
    apply (P_of_Q c IHc vc Ec 2%nat p (qm :: A ++ colon :: B ++ rest) r
             (1 + Nat.max n (Nat.max (1 + 2 * List.length A) (1 + 2 * List.length B)))%nat);
      [lia|apply follow_qm| |fold C; lia].
    intros g Hg. destruct g as [|g]; [lia|]. rewrite loop_qm.
    replace (p <=? 1)%nat with true by (symmetry; apply Nat.leb_le; lia).
    rewrite (IHa va Ea 0%nat 0%nat (colon :: B ++ rest) (POk va (colon :: B ++ rest)) 1%nat); try (fold A; lia).
    + cbn [is_tok colon tkind tspell kind_eqb andb String.eqb Ascii.eqb Bool.eqb].
      rewrite (P_of_Q b IHb vb Eb 1%nat 1%nat rest (POk vb rest) 1%nat); try (fold B; lia).
      * apply Hloop. lia.
      * apply (follow_mono need); [lia|exact Hfol].
      * intros h Hh. apply (follow_stops need); [exact Hfol| |lia].
        unfold stop_level. destruct (Nat.eqb_spec need 1); lia.
    + apply follow_colon.
    + intros h Hh. destruct h as [|h]; [lia|]. apply colon_stops.
Qed.

(* the statement about evaluate(), with the fuel evaluate() uses *)
Theorem grammar_sound e v : meval defs e = Some v -> evaluate (toks 0 e) = OVal v.
Proof.
  intros Hv. unfold evaluate, evaluate_fuel, fuel_for.
  pose proof (P_of_Q e (grammar_Q e) v Hv 0%nat 0%nat [] (POk v []) 1%nat (Nat.le_refl 0) (follow_nil 0)) as H.
  rewrite app_nil_r in H. rewrite H; [reflexivity| |lia].
  intros f Hf. destruct f as [|f]; [lia|]. reflexivity.
Qed.
End Grammar.

(* ------------------------------------------------------------------ M's bottom-up value = ISO C *)
Local Open Scope Z_scope.

(* the known finding class, as a guard: a constant that ISO C types as uintmax_t although its
   suffix has no u (octal/hex/binary in [2^63, 2^64)) *)
Definition lit_guard (body sfx : string) : bool :=
  match lit_sem body sfx with Some (V _ true) => suffix_unsigned sfx | _ => true end.
Fixpoint guard (e : expr) : bool :=
  match e with
  | ELit b s => lit_guard b s
  | EChar _ | EId _ | EDefined _ _ => true
  | EParen x | EUn _ x => guard x
  | EBin _ a b => guard a && guard b
  | ECond c a b => guard c && guard a && guard b
  end.

Lemma np_int64_range n v : np_int64 n = inr v -> in_range v.
Proof. unfold np_int64. destruct ((- two63 <=? n) && (n <? two63)) eqn:E; [|discriminate]. intros H; inversion H; subst. cbn [in_range]. unfold two63 in *. lia. Qed.
Lemma np_uint64_range n v : np_uint64 n = inr v -> in_range v.
Proof. unfold np_uint64. destruct ((0 <=? n) && (n <? two64)) eqn:E; [|discriminate]. intros H; inversion H; subst. cbn [in_range]. unfold two64 in *. lia. Qed.

Lemma lit_value_range s v : lit_value s = inr v -> in_range v.
Proof.
  rewrite lit_value_unfold. cbn zeta.
  destruct (match lookup (string_of_list (firstn 2 (list_of_string s))) literal_bases with Some b => _ | None => _ end) as [base value].
  destruct (strip value) as [sfx digits]. destruct (py_int digits base) as [n|]; [|discriminate].
  destruct sfx as [x|]; [destruct (has_marker x)|]; eauto using np_int64_range, np_uint64_range.
Qed.

Lemma char_value_range s v : char_value s = inr v -> in_range v.
Proof.
  unfold char_value.
  repeat match goal with |- context [match ?x with _ => _ end] => destruct x end;
    intros H; try discriminate; eauto using np_int64_range.
Qed.

Lemma zero_range : in_range zero.
Proof. cbn. unfold two63. lia. Qed.
Lemma truth_range b : in_range (truth b).
Proof. destruct b; cbn; unfold two63; lia. Qed.

Lemma make_value_vu z u : vu (make_value z u) = u.
Proof. destruct u; reflexivity. Qed.

Definition btype (o : binop) (ua ub : bool) : bool :=
  match o with
  | BShl | BShr => ua
  | BMul | BDiv | BMod | BAdd | BSub | BAnd | BXor | BOr => ua || ub
  | _ => false
  end.
Lemma apply_binary_type o a b v : apply_binary (bspell o) a b = Some v -> vu v = btype o (vu a) (vu b).
Proof.
  destruct a as [x ux], b as [y uy]. unfold apply_binary.
  destruct o; cbn [bspell String.eqb Ascii.eqb Bool.eqb orb andb negb btype vu];
    repeat match goal with |- context [if ?c then _ else _] => destruct c end;
    intros H; injection H as <-; first [apply make_value_vu | reflexivity | destruct ux; reflexivity].
Qed.
Lemma apply_unary_type o a v : apply_unary (uspell o) a = Some v -> vu v = match o with UNot => false | _ => vu a end.
Proof.
  destruct a as [x ux]. destruct o; cbn [uspell apply_unary String.eqb Ascii.eqb Bool.eqb vu];
    intros H; injection H as <-; first [apply make_value_vu | reflexivity | destruct ux; reflexivity].
Qed.

Section Eval.
Variable defs : list string.

Lemma meval_range e : forall v, meval defs e = Some v -> in_range v.
Proof.
  induction e as [body sfx|s|name|name paren|x IHx|o x IHx|o a IHa b IHb|c IHc a IHa b IHb]; intros v; cbn [meval].
  - destruct (lit_value (body ++ sfx)) eqn:L; [discriminate|]. cbn. intros H; inversion H; subst. exact (lit_value_range _ _ L).
  - destruct (char_value s) eqn:L; [discriminate|]. cbn. intros H; inversion H; subst. exact (char_value_range _ _ L).
  - intros H; inversion H. apply zero_range.
  - intros H; inversion H. apply truth_range.
  - apply IHx.
  - destruct (meval defs x) as [vx|]; [|discriminate]. cbn [obind]. unfold mun. intros H.
    destruct (apply_unary_total o vx) as (w & E & R). congruence.
  - destruct (meval defs a) as [va|]; [|discriminate]. destruct (meval defs b) as [vb|]; [|discriminate].
    cbn [obind]. unfold mbin. intros H. destruct (apply_binary_total o va vb) as (w & E & R). congruence.
  - destruct (meval defs c) as [vc|]; [|discriminate]. destruct (meval defs a) as [va|]; [|discriminate].
    destruct (meval defs b) as [vb|]; [|discriminate]. cbn [obind]. intros H; inversion H.
    unfold cond_value. rewrite make_value_wrap. apply wrap_in_range.
Qed.

(* every lexically valid tree has a value in M (M evaluates also what C skips), of the static type *)
Lemma meval_total e : forall u, static e = Some u -> guard e = true ->
  exists v, meval defs e = Some v /\ vu v = u.
Proof.
  induction e as [body sfx|s|name|name paren|x IHx|o x IHx|o a IHa b IHb|c IHc a IHa b IHb]; intros u; cbn [static guard meval].
  - destruct (lit_sem body sfx) as [v0|] eqn:L; [|discriminate]. cbn [option_map]. intros H G; inversion H; subst.
    exists v0. split; [|reflexivity].
    rewrite (literals_ok body sfx v0 L); [reflexivity|].
    unfold lit_guard in G. rewrite L in G. destruct v0 as [z [|]]; [intros _; exact G|discriminate].
  - destruct (char_sem s) as [v0|] eqn:L; [|discriminate]. cbn [option_map]. intros H _; inversion H; subst.
    exists v0. rewrite (charconst_ok s v0 L). split; reflexivity.
  - intros H _; inversion H. exists zero. split; reflexivity.
  - intros H _; inversion H. eexists. split; [reflexivity|]. destruct (existsb _ _); reflexivity.
  - apply IHx.
  - destruct (static x) as [ux|]; [|discriminate]. intros H G; inversion H; subst.
    destruct (IHx ux eq_refl G) as (vx & -> & T). cbn [obind]. unfold mun.
    destruct (apply_unary_total o vx) as (w & E & _). exists w. split; [exact E|].
    rewrite (apply_unary_type _ _ _ E). destruct o; congruence.
  - destruct (static a) as [ua|]; [|discriminate]. destruct (static b) as [ub|]; [|discriminate].
    intros H G; inversion H; subst. apply andb_true_iff in G. destruct G as [Ga Gb].
    destruct (IHa ua eq_refl Ga) as (va & -> & Ta). destruct (IHb ub eq_refl Gb) as (vb & -> & Tb). cbn [obind]. unfold mbin.
    destruct (apply_binary_total o va vb) as (w & E & _). exists w. split; [exact E|].
    rewrite (apply_binary_type _ _ _ _ E). unfold btype. destruct o; congruence.
  - destruct (static c) as [uc|]; [|discriminate]. destruct (static a) as [ua|]; [|discriminate].
    destruct (static b) as [ub|]; [|discriminate].
    intros H G; inversion H; subst. apply andb_true_iff in G. destruct G as [G Gb]. apply andb_true_iff in G. destruct G as [Gc Ga].
    destruct (IHc uc eq_refl Gc) as (vc & -> & Tc). destruct (IHa ua eq_refl Ga) as (va & -> & Ta).
    destruct (IHb ub eq_refl Gb) as (vb & -> & Tb). cbn [obind]. eexists. split; [reflexivity|].
    unfold cond_value. rewrite make_value_vu. congruence.
Qed.

(* wherever ISO C defines a value (short circuit and ?: included), M's bottom-up value is that value *)
Theorem meval_sem e : forall v, sem defs e = Some v -> guard e = true -> meval defs e = Some v.
Proof.
  induction e as [body sfx|s|name|name paren|x IHx|o x IHx|o a IHa b IHb|c IHc a IHa b IHb]; intros v; cbn [guard].
  - cbn [sem meval]. intros L G. rewrite (literals_ok body sfx v L); [reflexivity|].
    unfold lit_guard in G. rewrite L in G. destruct v as [z [|]]; [intros _; exact G|discriminate].
  - cbn [sem meval]. intros L _. rewrite (charconst_ok s v L). reflexivity.
  - cbn [sem meval]. intros H _. exact H.
  - cbn [sem meval]. intros H _. exact H.
  - cbn [sem meval]. apply IHx.
  - cbn [sem meval]. destruct (sem defs x) as [vx|] eqn:Sx; [|discriminate]. cbn [option_map]. intros H G; inversion H; subst.
    rewrite (IHx vx eq_refl G). cbn [obind]. unfold mun.
    apply un_sem_ok. apply (meval_range x). exact (IHx vx eq_refl G).
  - intros H G. apply andb_true_iff in G. destruct G as [Ga Gb].
    assert (Strict : strict o = true ->
              match sem defs a, sem defs b with Some va, Some vb => bin_sem o va vb | _, _ => None end = Some v ->
              meval defs (EBin o a b) = Some v).
    { intros St. destruct (sem defs a) as [va|] eqn:Sa; [|discriminate]. destruct (sem defs b) as [vb|] eqn:Sb; [|discriminate].
      intros B. cbn [meval]. rewrite (IHa va eq_refl Ga), (IHb vb eq_refl Gb). cbn [obind]. unfold mbin.
      apply bin_sem_ok; assumption. }
    destruct o; try (apply (Strict eq_refl); exact H); clear Strict; cbn [sem] in H.
    + (* && *)
      destruct (sem defs a) as [va|] eqn:Sa; [|discriminate]. destruct (static b) as [ub|] eqn:Tb; [|discriminate].
      destruct (meval_total b ub Tb Gb) as (vb & Eb & _).
      cbn [meval]. rewrite (IHa va eq_refl Ga), Eb. cbn [obind]. unfold mbin. cbn [bspell]. rewrite land_ok.
      destruct (vz va =? 0) eqn:Z.
      * inversion H; subst. reflexivity.
      * destruct (sem defs b) as [vb'|] eqn:Sb; [|discriminate]. rewrite (IHb vb' eq_refl Gb) in Eb. inversion Eb; subst.
        inversion H; subst. reflexivity.
    + (* || *)
      destruct (sem defs a) as [va|] eqn:Sa; [|discriminate]. destruct (static b) as [ub|] eqn:Tb; [|discriminate].
      destruct (meval_total b ub Tb Gb) as (vb & Eb & _).
      cbn [meval]. rewrite (IHa va eq_refl Ga), Eb. cbn [obind]. unfold mbin. cbn [bspell]. rewrite lor_ok.
      destruct (vz va =? 0) eqn:Z.
      * destruct (sem defs b) as [vb'|] eqn:Sb; [|discriminate]. rewrite (IHb vb' eq_refl Gb) in Eb. inversion Eb; subst.
        inversion H; subst. reflexivity.
      * inversion H; subst. reflexivity.
  - intros H G. apply andb_true_iff in G. destruct G as [G Gb]. apply andb_true_iff in G. destruct G as [Gc Ga].
    cbn [sem] in H. destruct (sem defs c) as [vc|] eqn:Sc; [|discriminate].
    destruct (static a) as [ua|] eqn:Ta; [|discriminate]. destruct (static b) as [ub|] eqn:Tb; [|discriminate].
    destruct (meval_total a ua Ta Ga) as (va & Ea & Ua). destruct (meval_total b ub Tb Gb) as (vb & Eb & Ub).
    cbn [meval]. rewrite (IHc vc eq_refl Gc), Ea, Eb. cbn [obind]. f_equal.
    rewrite (cond_value_ok vc va vb (meval_range a va Ea) (meval_range b vb Eb)). rewrite Ua, Ub.
    destruct (vz vc =? 0).
    + destruct (sem defs b) as [w|] eqn:Sb; [|discriminate]. rewrite (IHb w eq_refl Gb) in Eb. inversion Eb; subst. inversion H; reflexivity.
    + destruct (sem defs a) as [w|] eqn:Sa; [|discriminate]. rewrite (IHa w eq_refl Ga) in Ea. inversion Ea; subst. inversion H; reflexivity.
Qed.

(* C02, the evaluator: tokens of e as ISO C's grammar writes it  |->  ISO C's value of e *)
Theorem evaluation_ok e v :
  sem defs e = Some v -> guard e = true -> evaluate (tokens (dt_expanded defs) 0 e) = OVal v.
Proof. intros H G. apply grammar_sound. apply meval_sem; assumption. Qed.
End Eval.

(* ------------------------------------------------------------------ through MacroExpander.expand *)
Section Expand.
Variable env : list (string * list token).
Notation defs := (map fst env).

(* identifiers of e that are not operands of `defined` are not macros (expansion proper is C03) *)
Fixpoint ids_ok (e : expr) : bool :=
  match e with
  | EId n => negb (String.eqb n "defined") && negb (is_defined env n)
  | EDefined n _ => negb (String.eqb n "(")
  | ELit _ _ | EChar _ => true
  | EParen x | EUn _ x => ids_ok x
  | EBin _ a b => ids_ok a && ids_ok b
  | ECond c a b => ids_ok c && ids_ok a && ids_ok b
  end.

Definition Xp (ts ts' : list token) : Prop :=
  forall rest, expand env (ts ++ rest) = match expand env rest with inr out => inr (ts' ++ out) | inl er => inl er end.

Lemma Xp_nil : Xp [] [].
Proof. intros rest. cbn [app]. destruct (expand env rest); reflexivity. Qed.
Lemma Xp_cons t ts ts' : is_id t = false -> Xp ts ts' -> Xp (t :: ts) (t :: ts').
Proof.
  intros H X rest. cbn [app expand]. rewrite H. rewrite (X rest). destruct (expand env rest); reflexivity.
Qed.
Lemma Xp_app a a' b b' : Xp a a' -> Xp b b' -> Xp (a ++ b) (a' ++ b').
Proof.
  intros A B rest. rewrite <- app_assoc. rewrite (A (b ++ rest)), (B rest).
  destruct (expand env rest); [reflexivity|]. rewrite app_assoc. reflexivity.
Qed.
Lemma Xp_one t : is_id t = false -> Xp [t] [t].
Proof. intros H. apply Xp_cons; [exact H|apply Xp_nil]. Qed.

Lemma is_defined_defs n : is_defined env n = existsb (String.eqb n) defs.
Proof.
  unfold is_defined. induction env as [|[k b] r IH]; cbn [lookup map fst existsb]; [reflexivity|].
  destruct (String.eqb n k); [reflexivity|exact IH].
Qed.

Lemma Xp_wrap (need : nat) x ts ts' :
  Xp ts ts' ->
  Xp (if (expr_level x <? need)%nat then lpar :: ts ++ [rpar] else ts)
     (if (expr_level x <? need)%nat then lpar :: ts' ++ [rpar] else ts').
Proof.
  intros X. destruct (expr_level x <? need)%nat; [|exact X].
  apply Xp_cons; [reflexivity|]. apply Xp_app; [exact X|apply Xp_one; reflexivity].
Qed.

Lemma expand_raw e : ids_ok e = true -> Xp (tokens_raw dt_source e) (tokens_raw (dt_expanded defs) e).
Proof.
  induction e as [body sfx|s|name|name paren|x IHx|o x IHx|o a IHa b IHb|c IHc a IHa b IHb]; cbn [ids_ok]; intros H.
  - apply Xp_one. reflexivity.
  - apply Xp_one. reflexivity.
  - apply andb_true_iff in H. destruct H as [H1 H2]. apply negb_true_iff in H1, H2.
    intros rest. cbn [tokens_raw app]. rewrite unknown_identifier_kept; [destruct (expand env rest); reflexivity|exact H1|].
    unfold is_defined in H2. destruct (lookup name env); [discriminate|reflexivity].
  - apply negb_true_iff in H. intros rest. cbn [tokens_raw]. unfold dt_source, dt_expanded. rewrite <- is_defined_defs.
    destruct paren; cbn [app].
    + rewrite defined_paren. destruct (expand env rest); reflexivity.
    + rewrite (defined_plain _ _ _ H). destruct (expand env rest); reflexivity.
  - cbn [tokens_raw]. apply Xp_cons; [reflexivity|]. apply Xp_app; [exact (IHx H)|apply Xp_one; reflexivity].
  - cbn [tokens_raw]. apply Xp_cons; [reflexivity|]. apply Xp_wrap. exact (IHx H).
  - apply andb_true_iff in H. destruct H as [Ha Hb]. cbn [tokens_raw].
    apply Xp_app; [apply Xp_wrap; exact (IHa Ha)|]. apply Xp_cons; [reflexivity|]. apply Xp_wrap. exact (IHb Hb).
  - apply andb_true_iff in H. destruct H as [H Hb]. apply andb_true_iff in H. destruct H as [Hc Ha]. cbn [tokens_raw].
    apply Xp_app; [apply Xp_wrap; exact (IHc Hc)|]. apply Xp_cons; [reflexivity|].
    apply Xp_app; [exact (IHa Ha)|]. apply Xp_cons; [reflexivity|]. apply Xp_wrap. exact (IHb Hb).
Qed.

Lemma expand_tokens need e : ids_ok e = true ->
  expand env (tokens dt_source need e) = inr (tokens (dt_expanded defs) need e).
Proof.
  intros H. pose proof (Xp_wrap need e _ _ (expand_raw e H) []) as X.
  rewrite app_nil_r in X. cbn [expand] in X. rewrite app_nil_r in X. exact X.
Qed.

(* C02, the whole route of IfNode.evaluate_for_platform: the directive's tokens as written in the
   source (with `defined X` / `defined(X)`), expanded, parsed and evaluated = ISO C's value *)
Theorem evaluate_for_platform_ok e v :
  ids_ok e = true -> guard e = true -> sem defs e = Some v ->
  evaluate_for_platform env (tokens dt_source 0 e) = OVal v.
Proof.
  intros I G S. unfold evaluate_for_platform. rewrite (expand_tokens 0 e I). apply evaluation_ok; assumption.
Qed.
End Expand.
