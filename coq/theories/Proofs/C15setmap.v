(* C15 — the setmap as a function (platform set -> number of lines): what the
   association list built by get_setmap denotes, its invariance under the order
   of the files, and the equality of the setmap of the aliased code base with
   the setmap of the canonical specification (Spec/C15.v: every member of the
   plain file list once, marks of the reference preprocessor). *)
From Coq Require Import Bool Arith ZArith String List Permutation Lia.
From CBI Require Import Lib.Res Model.C01 Spec.C01 Model.C04 Spec.C04 Model.C15fs Model.C15 Model.C15i Spec.C15
     Proofs.C04 Proofs.C15fs Proofs.C15enum Proofs.C15 Proofs.C15i Proofs.C15w Proofs.C15full Proofs.C15spec.
Import ListNotations.
Local Open Scope list_scope.

(* the number of lines an association list gives to a platform set *)
Definition sm_get (k : pset) (m : list (pset * nat)) : nat :=
  match find (fun kv => pset_eqb k (fst kv)) m with Some kv => snd kv | None => 0 end.

Lemma pset_eqb_true a b : pset_eqb a b = true -> a = b.
Proof. unfold pset_eqb. destruct (list_eq_dec Nat.eq_dec a b); [auto|discriminate]. Qed.
Lemma pset_eqb_refl a : pset_eqb a a = true.
Proof. unfold pset_eqb. destruct (list_eq_dec Nat.eq_dec a a); [auto|congruence]. Qed.

Lemma bump_get k k' w m : sm_get k (bump k' w m) = sm_get k m + (if pset_eqb k k' then w else 0).
Proof.
  unfold sm_get. induction m as [|[k2 v] r IH]; cbn [bump find fst snd].
  - destruct (pset_eqb k k'); cbn; lia.
  - destruct (pset_eqb k' k2) eqn:E1.
    + apply pset_eqb_true in E1. subst k2. cbn [find fst snd]. destruct (pset_eqb k k') eqn:E2; cbn [snd]; [lia|].
      destruct (find (fun kv => pset_eqb k (fst kv)) r); lia.
    + cbn [find fst snd]. destruct (pset_eqb k k2) eqn:E2.
      * assert (pset_eqb k k' = false).
        { destruct (pset_eqb k k') eqn:E3; [|reflexivity]. apply pset_eqb_true in E2, E3. subst. rewrite pset_eqb_refl in E1. discriminate. }
        rewrite H. cbn. lia.
      * exact IH.
Qed.

Lemma list_sum_cons a l : list_sum (a :: l) = a + list_sum l.
Proof. reflexivity. Qed.
Lemma list_sum_nil : list_sum [] = 0.
Proof. reflexivity. Qed.

(* lines of one file that belong to the platform set [key] *)
Definition file_count (nplat : nat) (ms : list mark) (f : path) (nodes : list (nat * nat)) (key : pset) : nat :=
  list_sum (map (fun nw => if pset_eqb key (platforms_of nplat ms f (fst nw)) then snd nw else 0) nodes).
Definition count (rp : path -> path) (shape : path -> list (nat * nat)) (nplat : nat) (ms : list mark)
           (files : list path) (key : pset) : nat :=
  list_sum (map (fun fn => file_count nplat ms (rp fn) (shape (rp fn)) key) files).

Lemma add_file_get nplat ms f nodes key : forall m,
  sm_get key (add_file nplat ms f nodes m) = sm_get key m + file_count nplat ms f nodes key.
Proof.
  unfold add_file, file_count. induction nodes as [|nw r IH]; intros m; cbn [fold_left map]; rewrite ?list_sum_cons, ?list_sum_nil; [lia|].
  rewrite IH, bump_get. lia.
Qed.

Lemma setmap_get_from rp shape nplat ms files key : forall m,
  sm_get key (fold_left (fun m fn => add_file nplat ms (rp fn) (shape (rp fn)) m) files m) =
  sm_get key m + count rp shape nplat ms files key.
Proof.
  unfold count. induction files as [|fn r IH]; intros m; cbn [fold_left map]; rewrite ?list_sum_cons, ?list_sum_nil; [lia|].
  rewrite IH, add_file_get. lia.
Qed.

(* what the association list built by get_setmap denotes *)
Theorem setmap_get rp shape nplat ms files key :
  sm_get key (setmap rp shape nplat ms files) = count rp shape nplat ms files key.
Proof. unfold setmap. rewrite setmap_get_from. reflexivity. Qed.

Lemma list_sum_perm l l' : Permutation l l' -> list_sum l = list_sum l'.
Proof. induction 1; rewrite ?list_sum_cons; lia. Qed.
Theorem count_perm rp shape nplat ms l l' key :
  Permutation l l' -> count rp shape nplat ms l key = count rp shape nplat ms l' key.
Proof. intros H. unfold count. apply list_sum_perm. apply Permutation_map. exact H. Qed.

(* ---------- the counted files are the members of the canonical file list ---------- *)
Section Members.
Variable root : fnode.
Variable tab : ctable.
Variable cfs : fsys.
Variable is_src : string -> bool.
Variable dirs : list path.
Hypothesis Hwf : wf root.
Hypothesis Hdirs : Forall (fun d => is_real root d = true /\ exists kids, node_at root d = Some (Dir kids)) dirs.
Hypothesis Hdisj : ForallOrdPairs disjoint_dirs dirs.
Hypothesis Hnd : NoDup (map fst cfs).
Hypothesis Hcfs : forall p, is_real root p = true -> fs_get cfs p = getf_i root tab p.
Hypothesis Hcfs_real : forall p ls, fs_get cfs p = Some ls -> is_real root p = true.
(* every regular file of the tree has an entry in the content table *)
Hypothesis Htotal : Forall (fun p => match node_at root p with Some (File k) => clookup k tab <> None | _ => True end) (walk root []).

Lemma dirs_real : Forall (fun d => is_real root d = true) dirs.
Proof. eapply Forall_impl; [|exact Hdirs]. intros d [H _]. exact H. Qed.

Lemma getf_of_file p k : p <> [] -> node_at root p = Some (File k) -> exists ls, getf_i root tab p = Some ls.
Proof.
  intros Hne En. unfold getf_i, entry_at. rewrite En.
  pose proof (node_at_walk p root [] (File k) En Hne) as Hw. cbn [app] in Hw.
  rewrite Forall_forall in Htotal. pose proof (Htotal p Hw) as H. rewrite En in H.
  destruct (clookup k tab) as [[ls ws]|]; [exists ls; reflexivity|congruence].
Qed.

Lemma counted_member p : In p (counted root is_src link_fuel dirs) -> In p (members_S cfs is_src dirs).
Proof.
  intros Hin. pose proof (counted_real root is_src link_fuel dirs p Hwf dirs_real Hin link_fuel) as Hrp.
  assert (Hr : is_real root p = true) by (eapply realpath_is_real; eauto).
  unfold counted in Hin. apply filter_In in Hin. destruct Hin as [Hin _].
  unfold iter in Hin. apply in_flat_map in Hin. destruct Hin as (d & _ & Hin). apply filter_In in Hin. destruct Hin as [Hrg Hc].
  assert (Hne : p <> []).
  { unfold rglob in Hrg. destruct (node_at root d) as [n0|]; [|contradiction]. apply (walk_nonempty _ _ _ Hrg). }
  unfold contains in Hc. rewrite Hrp in Hc. apply andb_true_iff in Hc. destruct Hc as [Hc Hpre]. apply andb_true_iff in Hc. destruct Hc as [Hf Hs].
  destruct (node_at root p) as [[k|kk|a t]|] eqn:En; try discriminate.
  destruct (getf_of_file p k Hne En) as (ls & Hg).
  unfold members_S. apply filter_In. split.
  - rewrite <- (Hcfs p Hr) in Hg. apply fs_get_some_in in Hg. apply in_map_iff. exists (p, ls). auto.
  - unfold member_S. rewrite Hs, Hpre. reflexivity.
Qed.

Lemma member_counted p : In p (members_S cfs is_src dirs) -> In p (counted root is_src link_fuel dirs).
Proof.
  unfold members_S. intros Hin. apply filter_In in Hin. destruct Hin as [Hin Hm].
  apply in_map_iff in Hin. destruct Hin as ([q ls] & <- & Hin). cbn [fst] in *.
  pose proof (fs_get_in cfs q ls Hnd Hin) as Hg. pose proof (Hcfs_real q ls Hg) as Hr.
  rewrite (Hcfs q Hr) in Hg. unfold getf_i, entry_at in Hg.
  destruct (node_at root q) as [[k|kk|a t]|] eqn:En; try discriminate.
  unfold member_S in Hm. apply andb_true_iff in Hm. destruct Hm as [Hs Hpre].
  pose proof Hpre as Hpre0. apply existsb_exists in Hpre. destruct Hpre as (d & Hd & Hp).
  destruct (is_prefix_split d q Hp) as (s & ->).
  pose proof Hdirs as Hdd. rewrite Forall_forall in Hdd. destruct (Hdd d Hd) as (Hdr & kids & Edir).
  assert (Hs0 : s <> []) by (intros ->; rewrite app_nil_r in En; congruence).
  assert (Hc : contains root is_src link_fuel dirs (d ++ s) = true).
  { unfold contains. rewrite (realpath_of_real root link_fuel _ Hr), En, Hs, Hpre0. reflexivity. }
  unfold counted. apply filter_In. split.
  - unfold iter. apply in_flat_map. exists d. split; [exact Hd|]. apply filter_In. split; [|exact Hc].
    unfold rglob. rewrite Edir. rewrite node_at_app, Edir in En. apply (node_at_walk s (Dir kids) d (File k) En Hs0).
  - rewrite (skipped_is_link root is_src link_fuel dirs _ Hc). unfold is_link_at. rewrite En. reflexivity.
Qed.

Theorem members_perm : Permutation (counted root is_src link_fuel dirs) (members_S cfs is_src dirs).
Proof.
  apply NoDup_Permutation.
  - apply counted_NoDup_disjoint; assumption.
  - unfold members_S. apply NoDup_filter. exact Hnd.
  - intros p. split; [apply counted_member|apply member_counted].
Qed.

End Members.

(* ---------- the setmap of the aliased code base is the setmap of the specification ---------- *)
Theorem setmap_equal (root : fnode) (tab_a tab_c : ctable) (cfs : fsys) (is_src : string -> bool)
        (fuel nplat : nat) (dirs : list path) (c_a c_c : list (nat * entry)) (ms msS : list mark) :
  wf root ->
  Forall (fun d => is_real root d = true /\ exists kids, node_at root d = Some (Dir kids)) dirs ->
  ForallOrdPairs disjoint_dirs dirs ->
  tab_structured tab_a -> tab_structured tab_c -> fs_structured cfs ->
  tab_rel root tab_a tab_c (alldirs root) -> alias_cfg2 root tab_a (alldirs root) c_a c_c ->
  tab_names_ok root tab_c -> canon_cfg root c_c ->
  NoDup (map fst cfs) ->
  (forall p, is_real root p = true -> fs_get cfs p = getf_i root tab_c p) ->
  (forall p ls, fs_get cfs p = Some ls -> is_real root p = true) ->
  Forall (fun p => match node_at root p with Some (File k) => clookup k tab_c <> None | _ => True end) (walk root []) ->
  find_A (rp_i root) (getf_i root tab_a) fuel (iter root is_src link_fuel dirs) c_a = Ok ms ->
  analyse_S cfs fuel c_c = Ok msS ->
  ms = msS /\
  forall key,
    sm_get key (setmap (rp_i root) (shape_i root tab_a) nplat ms (counted root is_src link_fuel dirs)) =
    sm_get key (setmap_S cfs is_src dirs (shape_i root tab_c) nplat msS).
Proof.
  intros Hwf Hdirs Hdisj Sa Sc Sf Ht Hc Hn Hcc Hnd Hcfs Hcr Htot H HS.
  assert (Hd : Forall (fun d => is_real root d = true) dirs) by (eapply Forall_impl; [|exact Hdirs]; intros d [X _]; exact X).
  assert (Hm : Forall (fun fn => In (dirname (rp_i root fn)) (alldirs root)) (iter root is_src link_fuel dirs)).
  { apply Forall_forall. intros fn Hin. unfold iter in Hin. apply in_flat_map in Hin. destruct Hin as (d & _ & Hin).
    apply filter_In in Hin. destruct Hin as [_ Hc0]. unfold contains in Hc0.
    destruct (realpath root link_fuel fn) as [r|e] eqn:Er; [|discriminate].
    apply andb_true_iff in Hc0. destruct Hc0 as [Hc0 _]. apply andb_true_iff in Hc0. destruct Hc0 as [Hf _].
    unfold rp_i, rp. rewrite Er. destruct (node_at root r) as [[k|kk|a t]|] eqn:En; try discriminate.
    eapply dirname_in_alldirs; eauto. }
  assert (E : ms = msS).
  { eapply (attribution_is_reference root tab_a tab_c cfs fuel _ c_a c_c ms msS); eauto. }
  split; [exact E|]. subst msS. intros key. unfold setmap_S. rewrite !setmap_get.
  rewrite <- (count_perm (fun p => p) (shape_i root tab_c) nplat ms _ _ key
                (members_perm root tab_c cfs is_src dirs Hwf Hdirs Hdisj Hnd Hcfs Hcr Htot)).
  unfold count. f_equal. apply map_ext_in. intros fn Hin.
  assert (Hr : is_real root fn = true) by (eapply realpath_is_real; apply (counted_real root is_src link_fuel dirs fn Hwf Hd Hin 0)).
  rewrite (rp_real root fn Hr). f_equal.
  unfold shape_i, entry_at. destruct (node_at root fn) as [[k|kk|a t]|]; try reflexivity.
  pose proof (Ht k) as Hk. destruct (clookup k tab_a) as [[l1 w1]|], (clookup k tab_c) as [[l2 w2]|]; try contradiction; [|reflexivity].
  destruct Hk as [_ ->]. reflexivity.
Qed.
