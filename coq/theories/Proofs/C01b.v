(* C01 — every balanced line sequence is the flattening of a structured program
   (so the attribution theorem covers exactly the programs whose conditionals nest). *)
From Coq Require Import List Bool Arith String Lia.
From CBI Require Import Lib.Res Model.C01 Spec.C01 Spec.C01b Proofs.C01.
Import ListNotations.

Section Generic.
Variables ACT COND : Type.
Notation line := (line ACT COND).
Notation item := (item ACT COND).
Notation flat := (flat ACT COND).
Notation flats := (flats ACT COND).
Notation hk := (hk ACT COND).
Notation pframe := (pframe ACT COND).
Notation pstep := (pstep ACT COND).
Notation psteps := (psteps ACT COND).

Definition groups (rest : list (nat * hdr COND * list item)) : list line :=
  flat_map (fun x => let '(hid, h, b) := x in (hid, hk h) :: flat_map flat b) rest.

(* the lines a frame has consumed before the items of its current group *)
Definition prefix (f : pframe) : list line :=
  flats (rev (pbefore ACT COND f)) ++ (pid ACT COND f, KIf (pc ACT COND f)) ::
  match pst ACT COND f with
  | PFirst _ _ => []
  | PLater _ _ b dr (hid, hh) => flats b ++ groups (rev dr) ++ [(hid, hk hh)]
  end.

Fixpoint lz_stk (stk : list pframe) (inner : list line) : list line :=
  match stk with
  | [] => inner
  | f :: r => lz_stk r (prefix f ++ inner)
  end.
Definition lz (z : pz ACT COND) : list line := lz_stk (snd z) (flats (rev (fst z))).

Lemma lz_stk_app stk : forall inner l, lz_stk stk (inner ++ l) = lz_stk stk inner ++ l.
Proof.
  induction stk as [|f r IH]; intros inner l; cbn [lz_stk]; [reflexivity|].
  rewrite app_assoc. apply IH.
Qed.

Lemma flats_app a b : flats (a ++ b) = flats a ++ flats b.
Proof. unfold Spec.C01.flats. apply flat_map_app. Qed.

Lemma flats_nil : flats [] = [].
Proof. reflexivity. Qed.

Lemma groups_app a b : groups (a ++ b) = groups a ++ groups b.
Proof. unfold groups. apply flat_map_app. Qed.

Lemma flats_snoc cur x : flats (rev (x :: cur)) = flats (rev cur) ++ flat x.
Proof. cbn [rev]. rewrite flats_app. unfold Spec.C01.flats at 2. cbn [flat_map]. rewrite app_nil_r. reflexivity. Qed.

Lemma prefix_close_group f cur id h :
  prefix (close_group ACT COND f cur id h) = prefix f ++ flats (rev cur) ++ [(id, hk h)].
Proof.
  unfold prefix, close_group. destruct f as [bef i c st]. cbn [pbefore pid pc pst].
  destruct st as [|b dr [hid hh]].
  - cbn [rev groups flat_map app]. rewrite <- !app_assoc. cbn [app]. reflexivity.
  - cbn [rev]. rewrite groups_app. unfold groups at 2. cbn [flat_map]. rewrite app_nil_r.
    fold (flats (rev cur)).
    rewrite <- !app_assoc. cbn [app]. rewrite <- !app_assoc. cbn [app]. reflexivity.
Qed.

Lemma flat_close_chain f cur eid :
  flats (rev (pbefore ACT COND f)) ++ flat (close_chain ACT COND f cur eid)
  = prefix f ++ flats (rev cur) ++ [(eid, KEndif)].
Proof.
  unfold prefix, close_chain. destruct f as [bef i c st]. cbn [pbefore pid pc pst].
  destruct st as [|b dr [hid hh]].
  - cbn [Spec.C01.flat flat_map app]. fold (flats (rev cur)). rewrite <- !app_assoc. cbn [app]. reflexivity.
  - cbn [Spec.C01.flat]. fold (flats b). fold (groups (rev ((hid, hh, rev cur) :: dr))).
    cbn [rev]. rewrite groups_app. unfold groups at 2. cbn [flat_map]. rewrite app_nil_r.
    fold (flats (rev cur)).
    rewrite <- !app_assoc. cbn [app]. rewrite <- !app_assoc. cbn [app]. reflexivity.
Qed.

Lemma pstep_lz z l z' : pstep z l = Some z' -> lz z' = lz z ++ [l].
Proof.
  destruct z as [cur stk], l as [id k]. unfold lz. cbn [fst snd Spec.C01b.pstep].
  destruct k as [a|c|c| |].
  - intros H; inversion H; subst; clear H. cbn [fst snd]. rewrite flats_snoc. cbn [Spec.C01.flat]. apply lz_stk_app.
  - intros H; inversion H; subst; clear H. cbn [fst snd lz_stk].
    rewrite <- lz_stk_app. f_equal. unfold prefix. cbn [pbefore pid pc pst rev].
    rewrite flats_nil, app_nil_r, <- ?app_assoc. reflexivity.
  - destruct stk as [|f r]; [discriminate|]. intros H; inversion H; subst; clear H. cbn [fst snd lz_stk].
    rewrite <- lz_stk_app. f_equal. rewrite prefix_close_group. cbn [rev].
    rewrite flats_nil, app_nil_r, <- ?app_assoc. reflexivity.
  - destruct stk as [|f r]; [discriminate|]. intros H; inversion H; subst; clear H. cbn [fst snd lz_stk].
    rewrite <- lz_stk_app. f_equal. rewrite prefix_close_group. cbn [rev].
    rewrite flats_nil, app_nil_r, <- ?app_assoc. reflexivity.
  - destruct stk as [|f r]; [discriminate|]. intros H; inversion H; subst; clear H. cbn [fst snd lz_stk].
    rewrite flats_snoc.
    rewrite <- lz_stk_app. f_equal.
    rewrite (flat_close_chain f cur id). rewrite <- !app_assoc. reflexivity.
Qed.

Lemma psteps_lz ls : forall z z', psteps z ls = Some z' -> lz z' = lz z ++ ls.
Proof.
  induction ls as [|l ls IH]; intros z z' H; cbn [Spec.C01b.psteps] in H.
  - inversion H; subst. rewrite app_nil_r. reflexivity.
  - destruct (pstep z l) as [z1|] eqn:E; [|discriminate].
    rewrite (IH _ _ H), (pstep_lz _ _ _ E), <- app_assoc. reflexivity.
Qed.

(* soundness of the parser *)
Theorem parse_sound ls its : parse ACT COND ls = Some its -> ls = flats its.
Proof.
  unfold parse. destruct (psteps ([], []) ls) as [[cur stk]|] eqn:E; [|discriminate].
  destruct stk; [|discriminate]. intros H; inversion H; subst; clear H.
  apply psteps_lz in E. unfold lz in E. cbn in E. symmetry. exact E.
Qed.

(* completeness: the boolean nesting check implies the parser succeeds *)
Lemma psteps_complete ls : forall cur stk,
  balanced_from ACT COND (List.length stk) ls = true -> exists cur', psteps (cur, stk) ls = Some (cur', []).
Proof.
  induction ls as [|[id k] ls IH]; intros cur stk H; cbn [Spec.C01b.balanced_from Spec.C01b.psteps] in *.
  - destruct stk; [exists cur; reflexivity|discriminate].
  - destruct k as [a|c|c| |]; cbn [Spec.C01b.pstep].
    + apply IH; exact H.
    + apply (IH [] ({| pbefore := cur; pid := id; pc := c; pst := PFirst ACT COND |} :: stk)). exact H.
    + destruct stk as [|f r]; [discriminate|]. apply (IH [] (_ :: r)). exact H.
    + destruct stk as [|f r]; [discriminate|]. apply (IH [] (_ :: r)). exact H.
    + destruct stk as [|f r]; [discriminate|]. apply IH. exact H.
Qed.

Theorem balanced_is_structured ls : balanced ACT COND ls = true -> exists its, ls = flats its.
Proof.
  intros H. destruct (psteps_complete ls [] [] H) as [cur' E].
  exists (rev cur'). apply parse_sound. unfold parse. rewrite E. reflexivity.
Qed.

End Generic.

Section Attribution.
Variables ST ACT COND : Type.
Variable mark : nat -> ST -> ST.
Variable exec : ACT -> ST -> res ST.
Variable ev : COND -> ST -> res bool.

Theorem attribution_balanced ls p : balanced ACT COND ls = true ->
  run_M ST ACT COND mark exec ev ls p = run_S ST ACT COND mark exec ev ls p.
Proof.
  intros H. destruct (balanced_is_structured ACT COND ls H) as [its ->]. apply attribution.
Qed.
End Attribution.
