(* C02 proofs, part 7: the lexer on ARBITRARY spacing.  Between two tokens of an expression there
   may be any run of blanks/tabs/newlines, or nothing at all provided the two tokens do not merge
   (a decidable adjacency condition [follows_ok]); the model of Lexer.tokenize still returns exactly
   the token sequence of the tree.  `#if defined(A)&&B>=2` and `#if  defined ( A )  &&  B >= 2`
   are both covered. *)
From Coq Require Import ZArith Bool String Ascii List Lia ZifyBool Arith.
From CBI Require Import Lib.Data Gen.C02_tables Model.C02 Model.C02lex Spec.C02 Proofs.C02 Proofs.C02s Proofs.C02l Proofs.C02g Proofs.C02x.
Import ListNotations.
Local Open Scope Z_scope.

(* may character c directly follow the text of token t without changing how t is read? *)
Definition last_char (s : string) : ascii :=
  match rev (list_of_string s) with c :: _ => c | [] => sp end.
Definition follows_ok (t : token) (c : ascii) : bool :=
  match tkind t with
  | KNum => negb (num_char c) && negb (is_exponent (last_char (tspell t)) c)
  | KId => negb (id_char c)
  | KOp => is_ws c || negb (existsb (String.eqb (tspell t ++ String c EmptyString)) lexer_operators)
  | KPunct | KChar => true
  | _ => false
  end.
Definition gap_ok (t : token) (rest : list ascii) : Prop :=
  rest = [] \/ exists c r, rest = c :: r /\ follows_ok t c = true.

Definition lexable' (t : token) : Prop :=
  (forall rest, gap_ok t rest -> tokenize_one (text_of t ++ rest) = Some (t, rest)) /\
  (exists c r, text_of t = c :: r /\ is_ws c = false).

(* ------------------------------------------------------------------ the text: token, then its trailing blanks *)
Fixpoint glue (l : list (token * list ascii)) : list ascii :=
  match l with
  | [] => []
  | (t, w) :: r => text_of t ++ w ++ glue r
  end.

Definition blanks (w : list ascii) : Prop := Forall (fun c => is_ws c = true) w.

(* the adjacency condition, decidable *)
Fixpoint glue_ok (l : list (token * list ascii)) : bool :=
  match l with
  | [] => true
  | (t, w) :: r =>
      forallb is_ws w &&
      match w ++ glue r with
      | [] => true
      | c :: _ => is_ws c || follows_ok t c
      end && glue_ok r
  end.

Lemma ws_follows t c : lexable' t -> is_ws c = true -> tkind t <> KStr -> tkind t <> KUnk -> follows_ok t c = true.
Proof.
  intros _ Hc N1 N2. unfold follows_ok. destruct (tkind t) eqn:K; try congruence; try reflexivity.
  - assert (A : num_char c = false).
    { unfold is_ws, lexer_whitespace in Hc. cbn [existsb] in Hc. unfold num_char, is_alp, is_dig, is_ch. lia. }
    rewrite A. cbn [negb andb].
    assert (B : is_exponent (last_char (tspell t)) c = false).
    { unfold is_exponent, lexer_exponents. cbn [existsb String.eqb].
      assert (P : Ascii.eqb c "+" = false /\ Ascii.eqb c "-" = false).
      { split; apply Ascii.eqb_neq; intros ->; vm_compute in Hc; discriminate. }
      destruct P as [P1 P2]. rewrite P1, P2.
      repeat match goal with |- context [Ascii.eqb (last_char ?s) ?k] => destruct (Ascii.eqb (last_char s) k) end; reflexivity. }
    rewrite B. reflexivity.
  - unfold is_ws, lexer_whitespace in Hc. cbn [existsb] in Hc. unfold id_char, is_aln, is_alp, is_dig, is_ch. lia.
  - rewrite Hc. reflexivity.
Qed.

Lemma skip_ws_blanks w s : blanks w -> skip_ws (w ++ s) = skip_ws s.
Proof. induction 1 as [|c w Hc _ IH]; [reflexivity|]. cbn [app skip_ws]. rewrite Hc. exact IH. Qed.

Definition plain (t : token) : Prop := tkind t <> KStr /\ tkind t <> KUnk.

Lemma tokenize_glue l : Forall (fun p => lexable' (fst p) /\ plain (fst p)) l -> glue_ok l = true ->
  forall f, (List.length l < f)%nat -> tokenize_fuel f (glue l) = Some (map fst l).
Proof.
  induction 1 as [|[t w] r [Ht Pt] Hr IH]; intros G f Hf.
  - destruct f; [lia|]. reflexivity.
  - destruct f as [|f]; [lia|]. cbn [List.length] in Hf. cbn [glue_ok] in G. cbn [fst] in Ht, Pt.
    apply andb_true_iff in G. destruct G as [G Gr]. apply andb_true_iff in G. destruct G as [Gw Gc].
    assert (Bw : blanks w) by (apply Forall_forall; intros x Hx; exact (proj1 (forallb_forall _ _) Gw x Hx)).
    cbn [glue map fst]. destruct Ht as [Hone (c & u & Htx & Hc)].
    assert (Hgap : gap_ok t (w ++ glue r)).
    { destruct (w ++ glue r) as [|c0 r0] eqn:E; [left; reflexivity|]. right. exists c0, r0. split; [reflexivity|].
      apply orb_true_iff in Gc. destruct Gc as [Gc|Gc]; [|exact Gc].
      apply ws_follows; [split; [exact Hone|eauto]|exact Gc|exact (proj1 Pt)|exact (proj2 Pt)]. }
    cbn [tokenize_fuel]. rewrite Htx. cbn [app skip_ws]. rewrite Hc.
    change (c :: u ++ w ++ glue r) with ((c :: u) ++ w ++ glue r). rewrite <- Htx. rewrite (Hone _ Hgap).
    assert (E : tokenize_fuel f (w ++ glue r) = Some (map fst r)).
    { destruct r as [|[t2 w2] r2].
      - cbn [glue map]. rewrite app_nil_r. destruct f; [lia|]. cbn [tokenize_fuel].
        rewrite <- (app_nil_r w), (skip_ws_blanks w [] Bw). reflexivity.
      - destruct f as [|f2]; [cbn [List.length] in Hf; lia|].
        specialize (IH Gr (S f2) ltac:(cbn [List.length] in *; lia)).
        cbn [tokenize_fuel] in *. rewrite (skip_ws_blanks w _ Bw). exact IH. }
    rewrite E. reflexivity.
Qed.

Lemma glue_length l : Forall (fun p => lexable' (fst p) /\ plain (fst p)) l -> (List.length l <= List.length (glue l))%nat.
Proof.
  induction 1 as [|[t w] r [[_ (c & u & E & _)] _] Hr IH]; [cbn; lia|]. cbn [glue List.length fst] in *.
  rewrite !app_length, E. cbn [List.length]. lia.
Qed.

Theorem tokenize_glue_ok l : Forall (fun p => lexable' (fst p) /\ plain (fst p)) l -> glue_ok l = true ->
  tokenize (glue l) = Some (map fst l).
Proof. intros H G. unfold tokenize. apply tokenize_glue; [exact H|exact G|]. pose proof (glue_length l H). lia. Qed.

(* ------------------------------------------------------------------ the token classes *)
Lemma lexable'_paren t : t = lpar \/ t = rpar -> lexable' t.
Proof. intros [->| ->]; (split; [intros rest _; reflexivity|do 2 eexists; split; reflexivity]). Qed.

Lemma lexable'_char s v : char_sem s = Some v -> lexable' (Tok KChar s).
Proof. intros H. destruct (lexable_char s v H) as [_ B]. split; [|exact B].
  intros rest _. unfold text_of. cbn [tkind tspell].
  unfold tokenize_one, lexer_candidates. cbn [first_candidate candidate String.eqb Ascii.eqb Bool.eqb app].
  rewrite <- app_assoc. cbn [app].
  assert (LN : forall X, lex_number (quote :: X) = None) by reflexivity. rewrite LN.
  rewrite (lex_char_ok s v rest H). rewrite sol_los. reflexivity.
Qed.

Lemma lexable'_ident name : ident_ok name = true -> lexable' (Tok KId name).
Proof.
  intros H0. destruct (lexable_ident name H0) as [_ B]. split; [|exact B]. revert H0.
  unfold ident_ok. destruct (list_of_string name) as [|c cs] eqn:E; [discriminate|]. intros H.
  apply andb_true_iff in H. destruct H as [H Hcs]. apply andb_true_iff in H. destruct H as [Hc Hd].
  destruct (id_char_facts c Hc) as (F1 & F2 & F3 & F4). apply negb_true_iff in Hd.
  intros rest Hs. unfold text_of. cbn [tkind tspell]. rewrite E. cbn [app].
  unfold tokenize_one, lexer_candidates. cbn [first_candidate candidate String.eqb Ascii.eqb Bool.eqb].
  unfold lex_number. rewrite F1, Hd. unfold lex_char. rewrite F2. unfold lex_string. rewrite F3.
  unfold lex_ident. rewrite Hc, Hd. cbn [andb negb].
  change (c :: cs ++ rest) with ((c :: cs) ++ rest).
  rewrite (take_while_all id_char (c :: cs) (List.length ((c :: cs) ++ rest)) rest).
  - rewrite <- E, sol_los. reflexivity.
  - constructor; [exact Hc|]. apply Forall_forall. intros x Hx. exact (proj1 (forallb_forall _ _) Hcs x Hx).
  - rewrite app_length. destruct Hs as [->|(c0 & r0 & -> & Hf)].
    + left. cbn [List.length]. lia.
    + right. split; [cbn [List.length]; lia|]. right. exists c0, r0. split; [reflexivity|].
      unfold follows_ok in Hf. cbn [tkind] in Hf. apply negb_true_iff in Hf. exact Hf.
Qed.

(* numbers *)
Lemma exp_is_alpha a b : is_exponent a b = true -> num_char a = true.
Proof.
  unfold is_exponent, lexer_exponents. cbn [existsb String.eqb].
  repeat match goal with
         | |- context [Ascii.eqb a ?k] => destruct (Ascii.eqb_spec a k) as [?|?]; [subst a; intros _; reflexivity|]
         end.
  cbv iota. cbn [orb]. intros H. discriminate H.
Qed.

Lemma num_tail_nonnum c r : num_char c = false -> num_tail (c :: r) = ([], c :: r).
Proof.
  intros H. destruct r as [|b r]; cbn [num_tail]; rewrite H; [reflexivity|].
  destruct (is_exponent c b) eqn:E; [|reflexivity]. apply exp_is_alpha in E. congruence.
Qed.

Lemma num_tail_eq_x a b r :
  num_tail (a :: b :: r) =
  if is_exponent a b then let (x, y) := num_tail r in (a :: b :: x, y)
  else if num_char a then let (x, y) := num_tail (b :: r) in (a :: x, y)
  else ([], a :: b :: r).
Proof. reflexivity. Qed.

Definition lastopt (cs : list ascii) : option ascii := match rev cs with x :: _ => Some x | [] => None end.
Lemma lastopt_cons a b t : lastopt (a :: b :: t) = lastopt (b :: t).
Proof.
  unfold lastopt. cbn [rev]. destruct (rev t ++ [b]) as [|x l] eqn:R; [|reflexivity].
  apply app_eq_nil in R. destruct R as [_ R]. discriminate.
Qed.

Definition tail_ok (lastc : option ascii) (rest : list ascii) : Prop :=
  rest = [] \/ exists c r, rest = c :: r /\ num_char c = false /\
                           match lastc with Some a => is_exponent a c = false | None => True end.

Lemma num_tail_word cs : forall rest, Forall (fun c => is_aln c = true) cs -> tail_ok (lastopt cs) rest ->
  num_tail (cs ++ rest) = (cs, rest).
Proof.
  induction cs as [|a t IH]; intros rest Hall Hs.
  - cbn [app]. destruct Hs as [->|(c & r & -> & Hn & _)]; [reflexivity|apply num_tail_nonnum; exact Hn].
  - inversion Hall as [|? ? Ha Ht]; subst. destruct t as [|b' t'].
    + cbn [app]. destruct Hs as [->|(c & r & -> & Hn & He)].
      * cbn [num_tail]. rewrite (aln_num_char a Ha). reflexivity.
      * rewrite num_tail_eq_x. cbn [lastopt rev app] in He. rewrite He, (aln_num_char a Ha).
        rewrite (num_tail_nonnum c r Hn). reflexivity.
    + cbn [app]. rewrite num_tail_eq_x. inversion Ht as [|? ? Hb' Ht']; subst.
      rewrite (aln_not_exp a b' (or_introl Hb')), (aln_num_char a Ha).
      change (b' :: t' ++ rest) with ((b' :: t') ++ rest). rewrite (IH rest Ht); [reflexivity|].
      rewrite lastopt_cons in Hs. exact Hs.
Qed.

Lemma lastopt_last s c cs : list_of_string s = c :: cs ->
  match lastopt cs with Some a => a | None => c end = last_char s.
Proof.
  intros E. unfold last_char, lastopt. rewrite E. cbn [rev].
  destruct (rev cs) as [|x l]; reflexivity.
Qed.

Lemma lexable'_num s : word_num (list_of_string s) -> lexable' (Tok KNum s).
Proof.
  intros W. destruct (lexable_num s W) as [_ B]. split; [|exact B].
  destruct W as (d & cs & E & Hd & Hcs).
  intros rest Hs. unfold text_of. cbn [tkind tspell]. rewrite E. cbn [app].
  unfold tokenize_one, lexer_candidates. cbn [first_candidate candidate String.eqb Ascii.eqb Bool.eqb].
  unfold lex_number. rewrite (dig_not_dot d Hd), Hd.
  assert (T : num_tail (cs ++ rest) = (cs, rest)).
  { destruct Hs as [->|(c & r & -> & Hf)].
    - apply num_tail_word; [exact Hcs|left; reflexivity].
    - unfold follows_ok in Hf. cbn [tkind tspell] in Hf. apply andb_true_iff in Hf. destruct Hf as [Hn He].
      apply negb_true_iff in Hn, He. pose proof (lastopt_last s d cs E) as LL.
      destruct cs as [|c1 cs1].
      + (* a one-digit number: the digit itself must not form an exponent (it cannot) *)
        cbn [app]. apply num_tail_nonnum. exact Hn.
      + apply num_tail_word; [exact Hcs|]. right. exists c, r. split; [reflexivity|]. split; [exact Hn|].
        destruct (lastopt (c1 :: cs1)) as [a|] eqn:LO.
        * rewrite <- LL in He. exact He.
        * exact I. }
  rewrite T. cbn [app]. rewrite <- E, sol_los. reflexivity.
Qed.

Lemma lexable'_literal body sfx v : lit_sem body sfx = Some v -> lexable' (Tok KNum (body ++ sfx)).
Proof. intros H. apply lexable'_num. exact (literal_word _ _ _ H). Qed.

(* operators: nothing that would make a longer operator may follow directly *)
Ltac op_case :=
  split; [|do 2 eexists; split; reflexivity];
  intros rest [->|(c & r & -> & Hf)]; [reflexivity|];
  unfold follows_ok in Hf; cbn [tkind tspell bop uop qm colon bspell uspell] in Hf;
  unfold text_of; cbn [tkind tspell bop uop qm colon bspell uspell list_of_string app];
  (* operators that no two-character operator extends never look at c *)
  try reflexivity;
  (* the others: all 256 values of c; either a longer operator would be read (excluded by Hf) or not *)
  destruct c as [[] [] [] [] [] [] [] []]; first [reflexivity | vm_compute in Hf; discriminate Hf].

Lemma lexable'_bop o : lexable' (bop o).
Proof. destruct o; op_case. Qed.
Lemma lexable'_uop o : lexable' (uop o).
Proof. destruct o; op_case. Qed.
Lemma lexable'_qm : lexable' qm.
Proof. op_case. Qed.
Lemma lexable'_colon : lexable' colon.
Proof. op_case. Qed.

(* ------------------------------------------------------------------ expressions *)
Definition good_tok (t : token) : Prop := lexable' t /\ plain t.

Lemma good_wrap (need : nat) x ts : Forall good_tok ts ->
  Forall good_tok (if (expr_level x <? need)%nat then lpar :: ts ++ [rpar] else ts).
Proof.
  intros H. destruct (expr_level x <? need)%nat; [|exact H].
  assert (L : good_tok lpar) by (split; [apply lexable'_paren; left; reflexivity|split; discriminate]).
  assert (R : good_tok rpar) by (split; [apply lexable'_paren; right; reflexivity|split; discriminate]).
  constructor; [exact L|]. apply Forall_app. split; [exact H|]. constructor; [exact R|constructor].
Qed.

Lemma good_raw e : forall u, static e = Some u -> names_ok e = true -> Forall good_tok (tokens_raw dt_source e).
Proof.
  assert (L : good_tok lpar) by (split; [apply lexable'_paren; left; reflexivity|split; discriminate]).
  assert (R : good_tok rpar) by (split; [apply lexable'_paren; right; reflexivity|split; discriminate]).
  assert (OB : forall o, good_tok (bop o)) by (intros o; split; [apply lexable'_bop|split; discriminate]).
  assert (OU : forall o, good_tok (uop o)) by (intros o; split; [apply lexable'_uop|split; discriminate]).
  assert (QM : good_tok qm) by (split; [apply lexable'_qm|split; discriminate]).
  assert (CO : good_tok colon) by (split; [apply lexable'_colon|split; discriminate]).
  assert (ID : forall n, ident_ok n = true -> good_tok (Tok KId n)) by (intros n H; split; [apply lexable'_ident; exact H|split; discriminate]).
  induction e as [body sfx|s|name|name paren|x IHx|o x IHx|o a IHa b IHb|c IHc a IHa b IHb]; intros u; cbn [static names_ok tokens_raw].
  - destruct (lit_sem body sfx) as [v|] eqn:E; [|discriminate]. intros _ _.
    constructor; [split; [exact (lexable'_literal _ _ _ E)|split; discriminate]|constructor].
  - destruct (char_sem s) as [v|] eqn:E; [|discriminate]. intros _ _.
    constructor; [split; [exact (lexable'_char _ _ E)|split; discriminate]|constructor].
  - intros _ H. constructor; [exact (ID _ H)|constructor].
  - intros _ H. unfold dt_source. pose proof (ID "defined"%string eq_refl) as D.
    destruct paren; repeat (constructor; try assumption); apply ID; exact H.
  - intros S N. constructor; [exact L|]. apply Forall_app. split; [exact (IHx u S N)|]. constructor; [exact R|constructor].
  - destruct (static x) as [ux|] eqn:Sx; [|discriminate]. intros _ N.
    constructor; [apply OU|]. apply good_wrap. exact (IHx ux eq_refl N).
  - destruct (static a) as [ua|] eqn:Sa; [|discriminate]. destruct (static b) as [ub|] eqn:Sb; [|discriminate].
    intros _ N. apply andb_true_iff in N. destruct N as [Na Nb].
    apply Forall_app. split; [apply good_wrap; exact (IHa ua eq_refl Na)|].
    constructor; [apply OB|]. apply good_wrap. exact (IHb ub eq_refl Nb).
  - destruct (static c) as [uc|] eqn:Sc; [|discriminate]. destruct (static a) as [ua|] eqn:Sa; [|discriminate].
    destruct (static b) as [ub|] eqn:Sb; [|discriminate].
    intros _ N. apply andb_true_iff in N. destruct N as [N Nb]. apply andb_true_iff in N. destruct N as [Nc Na].
    apply Forall_app. split; [apply good_wrap; exact (IHc uc eq_refl Nc)|].
    constructor; [exact QM|]. apply Forall_app. split; [exact (IHa ua eq_refl Na)|].
    constructor; [exact CO|]. apply good_wrap. exact (IHb ub eq_refl Nb).
Qed.

Lemma combine_good (ts : list token) : forall (ws : list (list ascii)), Forall good_tok ts ->
  Forall (fun p => lexable' (fst p) /\ plain (fst p)) (combine ts ws).
Proof.
  induction ts as [|t r IH]; intros ws H; [constructor|]. destruct ws as [|w ws]; [constructor|].
  inversion H; subst. cbn [combine]. constructor; [assumption|apply IH; assumption].
Qed.
Lemma map_fst_combine_eq (ts : list token) : forall (ws : list (list ascii)),
  List.length ws = List.length ts -> map fst (combine ts ws) = ts.
Proof.
  induction ts as [|t r IH]; intros ws H; [reflexivity|]. destruct ws as [|w ws]; [discriminate|].
  cbn [combine map fst]. rewrite IH; [reflexivity|]. cbn [List.length] in H. lia.
Qed.

(* ws: the (possibly empty) run of blanks written after each token *)
Theorem lex_tokens_spaced need e u (ws : list (list ascii)) :
  static e = Some u -> names_ok e = true ->
  List.length ws = List.length (tokens dt_source need e) ->
  glue_ok (combine (tokens dt_source need e) ws) = true ->
  tokenize (glue (combine (tokens dt_source need e) ws)) = Some (tokens dt_source need e).
Proof.
  intros S N Hl G.
  assert (F : Forall good_tok (tokens dt_source need e)) by (unfold tokens; apply good_wrap; exact (good_raw e u S N)).
  rewrite (tokenize_glue_ok _ (combine_good _ ws F) G).
  rewrite map_fst_combine_eq; [reflexivity|exact Hl].
Qed.

(* from the text with arbitrary spacing to ISO C's value *)
Theorem text_to_value_spaced env e v (ws : list (list ascii)) :
  names_ok e = true -> ids_ok env e = true -> guard e = true -> sem (map fst env) e = Some v ->
  List.length ws = List.length (tokens dt_source 0 e) ->
  glue_ok (combine (tokens dt_source 0 e) ws) = true ->
  evaluate_text env (glue (combine (tokens dt_source 0 e) ws)) = OVal v.
Proof.
  intros N I G S Hl Hg. destruct (sem_static _ _ _ S) as [u U].
  unfold evaluate_text. rewrite (lex_tokens_spaced 0 e u ws U N Hl Hg). apply evaluate_for_platform_ok; assumption.
Qed.
