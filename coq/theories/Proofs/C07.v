(* C07 proofs, part 1: the model's folds as weighted sums (the "algebraic form");
   symmetry, diagonal. *)
From Coq Require Import ZArith QArith String Bool Lia ZifyBool Permutation List.
From CBI Require Import Lib.Data Model.C07 Spec.C07.
Import ListNotations.
Local Open Scope Z_scope.

(* weighted count of the rows whose platform set satisfies f *)
Fixpoint wsum (f : pset -> bool) (t : table) : Z :=
  match t with
  | [] => 0
  | r :: t' => (if f (fst r) then snd r else 0) + wsum f t'
  end.
Definition wtot (t : table) : Z := wsum (fun _ => true) t.
Definition f_or (p q : string) (s : pset) : bool := mem p s || mem q s.
Definition f_xor (p q : string) (s : pset) : bool := xorb (mem p s) (mem q s).

(* ---- oeq is an equivalence ---- *)
Lemma oeq_refl a : oeq a a.
Proof. destruct a; cbn; [reflexivity | exact I]. Qed.
Lemma oeq_sym a b : oeq a b -> oeq b a.
Proof. destruct a, b; cbn; intros H; try exact H. symmetry; exact H. Qed.
Lemma oeq_trans a b c : oeq a b -> oeq b c -> oeq a c.
Proof. destruct a, b, c; cbn; intros H1 H2; try contradiction; try exact I. rewrite H1; exact H2. Qed.
Lemma oeq_of_eq a b : a = b -> oeq a b.
Proof. intros ->; apply oeq_refl. Qed.

(* ---- wsum ---- *)
Lemma fold_wsum (f : pset -> bool) (t : table) : forall acc : Z,
  fold_left (fun acc (r : row) => if f (fst r) then acc + snd r else acc) t acc = acc + wsum f t.
Proof.
  induction t as [|r t IH]; intros acc; cbn [fold_left wsum]; [lia|].
  rewrite IH. destruct (f (fst r)); lia.
Qed.

Lemma wsum_ext f g t : (forall s, f s = g s) -> wsum f t = wsum g t.
Proof. intros H. induction t as [|r t IH]; cbn [wsum]; [reflexivity|]. rewrite H, IH. reflexivity. Qed.

Lemma wsum_false f t : (forall s, f s = false) -> wsum f t = 0.
Proof. intros H. induction t as [|r t IH]; cbn [wsum]; [reflexivity|]. rewrite H, IH. reflexivity. Qed.

Lemma wsum_nonneg f t : wf t -> 0 <= wsum f t.
Proof.
  induction t as [|r t IH]; intros W; cbn [wsum]; [lia|].
  assert (0 <= snd r) by (apply W; left; reflexivity).
  assert (0 <= wsum f t) by (apply IH; intros r' Hr'; apply W; right; exact Hr').
  destruct (f (fst r)); lia.
Qed.

Lemma wsum_le f g t : wf t -> (forall s, f s = true -> g s = true) -> wsum f t <= wsum g t.
Proof.
  induction t as [|r t IH]; intros W H; cbn [wsum]; [lia|].
  assert (0 <= snd r) by (apply W; left; reflexivity).
  assert (wsum f t <= wsum g t) by (apply IH; [intros r' Hr'; apply W; right; exact Hr' | exact H]).
  specialize (H (fst r)).
  destruct (f (fst r)), (g (fst r)); try lia; try (discriminate H; reflexivity).
Qed.

Lemma wf_tail r t : wf (r :: t) -> wf t.
Proof. intros W r' Hr'; apply W; right; exact Hr'. Qed.

(* ---- the two loops of distance ---- *)
Lemma dist_total_wsum t p q : dist_total t p q = wsum (f_or p q) t.
Proof. unfold dist_total. rewrite (fold_wsum (f_or p q)). lia. Qed.

Lemma fold_frac (f : pset -> bool) (T : Z) (t : table) : forall acc : Q,
  (fold_left (fun (acc : Q) (r : row) => if f (fst r) then Qred (acc + inject_Z (snd r) / inject_Z T) else acc) t acc
   == acc + inject_Z (wsum f t) / inject_Z T)%Q.
Proof.
  induction t as [|r t IH]; intros acc; cbn [fold_left wsum].
  - unfold Qdiv. change (inject_Z 0) with 0%Q. ring.
  - rewrite IH. destruct (f (fst r)).
    + rewrite Qred_correct, inject_Z_plus. unfold Qdiv. ring.
    + rewrite Z.add_0_l. reflexivity.
Qed.

Lemma dist_frac_wsum t p q T : (dist_frac t p q T == inject_Z (wsum (f_xor p q) t) / inject_Z T)%Q.
Proof. unfold dist_frac. rewrite (fold_frac (f_xor p q)). ring. Qed.

(* the algebraic form of distance *)
Lemma distance_alg t p q : oeq (distance t p q) (ratio (wsum (f_xor p q) t) (wsum (f_or p q) t)).
Proof.
  unfold distance, ratio. rewrite dist_total_wsum.
  destruct (wsum (f_or p q) t =? 0); cbn; [exact I | apply dist_frac_wsum].
Qed.

(* ---- symmetry and diagonal: Leibniz equalities ---- *)
Lemma fold_left_ext {A B} (f g : A -> B -> A) (l : list B) : (forall a b, f a b = g a b) ->
  forall a, fold_left f l a = fold_left g l a.
Proof. intros H. induction l as [|b l IH]; intros a; cbn [fold_left]; [reflexivity|]. rewrite H. apply IH. Qed.

Lemma distance_sym t p q : distance t p q = distance t q p.
Proof.
  unfold distance.
  assert (E : dist_total t p q = dist_total t q p).
  { rewrite !dist_total_wsum. apply wsum_ext. intros s; apply orb_comm. }
  rewrite E. destruct (dist_total t q p =? 0); [reflexivity|]. f_equal.
  unfold dist_frac. apply fold_left_ext. intros a r. rewrite xorb_comm. reflexivity.
Qed.

Lemma uses_nonzero_iff t p : dist_total t p p = wsum (mem p) t.
Proof. rewrite dist_total_wsum. apply wsum_ext. intros s. unfold f_or. apply orb_diag. Qed.

Lemma distance_diag t p :
  match distance t p p with
  | Some d => (d == 0)%Q /\ wsum (mem p) t <> 0
  | None => wsum (mem p) t = 0
  end.
Proof.
  unfold distance. rewrite uses_nonzero_iff.
  destruct (wsum (mem p) t =? 0) eqn:E; [lia|]. split; [|lia].
  rewrite dist_frac_wsum.
  rewrite (wsum_false (f_xor p p)) by (intros; apply xorb_nilpotent).
  unfold Qdiv. change (inject_Z 0) with 0%Q. ring.
Qed.

(* ---- coverage ---- *)
Lemma hits_nil ps : hits ps [] = false.
Proof. reflexivity. Qed.

Lemma cov_fold ps t : forall u n, fold_left (cov_step ps) t (u, n) = (u + wsum (hits ps) t, n + wtot t).
Proof.
  unfold wtot. induction t as [|r t IH]; intros u n; cbn [fold_left wsum].
  - f_equal; lia.
  - unfold cov_step at 2. cbn [fst snd].
    destruct (fst r) as [|x s] eqn:Er.
    + rewrite IH. rewrite hits_nil. f_equal; lia.
    + destruct (hits ps (x :: s)); rewrite IH; f_equal; lia.
Qed.

Lemma cov_counts_wsum ps t : cov_counts ps t = (wsum (hits ps) t, wtot t).
Proof. unfold cov_counts. rewrite cov_fold. f_equal; lia. Qed.

Lemma coverage_on_alg t ps :
  coverage_on t ps = if wtot t =? 0 then None else Some (pct (wsum (hits ps) t) (wtot t)).
Proof. unfold coverage_on. rewrite cov_counts_wsum. reflexivity. Qed.

Lemma pct_times100 a b : (pct a b == 100 * (inject_Z a / inject_Z b))%Q.
Proof. unfold pct. ring. Qed.

Lemma coverage_on_ratio t ps : oeq (coverage_on t ps) (times100 (ratio (wsum (hits ps) t) (wtot t))).
Proof.
  rewrite coverage_on_alg. unfold ratio, times100.
  destruct (wtot t =? 0); cbn; [exact I | apply pct_times100].
Qed.

(* ---- sums of possibly-NaN numbers ---- *)
Lemma osum_none l : fold_left oadd l None = None.
Proof. induction l as [|a l IH]; cbn; [reflexivity | exact IH]. Qed.

Lemma fold_oadd_some l : forall acc,
  fold_left oadd l (Some acc) = if all_defined l then Some (fold_left Qplus (map (fun o => match o with Some x => x | None => 0%Q end) l) acc) else None.
Proof.
  induction l as [|a l IH]; intros acc; cbn [fold_left all_defined map]; [reflexivity|].
  destruct a as [x|]; cbn [oadd]; [apply IH | apply osum_none].
Qed.

Lemma fold_qplus l : forall acc, (fold_left Qplus l acc == acc + fold_right Qplus 0 l)%Q.
Proof.
  induction l as [|x l IH]; intros acc; cbn [fold_left fold_right]; [ring|].
  rewrite IH. ring.
Qed.

Lemma total_of_sum l : (total_of l == fold_right Qplus 0 (map (fun o => match o with Some x => x | None => 0%Q end) l))%Q.
Proof.
  induction l as [|a l IH]; cbn [total_of map fold_right]; [reflexivity|].
  destruct a; rewrite IH; ring.
Qed.

(* the loop `sum([...]) / len` is the mean *)
Lemma osum_mean l : l <> [] -> oeq (odiv_n (osum l) (length l)) (mean l).
Proof.
  intros NE. unfold osum. rewrite fold_oadd_some. unfold mean.
  destruct l as [|a l]; [contradiction|].
  destruct (all_defined (a :: l)); cbn [odiv_n oeq]; [|exact I].
  rewrite fold_qplus, total_of_sum. unfold Qdiv. ring.
Qed.

Lemma all_defined_forall l : all_defined l = true <-> forall o, In o l -> o <> None.
Proof.
  induction l as [|a l IH]; cbn [all_defined].
  - split; [intros _ o [] | reflexivity].
  - destruct a as [x|].
    + rewrite IH. split.
      * intros H o [<-|Ho]; [discriminate | apply H; exact Ho].
      * intros H o Ho. apply H. right; exact Ho.
    + split; [discriminate|]. intros H. exfalso. apply (H None); [left|]; reflexivity.
Qed.

(* mean respects pointwise oeq *)
Lemma mean_proper l l' : Forall2 oeq l l' -> oeq (mean l) (mean l').
Proof.
  intros H.
  assert (E : all_defined l = all_defined l' /\ (total_of l == total_of l')%Q /\ length l = length l').
  { induction H as [|a b l l' Hab H IH]; [repeat split; reflexivity|].
    destruct IH as [E1 [E2 E3]]. destruct a, b; cbn in Hab; try contradiction; cbn [all_defined total_of length];
      repeat split; try congruence. rewrite Hab, E2. reflexivity. }
  destruct E as [E1 [E2 E3]]. unfold mean.
  destruct H as [|a b l l' Hab H]; [exact I|].
  rewrite E1, E3. destruct (all_defined (b :: l')); cbn; [|exact I]. rewrite E2. reflexivity.
Qed.
