(* C07 proofs, part 1: the model's folds as weighted sums; symmetry, diagonal. *)
From Coq Require Import ZArith QArith String Bool Lia ZifyBool Permutation List.
From CBI Require Import Lib.Data Model.C07.
Import ListNotations.
Local Open Scope Z_scope.

(* weighted count of the rows whose platform set satisfies f *)
Fixpoint wsum (f : pset -> bool) (t : table) : Z :=
  match t with
  | [] => 0
  | r :: t' => (if f (fst r) then snd r else 0) + wsum f t'
  end.

Lemma fold_wsum (f : pset -> bool) (t : table) : forall acc : Z,
  fold_left (fun acc (r : row) => if f (fst r) then acc + snd r else acc) t acc = acc + wsum f t.
Proof.
  induction t as [|r t IH]; intros acc; cbn [fold_left wsum]; [lia|].
  rewrite IH. destruct (f (fst r)); lia.
Qed.

Lemma dist_total_wsum t p q : dist_total t p q = wsum (fun s => mem p s || mem q s) t.
Proof. unfold dist_total. rewrite (fold_wsum (fun s => mem p s || mem q s)). lia. Qed.
Lemma dist_diff_wsum t p q : dist_diff t p q = wsum (fun s => xorb (mem p s) (mem q s)) t.
Proof. unfold dist_diff. rewrite (fold_wsum (fun s => xorb (mem p s) (mem q s))). lia. Qed.

Lemma wsum_ext f g t : (forall s, f s = g s) -> wsum f t = wsum g t.
Proof. intros H. induction t as [|r t IH]; cbn [wsum]; [reflexivity|]. rewrite H, IH. reflexivity. Qed.

Lemma distance_sym t p q : distance t p q = distance t q p.
Proof.
  unfold distance. rewrite !dist_total_wsum, !dist_diff_wsum.
  rewrite (wsum_ext (fun s => mem p s || mem q s) (fun s => mem q s || mem p s)) by (intros; apply orb_comm).
  rewrite (wsum_ext (fun s => xorb (mem p s) (mem q s)) (fun s => xorb (mem q s) (mem p s))) by (intros; apply xorb_comm).
  reflexivity.
Qed.

Lemma wsum_false f t : (forall s, f s = false) -> wsum f t = 0.
Proof. intros H. induction t as [|r t IH]; cbn [wsum]; [reflexivity|]. rewrite H, IH. reflexivity. Qed.

Lemma distance_diag t p :
  distance t p p = if dist_total t p p =? 0 then None else Some (inject_Z 0 / inject_Z (dist_total t p p))%Q.
Proof.
  unfold distance. rewrite dist_diff_wsum.
  rewrite (wsum_false (fun s => xorb (mem p s) (mem p s))) by (intros; apply xorb_nilpotent).
  reflexivity.
Qed.
