(* C13 - M = S for the path computations of load_database (repaired code). *)
From Coq Require Import Bool Arith Ascii Lia String List.
From CBI Require Import Lib.Res Model.C13p Model.C13fs Model.C13 Spec.C13 Proofs.C13p.
Import ListNotations.

Definition all_proper (l : loc) : Prop := Forall (fun x => proper x = true) l.

Lemma cwdloc_resolve cwd l : isabs cwd = true -> cwdloc cwd = resolve l cwd.
Proof. intro H. unfold cwdloc, resolve. rewrite H. reflexivity. Qed.

Lemma cwdloc_proper cwd : all_proper (cwdloc cwd).
Proof.
  unfold cwdloc. apply fold_step_keeps_proper; [apply split_all_noslash|constructor].
Qed.

Lemma join_abs cwd p : isabs cwd = true -> isabs (join cwd p) = true.
Proof.
  intro H. unfold join. destruct (isabs p) eqn:Hp; [exact Hp|].
  destruct cwd as [|c r]; [discriminate|].
  destruct (ends_slash (c :: r)); exact H.
Qed.

(* os.path.abspath(p) is the rendering of the location p denotes for this process *)
Lemma abspath_spec cwd p :
  isabs cwd = true ->
  exists k, (k = 1 \/ k = 2) /\ abspath cwd p = render k (resolve (cwdloc cwd) p).
Proof.
  intro H. unfold abspath. destruct (isabs p) eqn:Hp.
  - destruct (normpath_abs p Hp) as [E Hk]. exists (initial_slashes p). split; [exact Hk|].
    rewrite E. f_equal. apply resolve_abs. exact Hp.
  - pose proof (join_abs cwd p H) as Hj.
    destruct (normpath_abs _ Hj) as [E Hk]. exists (initial_slashes (join cwd p)). split; [exact Hk|].
    rewrite E. f_equal. rewrite resolve_join. rewrite <- (cwdloc_resolve cwd [] H). reflexivity.
Qed.

Lemma abspath_denotes c cwd p :
  isabs cwd = true -> resolve c (abspath cwd p) = resolve (cwdloc cwd) p.
Proof.
  intro H. destruct (abspath_spec cwd p H) as (k & Hk & E). rewrite E.
  apply resolve_render; [lia|]. apply resolve_proper. apply cwdloc_proper.
Qed.

Lemma abspath_isabs cwd p : isabs cwd = true -> isabs (abspath cwd p) = true.
Proof.
  intro H. destruct (abspath_spec cwd p H) as (k & Hk & E). rewrite E. apply isabs_render. lia.
Qed.

(* the directory load_database resolves against denotes the compiler's working directory *)
Lemma filedir_spec cwd rootdir d :
  isabs cwd = true ->
  resolve (cwdloc cwd) (filedir cwd rootdir d) = s_dir (resolve (cwdloc cwd) rootdir) d.
Proof.
  intro H. unfold filedir, s_dir. destruct d as [d|]; [|reflexivity].
  destruct (isabs d) eqn:Hd.
  - apply resolve_abs. exact Hd.
  - rewrite abspath_denotes by exact H. apply resolve_join.
Qed.

Lemma file_path_spec cwd rootdir d f :
  isabs cwd = true ->
  exists k, (k = 1 \/ k = 2) /\
    file_path cwd (filedir cwd rootdir d) f = render k (s_file (resolve (cwdloc cwd) rootdir) d f) /\
    all_proper (s_file (resolve (cwdloc cwd) rootdir) d f).
Proof.
  intro H. unfold file_path, s_file.
  assert (Hp : forall x, all_proper (resolve (s_dir (resolve (cwdloc cwd) rootdir) d) x)).
  { intro x. apply resolve_proper. unfold s_dir. destruct d; repeat apply resolve_proper; apply cwdloc_proper. }
  destruct (isabs f) eqn:Hf.
  - destruct (abspath_spec cwd f H) as (k & Hk & E). exists k. split; [exact Hk|]. split; [|apply Hp].
    rewrite E. f_equal. apply resolve_abs. exact Hf.
  - destruct (abspath_spec cwd (join (filedir cwd rootdir d) f) H) as (k & Hk & E).
    exists k. split; [exact Hk|]. split; [|apply Hp].
    rewrite E. f_equal. rewrite resolve_join, filedir_spec by exact H. reflexivity.
Qed.

Lemma inc_path_spec cwd rootdir d i :
  isabs cwd = true ->
  exists k, (k = 1 \/ k = 2) /\
    inc_path cwd (filedir cwd rootdir d) i = render k (resolve (s_dir (resolve (cwdloc cwd) rootdir) d) i) /\
    all_proper (resolve (s_dir (resolve (cwdloc cwd) rootdir) d) i).
Proof.
  intro H. unfold inc_path.
  destruct (abspath_spec cwd (join (filedir cwd rootdir d) i) H) as (k & Hk & E).
  exists k. split; [exact Hk|]. split.
  - rewrite E. f_equal. rewrite resolve_join, filedir_spec by exact H. reflexivity.
  - apply resolve_proper. unfold s_dir. destruct d; repeat apply resolve_proper; apply cwdloc_proper.
Qed.

(* in terms of denotation only: reading M's string back gives S's location *)
Lemma file_path_denotes c cwd rootdir d f :
  isabs cwd = true ->
  resolve c (file_path cwd (filedir cwd rootdir d) f) = s_file (resolve (cwdloc cwd) rootdir) d f.
Proof.
  intro H. destruct (file_path_spec cwd rootdir d f H) as (k & Hk & E & Hp). rewrite E.
  apply resolve_render; [lia|exact Hp].
Qed.

Lemma inc_paths_denote c cwd rootdir d incs :
  isabs cwd = true ->
  map (fun i => resolve c (inc_path cwd (filedir cwd rootdir d) i)) incs
  = s_incs (resolve (cwdloc cwd) rootdir) d incs.
Proof.
  intro H. unfold s_incs. apply map_ext. intro i.
  destruct (inc_path_spec cwd rootdir d i H) as (k & Hk & E & Hp). rewrite E.
  apply resolve_render; [lia|exact Hp].
Qed.

(* ---------- the code BEFORE the repair (kept so that the defect stays documented) ---------- *)
(* include_paths = abspath(join(rootdir, p)): the original line of load_database *)
Definition inc_path_root_join (cwd rootdir i : str) : str := abspath cwd (join rootdir i).

Lemma inc_path_root_join_wrong :
  exists cwd rootdir d i,
    isabs cwd = true /\
    forall k, inc_path_root_join cwd rootdir i
              <> render k (resolve (s_dir (resolve (cwdloc cwd) rootdir) d) i).
Proof.
  exists (s "/w"), (s "/w/root"), (Some (s "build")), (s "inc").
  split; [reflexivity|]. intros k E.
  apply (f_equal (resolve [])) in E.
  destruct k as [|k].
  - vm_compute in E. discriminate.
  - rewrite resolve_render in E; [|lia|].
    + vm_compute in E. discriminate.
    + apply resolve_proper. unfold s_dir. repeat apply resolve_proper. apply cwdloc_proper.
Qed.
