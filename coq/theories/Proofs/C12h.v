(* Proofs for C12, part 4: a parser flag redefined by the user's file takes the new
   definition (merge of parser rules, add_rule). *)
From Coq Require Import ZArith Bool Ascii String Arith Lia List.
From CBI Require Import Lib.Data Lib.Res Model.C12 Spec.C12 Proofs.C12.
Import ListNotations.
Local Open Scope string_scope.
Local Open Scope list_scope.

Lemma smem_filter f p l : smem f (filter p l) = smem f l && p f.
Proof.
  induction l as [|x l IH]; [reflexivity|]. cbn [filter]. unfold smem in *. cbn [existsb].
  destruct (p x) eqn:Hp; cbn [existsb].
  - rewrite IH. destruct (String.eqb_spec f x) as [->|Hne]; cbn; [rewrite Hp; reflexivity|reflexivity].
  - rewrite IH. destruct (String.eqb_spec f x) as [->|Hne]; cbn; [rewrite Hp; rewrite andb_false_r; reflexivity|reflexivity].
Qed.

Lemma find_opt_app l1 l2 f :
  find_opt (l1 ++ l2) f = match find_opt l1 f with Some x => Some x | None => find_opt l2 f end.
Proof.
  induction l1 as [|r l1 IH]; [reflexivity|]. cbn. destruct (smem f (r_flags r)); [reflexivity|exact IH].
Qed.

Lemma strip_cons fl r rs :
  strip_flags fl (r :: rs) =
  match r_flags (restrict fl r) with [] => strip_flags fl rs | _ => restrict fl r :: strip_flags fl rs end.
Proof. unfold strip_flags. cbn [map filter]. destruct (r_flags (restrict fl r)); reflexivity. Qed.

Lemma smem_restrict f fl r : smem f (r_flags (restrict fl r)) = smem f (r_flags r) && negb (smem f fl).
Proof. unfold restrict. cbn [r_flags]. apply smem_filter. Qed.

Lemma find_opt_strip fl f : forall rs,
  find_opt (strip_flags fl rs) f =
  if smem f fl then None else option_map (restrict fl) (find_opt rs f).
Proof.
  induction rs as [|r rs IH]; [cbn; destruct (smem f fl); reflexivity|].
  rewrite strip_cons. cbn [find_opt].
  pose proof (smem_restrict f fl r) as Hs.
  destruct (r_flags (restrict fl r)) as [|x l] eqn:Hfl.
  - rewrite IH. cbn in Hs. destruct (smem f fl); [reflexivity|].
    cbn [negb] in Hs. rewrite andb_true_r in Hs. rewrite <- Hs. reflexivity.
  - cbn [find_opt]. rewrite Hfl, Hs, IH. destruct (smem f fl).
    + rewrite andb_false_r. reflexivity.
    + cbn [negb]. rewrite andb_true_r. destruct (smem f (r_flags r)); reflexivity.
Qed.

(* the redefined flag is served by the NEW rule - action, destination and default passes included *)
Theorem add_rule_new rs r f : smem f (r_flags r) = true -> find_opt (add_rule rs r) f = Some r.
Proof.
  intros H. unfold add_rule. rewrite find_opt_app, find_opt_strip, H. cbn. rewrite H. reflexivity.
Qed.
(* every other flag keeps its rule (which merely lost the redefined spellings) *)
Theorem add_rule_old rs r f : smem f (r_flags r) = false ->
  find_opt (add_rule rs r) f = option_map (restrict (r_flags r)) (find_opt rs f).
Proof.
  intros H. unfold add_rule. rewrite find_opt_app, find_opt_strip, H.
  destruct (find_opt rs f); [reflexivity|]. cbn. rewrite H. reflexivity.
Qed.
(* nothing else is in the list: the new rule, and the old rules that still have a flag *)
Theorem add_rule_In rs r r' :
  In r' (add_rule rs r) <->
  r' = r \/ exists r0, In r0 rs /\ r' = restrict (r_flags r) r0 /\ r_flags r' <> [].
Proof.
  unfold add_rule, strip_flags. rewrite in_app_iff, filter_In, in_map_iff. cbn [In]. split.
  - intros [[[r0 [<- Hin]] Hne]|[<-|[]]]; [right|left; reflexivity].
    exists r0. split; [exact Hin|]. split; [reflexivity|]. intros E. rewrite E in Hne. discriminate.
  - intros [->|[r0 [Hin [-> Hne]]]]; [right; left; reflexivity|left].
    split; [eauto|]. destruct (r_flags (restrict (r_flags r) r0)); [contradiction|reflexivity].
Qed.

(* argparse's "conflicting option string" can no longer come from a redefinition *)
Lemma conflict_mono : forall rs seen seen', incl seen seen' -> conflict seen' rs = false -> conflict seen rs = false.
Proof.
  induction rs as [|r rs IH]; intros seen seen' Hi H; [reflexivity|].
  cbn [conflict] in *. apply orb_false_iff in H. destruct H as [H1 H2]. apply orb_false_iff. split.
  - rewrite <- not_true_iff_false in *. intros E. apply H1. rewrite existsb_exists in *.
    destruct E as [f [Hf Hs]]. exists f. split; [exact Hf|]. apply smem_In. apply Hi. apply smem_In. exact Hs.
  - apply (IH _ (seen' ++ r_flags r)); [|exact H2]. intros x Hx. apply in_app_or in Hx. apply in_or_app.
    destruct Hx; auto.
Qed.

Theorem add_rule_no_conflict r : forall rs seen,
  conflict seen rs = false -> (forall f, In f (r_flags r) -> ~ In f seen) ->
  conflict seen (add_rule rs r) = false.
Proof.
  unfold add_rule. induction rs as [|r0 rs IH]; intros seen Hc Hd.
  - cbn. rewrite orb_false_r. rewrite <- not_true_iff_false. intros E. rewrite existsb_exists in E.
    destruct E as [f [Hf Hs]]. apply (Hd f Hf). apply smem_In. exact Hs.
  - cbn [conflict] in Hc. apply orb_false_iff in Hc. destruct Hc as [H1 H2].
    assert (Hsub : incl (r_flags (restrict (r_flags r) r0)) (r_flags r0)).
    { intros x Hx. unfold restrict in Hx. cbn [r_flags] in Hx. apply filter_In in Hx. tauto. }
    rewrite strip_cons. destruct (r_flags (restrict (r_flags r) r0)) as [|x l] eqn:Hfl.
    + apply IH; [|exact Hd]. eapply conflict_mono; [|exact H2]. intros y Hy. apply in_or_app. auto.
    + cbn [app conflict]. rewrite Hfl. apply orb_false_iff. split.
      * rewrite <- not_true_iff_false in *. intros E. apply H1. rewrite existsb_exists in *.
        destruct E as [f [Hf Hs]]. exists f. split; [apply Hsub; exact Hf|exact Hs].
      * apply IH.
        -- eapply conflict_mono; [|exact H2]. intros y Hy. apply in_app_or in Hy. apply in_or_app.
           destruct Hy as [Hy|Hy]; [auto|right; apply Hsub; exact Hy].
        -- intros f Hf Hin. apply in_app_or in Hin. destruct Hin as [Hin|Hin]; [exact (Hd f Hf Hin)|].
           rewrite <- Hfl in Hin. unfold restrict in Hin. cbn [r_flags] in Hin. apply filter_In in Hin.
           destruct Hin as [_ Hn]. apply negb_true_iff in Hn. apply smem_false in Hn. contradiction.
Qed.

(* the whole parser list of the user's table *)
Theorem add_rules_no_conflict : forall user rs seen,
  conflict seen rs = false -> (forall r f, In r user -> In f (r_flags r) -> ~ In f seen) ->
  conflict seen (fold_left add_rule user rs) = false.
Proof.
  induction user as [|r user IH]; intros rs seen Hc Hd; [exact Hc|].
  cbn [fold_left]. apply IH.
  - apply add_rule_no_conflict; [exact Hc|]. intros f Hf. apply (Hd r f); [left; reflexivity|exact Hf].
  - intros r' f Hr Hf. apply (Hd r' f); [right; exact Hr|exact Hf].
Qed.

Lemma conflict_app : forall l1 l2 seen,
  conflict seen (l1 ++ l2) = conflict seen l1 || conflict (seen ++ all_flags l1) l2.
Proof.
  induction l1 as [|r l1 IH]; intros l2 seen.
  - cbn. rewrite app_nil_r. reflexivity.
  - cbn [app conflict]. rewrite IH. unfold all_flags. cbn [map concat]. rewrite app_assoc, orb_assoc. reflexivity.
Qed.

(* C12_redefined_flag_wins, conflict part: if the compiler's own rules were accepted by argparse and the
   user's rules stay clear of the seven generic options, the merged rules are accepted too *)
Theorem merged_rules_accepted old user :
  conflict [] (generic_rules ++ old) = false ->
  (forall r f, In r user -> In f (r_flags r) -> ~ In f (all_flags generic_rules)) ->
  conflict [] (generic_rules ++ fold_left add_rule user old) = false.
Proof.
  rewrite !conflict_app. intros H Hd. apply orb_false_iff in H. destruct H as [H1 H2].
  rewrite H1. cbn [orb app] in *. apply add_rules_no_conflict; assumption.
Qed.
