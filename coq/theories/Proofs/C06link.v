(* C06 - the row of any shown file (symlink or not), and the file lists of the three reports *)
From Coq Require Import ZArith String Bool Arith Lia Permutation List.
From CBI Require Import Lib.Data Lib.Res Model.C06 Spec.C06 Proofs.C06 Proofs.C06tree Proofs.C06letters Proofs.C06rowsx.
Import ListNotations.
Local Open Scope Z_scope.

(* what _print shows for the leaf of ANY shown file f (tsm n = file_setmap f), link or not:
   SLOC = all its lines; letters = legend platforms that occur on its nodes; the coverage numerator
   counts the lines whose platform set meets the platforms ps the coverage is taken over, where ps
   is the legend, or (legend empty) the file's own platforms; per-platform numerators over ps *)
Theorem leaf_row U prune files f n d : names_in U files ->
  (forall g, In g files -> fpath g <> []) ->
  In f files -> tsm n = file_setmap f ->
  let rp := node_plats U (tsm (files_tree prune files)) in
  let ps := eff_plats rp U (tsm n) in
  let r := mkrow rp U d n in
  ps = match rp with [] => filter (fun p => existsb (fun x => mem p (nplat x)) (fnodes f)) U | _ => rp end /\
  rtotal r = nodes_sum (fun _ => true) (fnodes f) /\
  rused r = nodes_sum (fun k => negb (is_empty k) && existsb (fun p => mem p ps) k) (fnodes f) /\
  rmask r = map (fun p => existsb (fun x => mem p (nplat x)) (fnodes f)) rp /\
  rper r = map (fun p => nodes_sum (mem p) (fnodes f)) ps /\
  ((forall x p, In x (fnodes f) -> mem p (nplat x) = true -> below_any (mem p) prune [] files = true) ->
     rused r = nodes_sum (fun k => negb (is_empty k)) (fnodes f)).
Proof.
  intros HU Hne Hf Hn rp ps r.
  assert (Fig : forall P, sum_if P (tsm n) = nodes_sum P (fnodes f)) by (intros P; rewrite Hn; apply sum_if_file_setmap).
  assert (Any : forall Q, anyk Q (tsm n) = existsb (fun x => Q (nplat x)) (fnodes f)) by (intros Q; rewrite Hn; apply anyk_file_setmap).
  destruct (tree_dir_platforms prune [] files U (files_tree prune files) Hne eq_refl) as [Rp RpM].
  fold rp in Rp, RpM.
  assert (Np : node_plats U (tsm n) = filter (fun p => existsb (fun x => mem p (nplat x)) (fnodes f)) U).
  { unfold node_plats. apply filter_ext. intros p. apply (Any (mem p)). }
  assert (NpM : forall p, mem p (node_plats U (tsm n)) = mem p U && anyk (mem p) (tsm n)).
  { intros p. unfold node_plats. rewrite mem_filter. reflexivity. }
  assert (Ps : ps = match rp with [] => filter (fun p => existsb (fun x => mem p (nplat x)) (fnodes f)) U | _ => rp end).
  { unfold ps, eff_plats. rewrite Np. reflexivity. }
  split; [exact Ps|]. split; [apply (Fig (fun _ => true))|]. split; [apply Fig|]. split; [|split].
  - cbn [r mkrow rmask]. apply map_ext_in. intros p Hp. rewrite NpM, Any.
    rewrite Rp in Hp. apply filter_In in Hp. destruct Hp as [Hp _]. rewrite (In_mem p U Hp). reflexivity.
  - cbn [r mkrow rper]. apply map_ext. intros p. rewrite <- Fig. apply sum_if_ext_in. intros kv _. apply nonempty_mem.
  - intros Hleg. cbn [r mkrow rused]. fold ps. rewrite <- Fig. apply sum_if_ext_in. intros [k v] Hkv. cbn [fst].
    destruct k as [|p0 k]; [reflexivity|]. cbn [is_empty negb andb existsb].
    assert (A : anyk (mem p0) (tsm n) = true).
    { unfold anyk. apply existsb_exists. exists (p0 :: k, v). split; [exact Hkv | apply mem_head]. }
    pose proof A as A'. rewrite Any in A'. apply existsb_exists in A'. destruct A' as (x & Hx & Hm).
    pose proof (HU f x p0 Hf Hx Hm) as B. pose proof (Hleg x p0 Hx Hm) as C.
    assert (M : mem p0 ps = true).
    { unfold ps, eff_plats. clearbody rp. destruct rp as [|y rp'] eqn:Erp.
      - rewrite NpM, B, A. reflexivity.
      - rewrite RpM, B, C. reflexivity. }
    rewrite M. reflexivity.
Qed.

(* the legend hypothesis of the last clause is needed: a symlink whose platform does not occur on any
   non-link file, beside a file with another platform, shows a coverage numerator of 0 *)
Definition lk_files : list file :=
  [ {| fpath := ["a.c"%string]; flink := false; ftarget_in := false; fid := "h"%string;
       fnodes := [{| nlines := [1]; nnum := 1; nplat := ["Q"%string] |}] |};
    {| fpath := ["l.c"%string]; flink := true; ftarget_in := true; fid := "h"%string;
       fnodes := [{| nlines := [1]; nnum := 1; nplat := ["P"%string] |}] |} ].
Lemma link_row_used_witness :
  map (fun r => (rname r, rtotal r, rused r)) (snd (report_files ["P"; "Q"]%string false None lk_files))
  = [(""%string, 1, 1); ("a.c"%string, 1, 1); ("l.c"%string, 1, 0)].
Proof. vm_compute. reflexivity. Qed.

(* ---------- the file lists of the reports ---------- *)
Theorem file_lists files : wf_paths files ->
  (forall q, (exists n, lookup q (files_tree false files) = Some n /\ tdir n = false) <-> In q (map fpath files)) /\
  map epath (export files) = map fpath files.
Proof.
  intros Hwf. split; [|unfold export; rewrite map_map; reflexivity].
  intros q. split.
  - intros (n & Hn & Hd).
    destruct (in_dec (list_eq_dec string_dec) q (map fpath files)) as [Hin|Hnin]; [exact Hin|]. exfalso.
    destruct (tree_dir_kind false files q n Hn) as [A _]; [|congruence].
    intros f Hf E. apply Hnin. rewrite <- E. apply in_map, Hf.
  - intros Hin. apply in_map_iff in Hin. destruct Hin as (f & <- & Hf).
    destruct (tree_file_node false files f Hwf Hf eq_refl) as (n & Hn & _ & Hd & _). exists n. auto.
Qed.
