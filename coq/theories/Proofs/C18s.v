(* C18 — lemmas about the string tests of the WarningAggregator and the closing totals. *)
From Coq Require Import Bool Arith Ascii String List Lia.
From Coq Require DecimalString Decimal.
From CBI Require Import Lib.Res Lib.C18_str Model.C01 Spec.C01 Model.C04 Spec.C04 Model.C18 Spec.C18 Gen.C18_tables Spec.C18t.
Import ListNotations.
Local Open Scope list_scope.
Local Open Scope string_scope.

(* ---------- substring test ---------- *)
Lemma prefix_refl_app s a : String.prefix s (s ++ a) = true.
Proof.
  induction s as [|c s IH]; cbn; [destruct a; reflexivity|].
  destruct (ascii_dec c c) as [_|N]; [exact IH|contradiction].
Qed.

Lemma contains_unfold sub s :
  contains sub s = if String.prefix sub s then true
                   else match s with EmptyString => false | String _ r => contains sub r end.
Proof. destruct s; reflexivity. Qed.

Lemma contains_app_r sub a b : contains sub b = true -> contains sub (a ++ b) = true.
Proof.
  intros H. induction a as [|c a IH]; [exact H|].
  change (String c a ++ b) with (String c (a ++ b)). rewrite contains_unfold.
  destruct (String.prefix sub (String c (a ++ b))); [reflexivity|exact IH].
Qed.

Lemma contains_mid sub a b : contains sub (a ++ (sub ++ b)) = true.
Proof. apply contains_app_r. rewrite contains_unfold, prefix_refl_app. reflexivity. Qed.

(* a phrase that starts with a non-digit is not found inside a run of digits *)
Definition isdig (c : ascii) : bool := Nat.leb 48 (nat_of_ascii c) && Nat.leb (nat_of_ascii c) 57.
Fixpoint all_digits (s : string) : bool :=
  match s with EmptyString => true | String c r => isdig c && all_digits r end.
Definition nondigit_head (s : string) : bool :=
  match s with EmptyString => false | String c _ => negb (isdig c) end.

Lemma contains_skip_digits sub d rest :
  nondigit_head sub = true -> all_digits d = true -> contains sub (d ++ rest) = contains sub rest.
Proof.
  intros Hs. induction d as [|c d IH]; [reflexivity|]. cbn [all_digits]. intros H.
  apply andb_prop in H. destruct H as [Hc Hd].
  change (String c d ++ rest) with (String c (d ++ rest)). rewrite contains_unfold.
  destruct sub as [|c0 sub']; [discriminate|]. cbn [String.prefix].
  destruct (ascii_dec c0 c) as [E|_].
  - subst. cbn in Hs. rewrite Hc in Hs. discriminate.
  - apply IH. exact Hd.
Qed.

Lemma all_digits_uint d : all_digits (DecimalString.NilEmpty.string_of_uint d) = true.
Proof. induction d; cbn; auto. Qed.
Lemma all_digits_dec n : all_digits (dec n) = true.
Proof.
  unfold dec, DecimalString.NilZero.string_of_uint.
  destruct (Nat.to_uint n) eqn:E; try (rewrite <- E; apply all_digits_uint); reflexivity.
Qed.

Lemma has_dot_app a b : has_dot (a ++ b) = has_dot a || has_dot b.
Proof.
  induction a as [|c a IH]; [reflexivity|]. cbn [append has_dot].
  destruct (Ascii.eqb c (ascii_of_nat 10)); [exact IH|reflexivity].
Qed.
Lemma has_dot_digits d : d <> "" -> all_digits d = true -> has_dot d = true.
Proof.
  destruct d as [|c d]; [congruence|]. intros _ H. cbn in H. apply andb_prop in H. destruct H as [Hc _].
  cbn [has_dot]. destruct (Ascii.eqb c (ascii_of_nat 10)) eqn:E; [|reflexivity].
  apply Ascii.eqb_eq in E. subst. discriminate.
Qed.
Lemma dec_nonempty n : dec n <> "".
Proof.
  unfold dec, DecimalString.NilZero.string_of_uint.
  destruct (Nat.to_uint n); cbn; discriminate.
Qed.
Lemma has_dot_dec n s : has_dot (dec n ++ s) = true.
Proof. rewrite has_dot_app, has_dot_digits; [reflexivity|apply dec_nonempty|apply all_digits_dec]. Qed.

(* ---------- every message has a character other than a newline ---------- *)
Lemma has_dot_msg w : has_dot (msg_of w) = true.
Proof.
  destruct w; cbn [msg_of]; rewrite has_dot_app; reflexivity.
Qed.

(* the message of a missing include carries the label of the directive's form *)
Lemma label_in_message e sp : contains (kind_label (ev_angle e)) (msg_of (WMissingInclude e sp)) = true.
Proof.
  cbn [msg_of].
  apply contains_app_r. apply contains_app_r. apply contains_app_r. apply contains_app_r.
  rewrite contains_unfold, prefix_refl_app. reflexivity.
Qed.

(* ---------- the aggregator with the generated table ---------- *)

Lemma agg_filter_3 a b c msg :
  agg_filter meta_warnings [a; b; c] (true, msg) =
  [ (if has_dot msg then S a else a);
    (if contains user_phrase msg then S b else b);
    (if contains system_phrase msg then S c else c) ].
Proof. reflexivity. Qed.


Ltac phrase_in_text :=
  unfold text1, text2, text3, meta_warnings, mw_text, user_phrase, system_phrase; cbn [nth_error];
  cbn [append];
  rewrite contains_skip_digits by (try reflexivity; apply all_digits_dec);
  vm_compute; reflexivity.

Lemma text1_user n : contains user_phrase (text1 n) = false.   Proof. phrase_in_text. Qed.
Lemma text1_system n : contains system_phrase (text1 n) = false. Proof. phrase_in_text. Qed.
Lemma text2_user n : contains user_phrase (text2 n) = true.    Proof. phrase_in_text. Qed.
Lemma text2_system n : contains system_phrase (text2 n) = false. Proof. phrase_in_text. Qed.
Lemma text3_user n : contains user_phrase (text3 n) = false.   Proof. phrase_in_text. Qed.
Lemma text3_system n : contains system_phrase (text3 n) = true.  Proof. phrase_in_text. Qed.
Lemma text_dot1 n : has_dot (text1 n) = true.
Proof. unfold text1, meta_warnings, mw_text; cbn [nth_error]. apply has_dot_dec. Qed.
Lemma text_dot2 n : has_dot (text2 n) = true.
Proof. unfold text2, meta_warnings, mw_text; cbn [nth_error]. apply has_dot_dec. Qed.
Lemma text_dot3 n : has_dot (text3 n) = true.
Proof. unfold text3, meta_warnings, mw_text; cbn [nth_error]. apply has_dot_dec. Qed.

(* counters after the run: one per test *)
Definition count_if (f : string -> bool) (ws : list wrec) : nat := List.length (filter (fun w => f (msg_of w)) ws).

Lemma agg_fold ws : forall a b c,
  fold_left (agg_filter meta_warnings) (as_lrecs ws) [a; b; c] =
  [a + List.length ws; b + count_if (contains user_phrase) ws; c + count_if (contains system_phrase) ws].
Proof.
  unfold count_if. induction ws as [|w ws IH]; intros a b c.
  - cbn. rewrite !Nat.add_0_r. reflexivity.
  - cbn [as_lrecs map fold_left]. rewrite agg_filter_3, has_dot_msg.
    fold (as_lrecs ws). rewrite IH. cbn [filter List.length].
    destruct (contains user_phrase (msg_of w)), (contains system_phrase (msg_of w)); cbn [List.length];
      f_equal; try lia; f_equal; try lia; f_equal; lia.
Qed.

Lemma agg_run_counts ws :
  agg_run meta_warnings (as_lrecs ws) =
  [List.length ws; count_if (contains user_phrase) ws; count_if (contains system_phrase) ws].
Proof. unfold agg_run. change (map (fun _ => 0) meta_warnings) with [0; 0; 0]. rewrite agg_fold. reflexivity. Qed.

(* the closing lines, from the counters: each non-zero counter is printed with ITS value at the
   time the earlier meta-warnings have already been fed back through the filter *)

Lemma agg_warn_some ms i rest counts m k :
  nth_error ms i = Some m -> nth_error counts i = Some (S k) ->
  agg_warn ms (i :: rest) counts =
  (mw_text m (S k) :: fst (agg_warn ms rest (agg_filter ms counts (true, mw_text m (S k)))),
   snd (agg_warn ms rest (agg_filter ms counts (true, mw_text m (S k))))).
Proof.
  intros H1 H2. cbn [agg_warn]. rewrite H1, H2.
  destruct (agg_warn ms rest (agg_filter ms counts (true, mw_text m (S k)))); reflexivity.
Qed.
Lemma agg_warn_zero ms i rest counts :
  nth_error counts i = Some 0 -> agg_warn ms (i :: rest) counts = agg_warn ms rest counts.
Proof. intros H. cbn [agg_warn]. rewrite H. destruct (nth_error ms i); reflexivity. Qed.
Lemma agg_warn_nil ms counts : agg_warn ms [] counts = ([], counts).
Proof. reflexivity. Qed.

Lemma nth_mw0 : nth_error meta_warnings 0 = Some (true, "", "", " warnings generated during preprocessing.").
Proof. reflexivity. Qed.

Ltac warn_step :=
  first
    [ rewrite agg_warn_nil
    | rewrite agg_warn_zero by reflexivity
    | erewrite agg_warn_some by reflexivity ].

Lemma closing_both n u s :
  agg_warn meta_warnings [0; 1; 2] [n; u; s] =
  ((line_if n text1 ++ line_if u text2 ++ line_if s text3)%list,
   [ n + List.length (line_if n text1 ++ line_if u text2 ++ line_if s text3)%list;
     u + List.length (line_if u text2); s + List.length (line_if s text3) ]).
Proof.
  destruct n as [|n], u as [|u], s as [|s]; cbn [line_if app List.length];
    repeat (warn_step;
            try change (mw_text _ (S n)) with (text1 (S n));
            try change (mw_text _ (S u)) with (text2 (S u));
            try change (mw_text _ (S s)) with (text3 (S s));
            rewrite ?agg_filter_3, ?text_dot1, ?text_dot2, ?text_dot3,
                    ?text1_user, ?text1_system, ?text2_user, ?text2_system, ?text3_user, ?text3_system;
            cbn [fst snd]);
    repeat (f_equal; try lia).
Qed.

(* ---------- the totals ---------- *)
Lemma clean_user w : clean w = true -> contains user_phrase (msg_of w) = is_user_rec w.
Proof.
  unfold clean. intros H. apply andb_prop in H. destruct H as [H _].
  destruct w; cbn [is_user_rec] in *; try (apply negb_true_iff in H; exact H).
  destruct (ev_angle e) eqn:E; cbn [negb orb] in *; [apply negb_true_iff in H; exact H|].
  pose proof (label_in_message e spelling) as L. rewrite E in L. exact L.
Qed.
Lemma clean_system w : clean w = true -> contains system_phrase (msg_of w) = is_system_rec w.
Proof.
  unfold clean. intros H. apply andb_prop in H. destruct H as [_ H].
  destruct w; cbn [is_system_rec] in *; try (apply negb_true_iff in H; exact H).
  destruct (ev_angle e) eqn:E; cbn [negb orb] in *; [|apply negb_true_iff in H; exact H].
  pose proof (label_in_message e spelling) as L. rewrite E in L. exact L.
Qed.
Lemma count_if_clean f g ws :
  (forall w, clean w = true -> f (msg_of w) = g w) -> forallb clean ws = true ->
  count_if f ws = List.length (filter g ws).
Proof.
  intros Hfg. unfold count_if. induction ws as [|w ws IH]; [reflexivity|]. cbn [forallb filter]. intros H.
  apply andb_prop in H. destruct H as [Hw Hws]. rewrite (Hfg w Hw). destruct (g w); cbn [List.length]; rewrite (IH Hws); reflexivity.
Qed.

Theorem totals_printed ws : forallb clean ws = true ->
  closing meta_warnings (as_lrecs ws) =
  let n := List.length ws in
  let u := List.length (filter is_user_rec ws) in
  let s := List.length (filter is_system_rec ws) in
  let lines := (line_if n text1 ++ line_if u text2 ++ line_if s text3)%list in
  (lines, [n + List.length lines; u + List.length (line_if u text2); s + List.length (line_if s text3)]).
Proof.
  intros H. unfold closing. change (seq 0 (List.length meta_warnings)) with [0; 1; 2].
  rewrite agg_run_counts, (count_if_clean _ is_user_rec ws clean_user H), (count_if_clean _ is_system_rec ws clean_system H).
  apply closing_both.
Qed.

(* without the assumption the totals are wrong: a missing USER include whose name contains the
   phrase of the other category is also counted as a missing SYSTEM include *)
Definition phrase_witness : list wrec :=
  [WMissingInclude {| ev_file := ["src"; "a.c"]; ev_tag := 1; ev_name := ["system include"; "p.h"]; ev_angle := false |}
                   ("#include " ++ dq ++ "system include/p.h" ++ dq)].
Lemma totals_unrestricted_refuted :
  exists ws, (List.length (filter is_system_rec ws) = 0)%nat /\ In (text3 1) (fst (closing meta_warnings (as_lrecs ws))).
Proof.
  exists phrase_witness. split; [reflexivity|]. vm_compute. right. right. left. reflexivity.
Qed.
