(* C07 proofs, part 3: divergence.  The loop over it.combinations(platforms, 2)
   is the mean over unordered pairs of the specification (half the double sum
   over ordered pairs of distinct platforms, divided by n(n-1)/2). *)
From Coq Require Import ZArith QArith String Bool Lia ZifyBool Permutation List.
From CBI Require Import Lib.Data Model.C07 Spec.C07 Proofs.C07 Proofs.C07s.
Import ListNotations.
Local Open Scope Z_scope.

(* the specification's divergence over an arbitrary pair function d *)
Definition odef (o : option Q) : bool := match o with Some _ => true | None => false end.
Definition oval (o : option Q) : Q := match o with Some x => x | None => 0%Q end.
Definition g_defined (d : string -> string -> option Q) (ps : list string) : bool :=
  forallb (fun p => forallb (fun q => String.eqb p q || odef (d p q)) ps) ps.
Definition g_e (d : string -> string -> option Q) (p q : string) : Q :=
  if String.eqb p q then 0%Q else oval (d p q).
Definition g_sum (d : string -> string -> option Q) (ps : list string) : Q :=
  Qsum (map (fun p => Qsum (map (fun q => g_e d p q) ps)) ps).
Definition gdiv (d : string -> string -> option Q) (ps : list string) : option Q :=
  let n := Z.of_nat (length ps) in
  if n <? 2 then None
  else if g_defined d ps then Some ((g_sum d ps / 2) / (inject_Z (n * (n - 1)) / 2))%Q else None.

Lemma S_divergence_gdiv t ps : S_divergence t ps = gdiv (S_distance t) ps.
Proof. reflexivity. Qed.

(* ---- Qsum ---- *)
Lemma Qsum_app l l' : (Qsum (l ++ l') == Qsum l + Qsum l')%Q.
Proof. unfold Qsum. induction l as [|x l IH]; cbn [app fold_right]; [ring | rewrite IH; ring]. Qed.

Lemma Qsum_map_ext {A} (f g : A -> Q) l : (forall x, In x l -> (f x == g x)%Q) -> (Qsum (map f l) == Qsum (map g l))%Q.
Proof.
  unfold Qsum. induction l as [|x l IH]; intros H; cbn [map fold_right]; [reflexivity|].
  rewrite (H x (or_introl eq_refl)), IH; [reflexivity|]. intros y Hy; apply H; right; exact Hy.
Qed.

Lemma Qsum_map_plus {A} (f g : A -> Q) l : (Qsum (map (fun x => f x + g x) l) == Qsum (map f l) + Qsum (map g l))%Q.
Proof. unfold Qsum. induction l as [|x l IH]; cbn [map fold_right]; [ring | rewrite IH; ring]. Qed.

Lemma Qsum_cons a l : (Qsum (a :: l) == a + Qsum l)%Q.
Proof. reflexivity. Qed.

Lemma Qsum_perm l l' : Permutation l l' -> (Qsum l == Qsum l')%Q.
Proof.
  unfold Qsum. induction 1; cbn [fold_right]; try reflexivity.
  - rewrite IHPermutation; reflexivity.
  - ring.
  - rewrite IHPermutation1; exact IHPermutation2.
Qed.

(* ---- the list of unordered pairs ---- *)
Lemma pairs_in {A} (l : list A) p q : In (p, q) (pairs l) -> In p l /\ In q l.
Proof.
  induction l as [|x r IH]; cbn [pairs]; [intros []|].
  rewrite in_app_iff, in_map_iff. intros [[y [E Hy]]|H].
  - inversion E; subst. split; [left; reflexivity | right; exact Hy].
  - destruct (IH H) as [H1 H2]. split; right; assumption.
Qed.

Lemma pairs_distinct {A} (l : list A) p q : NoDup l -> In (p, q) (pairs l) -> p <> q.
Proof.
  induction l as [|x r IH]; cbn [pairs]; [intros _ []|].
  intros ND. inversion ND as [|x' r' Hx ND']; subst.
  rewrite in_app_iff, in_map_iff. intros [[y [E Hy]]|H].
  - inversion E; subst. intros ->. contradiction.
  - apply IH; assumption.
Qed.

Lemma pairs_complete {A} (l : list A) p q : In p l -> In q l -> p <> q -> In (p, q) (pairs l) \/ In (q, p) (pairs l).
Proof.
  induction l as [|x r IH]; cbn [pairs]; [intros []|].
  intros [->|Hp] [->|Hq] NE.
  - contradiction.
  - left. apply in_app_iff. left. apply in_map. exact Hq.
  - right. apply in_app_iff. left. apply in_map. exact Hp.
  - destruct (IH Hp Hq NE) as [H|H]; [left | right]; apply in_app_iff; right; exact H.
Qed.

Lemma pairs_length {A} (l : list A) : 2 * Z.of_nat (length (pairs l)) = Z.of_nat (length l) * (Z.of_nat (length l) - 1).
Proof.
  induction l as [|x r IH]; cbn [pairs length]; [reflexivity|].
  rewrite app_length, map_length, Nat2Z.inj_add, Nat2Z.inj_succ. nia.
Qed.

(* ---- the double sum is twice the sum over unordered pairs ---- *)
Section Pairs.
Variable d : string -> string -> option Q.
Hypothesis d_sym : forall p q, d p q = d q p.

Definition pair_val (pq : string * string) : Q := oval (d (fst pq) (snd pq)).

Lemma g_e_notin x r : ~ In x r -> (Qsum (map (fun q => g_e d x q) r) == Qsum (map (fun q => oval (d x q)) r))%Q.
Proof.
  intros NI. apply Qsum_map_ext. intros q Hq. unfold g_e.
  destruct (String.eqb x q) eqn:E; [|reflexivity].
  apply String.eqb_eq in E. subst. contradiction.
Qed.

Lemma g_sum_cons x r : ~ In x r ->
  (g_sum d (x :: r) == 2 * Qsum (map (fun q => oval (d x q)) r) + g_sum d r)%Q.
Proof.
  intros NI. unfold g_sum.
  assert (E0 : forall p, (Qsum (map (fun q => g_e d p q) (x :: r)) == g_e d p x + Qsum (map (fun q => g_e d p q) r))%Q)
    by (intros p; reflexivity).
  rewrite (Qsum_map_ext _ _ (x :: r) (fun p _ => E0 p)).
  cbn [map]. rewrite Qsum_cons.
  rewrite (Qsum_map_plus (fun p => g_e d p x) (fun p => Qsum (map (fun q => g_e d p q) r)) r).
  assert (E1 : (g_e d x x == 0)%Q) by (unfold g_e; rewrite String.eqb_refl; reflexivity).
  assert (E : (Qsum (map (fun p => g_e d p x) r) == Qsum (map (fun q => oval (d x q)) r))%Q).
  { apply Qsum_map_ext. intros p Hp. unfold g_e.
    destruct (String.eqb p x) eqn:E; [apply String.eqb_eq in E; subst; contradiction|].
    rewrite d_sym. reflexivity. }
  rewrite E1, E, (g_e_notin x r NI). ring.
Qed.

Lemma pair_sum_double ps : NoDup ps -> (2 * Qsum (map pair_val (pairs ps)) == g_sum d ps)%Q.
Proof.
  induction ps as [|x r IH]; intros ND.
  - cbn. reflexivity.
  - inversion ND as [|x' r' Hx ND']; subst.
    rewrite (g_sum_cons x r Hx). cbn [pairs]. rewrite map_app, Qsum_app, map_map.
    rewrite <- (IH ND'). unfold pair_val at 1. cbn [fst snd]. ring.
Qed.

(* definedness: all pairs defined = all ordered pairs of distinct platforms defined *)
Lemma g_defined_pairs ps : NoDup ps ->
  g_defined d ps = forallb (fun pq => odef (d (fst pq) (snd pq))) (pairs ps).
Proof.
  intros ND. apply eq_true_iff_eq. unfold g_defined. rewrite !forallb_forall. split.
  - intros H [p q] Hpq. cbn [fst snd].
    destruct (pairs_in ps p q Hpq) as [Hp Hq].
    specialize (H p Hp). rewrite forallb_forall in H. specialize (H q Hq).
    destruct (String.eqb p q) eqn:E; [|exact H].
    apply String.eqb_eq in E. exfalso. exact (pairs_distinct ps p q ND Hpq E).
  - intros H p Hp. apply forallb_forall. intros q Hq.
    destruct (String.eqb p q) eqn:E; [reflexivity|]. cbn [orb].
    apply String.eqb_neq in E.
    destruct (pairs_complete ps p q Hp Hq E) as [H'|H'].
    + exact (H (p, q) H').
    + rewrite d_sym. exact (H (q, p) H').
Qed.

Lemma all_defined_forallb {A} (f : A -> option Q) l : all_defined (map f l) = forallb (fun x => odef (f x)) l.
Proof.
  induction l as [|x l IH]; cbn [map all_defined forallb]; [reflexivity|].
  destruct (f x); cbn [odef andb]; [exact IH | reflexivity].
Qed.

Lemma total_of_map {A} (f : A -> option Q) l : (total_of (map f l) == Qsum (map (fun x => oval (f x)) l))%Q.
Proof.
  unfold Qsum. induction l as [|x l IH]; cbn [map total_of fold_right]; [reflexivity|].
  destruct (f x); cbn [oval]; rewrite IH; ring.
Qed.

(* the mean over it.combinations is the specification's divergence *)
Lemma mean_pairs_gdiv ps : NoDup ps ->
  oeq (mean (map (fun pq => d (fst pq) (snd pq)) (pairs ps))) (gdiv d ps).
Proof.
  intros ND. unfold gdiv.
  pose proof (pairs_length ps) as HL.
  destruct (Z.of_nat (length ps) <? 2) eqn:En.
  - assert (E : pairs ps = []).
    { destruct (pairs ps) as [|a l] eqn:Ep; [reflexivity|]. cbn [length] in HL. nia. }
    rewrite E. exact I.
  - unfold mean.
    destruct (map (fun pq => d (fst pq) (snd pq)) (pairs ps)) as [|a l] eqn:Em.
    + apply map_eq_nil in Em. rewrite Em in HL. cbn [length] in HL. nia.
    + rewrite <- Em. rewrite all_defined_forallb, <- (g_defined_pairs ps ND).
      destruct (g_defined d ps); cbn [oeq]; [|exact I].
      rewrite total_of_map, map_length.
      rewrite <- (pair_sum_double ps ND). fold pair_val.
      change (fun x : string * string => oval (d (fst x) (snd x))) with pair_val.
      assert (E : (inject_Z (Z.of_nat (length ps) * (Z.of_nat (length ps) - 1)) == 2 * inject_Z (Z.of_nat (length (pairs ps))))%Q).
      { rewrite <- HL, inject_Z_mult. reflexivity. }
      rewrite E.
      assert (NZ : ~ (inject_Z (Z.of_nat (length (pairs ps))) == 0)%Q).
      { intros H. apply (eq_sym) in H. unfold Qeq in H. cbn in H. nia. }
      field. exact NZ.
Qed.
End Pairs.

(* gdiv respects pointwise equality of the pair function *)
Lemma oeq_odef a b : oeq a b -> odef a = odef b.
Proof. destruct a, b; cbn; intros H; try contradiction; reflexivity. Qed.
Lemma oeq_oval a b : oeq a b -> (oval a == oval b)%Q.
Proof. destruct a, b; cbn; intros H; try contradiction; [exact H | reflexivity]. Qed.

Lemma forallb_ext_in {A} (f g : A -> bool) l : (forall x, In x l -> f x = g x) -> forallb f l = forallb g l.
Proof.
  induction l as [|x l IH]; intros H; cbn [forallb]; [reflexivity|].
  rewrite (H x (or_introl eq_refl)), IH; [reflexivity|]. intros y Hy; apply H; right; exact Hy.
Qed.

Lemma gdiv_proper d d' ps : (forall p q, oeq (d p q) (d' p q)) -> oeq (gdiv d ps) (gdiv d' ps).
Proof.
  intros H. unfold gdiv.
  destruct (Z.of_nat (length ps) <? 2); [exact I|].
  assert (E1 : g_defined d ps = g_defined d' ps).
  { unfold g_defined. apply forallb_ext_in. intros p _. apply forallb_ext_in. intros q _.
    rewrite (oeq_odef _ _ (H p q)). reflexivity. }
  assert (E2 : (g_sum d ps == g_sum d' ps)%Q).
  { unfold g_sum. apply Qsum_map_ext. intros p _. apply Qsum_map_ext. intros q _.
    unfold g_e. destruct (String.eqb p q); [reflexivity | apply oeq_oval, H]. }
  rewrite E1. destruct (g_defined d' ps); cbn [oeq]; [|exact I]. rewrite E2. reflexivity.
Qed.

(* gdiv does not depend on the order of the platform list *)
Lemma forallb_perm {A} (f : A -> bool) l l' : Permutation l l' -> forallb f l = forallb f l'.
Proof.
  intros P. apply eq_true_iff_eq. rewrite !forallb_forall. split; intros H x Hx; apply H.
  - apply (Permutation_in _ (Permutation_sym P)); exact Hx.
  - apply (Permutation_in _ P); exact Hx.
Qed.

Lemma gdiv_perm d ps ps' : Permutation ps ps' -> oeq (gdiv d ps) (gdiv d ps').
Proof.
  intros P. unfold gdiv. rewrite (Permutation_length P).
  destruct (Z.of_nat (length ps') <? 2); [exact I|].
  assert (E1 : g_defined d ps = g_defined d ps').
  { unfold g_defined. rewrite (forallb_perm _ ps ps' P). apply forallb_ext_in. intros p _. apply forallb_perm; exact P. }
  assert (E2 : (g_sum d ps == g_sum d ps')%Q).
  { unfold g_sum. rewrite (Qsum_perm _ _ (Permutation_map (fun p => Qsum (map (fun q => g_e d p q) ps)) P)).
    apply Qsum_map_ext. intros p _. apply Qsum_perm. apply Permutation_map. exact P. }
  rewrite E1. destruct (g_defined d ps'); cbn [oeq]; [|exact I]. rewrite E2. reflexivity.
Qed.

(* ---- the algebraic distance as the hub ---- *)
Definition dA (t : table) (p q : string) : option Q := ratio (wsum (f_xor p q) t) (wsum (f_or p q) t).

Lemma dA_sym t p q : dA t p q = dA t q p.
Proof.
  unfold dA. f_equal; apply wsum_ext; intros s; [apply xorb_comm | apply orb_comm].
Qed.

Lemma dA_S t p q : wf t -> oeq (dA t p q) (S_distance t p q).
Proof.
  intros W. unfold S_distance, dA. rewrite (card_symdiff t p q W), (card_union t p q W). apply oeq_refl.
Qed.

Lemma divergence_on_mean t ps :
  oeq (divergence_on t ps) (mean (map (fun pq => distance t (fst pq) (snd pq)) (pairs ps))).
Proof.
  unfold divergence_on.
  destruct (map (fun pq => distance t (fst pq) (snd pq)) (pairs ps)) as [|a l] eqn:E; [exact I|].
  apply osum_mean. discriminate.
Qed.

Lemma Forall2_map_oeq {A} (f g : A -> option Q) l : (forall x, oeq (f x) (g x)) -> Forall2 oeq (map f l) (map g l).
Proof. intros H. induction l as [|x l IH]; cbn [map]; constructor; [apply H | exact IH]. Qed.

Lemma divergence_on_gdiv t ps : NoDup ps -> oeq (divergence_on t ps) (gdiv (dA t) ps).
Proof.
  intros ND. eapply oeq_trans; [apply divergence_on_mean|].
  eapply oeq_trans; [|apply (mean_pairs_gdiv (dA t) (dA_sym t) ps ND)].
  apply mean_proper. apply Forall2_map_oeq. intros [p q]. apply distance_alg.
Qed.

Lemma divergence_on_S t ps : wf t -> NoDup ps -> oeq (divergence_on t ps) (S_divergence t ps).
Proof.
  intros W ND. rewrite S_divergence_gdiv.
  eapply oeq_trans; [apply divergence_on_gdiv; exact ND|].
  apply gdiv_proper. intros p q. apply dA_S; exact W.
Qed.
