(* C17 — part f: the directives-only C pass against the ordinary C pass
   (c_file_source as used for .c files), on well-formed texts.
   - if the lines of Fortran text hold no / ' " the two passes are the same
     function ([c_source_flag]);
   - replacing every / ' " of the Fortran-text lines by a letter ([mask];
     directive lines, including their continuation lines, are left alone)
     changes neither the directive lines (numbers, text) nor the physical lines
     and categories of the other logical lines ([c_source_mask]).
   Hence the directive lines of a Fortran file are those the ORDINARY C scanner
   finds in the masked text ([fortran_directives_as_C_path]). *)
From Coq Require Import NArith Bool Ascii String List.
From CBI Require Import Lib.Res Model.C17 Spec.C17 Proofs.C17a Proofs.C17b Proofs.C17c Proofs.C17d.
Import ListNotations.

Definition inertk (k : cls) : bool := match k with kSl | kDq | kSq => false | _ => true end.
Definition inert_cs (cs : list ascii) : bool := forallb (fun c => inertk (cls_of c)) cs.
Fixpoint inert_from (c : lctx) (ls : list pline) : bool :=
  match ls with
  | [] => true
  | (cs, _) :: r => (if dirmode c cs then true else inert_cs cs) && inert_from (snext (lline c cs)) r
  end.
Definition inert (ls : list pline) : bool := inert_from (LF K0) ls.

Definition maskc (c : ascii) : ascii := if inertk (cls_of c) then c else "a"%char.
Fixpoint mask_from (c : lctx) (ls : list pline) : list pline :=
  match ls with
  | [] => []
  | (cs, nl) :: r => ((if dirmode c cs then cs else map maskc cs), nl) :: mask_from (snext (lline c cs)) r
  end.
Definition mask (ls : list pline) : list pline := mask_from (LF K0) ls.

(* ---------- the flag does not matter inside a directive ---------- *)
Lemma cstep_dir_flag fl d c b : cstep fl (dstack d, b) c = cstep true (dstack d, b) c.
Proof. destruct d; unfold cstep, cstep1, dstack; destruct (cls_of c); reflexivity. Qed.

Lemma cproc_in_dir_flag fl cs : forall d b m k, cguards (SDir k d, m) cs = true ->
  cprocess fl (dstack d, b) cs = cprocess true (dstack d, b) cs.
Proof.
  induction cs as [|c cs IH]; intros d b m k HG; [reflexivity|].
  cbn [cguards] in HG. apply andb_true_iff in HG. destruct HG as [G1 G2]. cbn [sstep] in G2.
  cbn [cprocess]. rewrite cstep_dir_flag. destruct (cstep_dir true d c b k m G1) as [b1 [E1 _]]. rewrite E1.
  exact (IH _ b1 _ k G2).
Qed.

Lemma cproc_dir_flag fl cs : forall b k, fresh b = true -> fnb cs = Some kHash -> cguards (SBol k, mU) cs = true ->
  cprocess fl ([CTop], b) cs = cprocess true ([CTop], b) cs.
Proof.
  induction cs as [|c cs IH]; intros b k HF HH HG; [discriminate|].
  cbn [cguards] in HG. apply andb_true_iff in HG. destruct HG as [G1 G2].
  cbn [fnb] in HH. cbn [cprocess]. destruct (is_ws (cls_of c)) eqn:W.
  - assert (E : forall d', cstep d' ([CTop], b) c = Ok ([CTop], app_char c b)).
    { intros d'. unfold cstep, cstep1. destruct (cls_of c); try discriminate; reflexivity. }
    rewrite !E.
    assert (E2 : sstep (SBol k, mU) (cls_of c) = (SBol k, mU)) by (destruct (cls_of c); try discriminate; reflexivity).
    rewrite E2 in G2. apply (IH _ k); [apply fresh_ws; assumption|exact HH|exact G2].
  - injection HH as HH.
    assert (E : forall d', cstep d' ([CTop], b) c = Ok ([CCpp; CTop], app_non c b)).
    { intros d'. unfold cstep, cstep1. rewrite HH, (fresh_blank b HF). reflexivity. }
    rewrite !E. rewrite HH in G2. cbn [sstep] in G2.
    exact (cproc_in_dir_flag fl cs DTxt _ mM k G2).
Qed.

Lemma c_line_dir_flag fl n c cur lines out cs nl :
  dirmode c cs = true -> cguards (start_state c) (fst (split_cont cs)) = true ->
  c_line fl n (cstate_of c cur lines out) (cs, nl) = c_line true n (cstate_of c cur lines out) (cs, nl).
Proof.
  intros HD HG. rewrite !c_line_unfold. cbv zeta.
  assert (E : cprocess fl (cl_stk (cstate_of c cur lines out), osl0) (fst (split_cont cs)) =
              cprocess true (cl_stk (cstate_of c cur lines out), osl0) (fst (split_cont cs))).
  { destruct c as [k|k d]; cbn [cstate_of clean cl_stk start_state] in *.
    - unfold dirmode in HD. cbn [is_ld orb] in HD. unfold is_dirbody in HD.
      destruct (fnb (fst (split_cont cs))) as [kh|] eqn:F; [|discriminate].
      assert (kh = kHash) by (destruct kh; try discriminate; reflexivity). subst kh.
      exact (cproc_dir_flag fl _ osl0 k eq_refl F HG).
    - exact (cproc_in_dir_flag fl _ d osl0 mU k HG). }
  rewrite E. reflexivity.
Qed.

(* ---------- a line of Fortran text ---------- *)
Lemma cproc_plain_d d cs : forall b, nobs cs = true -> (d = false -> inert_cs cs = true) ->
  (is_blank b = true -> fnb cs <> Some kHash) ->
  cprocess d ([CTop], b) cs = Ok ([CTop], fold_char cs b).
Proof.
  induction cs as [|c cs IH]; intros b HN HI HB; [reflexivity|].
  cbn [nobs forallb] in HN. apply andb_true_iff in HN. destruct HN as [N1 N2]. fold (nobs cs) in N2.
  assert (I1 : d = false -> inertk (cls_of c) = true).
  { intros D. specialize (HI D). cbn [inert_cs forallb] in HI. apply andb_true_iff in HI. exact (proj1 HI). }
  assert (I2 : d = false -> inert_cs cs = true).
  { intros D. specialize (HI D). cbn [inert_cs forallb] in HI. apply andb_true_iff in HI. exact (proj2 HI). }
  cbn [cprocess].
  assert (E : cstep d ([CTop], b) c = Ok ([CTop], app_char c b)).
  { unfold cstep, cstep1. unfold is_bs in N1. destruct (cls_of c) eqn:K; try reflexivity; try discriminate;
      try (destruct d; [reflexivity|specialize (I1 eq_refl); discriminate]).
    destruct (is_blank b) eqn:BL; [|reflexivity]. exfalso. apply (HB eq_refl). cbn [fnb]. rewrite K. reflexivity. }
  rewrite E. cbn [fold_char fold_left]. apply IH; [exact N2|exact I2|].
  intros BL. destruct (is_ws (cls_of c)) eqn:W.
  - cbn [fnb] in HB. rewrite W in HB. apply HB. exact (blank_char_ws c b W BL).
  - rewrite (blank_char_nonws c b W) in BL. discriminate.
Qed.

Lemma c_line_plain_flag n out cs nl : nobs cs = true -> fnb cs <> Some kHash -> inert_cs cs = true ->
  c_line false n (clean out) (cs, nl) = c_line true n (clean out) (cs, nl).
Proof.
  intros HN HF HI. rewrite !c_line_unfold, (body_nobs cs HN). cbn [fst snd andb negb clean cl_stk].
  rewrite (cproc_plain_d false cs osl0 HN (fun _ => HI) (fun _ => HF)).
  rewrite (cproc_plain cs osl0 HN (fun _ => HF)). reflexivity.
Qed.

(* ---------- whole files ---------- *)
Lemma c_loop_flag ls : forall n c cur lines out, wf_from c ls = true -> cinv c cur lines -> inert_from c ls = true ->
  c_lines_loop false n (cstate_of c cur lines out) ls = c_lines_loop true n (cstate_of c cur lines out) ls.
Proof.
  induction ls as [|[cs nl] r IH]; intros n c cur lines out HW HI HN; [reflexivity|].
  cbn [wf_from] in HW. apply andb_true_iff in HW. destruct HW as [HW W3].
  apply andb_true_iff in HW. destruct HW as [W1 W2].
  cbn [inert_from] in HN. apply andb_true_iff in HN. destruct HN as [N1 N2].
  cbn [c_lines_loop]. destruct (dirmode c cs) eqn:DM.
  - rewrite (c_line_dir_flag false n c cur lines out cs nl DM W1).
    pose proof (c_line_dirmode true n c cur lines out cs nl DM HI W1 W2) as HC. cbv zeta in HC.
    destruct (snext (lline c cs)) as [k'|k' d'] eqn:SN.
    + destruct HC as [txt [E1 _]]. rewrite E1.
      exact (IH (S n) (LF k') osl0 [] _ W3 eq_refl N2).
    + destruct HC as [cur' [E1 [E2 [E3 _]]]]. rewrite E1.
      exact (IH (S n) (LD k' d') cur' _ out W3 (conj E2 E3) N2).
  - assert (HL' : lguard (lline c cs) true = true \/ lguard (lline c cs) false = true)
      by (destruct nl; [left|right]; exact W2).
    destruct (dirmode_false_plain c cs DM W1 HL') as [k [EC [HB [HF [HLL ND]]]]]. subst c.
    cbn [cstate_of]. rewrite (c_line_plain_flag n out cs nl HB HF N1).
    destruct (c_line_plain n out cs nl HB HF) as [l [E1 _]]. rewrite E1.
    assert (SN : snext (lline (LF k) cs) = LF (seol (fst (sfold (SBol k, mU) cs)))).
    { rewrite HLL. destruct (sfold (SBol k, mU) cs) as [q m]. apply snext_plain. exact ND. }
    rewrite SN in W3, N2.
    exact (IH (S n) (LF _) osl0 [] (out ++ l) W3 eq_refl N2).
Qed.

Theorem c_source_flag ls : wf ls = true -> inert ls = true -> c_source false ls = c_source true ls.
Proof.
  intros HW HI. unfold c_source.
  change {| cl_stk := [CTop]; cl_cur := osl0; cl_lines := []; cl_out := [] |} with (cstate_of (LF K0) osl0 [] []).
  rewrite (c_loop_flag ls 1 (LF K0) osl0 [] [] HW eq_refl HI). reflexivity.
Qed.

(* ---------- masking ---------- *)
Lemma maskc_ws c : is_ws (cls_of (maskc c)) = is_ws (cls_of c).
Proof. unfold maskc. destruct (inertk (cls_of c)) eqn:I; [reflexivity|]. destruct (cls_of c); try discriminate; reflexivity. Qed.
Lemma maskc_hash c : is_hashk (cls_of (maskc c)) = is_hashk (cls_of c).
Proof. unfold maskc. destruct (inertk (cls_of c)) eqn:I; [reflexivity|]. destruct (cls_of c); try discriminate; reflexivity. Qed.
Lemma maskc_bs c : is_bs (maskc c) = is_bs c.
Proof. unfold maskc, is_bs. destruct (inertk (cls_of c)) eqn:I; [reflexivity|]. destruct (cls_of c); try discriminate; reflexivity. Qed.
Lemma maskc_inert c : inertk (cls_of (maskc c)) = true.
Proof. unfold maskc. destruct (inertk (cls_of c)) eqn:I; [exact I|reflexivity]. Qed.

Lemma fnb_mask cs : (fnb (map maskc cs) = Some kHash <-> fnb cs = Some kHash) /\
  (fnb (map maskc cs) = None <-> fnb cs = None).
Proof.
  induction cs as [|c cs IH]; [split; split; intros H; exact H|].
  cbn [map fnb]. rewrite maskc_ws. destruct (is_ws (cls_of c)); [exact IH|].
  pose proof (maskc_hash c) as HH. split; split; intros H; try discriminate.
  - injection H as H. rewrite H in HH. cbn in HH. destruct (cls_of c); try discriminate; reflexivity.
  - injection H as H. rewrite H in HH. cbn in HH. destruct (cls_of (maskc c)); try discriminate; reflexivity.
Qed.

Lemma nobs_mask cs : nobs (map maskc cs) = nobs cs.
Proof. unfold nobs. induction cs as [|c cs IH]; [reflexivity|]. cbn [map forallb]. rewrite maskc_bs, IH. reflexivity. Qed.
Lemma inert_mask cs : inert_cs (map maskc cs) = true.
Proof. unfold inert_cs. induction cs as [|c cs IH]; [reflexivity|]. cbn [map forallb]. rewrite maskc_inert, IH. reflexivity. Qed.

Definition strip (l : cll) : list nat * cat := (c_lines l, c_cat l).

Lemma c_line_out d n st cur lines out pl s' :
  c_line d n {| cl_stk := st; cl_cur := cur; cl_lines := lines; cl_out := out |} pl = Ok s' ->
  exists suf, cl_out s' = out ++ suf /\
    forall out', c_line d n {| cl_stk := st; cl_cur := cur; cl_lines := lines; cl_out := out' |} pl =
                 Ok {| cl_stk := cl_stk s'; cl_cur := cl_cur s'; cl_lines := cl_lines s'; cl_out := out' ++ suf |}.
Proof.
  destruct pl as [txt nl]. intros E. rewrite c_line_unfold in E. cbv zeta in E. cbn [cl_stk cl_cur cl_lines cl_out] in E.
  destruct (snd (split_cont txt) && negb nl) eqn:EX; [discriminate|].
  destruct (cprocess d (st, osl0) (fst (split_cont txt))) as [[st1 b1]|] eqn:EP; [|discriminate].
  destruct (if negb (snd (split_cont txt)) && negb (top_is_block st1) then cnewline (st1, b1) else Ok (st1, b1)) as [[st2 b2]|] eqn:EN; [|discriminate].
  destruct (negb (snd (split_cont txt)) && negb (top_is_block st2)) eqn:EF; injection E as E; subst s'; cbn [cl_stk cl_cur cl_lines cl_out].
  - unfold cflush. destruct (category (join cur b2)) eqn:EC.
    + exists []. split; [rewrite app_nil_r; reflexivity|]. intros out'. rewrite c_line_unfold. cbv zeta.
      cbn [cl_stk cl_cur cl_lines cl_out]. rewrite EX, EP, EN, EF. unfold cflush. rewrite EC, app_nil_r. reflexivity.
    + eexists. split; [reflexivity|]. intros out'. rewrite c_line_unfold. cbv zeta.
      cbn [cl_stk cl_cur cl_lines cl_out]. rewrite EX, EP, EN, EF. unfold cflush. rewrite EC. reflexivity.
    + eexists. split; [reflexivity|]. intros out'. rewrite c_line_unfold. cbv zeta.
      cbn [cl_stk cl_cur cl_lines cl_out]. rewrite EX, EP, EN, EF. unfold cflush. rewrite EC. reflexivity.
  - exists []. split; [rewrite app_nil_r; reflexivity|]. intros out'. rewrite c_line_unfold. cbv zeta.
    cbn [cl_stk cl_cur cl_lines cl_out]. rewrite EX, EP, EN, EF, app_nil_r. reflexivity.
Qed.

Lemma cstate_of_out c cur lines out : cl_out (cstate_of c cur lines out) = out.
Proof. destruct c; reflexivity. Qed.

Lemma c_loop_mask ls : forall n c cur lines out out', wf_from c ls = true -> cinv c cur lines ->
  exists L L', c_lines_loop true n (cstate_of c cur lines out) ls = Ok (clean (out ++ L)) /\
               c_lines_loop false n (cstate_of c cur lines out') (mask_from c ls) = Ok (clean (out' ++ L')) /\
               filter cdir L' = filter cdir L /\ map strip L' = map strip L.
Proof.
  induction ls as [|[cs nl] r IH]; intros n c cur lines out out' HW HI.
  - cbn [wf_from] in HW. destruct c as [[]|]; try discriminate.
    exists [], []. rewrite !app_nil_r. repeat split; reflexivity.
  - cbn [wf_from] in HW. apply andb_true_iff in HW. destruct HW as [HW W3].
    apply andb_true_iff in HW. destruct HW as [W1 W2].
    cbn [c_lines_loop mask_from]. destruct (dirmode c cs) eqn:DM.
    + rewrite (c_line_dir_flag false n c cur lines out' cs nl DM W1).
      pose proof (c_line_dirmode true n c cur lines out cs nl DM HI W1 W2) as HC. cbv zeta in HC.
      destruct (snext (lline c cs)) as [k'|k' d'] eqn:SN.
      * destruct HC as [txt [E1 _]]. rewrite E1.
        assert (E1' : c_line true n (cstate_of c cur lines out') (cs, nl) =
                      Ok (clean (out' ++ [{| c_lines := if is_dircls (classify (lline c cs)) then lines ++ [n] else lines;
                                             c_cat := CPPDIR; c_text := txt |}]))).
        { destruct c as [k|k d]; cbn [cstate_of clean] in E1 |- *;
            destruct (c_line_out _ _ _ _ _ _ _ _ E1) as [suf [S1 S2]]; cbn [cl_out clean] in S1;
            apply app_inv_head in S1; subst suf; exact (S2 out'). }
        rewrite E1'.
        destruct (IH (S n) (LF k') osl0 [] (out ++ [{| c_lines := if is_dircls (classify (lline c cs)) then lines ++ [n] else lines;
                                                      c_cat := CPPDIR; c_text := txt |}])
                     (out' ++ [{| c_lines := if is_dircls (classify (lline c cs)) then lines ++ [n] else lines;
                                  c_cat := CPPDIR; c_text := txt |}]) W3 eq_refl) as [L [L' [E3 [E4 [E5 E6]]]]].
        cbn [cstate_of] in E3, E4. rewrite E3, E4, <- !app_assoc.
        eexists. eexists. split; [reflexivity|]. split; [reflexivity|].
        cbn [app filter cdir c_cat cat_eqb map]. rewrite E5, E6. split; reflexivity.
      * destruct HC as [cur' [E1 [E2 [E3 _]]]]. rewrite E1.
        assert (E1' : c_line true n (cstate_of c cur lines out') (cs, nl) =
                      Ok {| cl_stk := dstack d'; cl_cur := cur';
                            cl_lines := if is_dircls (classify (lline c cs)) then lines ++ [n] else lines; cl_out := out' |}).
        { destruct c as [k|k d]; cbn [cstate_of clean] in E1 |- *;
            destruct (c_line_out _ _ _ _ _ _ _ _ E1) as [suf [S1 S2]]; cbn [cl_out] in S1;
            rewrite <- (app_nil_r out) in S1 at 1; apply app_inv_head in S1; subst suf;
            specialize (S2 out'); rewrite app_nil_r in S2; exact S2. }
        rewrite E1'.
        destruct (IH (S n) (LD k' d') cur' (if is_dircls (classify (lline c cs)) then lines ++ [n] else lines) out out' W3 (conj E2 E3))
          as [L [L' [E4 [E5 [E6 E7]]]]].
        cbn [cstate_of] in E4, E5. rewrite E4, E5. exists L, L'. repeat split; assumption.
    + assert (HL' : lguard (lline c cs) true = true \/ lguard (lline c cs) false = true)
        by (destruct nl; [left|right]; exact W2).
      destruct (dirmode_false_plain c cs DM W1 HL') as [k [EC [HB [HF [HLL ND]]]]]. subst c.
      cbn [cstate_of].
      destruct (fnb_mask cs) as [FM1 FM2].
      assert (HFm : fnb (map maskc cs) <> Some kHash) by (intros F; apply HF; apply FM1; exact F).
      assert (HBm : nobs (map maskc cs) = true) by (rewrite nobs_mask; exact HB).
      rewrite (c_line_plain_flag n out' (map maskc cs) nl HBm HFm (inert_mask cs)).
      destruct (c_line_plain n out cs nl HB HF) as [l [E1 C1]]. rewrite E1.
      destruct (c_line_plain n out' (map maskc cs) nl HBm HFm) as [l' [E2 C2]]. rewrite E2.
      assert (SN : snext (lline (LF k) cs) = LF (seol (fst (sfold (SBol k, mU) cs)))).
      { rewrite HLL. destruct (sfold (SBol k, mU) cs) as [q m]. apply snext_plain. exact ND. }
      rewrite SN in *.
      destruct (IH (S n) (LF (seol (fst (sfold (SBol k, mU) cs)))) osl0 [] (out ++ l) (out' ++ l') W3 eq_refl)
        as [L [L' [E3 [E4 [E5 E6]]]]].
      cbn [cstate_of] in E3, E4. rewrite E3, E4, <- !app_assoc.
      exists (l ++ L), (l' ++ L'). split; [reflexivity|]. split; [reflexivity|].
      rewrite !filter_app, !map_app, E5, E6.
      unfold cout_ok in C1, C2.
      destruct (fnb cs) as [kh|] eqn:FK; destruct (fnb (map maskc cs)) as [kh'|] eqn:FK'.
      * subst l l'. split; reflexivity.
      * exfalso. destruct FM2 as [FM2 _]. specialize (FM2 eq_refl). discriminate.
      * exfalso. destruct FM2 as [_ FM2]. specialize (FM2 eq_refl). discriminate.
      * subst l l'. split; reflexivity.
Qed.

Theorem c_source_mask ls : wf ls = true ->
  exists L L', c_source true ls = Ok L /\ c_source false (mask ls) = Ok L' /\
               filter cdir L' = filter cdir L /\ map strip L' = map strip L.
Proof.
  intros HW. destruct (c_loop_mask ls 1 (LF K0) osl0 [] [] [] HW eq_refl) as [L [L' [E1 [E2 [E3 E4]]]]].
  exists L, L'. unfold c_source, mask.
  change {| cl_stk := [CTop]; cl_cur := osl0; cl_lines := []; cl_out := [] |} with (cstate_of (LF K0) osl0 [] []).
  rewrite E1, E2. cbn. repeat split; assumption.
Qed.

Theorem fortran_directives_as_C_path ls : wf ls = true ->
  exists F Lc, f_source ls = Ok F /\ c_source false (mask ls) = Ok Lc /\
    filter fdir F = map fll_of_cll (filter cdir Lc) /\
    (forall x, In x F -> fdir x = false -> f_cat x = SRC).
Proof.
  intros HW. destruct (directives_pass_through ls HW) as [L [F [E1 [E2 [E3 E4]]]]].
  destruct (c_source_mask ls HW) as [L1 [L' [E5 [E6 [E7 _]]]]].
  rewrite E1 in E5. injection E5 as E5. subst L1.
  exists F, L'. split; [exact E2|]. split; [exact E6|]. split; [rewrite E7; exact E3|exact E4].
Qed.
