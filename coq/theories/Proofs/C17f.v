(* C17 — part f: the directives-only C pass against the ordinary C pass.
   On a text without backslashes whose # lines satisfy the scanner's guards ([cwf]):
   - if the non-directive lines hold no / ' " the two passes are the same
     function ([c_source_flag]);
   - replacing every / ' " of the non-directive lines by a letter ([mask])
     changes neither the directive lines (numbers, text) nor the physical lines
     and categories of the other logical lines ([c_source_mask]).
   Hence the directive lines of a Fortran file are those the ORDINARY C scanner
   finds in the masked text ([fortran_directives_as_C_path]). *)
From Coq Require Import NArith Bool Ascii String List.
From CBI Require Import Lib.Res Model.C17 Spec.C17 Proofs.C17a Proofs.C17b Proofs.C17c Proofs.C17d.
Import ListNotations.

Definition is_dirline (cs : list ascii) : bool := match fnb cs with Some kh => is_hashk kh | None => false end.
(* a # line on its own: the guards of Spec/C17.v do not depend on the Fortran context *)
Definition dir_ok (cs : list ascii) : bool := cguards (SBol K0, mU) cs && eguard (sfold (SBol K0, mU) cs).
Definition cwf_line (cs : list ascii) : bool := nobs cs && (if is_dirline cs then dir_ok cs else true).
Definition cwf (ls : list pline) : bool := forallb (fun pl => cwf_line (fst pl)) ls.

Definition inertk (k : cls) : bool := match k with kSl | kDq | kSq => false | _ => true end.
Definition inert_line (cs : list ascii) : bool := if is_dirline cs then true else forallb (fun c => inertk (cls_of c)) cs.
Definition inert (ls : list pline) : bool := forallb (fun pl => inert_line (fst pl)) ls.

Definition maskc (c : ascii) : ascii := if inertk (cls_of c) then c else "a"%char.
Definition mask_line (cs : list ascii) : list ascii := if is_dirline cs then cs else map maskc cs.
Definition mask (ls : list pline) : list pline := map (fun pl => (mask_line (fst pl), snd pl)) ls.

(* ---------- one line, either flag ---------- *)
Lemma cproc_plain_d d cs : forall b, nobs cs = true -> (d = false -> forallb (fun c => inertk (cls_of c)) cs = true) ->
  (is_blank b = true -> fnb cs <> Some kHash) ->
  cprocess d ([CTop], b) cs = Ok ([CTop], fold_char cs b).
Proof.
  induction cs as [|c cs IH]; intros b HN HI HB; [reflexivity|].
  cbn [nobs forallb] in HN. apply andb_true_iff in HN. destruct HN as [N1 N2]. fold (nobs cs) in N2.
  assert (I1 : d = false -> inertk (cls_of c) = true).
  { intros D. specialize (HI D). cbn [forallb] in HI. apply andb_true_iff in HI. exact (proj1 HI). }
  assert (I2 : d = false -> forallb (fun c => inertk (cls_of c)) cs = true).
  { intros D. specialize (HI D). cbn [forallb] in HI. apply andb_true_iff in HI. exact (proj2 HI). }
  cbn [cprocess].
  assert (E : cstep d ([CTop], b) c = Ok ([CTop], app_char c b)).
  { unfold cstep, cstep1. unfold is_bs in N1. destruct (cls_of c) eqn:K; try reflexivity; try discriminate;
      try (destruct d; [reflexivity|specialize (I1 eq_refl); discriminate]).
    destruct (is_blank b) eqn:BL; [|reflexivity]. exfalso. apply (HB eq_refl). cbn [fnb]. rewrite K. reflexivity. }
  rewrite E. cbn [fold_char fold_left]. apply IH; [exact N2|exact I2|].
  intros BL. destruct (is_ws (cls_of c)) eqn:W.
  - cbn [fnb] in HB. rewrite W in HB. apply HB. exact (blank_char_ws c b W BL).
  - rewrite (blank_char_nonws c b W) in BL. discriminate.
Qed.

Lemma cstep_dir_flag fl d c b : cstep fl (dstack d, b) c = cstep true (dstack d, b) c.
Proof. destruct d; unfold cstep, cstep1, dstack; destruct (cls_of c); reflexivity. Qed.

Lemma cproc_in_dir_flag fl cs : forall d b k m, category b = CPPDIR -> cguards (SDir k d, m) cs = true ->
  cprocess fl (dstack d, b) cs = cprocess true (dstack d, b) cs.
Proof.
  induction cs as [|c cs IH]; intros d b k m HC HG; [reflexivity|].
  cbn [cguards] in HG. apply andb_true_iff in HG. destruct HG as [G1 G2]. cbn [sstep] in G2.
  cbn [cprocess]. rewrite cstep_dir_flag. destruct (cstep_dir true d c b k m HC G1) as [b1 [E1 E2]]. rewrite E1.
  exact (IH _ b1 k m E2 G2).
Qed.

Lemma cproc_dir_flag fl cs : forall b k, fresh b = true -> fnb cs = Some kHash -> cguards (SBol k, mU) cs = true ->
  cprocess fl ([CTop], b) cs = cprocess true ([CTop], b) cs.
Proof.
  induction cs as [|c cs IH]; intros b k HF HH HG; [discriminate|].
  cbn [cguards] in HG. apply andb_true_iff in HG. destruct HG as [G1 G2].
  cbn [fnb] in HH. cbn [cprocess]. destruct (is_ws (cls_of c)) eqn:W.
  - assert (E : forall d', cstep d' ([CTop], b) c = Ok ([CTop], app_char c b)).
    { intros d'. unfold cstep, cstep1. destruct (cls_of c); try discriminate; reflexivity. }
    rewrite !E.
    assert (E2 : sstep (SBol k, mU) (cls_of c) = (SBol k, mU)) by (destruct (cls_of c); try discriminate; reflexivity).
    rewrite E2 in G2. apply (IH _ k); [apply fresh_ws; assumption|exact HH|exact G2].
  - injection HH as HH.
    assert (E : forall d', cstep d' ([CTop], b) c = Ok ([CCpp; CTop], app_non c b)).
    { intros d'. unfold cstep, cstep1. rewrite HH, (fresh_blank b HF). reflexivity. }
    rewrite !E. rewrite HH in G2. cbn [sstep] in G2.
    apply (cproc_in_dir_flag fl cs DTxt _ k mM); [apply cat_hash_blank; [exact HH|apply fresh_blank; exact HF]|exact G2].
Qed.

Lemma is_dirline_hash cs : is_dirline cs = true -> fnb cs = Some kHash.
Proof. unfold is_dirline. destruct (fnb cs) as [[]|]; try discriminate; reflexivity. Qed.
Lemma is_dirline_nohash cs : is_dirline cs = false -> fnb cs <> Some kHash.
Proof. unfold is_dirline. intros H E. rewrite E in H. discriminate. Qed.

(* c_line does not depend on the flag, and has the shape of [cout_ok] *)
Lemma c_line_d d n out cs nl : cwf_line cs = true -> (d = false -> inert_line cs = true) ->
  exists l, c_line d n (clean out) (cs, nl) = Ok (clean (out ++ l)) /\
            c_line true n (clean out) (cs, nl) = Ok (clean (out ++ l)) /\ cout_ok n cs l.
Proof.
  intros HW HI. unfold cwf_line in HW. apply andb_true_iff in HW. destruct HW as [HN HL].
  unfold inert_line in HI.
  unfold c_line. rewrite (body_nobs cs HN). cbn [andb negb clean cl_stk cl_cur cl_lines cl_out].
  unfold cout_ok. destruct (is_dirline cs) eqn:DL.
  - pose proof (is_dirline_hash cs DL) as F. rewrite F. cbn [is_hashk].
    unfold dir_ok in HL. apply andb_true_iff in HL. destruct HL as [HG HE].
    rewrite (cproc_dir_flag d cs osl0 K0 eq_refl F HG).
    destruct (cproc_dir true cs osl0 K0 eq_refl F HG) as [ds [b' [E1 [E3 ES]]]].
    rewrite E1. rewrite ES in HE. destruct (dir_newline ds b' K0 mM HE E3) as [T1 [b2 [T2 T3]]]. rewrite T1. cbn [negb]. rewrite T2.
    cbn [top_is_block negb]. unfold cflush. rewrite join0_cat, T3.
    unfold is_blank. rewrite T3. cbn [app].
    eexists. split; [reflexivity|]. split; [reflexivity|]. eexists. reflexivity.
  - pose proof (is_dirline_nohash cs DL) as F.
    rewrite (cproc_plain_d d cs osl0 HN HI (fun _ => F)).
    rewrite (cproc_plain_d true cs osl0 HN (fun D => False_ind _ (diff_true_false D)) (fun _ => F)).
    cbn [top_is_block negb cnewline]. unfold cflush. rewrite join0_cat.
    rewrite (cat_fold_char cs osl0 eq_refl). unfold is_blank. rewrite (cat_fold_char cs osl0 eq_refl).
    unfold is_dirline in DL. destruct (fnb cs) as [kh|] eqn:FK.
    + rewrite DL. cbn [app]. rewrite join0_parts, fold_char_parts. cbn [parts trailing osl0 app].
      eexists. split; [reflexivity|]. split; reflexivity.
    + exists []. rewrite app_nil_r. split; [reflexivity|]. split; reflexivity.
Qed.

Lemma c_loop_d d ls : forall n out, cwf ls = true -> (d = false -> inert ls = true) ->
  c_lines_loop d n (clean out) ls = c_lines_loop true n (clean out) ls.
Proof.
  induction ls as [|[cs nl] r IH]; intros n out HW HI; [reflexivity|].
  cbn [cwf forallb fst] in HW. apply andb_true_iff in HW. destruct HW as [W1 W2]. fold (cwf r) in W2.
  assert (I1 : d = false -> inert_line cs = true).
  { intros D. specialize (HI D). cbn [inert forallb fst] in HI. apply andb_true_iff in HI. exact (proj1 HI). }
  assert (I2 : d = false -> inert r = true).
  { intros D. specialize (HI D). cbn [inert forallb fst] in HI. apply andb_true_iff in HI. exact (proj2 HI). }
  destruct (c_line_d d n out cs nl W1 I1) as [l [E1 [E2 _]]].
  cbn [c_lines_loop]. rewrite E1, E2. apply IH; assumption.
Qed.

Theorem c_source_flag ls : cwf ls = true -> inert ls = true -> c_source false ls = c_source true ls.
Proof.
  intros HW HI. unfold c_source.
  change {| cl_stk := [CTop]; cl_cur := osl0; cl_lines := []; cl_out := [] |} with (clean []).
  rewrite (c_loop_d false ls 1 [] HW (fun _ => HI)). reflexivity.
Qed.

(* ---------- masking ---------- *)
Lemma maskc_ws c : is_ws (cls_of (maskc c)) = is_ws (cls_of c).
Proof. unfold maskc. destruct (inertk (cls_of c)) eqn:I; [reflexivity|]. destruct (cls_of c); try discriminate; reflexivity. Qed.
Lemma maskc_hash c : is_hashk (cls_of (maskc c)) = is_hashk (cls_of c).
Proof. unfold maskc. destruct (inertk (cls_of c)) eqn:I; [reflexivity|]. destruct (cls_of c); try discriminate; reflexivity. Qed.
Lemma maskc_bs c : is_bs (maskc c) = is_bs c.
Proof. unfold maskc, is_bs. destruct (inertk (cls_of c)) eqn:I; [reflexivity|]. destruct (cls_of c); try discriminate; reflexivity. Qed.
Lemma maskc_inert c : inertk (cls_of (maskc c)) = true.
Proof. unfold maskc. destruct (inertk (cls_of c)) eqn:I; [exact I|reflexivity]. Qed.

Lemma fnb_mask cs : is_dirline (map maskc cs) = is_dirline cs /\
  (fnb (map maskc cs) = None <-> fnb cs = None).
Proof.
  unfold is_dirline. induction cs as [|c cs IH]; [split; [reflexivity|split; intros H; exact H]|].
  cbn [map fnb]. rewrite maskc_ws. destruct (is_ws (cls_of c)); [exact IH|].
  split; [apply maskc_hash|split; discriminate].
Qed.

Lemma nobs_mask cs : nobs (map maskc cs) = nobs cs.
Proof. unfold nobs. induction cs as [|c cs IH]; [reflexivity|]. cbn [map forallb]. rewrite maskc_bs, IH. reflexivity. Qed.

Lemma cwf_mask_line cs : cwf_line cs = true -> cwf_line (mask_line cs) = true /\ inert_line (mask_line cs) = true /\
  is_dirline (mask_line cs) = is_dirline cs.
Proof.
  intros HW. unfold mask_line. destruct (is_dirline cs) eqn:DL.
  - split; [exact HW|]. split; [unfold inert_line; rewrite DL; reflexivity|exact DL].
  - destruct (fnb_mask cs) as [F1 F2]. rewrite DL in F1.
    unfold cwf_line in *. rewrite DL in HW. rewrite F1, nobs_mask. split; [exact HW|]. split; [|reflexivity].
    unfold inert_line. rewrite F1. clear. induction cs as [|c cs IH]; [reflexivity|].
    cbn [map forallb]. rewrite maskc_inert, IH. reflexivity.
Qed.

Lemma cwf_mask ls : cwf ls = true -> cwf (mask ls) = true /\ inert (mask ls) = true.
Proof.
  induction ls as [|[cs nl] r IH]; intros HW; [split; reflexivity|].
  cbn [cwf forallb fst] in HW. apply andb_true_iff in HW. destruct HW as [W1 W2]. fold (cwf r) in W2.
  destruct (cwf_mask_line cs W1) as [A [B _]]. destruct (IH W2) as [C D].
  cbn [mask map cwf inert forallb fst]. fold (mask r). fold (cwf (mask r)). fold (inert (mask r)).
  rewrite A, B, C, D. split; reflexivity.
Qed.

Definition strip (l : cll) : list nat * cat := (c_lines l, c_cat l).

Lemma c_line_out d n st cur lines out pl s' :
  c_line d n {| cl_stk := st; cl_cur := cur; cl_lines := lines; cl_out := out |} pl = Ok s' ->
  exists suf, cl_out s' = out ++ suf /\
    forall out', c_line d n {| cl_stk := st; cl_cur := cur; cl_lines := lines; cl_out := out' |} pl =
                 Ok {| cl_stk := cl_stk s'; cl_cur := cl_cur s'; cl_lines := cl_lines s'; cl_out := out' ++ suf |}.
Proof.
  unfold c_line. destruct pl as [txt nl].
  destruct (match split_last txt with
            | Some (i, z) => if is_bs z then (i, true) else (txt, false)
            | None => (txt, false)
            end) as [body continued].
  cbn [cl_stk cl_cur cl_lines cl_out].
  destruct (continued && negb nl); [discriminate|].
  destruct (cprocess d (st, osl0) body) as [[st1 b1]|]; [|discriminate].
  destruct (if negb continued && negb (top_is_block st1) then cnewline (st1, b1) else Ok (st1, b1)) as [[st2 b2]|]; [|discriminate].
  destruct (negb continued && negb (top_is_block st2)); intros E; injection E as E; subst s'; cbn [cl_stk cl_cur cl_lines cl_out].
  - unfold cflush. destruct (category (join cur b2)).
    + exists []. split; [rewrite app_nil_r; reflexivity|]. intros out'. rewrite app_nil_r. reflexivity.
    + eexists. split; [reflexivity|]. intros out'. reflexivity.
    + eexists. split; [reflexivity|]. intros out'. reflexivity.
  - exists []. split; [rewrite app_nil_r; reflexivity|]. intros out'. rewrite app_nil_r. reflexivity.
Qed.

Lemma c_line_mask n out out' cs nl : cwf_line cs = true ->
  exists l l', c_line true n (clean out) (cs, nl) = Ok (clean (out ++ l)) /\
               c_line true n (clean out') (mask_line cs, nl) = Ok (clean (out' ++ l')) /\
               filter cdir l' = filter cdir l /\ map strip l' = map strip l.
Proof.
  intros HW. destruct (cwf_mask_line cs HW) as [A [_ DLm]].
  unfold mask_line in *. destruct (is_dirline cs) eqn:DL.
  - destruct (c_line_d true n out cs nl HW (fun D => False_ind _ (diff_true_false D))) as [l [E1 [_ _]]].
    destruct (c_line_d true n out' cs nl HW (fun D => False_ind _ (diff_true_false D))) as [l2 [E2 [_ C2]]].
    (* the same line through the same function: the outputs differ only in the accumulated prefix *)
    assert (EQ : l2 = l).
    { destruct (c_line_out true n [CTop] osl0 [] out (cs, nl) _ E1) as [suf [S1 S2]].
      cbn [clean cl_out] in S1. apply app_inv_head in S1. subst suf.
      specialize (S2 out'). unfold clean in E2. rewrite S2 in E2. injection E2 as E2.
      apply app_inv_head in E2. symmetry. exact E2. }
    subst l2. exists l, l. repeat split; assumption.
  - destruct (c_line_d true n out cs nl HW (fun D => False_ind _ (diff_true_false D))) as [l [E1 [_ C1]]].
    destruct (c_line_d true n out' (map maskc cs) nl A (fun D => False_ind _ (diff_true_false D))) as [l' [E2 [_ C2]]].
    exists l, l'. split; [exact E1|]. split; [exact E2|].
    unfold cout_ok in C1, C2. destruct (fnb_mask cs) as [F1 F2]. unfold is_dirline in DL, DLm, F1.
    destruct (fnb cs) as [kh|] eqn:FK; destruct (fnb (map maskc cs)) as [kh'|] eqn:FK'.
    + rewrite DL in C1. rewrite DLm in C2. subst l l'. split; reflexivity.
    + exfalso. destruct F2 as [F2 _]. specialize (F2 eq_refl). discriminate.
    + exfalso. destruct F2 as [_ F2]. specialize (F2 eq_refl). discriminate.
    + subst l l'. split; reflexivity.
Qed.

Lemma c_loop_mask ls : forall n out out', cwf ls = true ->
  exists L L', c_lines_loop true n (clean out) ls = Ok (clean (out ++ L)) /\
               c_lines_loop true n (clean out') (mask ls) = Ok (clean (out' ++ L')) /\
               filter cdir L' = filter cdir L /\ map strip L' = map strip L.
Proof.
  induction ls as [|[cs nl] r IH]; intros n out out' HW.
  - exists [], []. rewrite !app_nil_r. repeat split; reflexivity.
  - cbn [cwf forallb fst] in HW. apply andb_true_iff in HW. destruct HW as [W1 W2]. fold (cwf r) in W2.
    destruct (c_line_mask n out out' cs nl W1) as [l [l' [E1 [E2 [E3 E4]]]]].
    destruct (IH (S n) (out ++ l) (out' ++ l') W2) as [L [L' [E5 [E6 [E7 E8]]]]].
    exists (l ++ L), (l' ++ L'). cbn [mask map c_lines_loop fst snd]. fold (mask r).
    rewrite E1, E2, E5, E6, !app_assoc, !filter_app, !map_app, E3, E4, E7, E8. repeat split; reflexivity.
Qed.

Theorem c_source_mask ls : cwf ls = true ->
  exists L L', c_source true ls = Ok L /\ c_source false (mask ls) = Ok L' /\
               filter cdir L' = filter cdir L /\ map strip L' = map strip L.
Proof.
  intros HW. destruct (cwf_mask ls HW) as [M1 M2].
  rewrite (c_source_flag (mask ls) M1 M2).
  destruct (c_loop_mask ls 1 [] [] HW) as [L [L' [E1 [E2 [E3 E4]]]]].
  exists L, L'. unfold c_source.
  change {| cl_stk := [CTop]; cl_cur := osl0; cl_lines := []; cl_out := [] |} with (clean []).
  rewrite E1, E2. cbn. repeat split; assumption.
Qed.

(* ---------- wf implies cwf ---------- *)
Lemma dir_k_indep2 cs : forall d k k' m,
  cguards (SDir k d, m) cs = cguards (SDir k' d, m) cs /\
  eguard (sfold (SDir k d, m) cs) = eguard (sfold (SDir k' d, m) cs).
Proof.
  induction cs as [|c cs IH]; intros d k k' m.
  - split; [reflexivity|]. destruct d; reflexivity.
  - cbn [cguards]. rewrite !sfold_cons. cbn [sstep]. destruct (IH (dstep d (cls_of c)) k k' m) as [A B].
    rewrite A, B. split; [|reflexivity]. f_equal; destruct (cls_of c), d; reflexivity.
Qed.

Lemma dir_k_indep cs : forall k k', fnb cs = Some kHash ->
  cguards (SBol k, mU) cs = cguards (SBol k', mU) cs /\
  eguard (sfold (SBol k, mU) cs) = eguard (sfold (SBol k', mU) cs).
Proof.
  induction cs as [|c cs IH]; intros k k' HF; [discriminate|].
  cbn [fnb] in HF. cbn [cguards]. rewrite !sfold_cons. destruct (is_ws (cls_of c)) eqn:W.
  - assert (E : forall k0, sstep (SBol k0, mU) (cls_of c) = (SBol k0, mU)) by (intros k0; destruct (cls_of c); try discriminate; reflexivity).
    rewrite !E. destruct (IH k k' HF) as [A B]. rewrite A, B. split; [|reflexivity].
    f_equal; destruct (cls_of c); try discriminate; reflexivity.
  - injection HF as HF. rewrite HF. cbn [sstep]. destruct (dir_k_indep2 cs DTxt k k' mM) as [A B].
    rewrite A, B. split; reflexivity.
Qed.

Lemma wf_from_cwf ls : forall k, wf_from k ls = true -> cwf ls = true.
Proof.
  induction ls as [|[cs nl] r IH]; intros k HW; [reflexivity|].
  cbn [wf_from] in HW. apply andb_true_iff in HW. destruct HW as [HW W3].
  apply andb_true_iff in HW. destruct HW as [W1 W2].
  cbn [cwf forallb fst]. fold (cwf r). rewrite (IH _ W3), andb_true_r.
  unfold cwf_line. rewrite (cguards_nobs _ _ W1). cbn [andb].
  destruct (is_dirline cs) eqn:DL; [|reflexivity].
  destruct (dir_k_indep cs k K0 (is_dirline_hash cs DL)) as [A B].
  unfold dir_ok. rewrite <- A, <- B, W1. exact W2.
Qed.

Theorem fortran_directives_as_C_path ls : wf ls = true ->
  exists F Lc, f_source ls = Ok F /\ c_source false (mask ls) = Ok Lc /\
    filter fdir F = map fll_of_cll (filter cdir Lc) /\
    (forall x, In x F -> fdir x = false -> f_cat x = SRC).
Proof.
  intros HW. destruct (directives_pass_through ls HW) as [L [F [E1 [E2 [E3 E4]]]]].
  destruct (c_source_mask ls (wf_from_cwf ls K0 HW)) as [L1 [L' [E5 [E6 [E7 _]]]]].
  rewrite E1 in E5. injection E5 as E5. subst L1.
  exists F, L'. split; [exact E2|]. split; [exact E6|]. split; [rewrite E7; exact E3|exact E4].
Qed.
