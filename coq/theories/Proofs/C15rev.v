(* C15 — the other direction: whenever the reference preprocessor accepts the
   canonical configuration, the analysis of the aliased code base succeeds
   (with the reference's marks).  The two-world theorem is symmetric in its
   hypotheses, so it is applied to the swapped worlds; the C04 model and the
   C15 model with rp := norm simulate each other. *)
From Coq Require Import Bool Arith ZArith String List.
From CBI Require Import Lib.Res Model.C01 Spec.C01 Model.C04 Spec.C04 Proofs.C01 Proofs.C04
     Model.C15fs Model.C15 Model.C15i Spec.C15
     Proofs.C15fs Proofs.C15enum Proofs.C15 Proofs.C15i Proofs.C15sim Proofs.C15w Proofs.C15full Proofs.C15spec.
Import ListNotations.
Local Open Scope list_scope.

Definition flipr {A} (R : A -> A -> Prop) : A -> A -> Prop := fun x y => R y x.

Section Flip.
Variable NR : path -> path -> Prop.

Lemma val_rel_flip v1 v2 : val_rel NR v1 v2 -> val_rel (flipr NR) v2 v1.
Proof. destruct 1; constructor; assumption. Qed.
Lemma act_rel_flip a1 a2 : act_rel NR a1 a2 -> act_rel (flipr NR) a2 a1.
Proof.
  destruct 1 as [| |m v1 v2 Hv|m|tag s1 s2 Hs|]; constructor; [apply val_rel_flip; exact Hv|].
  destruct Hs; constructor; assumption.
Qed.
Lemma lrel_flip l1 l2 : lrel NR l1 l2 -> lrel (flipr NR) l2 l1.
Proof.
  destruct l1 as [i1 k1], l2 as [i2 k2]. unfold lrel, line_rel. cbn. intros [-> Hk]. split; [reflexivity|].
  destruct k1, k2; cbn in *; try contradiction; try (symmetry; exact Hk); try exact I. apply act_rel_flip. exact Hk.
Qed.
Lemma Forall2_flip' {A} (R : A -> A -> Prop) l1 l2 : Forall2 R l1 l2 -> Forall2 (flipr R) l2 l1.
Proof. induction 1; constructor; assumption. Qed.
Lemma Forall2_impl' {A} (R S : A -> A -> Prop) l1 l2 : (forall x y, R x y -> S x y) -> Forall2 R l1 l2 -> Forall2 S l1 l2.
Proof. intros H. induction 1; constructor; auto. Qed.
Lemma lines_flip l1 l2 : Forall2 (lrel NR) l1 l2 -> Forall2 (lrel (flipr NR)) l2 l1.
Proof. intros H. apply Forall2_flip' in H. eapply Forall2_impl'; [|exact H]. intros x y. apply lrel_flip. Qed.
Lemma defs_rel_flip d1 d2 : defs_rel NR d1 d2 -> defs_rel (flipr NR) d2 d1.
Proof.
  intros H. apply Forall2_flip' in H. eapply Forall2_impl'; [|exact H].
  intros x y [E V]. split; [symmetry; exact E|apply val_rel_flip; exact V].
Qed.
End Flip.

(* the two-world theorem, right to left *)
Section Rev.
Variables rp1 rp2 : path -> path.
Variables getf1 getf2 : path -> option lines.
Variables NR DR : path -> path -> Prop.
Variable Good : path -> Prop.
Hypothesis Hst1 : forall q ls, getf1 q = Some ls -> exists its, ls = flats act cond its.
Hypothesis Hst2 : forall q ls, getf2 q = Some ls -> exists its, ls = flats act cond its.
Hypothesis Hsearch : forall ds1 ds2 n1 n2 cur a,
  Forall2 DR ds1 ds2 -> NR n1 n2 -> Good cur ->
  match search_A rp1 getf1 ds1 (n1, dirname cur, a), search_A rp2 getf2 ds2 (n2, dirname cur, a) with
  | Some f1, Some f2 => f1 = f2 /\ rp1 f1 = rp2 f2 /\ Good (rp1 f1)
  | None, None => True
  | _, _ => False
  end.
Hypothesis Hcontent : forall q, Good q ->
  match getf1 q, getf2 q with
  | Some l1, Some l2 => Forall2 (lrel NR) l1 l2
  | None, None => True
  | _, _ => False
  end.

Lemma cfg_rel_flip c1 c2 : cfg_rel rp1 rp2 NR DR Good c1 c2 -> cfg_rel rp2 rp1 (flipr NR) (flipr DR) Good c2 c1.
Proof.
  intros H. apply Forall2_flip' in H. eapply Forall2_impl'; [|exact H].
  intros x y [E (Hf & Hg & Hd & Hdefs & Hi)]. split; [symmetry; exact E|].
  split; [symmetry; exact Hf|]. split; [rewrite <- Hf; exact Hg|].
  split; [apply Forall2_flip'; exact Hd|]. split; [apply defs_rel_flip; exact Hdefs|apply Forall2_flip'; exact Hi].
Qed.

Theorem analyse_sim2_rev fuel c1 c2 : cfg_rel rp1 rp2 NR DR Good c1 c2 ->
  forall ms, analyse rp2 getf2 fuel c2 = Ok ms -> analyse rp1 getf1 fuel c1 = Ok ms.
Proof.
  intros Hc.
  apply (analyse_sim2 rp2 rp1 getf2 getf1 (flipr NR) (flipr DR) Good Hst2 Hst1).
  - intros ds2 ds1 n2 n1 cur a Hd Hn Hg. apply Forall2_flip' in Hd.
    assert (Hd' : Forall2 DR ds1 ds2) by (eapply Forall2_impl'; [|exact Hd]; intros x y X; exact X).
    pose proof (Hsearch ds1 ds2 n1 n2 cur a Hd' Hn Hg) as H.
    destruct (search_A rp1 getf1 ds1 (n1, dirname cur, a)) as [f1|], (search_A rp2 getf2 ds2 (n2, dirname cur, a)) as [f2|];
      try contradiction; [|exact I].
    destruct H as (-> & E & G). split; [reflexivity|]. split; [symmetry; exact E|rewrite <- E; exact G].
  - intros q Hg. pose proof (Hcontent q Hg) as H.
    destruct (getf1 q) as [l1|], (getf2 q) as [l2|]; try contradiction; [|exact I]. apply lines_flip. exact H.
  - apply cfg_rel_flip. exact Hc.
Qed.
End Rev.

(* ---------- the C04 model simulates the C15 model with rp := norm ---------- *)
Section NormWorldRev.
Variable fs : fsys.
Hypothesis Hfs : fs_structured fs.
Hypothesis Hnormal : forall p ls, fs_get fs p = Some ls -> norm p = p.

Definition MRel' (p q : plat) : Prop := p = q /\ memo_ok fs p.

Lemma exec_M_norm fuel : forall cur a p p', memo_ok fs p ->
  exec_M fs fuel cur a p = Ok p' -> exec_A norm (fs_get fs) fuel cur a p = Ok p' /\ memo_ok fs p'.
Proof.
  induction fuel as [|n IH]; intros cur a p p' Hm; rewrite exec_A_unfold, exec_M_unfold.
  - destruct a as [| |m v|m|tag s|];
      [ intros H; inversion H; subst; split; [reflexivity|exact Hm]
      | intros H; inversion H; subst; split; [reflexivity|exact Hm]
      | intros H; inversion H; subst; split; [reflexivity|destruct (lookup m (defs p)); exact Hm]
      | intros H; inversion H; subst; split; [reflexivity|exact Hm]
      |
      | intros H; inversion H; subst; split; [reflexivity|destruct (mem_path cur (once p)); exact Hm] ].
    destruct (include_target s p) as [[angle name]|e]; [|discriminate].
    rewrite (find_include_norm fs). destruct (find_include fs (name, dirname cur, angle) p) as [p1 r] eqn:Ef.
    destruct (find_include_spec fs _ _ _ _ Hm Ef) as (_ & Hm1 & _).
    destruct r as [f|]; [|intros H; inversion H; subst; split; [reflexivity|exact Hm1]].
    destruct (mem_path f (once p1)); [intros H; inversion H; subst; split; [reflexivity|exact Hm1]|discriminate].
  - destruct a as [| |m v|m|tag s|];
      [ intros H; inversion H; subst; split; [reflexivity|exact Hm]
      | intros H; inversion H; subst; split; [reflexivity|exact Hm]
      | intros H; inversion H; subst; split; [reflexivity|destruct (lookup m (defs p)); exact Hm]
      | intros H; inversion H; subst; split; [reflexivity|exact Hm]
      |
      | intros H; inversion H; subst; split; [reflexivity|destruct (mem_path cur (once p)); exact Hm] ].
    destruct (include_target s p) as [[angle name]|e]; [|discriminate].
    rewrite (find_include_norm fs). destruct (find_include fs (name, dirname cur, angle) p) as [p1 r] eqn:Ef.
    destruct (find_include_spec fs _ _ _ _ Hm Ef) as (_ & Hm1 & _).
    destruct r as [f|]; [|intros H; inversion H; subst; split; [reflexivity|exact Hm1]].
    rewrite (found_normal fs Hnormal _ _ _ _ Ef Hm).
    destruct (mem_path f (once p1)); [intros H; inversion H; subst; split; [reflexivity|exact Hm1]|].
    destruct (fs_get fs f) as [ls|] eqn:Eg; [|discriminate].
    destruct (Hfs f ls Eg) as (its & ->). rewrite !attribution. intros H.
    destruct (run_S_sim plat plat act cond (mark_in f) (mark_in f) (exec_M fs n f) (exec_A norm (fs_get fs) n f) ev ev MRel') with (ls := flats act cond its) (p := p1) (q := p1) (p' := p') as (q' & Hq & [<- Hmq]).
    + intros id x y [<- Hx]. split; [reflexivity|]. intros k r. apply Hx.
    + intros c x y b0 [<- _] Hev. exact Hev.
    + intros a0 x y x' [<- Hx] Hex. destruct (IH f a0 x x' Hx Hex) as [H1 H2]. exists x'. split; [exact H1|split; [reflexivity|exact H2]].
    + split; [reflexivity|exact Hm1].
    + exact H.
    + split; assumption.
Qed.

Lemma run_lines_M_norm fuel f ls p p' : memo_ok fs p -> (exists its, ls = flats act cond its) ->
  run_M plat act cond (mark_in f) (exec_M fs fuel f) ev ls p = Ok p' ->
  run_M plat act cond (mark_in f) (exec_A norm (fs_get fs) fuel f) ev ls p = Ok p' /\ memo_ok fs p'.
Proof.
  intros Hm (its & ->). rewrite !attribution. intros H.
  destruct (run_S_sim plat plat act cond (mark_in f) (mark_in f) (exec_M fs fuel f) (exec_A norm (fs_get fs) fuel f) ev ev MRel') with (ls := flats act cond its) (p := p) (q := p) (p' := p') as (q' & Hq & [<- Hmq]).
  - intros id x y [<- Hx]. split; [reflexivity|]. intros k r. apply Hx.
  - intros c x y b0 [<- _] Hev. exact Hev.
  - intros a0 x y x' [<- Hx] Hex. destruct (exec_M_norm fuel f a0 x x' Hx Hex) as [H1 H2]. exists x'. split; [exact H1|split; [reflexivity|exact H2]].
  - split; [reflexivity|exact Hm].
  - exact H.
  - split; assumption.
Qed.

Lemma run_file_M_norm fuel f p p' : norm f = f -> memo_ok fs p ->
  run_file_M fs fuel f p = Ok p' -> run_file_A norm (fs_get fs) fuel f p = Ok p' /\ memo_ok fs p'.
Proof.
  unfold run_file_A, run_file_M. intros -> Hm. destruct (fs_get fs f) as [ls|] eqn:Eg; [|discriminate].
  apply run_lines_M_norm; [exact Hm|exact (Hfs f ls Eg)].
Qed.

Lemma forced_M_norm fuel this incs : forall p p', memo_ok fs p ->
  forced_M fs fuel this incs p = Ok p' -> forced_A norm (fs_get fs) fuel this incs p = Ok p' /\ memo_ok fs p'.
Proof.
  induction incs as [|n r IH]; intros p p' Hm; cbn [forced_A forced_M]; [intros H; inversion H; subst; auto|].
  rewrite (find_include_norm fs). destruct (find_include fs (n, this, false) p) as [p1 res] eqn:Ef.
  destruct (find_include_spec fs _ _ _ _ Hm Ef) as (_ & Hm1 & _).
  destruct res as [f|]; [|apply IH; exact Hm1].
  destruct (mem_path f (once p1)); [apply IH; exact Hm1|].
  destruct (run_file_M fs fuel f p1) as [p2|e] eqn:E; [|discriminate].
  destruct (run_file_M_norm _ _ _ _ (found_normal fs Hnormal _ _ _ _ Ef Hm) Hm1 E) as [-> Hm2]. apply IH. exact Hm2.
Qed.

Lemma run_tu_M_norm fuel e r : norm (e_file e) = e_file e ->
  run_tu_M fs fuel e = Ok r -> run_tu_A norm (fs_get fs) fuel e = Ok r.
Proof.
  intros Hn. unfold run_tu_A, run_tu_M. rewrite Hn.
  destruct (forced_M fs fuel (dirname (e_file e)) (e_incs e) (fresh e)) as [p|x] eqn:E; [|discriminate].
  assert (Hm0 : memo_ok fs (fresh e)) by (intros k r0; cbn; discriminate).
  destruct (forced_M_norm _ _ _ _ _ Hm0 E) as [-> Hm]. intros H.
  destruct (run_file_M_norm _ _ _ _ Hn Hm H) as [H1 _]. exact H1.
Qed.

(* the reference accepts => the link-free C15 model succeeds with the reference's marks *)
Lemma analyse_S_norm fuel c : Forall (fun x => norm (e_file (snd x)) = e_file (snd x)) c -> forall msS,
  analyse_S fs fuel c = Ok msS -> analyse norm (fs_get fs) fuel c = Ok msS.
Proof.
  induction 1 as [|[pl e] r Hn _ IH]; intros msS; cbn [analyse_S analyse]; [auto|]. cbn [snd] in Hn.
  destruct (run_tu_S fs fuel e) as [rS|x] eqn:ES; [|discriminate].
  destruct (analyse_S fs fuel r) as [mS|x] eqn:EA; [|discriminate].
  destruct (run_tu_sim fs Hfs fuel e rS ES) as (rM & EM & (Ha & _)).
  rewrite (run_tu_M_norm _ _ _ Hn EM), (IH mS eq_refl), Ha. auto.
Qed.

End NormWorldRev.

(* ---------- the chain, right to left ---------- *)
Theorem reference_accepts_model_succeeds (root : fnode) (tab_a tab_c : ctable) (cfs : fsys)
        (fuel : nat) (c_a c_c : list (nat * entry)) (msS : list mark) :
  wf root ->
  tab_structured tab_a -> tab_structured tab_c -> fs_structured cfs ->
  tab_rel root tab_a tab_c (alldirs root) -> alias_cfg2 root tab_a (alldirs root) c_a c_c ->
  tab_names_ok root tab_c -> canon_cfg root c_c ->
  (forall p, is_real root p = true -> fs_get cfs p = getf_i root tab_c p) ->
  (forall p ls, fs_get cfs p = Some ls -> is_real root p = true) ->
  analyse_S cfs fuel c_c = Ok msS ->
  analyse (rp_i root) (getf_i root tab_a) fuel c_a = Ok msS.
Proof.
  intros Hwf Sa Sc Sf Ht Hc Hn Hcc Hcfs Hcr HS.
  assert (H1 : analyse norm (fs_get cfs) fuel c_c = Ok msS).
  { apply (analyse_S_norm cfs Sf (fun p ls Hp => norm_real root p (Hcr p ls Hp))); [|exact HS].
    clear - Hcc. induction Hcc as [|[pl e] l (Hf & _) _ IH]; constructor; [apply (norm_real root); exact Hf|exact IH]. }
  assert (H2 : analyse (rp_i root) (getf_i root tab_c) fuel c_c = Ok msS).
  { apply (analyse_sim2_rev (rp_i root) norm (getf_i root tab_c) (fs_get cfs) (NRb root) (DRb root) (GoodB root)
             (getf_structured root tab_c Sc) Sf
             (searchC root tab_c cfs Hcfs) (contentC root tab_c cfs Hcfs Hn) fuel c_c c_c
             (canon_cfg_relC root c_c Hcc) msS H1). }
  apply (analyse_sim2_rev _ _ _ _ _ _ _
           (getf_structured root tab_a Sa) (getf_structured root tab_c Sc)
           (searchA root tab_a tab_c (alldirs root) Ht (file_dir_in_alldirs root tab_a Hwf))
           (contentA root tab_a tab_c (alldirs root) Ht) fuel c_a c_c
           (alias_cfg2_rel root tab_a (alldirs root) c_a c_c Hc) msS H2).
Qed.
