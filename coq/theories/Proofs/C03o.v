(* C03_objlike, implementation side: for tables of object-like macros the
   expander (stack of streams, no_expand list, blue paint, splice) computes the
   big-step function E, terminates, and never reaches the depth backstop when
   the table is smaller than max_level. *)
From Coq Require Import ZArith String Ascii Bool List Lia Arith.
From CBI Require Import Lib.Data Lib.Res Model.C03tok Model.C03.
Import ListNotations.
Local Open Scope string_scope.
Local Open Scope list_scope.

Definition paint (t : tok) : tok := mkTok (tk t) (tw t) (tt t) false.
(* a token as the lexer makes it, other than the identifier `defined` *)
Definition okt (t : tok) : bool := tx t && negb (is_id t && String.eqb (tt t) "defined").

Lemma somes_app {A} (a b : list (option A)) : somes (a ++ b) = somes a ++ somes b.
Proof. induction a as [|[x|] a IH]; cbn; [reflexivity| |]; now rewrite IH. Qed.
Lemma somes_map_Some {A} (l : list A) : somes (map Some l) = l.
Proof. induction l; cbn; [reflexivity|]. now rewrite IHl. Qed.

Lemma set_nth_app {A} (pre : list A) x y r : set_nth (List.length pre) y (pre ++ x :: r) = pre ++ y :: r.
Proof. induction pre; cbn; [reflexivity|]. now rewrite IHpre. Qed.
Lemma nth_error_mid {A} (pre : list A) x r : nth_error (pre ++ x :: r) (List.length pre) = Some x.
Proof. induction pre; cbn; [reflexivity|assumption]. Qed.
Lemma firstn_len_app {A} (a b : list A) : firstn (List.length a) (a ++ b) = a.
Proof. induction a; cbn; [now destruct b|]. now rewrite IHa. Qed.
Lemma skipn_len_app {A} (a b : list A) : skipn (List.length a) (a ++ b) = b.
Proof. induction a; cbn; [reflexivity|assumption]. Qed.

Lemma get_macro_In_gen (t : table) k m : get_macro t k = Some m -> In k (map fst t).
Proof.
  induction t as [|[k' m'] r IH]; cbn; [discriminate|].
  destruct (String.eqb k' k) eqn:E.
  - apply String.eqb_eq in E. intros _. now left.
  - intros H. right. now apply IH.
Qed.

Section ObjLike.
Variables lead cat_fix str_white resub_fix va_fix va_whole : bool.
Variable max_level : nat.
Variable tb : table.

Notation runM := (run lead cat_fix str_white resub_fix None false va_fix va_whole max_level tb).

(* a function-like macro name (never scanned as a plain token in the fragments below) *)
Definition is_fl (t : tok) : bool :=
  is_id t && match get_macro tb (tt t) with Some m => m_fun m | None => false end.
(* [okt0]: not the identifier `defined`; the blue-paint flag may have either value *)
Definition okt0 (t : tok) : bool := negb (is_id t && String.eqb (tt t) "defined").
Definition okt2 (t : tok) : bool := okt0 t && negb (is_fl t).

(* every macro is stored under its own name; object-like macros have lexer-made bodies
   that contain no function-like macro name *)
Hypothesis Hobj : forall k m, get_macro tb k = Some m ->
  m_name m = k /\ (m_fun m = false -> forallb okt2 (m_repl m) = true).

(* ---------- the big-step function ---------- *)
Fixpoint E (d : nat) (ne : list (option string)) (t : tok) : list tok :=
  if negb (is_id t) then [t]
  else if negb (tx t) || in_noexp (tt t) ne then [paint t]
  else match get_macro tb (tt t) with
       | None => [t]
       | Some m =>
           match d with
           | O => [t]
           | S d' => flat_map (E d' (Some (m_name m) :: ne)) (set_w_hd (tw t) (m_repl m))
           end
       end.

Lemma E_eq d ne t :
  E d ne t =
  if negb (is_id t) then [t]
  else if negb (tx t) || in_noexp (tt t) ne then [paint t]
  else match get_macro tb (tt t) with
       | None => [t]
       | Some m =>
           match d with
           | O => [t]
           | S d' => flat_map (E d' (Some (m_name m) :: ne)) (set_w_hd (tw t) (m_repl m))
           end
       end.
Proof. destruct d; reflexivity. Qed.

(* ---------- focused states ---------- *)
Definition top_of (pre : list (option tok)) (ts : list tok) (p : bool) : helper :=
  mkH (pre ++ map Some ts) (List.length pre) p.
Definition st (pre : list (option tok)) (ts : list tok) (p : bool) (below : list helper)
           (ne : list (option string)) : xst := mkX (top_of pre ts p :: below) ne.

Lemma eol_cons pre t r p : h_eol (top_of pre (t :: r) p) = false.
Proof.
  unfold h_eol, top_of. cbn [h_toks h_pos]. rewrite app_length. cbn [map List.length].
  apply Nat.leb_gt. lia.
Qed.
Lemma eol_nil pre p : h_eol (top_of pre [] p) = true.
Proof. unfold h_eol, top_of. cbn [h_toks h_pos map]. rewrite app_nil_r. apply Nat.leb_refl. Qed.

Lemma norm_top_live top below ne :
  h_eol top = false -> norm_top false top below ne = XVal Datatypes.tt (mkX (top :: below) ne).
Proof. intros H. destruct below; cbn; now rewrite H. Qed.

Lemma norm_live pre t r p below ne :
  norm false (st pre (t :: r) p below ne) = XVal Datatypes.tt (st pre (t :: r) p below ne).
Proof. unfold norm, st. cbn [x_stack x_noexp]. apply norm_top_live, eol_cons. Qed.

Lemma L_peek pre t r p below ne :
  peek_tok_pop false (st pre (t :: r) p below ne) = XVal (Some t) (st pre (t :: r) p below ne).
Proof.
  unfold peek_tok_pop. rewrite norm_live. unfold st, top_of. cbn [x_stack h_toks h_pos map].
  now rewrite nth_error_mid.
Qed.

Lemma top_snoc pre x r p : top_of (pre ++ [x]) r p = mkH (pre ++ x :: map Some r) (S (List.length pre)) p.
Proof. unfold top_of. rewrite <- app_assoc, app_length. cbn. f_equal. lia. Qed.

Lemma L_adv pre t r p below ne :
  advance_tok false (st pre (t :: r) p below ne) = XVal Datatypes.tt (st (pre ++ [Some t]) r p below ne).
Proof.
  unfold advance_tok. rewrite norm_live. unfold st. cbn [x_stack x_noexp]. rewrite top_snoc. reflexivity.
Qed.

Lemma L_cons pre t r p below ne :
  consume_tok false (st pre (t :: r) p below ne) = XVal (Some t) (st (pre ++ [None]) r p below ne).
Proof.
  unfold consume_tok. rewrite norm_live. unfold st. cbn [x_stack x_noexp]. rewrite top_snoc.
  unfold top_of. cbn [h_toks h_pos h_pre map]. rewrite nth_error_mid, set_nth_app. reflexivity.
Qed.

Lemma L_put x pre r p below ne :
  put_back false x (st (pre ++ [None]) r p below ne) = XVal Datatypes.tt (st (pre ++ [Some x]) r p below ne).
Proof.
  unfold put_back, st. cbn [x_stack x_noexp]. rewrite !top_snoc. cbn [h_toks h_pos h_pre Nat.pred].
  unfold replace_tok, norm. cbn [x_stack x_noexp].
  rewrite norm_top_live.
  2:{ unfold h_eol. cbn [h_toks h_pos]. rewrite app_length. cbn. apply Nat.leb_gt. lia. }
  cbn [x_stack x_noexp h_toks h_pos h_pre].
  replace (Nat.ltb (List.length pre) (List.length (pre ++ None :: map Some r))) with true.
  2:{ symmetry. apply Nat.ltb_lt. rewrite app_length. cbn. lia. }
  now rewrite set_nth_app.
Qed.

(* ---------- one iteration of the loop ---------- *)
Lemma R_norm f s s' : norm false s = norm false s' -> runM f s = runM f s'.
Proof.
  intros H. destruct f as [|f]; [reflexivity|].
  cbn [run]. unfold peek_tok_pop. now rewrite H.
Qed.

Lemma R_nonid f pre t r p below ne :
  is_id t = false -> runM (S f) (st pre (t :: r) p below ne) = runM f (st (pre ++ [Some t]) r p below ne).
Proof.
  intros H. cbn [run]. rewrite L_peek. rewrite H. cbn [negb]. now rewrite L_adv.
Qed.

Lemma R_hidden f pre t r p below ne :
  is_id t = true -> is_txt "defined" t = false -> (negb (tx t) || in_noexp (tt t) ne) = true ->
  runM (S f) (st pre (t :: r) p below ne) = runM f (st (pre ++ [Some (paint t)]) r p below ne).
Proof.
  intros H Hd Hh. cbn [run]. rewrite L_peek, H. cbn [negb]. rewrite L_cons, Hd.
  unfold st at 1. cbn [x_noexp]. rewrite Hh. fold (st (pre ++ [None]) r p below ne).
  fold (paint t). now rewrite L_put.
Qed.

Lemma R_nomacro f pre t r p below ne :
  is_id t = true -> is_txt "defined" t = false -> (negb (tx t) || in_noexp (tt t) ne) = false ->
  get_macro tb (tt t) = None ->
  runM (S f) (st pre (t :: r) p below ne) = runM f (st (pre ++ [Some t]) r p below ne).
Proof.
  intros H Hd Hh Hm. cbn [run]. rewrite L_peek, H. cbn [negb]. rewrite L_cons, Hd.
  unfold st at 1. cbn [x_noexp]. rewrite Hh, Hm. fold (st (pre ++ [None]) r p below ne).
  now rewrite L_put.
Qed.

Lemma R_macro f pre t r p below ne m :
  is_id t = true -> is_txt "defined" t = false -> (negb (tx t) || in_noexp (tt t) ne) = false ->
  get_macro tb (tt t) = Some m -> m_fun m = false ->
  S (S (List.length below)) < max_level ->
  runM (S f) (st pre (t :: r) p below ne)
  = runM f (st [] (set_w_hd (tw t) (m_repl m)) false (top_of (pre ++ [None]) r p :: below) (Some (m_name m) :: ne)).
Proof.
  intros H Hd Hh Hm Hf Hlev. cbn [run]. rewrite L_peek, H. cbn [negb]. rewrite L_cons, Hd.
  unfold st at 1. cbn [x_noexp]. rewrite Hh, Hm, Hf. fold (st (pre ++ [None]) r p below ne).
  unfold push. cbn [x_stack x_noexp st List.length].
  replace (Nat.leb max_level (S (S (List.length below)))) with false.
  2:{ symmetry. apply Nat.leb_gt. lia. }
  reflexivity.
Qed.

Lemma R_end f pre p ne : runM (S f) (st pre [] p [] ne) = Ok (st pre [] p [] ne).
Proof.
  cbn [run]. unfold peek_tok_pop, norm, st. cbn [x_stack x_noexp norm_top]. now rewrite eol_nil.
Qed.

(* the finished upper stream is spliced into the lower one: same normal form *)
Lemma norm_pop pre1 pre r p below ne name :
  norm false (st pre1 [] false (top_of (pre ++ [None]) r p :: below) (name :: ne))
  = norm false (st (map Some (somes pre ++ somes pre1)) r p below ne).
Proof.
  unfold norm, st. cbn [x_stack x_noexp norm_top]. rewrite eol_nil.
  replace (h_pre (top_of pre1 [] false)) with false by reflexivity. cbn [tl].
  f_equal. unfold splice, top_of. cbn [h_toks h_pos h_pre map].
  rewrite app_nil_r. rewrite firstn_len_app, skipn_len_app, somes_app, somes_map_Some.
  cbn [somes]. rewrite app_nil_r.
  rewrite !map_app, !app_length, !map_length. rewrite <- app_assoc. reflexivity.
Qed.

(* ---------- the invariant on no_expand and the depth budget ---------- *)
Definition names : list string := map fst tb.
Definition inv (ne : list (option string)) (d : nat) : Prop :=
  NoDup (somes ne) /\ incl (somes ne) names /\ List.length names <= d + List.length (somes ne).

Lemma get_macro_In k m : get_macro tb k = Some m -> In k names.
Proof. apply get_macro_In_gen. Qed.

Lemma in_noexp_spec s ne : in_noexp s ne = true <-> In s (somes ne).
Proof.
  induction ne as [|[x|] ne IH]; cbn.
  - split; [discriminate|tauto].
  - rewrite orb_true_iff, IH, String.eqb_eq. tauto.
  - exact IH.
Qed.

(* with no budget left every macro name is already disabled *)
Lemma pigeon ne k m : inv ne 0 -> get_macro tb k = Some m -> in_noexp k ne = true.
Proof.
  intros (Hnd & Hin & Hlen) Hm. apply in_noexp_spec.
  assert (Hi : incl names (somes ne)).
  { apply NoDup_length_incl; [exact Hnd|cbn in Hlen; lia|exact Hin]. }
  apply Hi. eapply get_macro_In, Hm.
Qed.

Lemma inv_push ne d k : inv ne (S d) -> in_noexp k ne = false -> In k names -> inv (Some k :: ne) d.
Proof.
  intros (Hnd & Hin & Hlen) Hk Hkn. repeat split; cbn [somes].
  - constructor; [|assumption]. intros H. apply in_noexp_spec in H. congruence.
  - intros x [<-|Hx]; auto.
  - cbn [List.length]. lia.
Qed.

Lemma okt_set_w_hd w l : forallb okt l = true -> forallb okt (set_w_hd w l) = true.
Proof. destruct l; cbn; auto. Qed.
Lemma okt2_set_w_hd w l : forallb okt2 l = true -> forallb okt2 (set_w_hd w l) = true.
Proof. destruct l; cbn; auto. Qed.

(* ---------- scanning a stream computes E ---------- *)
Definition scan_at (d : nat) : Prop :=
  forall ts rest pre p below ne,
    forallb okt2 ts = true -> inv ne d -> S (List.length below) + d < max_level ->
    exists n pre', somes pre' = somes pre ++ flat_map (E d ne) ts /\
                   forall f, runM (n + f) (st pre (ts ++ rest) p below ne) = runM f (st pre' rest p below ne).

Lemma okt_inv t : okt0 t = true -> is_id t = true -> is_txt "defined" t = false.
Proof.
  unfold okt0, is_txt. rewrite negb_true_iff. intros H2 Hid. rewrite Hid in H2. exact H2.
Qed.
Lemma okt_okt0 t : okt t = true -> okt0 t = true.
Proof. unfold okt, okt0. rewrite andb_true_iff. tauto. Qed.

Lemma scan_step d : (forall d', d = S d' -> scan_at d') -> scan_at d.
Proof.
  intros IHd ts. induction ts as [|t r IHr]; intros rest pre p below ne Hok Hinv Hlev.
  - exists 0, pre. cbn [flat_map]. rewrite app_nil_r. split; [reflexivity|]. intros f. reflexivity.
  - cbn [forallb] in Hok. apply andb_true_iff in Hok. destruct Hok as [Hot Hor].
    unfold okt2 in Hot. apply andb_true_iff in Hot. destruct Hot as [Hot Hnfl]. apply negb_true_iff in Hnfl.
    pose proof (okt_inv t Hot) as Hdef.
    cbn [flat_map app]. rewrite E_eq.
    destruct (is_id t) eqn:Hid; cbn [negb].
    2:{ destruct (IHr rest (pre ++ [Some t]) p below ne Hor Hinv Hlev) as (n & pre' & Hs & Hrun).
        exists (S n), pre'. split.
        - rewrite Hs, somes_app. cbn [somes]. now rewrite <- app_assoc.
        - intros f. cbn [plus]. rewrite R_nonid by assumption. apply Hrun. }
    specialize (Hdef eq_refl).
    destruct (negb (tx t) || in_noexp (tt t) ne) eqn:Hh.
    { destruct (IHr rest (pre ++ [Some (paint t)]) p below ne Hor Hinv Hlev) as (n & pre' & Hs & Hrun).
      exists (S n), pre'. split.
      - rewrite Hs, somes_app. cbn [somes]. now rewrite <- app_assoc.
      - intros f. cbn [plus]. rewrite R_hidden by assumption. apply Hrun. }
    destruct (get_macro tb (tt t)) as [m|] eqn:Hm.
    2:{ destruct (IHr rest (pre ++ [Some t]) p below ne Hor Hinv Hlev) as (n & pre' & Hs & Hrun).
        exists (S n), pre'. split.
        - rewrite Hs, somes_app. cbn [somes]. now rewrite <- app_assoc.
        - intros f. cbn [plus]. rewrite R_nomacro by assumption. apply Hrun. }
    destruct (Hobj _ _ Hm) as (Hname & Hbody).
    assert (Hfun : m_fun m = false).
    { unfold is_fl in Hnfl. rewrite Hid, Hm in Hnfl. exact Hnfl. }
    specialize (Hbody Hfun).
    pose proof Hh as Hh0. apply orb_false_iff in Hh. destruct Hh as [Hx Hh]. apply negb_false_iff in Hx.
    destruct d as [|d'].
    { (* no budget: impossible *) rewrite (pigeon ne _ m Hinv Hm) in Hh. discriminate. }
    (* push the replacement list, scan it with budget d', pop, go on with r *)
    assert (Hinv' : inv (Some (m_name m) :: ne) d').
    { rewrite Hname. apply inv_push; [assumption|assumption|]. eapply get_macro_In, Hm. }
    destruct (IHd d' eq_refl (set_w_hd (tw t) (m_repl m)) [] [] false (top_of (pre ++ [None]) (r ++ rest) p :: below)
                  (Some (m_name m) :: ne) (okt2_set_w_hd _ _ Hbody) Hinv') as (n1 & pre1 & Hs1 & Hrun1).
    { cbn [List.length]. lia. }
    rewrite app_nil_r in Hrun1.
    destruct (IHr rest (map Some (somes pre ++ somes pre1)) p below ne Hor Hinv Hlev) as (n2 & pre' & Hs2 & Hrun2).
    exists (S (n1 + n2)), pre'. split.
    + rewrite Hs2, somes_map_Some, Hs1. cbn [somes app]. now rewrite <- app_assoc.
    + intros f. replace (S (n1 + n2) + f) with (S (n1 + (n2 + f))) by lia.
      rewrite (R_macro _ pre t (r ++ rest) p below ne m); try assumption.
      2:{ lia. }
      rewrite Hrun1. rewrite (R_norm _ _ _ (norm_pop pre1 pre (r ++ rest) p below ne _)). apply Hrun2.
Qed.

Lemma scan_all d : scan_at d.
Proof. induction d as [|d IH]; apply scan_step; intros d' H; [discriminate|]. injection H as <-. exact IH. Qed.

(* ---------- `defined X` and `defined ( X )` in the scanned list ---------- *)
Lemma peek_down_top pre x r p below :
  peek_down (top_of pre (x :: r) p :: below) = Some x.
Proof.
  cbn [peek_down]. rewrite eol_cons. unfold top_of. cbn [h_toks h_pos map]. now rewrite nth_error_mid.
Qed.

Lemma L_repl y pre x r p below ne :
  replace_tok false y (st pre (x :: r) p below ne) = XVal Datatypes.tt (st (pre ++ [Some y]) r p below ne).
Proof.
  unfold replace_tok. rewrite norm_live. unfold st. cbn [x_stack x_noexp]. rewrite top_snoc.
  unfold top_of. cbn [h_toks h_pos h_pre map].
  replace (Nat.ltb (List.length pre) (List.length (pre ++ Some x :: map Some r))) with true.
  2:{ symmetry. apply Nat.ltb_lt. rewrite app_length. cbn. lia. }
  now rewrite set_nth_app.
Qed.

Lemma R_defined1 f pre t x r p below ne :
  is_id t = true -> is_txt "defined" t = true -> is_txt "(" x = false -> is_id x = true ->
  runM (S f) (st pre (t :: x :: r) p below ne)
  = runM f (st ((pre ++ [None]) ++ [Some (defined_tok tb x)]) r p below ne).
Proof.
  intros H Hd Hp Hx. cbn [run]. rewrite L_peek, H. cbn [negb]. rewrite L_cons, Hd.
  unfold do_defined. unfold st at 1. cbn [x_stack]. rewrite peek_down_top, Hp, Hx. cbn [negb].
  fold (st (pre ++ [None]) (x :: r) p below ne). now rewrite L_repl.
Qed.

Lemma R_defined2 f pre t x id c r p below ne :
  is_id t = true -> is_txt "defined" t = true -> is_txt "(" x = true -> is_txt ")" c = true -> is_id id = true ->
  runM (S f) (st pre (t :: x :: id :: c :: r) p below ne)
  = runM f (st ((((pre ++ [None]) ++ [None]) ++ [None]) ++ [Some (defined_tok tb id)]) r p below ne).
Proof.
  intros H Hd Hp Hc Hi. cbn [run]. rewrite L_peek, H. cbn [negb]. rewrite L_cons, Hd.
  unfold do_defined. unfold st at 1. cbn [x_stack]. rewrite peek_down_top, Hp.
  fold (st (pre ++ [None]) (x :: id :: c :: r) p below ne). rewrite !L_cons.
  unfold st at 1. cbn [x_stack]. rewrite peek_down_top, Hc, Hi. cbn [negb].
  fold (st (((pre ++ [None]) ++ [None]) ++ [None]) (c :: r) p below ne). now rewrite L_repl.
Qed.

(* the scanned list as the implementation reads it: `defined` forms give a number, every
   other token goes through E *)
Fixpoint EI (d : nat) (ne : list (option string)) (ts : list tok) : list tok :=
  match ts with
  | [] => []
  | t :: r =>
      if is_id t && is_txt "defined" t then
        match r with
        | x :: r1 =>
            if is_txt "(" x then
              match r1 with
              | id :: _ :: r2 => defined_tok tb id :: EI d ne r2
              | _ => []
              end
            else defined_tok tb x :: EI d ne r1
        | [] => []
        end
      else E d ne t ++ EI d ne r
  end.

(* well-formed: `defined` is followed by an identifier or by ( identifier ); other tokens are lexer-made *)
Fixpoint wfd (ts : list tok) : bool :=
  match ts with
  | [] => true
  | t :: r =>
      if is_id t && is_txt "defined" t then
        match r with
        | x :: r1 =>
            if is_txt "(" x then
              match r1 with
              | id :: c :: r2 => is_id id && is_txt ")" c && wfd r2
              | _ => false
              end
            else is_id x && wfd r1
        | [] => false
        end
      else tx t && negb (is_fl t) && wfd r
  end.

Lemma scan_items d : forall n0 ts rest pre p below ne,
  List.length ts <= n0 -> wfd ts = true -> inv ne d -> S (List.length below) + d < max_level ->
  exists n pre', somes pre' = somes pre ++ EI d ne ts /\
                 forall f, runM (n + f) (st pre (ts ++ rest) p below ne) = runM f (st pre' rest p below ne).
Proof.
  induction n0 as [|n0 IH]; intros ts rest pre p below ne Hlen Hwf Hinv Hlev.
  - destruct ts; [|cbn in Hlen; lia]. exists 0, pre. cbn. rewrite app_nil_r. split; [reflexivity|]. reflexivity.
  - destruct ts as [|t r].
    { exists 0, pre. cbn. rewrite app_nil_r. split; [reflexivity|]. reflexivity. }
    cbn [wfd EI] in *.
    destruct (is_id t && is_txt "defined" t) eqn:Hd.
    + apply andb_true_iff in Hd. destruct Hd as [Hid Hdef].
      destruct r as [|x r1]; [discriminate|].
      destruct (is_txt "(" x) eqn:Hp.
      * destruct r1 as [|id [|c r2]]; try discriminate.
        apply andb_true_iff in Hwf. destruct Hwf as [Hwf Hw2]. apply andb_true_iff in Hwf. destruct Hwf as [Hi Hc].
        destruct (IH r2 rest ((((pre ++ [None]) ++ [None]) ++ [None]) ++ [Some (defined_tok tb id)]) p below ne)
          as (n & pre' & Hs & Hrun); try assumption.
        { cbn in Hlen. lia. }
        exists (S n), pre'. split.
        -- rewrite Hs, !somes_app. cbn [somes]. rewrite !app_nil_r. now rewrite <- app_assoc.
        -- intros f. cbn [plus app]. rewrite R_defined2 by assumption. apply Hrun.
      * apply andb_true_iff in Hwf. destruct Hwf as [Hx Hw1].
        destruct (IH r1 rest ((pre ++ [None]) ++ [Some (defined_tok tb x)]) p below ne)
          as (n & pre' & Hs & Hrun); try assumption.
        { cbn in Hlen. lia. }
        exists (S n), pre'. split.
        -- rewrite Hs, !somes_app. cbn [somes]. rewrite !app_nil_r. now rewrite <- app_assoc.
        -- intros f. cbn [plus app]. rewrite R_defined1 by assumption. apply Hrun.
    + apply andb_true_iff in Hwf. destruct Hwf as [Hx Hwr]. apply andb_true_iff in Hx. destruct Hx as [Hx Hnfl].
      assert (Hok : forallb okt2 [t] = true).
      { cbn [forallb]. unfold okt2, okt0. rewrite Hnfl. unfold is_txt in Hd. rewrite Hd. reflexivity. }
      destruct (scan_all d [t] (r ++ rest) pre p below ne Hok Hinv Hlev) as (n1 & pre1 & Hs1 & Hrun1).
      destruct (IH r rest pre1 p below ne) as (n2 & pre' & Hs2 & Hrun2); try assumption.
      { cbn in Hlen. lia. }
      exists (n1 + n2), pre'. split.
      * rewrite Hs2, Hs1. cbn [flat_map]. rewrite app_nil_r. now rewrite <- app_assoc.
      * intros f. rewrite <- Nat.add_assoc. cbn [app] in Hrun1 |- *. rewrite Hrun1. apply Hrun2.
Qed.

(* ---------- function-like invocation whose arguments are flat token lists ---------- *)
Definition plain_arg (t : tok) : bool := negb (is_txt "," t) && negb (is_txt "(" t) && negb (is_txt ")" t).

Fixpoint flat_more (more : list (tok * list tok)) : list tok :=
  match more with [] => [] | (c, a) :: r => c :: a ++ flat_more r end.
Definition more_ok (more : list (tok * list tok)) : Prop :=
  Forall (fun ca => is_txt "," (fst ca) = true /\ forallb plain_arg (snd ca) = true) more.

Notation collectM := (collect false).

Lemma collect_arg a : forall pre tail p below ne,
  forallb plain_arg a = true ->
  exists pre', somes pre' = somes pre /\
    forall f cur acc,
      collectM (List.length a + f) None (st pre (a ++ tail) p below ne) acc cur 1
      = collectM f None (st pre' tail p below ne) acc (cur ++ a) 1.
Proof.
  induction a as [|x a IH]; intros pre tail p below ne Hp.
  - exists pre. split; [reflexivity|]. intros. cbn. now rewrite app_nil_r.
  - cbn [forallb] in Hp. apply andb_true_iff in Hp. destruct Hp as [Hx Ha].
    unfold plain_arg in Hx. rewrite !andb_true_iff, !negb_true_iff in Hx. destruct Hx as [[H1 H2] H3].
    destruct (IH (pre ++ [None]) tail p below ne Ha) as (pre' & Hs & Hc).
    exists pre'. split; [rewrite Hs, somes_app; cbn; now rewrite app_nil_r|].
    intros f cur acc. cbn [List.length plus app collect]. rewrite L_cons, H1, H2, H3. cbn [andb].
    rewrite Hc. now rewrite <- app_assoc.
Qed.

Lemma txt_excl s1 s2 t : is_txt s1 t = true -> s1 <> s2 -> is_txt s2 t = false.
Proof.
  unfold is_txt. intros H Hn. apply String.eqb_eq in H. apply String.eqb_neq. congruence.
Qed.

(* number of tokens of the argument part, closing parenthesis included *)
Definition call_len (a : list tok) (more : list (tok * list tok)) : nat :=
  S (List.length (a ++ flat_more more)).

Lemma collect_flat more : forall pre a rp rest p below ne,
  forallb plain_arg a = true -> more_ok more -> is_txt ")" rp = true ->
  exists pre', somes pre' = somes pre /\
    forall f cur acc,
      collectM (call_len a more + f) None (st pre (a ++ flat_more more ++ rp :: rest) p below ne) acc cur 1
      = XVal (acc ++ (cur ++ a) :: map snd more) (st pre' rest p below ne).
Proof.
  induction more as [|[c a2] r IH]; intros pre a rp rest p below ne Ha Hm Hr.
  - destruct (collect_arg a pre (rp :: rest) p below ne Ha) as (pre1 & Hs1 & Hc1).
    exists (pre1 ++ [None]). split; [rewrite somes_app, Hs1; cbn; now rewrite app_nil_r|].
    intros f cur acc. unfold call_len. cbn [flat_more app map]. rewrite app_nil_r.
    replace (S (List.length a) + f) with (List.length a + S f) by lia.
    rewrite Hc1. cbn [collect]. rewrite L_cons.
    rewrite (txt_excl ")" "," rp Hr) by discriminate. rewrite (txt_excl ")" "(" rp Hr) by discriminate.
    rewrite Hr. cbn [andb Nat.eqb]. reflexivity.
  - inversion Hm as [|ca r' [Hc Ha2] Hm']; subst. cbn [fst snd] in Hc, Ha2.
    destruct (collect_arg a pre (c :: a2 ++ flat_more r ++ rp :: rest) p below ne Ha) as (pre1 & Hs1 & Hc1).
    destruct (IH (pre1 ++ [None]) a2 rp rest p below ne Ha2 Hm' Hr) as (pre2 & Hs2 & Hc2).
    exists pre2. split; [rewrite Hs2, somes_app, Hs1; cbn; now rewrite app_nil_r|].
    intros f cur acc. unfold call_len. cbn [flat_more map].
    replace (S (List.length (a ++ c :: a2 ++ flat_more r)) + f)
      with (List.length a + S (call_len a2 r + f)).
    2:{ unfold call_len. rewrite !app_length. cbn [List.length]. rewrite app_length. lia. }
    replace (a ++ (c :: a2 ++ flat_more r) ++ rp :: rest) with (a ++ c :: a2 ++ flat_more r ++ rp :: rest).
    2:{ cbn [app]. now rewrite <- app_assoc. }
    rewrite Hc1. cbn [collect]. rewrite L_cons, Hc. cbn [andb Nat.eqb].
    rewrite Hc2. cbn [app]. now rewrite <- app_assoc.
Qed.

(* ---------- pre-expansion of the arguments: nested frames ---------- *)
Lemma R_end_pre f pre below ne : runM (S f) (st pre [] true below ne) = Ok (st pre [] true below ne).
Proof.
  cbn [run]. unfold peek_tok_pop, norm, st. cbn [x_stack x_noexp].
  destruct below; cbn [norm_top]; rewrite eol_nil; reflexivity.
Qed.

Notation callM := (call_with None max_level).
Notation preM := (pre_with None max_level).

Lemma inv_None ne d : inv ne d -> inv (None :: ne) d.
Proof. unfold inv. cbn [somes]. tauto. Qed.

Lemma call_ok d a stack ne :
  forallb okt2 a = true -> inv ne d -> S (List.length stack) + d < max_level ->
  exists n, forall f, n <= f ->
    callM (runM f) a (mkX stack ne) = Ok (flat_map (E d (None :: ne)) a, mkX stack ne).
Proof.
  intros Hok Hinv Hlev. unfold call_with. cbn [x_stack x_noexp].
  replace (Nat.leb max_level (List.length stack)) with false by (symmetry; apply Nat.leb_gt; lia).
  destruct a as [|t a]; [exists 0; reflexivity|].
  destruct (scan_all d (t :: a) [] [] true stack (None :: ne) Hok (inv_None _ _ Hinv) Hlev) as (n & pre' & Hs & Hrun).
  rewrite app_nil_r in Hrun.
  exists (S n). intros f Hf. replace f with (n + S (f - S n)) by lia.
  change (mkX (mkH (map Some (t :: a)) 0 true :: stack) (None :: ne)) with (st [] (t :: a) true stack (None :: ne)).
  rewrite Hrun, R_end_pre. unfold st, top_of. cbn [x_stack x_noexp h_toks tl map]. rewrite app_nil_r, Hs. reflexivity.
Qed.

Definition needs (m : macro) (i : nat) : bool := match nth_error (m_need m) i with Some b => b | None => true end.
Fixpoint ias_of (d : nat) (ne : list (option string)) (m : macro) (i : nat) (al : list (list tok)) : list iarg :=
  match al with
  | [] => []
  | a :: ar => (a, if needs m i then Some (flat_map (E d (None :: ne)) a) else None) :: ias_of d ne m (S i) ar
  end.

Lemma pre_ok d al : forall i stack ne m,
  Forall (fun a => forallb okt2 a = true) al -> inv ne d -> S (List.length stack) + d < max_level ->
  exists n, forall f, n <= f ->
    preM (runM f) m i al (mkX stack ne) = Ok (ias_of d ne m i al, mkX stack ne).
Proof.
  induction al as [|a ar IH]; intros i stack ne m Hall Hinv Hlev.
  - exists 0. reflexivity.
  - inversion Hall as [|x l Ha Har]; subst.
    destruct (IH (S i) stack ne m Har Hinv Hlev) as (n2 & H2).
    destruct (call_ok d a stack ne Ha Hinv Hlev) as (n1 & H1).
    exists (n1 + n2). intros f Hf. cbn [pre_with ias_of]. fold (needs m i).
    destruct (needs m i).
    + rewrite H1 by lia. rewrite H2 by lia. reflexivity.
    + rewrite H2 by lia. reflexivity.
Qed.

Lemma peek_down_st pre x r p below ne : peek_down (x_stack (st pre (x :: r) p below ne)) = Some x.
Proof. unfold st. cbn [x_stack]. apply peek_down_top. Qed.

(* ---------- one invocation ---------- *)
Lemma R_call d pre t lp a more rp rest p below ne m repl :
  is_id t = true -> is_txt "defined" t = false -> (negb (tx t) || in_noexp (tt t) ne) = false ->
  get_macro tb (tt t) = Some m -> m_fun m = true -> m_variadic m = false ->
  is_txt "(" lp = true -> forallb plain_arg a = true -> more_ok more -> is_txt ")" rp = true ->
  Forall (fun x => forallb okt2 x = true) (a :: map snd more) ->
  inv ne d -> S (S (List.length below)) + d < max_level ->
  replace_fun lead cat_fix str_white resub_fix va_fix m (ias_of d ne m 0 (a :: map snd more)) = Ok repl ->
  exists n pre', somes pre' = somes pre /\
    forall f, n <= f ->
      runM (S f) (st pre (t :: lp :: a ++ flat_more more ++ rp :: rest) p below ne)
      = runM f (st [] (set_w_hd (tw t) repl) false (top_of pre' rest p :: below) (Some (m_name m) :: ne)).
Proof.
  intros Hid Hd Hh Hm Hf Hv Hlp Ha Hmore Hrp Hall Hinv Hlev Hrepl.
  destruct (collect_flat more ((pre ++ [None]) ++ [None]) a rp rest p below ne Ha Hmore Hrp) as (pre' & Hs & Hc).
  destruct (pre_ok d (a :: map snd more) 0 (top_of pre' rest p :: below) ne m Hall Hinv) as (n1 & H1).
  { cbn [List.length]. lia. }
  exists (call_len a more + n1), pre'. split.
  { rewrite Hs, !somes_app. cbn. now rewrite !app_nil_r. }
  intros f Hfuel. cbn [run]. rewrite L_peek, Hid. cbn [negb]. rewrite L_cons, Hd.
  unfold st at 1. cbn [x_noexp]. rewrite Hh, Hm, Hf. rewrite peek_down_st, Hlp. rewrite L_cons.
  rewrite Hv, andb_false_r.
  replace f with (call_len a more + (f - call_len a more)) at 1 by lia.
  rewrite (Hc (f - call_len a more) [] []). cbn [app].
  unfold st at 1. rewrite (H1 f) by lia.
  rewrite Hrepl. unfold push. cbn [x_stack x_noexp List.length].
  replace (Nat.leb max_level (S (S (List.length below)))) with false by (symmetry; apply Nat.leb_gt; lia).
  reflexivity.
Qed.

(* ---------- source lists with invocations ---------- *)
Lemma norm_pop' pre1 pre0 r p below ne name :
  norm false (st pre1 [] false (top_of pre0 r p :: below) (name :: ne))
  = norm false (st (map Some (somes pre0 ++ somes pre1)) r p below ne).
Proof.
  unfold norm, st. cbn [x_stack x_noexp norm_top]. rewrite eol_nil.
  replace (h_pre (top_of pre1 [] false)) with false by reflexivity. cbn [tl].
  f_equal. unfold splice, top_of. cbn [h_toks h_pos h_pre map].
  rewrite app_nil_r. rewrite firstn_len_app, skipn_len_app, somes_map_Some.
  rewrite !map_app, !app_length, !map_length. rewrite <- app_assoc. reflexivity.
Qed.

Inductive sitem :=
| SToks (l : list tok)
| SCall (t lp : tok) (a : list tok) (more : list (tok * list tok)) (rp : tok).
Definition stoks (i : sitem) : list tok :=
  match i with
  | SToks l => l
  | SCall t lp a more rp => t :: lp :: a ++ flat_more more ++ [rp]
  end.

Definition call_out (d : nat) (ne : list (option string)) (t : tok) (a : list tok) (more : list (tok * list tok)) : list tok :=
  match get_macro tb (tt t) with
  | Some m =>
      match replace_fun lead cat_fix str_white resub_fix va_fix m (ias_of (S d) ne m 0 (a :: map snd more)) with
      | Ok repl => flat_map (E d (Some (m_name m) :: ne)) (set_w_hd (tw t) repl)
      | Err _ => []
      end
  | None => []
  end.
Definition item_out (d : nat) (ne : list (option string)) (i : sitem) : list tok :=
  match i with
  | SToks l => EI (S d) ne l
  | SCall t _ a more _ => call_out d ne t a more
  end.

Definition wf_sitem (d : nat) (ne : list (option string)) (i : sitem) : Prop :=
  match i with
  | SToks l => wfd l = true
  | SCall t lp a more rp =>
      is_id t = true /\ is_txt "defined" t = false /\ (negb (tx t) || in_noexp (tt t) ne) = false /\
      is_txt "(" lp = true /\ forallb plain_arg a = true /\ more_ok more /\ is_txt ")" rp = true /\
      Forall (fun x => forallb okt2 x = true) (a :: map snd more) /\
      exists m repl, get_macro tb (tt t) = Some m /\ m_fun m = true /\ m_variadic m = false /\
        replace_fun lead cat_fix str_white resub_fix va_fix m (ias_of (S d) ne m 0 (a :: map snd more)) = Ok repl /\
        forallb okt2 (set_w_hd (tw t) repl) = true
  end.

Lemma inv_up ne d : inv ne d -> inv ne (S d).
Proof. unfold inv. intros (H1 & H2 & H3). repeat split; try assumption. lia. Qed.

Lemma scan_src d items : forall rest pre p below ne,
  Forall (wf_sitem d ne) items -> inv ne (S d) -> S (S (S (List.length below))) + d < max_level ->
  exists n m pre', somes pre' = somes pre ++ flat_map (item_out d ne) items /\
    forall f, m <= f ->
      runM (n + f) (st pre (flat_map stoks items ++ rest) p below ne) = runM f (st pre' rest p below ne).
Proof.
  induction items as [|i items IH]; intros rest pre p below ne Hwf Hinv Hlev.
  - exists 0, 0, pre. cbn. rewrite app_nil_r. split; [reflexivity|]. reflexivity.
  - inversion Hwf as [|x l Hi Hitems]; subst.
    cbn [flat_map]. rewrite <- app_assoc.
    destruct i as [l|t lp a more rp].
    + (* plain tokens and defined forms *)
      cbn [wf_sitem stoks item_out] in *.
      destruct (scan_items (S d) (List.length l) l (flat_map stoks items ++ rest) pre p below ne (le_n _) Hi Hinv)
        as (n1 & pre1 & Hs1 & Hrun1); [lia|].
      destruct (IH rest pre1 p below ne Hitems Hinv Hlev) as (n2 & m2 & pre' & Hs2 & Hrun2).
      exists (n1 + n2), m2, pre'. split; [rewrite Hs2, Hs1; now rewrite <- app_assoc|].
      intros f Hf. rewrite <- Nat.add_assoc, Hrun1. now apply Hrun2.
    + (* an invocation *)
      cbn [wf_sitem stoks item_out] in *.
      destruct Hi as (Hid & Hd & Hh & Hlp & Ha & Hmore & Hrp & Hall & m & repl & Hm & Hf & Hv & Hrepl & Hokr).
      destruct (Hobj _ _ Hm) as (Hname & _).
      assert (Hnh : in_noexp (tt t) ne = false).
      { apply orb_false_iff in Hh. tauto. }
      assert (Hinv' : inv (Some (m_name m) :: ne) d).
      { rewrite Hname. apply inv_push; [assumption|assumption|]. eapply get_macro_In, Hm. }
      destruct (R_call (S d) pre t lp a more rp (flat_map stoks items ++ rest) p below ne m repl
                  Hid Hd Hh Hm Hf Hv Hlp Ha Hmore Hrp Hall Hinv) as (n0 & pre0 & Hs0 & Hrun0); [lia|assumption|].
      destruct (scan_all d (set_w_hd (tw t) repl) [] [] false (top_of pre0 (flat_map stoks items ++ rest) p :: below)
                  (Some (m_name m) :: ne) Hokr Hinv') as (n1 & pre1 & Hs1 & Hrun1).
      { cbn [List.length]. lia. }
      rewrite app_nil_r in Hrun1.
      destruct (IH rest (map Some (somes pre0 ++ somes pre1)) p below ne Hitems Hinv Hlev) as (n2 & m2 & pre' & Hs2 & Hrun2).
      exists (S (n1 + n2)), (n0 + m2), pre'. split.
      * rewrite Hs2, somes_map_Some, Hs0, Hs1. unfold call_out. rewrite Hm, Hrepl. cbn [app]. now rewrite <- app_assoc.
      * intros f Hfl. replace (S (n1 + n2) + f) with (S (n1 + (n2 + f))) by lia.
        cbn [app]. replace ((a ++ flat_more more ++ [rp]) ++ flat_map stoks items ++ rest)
          with (a ++ flat_more more ++ rp :: flat_map stoks items ++ rest).
        2:{ rewrite <- !app_assoc. reflexivity. }
        rewrite Hrun0 by lia. rewrite Hrun1.
        rewrite (R_norm _ _ _ (norm_pop' pre1 pre0 _ p below ne _)). apply Hrun2. lia.
Qed.

Lemma empty_src d ne items : flat_map stoks items = [] -> flat_map (item_out d ne) items = [].
Proof.
  induction items as [|i items IH]; [reflexivity|]. cbn [flat_map]. intros H.
  apply app_eq_nil in H. destruct H as [Hi Hr]. rewrite (IH Hr), app_nil_r.
  destruct i as [l|t lp a more rp]; cbn [stoks] in Hi; [subst l; reflexivity|discriminate].
Qed.

Theorem expand_src items :
  Forall (wf_sitem (Nat.pred (List.length names)) [None]) items ->
  List.length names <> 0 -> S (S (List.length names)) < max_level ->
  exists n, forall fuel, n <= fuel ->
    expand lead cat_fix str_white resub_fix None false va_fix va_whole max_level tb fuel (flat_map stoks items)
    = Ok (flat_map (item_out (Nat.pred (List.length names)) [None]) items).
Proof.
  intros Hwf Hnz Hlev.
  destruct (scan_src (Nat.pred (List.length names)) items [] [] false [] [None] Hwf) as (n & m & pre' & Hs & Hrun).
  { repeat split; cbn [somes]; [constructor|intros x []|cbn; lia]. }
  { cbn [List.length]. lia. }
  rewrite app_nil_r in Hrun.
  exists (S (n + m)). intros fuel Hf. unfold expand. destruct (flat_map stoks items) as [|t r] eqn:Et.
  { now rewrite (empty_src _ _ items Et). }
  replace (Nat.leb max_level 0) with false by (symmetry; apply Nat.leb_gt; lia).
  replace fuel with (n + (S (fuel - S n))) by lia.
  change (mkX [mkH (map Some (t :: r)) 0 false] [None]) with (st [] (t :: r) false [] [None]).
  rewrite Hrun by lia. rewrite R_end. unfold st, top_of. cbn [x_stack h_toks]. rewrite app_nil_r, Hs. reflexivity.
Qed.

(* ---------- MacroExpander(platform).expand(tokens) ---------- *)
Definition E_all (l : list tok) : list tok := flat_map (E (List.length names) [None]) l.
Definition EI_all (l : list tok) : list tok := EI (List.length names) [None] l.

Theorem expand_objlike_defined l :
  wfd l = true -> S (List.length names) < max_level ->
  exists n, forall fuel, n <= fuel ->
    expand lead cat_fix str_white resub_fix None false va_fix va_whole max_level tb fuel l = Ok (EI_all l).
Proof.
  intros Hok Hlev.
  destruct (scan_items (List.length names) (List.length l) l [] [] false [] [None] (le_n _) Hok) as (n & pre' & Hs & Hrun).
  { repeat split; cbn [somes]; [constructor|intros x []|lia]. }
  { cbn [List.length]. lia. }
  rewrite app_nil_r in Hrun.
  exists (S n). intros fuel Hf. unfold expand. destruct l as [|t r]; [reflexivity|].
  replace (Nat.leb max_level 0) with false by (symmetry; apply Nat.leb_gt; lia).
  replace fuel with (n + S (fuel - S n)) by lia.
  change (mkX [mkH (map Some (t :: r)) 0 false] [None]) with (st [] (t :: r) false [] [None]).
  rewrite Hrun, R_end. unfold st, top_of. cbn [x_stack h_toks]. rewrite app_nil_r, Hs. reflexivity.
Qed.

Theorem expand_objlike l :
  forallb okt2 l = true -> S (List.length names) < max_level ->
  exists n, forall fuel, n <= fuel ->
    expand lead cat_fix str_white resub_fix None false va_fix va_whole max_level tb fuel l = Ok (E_all l).
Proof.
  intros Hok Hlev.
  destruct (scan_all (List.length names) l [] [] false [] [None] Hok) as (n & pre' & Hs & Hrun).
  { repeat split; cbn [somes]; [constructor|intros x []|lia]. }
  { cbn [List.length]. lia. }
  rewrite app_nil_r in Hrun.
  exists (S n). intros fuel Hf. unfold expand. destruct l as [|t r]; [reflexivity|].
  replace (Nat.leb max_level 0) with false by (symmetry; apply Nat.leb_gt; lia).
  replace fuel with (n + S (fuel - S n)) by lia.
  change (mkX [mkH (map Some (t :: r)) 0 false] [None]) with (st [] (t :: r) false [] [None]).
  rewrite Hrun, R_end. unfold st, top_of. cbn [x_stack h_toks]. rewrite app_nil_r, Hs. reflexivity.
Qed.
End ObjLike.
