(* C07 proofs, part 5: invariance under reordering (rows, names inside a key,
   the platform list), injective renaming, and scaling of all counts. *)
From Coq Require Import ZArith QArith String Bool Lia ZifyBool Permutation List.
From CBI Require Import Lib.Data Model.C07 Spec.C07 Proofs.C07 Proofs.C07s Proofs.C07d Proofs.C07i.
Import ListNotations.
Local Open Scope Z_scope.

(* =================== reordering =================== *)
Lemma wsum_perm f t t' : Permutation t t' -> wsum f t = wsum f t'.
Proof. induction 1; cbn [wsum]; lia. Qed.

Lemma wsum_same_rows f t t' : (forall s s', Permutation s s' -> f s = f s') ->
  Forall2 same_row t t' -> wsum f t = wsum f t'.
Proof.
  intros Hf. induction 1 as [|r r' t t' [Hk Hc] _ IH]; cbn [wsum]; [reflexivity|].
  rewrite (Hf _ _ Hk), Hc, IH. reflexivity.
Qed.

Lemma wsum_same_table f t t' : (forall s s', Permutation s s' -> f s = f s') ->
  same_table t t' -> wsum f t = wsum f t'.
Proof.
  intros Hf [t1 [P F]]. rewrite (wsum_perm f t t1 P). apply wsum_same_rows; assumption.
Qed.

Lemma perm_in_iff {A} (l l' : list A) : Permutation l l' -> forall x, In x l <-> In x l'.
Proof. intros P x. split; apply Permutation_in; [exact P | apply Permutation_sym; exact P]. Qed.

Lemma mem_perm p s s' : Permutation s s' -> mem p s = mem p s'.
Proof. intros P. apply mem_ext. apply perm_in_iff; exact P. Qed.

Lemma hits_perm_key ps s s' : Permutation s s' -> hits ps s = hits ps s'.
Proof.
  intros P. unfold hits. apply eq_true_iff_eq. rewrite !existsb_exists.
  split; intros [p [Hp Hm]]; exists p; (split; [|exact Hm]).
  - apply (Permutation_in _ P); exact Hp.
  - apply (Permutation_in _ (Permutation_sym P)); exact Hp.
Qed.

Lemma f_or_perm p q s s' : Permutation s s' -> f_or p q s = f_or p q s'.
Proof. intros P. unfold f_or. rewrite (mem_perm p s s' P), (mem_perm q s s' P). reflexivity. Qed.
Lemma f_xor_perm p q s s' : Permutation s s' -> f_xor p q s = f_xor p q s'.
Proof. intros P. unfold f_xor. rewrite (mem_perm p s s' P), (mem_perm q s s' P). reflexivity. Qed.

Lemma coverage_on_same t t' ps ps' : same_table t t' -> (forall x, In x ps <-> In x ps') ->
  coverage_on t ps = coverage_on t' ps'.
Proof.
  intros T H. rewrite (coverage_on_ext t ps ps' H), !coverage_on_alg.
  rewrite (wsum_same_table (hits ps') t t' (hits_perm_key ps') T).
  assert (E : wtot t = wtot t') by (apply wsum_same_table; [reflexivity | exact T]).
  rewrite E. reflexivity.
Qed.

Lemma dA_same t t' p q : same_table t t' -> dA t p q = dA t' p q.
Proof.
  intros T. unfold dA.
  rewrite (wsum_same_table (f_xor p q) t t' (f_xor_perm p q) T).
  rewrite (wsum_same_table (f_or p q) t t' (f_or_perm p q) T). reflexivity.
Qed.

Lemma distance_same t t' p q : same_table t t' -> oeq (distance t p q) (distance t' p q).
Proof.
  intros T. eapply oeq_trans; [apply distance_alg|]. fold (dA t p q). rewrite (dA_same t t' p q T).
  apply oeq_sym, distance_alg.
Qed.

Lemma average_on_same t t' ps ps' : same_table t t' -> Permutation ps ps' ->
  oeq (average_on t ps) (average_on t' ps').
Proof.
  intros T P. eapply oeq_trans; [apply (average_on_perm t ps ps' P)|].
  eapply oeq_trans; [apply average_on_mean|]. eapply oeq_trans; [|apply oeq_sym, average_on_mean].
  apply mean_proper, Forall2_map_oeq. intros p. apply oeq_of_eq.
  apply coverage_on_same; [exact T | reflexivity].
Qed.

Lemma divergence_on_same t t' ps ps' : same_table t t' -> Permutation ps ps' -> NoDup ps ->
  oeq (divergence_on t ps) (divergence_on t' ps').
Proof.
  intros T P ND.
  eapply oeq_trans; [apply (divergence_on_gdiv t ps ND)|].
  eapply oeq_trans; [|apply oeq_sym, (divergence_on_gdiv t' ps' (Permutation_NoDup P ND))].
  eapply oeq_trans; [apply (gdiv_perm (dA t) ps ps' P)|].
  apply gdiv_proper. intros p q. apply oeq_of_eq, dA_same; exact T.
Qed.

Lemma same_table_in t t' : same_table t t' ->
  forall p, (exists r, In r t /\ In p (fst r)) <-> (exists r', In r' t' /\ In p (fst r')).
Proof.
  intros [t1 [P F]] p. split.
  - intros [r [Hr Hp]]. apply (Permutation_in _ P) in Hr.
    clear P. induction F as [|a b l l' [Hk _] _ IH]; [destruct Hr|].
    destruct Hr as [<-|Hr].
    + exists b. split; [left; reflexivity | apply (Permutation_in _ Hk); exact Hp].
    + destruct (IH Hr) as [r' [H1 H2]]. exists r'. split; [right; exact H1 | exact H2].
  - intros [r' [Hr' Hp]].
    assert (E : exists r, In r t1 /\ In p (fst r)).
    { clear P. induction F as [|a b l l' [Hk _] _ IH]; [destruct Hr'|].
      destruct Hr' as [<-|Hr'].
      + exists a. split; [left; reflexivity | apply (Permutation_in _ (Permutation_sym Hk)); exact Hp].
      + destruct (IH Hr') as [r [H1 H2]]. exists r. split; [right; exact H1 | exact H2]. }
    destruct E as [r [H1 H2]]. exists r. split; [apply (Permutation_in _ (Permutation_sym P)); exact H1 | exact H2].
Qed.

Lemma platform_set_same t t' ps : same_table t t' -> is_platform_set t ps -> is_platform_set t' ps.
Proof.
  intros T [ND H]. split; [exact ND|]. intros p. rewrite H. apply same_table_in; exact T.
Qed.

(* every metric is unchanged when the dict is built in another order, its keys
   are written in another order, the platform set is enumerated in another order *)
Theorem perm_invariant t t' : same_table t t' ->
  Permutation (extract_platforms t) (extract_platforms t') /\
  (forall arg ps', selected t' arg ps' -> oeq (coverage t arg) (coverage_on t' ps')) /\
  (forall arg ps', selected t' arg ps' -> oeq (average_coverage t arg) (average_on t' ps')) /\
  (forall p q, oeq (distance t p q) (distance t' p q)) /\
  (forall ps', is_platform_set t' ps' -> oeq (divergence t) (divergence_on t' ps')).
Proof.
  intros T.
  assert (PE : forall ps', is_platform_set t' ps' -> Permutation (extract_platforms t) ps').
  { intros ps' H. apply (platform_sets_perm t'); [|exact H].
    apply (platform_set_same t t' _ T), extract_is_platform_set. }
  split; [apply PE, extract_is_platform_set|].
  assert (SEL : forall arg ps', selected t' arg ps' -> Permutation (sel_platforms t arg) ps').
  { intros arg ps' Hs. destruct arg as [[|x l]|]; cbn [selected sel_platforms] in *;
      [apply PE; exact Hs | subst; apply Permutation_refl | apply PE; exact Hs]. }
  split; [|split; [|split]].
  - intros arg ps' Hs. apply oeq_of_eq. unfold coverage. apply coverage_on_same; [exact T|].
    apply perm_in_iff, SEL, Hs.
  - intros arg ps' Hs. unfold average_coverage. apply average_on_same; [exact T | apply SEL, Hs].
  - intros p q. apply distance_same; exact T.
  - intros ps' Hp. unfold divergence. apply divergence_on_same; [exact T | apply PE, Hp |].
    apply extract_is_platform_set.
Qed.

(* =================== renaming =================== *)
Section Rename.
Variable f : string -> string.
Hypothesis f_inj : forall a b, f a = f b -> a = b.

Lemma mem_rename p s : mem (f p) (map f s) = mem p s.
Proof.
  apply eq_true_iff_eq. rewrite !mem_in, in_map_iff. split.
  - intros [x [E Hx]]. apply f_inj in E. subst; exact Hx.
  - intros H. exists p. split; [reflexivity | exact H].
Qed.

Lemma hits_rename ps s : hits (map f ps) (map f s) = hits ps s.
Proof.
  unfold hits. induction s as [|x s IH]; cbn [map existsb]; [reflexivity|].
  rewrite mem_rename, IH. reflexivity.
Qed.

Lemma fold_left_map {A B C} (g : A -> B -> A) (h : C -> B) l : forall a,
  fold_left g (map h l) a = fold_left (fun a c => g a (h c)) l a.
Proof. induction l as [|c l IH]; intros a; cbn [map fold_left]; [reflexivity | apply IH]. Qed.

Lemma cov_step_rename ps acc r : cov_step (map f ps) acc (rename_row f r) = cov_step ps acc r.
Proof.
  unfold cov_step, rename_row. cbn [fst snd]. rewrite hits_rename.
  destruct (fst r); reflexivity.
Qed.

Lemma coverage_on_rename t ps : coverage_on (rename f t) (map f ps) = coverage_on t ps.
Proof.
  unfold coverage_on, cov_counts, rename. rewrite fold_left_map.
  rewrite (fold_left_ext _ (cov_step ps) t (cov_step_rename ps)). reflexivity.
Qed.

Lemma dist_total_rename t p q : dist_total (rename f t) (f p) (f q) = dist_total t p q.
Proof.
  unfold dist_total, rename. rewrite fold_left_map. apply fold_left_ext.
  intros a r. unfold rename_row. cbn [fst snd]. rewrite !mem_rename. reflexivity.
Qed.

Lemma dist_frac_rename t p q T : dist_frac (rename f t) (f p) (f q) T = dist_frac t p q T.
Proof.
  unfold dist_frac, rename. rewrite fold_left_map. apply fold_left_ext.
  intros a r. unfold rename_row. cbn [fst snd]. rewrite !mem_rename. reflexivity.
Qed.

Lemma distance_rename t p q : distance (rename f t) (f p) (f q) = distance t p q.
Proof. unfold distance. rewrite dist_total_rename, dist_frac_rename. reflexivity. Qed.

Lemma average_on_rename t ps : average_on (rename f t) (map f ps) = average_on t ps.
Proof.
  unfold average_on. rewrite map_map, map_length.
  rewrite (map_ext (fun x => coverage_on (rename f t) [f x]) (fun p => coverage_on t [p]))
    by (intros p; apply (coverage_on_rename t [p])).
  destruct ps; reflexivity.
Qed.

Lemma pairs_map {A B} (h : A -> B) l : pairs (map h l) = map (fun pq => (h (fst pq), h (snd pq))) (pairs l).
Proof.
  induction l as [|x r IH]; cbn [map pairs]; [reflexivity|].
  rewrite map_app, !map_map, IH. reflexivity.
Qed.

Lemma divergence_on_rename t ps : divergence_on (rename f t) (map f ps) = divergence_on t ps.
Proof.
  unfold divergence_on. rewrite pairs_map, map_map. cbn [fst snd].
  rewrite (map_ext (fun x => distance (rename f t) (f (fst x)) (f (snd x))) (fun pq => distance t (fst pq) (snd pq)))
    by (intros pq; apply distance_rename). reflexivity.
Qed.

Lemma nodup_map_inj l : nodup string_dec (map f l) = map f (nodup string_dec l).
Proof.
  induction l as [|x l IH]; cbn [map nodup]; [reflexivity|].
  destruct (in_dec string_dec x l) as [Hi|Hn]; destruct (in_dec string_dec (f x) (map f l)) as [Hi'|Hn'].
  - exact IH.
  - exfalso. apply Hn'. apply in_map; exact Hi.
  - exfalso. apply Hn. apply in_map_iff in Hi'. destruct Hi' as [y [E Hy]]. apply f_inj in E. subst; exact Hy.
  - cbn [map]. rewrite IH. reflexivity.
Qed.

Lemma extract_rename t : extract_platforms (rename f t) = map f (extract_platforms t).
Proof.
  unfold extract_platforms. rewrite <- nodup_map_inj. f_equal.
  rewrite concat_map. f_equal. unfold rename. rewrite !map_map. reflexivity.
Qed.

Lemma sel_rename t arg : sel_platforms (rename f t) (option_map (map f) arg) = map f (sel_platforms t arg).
Proof.
  destruct arg as [[|x l]|]; cbn [option_map map sel_platforms]; try apply extract_rename. reflexivity.
Qed.

(* renaming the platforms injectively changes no metric (exactly, not only up to ==) *)
Theorem rename_invariant t :
  extract_platforms (rename f t) = map f (extract_platforms t) /\
  (forall arg, coverage (rename f t) (option_map (map f) arg) = coverage t arg) /\
  (forall arg, average_coverage (rename f t) (option_map (map f) arg) = average_coverage t arg) /\
  (forall p q, distance (rename f t) (f p) (f q) = distance t p q) /\
  divergence (rename f t) = divergence t.
Proof.
  split; [apply extract_rename|]. split; [|split; [|split]].
  - intros arg. unfold coverage. rewrite sel_rename. apply coverage_on_rename.
  - intros arg. unfold average_coverage. rewrite sel_rename. apply average_on_rename.
  - apply distance_rename.
  - unfold divergence. rewrite extract_rename. apply divergence_on_rename.
Qed.
End Rename.

(* =================== scaling =================== *)
Lemma wsum_scale k f t : wsum f (scale k t) = k * wsum f t.
Proof.
  unfold scale. induction t as [|r t IH]; cbn [map wsum fst snd]; [lia|].
  rewrite IH. destruct (f (fst r)); lia.
Qed.

Lemma ratio_scale k a b : k <> 0 -> oeq (ratio (k * a) (k * b)) (ratio a b).
Proof.
  intros K. unfold ratio.
  destruct (b =? 0) eqn:Eb.
  - assert (b = 0) by lia. subst. rewrite Z.mul_0_r. exact I.
  - assert (k * b <> 0) by nia. destruct (k * b =? 0) eqn:E; [lia|]. cbn [oeq].
    rewrite !inject_Z_mult. field. split.
    + intros H0. apply (eq_sym) in H0. unfold Qeq in H0. cbn in H0. lia.
    + intros H0. apply (eq_sym) in H0. unfold Qeq in H0. cbn in H0. lia.
Qed.

Lemma times100_proper a b : oeq a b -> oeq (times100 a) (times100 b).
Proof. destruct a, b; cbn; intros H; try contradiction; [rewrite H; reflexivity | exact I]. Qed.

Lemma extract_scale k t : extract_platforms (scale k t) = extract_platforms t.
Proof. unfold extract_platforms, scale. rewrite map_map. reflexivity. Qed.

Lemma coverage_on_scale k t ps : k <> 0 -> oeq (coverage_on (scale k t) ps) (coverage_on t ps).
Proof.
  intros K. eapply oeq_trans; [apply coverage_on_ratio|]. eapply oeq_trans; [|apply oeq_sym, coverage_on_ratio].
  unfold wtot. rewrite !wsum_scale. apply times100_proper, ratio_scale, K.
Qed.

Lemma distance_scale k t p q : k <> 0 -> oeq (distance (scale k t) p q) (distance t p q).
Proof.
  intros K. eapply oeq_trans; [apply distance_alg|]. eapply oeq_trans; [|apply oeq_sym, distance_alg].
  rewrite !wsum_scale. apply ratio_scale, K.
Qed.

(* multiplying every count by the same k > 0 changes no metric *)
Theorem scale_invariant k t : 0 < k ->
  (forall arg, oeq (coverage (scale k t) arg) (coverage t arg)) /\
  (forall arg, oeq (average_coverage (scale k t) arg) (average_coverage t arg)) /\
  (forall p q, oeq (distance (scale k t) p q) (distance t p q)) /\
  oeq (divergence (scale k t)) (divergence t).
Proof.
  intros K0. assert (K : k <> 0) by lia.
  assert (SEL : forall arg, sel_platforms (scale k t) arg = sel_platforms t arg).
  { intros [[|x l]|]; cbn [sel_platforms]; try apply extract_scale. reflexivity. }
  split; [|split; [|split]].
  - intros arg. unfold coverage. rewrite SEL. apply coverage_on_scale, K.
  - intros arg. unfold average_coverage. rewrite SEL.
    eapply oeq_trans; [apply average_on_mean|]. eapply oeq_trans; [|apply oeq_sym, average_on_mean].
    apply mean_proper, Forall2_map_oeq. intros p. apply coverage_on_scale, K.
  - intros p q. apply distance_scale, K.
  - unfold divergence. rewrite extract_scale.
    eapply oeq_trans; [apply divergence_on_mean|]. eapply oeq_trans; [|apply oeq_sym, divergence_on_mean].
    apply mean_proper, Forall2_map_oeq. intros pq. apply distance_scale, K.
Qed.
