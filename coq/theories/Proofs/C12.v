(* Proofs for C12, part 1: dictionaries, alias walk, basename, implicit options,
   configurations (passes / modes), no-history. *)
From Coq Require Import ZArith Bool Ascii String Arith Lia List.
From CBI Require Import Lib.Data Lib.Res Lib.ListX Model.C12 Spec.C12.
Import ListNotations.
Local Open Scope string_scope.
Local Open Scope list_scope.

(* ------------------------------------------------------------------ small facts *)
Lemma smem_In x l : smem x l = true <-> In x l.
Proof.
  unfold smem. rewrite existsb_exists. split.
  - intros [y [Hy He]]. apply String.eqb_eq in He. subst. exact Hy.
  - intros H. exists x. split; [exact H | apply String.eqb_refl].
Qed.
Lemma smem_false x l : smem x l = false <-> ~ In x l.
Proof. rewrite <- smem_In. destruct (smem x l); split; congruence. Qed.

Lemma aget_In {A} k (l : list (string * A)) v : aget k l = Some v -> In k (map fst l).
Proof.
  induction l as [|[k' v'] l IH]; cbn; [discriminate|].
  destruct (String.eqb_spec k k'); [subst; auto|]. intros H. right. auto.
Qed.
Lemma aget_aset_same {A} k (v : A) l : aget k (aset k v l) = Some v.
Proof.
  induction l as [|[k' v'] l IH]; cbn.
  - rewrite String.eqb_refl. reflexivity.
  - destruct (String.eqb_spec k k') as [->|Hne]; cbn.
    + rewrite String.eqb_refl. reflexivity.
    + destruct (String.eqb_spec k k'); [contradiction|]. exact IH.
Qed.
Lemma aget_aset_other {A} k k' (v : A) l : k <> k' -> aget k (aset k' v l) = aget k l.
Proof.
  intros Hne. induction l as [|[k2 v2] l IH]; cbn.
  - destruct (String.eqb_spec k k'); [contradiction|reflexivity].
  - destruct (String.eqb_spec k' k2) as [->|Hne2]; cbn.
    + destruct (String.eqb_spec k k2); [contradiction|reflexivity].
    + destruct (String.eqb_spec k k2); [reflexivity|exact IH].
Qed.

Lemma dedup_In x l : In x (dedup l) <-> In x l.
Proof.
  induction l as [|y l IH]; cbn; [tauto|].
  rewrite filter_In, IH. destruct (String.eqb_spec y x).
  - subst. tauto.
  - split; [tauto|]. intros [H|H]; [contradiction|]. right. split; [exact H|reflexivity].
Qed.
Lemma dedup_NoDup l : NoDup (dedup l).
Proof.
  induction l as [|y l IH]; cbn; constructor.
  - rewrite filter_In. intros [_ H]. rewrite String.eqb_refl in H. discriminate.
  - apply NoDup_filter. exact IH.
Qed.

(* ------------------------------------------------------------------ alias walk *)
Definition closed (t : table) (C : list string) : Prop :=
  forall x, In x C -> exists a, next_name t x = Some (Some a) /\ In a C.

Lemma path_shift t x k :
  path t x (S k) = match next_name t x with Some (Some a) => path t a k | _ => None end.
Proof.
  induction k as [|k IH].
  - cbn. destruct (next_name t x) as [[a|]|]; reflexivity.
  - change (path t x (S (S k))) with
      (match path t x (S k) with Some y => match next_name t y with Some (Some a) => Some a | _ => None end | None => None end).
    rewrite IH. destruct (next_name t x) as [[a|]|]; reflexivity.
Qed.

Lemma closed_loops t C x : closed t C -> In x C -> loops t x.
Proof.
  intros HC Hx k. revert x Hx. induction k as [|k IH]; intros x Hx.
  - exists x. split; [reflexivity|]. destruct (HC x Hx) as [a [Ha _]]. eauto.
  - destruct (HC x Hx) as [a [Ha Hin]]. destruct (IH a Hin) as [y [Hy Hal]].
    exists y. rewrite path_shift, Ha. auto.
Qed.

Lemma closed_spec_walk t C : closed t C -> forall f x, In x C -> spec_walk f t x = SLoop.
Proof.
  intros HC f. induction f as [|f IH]; intros x Hx; [reflexivity|].
  cbn. destruct (HC x Hx) as [a [Ha Hin]]. rewrite Ha. auto.
Qed.

(* the chain is the alias path walked so far; cur is its last element *)
Record inv (t : table) (chain : list string) (cur : string) : Prop := {
  inv_nodup : NoDup chain;
  inv_keys : incl chain (map fst t);
  inv_last : exists pre, chain = pre ++ [cur];
  inv_link : forall pre, chain = pre ++ [cur] ->
             forall x, In x pre -> exists a, next_name t x = Some (Some a) /\ In a chain }.

Lemma inv_len t chain cur : inv t chain cur -> List.length chain <= List.length t.
Proof.
  intros [Hn Hk _ _]. rewrite <- (map_length fst t). apply NoDup_incl_length; assumption.
Qed.

Lemma inv_step t chain cur c a c' :
  inv t chain cur -> aget cur t = Some c -> truthy (c_alias c) = Some a ->
  smem a chain = false -> aget a t = Some c' -> inv t (chain ++ [a]) a.
Proof.
  intros [Hn Hk [pre Hp] Hl] Hc Ha Hm Hd. apply smem_false in Hm. split.
  - apply NoDup_snoc; assumption.
  - intros x Hx. apply in_app_or in Hx. destruct Hx as [Hx|[<-|[]]]; [auto|]. eapply aget_In; eauto.
  - exists chain. reflexivity.
  - intros pre' Hp' x Hx. apply app_inj_tail in Hp'. destruct Hp' as [<- _].
    subst chain. apply in_app_or in Hx. destruct Hx as [Hx|[<-|[]]].
    + destruct (Hl pre eq_refl x Hx) as [b [Hb Hin]]. exists b. split; [exact Hb|]. apply in_or_app. auto.
    + exists a. split; [unfold next_name; rewrite Hc, Ha; reflexivity|]. apply in_or_app. right. left. reflexivity.
Qed.

Lemma loop_closed t chain cur c a :
  inv t chain cur -> aget cur t = Some c -> truthy (c_alias c) = Some a -> In a chain -> closed t chain.
Proof.
  intros [Hn Hk [pre Hp] Hl] Hc Ha Hin x Hx. subst chain.
  apply in_app_or in Hx. destruct Hx as [Hx|[<-|[]]].
  - exact (Hl pre eq_refl x Hx).
  - exists a. split; [unfold next_name; rewrite Hc, Ha; reflexivity|exact Hin].
Qed.

(* the walk never runs out of fuel and agrees with the path semantics *)
Lemma walk_spec t : forall f chain cur,
  inv t chain cur -> (exists c, aget cur t = Some c) -> f + List.length chain > S (List.length t) ->
  walk f t chain cur = spec_walk f t cur /\ walk f t chain cur <> SOutOfFuel /\
  (walk f t chain cur = SLoop -> exists C, closed t C /\ incl chain C).
Proof.
  induction f as [|f IH]; intros chain cur Hinv [c Hc] Hf.
  - pose proof (inv_len _ _ _ Hinv). lia.
  - cbn. unfold next_name. rewrite Hc.
    destruct (truthy (c_alias c)) as [a|] eqn:Ha.
    + destruct (smem a chain) eqn:Hm.
      * apply smem_In in Hm. pose proof (loop_closed _ _ _ _ _ Hinv Hc Ha Hm) as HC.
        split; [symmetry; eapply closed_spec_walk; eauto|]. split; [discriminate|].
        intros _. exists chain. split; [exact HC|apply incl_refl].
      * destruct (aget a t) as [c'|] eqn:Hd.
        -- assert (Hinv' : inv t (chain ++ [a]) a) by (eapply inv_step; eauto).
           destruct (IH (chain ++ [a]) a Hinv' (ex_intro _ c' Hd)) as [H1 [H2 H3]].
           { rewrite app_length. cbn. lia. }
           split; [exact H1|]. split; [exact H2|].
           intros HL. destruct (H3 HL) as [C [HC Hi]]. exists C. split; [exact HC|].
           intros x Hx. apply Hi. apply in_or_app. auto.
        -- split.
           ++ destruct f as [|f'].
              ** pose proof (inv_len _ _ _ Hinv). lia.
              ** cbn. unfold next_name. rewrite Hd. reflexivity.
           ++ split; discriminate.
    + split; [reflexivity|]. split; discriminate.
Qed.

Lemma inv_init t name c : aget name t = Some c -> inv t [name] name.
Proof.
  intros Hc. split.
  - constructor; [intros []|constructor].
  - intros x [<-|[]]. eapply aget_In; eauto.
  - exists []. reflexivity.
  - intros pre Hp x Hx. destruct pre as [|y pre]; [destruct Hx|].
    cbn in Hp. injection Hp as _ Hp. destruct pre; discriminate.
Qed.

Lemma resolve_spec t name : resolve t name = spec_resolve t name.
Proof.
  unfold resolve, spec_resolve. destruct (aget name t) as [c|] eqn:Hc; [|reflexivity].
  apply walk_spec; [eapply inv_init; eauto | eauto | cbn; lia].
Qed.

Lemma spec_walk_ok t : forall f x y, spec_walk f t x = SOk y -> resolves_to t x y.
Proof.
  induction f as [|f IH]; intros x y H; [discriminate|].
  cbn in H. destruct (next_name t x) as [[a|]|] eqn:Hn.
  - destruct (IH a y H) as [k [Hk Hy]]. exists (S k). rewrite path_shift, Hn. auto.
  - injection H as <-. exists 0. auto.
  - discriminate.
Qed.
Lemma spec_walk_dangling t : forall f x a, spec_walk f t x = SDangling a ->
  exists k, path t x k = Some a /\ next_name t a = None.
Proof.
  induction f as [|f IH]; intros x y H; [discriminate|].
  cbn in H. destruct (next_name t x) as [[a|]|] eqn:Hn.
  - destruct (IH a y H) as [k [Hk Hy]]. exists (S k). rewrite path_shift, Hn. auto.
  - discriminate.
  - injection H as <-. exists 0. auto.
Qed.

Lemma spec_walk_not_unrec t : forall f x, spec_walk f t x <> SUnrec.
Proof.
  induction f as [|f IH]; intros x; cbn; [discriminate|].
  destruct (next_name t x) as [[a|]|]; [apply IH|discriminate|discriminate].
Qed.

(* C12_alias_total *)
Theorem alias_total t name :
  match resolve t name with
  | SUnrec => aget name t = None
  | SOk y => resolves_to t name y
  | SDangling a => aget name t <> None /\ exists k, path t name k = Some a /\ next_name t a = None
  | SLoop => loops t name
  | SOutOfFuel => False
  end.
Proof.
  pose proof (resolve_spec t name) as Hs. unfold resolve, spec_resolve in *.
  destruct (aget name t) as [c|] eqn:Hc; [|reflexivity].
  destruct (walk_spec t (S (List.length t)) [name] name) as [H1 [H2 H3]];
    [eapply inv_init; eauto | eauto | cbn; lia |].
  destruct (walk (S (List.length t)) t [name] name) eqn:Hw.
  - exfalso. eapply spec_walk_not_unrec. symmetry. exact Hs.
  - eapply spec_walk_ok. symmetry. exact Hs.
  - destruct (H3 eq_refl) as [C [HC Hi]]. eapply closed_loops; [exact HC|]. apply Hi. left. reflexivity.
  - split; [discriminate|]. eapply spec_walk_dangling. symmetry. exact Hs.
  - congruence.
Qed.

(* the three outcomes exclude one another: the path is a function *)
Lemma path_fun_le t x : forall k y, path t x k = Some y -> forall j, j <= k -> exists z, path t x j = Some z.
Proof.
  induction k as [|k IH]; intros y H j Hj.
  - assert (j = 0) by lia. subst. eauto.
  - destruct (Nat.eq_dec j (S k)) as [->|Hne]; [eauto|].
    cbn in H. destruct (path t x k) as [z|] eqn:Hz; [|discriminate]. apply (IH z eq_refl). lia.
Qed.
Lemma path_stop t x k y : path t x k = Some y -> (forall a, next_name t y <> Some (Some a)) ->
  forall j, j > k -> path t x j = None.
Proof.
  intros Hk Hy j Hj. induction j as [|j IH]; [lia|].
  cbn. destruct (Nat.eq_dec j k) as [->|Hne].
  - rewrite Hk. destruct (next_name t y) as [[a|]|] eqn:Hn; try reflexivity. exfalso. eapply Hy; eauto.
  - rewrite IH; [reflexivity|lia].
Qed.
Theorem alias_unique t x y :
  resolves_to t x y ->
  (forall y', resolves_to t x y' -> y' = y) /\ ~ loops t x /\
  (forall a, ~ (exists k, path t x k = Some a /\ next_name t a = None)).
Proof.
  intros [k [Hk Hy]].
  assert (Hstop : forall j, j > k -> path t x j = None).
  { eapply path_stop; eauto. intros a. rewrite Hy. discriminate. }
  assert (Hbefore : forall j z, j < k -> path t x j = Some z -> exists a, next_name t z = Some (Some a)).
  { intros j z Hj Hz. destruct (path_fun_le t x k y Hk (S j)) as [w Hw]; [lia|].
    cbn in Hw. rewrite Hz in Hw. destruct (next_name t z) as [[a|]|]; try discriminate. eauto. }
  split; [|split].
  - intros y' [k' [Hk' Hy']]. destruct (Nat.lt_trichotomy k' k) as [Hlt|[->|Hgt]].
    + destruct (Hbefore k' y' Hlt Hk') as [a Ha]. congruence.
    + congruence.
    + rewrite (Hstop k' Hgt) in Hk'. discriminate.
  - intros HL. destruct (HL (S k)) as [z [Hz _]]. rewrite Hstop in Hz; [discriminate|lia].
  - intros a [k' [Hk' Ha]]. destruct (Nat.lt_trichotomy k' k) as [Hlt|[->|Hgt]].
    + destruct (Hbefore k' a Hlt Hk') as [b Hb]. congruence.
    + congruence.
    + rewrite (Hstop k' Hgt) in Hk'. discriminate.
Qed.

(* the definition that is used is a real (non-alias) compiler of the table *)
Lemma resolve_ok_defined t name y : resolve t name = SOk y ->
  exists c, aget y t = Some c /\ truthy (c_alias c) = None /\ compiler_of t (SOk y) = c.
Proof.
  intros H. pose proof (alias_total t name) as HT. rewrite H in HT.
  destruct HT as [k [_ Hy]]. unfold next_name in Hy. destruct (aget y t) as [c|] eqn:Hc; [|discriminate].
  exists c. split; [reflexivity|]. split; [congruence|]. cbn. rewrite Hc. reflexivity.
Qed.

(* ------------------------------------------------------------------ basename *)
Lemma basename_go_noslash s : has_char "/"%char s = false -> forall acc, basename_go s acc = (acc ++ s)%string.
Proof.
  induction s as [|c s IH]; intros H acc; cbn.
  - induction acc; cbn; congruence.
  - change (has_char "/"%char (String c s)) with (Ascii.eqb "/"%char c || has_char "/"%char s) in H.
    apply orb_false_iff in H. destruct H as [Hc Hs].
    rewrite Ascii.eqb_sym in Hc. rewrite Hc. rewrite IH by exact Hs.
    clear. induction acc; cbn; congruence.
Qed.
Lemma basename_go_dir d n : forall acc, basename_go (d ++ String "/"%char n) acc = basename_go n "".
Proof.
  induction d as [|c d IH]; intros acc; cbn.
  - reflexivity.
  - destruct (Ascii.eqb c "/"%char); apply IH.
Qed.
Theorem basename_spec d n : has_char "/"%char n = false ->
  basename n = n /\ basename (d ++ String "/"%char n) = n.
Proof.
  intros H. unfold basename. split.
  - rewrite basename_go_noslash by exact H. reflexivity.
  - rewrite basename_go_dir, basename_go_noslash by exact H. reflexivity.
Qed.

(* ------------------------------------------------------------------ implicit options *)
Definition with_opts (c : compiler) (o : list string) : compiler :=
  {| c_alias := c_alias c; c_opts := o; c_rules := c_rules c; c_modes := c_modes c; c_passes := c_passes c |}.

Theorem implicit_is_appended legacy c o argv :
  parse_args legacy (with_opts c o) argv = parse_args legacy (with_opts c []) (argv ++ o).
Proof.
  unfold parse_args, parse_ns, with_opts, init_ns, configs_of, events_of, config_of. cbn [c_opts c_rules c_modes c_passes].
  rewrite app_nil_r. reflexivity.
Qed.

(* ------------------------------------------------------------------ no history *)
Theorem no_history t cmds :
  run_cmds false t cmds = map (fun cmd => snd (run_cmd false t (fst cmd) (snd cmd))) cmds.
Proof.
  induction cmds as [|[a0 argv] cmds IH]; [reflexivity|].
  cbn [run_cmds map fst snd]. unfold run_cmd at 1. cbn [fst snd]. rewrite IH. reflexivity.
Qed.

(* ------------------------------------------------------------------ passes *)
Definition selected (n : ns) : list string := n_passes n ++ concat (map snd (n_up n)).
Definition pass_known (c : compiler) (pn : string) : bool :=
  String.eqb pn "default" || match aget pn (c_passes c) with Some _ => true | None => false end.

Lemma fold_upd l : forall g0,
  fold_left (fun g m => upd g (m_defs m) (m_paths m) (m_files m)) l g0 =
  {| g_pass := g_pass g0;
     g_defs := g_defs g0 ++ concat (map m_defs l);
     g_paths := g_paths g0 ++ concat (map m_paths l);
     g_files := g_files g0 ++ concat (map m_files l);
     g_blocks := g_blocks g0 |}.
Proof.
  induction l as [|m l IH]; intros [pn d p f b]; cbn.
  - rewrite !app_nil_r. reflexivity.
  - rewrite IH. cbn. rewrite <- !app_assoc. reflexivity.
Qed.

(* what one configuration contains *)
Theorem config_of_exact c n pn :
  config_of c n pn =
  if String.eqb pn "default" then
    Some {| g_pass := pn; g_defs := n_defs n; g_paths := base_paths n; g_files := n_files n;
            g_blocks := defined_modes c (dedup (n_modes n)) |}
  else match aget pn (c_passes c) with
       | None => None
       | Some p =>
           let ms := defined_modes c (p_modes p) in
           Some {| g_pass := pn;
                   g_defs := n_defs n ++ p_defs p ++ concat (map m_defs ms);
                   g_paths := base_paths n ++ p_paths p ++ concat (map m_paths ms);
                   g_files := n_files n ++ p_files p ++ concat (map m_files ms);
                   g_blocks := [] |}
       end.
Proof.
  unfold config_of. destruct (String.eqb pn "default"); [reflexivity|].
  destruct (aget pn (c_passes c)) as [p|]; [|reflexivity].
  rewrite fold_upd. cbn. rewrite <- !app_assoc. reflexivity.
Qed.

Lemma config_of_pass c n pn g : config_of c n pn = Some g -> g_pass g = pn.
Proof.
  rewrite config_of_exact. destruct (String.eqb pn "default").
  - intros H. injection H as <-. reflexivity.
  - destruct (aget pn (c_passes c)); [|discriminate]. intros H. injection H as <-. reflexivity.
Qed.
Lemma config_of_known c n pn : (exists g, config_of c n pn = Some g) <-> pass_known c pn = true.
Proof.
  rewrite config_of_exact. unfold pass_known. destruct (String.eqb pn "default"); cbn.
  - split; eauto.
  - destruct (aget pn (c_passes c)); split; eauto; try discriminate. intros [g H]. discriminate.
Qed.

Lemma configs_passes c n :
  map g_pass (configs_of c n) = filter (pass_known c) (all_passes n).
Proof.
  unfold configs_of. induction (all_passes n) as [|pn l IH]; [reflexivity|].
  cbn. rewrite map_app, IH.
  destruct (config_of c n pn) as [g|] eqn:Hg.
  - assert (pass_known c pn = true) as -> by (apply (config_of_known c n pn); eauto).
    cbn. rewrite (config_of_pass _ _ _ _ Hg). reflexivity.
  - destruct (pass_known c pn) eqn:Hk; [|reflexivity].
    apply (config_of_known c n pn) in Hk. destruct Hk as [g Hg']. congruence.
Qed.

(* C12_passes_exact: one configuration for "default" and one for every selected pass
   the compiler defines; no pass twice *)
Theorem passes_exact c n :
  NoDup (map g_pass (configs_of c n)) /\
  (forall pn, In pn (map g_pass (configs_of c n)) <->
     pn = "default" \/ (In pn (selected n) /\ exists p, aget pn (c_passes c) = Some p)) /\
  (forall g, In g (configs_of c n) -> config_of c n (g_pass g) = Some g).
Proof.
  rewrite configs_passes. split; [|split].
  - apply NoDup_filter. apply dedup_NoDup.
  - intros pn. rewrite filter_In. unfold all_passes, pass_known. rewrite dedup_In.
    fold (selected n). rewrite app_assoc. fold (selected n). rewrite in_app_iff. cbn [In].
    destruct (String.eqb_spec pn "default") as [->|Hne]; cbn.
    + split; [auto|]. intros _. split; [right; left; reflexivity|reflexivity].
    + destruct (aget pn (c_passes c)) as [p|].
      * split.
        -- intros [[H|[H|[]]] _]; [right; eauto|]. symmetry in H. contradiction.
        -- intros [H|[H _]]; [contradiction|]. auto.
      * split.
        -- intros [_ H]. discriminate.
        -- intros [H|[_ [p H]]]; [contradiction|discriminate].
  - intros g Hg. unfold configs_of in Hg. apply in_flat_map in Hg. destruct Hg as [pn [_ Hg]].
    destruct (config_of c n pn) as [g'|] eqn:Hc; [|destruct Hg].
    destruct Hg as [<-|[]]. rewrite (config_of_pass _ _ _ _ Hc). exact Hc.
Qed.

(* C12_modes_exact: the default pass receives one block per distinct active mode that
   the compiler defines, and nothing else *)
Lemma defined_modes_In c ms md :
  In md (defined_modes c ms) <-> exists m, In m ms /\ aget m (c_modes c) = Some md.
Proof.
  unfold defined_modes. rewrite in_flat_map. split.
  - intros [m [Hm H]]. exists m. split; [exact Hm|]. destruct (aget m (c_modes c)) as [x|]; [|destruct H].
    destruct H as [<-|[]]. reflexivity.
  - intros [m [Hm H]]. exists m. split; [exact Hm|]. rewrite H. left. reflexivity.
Qed.
Lemma defined_modes_map c ms :
  map Some (defined_modes c ms) =
  map (fun m => aget m (c_modes c)) (filter (fun m => match aget m (c_modes c) with Some _ => true | None => false end) ms).
Proof.
  induction ms as [|m ms IH]; [reflexivity|]. unfold defined_modes in *. cbn.
  destruct (aget m (c_modes c)) as [md|] eqn:H; cbn; rewrite ?H, IH; reflexivity.
Qed.

Theorem modes_exact c n :
  exists g, config_of c n "default" = Some g /\
    g_defs g = n_defs n /\ g_paths g = base_paths n /\ g_files g = n_files n /\
    exists ms, NoDup ms /\
      (forall m, In m ms <-> In m (n_modes n) /\ exists md, aget m (c_modes c) = Some md) /\
      map Some (g_blocks g) = map (fun m => aget m (c_modes c)) ms.
Proof.
  rewrite config_of_exact. cbn. eexists. split; [reflexivity|]. cbn. repeat split.
  exists (filter (fun m => match aget m (c_modes c) with Some _ => true | None => false end) (dedup (n_modes n))).
  split; [apply NoDup_filter, dedup_NoDup|]. split; [|apply defined_modes_map].
  intros m. rewrite filter_In, dedup_In. destruct (aget m (c_modes c)) as [md|].
  - split; [intros [H _]; eauto|intros [H _]; auto].
  - split; [intros [_ H]; discriminate|intros [_ [md H]]; discriminate].
Qed.

(* ------------------------------------------------------------------ merge of the user configuration *)
Definition merged_def (old : option compiler) (d : udef) : compiler :=
  match old, d with
  | None, _ => from_toml d
  | Some _, UAlias _ => from_toml d
  | Some c, UComp o r m p =>
      {| c_alias := None;
         c_opts := c_opts c ++ odflt o;
         c_rules := c_rules c ++ odflt r;
         c_modes := fold_left (fun d m => aset (m_name m) m d) (odflt m) (c_modes c);
         c_passes := fold_left (fun d p => aset (p_name p) p d) (odflt p) (c_passes c) |}
  end.

Lemma merge_one_same t name d : aget name (merge_one t (name, d)) = Some (merged_def (aget name t) d).
Proof.
  unfold merge_one, merged_def. destruct (aget name t) as [c|]; [destruct d|]; apply aget_aset_same.
Qed.
Lemma merge_one_other t name nd : name <> fst nd -> aget name (merge_one t nd) = aget name t.
Proof.
  destruct nd as [k d]. cbn [fst]. intros Hne. unfold merge_one.
  destruct (aget k t) as [c|]; [destruct d|]; apply aget_aset_other; exact Hne.
Qed.
Lemma merge_fold_other name : forall user t, ~ In name (map fst user) ->
  aget name (fold_left merge_one user t) = aget name t.
Proof.
  induction user as [|nd user IH]; intros t Hn; [reflexivity|].
  cbn [fold_left]. rewrite IH.
  - apply merge_one_other. intros ->. apply Hn. left. reflexivity.
  - intros H. apply Hn. right. exact H.
Qed.
Lemma merge_fold_same name d : forall user t, NoDup (map fst user) -> In (name, d) user ->
  aget name (fold_left merge_one user t) = Some (merged_def (aget name t) d).
Proof.
  induction user as [|[k d'] user IH]; intros t Hnd Hin; [destruct Hin|].
  cbn [map fst] in Hnd. inversion Hnd as [|? ? Hk Hnd']; subst.
  cbn [fold_left]. destruct Hin as [Heq|Hin].
  - injection Heq as -> ->. rewrite merge_fold_other by exact Hk. apply merge_one_same.
  - rewrite (IH _ Hnd' Hin). rewrite merge_one_other; [reflexivity|].
    cbn [fst]. intros ->. apply Hk. apply in_map_iff. exists (k, d). split; [reflexivity|exact Hin].
Qed.

(* C12_user_extends *)
Theorem user_extends t user :
  NoDup (map fst user) ->
  (forallb (fun nd => udef_valid (snd nd)) user = false -> merge_user t user = t) /\
  (forallb (fun nd => udef_valid (snd nd)) user = true ->
     (forall name, ~ In name (map fst user) -> aget name (merge_user t user) = aget name t) /\
     (forall name d, In (name, d) user ->
        aget name (merge_user t user) = Some (merged_def (aget name t) d))).
Proof.
  intros Hnd. unfold merge_user. split; intros Hv; rewrite Hv; [reflexivity|]. split.
  - intros name Hn. apply merge_fold_other. exact Hn.
  - intros name d Hin. apply merge_fold_same; assumption.
Qed.
