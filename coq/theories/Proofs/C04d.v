(* C04 — the configured search list is the compiler's: -I directories, then -isystem directories. *)
From Coq Require Import Bool List String.
From CBI Require Import Lib.Res Model.C01 Model.C04 Model.C04d Gen.C04_tables.
Import ListNotations.
Local Open Scope string_scope.

(* with the generated constants of the CURRENT source *)
Lemma dir_order fl : configured_M fl = configured_S fl.
Proof. reflexivity. Qed.

(* the two designs that are NOT the compiler's order: one shared list in command-line order
   (the code before the repair), and -isystem before -I *)
Lemma cmdline_order_refuted :
  exists (fs : fsys) (fl : list dflag) (k : mkey),
    search fs (configured_with true PathsOnly fl) k <> search fs (configured_S fl) k.
Proof.
  exists [(["sys"; "h.h"], []); (["inc"; "h.h"], [])], [(true, ["sys"]); (false, ["inc"])], (["h.h"], ["src"], true).
  vm_compute. discriminate.
Qed.
Lemma system_first_refuted :
  exists (fs : fsys) (fl : list dflag) (k : mkey),
    search fs (configured_with false SystemThenPaths fl) k <> search fs (configured_S fl) k.
Proof.
  exists [(["sys"; "h.h"], []); (["inc"; "h.h"], [])], [(false, ["inc"]); (true, ["sys"])], (["h.h"], ["src"], true).
  vm_compute. discriminate.
Qed.
Lemma paths_only_drops_system_refuted :
  exists (fs : fsys) (fl : list dflag) (k : mkey),
    search fs (configured_with false PathsOnly fl) k <> search fs (configured_S fl) k.
Proof.
  exists [(["sys"; "h.h"], [])], [(true, ["sys"])], (["h.h"], ["src"], true).
  vm_compute. discriminate.
Qed.
