(* C06 - proofs about the setmap folds: get_setmap, summary, export. *)
From Coq Require Import ZArith String Bool Arith Lia Permutation Sorted List.
From CBI Require Import Lib.Data Lib.Res Model.C06 Spec.C06.
Import ListNotations.
Local Open Scope Z_scope.

(* ---------- keys ---------- *)
Lemma key_eqb_eq a b : key_eqb a b = true <-> a = b.
Proof.
  revert b. induction a as [|x a IH]; destruct b as [|y b]; cbn; try (split; congruence).
  rewrite andb_true_iff, String.eqb_eq, IH. split; [intros [-> ->]; reflexivity | intros H; inversion H; auto].
Qed.
Lemma key_eqb_refl a : key_eqb a a = true.
Proof. apply key_eqb_eq. reflexivity. Qed.
Lemma key_eqb_neq a b : key_eqb a b = false <-> a <> b.
Proof.
  split; intros H.
  - intros E. apply key_eqb_eq in E. congruence.
  - destruct (key_eqb a b) eqn:E; [apply key_eqb_eq in E; contradiction | reflexivity].
Qed.

(* ---------- sum_if over the dict operations ---------- *)
Lemma sum_if_nil P : sum_if P [] = 0.
Proof. reflexivity. Qed.
Lemma sum_if_cons P kv m : sum_if P (kv :: m) = (if P (fst kv) then snd kv + sum_if P m else sum_if P m).
Proof. reflexivity. Qed.
Lemma sum_if_app P a b : sum_if P (a ++ b) = sum_if P a + sum_if P b.
Proof. induction a as [|x a IH]; [rewrite sum_if_nil; cbn [app]; lia|]. rewrite <- app_comm_cons, !sum_if_cons, IH. destruct (P (fst x)); lia. Qed.

Lemma sum_if_add P k n m : sum_if P (sm_add k n m) = sum_if P m + (if P k then n else 0).
Proof.
  induction m as [|[k' v] m IH]; cbn [sm_add].
  - rewrite sum_if_cons, sum_if_nil. cbn [fst snd]. destruct (P k); lia.
  - destruct (key_eqb k' k) eqn:E; rewrite !sum_if_cons; cbn [fst snd].
    + apply key_eqb_eq in E. subst k'. destruct (P k); lia.
    + rewrite IH. destruct (P k'); lia.
Qed.

Lemma sum_if_add_nodes P ns : forall m, sum_if P (add_nodes m ns) = sum_if P m + nodes_sum P ns.
Proof.
  unfold add_nodes. induction ns as [|n ns IH]; intros m; cbn [fold_left nodes_sum fold_right]; [lia|].
  rewrite IH, sum_if_add. fold (nodes_sum P ns). destruct (P (nplat n)); lia.
Qed.

Lemma sum_if_file_setmap P f : sum_if P (file_setmap f) = nodes_sum P (fnodes f).
Proof. unfold file_setmap. rewrite sum_if_add_nodes, sum_if_nil. lia. Qed.

Lemma sum_if_merge P sm : forall m, sum_if P (sm_merge m sm) = sum_if P m + sum_if P sm.
Proof.
  unfold sm_merge. induction sm as [|[k v] sm IH]; intros m; cbn [fold_left]; [rewrite sum_if_nil; lia|].
  rewrite IH, sum_if_add, sum_if_cons. cbn [fst snd]. destruct (P k); lia.
Qed.

Lemma get_setmap_gen P files : forall m,
  sum_if P (fold_left (fun m f => if skipped f then m else add_nodes m (fnodes f)) files m)
  = sum_if P m + spec_sum P files.
Proof.
  induction files as [|f files IH]; intros m; cbn [fold_left spec_sum fold_right]; [lia|].
  rewrite IH. fold (spec_sum P files). unfold counted. destruct (skipped f); cbn [negb]; [lia|].
  rewrite sum_if_add_nodes. lia.
Qed.

(* every figure of the setmap is the corresponding sum over the nodes of the counted files *)
Theorem setmap_sums P files : sum_if P (get_setmap files) = spec_sum P files.
Proof. unfold get_setmap. rewrite get_setmap_gen, sum_if_nil. lia. Qed.

Theorem setmap_total files : sm_total (get_setmap files) = sloc files.
Proof. apply setmap_sums. Qed.
