(* C06 - proofs about the setmap folds: get_setmap, summary, export. *)
From Coq Require Import ZArith String Bool Arith Lia Permutation Sorted List.
From CBI Require Import Lib.Data Lib.Res Model.C06 Spec.C06.
Import ListNotations.
Local Open Scope Z_scope.

(* ---------- keys ---------- *)
Lemma key_eqb_eq a b : key_eqb a b = true <-> a = b.
Proof.
  revert b. induction a as [|x a IH]; destruct b as [|y b]; cbn; try (split; congruence).
  rewrite andb_true_iff, String.eqb_eq, IH. split; [intros [-> ->]; reflexivity | intros H; inversion H; auto].
Qed.
Lemma key_eqb_refl a : key_eqb a a = true.
Proof. apply key_eqb_eq. reflexivity. Qed.
Lemma key_eqb_neq a b : key_eqb a b = false <-> a <> b.
Proof.
  split; intros H.
  - intros E. apply key_eqb_eq in E. congruence.
  - destruct (key_eqb a b) eqn:E; [apply key_eqb_eq in E; contradiction | reflexivity].
Qed.

(* ---------- sum_if over the dict operations ---------- *)
Lemma sum_if_nil P : sum_if P [] = 0.
Proof. reflexivity. Qed.
Lemma sum_if_cons P kv m : sum_if P (kv :: m) = (if P (fst kv) then snd kv + sum_if P m else sum_if P m).
Proof. reflexivity. Qed.
Lemma sum_if_app P a b : sum_if P (a ++ b) = sum_if P a + sum_if P b.
Proof. induction a as [|x a IH]; [rewrite sum_if_nil; cbn [app]; lia|]. rewrite <- app_comm_cons, !sum_if_cons, IH. destruct (P (fst x)); lia. Qed.

Lemma sum_if_add P k n m : sum_if P (sm_add k n m) = sum_if P m + (if P k then n else 0).
Proof.
  induction m as [|[k' v] m IH]; cbn [sm_add].
  - rewrite sum_if_cons, sum_if_nil. cbn [fst snd]. destruct (P k); lia.
  - destruct (key_eqb k' k) eqn:E; rewrite !sum_if_cons; cbn [fst snd].
    + apply key_eqb_eq in E. subst k'. destruct (P k); lia.
    + rewrite IH. destruct (P k'); lia.
Qed.

Lemma sum_if_add_nodes P ns : forall m, sum_if P (add_nodes m ns) = sum_if P m + nodes_sum P ns.
Proof.
  unfold add_nodes. induction ns as [|n ns IH]; intros m; cbn [fold_left nodes_sum fold_right]; [lia|].
  rewrite IH, sum_if_add. fold (nodes_sum P ns). destruct (P (nplat n)); lia.
Qed.

Lemma sum_if_file_setmap P f : sum_if P (file_setmap f) = nodes_sum P (fnodes f).
Proof. unfold file_setmap. rewrite sum_if_add_nodes, sum_if_nil. lia. Qed.

Lemma sum_if_merge P sm : forall m, sum_if P (sm_merge m sm) = sum_if P m + sum_if P sm.
Proof.
  unfold sm_merge. induction sm as [|[k v] sm IH]; intros m; cbn [fold_left]; [rewrite sum_if_nil; lia|].
  rewrite IH, sum_if_add, sum_if_cons. cbn [fst snd]. destruct (P k); lia.
Qed.

Lemma get_setmap_gen P files : forall m,
  sum_if P (fold_left (fun m f => if skipped f then m else add_nodes m (fnodes f)) files m)
  = sum_if P m + spec_sum P files.
Proof.
  induction files as [|f files IH]; intros m; cbn [fold_left spec_sum fold_right]; [lia|].
  rewrite IH. fold (spec_sum P files). unfold counted. destruct (skipped f); cbn [negb]; [lia|].
  rewrite sum_if_add_nodes. lia.
Qed.

(* every figure of the setmap is the corresponding sum over the nodes of the counted files *)
Theorem setmap_sums P files : sum_if P (get_setmap files) = spec_sum P files.
Proof. unfold get_setmap. rewrite get_setmap_gen, sum_if_nil. lia. Qed.

Theorem setmap_total files : sm_total (get_setmap files) = sloc files.
Proof. apply setmap_sums. Qed.

(* ---------- the keys of a setmap: first-occurrence order, no duplicates ---------- *)
Lemma keys_sm_add k n m : map fst (sm_add k n m) = add_key k (map fst m).
Proof.
  induction m as [|[k' v] m IH]; cbn [sm_add map fst add_key]; [reflexivity|].
  destruct (key_eqb k' k); cbn [map fst]; [reflexivity | rewrite IH; reflexivity].
Qed.

Lemma add_key_In k ks x : In x (add_key k ks) <-> x = k \/ In x ks.
Proof.
  induction ks as [|y ks IH]; cbn [add_key].
  - cbn. intuition.
  - destruct (key_eqb y k) eqn:E.
    + apply key_eqb_eq in E. subst y. cbn. intuition.
    + cbn [In]. rewrite IH. intuition.
Qed.

Lemma add_key_NoDup k ks : NoDup ks -> NoDup (add_key k ks).
Proof.
  induction ks as [|y ks IH]; intros H; cbn [add_key].
  - constructor; [intros []|constructor].
  - destruct (key_eqb y k) eqn:E; [assumption|].
    inversion H as [|? ? Hy Hks]; subst. constructor; [|apply IH; assumption].
    rewrite add_key_In. intros [->|Hin]; [|contradiction].
    rewrite key_eqb_refl in E. discriminate.
Qed.

Definition add_node_keys (ks : list pset) (ns : list node) : list pset :=
  fold_left (fun ks n => add_key (nplat n) ks) ns ks.

Lemma add_node_keys_NoDup ns : forall ks, NoDup ks -> NoDup (add_node_keys ks ns).
Proof. unfold add_node_keys. induction ns as [|n ns IH]; intros ks H; cbn [fold_left]; [assumption|]. apply IH, add_key_NoDup, H. Qed.

Lemma add_node_keys_In ns : forall ks x, In x (add_node_keys ks ns) <-> In x ks \/ In x (map nplat ns).
Proof.
  unfold add_node_keys. induction ns as [|n ns IH]; intros ks x; cbn [fold_left map In]; [intuition|].
  rewrite IH, add_key_In. intuition.
Qed.

Lemma keys_add_nodes ns : forall m, map fst (add_nodes m ns) = add_node_keys (map fst m) ns.
Proof.
  unfold add_nodes, add_node_keys. induction ns as [|n ns IH]; intros m; cbn [fold_left]; [reflexivity|].
  rewrite IH, keys_sm_add. reflexivity.
Qed.

Lemma keys_get_setmap_gen files : forall m,
  map fst (fold_left (fun m f => if skipped f then m else add_nodes m (fnodes f)) files m)
  = fold_left (fun ks f => if counted f then fold_left (fun ks n => add_key (nplat n) ks) (fnodes f) ks else ks) files (map fst m).
Proof.
  induction files as [|f files IH]; intros m; cbn [fold_left]; [reflexivity|].
  rewrite IH. unfold counted. destruct (skipped f); cbn [negb]; [reflexivity|].
  rewrite keys_add_nodes. reflexivity.
Qed.

Lemma keys_get_setmap files : map fst (get_setmap files) = spec_keys files.
Proof. unfold get_setmap, spec_keys. rewrite keys_get_setmap_gen. reflexivity. Qed.

Lemma spec_keys_NoDup_gen files : forall ks, NoDup ks ->
  NoDup (fold_left (fun ks f => if counted f then fold_left (fun ks n => add_key (nplat n) ks) (fnodes f) ks else ks) files ks).
Proof.
  induction files as [|f files IH]; intros ks H; cbn [fold_left]; [assumption|].
  apply IH. destruct (counted f); [apply add_node_keys_NoDup|]; assumption.
Qed.
Lemma spec_keys_NoDup files : NoDup (spec_keys files).
Proof. apply spec_keys_NoDup_gen. constructor. Qed.

Lemma spec_keys_In_gen files : forall ks k,
  In k (fold_left (fun ks f => if counted f then fold_left (fun ks n => add_key (nplat n) ks) (fnodes f) ks else ks) files ks)
  <-> In k ks \/ exists f n, In f files /\ counted f = true /\ In n (fnodes f) /\ nplat n = k.
Proof.
  induction files as [|f files IH]; intros ks k; cbn [fold_left].
  - split; [auto|]. intros [H|(f & n & [] & _)]. exact H.
  - rewrite IH. destruct (counted f) eqn:C.
    + fold (add_node_keys ks (fnodes f)). rewrite add_node_keys_In, in_map_iff. split.
      * intros [[H|(n & Hn & Hin)]|(f' & n & Hf & Hc & Hn & Hk)]; [left; exact H | right; exists f, n; cbn; auto | right; exists f', n; cbn; auto].
      * intros [H|(f' & n & [<-|Hf] & Hc & Hn & Hk)]; [auto | left; right; exists n; auto | right; exists f', n; auto].
    + split.
      * intros [H|(f' & n & Hf & Hc & Hn & Hk)]; [auto | right; exists f', n; cbn; auto].
      * intros [H|(f' & n & [<-|Hf] & Hc & Hn & Hk)]; [auto | congruence | right; exists f', n; auto].
Qed.
(* a platform set is a key iff it is the set of some node of some counted file *)
Lemma spec_keys_In files k :
  In k (spec_keys files) <-> exists f n, In f files /\ counted f = true /\ In n (fnodes f) /\ nplat n = k.
Proof. unfold spec_keys. rewrite spec_keys_In_gen. cbn [In]. intuition. Qed.

(* ---------- a dict without duplicate keys is determined by its keys and its figures ---------- *)
Lemma sum_if_key_notin k m : ~ In k (map fst m) -> sum_if (key_eqb k) m = 0.
Proof.
  induction m as [|[k' v] m IH]; intros H; [reflexivity|]. rewrite sum_if_cons. cbn [fst snd map In] in *.
  destruct (key_eqb k k') eqn:E; [apply key_eqb_eq in E; subst; exfalso; auto|]. apply IH. auto.
Qed.

Lemma canon m : NoDup (map fst m) -> m = map (fun k => (k, sum_if (key_eqb k) m)) (map fst m).
Proof.
  induction m as [|[k v] m IH]; intros H; [reflexivity|]. cbn [map fst] in *.
  inversion H as [|? ? Hk Hm]; subst. f_equal.
  - rewrite sum_if_cons. cbn [fst snd]. rewrite key_eqb_refl, sum_if_key_notin by assumption. f_equal. lia.
  - rewrite (IH Hm) at 1. apply map_ext_in. intros k0 Hk0. rewrite sum_if_cons. cbn [fst snd].
    destruct (key_eqb k0 k) eqn:E; [apply key_eqb_eq in E; subst; contradiction | reflexivity].
Qed.

(* get_setmap IS the table of buckets: same keys in the same (first occurrence) order, each with its sum *)
Theorem get_setmap_exact files : get_setmap files = spec_buckets files.
Proof.
  rewrite (canon (get_setmap files)) by (rewrite keys_get_setmap; apply spec_keys_NoDup).
  rewrite keys_get_setmap. unfold spec_buckets. apply map_ext. intros k. rewrite setmap_sums. reflexivity.
Qed.

(* ---------- summary ---------- *)
Lemma ins_len_perm e l : Permutation (ins_len e l) (e :: l).
Proof.
  induction l as [|x l IH]; cbn [ins_len]; [reflexivity|].
  destruct (key_ltb x e); [|reflexivity]. rewrite IH. apply perm_swap.
Qed.
Lemma sort_len_perm m : Permutation (sort_len m) m.
Proof. unfold sort_len. induction m as [|e m IH]; cbn [fold_right]; [reflexivity|]. rewrite ins_len_perm. constructor. exact IH. Qed.

Definition len_le (a b : pset * Z) : Prop := (klen a <= klen b)%nat.
Lemma key_ltb_true x e : key_ltb x e = true -> (klen x <= klen e)%nat.
Proof.
  unfold key_ltb. intros H. apply orb_true_iff in H. destruct H as [H|H].
  - apply Nat.ltb_lt in H. lia.
  - apply andb_true_iff in H. destruct H as [H _]. apply Nat.eqb_eq in H. lia.
Qed.
Lemma key_ltb_false x e : key_ltb x e = false -> (klen e <= klen x)%nat.
Proof. unfold key_ltb. intros H. apply orb_false_iff in H. destruct H as [H _]. apply Nat.ltb_ge in H. exact H. Qed.
Lemma ins_len_sorted e l : StronglySorted len_le l -> StronglySorted len_le (ins_len e l).
Proof.
  induction l as [|x l IH]; intros H; cbn [ins_len]; [repeat constructor|].
  inversion H as [|? ? Hl Hx]; subst.
  destruct (key_ltb x e) eqn:E.
  - constructor; [apply IH; assumption|]. apply key_ltb_true in E.
    eapply Permutation_Forall; [symmetry; apply ins_len_perm|]. constructor; [exact E | assumption].
  - apply key_ltb_false in E. constructor; [assumption|]. constructor; [exact E|].
    eapply Forall_impl; [|exact Hx]. unfold len_le. intros a Ha. lia.
Qed.
Lemma sort_len_sorted m : StronglySorted len_le (sort_len m).
Proof. unfold sort_len. induction m as [|e m IH]; cbn [fold_right]; [constructor | apply ins_len_sorted, IH]. Qed.

Lemma sum_if_perm P a b : Permutation a b -> sum_if P a = sum_if P b.
Proof.
  induction 1 as [|x a b _ IH|x y a|a b c _ IH1 _ IH2]; [reflexivity| | |congruence].
  - rewrite !sum_if_cons, IH. reflexivity.
  - rewrite !sum_if_cons. destruct (P (fst x)), (P (fst y)); lia.
Qed.

Lemma fold_count rows : forall a, fold_left (fun a r => a + scount r) rows a = a + fold_right (fun r b => scount r + b) 0 rows.
Proof. induction rows as [|r rows IH]; intros a; cbn [fold_left fold_right]; [lia|]. rewrite IH. lia. Qed.

Definition row_of (total : Z) (e : pset * Z) : srow := {| skey := fst e; scount := snd e; stotal := total |}.

Lemma rows_count t l : fold_right (fun r b => scount r + b) 0 (map (row_of t) l) = sum_if (fun _ => true) l.
Proof. induction l as [|x l IH]; cbn [map fold_right]; [reflexivity|]. rewrite sum_if_cons, IH. cbn [scount row_of]. lia. Qed.

Lemma summary_eq m : summary m = Ok (map (row_of (sm_total m)) (sort_len m), sm_total m).
Proof.
  unfold summary. f_equal. f_equal.
  match goal with |- fold_left _ (map ?f _) 0 = _ => change f with (row_of (sm_total m)) end.
  rewrite fold_count, rows_count. rewrite (sum_if_perm _ _ _ (sort_len_perm m)). unfold sm_total. lia.
Qed.
Lemma summary_ok m rows total : summary m = Ok (rows, total) ->
  rows = map (row_of (sm_total m)) (sort_len m) /\ total = sm_total m.
Proof. rewrite summary_eq. intros H. inversion H; subst. split; reflexivity. Qed.

Theorem summary_rows files rows total :
  summary (get_setmap files) = Ok (rows, total) ->
  total = sloc files /\
  Permutation (map (fun r => (skey r, scount r)) rows) (spec_buckets files) /\
  Forall (fun r => scount r = bucket (skey r) files /\ stotal r = sloc files) rows /\
  NoDup (map skey rows) /\
  StronglySorted (fun a b => (List.length (skey a) <= List.length (skey b))%nat) rows.
Proof.
  intros H. apply summary_ok in H. destruct H as [-> ->]. rewrite setmap_total.
  assert (Hp : Permutation (map (fun r => (skey r, scount r)) (map (row_of (sloc files)) (sort_len (get_setmap files)))) (spec_buckets files)).
  { rewrite map_map. cbn [row_of skey scount]. rewrite (map_ext _ (fun e => e)) by (intros [? ?]; reflexivity).
    rewrite map_id, <- get_setmap_exact. apply sort_len_perm. }
  split; [reflexivity|]. split; [exact Hp|]. split; [|split].
  - apply Forall_forall. intros r Hr. apply in_map_iff in Hr. destruct Hr as ([k v] & <- & Hin). cbn [row_of skey scount stotal fst snd].
    split; [|reflexivity].
    apply (Permutation_in _ (sort_len_perm _)) in Hin. rewrite get_setmap_exact in Hin. unfold spec_buckets in Hin.
    apply in_map_iff in Hin. destruct Hin as (k' & E & _). inversion E; subst. reflexivity.
  - apply (Permutation_map fst) in Hp. rewrite map_map in Hp. cbn [fst] in Hp.
    eapply Permutation_NoDup; [symmetry; exact Hp|]. unfold spec_buckets. rewrite map_map. cbn [fst]. rewrite map_id. apply spec_keys_NoDup.
  - generalize (sort_len_sorted (get_setmap files)). generalize (sort_len (get_setmap files)) as l.
    induction l as [|x l IH]; intros Hs; cbn [map]; [constructor|]. inversion Hs as [|? ? Hl Hx]; subst.
    constructor; [apply IH; assumption|]. apply Forall_map. eapply Forall_impl; [|exact Hx]. intros a Ha. exact Ha.
Qed.

(* summary never fails (a zero total gives NaN percentages, not ZeroDivisionError) *)
Lemma summary_never_fails files : exists rows, summary (get_setmap files) = Ok (rows, sloc files).
Proof. rewrite summary_eq, setmap_total. eexists. reflexivity. Qed.

(* ---------- line level: partition into buckets, export ---------- *)
Lemma NoDup_app_inv {A} (a b : list A) : NoDup (a ++ b) -> NoDup a /\ NoDup b /\ forall x, In x a -> ~ In x b.
Proof.
  induction a as [|y a IH]; cbn [app]; intros H.
  - split; [constructor|]. split; [exact H|]. intros x [].
  - inversion H as [|? ? Hy Hab]; subst. destruct (IH Hab) as (Ha & Hb & Hd).
    split; [constructor; [intros Hin; apply Hy, in_or_app; auto | exact Ha]|]. split; [exact Hb|].
    intros x [<-|Hx]; [intros Hin; apply Hy, in_or_app; auto | apply Hd, Hx].
Qed.

(* in a duplicate-free concatenation an element determines the block it comes from *)
Lemma flat_map_owner {A B} (g : A -> list B) (l : list A) (a b : A) (x : B) :
  NoDup (flat_map g l) -> In a l -> In b l -> In x (g a) -> In x (g b) -> a = b.
Proof.
  induction l as [|c l IH]; cbn [flat_map]; intros H Ha Hb Hxa Hxb; [destruct Ha|].
  destruct (NoDup_app_inv _ _ H) as (_ & Hl & Hd).
  destruct Ha as [<-|Ha], Hb as [<-|Hb]; [reflexivity | | |apply IH; assumption].
  - exfalso. apply (Hd x Hxa). apply in_flat_map. exists b. auto.
  - exfalso. apply (Hd x Hxb). apply in_flat_map. exists a. auto.
Qed.

Lemma nodes_sum_length P ns : Forall node_ok ns ->
  nodes_sum P ns = Z.of_nat (List.length (flat_map nlines (filter (fun n => P (nplat n)) ns))).
Proof.
  induction 1 as [|n ns Hn _ IH]; [reflexivity|]. cbn [nodes_sum fold_right filter]. fold (nodes_sum P ns).
  destruct (P (nplat n)); [|exact IH]. cbn [flat_map]. rewrite app_length, Nat2Z.inj_add, <- IH, Hn. reflexivity.
Qed.

Lemma lines_with_In P f l : In l (lines_with P f) <-> exists n, In n (fnodes f) /\ P (nplat n) = true /\ In l (nlines n).
Proof.
  unfold lines_with. rewrite in_flat_map. split.
  - intros (n & Hn & Hl). apply filter_In in Hn. exists n. tauto.
  - intros (n & Hn & HP & Hl). exists n. rewrite filter_In. tauto.
Qed.

(* number of lines of the counted files that lie in bucket P *)
Definition line_count (P : pset -> bool) (files : list file) : Z :=
  fold_right (fun f a => if counted f then Z.of_nat (List.length (lines_with P f)) + a else a) 0 files.

Lemma spec_sum_lines P files : Forall file_ok files -> spec_sum P files = line_count P files.
Proof.
  induction 1 as [|f files Hf _ IH]; [reflexivity|]. cbn [spec_sum line_count fold_right].
  fold (spec_sum P files). fold (line_count P files). rewrite IH.
  destruct (counted f); [|reflexivity]. destruct Hf as [Hn _]. rewrite (nodes_sum_length P _ Hn). reflexivity.
Qed.

Theorem partition files : Forall file_ok files ->
  (forall P, sum_if P (get_setmap files) = line_count P files) /\
  (forall f, In f files -> forall l, In l (all_lines f) ->
     exists k, In l (lines_with (key_eqb k) f) /\ forall k', In l (lines_with (key_eqb k') f) -> k' = k).
Proof.
  intros H. split.
  - intros P. rewrite setmap_sums. apply spec_sum_lines, H.
  - intros f Hf l Hl. rewrite Forall_forall in H. destruct (H f Hf) as [_ Hnd].
    unfold all_lines in Hl. apply in_flat_map in Hl. destruct Hl as (n & Hn & Hl).
    exists (nplat n). split.
    + apply lines_with_In. exists n. rewrite key_eqb_refl. auto.
    + intros k' Hk'. apply lines_with_In in Hk'. destruct Hk' as (n' & Hn' & Hk & Hl').
      apply key_eqb_eq in Hk. subst k'. f_equal.
      exact (flat_map_owner nlines (fnodes f) n' n l Hnd Hn' Hn Hl' Hl).
Qed.

Lemma filter_const {A} (g : A -> bool) (b : bool) (l : list A) :
  (forall x, In x l -> g x = b) -> filter g l = if b then l else [].
Proof.
  induction l as [|x l IH]; intros H; cbn [filter]; [destruct b; reflexivity|].
  rewrite (H x (or_introl eq_refl)), IH by (intros y Hy; apply H; right; exact Hy). destruct b; reflexivity.
Qed.

Lemma filter_flat_map (g : Z -> bool) (h : node -> bool) (ns : list node) :
  (forall n, In n ns -> forall l, In l (nlines n) -> g l = h n) ->
  filter g (flat_map nlines ns) = flat_map nlines (filter h ns).
Proof.
  induction ns as [|n ns IH]; intros H; [reflexivity|]. cbn [flat_map filter].
  rewrite filter_app, IH by (intros n' Hn'; apply H; right; exact Hn').
  rewrite (filter_const g (h n)) by (apply H; left; reflexivity).
  destruct (h n); reflexivity.
Qed.

Lemma line_used_owner f n l : NoDup (all_lines f) -> In n (fnodes f) -> In l (nlines n) ->
  line_used f l = negb (is_empty (nplat n)).
Proof.
  intros Hnd Hn Hl. unfold line_used. destruct (negb (is_empty (nplat n))) eqn:E.
  - apply existsb_exists. exists n. split; [exact Hn|]. rewrite E, andb_true_r.
    apply existsb_exists. exists l. split; [exact Hl | apply Z.eqb_refl].
  - destruct (existsb _ (fnodes f)) eqn:X; [|reflexivity]. apply existsb_exists in X.
    destruct X as (n' & Hn' & X). apply andb_true_iff in X. destruct X as [X1 X2].
    apply existsb_exists in X1. destruct X1 as (l' & Hl' & El). apply Z.eqb_eq in El. subst l'.
    rewrite (flat_map_owner nlines (fnodes f) n' n l Hnd Hn' Hn Hl' Hl) in X2. congruence.
Qed.

Lemma filter_split_perm {A} (g : A -> bool) (l : list A) : Permutation (filter g l ++ filter (fun x => negb (g x)) l) l.
Proof.
  induction l as [|x l IH]; [reflexivity|]. cbn [filter]. destruct (g x); cbn [negb app].
  - constructor. exact IH.
  - rewrite <- Permutation_middle. constructor. exact IH.
Qed.

Theorem export_file_partition f : NoDup (all_lines f) ->
  let e := export_file f in
  epath e = fpath f /\ eid e = fid f /\
  eused e = spec_used f /\ eunused e = spec_unused f /\
  Permutation (eused e ++ eunused e) (all_lines f) /\
  NoDup (eused e ++ eunused e) /\
  (forall l, In l (eused e) <-> In l (all_lines f) /\ line_used f l = true) /\
  (forall l, In l (eunused e) <-> In l (all_lines f) /\ line_used f l = false).
Proof.
  intros Hnd e.
  assert (Hu : eused e = spec_used f).
  { unfold e, export_file, spec_used, all_lines. cbn [eused]. symmetry. apply filter_flat_map.
    intros n Hn l Hl. apply line_used_owner; assumption. }
  assert (Hun : eunused e = spec_unused f).
  { unfold e, export_file, spec_unused, all_lines. cbn [eunused]. symmetry. apply filter_flat_map.
    intros n Hn l Hl. rewrite (line_used_owner f n l Hnd Hn Hl). apply negb_involutive. }
  assert (Hp : Permutation (eused e ++ eunused e) (all_lines f)).
  { rewrite Hu, Hun. apply filter_split_perm. }
  split; [reflexivity|]. split; [reflexivity|]. split; [exact Hu|]. split; [exact Hun|]. split; [exact Hp|].
  split; [eapply Permutation_NoDup; [symmetry; exact Hp | exact Hnd]|].
  split; intros l.
  - rewrite Hu. unfold spec_used. apply filter_In.
  - rewrite Hun. unfold spec_unused. rewrite filter_In, negb_true_iff. reflexivity.
Qed.

(* the export's line counts are the figures of the file's setmap (what the tree shows for the file) *)
Lemma export_counts f : Forall node_ok (fnodes f) ->
  Z.of_nat (List.length (eused (export_file f))) = sum_if (fun k => negb (is_empty k)) (file_setmap f) /\
  Z.of_nat (List.length (eunused (export_file f))) = sum_if is_empty (file_setmap f).
Proof.
  intros H. rewrite !sum_if_file_setmap. cbn [export_file eused eunused].
  rewrite (nodes_sum_length (fun k => negb (is_empty k)) _ H), (nodes_sum_length is_empty _ H). split; reflexivity.
Qed.

Theorem export_partition files : Forall file_ok files ->
  map epath (export files) = map fpath files /\ map eid (export files) = map fid files /\
  Forall2 (fun f e =>
     eused e = spec_used f /\ eunused e = spec_unused f /\
     Permutation (eused e ++ eunused e) (all_lines f) /\ NoDup (eused e ++ eunused e) /\
     (forall l, In l (eused e) <-> In l (all_lines f) /\ line_used f l = true) /\
     (forall l, In l (eunused e) <-> In l (all_lines f) /\ line_used f l = false) /\
     Z.of_nat (List.length (eused e)) = sum_if (fun k => negb (is_empty k)) (file_setmap f) /\
     Z.of_nat (List.length (eunused e)) = sum_if is_empty (file_setmap f)) files (export files).
Proof.
  unfold export. intros H. split; [rewrite map_map; reflexivity|]. split; [rewrite map_map; reflexivity|].
  induction H as [|f files [Hn Hnd] _ IH]; cbn [map]; constructor; [|exact IH].
  destruct (export_file_partition f Hnd) as (_ & _ & A & B & C & D & E & F).
  destruct (export_counts f Hn) as [G1 G2].
  split; [exact A|]. split; [exact B|]. split; [exact C|]. split; [exact D|]. split; [exact E|]. split; [exact F|]. split; [exact G1 | exact G2].
Qed.
