(* C03_objlike: joining the implementation side (Proofs/C03o.v) and the
   specification side (Proofs/C03s.v), and tying the table to the way
   `#define NAME body` builds it. *)
From Coq Require Import ZArith String Ascii Bool List Lia Arith.
From CBI Require Import Lib.Data Lib.Res Model.C03tok Model.C03 Model.C03run Spec.C03.
From CBI Require Import Proofs.C03o Proofs.C03s Proofs.C03d.
Import ListNotations.
Local Open Scope string_scope.
Local Open Scope list_scope.

(* object-like definitions: name and replacement list as the lexer produced it *)
Definition odefs := list (string * list tok).

(* admissible token of the fragment: lexer-made, not ##, not `defined`, not __VA_ARGS__ *)
Definition okd (t : tok) : bool :=
  tx t && okb (btok_of t) && negb (is_id t && String.eqb (tt t) "__VA_ARGS__").

Definition wf_defs (ds : odefs) : bool :=
  nodup_str (map fst ds) &&
  forallb (fun d => negb (String.eqb (fst d) "defined") && forallb okd (snd d)) ds.

Definition omacro (name : string) (body : list tok) : macro :=
  mkMacro name false [] false false [] (set_w_hd false body).
Definition mtable (ds : odefs) : table := map (fun d => (fst d, omacro (fst d) (snd d))) ds.
Definition stable_of_defs (ds : odefs) : stable := map (fun d => (fst d, SObj (map btok_of (snd d)))) ds.

Fixpoint dlookup (ds : odefs) (k : string) : option (list tok) :=
  match ds with [] => None | (n, b) :: r => if String.eqb n k then Some b else dlookup r k end.

Lemma get_mtable ds k : get_macro (mtable ds) k = option_map (omacro k) (dlookup ds k).
Proof.
  induction ds as [|[n b] r IH]; cbn; [reflexivity|].
  destruct (String.eqb n k) eqn:E; [|exact IH]. apply String.eqb_eq in E. now subst.
Qed.
Lemma slookup_defs ds k : slookup (stable_of_defs ds) k = option_map (fun b => SObj (map btok_of b)) (dlookup ds k).
Proof.
  induction ds as [|[n b] r IH]; cbn; [reflexivity|].
  destruct (String.eqb n k); [reflexivity|exact IH].
Qed.

Lemma okd_okt t : okd t = true -> okt t = true.
Proof.
  unfold okd, okt, okb. rewrite !andb_true_iff. intros [[Hx [_ H]] _]. split; [assumption|exact H].
Qed.
Lemma okd_okb t : okd t = true -> okb (btok_of t) = true.
Proof. unfold okd. rewrite !andb_true_iff. tauto. Qed.
Lemma forallb_impl {A} (f g : A -> bool) l : (forall x, f x = true -> g x = true) -> forallb f l = true -> forallb g l = true.
Proof. intros H. rewrite !forallb_forall. auto. Qed.

Lemma dlookup_ok ds k b :
  forallb (fun d => negb (String.eqb (fst d) "defined") && forallb okd (snd d)) ds = true ->
  dlookup ds k = Some b -> forallb okd b = true.
Proof.
  induction ds as [|[n b'] r IH]; cbn; [discriminate|].
  rewrite !andb_true_iff. intros [[_ Hb] Hr]. destruct (String.eqb n k); [|now apply IH].
  intros H. injection H as <-. exact Hb.
Qed.

(* ---------- `#define NAME body` builds omacro ---------- *)
Lemma preproc_plain rest : forall fuel acc cat,
  List.length rest < fuel -> (forall t, In t rest -> is_txt "##" t = false) ->
  preproc fuel false [] rest acc cat = Ok (acc ++ rest, cat).
Proof.
  induction rest as [|t r IH]; intros fuel acc cat Hf Hc; (destruct fuel as [|f]; [cbn in Hf; lia|]); cbn [preproc].
  - now rewrite app_nil_r.
  - rewrite (Hc t (or_introl eq_refl)).
    assert (Hr : forall x, In x r -> is_txt "##" x = false) by (intros x Hx; apply Hc; now right).
    assert (Hf' : List.length r < f) by (cbn in Hf; lia).
    destruct (is_txt "#" t); rewrite IH by assumption; now rewrite <- app_assoc.
Qed.

Lemma needs_scan_objlike l : forall prev, needs_scan false [] prev l [] = [].
Proof.
  induction l as [|t r IH]; intros prev; cbn [needs_scan]; [reflexivity|].
  destruct (is_id t); cbn [which_arg]; apply IH.
Qed.

Lemma last_tok_In l x : last_tok l = Some x -> In x l.
Proof.
  unfold last_tok. destruct (rev l) as [|y r] eqn:E; [discriminate|]. intros H. injection H as <-.
  apply in_rev. rewrite E. now left.
Qed.

Lemma okd_not_cat t : okd t = true -> is_txt "##" t = false.
Proof.
  unfold okd, okb, is_txt. rewrite !andb_true_iff, !negb_true_iff. cbn [btok_of bt]. tauto.
Qed.

Lemma macro_init_objlike n b : forallb okd b = true -> macro_init n false [] false b = Ok (omacro n b).
Proof.
  intros H. destruct b as [|t0 r0]; [reflexivity|]. unfold macro_init.
  assert (Hc : forall x, In x (t0 :: r0) -> is_txt "##" x = false).
  { intros x Hx. apply okd_not_cat. rewrite forallb_forall in H. now apply H. }
  rewrite (Hc t0 (or_introl eq_refl)).
  destruct (last_tok (t0 :: r0)) as [tl|] eqn:El.
  2:{ unfold last_tok in El. cbn [rev] in El. destruct (rev r0); discriminate. }
  rewrite (Hc tl (last_tok_In _ _ El)).
  rewrite preproc_plain.
  - cbn [map app]. now rewrite needs_scan_objlike.
  - cbn. lia.
  - intros x [<-|Hx]; [exact (Hc t0 (or_introl eq_refl))|apply Hc; now right].
Qed.

Definition define_line (d : string * list tok) : via * list tok :=
  (ViaDefine, head true (fst d) None ++ set_w_hd true (snd d)).

Lemma define_line_macro n b : forallb okd b = true ->
  macro_from_define (head true n None ++ set_w_hd true b) = Ok (omacro n b).
Proof.
  intros H. unfold macro_from_define.
  rewrite (macro_definition_head true n None (set_w_hd true b) I).
  2:{ destruct b; cbn; [exact I|]. now rewrite andb_false_r. }
  cbn [args_of]. unfold make_macro. cbn [idt tt]. rewrite macro_init_white. now apply macro_init_objlike.
Qed.

Lemma dlookup_fresh pre n rest :
  nodup_str (map fst pre ++ n :: rest) = true -> dlookup pre n = None.
Proof.
  induction pre as [|[a b] r IH]; cbn; [reflexivity|].
  rewrite andb_true_iff, negb_true_iff. intros [Ha Hr].
  destruct (String.eqb a n) eqn:E; [|now apply IH].
  apply String.eqb_eq in E. subst a. exfalso.
  assert (Hin : mem n (map fst r ++ n :: rest) = true).
  { apply mem_spec. apply in_or_app. right. now left. }
  congruence.
Qed.

Lemma build_objlike_acc ds0 : forall i pre,
  nodup_str (map fst (pre ++ ds0)) = true ->
  forallb (fun d => forallb okd (snd d)) ds0 = true ->
  build_table i (map define_line ds0) (mtable pre) = inl (mtable (pre ++ ds0)).
Proof.
  induction ds0 as [|[n b] r IH]; intros i pre Hnd Hb; cbn [map build_table].
  - now rewrite app_nil_r.
  - cbn [forallb snd] in Hb. apply andb_true_iff in Hb. destruct Hb as [Hb Hr].
    unfold define_line at 1. cbn [fst snd macro_of]. rewrite (define_line_macro n b Hb).
    unfold define. cbn [omacro m_name]. rewrite get_mtable.
    rewrite (dlookup_fresh pre n (map fst r)).
    2:{ rewrite map_app in Hnd. exact Hnd. }
    cbn [option_map].
    replace (mtable pre ++ [(n, omacro n b)]) with (mtable (pre ++ [(n, b)])).
    2:{ unfold mtable. now rewrite map_app. }
    rewrite IH; [now rewrite <- app_assoc| |assumption]. now rewrite <- app_assoc.
Qed.

Section Join.
Variable ds : odefs.
Hypothesis Hwf : wf_defs ds = true.

Lemma Hbodies : forallb (fun d => negb (String.eqb (fst d) "defined") && forallb okd (snd d)) ds = true.
Proof. unfold wf_defs in Hwf. apply andb_true_iff in Hwf. tauto. Qed.

(* no function-like macro in an object-like table *)
Lemma is_fl_mtable t : is_fl (mtable ds) t = false.
Proof.
  unfold is_fl. rewrite get_mtable. destruct (dlookup ds (tt t)); cbn; now rewrite andb_false_r.
Qed.
Lemma okt_okt2 t : okt t = true -> okt2 (mtable ds) t = true.
Proof. intros H. unfold okt2. now rewrite (okt_okt0 t H), is_fl_mtable. Qed.

Lemma Hobj_m k m : get_macro (mtable ds) k = Some m ->
  m_name m = k /\ (m_fun m = false -> forallb (okt2 (mtable ds)) (m_repl m) = true).
Proof.
  rewrite get_mtable. destruct (dlookup ds k) as [b|] eqn:E; [|discriminate]. cbn. intros H. injection H as <-.
  split; [reflexivity|]. intros _. cbn [omacro m_repl]. apply okt2_set_w_hd.
  apply (forallb_impl okd (okt2 (mtable ds))); [intros x Hx; apply okt_okt2, okd_okt, Hx|].
  eapply dlookup_ok; [apply Hbodies|exact E].
Qed.

Lemma is_flb_defs t : is_flb (stable_of_defs ds) t = false.
Proof.
  unfold is_flb. rewrite slookup_defs. destruct (dlookup ds (bt t)); cbn; now rewrite andb_false_r.
Qed.
Lemma okb_okb2 t : okb t = true -> okb2 (stable_of_defs ds) t = true.
Proof. intros H. unfold okb2. now rewrite H, is_flb_defs. Qed.

Lemma HSobj_s k b0 : slookup (stable_of_defs ds) k = Some (SObj b0) -> forallb (okb2 (stable_of_defs ds)) b0 = true.
Proof.
  rewrite slookup_defs. destruct (dlookup ds k) as [b|] eqn:E; [|discriminate]. cbn. intros H. injection H as <-.
  rewrite forallb_forall. intros x Hx. apply in_map_iff in Hx.
  destruct Hx as (t & <- & Ht). apply okb_okb2, okd_okb.
  pose proof (dlookup_ok ds k b Hbodies E) as Hb. rewrite forallb_forall in Hb. now apply Hb.
Qed.

(* ---------- E and ES give the same spellings ---------- *)
Definition sp (t : tok) : tkind * string := (tk t, tt t).
Definition sph (t : htok) : tkind * string := (hk t, ht t).
Definition hl (hs : list string) (t : tok) : htok := lift hs (btok_of t).

Lemma hl_body w hs b : hset_w w (map (lift hs) (map btok_of b)) = map (hl hs) (set_w_hd w b).
Proof. destruct b as [|t r]; cbn; [reflexivity|]. rewrite map_map. reflexivity. Qed.
Lemma set_w_hd_twice w w' (b : list tok) : set_w_hd w (set_w_hd w' b) = set_w_hd w b.
Proof. destruct b; reflexivity. Qed.

Lemma corr_tok d ne hs t
  (IH : forall ne' hs' ts', (forall s, in_noexp s ne' = mem s hs') -> forallb okt ts' = true ->
        match d with O => True | S d' =>
          map sp (flat_map (E (mtable ds) d' ne') ts') = map sph (flat_map (ES (stable_of_defs ds) d') (map (hl hs') ts')) end) :
  (forall s, in_noexp s ne = mem s hs) -> okt t = true ->
  map sp (E (mtable ds) d ne t) = map sph (ES (stable_of_defs ds) d (hl hs t)).
Proof.
  intros Hne Hot. rewrite E_eq, ES_eq. cbn [hl lift btok_of hk hw ht hh bk bw bt].
  change (tkind_eqb (tk t) KId) with (is_id t).
  destruct (is_id t); cbn [negb]; [|reflexivity].
  assert (Hx : tx t = true) by (unfold okt in Hot; apply andb_true_iff in Hot; tauto).
  rewrite Hx. cbn [negb orb]. rewrite Hne.
  destruct (mem (tt t) hs) eqn:Hm; [reflexivity|].
  rewrite get_mtable, slookup_defs. destruct (dlookup ds (tt t)) as [b|] eqn:Eb; cbn [option_map]; [|reflexivity].
  destruct d as [|d']; [reflexivity|].
  cbn [omacro m_name m_repl]. rewrite set_w_hd_twice, hl_body.
  apply (IH (Some (tt t) :: ne) (tt t :: hs) (set_w_hd (tw t) b)).
  - intros s. cbn [in_noexp existsb]. change (existsb _ ne) with (in_noexp s ne). rewrite Hne.
    unfold mem. cbn [existsb]. now rewrite String.eqb_sym.
  - apply okt_set_w_hd. apply (forallb_impl okd okt); [apply okd_okt|]. eapply dlookup_ok; [apply Hbodies|exact Eb].
Qed.

Lemma corr d : forall ne hs ts,
  (forall s, in_noexp s ne = mem s hs) -> forallb okt ts = true ->
  map sp (flat_map (E (mtable ds) d ne) ts) = map sph (flat_map (ES (stable_of_defs ds) d) (map (hl hs) ts)).
Proof.
  induction d as [|d IHd]; intros ne hs ts Hne; induction ts as [|t r IHr]; intros Hok; try reflexivity;
    cbn [forallb] in Hok; apply andb_true_iff in Hok; destruct Hok as [Hot Hor];
    cbn [map flat_map]; rewrite !map_app, (IHr Hor); f_equal; apply corr_tok; try assumption;
    intros ne' hs' ts' H1 H2; try exact I; now apply IHd.
Qed.

(* ---------- the table is one S accepts ---------- *)
Lemma no_cat_facts (b : list btok) :
  forallb okb b = true ->
  existsb (b_is KId "defined") b = false /\ ends_cat b = false /\ starts_with_cat b = false /\ cat_cat b = false.
Proof.
  intros H.
  assert (Hc : forall t, In t b -> b_is KOp "##" t = false /\ b_is KId "defined" t = false).
  { intros t Ht. rewrite forallb_forall in H. specialize (H t Ht). unfold okb in H.
    rewrite !andb_true_iff, !negb_true_iff in H. destruct H as [[H1 _] H3]. unfold b_is.
    split; [now rewrite H1, andb_false_r|exact H3]. }
  repeat split.
  - apply not_true_is_false. intros He. apply existsb_exists in He. destruct He as (t & Ht & He).
    destruct (Hc t Ht) as [_ H2]. congruence.
  - unfold ends_cat. destruct (rev b) as [|t r] eqn:E; [reflexivity|].
    apply Hc. apply in_rev. rewrite E. now left.
  - destruct b as [|t r]; [reflexivity|]. apply Hc. now left.
  - clear H. induction b as [|a r IH]; [reflexivity|]. cbn [cat_cat]. destruct r as [|c r']; [reflexivity|].
    destruct (Hc a (or_introl eq_refl)) as [-> _]. cbn [andb orb]. apply IH. intros t Ht. apply Hc. now right.
Qed.

Lemma table_ok_defs : table_ok (stable_of_defs ds) = true.
Proof.
  unfold table_ok. apply andb_true_iff. split.
  - unfold stable_of_defs. rewrite map_map. cbn [fst]. unfold wf_defs in Hwf. apply andb_true_iff in Hwf. tauto.
  - rewrite forallb_forall. intros e He. unfold stable_of_defs in He. apply in_map_iff in He.
    destruct He as ([n b] & <- & Hd). cbn [fst snd body_of].
    pose proof Hbodies as Hb. rewrite forallb_forall in Hb. specialize (Hb _ Hd). cbn [fst snd] in Hb.
    apply andb_true_iff in Hb. destruct Hb as [Hn Hb].
    assert (Hokb : forallb okb (map btok_of b) = true).
    { rewrite forallb_forall. intros x Hx. apply in_map_iff in Hx. destruct Hx as (t & <- & Ht).
      apply okd_okb. rewrite forallb_forall in Hb. now apply Hb. }
    destruct (no_cat_facts _ Hokb) as (H1 & H2 & H3 & H4). rewrite Hn, H1, H2, H3, H4. cbn [negb andb].
    apply negb_true_iff. apply not_true_is_false. intros He. apply existsb_exists in He.
    destruct He as (x & Hx & He). apply in_map_iff in Hx. destruct Hx as (t & <- & Ht).
    rewrite forallb_forall in Hb. specialize (Hb t Ht). unfold okd in Hb. rewrite !andb_true_iff, negb_true_iff in Hb.
    destruct Hb as [_ Hv]. unfold b_is in He. cbn [btok_of bk bt] in He. unfold is_id in Hv. congruence.
Qed.

Lemma sdefined_plain tb (l : list btok) : forallb okb l = true -> sdefined tb l = Ok l.
Proof.
  induction l as [|t r IH]; intros H; cbn [sdefined]; [reflexivity|].
  cbn [forallb] in H. apply andb_true_iff in H. destruct H as [Ht Hr].
  unfold okb in Ht. rewrite !andb_true_iff, !negb_true_iff in Ht. destruct Ht as [_ H3].
  unfold b_is. rewrite H3. now rewrite (IH Hr).
Qed.

Lemma build_objlike : build_table 0 (map define_line ds) [] = inl (mtable ds).
Proof.
  apply (build_objlike_acc ds 0 []).
  - unfold wf_defs in Hwf. apply andb_true_iff in Hwf. tauto.
  - apply (forallb_impl _ _ ds (fun d H => proj2 (proj1 (andb_true_iff _ _) H)) Hbodies).
Qed.

(* ---------- `defined` in the source list ---------- *)
Definition is_def (t : tok) : bool := is_id t && is_txt "defined" t.

(* well-formed source list: every `defined` is followed by an identifier or by ( identifier );
   every other token is admissible for the fragment *)
Fixpoint wfd2 (ts : list tok) : bool :=
  match ts with
  | [] => true
  | t :: r =>
      if is_def t then
        match r with
        | x :: r1 =>
            if is_punct "(" x then
              match r1 with
              | id :: c :: r2 => is_id id && is_punct ")" c && wfd2 r2
              | _ => false
              end
            else is_id x && negb (is_txt "(" x) && wfd2 r1
        | [] => false
        end
      else okd t && wfd2 r
  end.

Lemma items_ind (P : list tok -> Prop) :
  P [] ->
  (forall t x r, is_def t = true -> is_punct "(" x = false -> is_id x = true -> is_txt "(" x = false ->
                 P r -> P (t :: x :: r)) ->
  (forall t x id c r, is_def t = true -> is_punct "(" x = true -> is_id id = true -> is_punct ")" c = true ->
                      P r -> P (t :: x :: id :: c :: r)) ->
  (forall t r, is_def t = false -> okd t = true -> P r -> P (t :: r)) ->
  forall ts, wfd2 ts = true -> P ts.
Proof.
  intros H0 H1 H2 H3 ts.
  assert (Hn : forall n l, List.length l <= n -> wfd2 l = true -> P l).
  { induction n as [|n IH]; intros l Hl Hw.
    - destruct l; [exact H0|cbn in Hl; lia].
    - destruct l as [|t r]; [exact H0|]. cbn [wfd2] in Hw.
      destruct (is_def t) eqn:Hd.
      + destruct r as [|x r1]; [discriminate|].
        destruct (is_punct "(" x) eqn:Hp.
        * destruct r1 as [|id [|c r2]]; try discriminate.
          rewrite !andb_true_iff in Hw. destruct Hw as [[Hi Hc] Hw].
          apply H2; try assumption. apply IH; [cbn in Hl; lia|assumption].
        * rewrite !andb_true_iff, negb_true_iff in Hw. destruct Hw as [[Hx Hnp] Hw].
          apply H1; try assumption. apply IH; [cbn in Hl; lia|assumption].
      + rewrite andb_true_iff in Hw. destruct Hw as [Ho Hw].
        apply H3; try assumption. apply IH; [cbn in Hl; lia|assumption]. }
  intros Hw. exact (Hn (List.length ts) ts (le_n _) Hw).
Qed.

Lemma is_punct_txt s x : is_punct s x = true -> is_txt s x = true.
Proof. unfold is_punct, is_txt. rewrite andb_true_iff. tauto. Qed.

(* the source list after the evaluation of `defined` (6.10.1), on implementation tokens *)
Definition numd (d x : tok) : tok :=
  mkTok KNum (tw d) (match dlookup ds (tt x) with Some _ => "1" | None => "0" end) true.
Fixpoint DSt (ts : list tok) : list tok :=
  match ts with
  | [] => []
  | t :: r =>
      if is_def t then
        match r with
        | x :: r1 =>
            if is_punct "(" x then
              match r1 with
              | id :: _ :: r2 => numd t id :: DSt r2
              | _ => []
              end
            else numd t x :: DSt r1
        | [] => []
        end
      else t :: DSt r
  end.

Lemma wfd2_wfd ts : wfd2 ts = true -> wfd (mtable ds) ts = true.
Proof.
  apply (items_ind (fun l => wfd (mtable ds) l = true)); [reflexivity| | |].
  - intros t x r Hd Hp Hx Hnp IH. cbn [wfd]. unfold is_def in Hd. rewrite Hd, Hnp, Hx. exact IH.
  - intros t x id c r Hd Hp Hi Hc IH. cbn [wfd]. unfold is_def in Hd.
    rewrite Hd, (is_punct_txt _ _ Hp), Hi, (is_punct_txt _ _ Hc). exact IH.
  - intros t r Hd Ho IH. cbn [wfd]. unfold is_def in Hd. rewrite Hd.
    unfold okd in Ho. rewrite !andb_true_iff in Ho. destruct Ho as [[Hx _] _]. now rewrite Hx, is_fl_mtable.
Qed.

Lemma okd_numd d x : okd (numd d x) = true.
Proof. unfold numd. destruct (dlookup ds (tt x)); reflexivity. Qed.

Lemma DSt_okd ts : wfd2 ts = true -> forallb okd (DSt ts) = true.
Proof.
  apply (items_ind (fun l => forallb okd (DSt l) = true)); [reflexivity| | |].
  - intros t x r Hd Hp _ _ IH. cbn [DSt]. rewrite Hd, Hp. cbn [forallb]. now rewrite okd_numd.
  - intros t x id c r Hd Hp _ _ IH. cbn [DSt]. rewrite Hd, Hp. cbn [forallb]. now rewrite okd_numd.
  - intros t r Hd Ho IH. cbn [DSt]. rewrite Hd. cbn [forallb]. now rewrite Ho.
Qed.

Lemma sdefined_DSt ts : wfd2 ts = true ->
  sdefined (stable_of_defs ds) (map btok_of ts) = Ok (map btok_of (DSt ts)).
Proof.
  apply (items_ind (fun l => sdefined (stable_of_defs ds) (map btok_of l) = Ok (map btok_of (DSt l)))); [reflexivity| | |].
  - intros t x r Hd Hp Hx _ IH. cbn [map sdefined DSt]. rewrite Hd, Hp.
    change (b_is KId "defined" (btok_of t)) with (is_def t). rewrite Hd.
    change (tkind_eqb (bk (btok_of x)) KId) with (is_id x). rewrite Hx. rewrite IH. cbn [map].
    unfold numd, btok_of at 2. cbn [tk tw tt btok_of bt bw].
    rewrite slookup_defs. destruct (dlookup ds (tt x)); reflexivity.
  - intros t x id c r Hd Hp Hi Hc IH. cbn [map sdefined DSt]. rewrite Hd, Hp.
    change (b_is KId "defined" (btok_of t)) with (is_def t). rewrite Hd.
    assert (Hxk : is_id x = false).
    { unfold is_punct in Hp. apply andb_true_iff in Hp. destruct Hp as [Hk _]. unfold is_id. destruct (tk x); try discriminate; reflexivity. }
    change (tkind_eqb (bk (btok_of x)) KId) with (is_id x). rewrite Hxk.
    change (b_is KPunct "(" (btok_of x)) with (is_punct "(" x). rewrite Hp.
    change (tkind_eqb (bk (btok_of id)) KId) with (is_id id). rewrite Hi.
    change (b_is KPunct ")" (btok_of c)) with (is_punct ")" c). rewrite Hc. cbn [andb].
    rewrite IH. cbn [map]. unfold numd, btok_of at 2. cbn [tk tw tt btok_of bt bw].
    rewrite slookup_defs. destruct (dlookup ds (tt id)); reflexivity.
  - intros t r Hd Ho IH. cbn [map sdefined DSt]. rewrite Hd.
    change (b_is KId "defined" (btok_of t)) with (is_def t). rewrite Hd. now rewrite IH.
Qed.

Lemma EI_DSt d ne ts : wfd2 ts = true ->
  map sp (EI (mtable ds) d ne ts) = map sp (flat_map (E (mtable ds) d ne) (DSt ts)).
Proof.
  apply (items_ind (fun l => map sp (EI (mtable ds) d ne l) = map sp (flat_map (E (mtable ds) d ne) (DSt l)))); [reflexivity| | |].
  - intros t x r Hd Hp Hx Hnp IH. cbn [EI DSt]. unfold is_def in Hd. rewrite Hd, Hnp. fold (is_def t).
    unfold is_def. rewrite Hd, Hp. cbn [flat_map map]. rewrite E_eq. cbn [numd is_id tk tkind_eqb negb app map].
    rewrite IH. f_equal. unfold sp, defined_tok, numd. cbn [tk tt]. rewrite get_mtable.
    destruct (dlookup ds (tt x)); reflexivity.
  - intros t x id c r Hd Hp Hi Hc IH. cbn [EI DSt]. unfold is_def in Hd. rewrite Hd, (is_punct_txt _ _ Hp).
    unfold is_def. rewrite Hd, Hp. cbn [flat_map map]. rewrite E_eq. cbn [numd is_id tk tkind_eqb negb app map].
    rewrite IH. f_equal. unfold sp, defined_tok, numd. cbn [tk tt]. rewrite get_mtable.
    destruct (dlookup ds (tt id)); reflexivity.
  - intros t r Hd Ho IH. cbn [EI DSt]. unfold is_def in Hd. rewrite Hd. unfold is_def. rewrite Hd.
    cbn [flat_map]. now rewrite !map_app, IH.
Qed.

(* ---------- main theorem ---------- *)
Theorem objlike_defined_main (lead cat_fix str_white resub_fix va_fix va_whole : bool) (max_level : nat) (input : list tok) :
  wfd2 input = true ->
  S (List.length ds) < max_level ->
  exists n, forall fuel, n <= fuel ->
    exists out,
      expand lead cat_fix str_white resub_fix None false va_fix va_whole max_level (mtable ds) fuel input = Ok out /\
      run_spec fuel (stable_of_defs ds) (map btok_of input) = Ok (map sp out).
Proof.
  intros Hin Hlev.
  pose proof (DSt_okd input Hin) as Hd.
  assert (Hd_t : forallb okt (DSt input) = true) by (apply (forallb_impl okd okt); [apply okd_okt|assumption]).
  assert (Hd_b : forallb okb (map btok_of (DSt input)) = true).
  { rewrite forallb_forall. intros x Hx. apply in_map_iff in Hx. destruct Hx as (t & <- & Ht).
    apply okd_okb. rewrite forallb_forall in Hd. now apply Hd. }
  destruct (expand_objlike_defined lead cat_fix str_white resub_fix va_fix va_whole max_level (mtable ds) Hobj_m input
              (wfd2_wfd input Hin)) as (n1 & H1).
  { unfold names, mtable. now rewrite !map_length. }
  destruct (expandS_objlike (stable_of_defs ds) HSobj_s (map btok_of (DSt input))) as (n2 & H2).
  { apply (forallb_impl okb (okb2 (stable_of_defs ds))); [apply okb_okb2|assumption]. }
  exists (n1 + n2). intros fuel Hf. eexists. split; [apply H1; lia|].
  unfold run_spec. rewrite table_ok_defs. cbn [negb]. rewrite sdefined_DSt by assumption.
  rewrite H2 by lia. f_equal. unfold EI_all.
  rewrite EI_DSt by assumption.
  rewrite (corr _ [None] [] (DSt input)); [|intros s; reflexivity|assumption].
  unfold names, snames, mtable, stable_of_defs. rewrite !map_length. rewrite !map_map. reflexivity.
Qed.

Theorem objlike_main (lead cat_fix str_white resub_fix va_fix va_whole : bool) (max_level : nat) (input : list tok) :
  forallb okd input = true ->
  S (List.length ds) < max_level ->
  exists n, forall fuel, n <= fuel ->
    exists out,
      expand lead cat_fix str_white resub_fix None false va_fix va_whole max_level (mtable ds) fuel input = Ok out /\
      run_spec fuel (stable_of_defs ds) (map btok_of input) = Ok (map sp out).
Proof.
  intros Hin Hlev.
  assert (Hin_t : forallb okt input = true) by (apply (forallb_impl okd okt); [apply okd_okt|assumption]).
  assert (Hin_b : forallb okb (map btok_of input) = true).
  { rewrite forallb_forall. intros x Hx. apply in_map_iff in Hx. destruct Hx as (t & <- & Ht).
    apply okd_okb. rewrite forallb_forall in Hin. now apply Hin. }
  destruct (expand_objlike lead cat_fix str_white resub_fix va_fix va_whole max_level (mtable ds) Hobj_m input) as (n1 & H1).
  { apply (forallb_impl okt (okt2 (mtable ds))); [apply okt_okt2|assumption]. }
  { unfold names, mtable. now rewrite !map_length. }
  destruct (expandS_objlike (stable_of_defs ds) HSobj_s (map btok_of input)) as (n2 & H2).
  { apply (forallb_impl okb (okb2 (stable_of_defs ds))); [apply okb_okb2|assumption]. }
  exists (n1 + n2). intros fuel Hf. eexists. split; [apply H1; lia|].
  unfold run_spec. rewrite table_ok_defs. cbn [negb]. rewrite sdefined_plain by assumption.
  rewrite H2 by lia. f_equal. unfold E_all.
  rewrite (corr _ [None] [] input); [|intros s; reflexivity|assumption].
  unfold names, snames, mtable, stable_of_defs. rewrite !map_length. rewrite !map_map. reflexivity.
Qed.
End Join.
