(* C15 — lemmas about the file-system model: realpath is compositional,
   returns real paths, is the identity on real paths (hence idempotent), and
   is monotone in its fuel; the enumeration below a real directory yields real
   paths; the non-link members are exactly the members of the tree with the
   links removed. *)
From Coq Require Import Bool Arith String List Lia.
From CBI Require Import Lib.Res Model.C04 Model.C15fs.
Import ListNotations.
Local Open Scope string_scope.
Local Open Scope list_scope.

(* ---------- a usable induction principle for the nested type ---------- *)
Section fnode_ind2.
Variable P : fnode -> Prop.
Hypothesis Hf : forall k, P (File k).
Hypothesis Hl : forall a t, P (Link a t).
Hypothesis Hd : forall kids, Forall (fun x => P (snd x)) kids -> P (Dir kids).
Fixpoint fnode_ind2 (n : fnode) : P n :=
  match n with
  | File k => Hf k
  | Link a t => Hl a t
  | Dir kids =>
      Hd kids ((fix go (ks : list (string * fnode)) : Forall (fun x => P (snd x)) ks :=
                  match ks with
                  | [] => Forall_nil _
                  | (nm, k) :: r => Forall_cons (nm, k) (fnode_ind2 k) (go r)
                  end) kids)
  end.
End fnode_ind2.

(* names in a directory are distinct and are never ".", "..", "" *)
Inductive wf : fnode -> Prop :=
| wf_file k : wf (File k)
| wf_link a t : wf (Link a t)
| wf_dir kids : NoDup (map fst kids) -> Forall (fun x => plain (fst x) = true /\ wf (snd x)) kids -> wf (Dir kids).

Lemma node_at_app n a b :
  node_at n (a ++ b) = match node_at n a with Some m => node_at m b | None => None end.
Proof.
  revert n. induction a as [|c a IH]; intros n; cbn; [reflexivity|].
  destruct n as [k|kids|ab t]; try reflexivity. destruct (kid c kids); [apply IH|reflexivity].
Qed.

Lemma kid_in nm k kids : NoDup (map fst kids) -> In (nm, k) kids -> kid nm kids = Some k.
Proof.
  induction kids as [|[n0 k0] r IH]; cbn; [intros _ []|]. intros Hnd [H|H].
  - inversion H; subst. rewrite String.eqb_refl. reflexivity.
  - inversion Hnd; subst. destruct (String.eqb n0 nm) eqn:E.
    + apply String.eqb_eq in E. subst. exfalso. apply H2. apply in_map_iff. exists (nm, k). split; auto.
    + apply IH; assumption.
Qed.

Section FS.
Variable root : fnode.

Notation resolve := (resolve root).
Notation realpath := (realpath root).
Notation real_from := (real_from root).
Notation is_real := (is_real root).

Lemma resolve_nil f acc : resolve f acc [] = Ok acc.
Proof. destruct f; reflexivity. Qed.

Lemma resolve_cons f acc c r :
  resolve f acc (c :: r) =
  if is_dot c then resolve f acc r
  else if is_dotdot c then resolve f (removelast acc) r
  else match node_at root (acc ++ [c]) with
       | Some (Link ab tgt) =>
           match f with
           | 0 => Err eloop
           | S f' => match resolve f' (if ab then [] else acc) tgt with
                     | Ok acc' => resolve f acc' r
                     | Err e => Err e
                     end
           end
       | _ => resolve f (acc ++ [c]) r
       end.
Proof. destruct f; reflexivity. Qed.

(* compositional: resolving a ++ b is resolving a, then b from the result — with the SAME fuel *)
Lemma resolve_app f a : forall acc b,
  resolve f acc (a ++ b) = match resolve f acc a with Ok acc' => resolve f acc' b | Err e => Err e end.
Proof.
  induction a as [|c a IH]; intros acc b.
  - rewrite resolve_nil. reflexivity.
  - cbn [app]. rewrite !resolve_cons.
    destruct (is_dot c); [apply IH|]. destruct (is_dotdot c); [apply IH|].
    destruct (node_at root (acc ++ [c])) as [[k|kids|ab tgt]|]; try apply IH.
    destruct f as [|f']; [reflexivity|].
    destruct (Model.C15fs.resolve root f' (if ab then [] else acc) tgt); [apply IH|reflexivity].
Qed.

(* ---------- real paths ---------- *)
Lemma real_from_app a b c : real_from a (b ++ c) = real_from a b && real_from (a ++ b) c.
Proof.
  revert a. induction b as [|x b IH]; intros a; cbn.
  - rewrite app_nil_r. reflexivity.
  - rewrite IH. rewrite <- app_assoc. cbn. rewrite !andb_assoc. reflexivity.
Qed.

Lemma removelast_snoc {A} (l : list A) x : removelast (l ++ [x]) = l.
Proof. apply removelast_last. Qed.

Lemma real_removelast p : is_real p = true -> is_real (removelast p) = true.
Proof.
  unfold Model.C15fs.is_real. induction p as [|x l _] using rev_ind; [reflexivity|].
  rewrite removelast_snoc, real_from_app. intros H0. apply andb_true_iff in H0. apply H0.
Qed.

Lemma real_snoc p c :
  is_real p = true -> plain c = true -> nolink (node_at root (p ++ [c])) = true -> is_real (p ++ [c]) = true.
Proof.
  unfold Model.C15fs.is_real. intros H1 H2 H3. rewrite real_from_app, H1. cbn. rewrite H2, H3. reflexivity.
Qed.

(* the result of a resolution from a real prefix is real *)
Lemma resolve_real f : forall rest acc q,
  is_real acc = true -> resolve f acc rest = Ok q -> is_real q = true.
Proof.
  induction f as [|f IHf].
  - induction rest as [|c r IH]; intros acc q Ha.
    + rewrite resolve_nil. intros H; inversion H; subst; exact Ha.
    + rewrite resolve_cons. destruct (is_dot c) eqn:E1; [apply IH; exact Ha|].
      destruct (is_dotdot c) eqn:E2; [apply IH; apply real_removelast; exact Ha|].
      destruct (node_at root (acc ++ [c])) as [[k|kids|ab tgt]|] eqn:En; try discriminate;
        (apply IH; apply real_snoc; [exact Ha|unfold plain; rewrite E1, E2; reflexivity|rewrite En; reflexivity]).
  - induction rest as [|c r IH]; intros acc q Ha.
    + rewrite resolve_nil. intros H; inversion H; subst; exact Ha.
    + rewrite resolve_cons. destruct (is_dot c) eqn:E1; [apply IH; exact Ha|].
      destruct (is_dotdot c) eqn:E2; [apply IH; apply real_removelast; exact Ha|].
      destruct (node_at root (acc ++ [c])) as [[k|kids|ab tgt]|] eqn:En;
        try (apply IH; apply real_snoc; [exact Ha|unfold plain; rewrite E1, E2; reflexivity|rewrite En; reflexivity]).
      destruct (Model.C15fs.resolve root f (if ab then [] else acc) tgt) as [acc'|e] eqn:Er; [|discriminate].
      apply IH. apply (IHf tgt (if ab then [] else acc) acc'); [|exact Er].
      destruct ab; [reflexivity|exact Ha].
Qed.

(* resolution is the identity along a real continuation, whatever the fuel *)
Lemma resolve_of_real f : forall rest acc,
  real_from acc rest = true -> resolve f acc rest = Ok (acc ++ rest).
Proof.
  induction rest as [|c r IH]; intros acc H.
  - rewrite resolve_nil, app_nil_r. reflexivity.
  - cbn in H. apply andb_true_iff in H. destruct H as [H Hr]. apply andb_true_iff in H. destruct H as [Hp Hn].
    unfold plain in Hp. apply andb_true_iff in Hp. destruct Hp as [H1 H2].
    rewrite resolve_cons. apply negb_true_iff in H1, H2. rewrite H1, H2.
    destruct (node_at root (acc ++ [c])) as [[k|kids|ab tgt]|]; try discriminate;
      (rewrite IH by exact Hr; rewrite <- app_assoc; reflexivity).
Qed.

Theorem realpath_is_real f p q : realpath f p = Ok q -> is_real q = true.
Proof. apply resolve_real. reflexivity. Qed.

Theorem realpath_of_real f p : is_real p = true -> realpath f p = Ok p.
Proof. intros H. unfold Model.C15fs.realpath. rewrite resolve_of_real; [reflexivity|exact H]. Qed.

Theorem realpath_idempotent f f' p q : realpath f p = Ok q -> realpath f' q = Ok q.
Proof. intros H. apply realpath_of_real. eapply realpath_is_real; exact H. Qed.

(* more fuel never changes a successful answer *)
Lemma resolve_mono f : forall rest acc q, resolve f acc rest = Ok q -> resolve (S f) acc rest = Ok q.
Proof.
  induction f as [|f IHf].
  - induction rest as [|c r IH]; intros acc q.
    + rewrite !resolve_nil. auto.
    + rewrite !resolve_cons. destruct (is_dot c); [apply IH|]. destruct (is_dotdot c); [apply IH|].
      destruct (node_at root (acc ++ [c])) as [[k|kids|ab tgt]|]; try apply IH. discriminate.
  - induction rest as [|c r IH]; intros acc q.
    + rewrite !resolve_nil. auto.
    + rewrite (resolve_cons (S (S f))), (resolve_cons (S f)).
      destruct (is_dot c); [apply IH|]. destruct (is_dotdot c); [apply IH|].
      destruct (node_at root (acc ++ [c])) as [[k|kids|ab tgt]|]; try apply IH.
      destruct (Model.C15fs.resolve root f (if ab then [] else acc) tgt) as [acc'|e] eqn:Er; [|discriminate].
      rewrite (IHf _ _ _ Er). apply IH.
Qed.

Theorem realpath_mono f g p q : f <= g -> realpath f p = Ok q -> realpath g p = Ok q.
Proof.
  intros Hle. induction Hle; [auto|]. intros H. apply resolve_mono. apply IHHle. exact H.
Qed.

(* two spellings of one directory are interchangeable as search directories *)
Theorem dir_alias f d1 d2 n : realpath f d1 = realpath f d2 -> realpath f (d1 ++ n) = realpath f (d2 ++ n).
Proof. unfold Model.C15fs.realpath. intros H. rewrite !resolve_app, H. reflexivity. Qed.

(* ---------- enumeration ---------- *)
Definition walk_list (here : path) (ks : list (string * fnode)) : list path :=
  flat_map (fun x => (here ++ [fst x]) :: walk (snd x) (here ++ [fst x])) ks.
Lemma walk_dir kids here : walk (Dir kids) here = walk_list here kids.
Proof.
  unfold walk_list. cbn. induction kids as [|[nm k] r IH]; [reflexivity|]. cbn. rewrite IH. reflexivity.
Qed.

Lemma walk_real n : forall here,
  wf n -> node_at root here = Some n -> is_real here = true ->
  forall p, In p (walk n here) -> nolink (node_at root p) = true -> is_real p = true.
Proof.
  induction n as [k|a t|kids IH] using fnode_ind2; intros here Hwf Hn Hr p; try (cbn; intros []).
  rewrite walk_dir. inversion Hwf as [| |kids' Hnd Hall]; subst.
  assert (Hkid : forall nm k, In (nm, k) kids -> node_at root (here ++ [nm]) = Some k).
  { intros nm k Hin. rewrite node_at_app, Hn. cbn. rewrite (kid_in nm k kids Hnd Hin). reflexivity. }
  unfold walk_list. intros Hp Hnl. apply in_flat_map in Hp. destruct Hp as ([nm k] & Hin & Hp). cbn [fst snd] in Hp.
  rewrite Forall_forall in IH, Hall. specialize (IH _ Hin). destruct (Hall _ Hin) as [Hpl Hwk]. cbn [fst snd] in *.
  destruct Hp as [Hp|Hp].
  - subst. apply real_snoc; auto.
  - destruct k as [key|kk|a t]; try (cbn in Hp; contradiction).
    apply (IH (here ++ [nm])); auto.
    apply real_snoc; auto. rewrite (Hkid nm (Dir kk) Hin). reflexivity.
Qed.

Lemma kid_wf c k kids :
  Forall (fun x => plain (fst x) = true /\ wf (snd x)) kids -> kid c kids = Some k -> wf k.
Proof.
  induction kids as [|[n0 k0] r IHr]; cbn; [discriminate|]. intros Hall.
  inversion Hall as [|x l [_ Hw] Hall']; subst. destruct (String.eqb n0 c).
  - intros H; inversion H; subst. exact Hw.
  - apply IHr; assumption.
Qed.

Lemma wf_sub d : forall m n, wf m -> node_at m d = Some n -> wf n.
Proof.
  induction d as [|c d IH]; intros m n Hwf; cbn.
  - intros H; inversion H; subst; exact Hwf.
  - destruct m as [k|kids|a t]; try discriminate. destruct (kid c kids) as [k|] eqn:Ek; [|discriminate].
    inversion Hwf as [| |kids' Hnd Hall]; subst. apply IH. eapply kid_wf; eauto.
Qed.

Theorem rglob_real d p :
  wf root -> is_real d = true -> In p (rglob root d) -> nolink (node_at root p) = true -> is_real p = true.
Proof.
  intros Hwf Hd. unfold rglob. destruct (node_at root d) as [n|] eqn:En; [|intros []].
  apply walk_real; auto. eapply wf_sub; eauto.
Qed.

End FS.
